(* C03 lemmas: the Python-shaped tape against the bi-infinite tape; DTM, NTM and MNTM
   simulators against the textbook step relations. *)
From Coq Require Import List Arith ZArith Bool Lia.
From AV Require Import Base.Util Spec.TM Model.TM.
Import ListNotations.

(* ================= tape ================= *)
Section Tape.

Definition wf (t : tape) : Prop := t_pos t < length (t_cells t).

Lemma nth_app_repeat (l : list nat) b k n : nth n (l ++ repeat b k) b = nth n l b.
Proof.
  destruct (Nat.lt_ge_cases n (length l)) as [H|H].
  - apply app_nth1. exact H.
  - rewrite app_nth2 by exact H. rewrite (nth_overflow l) by exact H.
    destruct (Nat.lt_ge_cases (n - length l) k) as [H1|H1].
    + apply nth_repeat.
    + apply nth_overflow. rewrite repeat_length. exact H1.
Qed.

Lemma nth_app_blank (l : list nat) b n : nth n (l ++ [b]) b = nth n l b.
Proof. exact (nth_app_repeat l b 1 n). Qed.

Lemma upd_length i x l : length (upd i x l) = length l.
Proof.
  unfold upd. revert i. induction l as [|y l IH]; intros [|i]; simpl; try reflexivity.
  f_equal. apply IH.
Qed.

Lemma nth_upd_same i x l d : i < length l -> nth i (upd i x l) d = x.
Proof.
  unfold upd. revert i. induction l as [|y l IH]; intros [|i] H; simpl in *; try lia.
  apply IH. lia.
Qed.

Lemma nth_upd_other i j x l d : i <> j -> nth j (upd i x l) d = nth j l d.
Proof.
  unfold upd. revert i j. induction l as [|y l IH]; intros [|i] [|j] H; simpl; try reflexivity; try lia.
  apply IH. lia.
Qed.

Lemma wf_init cells b p : wf (tape_init cells b p).
Proof. unfold wf, tape_init. cbn [t_pos t_cells]. rewrite app_length, repeat_length. lia. Qed.

Lemma view_init w b : zeq (view (tape_init w b 0)) (zinput b w).
Proof.
  intro z. unfold view, zinput, tape_init. simpl.
  destruct (Z.ltb_spec z 0) as [H|H]; [reflexivity|]. apply nth_app_repeat.
Qed.

Lemma view_init_blank b : zeq (view (tape_init [b] b 0)) (zblank b).
Proof.
  intro z. unfold view, zblank, tape_init. simpl.
  destruct (Z.ltb_spec z 0) as [H|H]; [reflexivity|].
  destruct (Z.to_nat z) as [|[|n]]; reflexivity.
Qed.

Lemma read_view t : t_read t = view t 0%Z.
Proof.
  unfold t_read, view. rewrite Z.add_0_r.
  destruct (Z.ltb_spec (Z.of_nat (t_pos t)) 0) as [H|H]; [lia|]. rewrite Nat2Z.id. reflexivity.
Qed.

Lemma wf_write t s : wf t -> wf (t_write t s).
Proof. unfold wf, t_write. simpl. rewrite upd_length. auto. Qed.

Lemma blank_write t s : t_blank (t_write t s) = t_blank t.
Proof. reflexivity. Qed.

Lemma write_view t s : wf t -> zeq (view (t_write t s)) (zwrite (view t) s).
Proof.
  intros Hwf z. unfold wf in Hwf. unfold view, zwrite, t_write. simpl.
  destruct (Z.eqb_spec z 0) as [E|E].
  - subst z. rewrite Z.add_0_r.
    destruct (Z.ltb_spec (Z.of_nat (t_pos t)) 0) as [H|H]; [lia|].
    rewrite Nat2Z.id. apply nth_upd_same. exact Hwf.
  - destruct (Z.ltb_spec (Z.of_nat (t_pos t) + z) 0) as [H|H]; [reflexivity|].
    apply nth_upd_other. lia.
Qed.

Lemma blank_move t d : t_blank (t_move t d) = t_blank t.
Proof. reflexivity. Qed.

Lemma wf_move t d : wf t -> wf (t_move t d).
Proof.
  unfold wf, t_move. intro Hwf. cbv zeta. cbn [t_cells t_pos].
  destruct (Z.eqb_spec (Z.of_nat (t_pos t) + doff d) (-1)) as [E|E].
  - destruct (Z.eqb_spec (Z.of_nat (t_pos t) + doff d + 1) (Z.of_nat (length (t_blank t :: t_cells t)))) as [E2|E2].
    + cbn [length] in E2. lia.
    + cbn [length]. lia.
  - destruct (Z.eqb_spec (Z.of_nat (t_pos t) + doff d) (Z.of_nat (length (t_cells t)))) as [E2|E2].
    + rewrite app_length. cbn [length]. destruct d; cbn [doff] in *; lia.
    + destruct d; cbn [doff] in *; lia.
Qed.

Lemma move_view t d : wf t -> zeq (view (t_move t d)) (zmove d (view t)).
Proof.
  unfold wf. intros Hwf z. unfold zmove, view, t_move. cbv zeta. cbn [t_cells t_pos t_blank].
  destruct (Z.eqb_spec (Z.of_nat (t_pos t) + doff d) (-1)) as [E|E].
  - assert (Hp : t_pos t = 0) by (destruct d; cbn [doff] in E; lia).
    assert (Hd : doff d = (-1)%Z) by (destruct d; cbn [doff] in *; lia).
    rewrite Hd, Hp in *. clear E.
    destruct (Z.eqb_spec (Z.of_nat 0 + -1 + 1) (Z.of_nat (length (t_blank t :: t_cells t)))) as [E2|E2];
      [cbn [length] in E2; lia|].
    replace (Z.to_nat (Z.of_nat 0 + -1 + 1)) with 0 by lia.
    destruct (Z.ltb_spec (Z.of_nat 0 + z) 0) as [H|H];
      destruct (Z.ltb_spec (Z.of_nat 0 + (z + -1)) 0) as [H'|H']; try lia; try reflexivity.
    + replace (Z.to_nat (Z.of_nat 0 + z)) with 0 by lia. reflexivity.
    + replace (Z.to_nat (Z.of_nat 0 + z)) with (S (Z.to_nat (Z.of_nat 0 + (z + -1)))) by lia. reflexivity.
  - assert (Hnn : (0 <= Z.of_nat (t_pos t) + doff d)%Z) by (destruct d; cbn [doff] in *; lia).
    replace (Z.of_nat (Z.to_nat (Z.of_nat (t_pos t) + doff d)) + z)%Z
      with (Z.of_nat (t_pos t) + (z + doff d))%Z by lia.
    destruct (Z.eqb_spec (Z.of_nat (t_pos t) + doff d) (Z.of_nat (length (t_cells t)))) as [E2|E2].
    + rewrite nth_app_blank. reflexivity.
    + reflexivity.
Qed.

(* one write+move of the simulator = one textbook action *)
Lemma act_view t s d : wf t -> zeq (view (t_move (t_write t s) d)) (zact (view t) s d).
Proof.
  intros Hwf z. rewrite (move_view _ d (wf_write t s Hwf)). unfold zact, zmove.
  apply (write_view t s Hwf).
Qed.

Lemma wf_act t s d : wf t -> wf (t_move (t_write t s) d).
Proof. intro H. apply wf_move. apply wf_write. exact H. Qed.

End Tape.

(* ================= pointwise equality of tapes and configurations ================= *)
Section Zeq.

Lemma zeq_refl t : zeq t t.
Proof. intro z. reflexivity. Qed.
Lemma zeq_sym a b : zeq a b -> zeq b a.
Proof. intros H z. symmetry. apply H. Qed.
Lemma zeq_trans a b c : zeq a b -> zeq b c -> zeq a c.
Proof. intros H1 H2 z. rewrite H1. apply H2. Qed.

Lemma zact_cong a b s d : zeq a b -> zeq (zact a s d) (zact b s d).
Proof. intros H z. unfold zact, zmove, zwrite. destruct (Z.eqb _ 0); [reflexivity|apply H]. Qed.

Lemma zcfg_eq_refl c : zcfg_eq c c.
Proof. split; [reflexivity|apply zeq_refl]. Qed.
Lemma zcfg_eq_sym c d : zcfg_eq c d -> zcfg_eq d c.
Proof. intros [H1 H2]. split; [auto|apply zeq_sym; exact H2]. Qed.
Lemma zcfg_eq_trans c d e : zcfg_eq c d -> zcfg_eq d e -> zcfg_eq c e.
Proof. intros [H1 H2] [H3 H4]. split; [congruence|eapply zeq_trans; eassumption]. Qed.

End Zeq.

(* ================= DTM ================= *)
Section ListAux.
Context {A : Type}.
Lemma last_cons (a d : A) l : last (a :: l) d = last l a.
Proof.
  revert a d. induction l as [|b l IH]; intros a d; [reflexivity|].
  change (last (a :: b :: l) d) with (last (b :: l) d). rewrite (IH b d), (IH b a). reflexivity.
Qed.
End ListAux.

Section DTM.
Variable m : dtm.

Definition pfinal (c : pcfg) : Prop := In (fst c) (dt_finals m).

Lemma dstep_cong c1 c2 : zcfg_eq c1 c2 ->
  match dstep m c1, dstep m c2 with
  | Some a, Some b => zcfg_eq a b
  | None, None => True
  | _, _ => False
  end.
Proof.
  intros [H1 H2]. unfold dstep. rewrite H1, (H2 0%Z).
  destruct (dt_delta m (fst c2) (snd c2 0%Z)) as [[[q' s] d]|]; [|exact I].
  split; [reflexivity|]. simpl. apply zact_cong. exact H2.
Qed.

Lemma dsteps_cong k : forall c1 c2, zcfg_eq c1 c2 ->
  match dsteps m k c1, dsteps m k c2 with
  | Some a, Some b => zcfg_eq a b
  | None, None => True
  | _, _ => False
  end.
Proof.
  induction k as [|k IH]; intros c1 c2 H; simpl.
  - exact H.
  - pose proof (dstep_cong c1 c2 H) as Hs.
    destruct (dstep m c1) as [a|], (dstep m c2) as [b|]; try contradiction; [|exact I].
    apply IH. exact Hs.
Qed.

Lemma dsteps_add j : forall k c, dsteps m (j + k) c =
  match dsteps m j c with Some c' => dsteps m k c' | None => None end.
Proof.
  induction j as [|j IH]; intros k c; simpl; [reflexivity|].
  destruct (dstep m c) as [c'|]; [apply IH|reflexivity].
Qed.

Lemma dtm_next_abs c : wf (snd c) ->
  match dtm_next m c with
  | Some c' => wf (snd c') /\ exists z, dstep m (abs_cfg c) = Some z /\ zcfg_eq (abs_cfg c') z
  | None => dstep m (abs_cfg c) = None
  end.
Proof.
  intro Hwf. unfold dtm_next, dstep, abs_cfg. cbn [fst snd]. rewrite <- read_view.
  destruct (dt_delta m (fst c) (t_read (snd c))) as [[[q' s] d]|]; [|reflexivity].
  split; [apply wf_act; exact Hwf|]. eexists. split; [reflexivity|].
  split; [reflexivity|]. cbn [fst snd]. apply act_view. exact Hwf.
Qed.

Lemma dtm_run_eq fuel c : dtm_run m fuel c =
  if memb (fst c) (dt_finals m) then ([], Ok c)
  else match dtm_next m c with
       | None => ([], Err Reject)
       | Some c' => match fuel with
                    | 0 => ([], Err Fuel)
                    | S f => let (ys, o) := dtm_run m f c' in (c' :: ys, o)
                    end
       end.
Proof. destruct fuel; reflexivity. Qed.

(* what a run from [c] looks like: [c :: ys] is the textbook orbit of [c], nothing before the
   last element is final, and the ending says why it stopped *)
Definition dtm_trace_ok (fuel : nat) (c : pcfg) (ys : list pcfg) (o : res pcfg) : Prop :=
  (forall k c', nth_error (c :: ys) k = Some c' ->
      wf (snd c') /\ exists z, dsteps m k (abs_cfg c) = Some z /\ zcfg_eq (abs_cfg c') z) /\
  (forall k c', k < length ys -> nth_error (c :: ys) k = Some c' -> ~ pfinal c') /\
  length ys <= fuel /\
  match o with
  | Ok cl => cl = last ys c /\ pfinal cl
  | Err Reject => ~ pfinal (last ys c) /\ dstep m (abs_cfg (last ys c)) = None
  | Err Fuel => length ys = fuel /\ ~ pfinal (last ys c) /\ dstep m (abs_cfg (last ys c)) <> None
  | Err _ => False
  end.

Lemma dtm_trace_single c : wf (snd c) ->
  forall k c', nth_error [c] k = Some c' ->
    wf (snd c') /\ exists z, dsteps m k (abs_cfg c) = Some z /\ zcfg_eq (abs_cfg c') z.
Proof.
  intros Hwf [|[|k]] c' H; simpl in H; try discriminate. inversion H; subst c'.
  split; [exact Hwf|]. exists (abs_cfg c). split; [reflexivity|apply zcfg_eq_refl].
Qed.

Lemma dtm_run_spec fuel : forall c ys o, wf (snd c) -> dtm_run m fuel c = (ys, o) ->
  dtm_trace_ok fuel c ys o.
Proof.
  induction fuel as [|f IH]; intros c ys o Hwf; rewrite dtm_run_eq;
    destruct (memb (fst c) (dt_finals m)) eqn:Ef.
  - intro H. inversion H; subst. split; [apply dtm_trace_single; exact Hwf|].
    split; [intros k c' Hk; simpl in Hk; lia|]. split; [simpl; lia|].
    split; [reflexivity|]. apply memb_In. exact Ef.
  - pose proof (dtm_next_abs c Hwf) as Hn. apply memb_false in Ef.
    destruct (dtm_next m c) as [c1|]; intro H; inversion H; subst.
    + split; [apply dtm_trace_single; exact Hwf|].
      split; [intros k c' Hk; simpl in Hk; lia|]. split; [simpl; lia|].
      split; [reflexivity|]. split; [exact Ef|]. simpl. destruct Hn as [_ [z [Hz _]]]. congruence.
    + split; [apply dtm_trace_single; exact Hwf|].
      split; [intros k c' Hk; simpl in Hk; lia|]. split; [simpl; lia|].
      split; [exact Ef|exact Hn].
  - intro H. inversion H; subst. split; [apply dtm_trace_single; exact Hwf|].
    split; [intros k c' Hk; simpl in Hk; lia|]. split; [simpl; lia|].
    split; [reflexivity|]. apply memb_In. exact Ef.
  - pose proof (dtm_next_abs c Hwf) as Hn. apply memb_false in Ef.
    destruct (dtm_next m c) as [c1|].
    + destruct Hn as [Hwf1 [z1 [Hz1 Hz1e]]].
      destruct (dtm_run m f c1) as [ys1 o1] eqn:Er. intro H. inversion H; subst.
      destruct (IH c1 ys1 o Hwf1 Er) as [T1 [T2 [T3 T4]]].
      split; [|split; [|split]].
      * intros [|k] c' Hk.
        { apply (dtm_trace_single c Hwf 0 c'). exact Hk. }
        simpl in Hk. destruct (T1 k c' Hk) as [Hw [z [Hz Hze]]]. split; [exact Hw|].
        simpl. rewrite Hz1.
        pose proof (dsteps_cong k _ _ Hz1e) as Hc. rewrite Hz in Hc.
        destruct (dsteps m k z1) as [z'|]; [|contradiction].
        exists z'. split; [reflexivity|]. eapply zcfg_eq_trans; eassumption.
      * intros [|k] c' Hk Hn'.
        { simpl in Hn'. inversion Hn'; subst. exact Ef. }
        simpl in Hk, Hn'. apply (T2 k c'); [lia|exact Hn'].
      * simpl. lia.
      * rewrite last_cons. destruct o as [cl|[]]; try exact T4.
        simpl. destruct T4 as [T4 T5]. split; [lia|exact T5].
    + intro H. inversion H; subst.
      split; [apply dtm_trace_single; exact Hwf|].
      split; [intros k c' Hk; simpl in Hk; lia|]. split; [simpl; lia|].
      split; [exact Ef|exact Hn].
Qed.

Lemma nth_error_last {A} (c : A) ys : nth_error (c :: ys) (length ys) = Some (last ys c).
Proof.
  revert c. induction ys as [|y ys IH]; intro c; [reflexivity|].
  rewrite last_cons. simpl length. change (nth_error (c :: y :: ys) (S (length ys))) with (nth_error (y :: ys) (length ys)).
  apply IH.
Qed.

Lemma nth_error_below {A} (l : list A) k : k < length l -> exists x, nth_error l k = Some x.
Proof.
  intro H. destruct (nth_error l k) as [x|] eqn:E; [exists x; reflexivity|].
  apply nth_error_None in E. lia.
Qed.

Lemma dsteps_stuck k c z : dsteps m k c = Some z -> dstep m z = None ->
  forall n, k < n -> dsteps m n c = None.
Proof.
  intros Hk Hs n Hn. replace n with (k + S (n - k - 1)) by lia. rewrite dsteps_add, Hk.
  simpl. rewrite Hs. reflexivity.
Qed.

Lemma dstep_None_cong a b : zcfg_eq a b -> dstep m a = None -> dstep m b = None.
Proof.
  intros H Ha. pose proof (dstep_cong a b H) as Hc. rewrite Ha in Hc.
  destruct (dstep m b); [contradiction|reflexivity].
Qed.

Lemma dtm_start_abs w : wf (snd (dtm_start m w)) /\ zcfg_eq (abs_cfg (dtm_start m w)) (dt_start m w).
Proof.
  split; [apply wf_init|]. split; [reflexivity|]. apply view_init.
Qed.

(* the facts about a whole run used by every top-level statement *)
Lemma dtm_stepwise_facts fuel w ys o : dtm_stepwise m fuel w = (ys, o) ->
  exists c0 ys', ys = c0 :: ys' /\ length ys' <= fuel /\
    (forall k c, nth_error ys k = Some c ->
       exists z, dsteps m k (dt_start m w) = Some z /\ zcfg_eq (abs_cfg c) z) /\
    (forall k c, k < length ys' -> nth_error ys k = Some c -> ~ pfinal c) /\
    match o with
    | Ok cl => cl = last ys' c0 /\ pfinal cl
    | Err Reject => ~ pfinal (last ys' c0) /\ dstep m (abs_cfg (last ys' c0)) = None
    | Err Fuel => length ys' = fuel /\ ~ pfinal (last ys' c0) /\ dstep m (abs_cfg (last ys' c0)) <> None
    | Err _ => False
    end.
Proof.
  unfold dtm_stepwise. destruct (dtm_run m fuel (dtm_start m w)) as [ys' o'] eqn:Er.
  intro H. inversion H; subst. destruct (dtm_start_abs w) as [Hwf Hst].
  destruct (dtm_run_spec fuel _ _ _ Hwf Er) as [T1 [T2 [T3 T4]]].
  exists (dtm_start m w), ys'. split; [reflexivity|]. split; [exact T3|].
  split; [|split; [exact T2|exact T4]].
  intros k c Hk. destruct (T1 k c Hk) as [_ [z [Hz Hze]]].
  pose proof (dsteps_cong k _ _ Hst) as Hc. rewrite Hz in Hc.
  destruct (dsteps m k (dt_start m w)) as [z'|]; [|contradiction].
  exists z'. split; [reflexivity|]. eapply zcfg_eq_trans; eassumption.
Qed.

Definition dreach_final (w : list nat) (k : nat) : Prop :=
  exists z, dsteps m k (dt_start m w) = Some z /\ dt_final m z.
Definition dstuck_at (w : list nat) (k : nat) : Prop :=
  (exists z, dsteps m k (dt_start m w) = Some z /\ dstep m z = None) /\
  forall j, j <= k -> ~ dreach_final w j.

Lemma dtm_accepts_cases fuel w :
  dtm_accepts m fuel w = Ok true \/ dtm_accepts m fuel w = Ok false \/ dtm_accepts m fuel w = Err Fuel.
Proof.
  unfold dtm_accepts. destruct (dtm_stepwise m fuel w) as [ys o] eqn:E.
  destruct (dtm_stepwise_facts _ _ _ _ E) as [c0 [ys' [_ [_ [_ [_ Ho]]]]]]. simpl.
  destruct o as [cl|[]]; simpl; auto; contradiction.
Qed.

Lemma pfinal_abs c z : zcfg_eq (abs_cfg c) z -> (pfinal c <-> dt_final m z).
Proof. intros [Hq _]. simpl in Hq. unfold pfinal, dt_final. rewrite Hq. tauto. Qed.

Lemma dtm_accept_iff fuel w :
  dtm_accepts m fuel w = Ok true <-> exists k, k <= fuel /\ dreach_final w k.
Proof.
  unfold dtm_accepts. destruct (dtm_stepwise m fuel w) as [ys o] eqn:E.
  destruct (dtm_stepwise_facts _ _ _ _ E) as [c0 [ys' [Hys [Hlen [T1 [T2 Ho]]]]]]. subst ys. simpl snd.
  assert (Hlast : nth_error (c0 :: ys') (length ys') = Some (last ys' c0)) by apply nth_error_last.
  destruct (T1 _ _ Hlast) as [zl [Hzl Hzle]].
  assert (Hbefore : forall k z, k <= length ys' -> dsteps m k (dt_start m w) = Some z -> dt_final m z ->
                                k = length ys' /\ pfinal (last ys' c0)).
  { intros k z Hk Hz Hf. destruct (nth_error_below (c0 :: ys') k) as [c Hc]; [simpl; lia|].
    destruct (T1 _ _ Hc) as [z' [Hz' Hze]]. rewrite Hz in Hz'. inversion Hz'; subst z'.
    assert (Hfc : pfinal c) by (apply (pfinal_abs c z Hze); exact Hf).
    destruct (Nat.eq_dec k (length ys')) as [Ek|Ek].
    - subst k. rewrite Hlast in Hc. inversion Hc; subst c. split; [reflexivity|exact Hfc].
    - exfalso. apply (T2 k c); [lia|exact Hc|exact Hfc]. }
  split.
  - intro Hv. destruct o as [cl|e]; [|destruct e; simpl in Hv; discriminate].
    destruct Ho as [Hcl Hf]. exists (length ys'). split; [exact Hlen|]. exists zl. split; [exact Hzl|].
    apply (pfinal_abs _ _ Hzle). rewrite <- Hcl. exact Hf.
  - intros [k [Hk [z [Hz Hf]]]]. destruct o as [cl|e]; [reflexivity|]. exfalso.
    destruct e; try contradiction.
    + (* Reject *) destruct Ho as [Hnf Hst].
      destruct (Nat.le_gt_cases k (length ys')) as [Hle|Hgt].
      * destruct (Hbefore k z Hle Hz Hf) as [_ Hp]. exact (Hnf Hp).
      * pose proof (dstep_None_cong _ _ Hzle Hst) as Hst'.
        rewrite (dsteps_stuck _ _ _ Hzl Hst' k Hgt) in Hz. discriminate.
    + (* Fuel *) destruct Ho as [Hn [Hnf _]].
      destruct (Hbefore k z) as [_ Hp]; [lia|exact Hz|exact Hf|]. exact (Hnf Hp).
Qed.

Lemma dtm_reject_iff fuel w :
  dtm_accepts m fuel w = Ok false <-> exists k, k <= fuel /\ dstuck_at w k.
Proof.
  unfold dtm_accepts. destruct (dtm_stepwise m fuel w) as [ys o] eqn:E.
  destruct (dtm_stepwise_facts _ _ _ _ E) as [c0 [ys' [Hys [Hlen [T1 [T2 Ho]]]]]]. subst ys. simpl snd.
  assert (Hlast : nth_error (c0 :: ys') (length ys') = Some (last ys' c0)) by apply nth_error_last.
  destruct (T1 _ _ Hlast) as [zl [Hzl Hzle]].
  assert (Hbefore : forall k z, k <= length ys' -> dsteps m k (dt_start m w) = Some z -> dt_final m z ->
                                k = length ys' /\ pfinal (last ys' c0)).
  { intros k z Hk Hz Hf. destruct (nth_error_below (c0 :: ys') k) as [c Hc]; [simpl; lia|].
    destruct (T1 _ _ Hc) as [z' [Hz' Hze]]. rewrite Hz in Hz'. inversion Hz'; subst z'.
    assert (Hfc : pfinal c) by (apply (pfinal_abs c z Hze); exact Hf).
    destruct (Nat.eq_dec k (length ys')) as [Ek|Ek].
    - subst k. rewrite Hlast in Hc. inversion Hc; subst c. split; [reflexivity|exact Hfc].
    - exfalso. apply (T2 k c); [lia|exact Hc|exact Hfc]. }
  split.
  - intro Hv. destruct o as [cl|e]; [simpl in Hv; discriminate|].
    destruct e; simpl in Hv; try discriminate. destruct Ho as [Hnf Hst].
    exists (length ys'). split; [exact Hlen|]. split.
    + exists zl. split; [exact Hzl|]. exact (dstep_None_cong _ _ Hzle Hst).
    + intros j Hj [z [Hz Hf]]. destruct (Hbefore j z Hj Hz Hf) as [_ Hp]. exact (Hnf Hp).
  - intros [k [Hk [[z [Hz Hst]] Hno]]].
    assert (Hlate : k < length ys' -> False).
    { intro Hlt. rewrite (dsteps_stuck _ _ _ Hz Hst _ Hlt) in Hzl. discriminate. }
    destruct o as [cl|e].
    + exfalso. destruct Ho as [Hcl Hf].
      destruct (Nat.le_gt_cases (length ys') k) as [Hle|Hgt]; [|exact (Hlate Hgt)].
      apply (Hno (length ys') Hle). exists zl. split; [exact Hzl|].
      apply (pfinal_abs _ _ Hzle). rewrite <- Hcl. exact Hf.
    + destruct e; try contradiction; [reflexivity|]. exfalso.
      destruct Ho as [Hn [_ Hns]].
      destruct (Nat.eq_dec k (length ys')) as [Ek|Ek]; [|apply Hlate; lia].
      subst k. rewrite Hz in Hzl. inversion Hzl; subst zl.
      apply Hns. exact (dstep_None_cong _ _ (zcfg_eq_sym _ _ Hzle) Hst).
Qed.

Lemma dtm_reject_never_final fuel w :
  dtm_accepts m fuel w = Ok false -> forall k, ~ dreach_final w k.
Proof.
  intro H. apply dtm_reject_iff in H. destruct H as [k0 [_ [[z [Hz Hst]] Hno]]].
  intros k [z' [Hz' Hf]]. destruct (Nat.le_gt_cases k k0) as [Hle|Hgt].
  - apply (Hno k Hle). exists z'. split; assumption.
  - rewrite (dsteps_stuck _ _ _ Hz Hst _ Hgt) in Hz'. discriminate.
Qed.

End DTM.

(* ================= NTM ================= *)
Section CfgSets.

Lemma eqb_tape_ok : eqb_ok eqb_tape.
Proof.
  intros [c1 p1 b1] [c2 p2 b2]. unfold eqb_tape. simpl.
  rewrite !andb_true_iff, !Nat.eqb_eq, (eqb_list_ok Nat.eqb eqb_nat_ok c1 c2). split.
  - intros [[-> ->] ->]. reflexivity.
  - intro H. inversion H. auto.
Qed.

Lemma eqb_pcfg_ok : eqb_ok eqb_pcfg.
Proof.
  intros [q1 t1] [q2 t2]. unfold eqb_pcfg. simpl.
  rewrite andb_true_iff, Nat.eqb_eq, (eqb_tape_ok t1 t2). split.
  - intros [-> ->]. reflexivity.
  - intro H. inversion H. auto.
Qed.

Lemma cfg_mem_In c l : cfg_mem c l = true <-> In c l.
Proof.
  induction l as [|x l IH]; simpl; [split; [discriminate|tauto]|].
  rewrite orb_true_iff, IH, (eqb_pcfg_ok c x). split; intros [H|H]; auto.
Qed.

Lemma cfg_dedup_In c l : In c (cfg_dedup l) <-> In c l.
Proof.
  induction l as [|x l IH]; simpl; [tauto|].
  destruct (cfg_mem x l) eqn:E.
  - rewrite IH. split; [auto|]. intros [H|H]; [subst; apply cfg_mem_In; exact E|exact H].
  - simpl. rewrite IH. tauto.
Qed.

End CfgSets.

Section NTM.
Variable m : ntm.

Definition nfinalp (c : pcfg) : Prop := In (fst c) (nt_finals m).
Definition has_final (l : list pcfg) : Prop := exists c, In c l /\ nfinalp c.

Lemma nstep_cong_l c1 c2 c' : zcfg_eq c1 c2 -> nstep m c1 c' -> nstep m c2 c'.
Proof.
  intros [H1 H2] [q' [s [d [Hin [Hq Hz]]]]]. exists q', s, d.
  rewrite <- H1, <- (H2 0%Z). split; [exact Hin|]. split; [exact Hq|].
  eapply zeq_trans; [exact Hz|apply zact_cong; exact H2].
Qed.

Lemma nstep_cong_r c c1 c2 : zcfg_eq c1 c2 -> nstep m c c1 -> nstep m c c2.
Proof.
  intros [H1 H2] [q' [s [d [Hin [Hq Hz]]]]]. exists q', s, d.
  split; [exact Hin|]. split; [congruence|].
  eapply zeq_trans; [apply zeq_sym; exact H2|exact Hz].
Qed.

Lemma nreach_cong_r k c c1 c2 : zcfg_eq c1 c2 -> nreach m k c c1 -> nreach m k c c2.
Proof.
  intros He Hr. induction Hr as [c c' H|k c c1' c' Hs Hr IH].
  - apply nr_0. eapply zcfg_eq_trans; eassumption.
  - eapply nr_S; [exact Hs|]. apply IH. exact He.
Qed.

Lemma nreach_cong_l k c1 c2 c' : zcfg_eq c1 c2 -> nreach m k c1 c' -> nreach m k c2 c'.
Proof.
  intros He Hr. inversion Hr; subst.
  - apply nr_0. eapply zcfg_eq_trans; [apply zcfg_eq_sym; exact He|assumption].
  - eapply nr_S; [eapply nstep_cong_l; eassumption|assumption].
Qed.

Lemma nreach_snoc k c c1 c' : nreach m k c c1 -> nstep m c1 c' -> nreach m (S k) c c'.
Proof.
  intros Hr Hs. induction Hr as [c c1 H|k c c2 c1 Hs1 Hr IH].
  - eapply nr_S; [|apply nr_0; apply zcfg_eq_refl].
    eapply nstep_cong_l; [apply zcfg_eq_sym; exact H|exact Hs].
  - eapply nr_S; [exact Hs1|]. apply IH. exact Hs.
Qed.

Lemma nreach_snoc_inv k : forall c c', nreach m (S k) c c' ->
  exists c1, nreach m k c c1 /\ nstep m c1 c'.
Proof.
  induction k as [|k IH]; intros c c' Hr; inversion Hr; subst.
  - match goal with H : nreach m 0 _ _ |- _ => inversion H; subst end.
    exists c. split; [apply nr_0; apply zcfg_eq_refl|]. eapply nstep_cong_r; eassumption.
  - match goal with H : nreach m (S k) _ _ |- _ => destruct (IH _ _ H) as [c2 [Hr2 Hs2]] end.
    exists c2. split; [|exact Hs2]. eapply nr_S; eassumption.
Qed.

Lemma nreach_add a : forall b c c', nreach m (a + b) c c' ->
  exists c1, nreach m a c c1 /\ nreach m b c1 c'.
Proof.
  induction a as [|a IH]; intros b c c' Hr.
  - exists c. split; [apply nr_0; apply zcfg_eq_refl|exact Hr].
  - simpl in Hr. inversion Hr; subst.
    match goal with H : nreach m (a + b) _ _ |- _ => destruct (IH _ _ _ H) as [c2 [Hr2 Hr3]] end.
    exists c2. split; [|exact Hr3]. eapply nr_S; eassumption.
Qed.

Lemma ntm_next_sound c c' : wf (snd c) -> In c' (ntm_next m c) ->
  wf (snd c') /\ nstep m (abs_cfg c) (abs_cfg c').
Proof.
  intros Hwf Hin. unfold ntm_next in Hin. apply in_map_iff in Hin.
  destruct Hin as [[[q' s] d] [Hc Hin]]. subst c'. split; [apply wf_act; exact Hwf|].
  exists q', s, d. cbn [abs_cfg fst snd]. rewrite <- read_view.
  split; [exact Hin|]. split; [reflexivity|]. apply act_view. exact Hwf.
Qed.

Lemma ntm_next_complete c z : wf (snd c) -> nstep m (abs_cfg c) z ->
  exists c', In c' (ntm_next m c) /\ zcfg_eq (abs_cfg c') z.
Proof.
  intros Hwf [q' [s [d [Hin [Hq Hz]]]]]. cbn [abs_cfg fst snd] in Hin. rewrite <- read_view in Hin.
  exists (q', t_move (t_write (snd c) s) d). split.
  - unfold ntm_next. apply in_map_iff. exists (q', s, d). split; [reflexivity|exact Hin].
  - split; [cbn [abs_cfg fst]; congruence|]. cbn [abs_cfg snd].
    eapply zeq_trans; [apply act_view; exact Hwf|]. apply zeq_sym. exact Hz.
Qed.

Definition level_ok (w : list nat) (k : nat) (l : list pcfg) : Prop :=
  (forall c, In c l -> wf (snd c)) /\
  forall z, nreach m k (nt_start m w) z <-> exists c, In c l /\ zcfg_eq (abs_cfg c) z.

Lemma level_ok_next w k l : level_ok w k l ->
  level_ok w (S k) (cfg_dedup (flat_map (ntm_next m) l)).
Proof.
  intros [Hwf Hex]. split.
  - intros c Hc. apply cfg_dedup_In, in_flat_map in Hc. destruct Hc as [c0 [Hc0 Hc]].
    exact (proj1 (ntm_next_sound c0 c (Hwf _ Hc0) Hc)).
  - intro z. split.
    + intro Hr. apply nreach_snoc_inv in Hr. destruct Hr as [c1 [Hr Hs]].
      apply Hex in Hr. destruct Hr as [c0 [Hc0 He]].
      assert (Hs' : nstep m (abs_cfg c0) z)
        by (eapply nstep_cong_l; [apply zcfg_eq_sym; exact He|exact Hs]).
      destruct (ntm_next_complete c0 z (Hwf _ Hc0) Hs') as [c' [Hc' He']].
      exists c'. split; [|exact He']. apply cfg_dedup_In, in_flat_map. exists c0. split; assumption.
    + intros [c' [Hc' He']]. apply cfg_dedup_In, in_flat_map in Hc'. destruct Hc' as [c0 [Hc0 Hc']].
      destruct (ntm_next_sound c0 c' (Hwf _ Hc0) Hc') as [_ Hs].
      eapply nreach_cong_r; [exact He'|]. eapply nreach_snoc; [|exact Hs].
      apply Hex. exists c0. split; [exact Hc0|apply zcfg_eq_refl].
Qed.

Lemma level_ok_start w : level_ok w 0 [ntm_start m w].
Proof.
  assert (Hst : zcfg_eq (abs_cfg (ntm_start m w)) (nt_start m w))
    by (split; [reflexivity|apply view_init]).
  split.
  - intros c [Hc|[]]. subst c. apply wf_init.
  - intro z. split.
    + intro Hr. inversion Hr; subst. exists (ntm_start m w). split; [left; reflexivity|].
      eapply zcfg_eq_trans; eassumption.
    + intros [c [[Hc|[]] He]]. subst c. apply nr_0.
      eapply zcfg_eq_trans; [apply zcfg_eq_sym; exact Hst|exact He].
Qed.

Lemma has_final_existsb l :
  existsb (fun c => memb (fst c) (nt_finals m)) l = true <-> has_final l.
Proof.
  rewrite existsb_exists. unfold has_final, nfinalp. split; intros [c [H1 H2]]; exists c; split; auto;
    apply memb_In; exact H2.
Qed.

Lemma ntm_run_eq fuel cur : ntm_run m fuel cur =
  match cur with
  | [] => ([], Err Reject)
  | _ => if existsb (fun c => memb (fst c) (nt_finals m)) cur then ([], Ok tt)
         else match fuel with
              | 0 => ([], Err Fuel)
              | S f => let nxt := cfg_dedup (flat_map (ntm_next m) cur) in
                       let (ys, o) := ntm_run m f nxt in (nxt :: ys, o)
              end
  end.
Proof. destruct fuel; reflexivity. Qed.

Definition ntm_trace_ok (w : list nat) (fuel k : nat) (cur : list pcfg)
           (ys : list (list pcfg)) (o : res unit) : Prop :=
  (forall j l, nth_error (cur :: ys) j = Some l -> level_ok w (k + j) l) /\
  (forall j l, j < length ys -> nth_error (cur :: ys) j = Some l -> l <> [] /\ ~ has_final l) /\
  length ys <= fuel /\
  match o with
  | Ok _ => has_final (last ys cur)
  | Err Reject => last ys cur = []
  | Err Fuel => length ys = fuel /\ last ys cur <> [] /\ ~ has_final (last ys cur)
  | Err _ => False
  end.

Lemma ntm_trace_single w k cur : level_ok w k cur ->
  forall j l, nth_error [cur] j = Some l -> level_ok w (k + j) l.
Proof.
  intros H [|[|j]] l Hj; simpl in Hj; try discriminate. inversion Hj; subst. rewrite Nat.add_0_r. exact H.
Qed.

Lemma ntm_run_spec w fuel : forall k cur ys o, level_ok w k cur -> ntm_run m fuel cur = (ys, o) ->
  ntm_trace_ok w fuel k cur ys o.
Proof.
  induction fuel as [|f IH]; intros k cur ys o Hl; rewrite ntm_run_eq.
  - destruct cur as [|c0 cur'].
    + intro H. inversion H; subst. split; [apply ntm_trace_single; exact Hl|].
      split; [intros j l Hj; simpl in Hj; lia|]. split; [simpl; lia|reflexivity].
    + destruct (existsb (fun c => memb (fst c) (nt_finals m)) (c0 :: cur')) eqn:Ef; intro H; inversion H; subst;
        (split; [apply ntm_trace_single; exact Hl|]);
        (split; [intros j l Hj; simpl in Hj; lia|]); (split; [simpl; lia|]).
      * apply has_final_existsb. exact Ef.
      * split; [reflexivity|]. split; [discriminate|]. cbn [last]. rewrite <- has_final_existsb, Ef. discriminate.
  - destruct cur as [|c0 cur'].
    + intro H. inversion H; subst. split; [apply ntm_trace_single; exact Hl|].
      split; [intros j l Hj; simpl in Hj; lia|]. split; [simpl; lia|reflexivity].
    + destruct (existsb (fun c => memb (fst c) (nt_finals m)) (c0 :: cur')) eqn:Ef.
      * intro H; inversion H; subst. split; [apply ntm_trace_single; exact Hl|].
        split; [intros j l Hj; simpl in Hj; lia|]. split; [simpl; lia|].
        apply has_final_existsb. exact Ef.
      * cbv zeta. set (nxt := cfg_dedup (flat_map (ntm_next m) (c0 :: cur'))).
        destruct (ntm_run m f nxt) as [ys1 o1] eqn:Er. intro H. inversion H; subst.
        destruct (IH (S k) nxt ys1 o (level_ok_next w k _ Hl) Er) as [T1 [T2 [T3 T4]]].
        split; [|split; [|split]].
        -- intros [|j] l Hj.
           { simpl in Hj. inversion Hj; subst. rewrite Nat.add_0_r. exact Hl. }
           simpl in Hj. replace (k + S j) with (S k + j) by lia. apply T1. exact Hj.
        -- intros [|j] l Hj Hn.
           { simpl in Hn. inversion Hn; subst. split; [discriminate|].
             rewrite <- has_final_existsb, Ef. discriminate. }
           simpl in Hj, Hn. apply (T2 j l); [lia|exact Hn].
        -- simpl. lia.
        -- rewrite last_cons. destruct o as [u|[]]; try exact T4.
           simpl. destruct T4 as [T4 T5]. split; [lia|exact T5].
Qed.

Lemma ntm_levels_facts fuel w ys o : ntm_levels m fuel w = (ys, o) ->
  exists ys', ys = [ntm_start m w] :: ys' /\ ntm_trace_ok w fuel 0 [ntm_start m w] ys' o.
Proof.
  unfold ntm_levels. destruct (ntm_run m fuel [ntm_start m w]) as [ys' o'] eqn:Er.
  intro H. inversion H; subst. exists ys'. split; [reflexivity|].
  apply ntm_run_spec; [apply level_ok_start|exact Er].
Qed.

Definition nreach_final (w : list nat) (k : nat) : Prop :=
  exists z, nreach m k (nt_start m w) z /\ nt_final m z.
Definition nall_stuck_at (w : list nat) (k : nat) : Prop :=
  (forall z, ~ nreach m k (nt_start m w) z) /\ forall j, j <= k -> ~ nreach_final w j.

Lemma level_final w k l : level_ok w k l -> (has_final l <-> nreach_final w k).
Proof.
  intros [_ Hex]. split.
  - intros [c [Hc Hf]]. exists (abs_cfg c). split; [|exact Hf].
    apply Hex. exists c. split; [exact Hc|apply zcfg_eq_refl].
  - intros [z [Hr Hf]]. apply Hex in Hr. destruct Hr as [c [Hc [Hq _]]].
    exists c. split; [exact Hc|]. unfold nfinalp. simpl in Hq. rewrite Hq. exact Hf.
Qed.

Lemma level_empty w k l : level_ok w k l -> (l = [] <-> forall z, ~ nreach m k (nt_start m w) z).
Proof.
  intros [_ Hex]. split.
  - intros -> z Hr. apply Hex in Hr. destruct Hr as [c [[] _]].
  - intro Hno. destruct l as [|c l]; [reflexivity|]. exfalso. apply (Hno (abs_cfg c)).
    apply Hex. exists c. split; [left; reflexivity|apply zcfg_eq_refl].
Qed.

Lemma nreach_none_later w k : (forall z, ~ nreach m k (nt_start m w) z) ->
  forall n, k <= n -> forall z, ~ nreach m n (nt_start m w) z.
Proof.
  intros Hno n Hn z Hr. replace n with (k + (n - k)) in Hr by lia.
  apply nreach_add in Hr. destruct Hr as [c1 [Hr _]]. exact (Hno _ Hr).
Qed.

Lemma ntm_accepts_cases fuel w :
  ntm_accepts m fuel w = Ok true \/ ntm_accepts m fuel w = Ok false \/ ntm_accepts m fuel w = Err Fuel.
Proof.
  unfold ntm_accepts. destruct (ntm_levels m fuel w) as [ys o] eqn:E.
  destruct (ntm_levels_facts _ _ _ _ E) as [ys' [_ [_ [_ [_ Ho]]]]]. simpl.
  destruct o as [u|[]]; simpl; auto; contradiction.
Qed.

Lemma ntm_last_level fuel w ys' o : ntm_trace_ok w fuel 0 [ntm_start m w] ys' o ->
  level_ok w (length ys') (last ys' [ntm_start m w]).
Proof.
  intros [T1 _]. apply (T1 (length ys') (last ys' [ntm_start m w])). apply nth_error_last.
Qed.

Lemma ntm_before fuel w ys' o : ntm_trace_ok w fuel 0 [ntm_start m w] ys' o ->
  forall k, k <= length ys' -> nreach_final w k ->
    k = length ys' /\ has_final (last ys' [ntm_start m w]).
Proof.
  intros [T1 [T2 _]] k Hk Hf.
  destruct (nth_error_below ([ntm_start m w] :: ys') k) as [l Hl]; [simpl; lia|].
  pose proof (T1 k l Hl) as Hlv. simpl in Hlv.
  apply (level_final w k l Hlv) in Hf.
  destruct (Nat.eq_dec k (length ys')) as [Ek|Ek].
  - subst k. rewrite nth_error_last in Hl. inversion Hl; subst l. split; [reflexivity|exact Hf].
  - exfalso. destruct (T2 k l) as [_ Hnf]; [lia|exact Hl|]. exact (Hnf Hf).
Qed.

Lemma ntm_accept_iff_aux fuel w ys' o : ntm_trace_ok w fuel 0 [ntm_start m w] ys' o ->
  (verdict_of o = Ok true <-> exists k, k <= fuel /\ nreach_final w k).
Proof.
  intro HT. pose proof (ntm_last_level _ _ _ _ HT) as Hlv. pose proof (ntm_before _ _ _ _ HT) as Hbefore.
  destruct HT as [T1 [T2 [T3 Ho]]]. split.
  - intro Hv. destruct o as [u|e]; [|destruct e; simpl in Hv; discriminate].
    exists (length ys'). split; [exact T3|]. apply (level_final _ _ _ Hlv). exact Ho.
  - intros [k [Hk Hf]]. destruct o as [u|e]; [reflexivity|]. exfalso.
    destruct e; try contradiction.
    + (* Reject *)
      destruct (Nat.le_gt_cases k (length ys')) as [Hle|Hgt].
      * destruct (Hbefore k Hle Hf) as [_ [c [Hc _]]]. rewrite Ho in Hc. destruct Hc.
      * pose proof (proj1 (level_empty _ _ _ Hlv) Ho) as Ho'. destruct Hf as [z [Hr _]].
        exact (nreach_none_later w _ Ho' k (Nat.lt_le_incl _ _ Hgt) z Hr).
    + (* Fuel *) destruct Ho as [Hn [_ Hnf]].
      destruct (Hbefore k) as [_ Hp]; [lia|exact Hf|]. exact (Hnf Hp).
Qed.

Lemma ntm_reject_iff_aux fuel w ys' o : ntm_trace_ok w fuel 0 [ntm_start m w] ys' o ->
  (verdict_of o = Ok false <-> exists k, k <= fuel /\ nall_stuck_at w k).
Proof.
  intro HT. pose proof (ntm_last_level _ _ _ _ HT) as Hlv. pose proof (ntm_before _ _ _ _ HT) as Hbefore.
  destruct HT as [T1 [T2 [T3 Ho]]]. split.
  - intro Hv. destruct o as [u|e]; [simpl in Hv; discriminate|].
    destruct e; simpl in Hv; try discriminate.
    exists (length ys'). split; [exact T3|]. split.
    + apply (level_empty _ _ _ Hlv). exact Ho.
    + intros j Hj Hf. destruct (Hbefore j Hj Hf) as [_ [c [Hc _]]].
      rewrite Ho in Hc. destruct Hc.
  - intros [k [Hk [Hno Hnf]]].
    assert (Hlate : k <= length ys' -> last ys' [ntm_start m w] = []).
    { intro Hle. apply (level_empty _ _ _ Hlv). apply (nreach_none_later w k Hno). exact Hle. }
    destruct o as [u|e].
    + exfalso. destruct (Nat.le_gt_cases (length ys') k) as [Hle|Hgt].
      * apply (Hnf (length ys') Hle). apply (level_final _ _ _ Hlv). exact Ho.
      * destruct Ho as [c [Hc _]]. rewrite Hlate in Hc by lia. destruct Hc.
    + destruct e; try contradiction; [reflexivity|]. exfalso.
      destruct Ho as [Hn [Hne _]]. apply Hne. apply Hlate. lia.
Qed.

Lemma ntm_accept_iff fuel w :
  ntm_accepts m fuel w = Ok true <-> exists k, k <= fuel /\ nreach_final w k.
Proof.
  unfold ntm_accepts. destruct (ntm_levels m fuel w) as [ys o] eqn:E.
  destruct (ntm_levels_facts _ _ _ _ E) as [ys' [_ HT]]. simpl snd.
  apply (ntm_accept_iff_aux fuel w ys' o HT).
Qed.

Lemma ntm_reject_iff fuel w :
  ntm_accepts m fuel w = Ok false <-> exists k, k <= fuel /\ nall_stuck_at w k.
Proof.
  unfold ntm_accepts. destruct (ntm_levels m fuel w) as [ys o] eqn:E.
  destruct (ntm_levels_facts _ _ _ _ E) as [ys' [_ HT]]. simpl snd.
  apply (ntm_reject_iff_aux fuel w ys' o HT).
Qed.

Lemma ntm_reject_never_final fuel w :
  ntm_accepts m fuel w = Ok false -> forall k, ~ nreach_final w k.
Proof.
  intro H. apply ntm_reject_iff in H. destruct H as [k0 [_ [Hno Hnf]]].
  intros k Hf. destruct (Nat.le_gt_cases k k0) as [Hle|Hgt]; [exact (Hnf k Hle Hf)|].
  destruct Hf as [z [Hr _]]. exact (nreach_none_later w k0 Hno k (Nat.lt_le_incl _ _ Hgt) z Hr).
Qed.

(* every yielded level is exactly the set of configurations reachable in that many moves *)
Lemma ntm_level_exact fuel w ys o : ntm_levels m fuel w = (ys, o) ->
  forall k l, nth_error ys k = Some l ->
    forall z, nreach m k (nt_start m w) z <-> exists c, In c l /\ zcfg_eq (abs_cfg c) z.
Proof.
  intros E k l Hl. destruct (ntm_levels_facts _ _ _ _ E) as [ys' [Hys [T1 _]]]. subst ys.
  exact (proj2 (T1 k l Hl)).
Qed.

End NTM.

(* ================= MNTM ================= *)
Section MZeq.

Lemma F2zeq_refl ts : Forall2 zeq ts ts.
Proof. induction ts; constructor; [apply zeq_refl|assumption]. Qed.
Lemma F2zeq_sym a b : Forall2 zeq a b -> Forall2 zeq b a.
Proof. induction 1; constructor; [apply zeq_sym|]; assumption. Qed.
Lemma F2zeq_trans a b : Forall2 zeq a b -> forall c, Forall2 zeq b c -> Forall2 zeq a c.
Proof.
  induction 1 as [|x y a b Hxy Hab IH]; intros c Hc; inversion Hc; subst; constructor.
  - eapply zeq_trans; eassumption.
  - apply IH. assumption.
Qed.

Lemma mzcfg_eq_refl c : mzcfg_eq c c.
Proof. split; [reflexivity|apply F2zeq_refl]. Qed.
Lemma mzcfg_eq_sym c d : mzcfg_eq c d -> mzcfg_eq d c.
Proof. intros [H1 H2]. split; [auto|apply F2zeq_sym; exact H2]. Qed.
Lemma mzcfg_eq_trans c d e : mzcfg_eq c d -> mzcfg_eq d e -> mzcfg_eq c e.
Proof. intros [H1 H2] [H3 H4]. split; [congruence|eapply F2zeq_trans; eassumption]. Qed.

Lemma zheads_cong a b : Forall2 zeq a b -> zheads a = zheads b.
Proof. induction 1 as [|x y a b Hxy Hab IH]; simpl; [reflexivity|]. rewrite (Hxy 0%Z), IH. reflexivity. Qed.

Lemma zapply_cong a b : Forall2 zeq a b -> forall mv, Forall2 zeq (zapply mv a) (zapply mv b).
Proof.
  unfold zapply. induction 1 as [|x y a b Hxy Hab IH]; intros [|[s d] mv]; simpl; try constructor.
  - apply zact_cong. exact Hxy.
  - apply IH.
Qed.

Lemma heads_view ts : map t_read ts = zheads (map view ts).
Proof. unfold zheads. rewrite map_map. apply map_ext. intro t. apply read_view. Qed.

Lemma apply_view_aux : forall ts mv, Forall wf ts ->
  Forall wf (map (fun p : mmove * tape => t_move (t_write (snd p) (fst (fst p))) (snd (fst p))) (combine mv ts)) /\
  Forall2 zeq
    (map view (map (fun p : mmove * tape => t_move (t_write (snd p) (fst (fst p))) (snd (fst p))) (combine mv ts)))
    (zapply mv (map view ts)).
Proof.
  unfold zapply. induction ts as [|t ts IH]; intros [|[s d] mv] Hwf; simpl; try (split; constructor).
  - inversion Hwf; subst. apply wf_act. assumption.
  - inversion Hwf; subst. apply IH. assumption.
  - inversion Hwf; subst. apply act_view. assumption.
  - inversion Hwf; subst. apply IH. assumption.
Qed.

End MZeq.

Section MNTM.
Variable m : mntm.

Definition wfs (c : mcfg) : Prop := Forall wf (snd c).
(* no alternative to take: no entry, or an entry with an empty list of alternatives
   (`if not possible_transitions`, mntm.py:259) *)
Definition no_alts (o : option (list malt)) : Prop := o = None \/ o = Some [].
Definition maccepting (z : mzcfg) : Prop :=
  mt_final m z /\ no_alts (mt_delta m (fst z) (zheads (snd z))).

Lemma maccepting_cong a b : mzcfg_eq a b -> maccepting a -> maccepting b.
Proof.
  intros [H1 H2] [Hf Hd]. unfold maccepting, mt_final. rewrite <- H1, <- (zheads_cong _ _ H2). split; assumption.
Qed.

Lemma mstep_cong_l c1 c2 c' : mzcfg_eq c1 c2 -> mstep m c1 c' -> mstep m c2 c'.
Proof.
  intros [H1 H2] [alts [q' [mv [Hd [Hin [Hq Hz]]]]]]. exists alts, q', mv.
  rewrite <- H1, <- (zheads_cong _ _ H2). split; [exact Hd|]. split; [exact Hin|]. split; [exact Hq|].
  eapply F2zeq_trans; [exact Hz|apply zapply_cong; exact H2].
Qed.

Lemma mstep_cong_r c c1 c2 : mzcfg_eq c1 c2 -> mstep m c c1 -> mstep m c c2.
Proof.
  intros [H1 H2] [alts [q' [mv [Hd [Hin [Hq Hz]]]]]]. exists alts, q', mv.
  split; [exact Hd|]. split; [exact Hin|]. split; [congruence|].
  eapply F2zeq_trans; [apply F2zeq_sym; exact H2|exact Hz].
Qed.

Lemma mreach_cong_r k c c1 c2 : mzcfg_eq c1 c2 -> mreach m k c c1 -> mreach m k c c2.
Proof.
  intros He Hr. induction Hr as [c c' H|k c c1' c' Hs Hr IH].
  - apply mr_0. eapply mzcfg_eq_trans; eassumption.
  - eapply mr_S; [exact Hs|]. apply IH. exact He.
Qed.

Lemma mreach_cong_l k c1 c2 c' : mzcfg_eq c1 c2 -> mreach m k c1 c' -> mreach m k c2 c'.
Proof.
  intros He Hr. inversion Hr; subst.
  - apply mr_0. eapply mzcfg_eq_trans; [apply mzcfg_eq_sym; exact He|assumption].
  - eapply mr_S; [eapply mstep_cong_l; eassumption|assumption].
Qed.

Lemma mreach_snoc k c c1 c' : mreach m k c c1 -> mstep m c1 c' -> mreach m (S k) c c'.
Proof.
  intros Hr Hs. induction Hr as [c c1 H|k c c2 c1 Hs1 Hr IH].
  - eapply mr_S; [|apply mr_0; apply mzcfg_eq_refl].
    eapply mstep_cong_l; [apply mzcfg_eq_sym; exact H|exact Hs].
  - eapply mr_S; [exact Hs1|]. apply IH. exact Hs.
Qed.

Lemma mntm_apply_abs c a : wfs c ->
  wfs (mntm_apply c a) /\
  Forall2 zeq (snd (abs_mcfg (mntm_apply c a))) (zapply (snd a) (snd (abs_mcfg c))).
Proof. intro Hwf. unfold wfs, mntm_apply, abs_mcfg. cbn [fst snd]. apply apply_view_aux. exact Hwf. Qed.

(* one BFS iteration on a dequeued configuration *)
Lemma expand_inr c new : wfs c -> mntm_expand m c = inr new ->
  ~ maccepting (abs_mcfg c) /\
  (forall c', In c' new -> wfs c' /\ mstep m (abs_mcfg c) (abs_mcfg c')) /\
  (forall z, mstep m (abs_mcfg c) z -> exists c', In c' new /\ mzcfg_eq (abs_mcfg c') z).
Proof.
  intros Hwf. unfold mntm_expand.
  assert (Hh : map t_read (snd c) = zheads (snd (abs_mcfg c))) by apply heads_view.
  destruct (mt_delta m (fst c) (map t_read (snd c))) as [[|a0 rest]|] eqn:Hd.
  - rewrite Hh in Hd. destruct (memb (fst c) (mt_finals m)) eqn:Ef; [discriminate|].
    intro H. inversion H; subst new. split; [|split].
    + intros [Hf _]. apply memb_false in Ef. exact (Ef Hf).
    + intros c' [].
    + intros z [alts [q' [mv [Hd' [Hin _]]]]]. cbn [abs_mcfg fst] in Hd', Hd. rewrite Hd in Hd'.
      inversion Hd'; subst alts. destruct Hin.
  - intro H. inversion H; subst new. clear H. rewrite Hh in Hd.
    assert (Hmem : forall c', In c' (map (mntm_apply c) rest ++ [mntm_apply c a0]) <->
                              exists a, In a (a0 :: rest) /\ c' = mntm_apply c a).
    { intro c'. rewrite in_app_iff, in_map_iff. simpl. split.
      - intros [[a [Ha Hin]]|[Ha|[]]]; [exists a|exists a0]; auto.
      - intros [a [[Ha|Ha] Hc]]; subst; [right; left; reflexivity|left; exists a; auto]. }
    split; [|split].
    + intros [_ Hn]. cbn [abs_mcfg fst] in Hn. rewrite Hd in Hn. destruct Hn; discriminate.
    + intros c' Hc'. apply Hmem in Hc'. destruct Hc' as [a [Ha ->]].
      destruct (mntm_apply_abs c a Hwf) as [Hw Hz]. split; [exact Hw|].
      exists (a0 :: rest), (fst a), (snd a). split; [exact Hd|]. split; [destruct a; exact Ha|].
      split; [reflexivity|exact Hz].
    + intros z [alts [q' [mv [Hd' [Hin [Hq Hz]]]]]]. cbn [abs_mcfg fst] in Hd'. cbn [abs_mcfg fst] in Hd.
      rewrite Hd in Hd'. inversion Hd'; subst alts.
      exists (mntm_apply c (q', mv)). split; [apply Hmem; exists (q', mv); auto|].
      destruct (mntm_apply_abs c (q', mv) Hwf) as [_ Hz'].
      split; [cbn; congruence|]. eapply F2zeq_trans; [exact Hz'|]. apply F2zeq_sym. exact Hz.
  - rewrite Hh in Hd. destruct (memb (fst c) (mt_finals m)) eqn:Ef; [discriminate|].
    intro H. inversion H; subst new. split; [|split].
    + intros [Hf _]. apply memb_false in Ef. exact (Ef Hf).
    + intros c' [].
    + intros z [alts [q' [mv [Hd' _]]]]. cbn [abs_mcfg fst] in Hd', Hd. rewrite Hd in Hd'. discriminate.
Qed.

Lemma expand_ok c cl : mntm_expand m c = inl (Ok cl) -> cl = c /\ maccepting (abs_mcfg c).
Proof.
  unfold mntm_expand.
  assert (Hh : map t_read (snd c) = zheads (snd (abs_mcfg c))) by apply heads_view.
  destruct (mt_delta m (fst c) (map t_read (snd c))) as [[|a0 rest]|] eqn:Hd; try discriminate;
    (destruct (memb (fst c) (mt_finals m)) eqn:Ef; [|discriminate]);
    intro H; inversion H; subst; (split; [reflexivity|]); (split; [apply memb_In; exact Ef|]);
    cbn [abs_mcfg fst]; rewrite <- Hh, Hd; [right|left]; reflexivity.
Qed.

(* one iteration never raises (the repaired code has no possible_transitions[0] on an empty list) *)
Lemma expand_err c e : mntm_expand m c = inl (Err e) -> False.
Proof.
  unfold mntm_expand.
  destruct (mt_delta m (fst c) (map t_read (snd c))) as [[|a0 rest]|] eqn:Hd; try discriminate;
    destruct (memb (fst c) (mt_finals m)); discriminate.
Qed.

Definition mreachable (w : list nat) (z : mzcfg) : Prop := exists k, mreach m k (mt_start m w) z.

Lemma mntm_bfs_eq fuel queue : mntm_bfs m fuel queue =
  match queue with
  | [] => ([], Err Reject)
  | c :: q =>
    match fuel with
    | 0 => ([], Err Fuel)
    | S f => match mntm_expand m c with
             | inl o => ([c], o)
             | inr new => let (ys, o) := mntm_bfs m f (q ++ new) in (c :: ys, o)
             end
    end
  end.
Proof. destruct fuel; reflexivity. Qed.

(* soundness: everything dequeued is reachable; an accepting end is an accepting configuration *)
Lemma mntm_bfs_sound w fuel : forall queue ys o,
  (forall c, In c queue -> wfs c /\ mreachable w (abs_mcfg c)) ->
  mntm_bfs m fuel queue = (ys, o) ->
  (forall c, In c ys -> mreachable w (abs_mcfg c)) /\ length ys <= fuel /\
  match o with
  | Ok cl => In cl ys /\ maccepting (abs_mcfg cl)
  | Err Reject => True
  | Err Fuel => length ys = fuel
  | Err _ => False
  end.
Proof.
  induction fuel as [|f IH]; intros queue ys o Hq; rewrite mntm_bfs_eq; destruct queue as [|c q].
  - intro H. inversion H; subst. split; [intros c []|]. split; [simpl; lia|exact I].
  - intro H. inversion H; subst. split; [intros c' []|]. split; [simpl; lia|reflexivity].
  - intro H. inversion H; subst. split; [intros c []|]. split; [simpl; lia|exact I].
  - destruct (Hq c (or_introl eq_refl)) as [Hwf Hrc].
    destruct (mntm_expand m c) as [o'|new] eqn:He.
    + intro H. inversion H; subst.
      split; [intros c' [Hc'|[]]; subst; exact Hrc|]. split; [simpl; lia|].
      destruct o as [cl|e].
      * destruct (expand_ok _ _ He) as [-> Ha]. split; [left; reflexivity|exact Ha].
      * exfalso. exact (expand_err _ _ He).
    + destruct (mntm_bfs m f (q ++ new)) as [ys1 o1] eqn:Er. intro H. inversion H; subst.
      destruct (expand_inr c new Hwf He) as [_ [Hnew _]].
      assert (Hq' : forall c', In c' (q ++ new) -> wfs c' /\ mreachable w (abs_mcfg c')).
      { intros c' Hc'. apply in_app_iff in Hc'. destruct Hc' as [Hc'|Hc'].
        - apply Hq. right. exact Hc'.
        - destruct (Hnew c' Hc') as [Hw Hs]. split; [exact Hw|].
          destruct Hrc as [k Hk]. exists (S k). eapply mreach_snoc; eassumption. }
      destruct (IH _ _ _ Hq' Er) as [R1 [R2 R3]].
      split; [|split].
      * intros c' [Hc'|Hc']; [subst; exact Hrc|apply R1; exact Hc'].
      * simpl. lia.
      * destruct o as [cl|[]]; try exact R3.
        -- destruct R3 as [R3 R4]. split; [right; exact R3|exact R4].
        -- simpl. lia.
Qed.

(* completeness on rejection: what was dequeued is closed under the step relation *)
Definition mclosed (l : list mcfg) (all : list mcfg) : Prop :=
  forall p, In p l -> ~ maccepting (abs_mcfg p) /\
    forall z, mstep m (abs_mcfg p) z -> exists c, In c all /\ mzcfg_eq (abs_mcfg c) z.

Lemma mntm_bfs_reject fuel : forall P queue ys,
  (forall c, In c (P ++ queue) -> wfs c) ->
  mclosed P (P ++ queue) ->
  mntm_bfs m fuel queue = (ys, Err Reject) ->
  (forall c, In c (P ++ queue) -> In c (P ++ ys)) /\ mclosed (P ++ ys) (P ++ ys).
Proof.
  induction fuel as [|f IH]; intros P queue ys Hwf Hcl; rewrite mntm_bfs_eq; destruct queue as [|c q].
  - intro H. inversion H; subst. rewrite app_nil_r in *. split; [auto|exact Hcl].
  - discriminate.
  - intro H. inversion H; subst. rewrite app_nil_r in *. split; [auto|exact Hcl].
  - destruct (mntm_expand m c) as [o'|new] eqn:He.
    + intro H. inversion H; subst. exfalso.
      exact (expand_err _ _ He).
    + destruct (mntm_bfs m f (q ++ new)) as [ys1 o1] eqn:Er. intro H. inversion H; subst.
      assert (Hwc : wfs c) by (apply Hwf; apply in_app_iff; right; left; reflexivity).
      destruct (expand_inr c new Hwc He) as [Hna [Hnew Hall]].
      assert (Hsub : forall x, In x (P ++ c :: q) -> In x ((P ++ [c]) ++ q ++ new)).
      { intros x Hx. rewrite !in_app_iff in *. simpl in *. tauto. }
      destruct (IH (P ++ [c]) (q ++ new) ys1) as [I1 I2].
      * intros x Hx. rewrite !in_app_iff in Hx. destruct Hx as [[Hx|[Hx|[]]]|[Hx|Hx]].
        -- apply Hwf. apply in_app_iff. left. exact Hx.
        -- subst. exact Hwc.
        -- apply Hwf. apply in_app_iff. right. right. exact Hx.
        -- exact (proj1 (Hnew x Hx)).
      * intros p Hp. apply in_app_iff in Hp. destruct Hp as [Hp|[Hp|[]]].
        -- destruct (Hcl p Hp) as [Hn Hs]. split; [exact Hn|].
           intros z Hz. destruct (Hs z Hz) as [x [Hx Hxe]]. exists x. split; [apply Hsub; exact Hx|exact Hxe].
        -- subst p. split; [exact Hna|]. intros z Hz. destruct (Hall z Hz) as [x [Hx Hxe]].
           exists x. split; [|exact Hxe]. rewrite !in_app_iff. right. right. exact Hx.
      * exact Er.
      * split.
        -- intros x Hx. specialize (Hsub x Hx). specialize (I1 x Hsub).
           rewrite !in_app_iff in *. simpl in *. tauto.
        -- replace (P ++ c :: ys1) with ((P ++ [c]) ++ ys1) by (rewrite <- app_assoc; reflexivity).
           exact I2.
Qed.

Lemma mclosed_reach l : mclosed l l -> forall k c z, In c l -> mreach m k (abs_mcfg c) z ->
  exists c', In c' l /\ mzcfg_eq (abs_mcfg c') z.
Proof.
  intros Hcl. induction k as [|k IH]; intros c z Hc Hr; inversion Hr; subst.
  - exists c. split; assumption.
  - destruct (Hcl c Hc) as [_ Hs].
    match goal with H : mstep m _ _ |- _ => destruct (Hs _ H) as [p1 [Hp1 He1]] end.
    apply (IH p1 z Hp1). eapply mreach_cong_l; [apply mzcfg_eq_sym; exact He1|assumption].
Qed.

Lemma mntm_start_abs w : wfs (mntm_start m w) /\ mzcfg_eq (abs_mcfg (mntm_start m w)) (mt_start m w).
Proof.
  unfold wfs, mntm_start, mt_start, abs_mcfg, mzcfg_eq. cbn [fst snd]. split.
  - constructor; [apply wf_init|]. apply Forall_forall. intros t Ht. apply repeat_spec in Ht. subst. apply wf_init.
  - split; [reflexivity|]. simpl map. constructor; [apply view_init|].
    induction (mt_n m - 1) as [|n IH]; simpl; constructor; [apply view_init_blank|exact IH].
Qed.

Lemma mntm_stepwise_sound w fuel ys o : mntm_stepwise m fuel w = (ys, o) ->
  (forall c, In c ys -> mreachable w (abs_mcfg c)) /\ length ys <= fuel /\
  match o with
  | Ok cl => In cl ys /\ maccepting (abs_mcfg cl)
  | Err Reject => forall k z, mreach m k (mt_start m w) z -> ~ maccepting z
  | Err Fuel => length ys = fuel
  | Err _ => False
  end.
Proof.
  unfold mntm_stepwise. intro E. destruct (mntm_start_abs w) as [Hwf Hst].
  assert (Hq : forall c, In c [mntm_start m w] -> wfs c /\ mreachable w (abs_mcfg c)).
  { intros c [Hc|[]]. subst c. split; [exact Hwf|]. exists 0. apply mr_0. apply mzcfg_eq_sym. exact Hst. }
  destruct (mntm_bfs_sound w fuel _ _ _ Hq E) as [S1 [S2 S3]].
  split; [exact S1|]. split; [exact S2|].
  destruct o as [cl|e]; [exact S3|]. destruct e; try exact S3.
  (* Reject *)
  destruct (mntm_bfs_reject fuel [] [mntm_start m w] ys) as [I1 I2].
  - intros c [Hc|[]]. subst. exact Hwf.
  - intros p [].
  - exact E.
  - simpl in I1, I2. intros k z Hr Hacc.
    assert (Hr' : mreach m k (abs_mcfg (mntm_start m w)) z)
      by (eapply mreach_cong_l; [apply mzcfg_eq_sym; exact Hst|exact Hr]).
    destruct (mclosed_reach ys I2 k _ z (I1 _ (or_introl eq_refl)) Hr') as [c' [Hc' He']].
    destruct (I2 c' Hc') as [Hn _]. apply Hn. eapply maccepting_cong; [apply mzcfg_eq_sym; exact He'|exact Hacc].
Qed.

(* the run of ANY table (final states with rows, entries without alternatives included) ends in one of
   three ways: no exception other than rejection *)
Lemma mntm_accepts_cases fuel w :
  mntm_accepts m fuel w = Ok true \/ mntm_accepts m fuel w = Ok false \/ mntm_accepts m fuel w = Err Fuel.
Proof.
  unfold mntm_accepts. destruct (mntm_stepwise m fuel w) as [ys o] eqn:E.
  destruct (mntm_stepwise_sound w fuel ys o E) as [_ [_ S3]]. simpl snd.
  destruct o as [cl|e]; simpl; [auto|]. destruct e; try contradiction; simpl; auto.
Qed.

End MNTM.

(* ================= validity, verdicts of the multitape machine ================= *)
Section MNTMVerdict.
Variable m : mntm.
Hypothesis Hvalid : valid_mntm m = true.

Lemma assocl_In {B} k (l : list (list nat * B)) v : assocl k l = Some v -> In (k, v) l.
Proof.
  induction l as [|[k' v'] r IH]; simpl; [discriminate|].
  destruct (eqb_list Nat.eqb k k') eqn:E.
  - apply (eqb_list_ok Nat.eqb eqb_nat_ok) in E. subst. intro H. inversion H. left. reflexivity.
  - intro H. right. apply IH. exact H.
Qed.

Lemma valid_final_no_delta q ss : In q (mt_finals m) -> mt_delta m q ss = None.
Proof.
  intro Hq. pose proof Hvalid as H1. unfold valid_mntm in H1.
  rewrite forallb_forall in H1. specialize (H1 q Hq). apply negb_true_iff, memb_false in H1.
  unfold mt_delta. destruct (assoc q (mt_trans m)) as [row|] eqn:E; [|reflexivity].
  exfalso. apply H1. eapply assoc_Some_key. exact E.
Qed.

Definition mreach_final (w : list nat) : Prop :=
  exists k z, mreach m k (mt_start m w) z /\ mt_final m z.

Lemma mntm_accepts_spec fuel w :
  (mntm_accepts m fuel w = Ok true -> mreach_final w) /\
  (mntm_accepts m fuel w = Ok false -> ~ mreach_final w) /\
  (mntm_accepts m fuel w = Ok true \/ mntm_accepts m fuel w = Ok false \/ mntm_accepts m fuel w = Err Fuel).
Proof.
  unfold mntm_accepts. destruct (mntm_stepwise m fuel w) as [ys o] eqn:E.
  destruct (mntm_stepwise_sound m w fuel ys o E) as [S1 [_ S3]]. simpl snd.
  destruct o as [cl|e]; simpl.
  - split; [|split; [discriminate|auto]]. intros _. destruct S3 as [Hin [Hf _]].
    destruct (S1 cl Hin) as [k Hk]. exists k, (abs_mcfg cl). split; assumption.
  - destruct e; try contradiction; simpl.
    + split; [discriminate|]. split; [|auto]. intros _ [k [z [Hr Hf]]].
      apply (S3 k z Hr). split; [exact Hf|]. left. apply valid_final_no_delta. exact Hf.
    + split; [discriminate|]. split; [discriminate|auto].
Qed.

End MNTMVerdict.

(* ================= one deterministic table, three simulators ================= *)
Section Cross.
Variable m : dtm.

Lemma assoc_map_snd {B C} (f : B -> C) k (l : list (nat * B)) :
  assoc k (map (fun p => (fst p, f (snd p))) l) = option_map f (assoc k l).
Proof.
  induction l as [|[k' v] r IH]; simpl; [reflexivity|].
  destruct (Nat.eqb k k'); [reflexivity|exact IH].
Qed.

Lemma assocl_map_single {B C} (f : B -> C) s (l : list (nat * B)) :
  assocl [s] (map (fun p => ([fst p], f (snd p))) l) = option_map f (assoc s l).
Proof.
  induction l as [|[k' v] r IH]; simpl; [reflexivity|].
  rewrite andb_true_r. destruct (Nat.eqb s k'); [reflexivity|exact IH].
Qed.

Lemma nt_delta_of_dtm q s :
  nt_delta (ntm_of_dtm m) q s = match dt_delta m q s with Some a => [a] | None => [] end.
Proof.
  unfold nt_delta, dt_delta, ntm_of_dtm. cbn [nt_trans].
  rewrite (assoc_map_snd (fun row => map (fun sa => (fst sa, [snd sa])) row)).
  destruct (assoc q (dt_trans m)) as [row|]; [|reflexivity]. simpl.
  rewrite (assoc_map_snd (fun a : act => [a])). destruct (assoc s row); reflexivity.
Qed.

Lemma mt_delta_of_dtm q s :
  mt_delta (mntm_of_dtm m) q [s] =
  match dt_delta m q s with
  | Some a => Some [(fst (fst a), [(snd (fst a), snd a)])]
  | None => None
  end.
Proof.
  unfold mt_delta, dt_delta, mntm_of_dtm. cbn [mt_trans].
  induction (dt_trans m) as [|[q0 row] r IH]; simpl; [reflexivity|].
  destruct (Nat.eqb q q0); [|exact IH]. clear IH.
  induction row as [|[s0 a] row IHr]; simpl; [reflexivity|].
  rewrite andb_true_r. destruct (Nat.eqb s s0); [reflexivity|exact IHr].
Qed.

Lemma nreach_of_dtm k : forall c z,
  nreach (ntm_of_dtm m) k c z <-> exists z', dsteps m k c = Some z' /\ zcfg_eq z' z.
Proof.
  induction k as [|k IH]; intros c z.
  - simpl. split.
    + intro H. inversion H; subst. exists c. split; [reflexivity|assumption].
    + intros [z' [H1 H2]]. inversion H1; subst. apply nr_0. exact H2.
  - split.
    + intro H. inversion H as [|k' c0 c1 c' Hs Hr]; subst.
      destruct Hs as [q' [s [d [Hin [Hq Hz]]]]]. rewrite nt_delta_of_dtm in Hin.
      destruct (dt_delta m (fst c) (snd c 0%Z)) as [a|] eqn:Hd; [|destruct Hin].
      destruct Hin as [Ha|[]]. subst a.
      apply IH in Hr. destruct Hr as [z' [Hz' Hze]].
      assert (He : zcfg_eq (q', zact (snd c) s d) c1) by (split; [auto|apply zeq_sym; exact Hz]).
      pose proof (dsteps_cong m k _ _ He) as Hc. rewrite Hz' in Hc.
      simpl. unfold dstep. rewrite Hd.
      destruct (dsteps m k (q', zact (snd c) s d)) as [z''|]; [|contradiction].
      exists z''. split; [reflexivity|]. eapply zcfg_eq_trans; eassumption.
    + intros [z' [Hz' Hze]]. simpl in Hz'. unfold dstep in Hz'.
      destruct (dt_delta m (fst c) (snd c 0%Z)) as [[[q' s] d]|] eqn:Hd; [|discriminate].
      eapply nr_S; [|apply IH; exists z'; split; [exact Hz'|exact Hze]].
      exists q', s, d. rewrite nt_delta_of_dtm, Hd. split; [left; reflexivity|].
      split; [reflexivity|apply zeq_refl].
Qed.

Definition lift1 (c : zcfg) : mzcfg := (fst c, [snd c]).

Lemma mreach_of_dtm k : forall c z,
  mreach (mntm_of_dtm m) k (lift1 c) z <-> exists z', dsteps m k c = Some z' /\ mzcfg_eq (lift1 z') z.
Proof.
  induction k as [|k IH]; intros c z.
  - simpl. split.
    + intro H. inversion H; subst. exists c. split; [reflexivity|assumption].
    + intros [z' [H1 H2]]. inversion H1; subst. apply mr_0. exact H2.
  - split.
    + intro H. inversion H as [|k' c0 c1 c' Hs Hr]; subst.
      destruct Hs as [alts [q' [mv [Hd [Hin [Hq Hz]]]]]].
      cbn [lift1 fst snd zheads map] in Hd. rewrite mt_delta_of_dtm in Hd.
      destruct (dt_delta m (fst c) (snd c 0%Z)) as [[[q1 s] d]|] eqn:Hdd; [|discriminate].
      cbn [fst snd] in Hd. inversion Hd; subst alts. destruct Hin as [Ha|[]]. inversion Ha; subst q' mv.
      assert (He : mzcfg_eq (lift1 (q1, zact (snd c) s d)) c1).
      { split; [cbn; auto|]. apply F2zeq_sym. exact Hz. }
      apply (mreach_cong_l _ _ _ _ _ (mzcfg_eq_sym _ _ He)) in Hr.
      apply IH in Hr. destruct Hr as [z' [Hz' Hze]].
      exists z'. split; [|exact Hze]. simpl. unfold dstep. rewrite Hdd. exact Hz'.
    + intros [z' [Hz' Hze]]. simpl in Hz'. unfold dstep in Hz'.
      destruct (dt_delta m (fst c) (snd c 0%Z)) as [[[q' s] d]|] eqn:Hd; [|discriminate].
      eapply mr_S; [|apply (IH (q', zact (snd c) s d)); exists z'; split; [exact Hz'|exact Hze]].
      exists [(q', [(s, d)])], q', [(s, d)].
      cbn [lift1 fst snd zheads map]. rewrite mt_delta_of_dtm, Hd.
      split; [reflexivity|]. split; [left; reflexivity|]. split; [reflexivity|].
      apply F2zeq_refl.
Qed.

Lemma valid_ntm_of_dtm : valid_dtm m = true -> valid_ntm (ntm_of_dtm m) = true.
Proof.
  unfold valid_dtm, valid_ntm, ntm_of_dtm. cbn [nt_finals nt_trans]. rewrite map_map. simpl. auto.
Qed.

Lemma valid_mntm_of_dtm : valid_dtm m = true -> valid_mntm (mntm_of_dtm m) = true.
Proof.
  unfold valid_dtm, valid_mntm, mntm_of_dtm. cbn [mt_finals mt_trans]. intro H.
  rewrite map_map. simpl. exact H.
Qed.

Definition dreaches_final (w : list nat) : Prop := exists k, dreach_final m w k.

Lemma nreach_final_of_dtm w k : nreach_final (ntm_of_dtm m) w k <-> dreach_final m w k.
Proof.
  unfold nreach_final, dreach_final. split.
  - intros [z [Hr Hf]]. apply nreach_of_dtm in Hr. destruct Hr as [z' [Hz' [Hq _]]].
    exists z'. split; [exact Hz'|]. unfold dt_final, nt_final in *. rewrite Hq. exact Hf.
  - intros [z [Hz Hf]]. exists z. split; [|exact Hf].
    apply nreach_of_dtm. exists z. split; [exact Hz|apply zcfg_eq_refl].
Qed.

Lemma mreach_final_of_dtm w : mreach_final (mntm_of_dtm m) w <-> dreaches_final w.
Proof.
  unfold mreach_final, dreaches_final, dreach_final.
  change (mt_start (mntm_of_dtm m) w) with (lift1 (dt_start m w)). split.
  - intros [k [z [Hr Hf]]]. apply mreach_of_dtm in Hr. destruct Hr as [z' [Hz' [Hq _]]].
    exists k, z'. split; [exact Hz'|]. unfold dt_final, mt_final in *. cbn [lift1 fst] in Hq.
    rewrite Hq. exact Hf.
  - intros [k [z [Hz Hf]]]. exists k, (lift1 z). split; [|exact Hf].
    apply mreach_of_dtm. exists z. split; [exact Hz|apply mzcfg_eq_refl].
Qed.

Lemma cross_model_agreement w f1 f2 f3 b1 b2 b3 : valid_dtm m = true ->
  dtm_accepts m f1 w = Ok b1 ->
  ntm_accepts (ntm_of_dtm m) f2 w = Ok b2 ->
  mntm_accepts (mntm_of_dtm m) f3 w = Ok b3 ->
  b1 = b2 /\ b2 = b3.
Proof.
  intros Hv H1 H2 H3.
  assert (D : if b1 then dreaches_final w else ~ dreaches_final w).
  { destruct b1.
    - apply dtm_accept_iff in H1. destruct H1 as [k [_ Hk]]. exists k. exact Hk.
    - intros [k Hk]. exact (dtm_reject_never_final m f1 w H1 k Hk). }
  assert (N : if b2 then dreaches_final w else ~ dreaches_final w).
  { destruct b2.
    - apply ntm_accept_iff in H2. destruct H2 as [k [_ Hk]]. exists k. apply nreach_final_of_dtm. exact Hk.
    - intros [k Hk]. apply nreach_final_of_dtm in Hk. exact (ntm_reject_never_final _ f2 w H2 k Hk). }
  assert (M : if b3 then dreaches_final w else ~ dreaches_final w).
  { destruct (mntm_accepts_spec _ (valid_mntm_of_dtm Hv) f3 w) as [Ma [Mr _]]. destruct b3.
    - apply mreach_final_of_dtm. exact (Ma H3).
    - intro Hd. apply (Mr H3). apply mreach_final_of_dtm. exact Hd. }
  destruct b1, b2, b3; try (split; reflexivity); exfalso; tauto.
Qed.

End Cross.

Section MNTMVisits.
Variable m : mntm.

(* when the BFS ends with the rejection exception, every reachable configuration was dequeued *)
Lemma mntm_reject_visits_all w fuel ys : mntm_stepwise m fuel w = (ys, Err Reject) ->
  forall k z, mreach m k (mt_start m w) z -> exists c, In c ys /\ mzcfg_eq (abs_mcfg c) z.
Proof.
  unfold mntm_stepwise. intro E. destruct (mntm_start_abs m w) as [Hwf Hst].
  destruct (mntm_bfs_reject m fuel [] [mntm_start m w] ys) as [I1 I2].
  - intros c [Hc|[]]. subst. exact Hwf.
  - intros p [].
  - exact E.
  - simpl in I1, I2. intros k z Hr.
    assert (Hr' : mreach m k (abs_mcfg (mntm_start m w)) z)
      by (eapply mreach_cong_l; [apply mzcfg_eq_sym; exact Hst|exact Hr]).
    exact (mclosed_reach m ys I2 k _ z (I1 _ (or_introl eq_refl)) Hr').
Qed.

End MNTMVisits.
