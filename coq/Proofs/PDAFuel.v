(* C02, fuel sufficiency: under [eps_ranked] every move strictly decreases [pda_potential], so
   no configuration is reachable in more than potential(start) moves, the NPDA's level generator
   meets an empty level and the DPDA loop stops, both within [pda_fuel_bound] units of fuel. *)
From Coq Require Import List Arith Bool Lia.
From AV Require Import Base.Util Spec.Lang Spec.FA Spec.PDA Spec.PDARank Model.PDA Proofs.PDA.
Import ListNotations.

Lemma fold_max_ge (l : list nat) x : In x l -> x <= fold_right Nat.max 0 l.
Proof.
  induction l as [|y l IH]; simpl; [intros []|]. intros [->|H]; [lia|]. specialize (IH H). lia.
Qed.

Lemma entry_rule m q a Z q' push :
  In (q', push) (p_entry m q a Z) -> In (q, a, Z, q', push) (rules_of m).
Proof.
  unfold p_entry, rules_of.
  destruct (assoc q (p_trans m)) as [row|] eqn:Eq; [|intros []].
  destruct (oassoc a row) as [tops|] eqn:Ea; [|intros []].
  destruct (assoc Z tops) as [e|] eqn:Ez; [|intros []].
  intro H. apply in_flat_map. exists (q, row). split; [apply assoc_In; exact Eq|].
  apply in_flat_map. exists (a, tops). split; [apply oassoc_In; exact Ea|].
  apply in_flat_map. exists (Z, e). split; [apply assoc_In; exact Ez|].
  apply in_map_iff. exists (q', push). split; [reflexivity|exact H].
Qed.

Lemma rule_push_le m r : In r (rules_of m) -> length (rule_push r) <= max_push m.
Proof.
  intro H. unfold max_push. apply fold_max_ge. apply in_map_iff. exists r. split; [reflexivity|exact H].
Qed.

Section Ranked.
Variable rank : nat -> nat.
Variable N : nat.
Variable m : pda.
Hypothesis Hrk : eps_ranked rank N m = true.

Let Phi := pda_potential rank N m.

Lemma crank_le q : crank rank N q <= N.
Proof. unfold crank. lia. Qed.

(* every move strictly decreases the potential *)
Lemma move_decreases c c' : pda_move m c c' -> Phi c' < Phi c.
Proof.
  intro H. unfold Phi, pda_potential.
  pose proof (crank_le) as Hc.
  inversion H as [q a w Z s q' push Hin|q w Z s q' push Hin]; subst.
  - apply entry_rule in Hin. apply rule_push_le in Hin. unfold rule_push in Hin. simpl snd in Hin.
    rewrite app_length. simpl length.
    pose proof (Hc q) as H1. pose proof (Hc q') as H2.
    set (P := max_push m) in *. set (K := S N) in *.
    assert (HK : N < K) by (unfold K; lia).
    assert (Hp : length push * K <= P * K) by (apply Nat.mul_le_mono_r; exact Hin).
    rewrite Nat.mul_add_distr_r.
    change (S (length w) * (S P * K)) with (S P * K + length w * (S P * K)).
    change (S P * K) with (K + P * K).
    change (S (length s) * K) with (K + length s * K). lia.
  - apply entry_rule in Hin. unfold eps_ranked in Hrk. rewrite forallb_forall in Hrk.
    specialize (Hrk _ Hin). simpl in Hrk.
    pose proof (Hc q) as H1. pose proof (Hc q') as H2.
    set (K := S N) in *. assert (HK : N < K) by (unfold K; lia).
    destruct push as [|x [|y rest]]; [| |discriminate].
    + simpl app. simpl length. change (S (length s) * K) with (K + length s * K). lia.
    + apply Nat.ltb_lt in Hrk. simpl app. simpl length. lia.
Qed.

Lemma moves_bounded k : forall c c', pda_moves m k c c' -> k + Phi c' <= Phi c.
Proof.
  induction k as [|k IH]; intros c c' H.
  - apply pda_moves_0 in H. subst. lia.
  - inversion H as [|k' x c1 y H1 H2]; subst. specialize (IH _ _ H1).
    apply move_decreases in H2. lia.
Qed.

Lemma start_potential w : Phi (pda_start m w) < pda_fuel_bound N m w.
Proof.
  unfold Phi, pda_potential, pda_start, pda_fuel_bound.
  generalize (length w * (S (max_push m) * S N)). intro X.
  change (length [p_init_stack m]) with 1. pose proof (crank_le (p_init m)) as H. revert H. generalize (crank rank N (p_init m)). intros c H. lia.
Qed.

(* ---- NPDA: the level generator returns ---- *)
Lemma npda_levels_enough w fuel : forall k cur,
  (forall c, In c cur <-> at_level m w k c) ->
  Phi (pda_start m w) < k + fuel ->
  snd (npda_levels m fuel cur) <> Err Fuel.
Proof.
  induction fuel as [|f IH]; intros k cur Hcur Hb.
  - destruct cur as [|c cur]; [simpl; discriminate|]. exfalso.
    assert (Hc : at_level m w k c) by (apply Hcur; left; reflexivity).
    unfold at_level in Hc. apply moves_bounded in Hc. lia.
  - destruct (nil_or_not cur) as [->|Hne]; [simpl; discriminate|].
    rewrite (npda_levels_S _ _ _ Hne).
    destruct (existsb (has_accepted m) cur); [simpl; discriminate|]. cbv zeta.
    destruct (npda_levels m f (dedup (flat_map (npda_expand m) cur))) as [ys r] eqn:E. cbn [snd].
    specialize (IH (S k) (dedup (flat_map (npda_expand m) cur)) (level_step m w k cur Hcur)).
    rewrite E in IH. cbn [snd] in IH. apply IH. lia.
Qed.

Lemma npda_levels_outcome fuel : forall cur,
  let r := snd (npda_levels m fuel cur) in r = Ok tt \/ r = Err Reject \/ r = Err Fuel.
Proof.
  induction fuel as [|f IH]; intros cur; simpl.
  - destruct cur; simpl; auto.
  - destruct cur as [|c cur]; [simpl; auto|].
    destruct (existsb (has_accepted m) (c :: cur)); [simpl; auto|].
    specialize (IH (dedup (flat_map (npda_expand m) (c :: cur)))).
    destruct (npda_levels m f (dedup (flat_map (npda_expand m) (c :: cur)))) as [ys r]. exact IH.
Qed.

Lemma npda_total w fuel : pda_fuel_bound N m w <= fuel ->
  npda_accepts m fuel w = Ok true \/ npda_accepts m fuel w = Ok false.
Proof.
  intro Hf. unfold npda_accepts, npda_stepwise.
  pose proof (npda_levels_enough w fuel 0 [start_cfg m w] (level_0 m w)) as Hne.
  pose proof (npda_levels_outcome fuel [start_cfg m w]) as Ho.
  destruct (npda_levels m fuel [start_cfg m w]) as [ys r]. cbn [snd] in *.
  pose proof (start_potential w).
  destruct Ho as [Ho|[Ho|Ho]]; subst r; [left; reflexivity|right; reflexivity|].
  exfalso. apply Hne; [lia|reflexivity].
Qed.

Lemma npda_decides w fuel : pda_fuel_bound N m w <= fuel ->
  (npda_accepts m fuel w = Ok true <-> pda_accepts m w) /\
  (npda_accepts m fuel w = Ok false <-> ~ pda_accepts m w).
Proof.
  intro Hf. destruct (npda_verdict_sound m w fuel) as [S1 S2].
  destruct (npda_total w fuel Hf) as [E|E]; rewrite E in *.
  - split; split; intro H.
    + exact (S1 eq_refl).
    + reflexivity.
    + discriminate.
    + exfalso. exact (H (S1 eq_refl)).
  - split; split; intro H.
    + discriminate.
    + exfalso. exact (S2 eq_refl H).
    + exact (S2 eq_refl).
    + reflexivity.
Qed.

(* ---- DPDA: the loop returns ---- *)
Hypothesis Hshape : dpda_shape m = true.
Hypothesis Hdet : dpda_det_check m = true.

Lemma dpda_loop_enough fuel : forall c, Phi (abs c) < fuel -> snd (dpda_loop m fuel c) <> Err Fuel.
Proof.
  induction fuel as [|f IH]; intros c Hb; [lia|].
  destruct (dpda_loop_cond m c) eqn:Ec.
  2:{ rewrite (dpda_loop_nocond m _ _ Ec). simpl. unfold dpda_check.
      destruct (has_accepted m c); discriminate. }
  rewrite (dpda_loop_S m _ _ Ec). destruct (dpda_next m c) as [c'|e] eqn:En.
  - destruct (has_accepted m c'); [simpl; discriminate|].
    pose proof (move_decreases _ _ (dpda_next_move m Hshape Hdet _ _ En)) as Hd.
    specialize (IH c'). destruct (dpda_loop m f c') as [ys r]. cbn [snd] in *. apply IH. lia.
  - simpl. rewrite (dpda_next_err m Hshape _ _ Ec En). discriminate.
Qed.

Lemma dpda_total w fuel : pda_fuel_bound N m w <= fuel ->
  dpda_accepts m fuel w = Ok true \/ dpda_accepts m fuel w = Ok false.
Proof.
  intro Hf. destruct (dpda_accepts_outcome m Hshape fuel w) as [H|[H|H]]; [left; exact H|right; exact H|].
  exfalso. revert H. unfold dpda_accepts, dpda_stepwise.
  destruct (has_accepted m (start_cfg m w)); [discriminate|].
  pose proof (dpda_loop_enough fuel (start_cfg m w)) as Hne. rewrite abs_start in Hne.
  pose proof (start_potential w) as Hsp.
  destruct (dpda_loop m fuel (start_cfg m w)) as [ys r]. cbn [snd] in *.
  intro H. apply Hne; [lia|].
  destruct r as [[]|e]; [discriminate|]. destruct e; simpl in H; try discriminate. reflexivity.
Qed.

Lemma dpda_decides w fuel : pda_fuel_bound N m w <= fuel ->
  (dpda_accepts m fuel w = Ok true <-> pda_accepts m w) /\
  (dpda_accepts m fuel w = Ok false <-> ~ pda_accepts m w).
Proof.
  intro Hf. destruct (dpda_verdict_sound m Hshape Hdet fuel w) as [S1 S2].
  destruct (dpda_total w fuel Hf) as [E|E]; rewrite E in *.
  - split; split; intro H.
    + exact (S1 eq_refl).
    + reflexivity.
    + discriminate.
    + exfalso. exact (H (S1 eq_refl)).
  - split; split; intro H.
    + discriminate.
    + exfalso. exact (S2 eq_refl H).
    + exact (S2 eq_refl).
    + reflexivity.
Qed.

End Ranked.

(* the bound for the "every empty-string move pops" class, written out *)
Lemma fuel_bound_shrinking m w : pda_fuel_bound 0 m w = length w * S (max_push m) + 2.
Proof. unfold pda_fuel_bound. rewrite Nat.mul_1_r. reflexivity. Qed.

(* no run from the start configuration is longer than the bound *)
Lemma run_length_bounded rank N m w k c : eps_ranked rank N m = true ->
  pda_moves m k (pda_start m w) c -> k < pda_fuel_bound N m w.
Proof.
  intros Hrk H. apply (moves_bounded rank N m Hrk) in H.
  pose proof (start_potential rank N m w). lia.
Qed.
