(* C07: the result of the model of _eliminate_lambda has no state unreachable from its initial
   state, and the two flag functions the harness applies to the implementation's result
   (has_eps_key, all_reachable in Model/Subset.v) mean what their names say. *)
From Coq Require Import List Arith Bool Lia.
From AV Require Import Base.Util Base.Closure Spec.Lang Spec.FA Model.FARun Model.Decide Model.Product
     Model.Subset Model.NFAOps Proofs.NFAOps.
Import ListNotations.

(* ---------- every state kept by the model's pruning is reachable in the result ---------- *)
Section ElimReach.
  Variable A : nfa.
  Hypothesis Hv : valid_nfa A = true.
  Variable e : eparts.
  Hypothesis He : elim_parts A = Ok e.

  Let R := assemble idn (e_states e) (n_syms A) (e_rowof e) (n_init A) (e_finals e).

  Lemma es_gpath y : In y (e_states e) -> exists w, gpath (EE A) (n_init A) w y.
  Proof.
    destruct (elim_parts_inv A e He) as [Hc _]. intro Hy.
    apply (closure_sound _ _ eqb_nat_ok _ _ _ _ Hc) in Hy.
    induction Hy as [x Hx|x y Hr [w IH] Hy].
    - destruct Hx as [<-|[]]. exists []. apply gp_refl.
    - apply elim_succ in Hy. destruct Hy as [[a|] Hy].
      + exists (w ++ [a]). eapply gpath_snoc_sym; eassumption.
      + exists w. eapply gpath_snoc_eps; eassumption.
  Qed.

  Lemma elimop_all_reachable q : In q (n_states R) -> exists w, nfa_path R (n_init R) w q.
  Proof.
    unfold R at 1. simpl. intro Hq. apply in_map_iff in Hq. destruct Hq as [y [<- Hy]].
    destruct (es_gpath y Hy) as [w Hw]. exists w. unfold EE in Hw. rewrite <- (e_rowof_eq A e He) in Hw.
    destruct (asm_path_fwd idn (e_states e) (n_syms A) (e_rowof e) (n_init A) (e_finals e) (idn_inj _)
                (elimop_rows_ok A Hv e He) _ _ _ (es_init A e He) Hw) as [_ Hp].
    exact Hp.
  Qed.
End ElimReach.

Theorem ops_elim_reachable A R : valid_nfa A = true -> nfa_eliminate_lambda A = Ok R ->
  forall q, In q (n_states R) -> exists w, nfa_path R (n_init R) w q.
Proof.
  intro Hv. unfold nfa_eliminate_lambda. destruct (elim_parts A) as [e|] eqn:He; [|discriminate]. simpl.
  intro H. apply check_nfa_inv in H. destruct H as [-> _]. apply elimop_all_reachable; assumption.
Qed.

(* ---------- the flag functions ---------- *)
(* all targets listed in the row of q, whatever the key *)
Definition row_succ (m : nfa) (q : nat) : list nat :=
  match assoc q (n_trans m) with Some row => flat_map snd row | None => [] end.
(* graph reachability from the initial state *)
Definition graph_reach (m : nfa) (q : nat) : Prop := reach (row_succ m) [n_init m] q.

Lemma has_eps_key_false m :
  has_eps_key m = false <->
  forall q row a l, In (q, row) (n_trans m) -> In (a, l) row -> a <> None.
Proof.
  unfold has_eps_key. split.
  - intros H q row a l Hr Hal ->.
    assert (Ht : existsb (fun r => existsb (fun e => isnone (fst e)) (snd r)) (n_trans m) = true).
    { apply existsb_exists. exists (q, row). split; [exact Hr|]. apply existsb_exists.
      exists (None, l). split; [exact Hal|reflexivity]. }
    congruence.
  - intro H. destruct (existsb _ (n_trans m)) eqn:E; [|reflexivity].
    apply existsb_exists in E. destruct E as [[q row] [Hr E]]. apply existsb_exists in E.
    destruct E as [[a l] [Hal E]]. simpl in E, Hal. destruct a as [a|]; [discriminate|].
    exfalso. exact (H q row None l Hr Hal eq_refl).
Qed.

Lemma row_succ_in_states m q y : valid_nfa m = true -> In y (row_succ m q) -> In y (n_states m).
Proof.
  unfold valid_nfa. repeat rewrite andb_true_iff. intros [[[[[[_ _] _] Hrows] _] _] _].
  unfold row_succ. destruct (assoc q (n_trans m)) as [row|] eqn:Ea; [|intros []].
  apply assoc_In in Ea. rewrite forallb_forall in Hrows. specialize (Hrows _ Ea). simpl in Hrows.
  unfold nrow_ok in Hrows. rewrite forallb_forall in Hrows. intro Hy. apply in_flat_map in Hy.
  destruct Hy as [p [Hp Hy]]. specialize (Hrows p Hp). apply andb_true_iff in Hrows.
  destruct Hrows as [_ Hs]. apply subsetb_incl in Hs. apply Hs. exact Hy.
Qed.

Lemma all_reachable_true m : valid_nfa m = true ->
  (all_reachable m = Ok true <-> forall q, In q (n_states m) -> graph_reach m q).
Proof.
  intro Hv. unfold all_reachable, nfa_reach, graph_reach. fold (row_succ m).
  change (fun q : nat => match assoc q (n_trans m) with Some row => flat_map snd row | None => [] end)
    with (row_succ m).
  destruct (closure Nat.eqb (row_succ m) (S (length (n_states m))) [n_init m]) as [r|] eqn:Ec; simpl.
  - split.
    + intros H q Hq. injection H as H. rewrite forallb_forall in H. specialize (H q Hq).
      apply memb_In in H. exact (closure_sound _ _ eqb_nat_ok _ _ _ _ Ec q H).
    + intro H. f_equal. apply forallb_forall. intros q Hq. apply memb_In.
      exact (closure_complete _ _ eqb_nat_ok _ _ _ _ Ec q (H q Hq)).
  - exfalso. revert Ec. apply (closure_fuel _ _ eqb_nat_ok _ (n_states m)).
    + intros x y _ Hy. exact (row_succ_in_states m x y Hv Hy).
    + intros x [<-|[]]. unfold valid_nfa in Hv. repeat rewrite andb_true_iff in Hv.
      destruct Hv as [[[_ Hi] _] _]. apply memb_In. exact Hi.
    + lia.
Qed.

(* graph reachability against word reachability: every edge of the automaton is a listed target, and
   conversely when no row lists a key twice (always so for a Python dict) *)
Lemma path_graph_reach m q w : nfa_path m (n_init m) w q -> graph_reach m q.
Proof.
  intro H. rewrite nfa_path_gpath in H. unfold graph_reach.
  assert (G : forall p u r, gpath (n_edge m) p u r -> reach (row_succ m) [n_init m] p ->
                            reach (row_succ m) [n_init m] r).
  { intros p u r Hp. induction Hp as [x|x y z u He Hp IH|x a y z u He Hp IH]; intro Hx; [exact Hx| |];
      apply IH; eapply reach_step; try exact Hx;
      unfold n_edge, n_targets in He; unfold row_succ;
      destruct (assoc x (n_trans m)) as [row|]; try (destruct He; fail);
      match type of He with In _ (match oassoc ?k row with _ => _ end) =>
        destruct (oassoc k row) as [l|] eqn:Eo; [|destruct He];
        apply oassoc_In' in Eo; apply in_flat_map; exists (k, l); split; [exact Eo|exact He] end. }
  apply (G _ _ _ H). apply reach_init. left. reflexivity.
Qed.

Lemma oassoc_unique {B} a v (row : list (option nat * B)) :
  NoDup (map fst row) -> In (a, v) row -> oassoc a row = Some v.
Proof.
  induction row as [|[k' v'] r IH]; simpl; [intros _ []|].
  intros Hn [H|H]; inversion Hn as [|? ? Hni Hn']; subst.
  - inversion H; subst. rewrite (eqb_ok_refl _ (eqb_opt_ok _ eqb_nat_ok)). reflexivity.
  - destruct (eqb_opt Nat.eqb a k') eqn:E.
    + apply (eqb_opt_ok _ eqb_nat_ok) in E. subst. exfalso. apply Hni.
      apply in_map_iff. exists (k', v). split; [reflexivity|exact H].
    + apply IH; assumption.
Qed.

Definition row_keys_unique (m : nfa) : Prop :=
  forall q row, In (q, row) (n_trans m) -> NoDup (map fst row).

Lemma graph_reach_path m q : row_keys_unique m -> graph_reach m q ->
  exists w, nfa_path m (n_init m) w q.
Proof.
  intros Hu H. unfold graph_reach in H.
  assert (G : exists w, gpath (n_edge m) (n_init m) w q).
  { induction H as [x Hx|x y Hr [w IH] Hy].
    - destruct Hx as [<-|[]]. exists []. apply gp_refl.
    - unfold row_succ in Hy. destruct (assoc x (n_trans m)) as [row|] eqn:Ea; [|destruct Hy].
      apply in_flat_map in Hy. destruct Hy as [[a l] [Hal Hy]]. simpl in Hy.
      assert (He : n_edge m x a y).
      { unfold n_edge, n_targets. rewrite Ea.
        rewrite (oassoc_unique a l row (Hu x row (assoc_In _ _ _ Ea)) Hal). exact Hy. }
      destruct a as [a|].
      + exists (w ++ [a]). eapply gpath_snoc_sym; eassumption.
      + exists w. eapply gpath_snoc_eps; eassumption. }
  destruct G as [w G]. exists w. apply nfa_path_gpath. exact G.
Qed.
