(* C15 / from_finite_language: the dictionaries, sets, row sorting, word sorting, prefixes and the longest common
   prefix used by Model/FiniteLang.v. *)
From Coq Require Import List Arith Bool Lia Sorted.
From AV Require Import Base.Util Spec.Lang Spec.FA Spec.DictOrder Spec.Preds Model.FiniteLang.
Import ListNotations.

(* ---------- equality of words ---------- *)
Lemma weqb_refl x : word_eqb x x = true.
Proof. apply word_eqb_spec. reflexivity. Qed.

Lemma weqb_neq x y : word_eqb x y = false <-> x <> y.
Proof.
  split.
  - intros E H. apply word_eqb_spec in H. congruence.
  - intro N. destruct (word_eqb x y) eqn:E; [|reflexivity]. apply word_eqb_spec in E. contradiction.
Qed.

Lemma weqb_sym x y : word_eqb x y = word_eqb y x.
Proof.
  destruct (word_eqb x y) eqn:E.
  - apply word_eqb_spec in E. subst. symmetry. apply weqb_refl.
  - symmetry. apply weqb_neq. apply weqb_neq in E. congruence.
Qed.

Ltac weq x y := let E := fresh "E" in
  destruct (word_eqb x y) eqn:E; [apply word_eqb_spec in E|apply weqb_neq in E].

Lemma NoDup_snoc {A} (x : A) l : NoDup l -> ~ In x l -> NoDup (l ++ [x]).
Proof.
  intros H Hn. induction l as [|y l IH]; simpl; [constructor; [intros []|constructor]|].
  inversion H; subst. constructor.
  - intro Hi. apply in_app_or in Hi. destruct Hi as [Hi|[Hi|[]]]; [contradiction|]. subst. apply Hn. left. reflexivity.
  - apply IH; [assumption|]. intro Hi. apply Hn. right. exact Hi.
Qed.

(* ---------- dictionaries keyed by words ---------- *)
Section Dict.
  Context {B : Type}.
  Implicit Types (l : list (word * B)) (k x : word) (v : B).

  Lemma wassoc_app x l1 l2 :
    wassoc x (l1 ++ l2) = match wassoc x l1 with Some v => Some v | None => wassoc x l2 end.
  Proof.
    induction l1 as [|[k v] l1 IH]; simpl; [reflexivity|]. destruct (word_eqb x k); [reflexivity|exact IH].
  Qed.

  Lemma wassoc_None x l : wassoc x l = None <-> ~ In x (map fst l).
  Proof.
    induction l as [|[k v] l IH]; simpl; [tauto|]. weq x k.
    - subst. split; [discriminate|]. intro H. exfalso. apply H. left. reflexivity.
    - rewrite IH. split; [intros H [H1|H1]; [congruence|tauto]|tauto].
  Qed.

  Lemma wassoc_key x l : wassoc x l <> None <-> In x (map fst l).
  Proof.
    split.
    - intro H. destruct (in_dec (list_eq_dec Nat.eq_dec) x (map fst l)) as [Hi|Hn]; [exact Hi|].
      exfalso. apply H. apply wassoc_None. exact Hn.
    - intros Hi Hn. apply wassoc_None in Hn. contradiction.
  Qed.

  Lemma wassoc_In x l v : wassoc x l = Some v -> In (x, v) l.
  Proof.
    induction l as [|[k v'] l IH]; simpl; [discriminate|]. weq x k.
    - subst. intro H. inversion H. left. reflexivity.
    - intro H. right. apply IH. exact H.
  Qed.

  Lemma wassoc_NoDup x v l : NoDup (map fst l) -> In (x, v) l -> wassoc x l = Some v.
  Proof.
    induction l as [|[k v'] l IH]; simpl; [tauto|]. intros Hnd [H|H].
    - inversion H; subst. rewrite weqb_refl. reflexivity.
    - inversion Hnd; subst. weq x k; [|apply IH; assumption].
      subst. exfalso. apply H2. apply in_map_iff. exists (k, v). split; [reflexivity|exact H].
  Qed.

  Lemma wassoc_wset x k v l : wassoc x (wset k v l) = if word_eqb x k then Some v else wassoc x l.
  Proof.
    induction l as [|[k' v'] l IH]; simpl.
    - destruct (word_eqb x k); reflexivity.
    - weq k k'.
      + subst. simpl. destruct (word_eqb x k'); reflexivity.
      + simpl. weq x k'.
        * subst. weq k' k; [congruence|reflexivity].
        * exact IH.
  Qed.

  Lemma wset_keys_present k v l : In k (map fst l) -> map fst (wset k v l) = map fst l.
  Proof.
    induction l as [|[k' v'] l IH]; simpl; [tauto|]. intro H. weq k k'; simpl; [reflexivity|].
    f_equal. apply IH. destruct H as [H|H]; [congruence|exact H].
  Qed.

  Lemma wset_absent k v l : ~ In k (map fst l) -> wset k v l = l ++ [(k, v)].
  Proof.
    induction l as [|[k' v'] l IH]; simpl; [reflexivity|]. intro H. weq k k'.
    - exfalso. apply H. left. congruence.
    - f_equal. apply IH. tauto.
  Qed.

  Lemma wset_same k v l : wassoc k l = Some v -> wset k v l = l.
  Proof.
    induction l as [|[k' v'] l IH]; simpl; [discriminate|]. weq k k'.
    - intro H. inversion H. reflexivity.
    - intro H. f_equal. apply IH. exact H.
  Qed.

  Lemma wset_app_last k v v0 l : wassoc k l = None -> wset k v (l ++ [(k, v0)]) = l ++ [(k, v)].
  Proof.
    induction l as [|[k' v'] l IH]; simpl.
    - rewrite weqb_refl. reflexivity.
    - weq k k'; [discriminate|]. intro H. f_equal. apply IH. exact H.
  Qed.

  Lemma wset_NoDup k v l : NoDup (map fst l) -> NoDup (map fst (wset k v l)).
  Proof.
    intro H. destruct (in_dec (list_eq_dec Nat.eq_dec) k (map fst l)) as [Hi|Hn].
    - rewrite wset_keys_present; assumption.
    - rewrite wset_absent by exact Hn. rewrite map_app. simpl.
      apply NoDup_snoc; assumption.
  Qed.

  Lemma wsetdefault_present k v l : wassoc k l <> None -> wsetdefault k v l = l.
  Proof. unfold wsetdefault. destruct (wassoc k l); [reflexivity|congruence]. Qed.

  Lemma wsetdefault_absent k v l : wassoc k l = None -> wsetdefault k v l = l ++ [(k, v)].
  Proof. unfold wsetdefault. intros ->. reflexivity. Qed.

  Lemma wassoc_wdel x k l : wassoc x (wdel k l) = if word_eqb x k then None else wassoc x l.
  Proof.
    induction l as [|[k' v'] l IH]; simpl.
    - destruct (word_eqb x k); reflexivity.
    - weq k k'; simpl.
      + subst. rewrite IH. destruct (word_eqb x k'); reflexivity.
      + weq x k'.
        * subst. weq k' k; [congruence|reflexivity].
        * exact IH.
  Qed.

  Lemma wdel_NoDup k l : NoDup (map fst l) -> NoDup (map fst (wdel k l)).
  Proof.
    induction l as [|[k' v'] l IH]; simpl; [tauto|]. intro H. inversion H; subst.
    destruct (negb (word_eqb k k')); simpl; [|apply IH; assumption].
    constructor; [|apply IH; assumption]. intro Hi. apply H2.
    apply in_map_iff in Hi. destruct Hi as [[a b] [E Hi]]. apply filter_In in Hi. simpl in E. subst.
    apply in_map_iff. exists (k', b). split; [reflexivity|tauto].
  Qed.
End Dict.


(* ---------- sets of words ---------- *)
Lemma wmem_In k l : wmem k l = true <-> In k l.
Proof.
  unfold wmem. rewrite existsb_exists. split.
  - intros [y [Hy E]]. apply word_eqb_spec in E. subst. exact Hy.
  - intro H. exists k. split; [exact H|apply weqb_refl].
Qed.

Lemma wmem_false k l : wmem k l = false <-> ~ In k l.
Proof.
  rewrite <- wmem_In. destruct (wmem k l); split; intro H; try discriminate; try reflexivity.
  exfalso. apply H. reflexivity.
Qed.

Lemma wmem_app x l1 l2 : wmem x (l1 ++ l2) = wmem x l1 || wmem x l2.
Proof. unfold wmem. apply existsb_app. Qed.

Lemma wadd_In x k l : In x (wadd k l) <-> x = k \/ In x l.
Proof.
  unfold wadd. destruct (wmem k l) eqn:E.
  - apply wmem_In in E. split; [tauto|]. intros [->|H]; assumption.
  - rewrite in_app_iff. simpl. split; [intros [H|[H|[]]]; auto|intros [H|H]; auto].
Qed.

Lemma wmem_wadd x k l : wmem x (wadd k l) = word_eqb x k || wmem x l.
Proof.
  apply eq_true_iff_eq. rewrite orb_true_iff, !wmem_In, wadd_In, word_eqb_spec. tauto.
Qed.

Lemma wdiscard_In x k l : In x (wdiscard k l) <-> x <> k /\ In x l.
Proof.
  unfold wdiscard. rewrite filter_In, negb_true_iff, weqb_neq. split; intros [H1 H2]; split; auto.
Qed.

Lemma wmem_wdiscard x k l : wmem x (wdiscard k l) = negb (word_eqb x k) && wmem x l.
Proof.
  apply eq_true_iff_eq. rewrite andb_true_iff, negb_true_iff, !wmem_In, wdiscard_In, weqb_neq. tauto.
Qed.

Lemma wadd_NoDup k l : NoDup l -> NoDup (wadd k l).
Proof.
  intro H. unfold wadd. destruct (wmem k l) eqn:E; [exact H|]. apply NoDup_snoc; [exact H|].
  apply wmem_false. exact E.
Qed.

Lemma wdiscard_NoDup k l : NoDup l -> NoDup (wdiscard k l).
Proof. intro H. unfold wdiscard. apply NoDup_filter. exact H. Qed.

(* ---------- rows ---------- *)
Lemma assoc_app {B} a (l1 l2 : list (nat * B)) :
  assoc a (l1 ++ l2) = match assoc a l1 with Some v => Some v | None => assoc a l2 end.
Proof.
  induction l1 as [|[k v] l1 IH]; simpl; [reflexivity|]. destruct (Nat.eqb a k); [reflexivity|exact IH].
Qed.

Lemma assoc_redirect a p q row :
  assoc a (redirect p q row) = option_map (fun r => if word_eqb r p then q else r) (assoc a row).
Proof.
  induction row as [|[b t] row IH]; simpl; [reflexivity|].
  destruct (word_eqb t p) eqn:E; simpl; destruct (Nat.eqb a b); simpl; try rewrite E; try reflexivity; exact IH.
Qed.

Lemma redirect_keys p q row : map fst (redirect p q row) = map fst row.
Proof.
  induction row as [|[b t] row IH]; simpl; [reflexivity|]. destruct (word_eqb t p); simpl; f_equal; exact IH.
Qed.

Lemma redirect_id p q row : (forall a, assoc a row <> Some p) -> NoDup (map fst row) -> redirect p q row = row.
Proof.
  induction row as [|[b t] row IH]; simpl; [reflexivity|]. intros H Hnd. inversion Hnd; subst.
  weq t p.
  - exfalso. apply (H b). rewrite Nat.eqb_refl. congruence.
  - f_equal. apply IH; [|assumption]. intros a Ha. apply (H a). destruct (Nat.eqb a b) eqn:Eab; [|exact Ha].
    apply Nat.eqb_eq in Eab. subst. exfalso. apply H2. eapply assoc_Some_key. exact Ha.
Qed.

(* sort_row: same entries, canonical order *)
Lemma row_insert_In e x l : In x (row_insert e l) <-> x = e \/ In x l.
Proof.
  induction l as [|e' l IH]; simpl; [split; [intros [H|[]]; auto|intros [H|[]]; auto]|].
  destruct (Nat.leb (fst e) (fst e')); simpl; [split; intros [H|H]; auto|].
  rewrite IH. split; [intros [H|[H|H]]; auto|intros [H|[H|H]]; auto].
Qed.

Lemma sort_row_In x l : In x (sort_row l) <-> In x l.
Proof.
  induction l as [|e l IH]; simpl; [tauto|]. rewrite row_insert_In, IH. split; intros [H|H]; auto.
Qed.

Lemma row_insert_keys_NoDup e l : NoDup (map fst l) -> ~ In (fst e) (map fst l) -> NoDup (map fst (row_insert e l)).
Proof.
  induction l as [|e' l IH]; simpl; intros Hnd Hn; [constructor; [intros []|constructor]|].
  destruct (Nat.leb (fst e) (fst e')); simpl.
  - constructor; [exact Hn|exact Hnd].
  - inversion Hnd; subst. constructor.
    + intro Hi. apply in_map_iff in Hi. destruct Hi as [x [E Hi]]. apply (proj1 (row_insert_In _ _ _)) in Hi.
      destruct Hi as [->|Hi]; [apply Hn; left; congruence|]. apply H1. rewrite <- E. apply in_map. exact Hi.
    + apply IH; [assumption|tauto].
Qed.

Lemma sort_row_keys_NoDup l : NoDup (map fst l) -> NoDup (map fst (sort_row l)).
Proof.
  induction l as [|e l IH]; simpl; intro H; [constructor|]. inversion H; subst.
  apply row_insert_keys_NoDup; [apply IH; assumption|].
  intro Hi. apply H2. apply in_map_iff in Hi. destruct Hi as [x [E Hi]]. apply (proj1 (sort_row_In _ _)) in Hi.
  rewrite <- E. apply in_map. exact Hi.
Qed.

Lemma assoc_sort_row a l : NoDup (map fst l) -> assoc a (sort_row l) = assoc a l.
Proof.
  intro H. destruct (assoc a l) as [t|] eqn:E.
  - apply assoc_NoDup; [apply sort_row_keys_NoDup; exact H|]. apply sort_row_In. apply assoc_In. exact E.
  - apply assoc_None. intro Hi. apply assoc_None in E. apply E.
    apply in_map_iff in Hi. destruct Hi as [x [Ex Hi]]. apply (proj1 (sort_row_In _ _)) in Hi. rewrite <- Ex. apply in_map. exact Hi.
Qed.

(* ---------- signatures ---------- *)
Lemma row_eqb_spec x y : row_eqb x y = true <-> x = y.
Proof.
  apply (eqb_list_ok _ (eqb_pair_ok _ _ eqb_nat_ok (eqb_list_ok _ eqb_nat_ok))).
Qed.

Lemma sig_eqb_spec x y : sig_eqb x y = true <-> x = y.
Proof.
  unfold sig_eqb. rewrite andb_true_iff, row_eqb_spec, Bool.eqb_true_iff. destruct x, y; simpl. split.
  - intros [-> ->]. reflexivity.
  - intro E. inversion E. auto.
Qed.

Lemma sassoc_In k l v : sassoc k l = Some v -> In (k, v) l.
Proof.
  induction l as [|[k' v'] l IH]; simpl; [discriminate|]. destruct (sig_eqb k k') eqn:E.
  - apply sig_eqb_spec in E. subst. intro H. inversion H. left. reflexivity.
  - intro H. right. apply IH. exact H.
Qed.

Lemma sassoc_None k l : sassoc k l = None -> forall v, ~ In (k, v) l.
Proof.
  induction l as [|[k' v'] l IH]; simpl; [tauto|]. destruct (sig_eqb k k') eqn:E; [discriminate|].
  intros H v [Hi|Hi].
  - inversion Hi; subst. assert (sig_eqb k k = true) by (apply sig_eqb_spec; reflexivity). congruence.
  - exact (IH H v Hi).
Qed.

(* ---------- prefixes ---------- *)
Notation pre := has_prefix.

Lemma pre_refl (x : word) : pre x x.
Proof. exists []. symmetry. apply app_nil_r. Qed.

Lemma pre_nil (x : word) : pre [] x.
Proof. exists x. reflexivity. Qed.

Lemma pre_app (x y : word) : pre x (x ++ y).
Proof. exists y. reflexivity. Qed.

Lemma pre_trans (x y z : word) : pre x y -> pre y z -> pre x z.
Proof. intros [a ->] [b ->]. exists (a ++ b). rewrite app_assoc. reflexivity. Qed.

Lemma pre_length (x y : word) : pre x y -> length x <= length y.
Proof. intros [a ->]. rewrite app_length. lia. Qed.

Lemma pre_antisym (x y : word) : pre x y -> length y <= length x -> x = y.
Proof.
  intros [a ->] H. rewrite app_length in H. destruct a; [rewrite app_nil_r; reflexivity|simpl in H; lia].
Qed.

Lemma pre_snoc_l (x : word) a y : pre (x ++ [a]) y -> pre x y.
Proof. apply pre_trans. apply pre_app. Qed.

Lemma pre_not_longer (x y : word) : length y < length x -> ~ pre x y.
Proof. intros H Hp. apply pre_length in Hp. lia. Qed.

(* a prefix of u ++ z is a prefix of u, or u followed by a non-empty prefix of z *)
Lemma pre_app_split (y u z : word) : pre y (u ++ z) -> pre y u \/ exists z1, z1 <> [] /\ pre z1 z /\ y = u ++ z1.
Proof.
  revert y. induction u as [|a u IH]; intros y [t E]; simpl in *.
  - destruct y as [|b y]; [left; apply pre_nil|]. right. exists (b :: y). split; [discriminate|].
    split; [exists t; exact E|reflexivity].
  - destruct y as [|b y]; [left; apply pre_nil|]. simpl in E. inversion E; subst.
    destruct (IH y (ex_intro _ t H1)) as [[s ->]|[z1 [Hne [Hp ->]]]].
    + left. exists s. reflexivity.
    + right. exists z1. repeat split; assumption.
Qed.

Lemma pre_cancel (u x y : word) : pre (u ++ x) (u ++ y) <-> pre x y.
Proof.
  split; intros [t E].
  - rewrite <- app_assoc in E. apply app_inv_head in E. exists t. exact E.
  - exists t. rewrite E. apply app_assoc.
Qed.

Lemma pre_firstn i (w : word) : pre (firstn i w) w.
Proof. exists (skipn i w). symmetry. apply firstn_skipn. Qed.

Lemma snoc_cases {A} (l : list A) : l = [] \/ exists l' a, l = l' ++ [a].
Proof. destruct (rev l) as [|a r] eqn:E.
  - left. apply (f_equal (@rev A)) in E. rewrite rev_involutive in E. exact E.
  - right. exists (rev r), a. apply (f_equal (@rev A)) in E. rewrite rev_involutive in E. exact E.
Qed.

(* ---------- longest common prefix ---------- *)
Lemma lcp_spec u v : exists c p q, u = c ++ p /\ v = c ++ q /\ length c = lcp_len u v /\
  match p, q with a :: _, b :: _ => a <> b | _, _ => True end.
Proof.
  revert v. induction u as [|a u IH]; intro v.
  - exists [], [], v. simpl. auto.
  - destruct v as [|b v].
    + exists [], (a :: u), []. simpl. auto.
    + simpl. destruct (Nat.eqb a b) eqn:E.
      * apply Nat.eqb_eq in E. subst. destruct (IH v) as (c & p & q & -> & -> & Hl & Hd).
        exists (b :: c), p, q. simpl. auto.
      * apply Nat.eqb_neq in E. exists [], (a :: u), (b :: v). simpl. auto.
Qed.

Lemma lcp_nil_r u : lcp_len u [] = 0.
Proof. destruct u; reflexivity. Qed.

(* ---------- the dictionary order and common prefixes ---------- *)
Lemma lex_lt_cancel c x y : lex_lt (c ++ x) (c ++ y) <-> lex_lt x y.
Proof.
  induction c as [|a c IH]; simpl; [tauto|]. split; intro H.
  - inversion H; subst; [lia|apply IH; assumption].
  - apply lex_tail. apply IH. exact H.
Qed.

(* the words processed before `cur` are <= prev < cur: none of them has a prefix of cur longer than lcp(prev, cur) *)
Lemma fresh_prefix prev cur w c p a r :
  prev = c ++ p -> cur = c ++ a :: r -> match p with b :: _ => b <> a | [] => True end ->
  lex_lt prev cur -> lex_le w prev -> ~ pre (c ++ [a]) w.
Proof.
  intros -> -> Hd Hlt Hle [t ->]. rewrite <- app_assoc in Hle. simpl in Hle.
  apply lex_lt_cancel in Hlt.
  assert (Hle' : lex_le (a :: t) p).
  { destruct Hle as [H|H]; [left; apply lex_lt_cancel in H; exact H|right; apply app_inv_head in H; exact H]. }
  destruct p as [|b p].
  - destruct Hle' as [H|H]; [inversion H|discriminate].
  - assert (b < a) by (inversion Hlt; subst; [assumption|congruence]).
    destruct Hle' as [H'|H']; [inversion H'; subst; lia|inversion H'; subst; lia].
Qed.

(* ---------- sorted(language) ---------- *)
Lemma word_insert_In w x l : In x (word_insert w l) <-> x = w \/ In x l.
Proof.
  induction l as [|y l IH]; simpl; [split; [intros [H|[]]; auto|intros [H|[]]; auto]|].
  destruct (lex_leb w y); simpl; [split; intros [H|H]; auto|].
  rewrite IH. split; [intros [H|[H|H]]; auto|intros [H|[H|H]]; auto].
Qed.

Lemma sort_words_In x l : In x (sort_words l) <-> In x l.
Proof.
  induction l as [|w l IH]; simpl; [tauto|]. rewrite word_insert_In, IH. split; intros [H|H]; auto.
Qed.

Lemma word_insert_sorted w l : ~ In w l -> StronglySorted lex_lt l -> StronglySorted lex_lt (word_insert w l).
Proof.
  induction l as [|y l IH]; simpl; intros Hn Hs; [constructor; [constructor|constructor]|].
  inversion Hs as [|? ? Hs' Hf]; subst. destruct (lex_leb w y) eqn:E.
  - apply lex_leb_spec in E. assert (Hlt : lex_lt w y).
    { destruct E as [E|E]; [exact E|exfalso; apply Hn; left; congruence]. }
    constructor; [exact Hs|]. constructor; [exact Hlt|].
    rewrite Forall_forall in *. intros z Hz. eapply lex_lt_trans; [exact Hlt|apply Hf; exact Hz].
  - assert (Hlt : lex_lt y w).
    { destruct (lex_lt_total w y) as [H|[H|H]]; [| |exact H].
      - assert (lex_leb w y = true) by (apply lex_leb_spec; left; exact H). congruence.
      - exfalso. apply Hn. left. congruence. }
    constructor; [apply IH; [tauto|exact Hs']|].
    rewrite Forall_forall in *. intros z Hz. apply (proj1 (word_insert_In _ _ _)) in Hz. destruct Hz as [->|Hz]; [exact Hlt|apply Hf; exact Hz].
Qed.

Lemma sort_words_sorted l : NoDup l -> StronglySorted lex_lt (sort_words l).
Proof.
  induction l as [|w l IH]; simpl; intro H; [constructor|]. inversion H; subst.
  apply word_insert_sorted; [rewrite sort_words_In; assumption|apply IH; assumption].
Qed.

(* ---------- the sorted row is a canonical form: rows with the same lookup function have the same signature ---------- *)
Definition key_lt (e e' : nat * word) : Prop := fst e < fst e'.

Lemma row_insert_sorted e l : ~ In (fst e) (map fst l) -> StronglySorted key_lt l -> StronglySorted key_lt (row_insert e l).
Proof.
  induction l as [|e' l IH]; simpl; intros Hn Hs; [constructor; [constructor|constructor]|].
  inversion Hs as [|? ? Hs' Hf]; subst. rewrite Forall_forall in Hf. destruct (Nat.leb (fst e) (fst e')) eqn:E.
  - apply Nat.leb_le in E. assert (Hlt : key_lt e e') by (unfold key_lt; lia).
    constructor; [exact Hs|]. constructor; [exact Hlt|]. apply Forall_forall. intros z Hz.
    specialize (Hf z Hz). unfold key_lt in *. lia.
  - apply Nat.leb_gt in E. constructor; [apply IH; [tauto|exact Hs']|].
    apply Forall_forall. intros z Hz. apply (proj1 (row_insert_In _ _ _)) in Hz. destruct Hz as [->|Hz]; [exact E|apply Hf; exact Hz].
Qed.

Lemma sort_row_sorted l : NoDup (map fst l) -> StronglySorted key_lt (sort_row l).
Proof.
  induction l as [|e l IH]; simpl; intro H; [constructor|]. inversion H; subst.
  apply row_insert_sorted; [|apply IH; assumption].
  intro Hi. apply H2. apply in_map_iff in Hi. destruct Hi as [z [Ez Hi]]. apply (proj1 (sort_row_In _ _)) in Hi.
  rewrite <- Ez. apply in_map. exact Hi.
Qed.

Lemma sort_row_ext r1 r2 : NoDup (map fst r1) -> NoDup (map fst r2) ->
  (forall a, assoc a r1 = assoc a r2) -> sort_row r1 = sort_row r2.
Proof.
  intros H1 H2 He. apply (SSorted_ext key_lt).
  - unfold key_lt. intros; lia.
  - apply sort_row_sorted; exact H1.
  - apply sort_row_sorted; exact H2.
  - intros [a t]. rewrite !sort_row_In. split; intro Hin.
    + apply assoc_In. rewrite <- He. apply assoc_NoDup; assumption.
    + apply assoc_In. rewrite He. apply assoc_NoDup; assumption.
Qed.

Lemma rows_differ r1 r2 : NoDup (map fst r1) -> NoDup (map fst r2) -> sort_row r1 <> sort_row r2 ->
  exists a, assoc a r1 <> assoc a r2.
Proof.
  intros H1 H2 Hne.
  destruct (existsb (fun a => negb (eqb_opt word_eqb (assoc a r1) (assoc a r2))) (map fst r1 ++ map fst r2)) eqn:E.
  - apply existsb_exists in E. destruct E as [a [_ Ha]]. exists a. intro Heq. rewrite Heq in Ha.
    rewrite (eqb_ok_refl _ (eqb_opt_ok _ word_eqb_spec)) in Ha. discriminate.
  - exfalso. apply Hne. apply sort_row_ext; [exact H1|exact H2|]. intro a.
    destruct (in_dec Nat.eq_dec a (map fst r1 ++ map fst r2)) as [Hin|Hn].
    + assert (Hf : negb (eqb_opt word_eqb (assoc a r1) (assoc a r2)) = false).
      { destruct (negb (eqb_opt word_eqb (assoc a r1) (assoc a r2))) eqn:Eb; [|reflexivity].
        assert (existsb (fun a => negb (eqb_opt word_eqb (assoc a r1) (assoc a r2))) (map fst r1 ++ map fst r2) = true);
          [|congruence]. apply existsb_exists. exists a. split; assumption. }
      apply negb_false_iff in Hf. apply (eqb_opt_ok _ word_eqb_spec) in Hf. exact Hf.
    + assert (assoc a r1 = None) by (apply assoc_None; intro; apply Hn; apply in_or_app; left; assumption).
      assert (assoc a r2 = None) by (apply assoc_None; intro; apply Hn; apply in_or_app; right; assumption).
      congruence.
Qed.

Lemma pre_snoc_cases (y x : word) a : pre y (x ++ [a]) -> pre y x \/ y = x ++ [a].
Proof.
  intro H. destruct (pre_app_split _ _ _ H) as [H1|[z1 [Hne [[t Ht] ->]]]]; [left; exact H1|right].
  destruct z1 as [|c z1]; [contradiction|]. simpl in Ht. inversion Ht; subst. destruct z1; [reflexivity|discriminate].
Qed.

Definition weq_dec (x y : word) : {x = y} + {x <> y} := list_eq_dec Nat.eq_dec x y.
