(* C17 lemmas: the extended-tape splicing of read_input_as_ntm re-establishes the encoding of the
   multitape configuration after every virtual-tape write+move. *)
From Coq Require Import List Arith ZArith Bool Lia.
From AV Require Import Base.Util Spec.TM Model.TM Proofs.TM Model.MNTMSim.
Import ListNotations.

(* ================= list surgery ================= *)
Section Surgery.
Context {A : Type}.

Lemma firstn_app_len (X Y : list A) : firstn (length X) (X ++ Y) = X.
Proof. induction X as [|x X IH]; simpl; [destruct Y; reflexivity|]. rewrite IH. reflexivity. Qed.

Lemma skipn_app_len (X Y : list A) : skipn (length X) (X ++ Y) = Y.
Proof. induction X as [|x X IH]; simpl; [reflexivity|exact IH]. Qed.

Lemma nth_error_app_len (X : list A) y Y : nth_error (X ++ y :: Y) (length X) = Some y.
Proof. induction X as [|x X IH]; simpl; [reflexivity|exact IH]. Qed.

Lemma nth_error_app_plus (X Y : list A) k : nth_error (X ++ Y) (length X + k) = nth_error Y k.
Proof. induction X as [|x X IH]; simpl; [reflexivity|exact IH]. Qed.

End Surgery.

Section Splice.

Lemma set_at_app X x y Z : set_at (length X) x (X ++ y :: Z) = X ++ x :: Z.
Proof.
  unfold set_at. rewrite firstn_app_len.
  change (S (length X)) with (1 + length X). rewrite Nat.add_comm.
  replace (X ++ y :: Z) with ((X ++ [y]) ++ Z) by (rewrite <- app_assoc; reflexivity).
  replace (length X + 1) with (length (X ++ [y])) by (rewrite app_length; reflexivity).
  rewrite skipn_app_len. reflexivity.
Qed.

Lemma remove_at_app X y Z : remove_at (length X) (X ++ y :: Z) = X ++ Z.
Proof.
  unfold remove_at. rewrite firstn_app_len.
  replace (X ++ y :: Z) with ((X ++ [y]) ++ Z) by (rewrite <- app_assoc; reflexivity).
  replace (S (length X)) with (length (X ++ [y])) by (rewrite app_length; simpl; lia).
  rewrite skipn_app_len. reflexivity.
Qed.

Lemma insert_at_app X xs Z : insert_at (length X) xs (X ++ Z) = X ++ xs ++ Z.
Proof. unfold insert_at. rewrite firstn_app_len, skipn_app_len. reflexivity. Qed.

Lemma sep_at_app X y Z : sep_at (X ++ y :: Z) (length X) = is_sep y.
Proof. unfold sep_at. rewrite nth_error_app_len. destruct y; reflexivity. Qed.

Variables (blank w : nat).

(* tp = X ++ Sym c :: Head :: R, the head marker at index |X| + 1 *)
Lemma splice_prefix X c R i : i = S (length X) ->
  remove_at i (set_at (i - 1) (Sym w) (X ++ Sym c :: Head :: R)) = (X ++ [Sym w]) ++ R.
Proof.
  intros ->. replace (S (length X) - 1) with (length X) by lia. rewrite set_at_app.
  replace (X ++ Sym w :: Head :: R) with ((X ++ [Sym w]) ++ Head :: R) by (rewrite <- app_assoc; reflexivity).
  replace (S (length X)) with (length (X ++ [Sym w])) by (rewrite app_length; simpl; lia).
  apply remove_at_app.
Qed.

Lemma splice_N X c R i : i = S (length X) ->
  splice_head blank (X ++ Sym c :: Head :: R) i w DN = (X ++ Sym w :: Head :: R, i).
Proof.
  intro Hi. unfold splice_head. rewrite (splice_prefix X c R i Hi). cbn [andb].
  assert (Hl : i = length (X ++ [Sym w])) by (rewrite app_length; simpl; lia).
  assert (Hs : sep_at ((X ++ [Sym w]) ++ R) (i - 1) = false).
  { replace (i - 1) with (length X) by lia. rewrite <- app_assoc. simpl. apply sep_at_app. }
  rewrite Hs, andb_false_r. rewrite Hl at 1. rewrite insert_at_app. rewrite <- app_assoc. reflexivity.
Qed.

Lemma splice_R_sym X c c1 R i : i = S (length X) ->
  splice_head blank (X ++ Sym c :: Head :: Sym c1 :: R) i w DR = (X ++ Sym w :: Sym c1 :: Head :: R, S i).
Proof.
  intro Hi. unfold splice_head. rewrite (splice_prefix X c _ i Hi). cbn [andb].
  assert (Hs : sep_at ((X ++ [Sym w]) ++ Sym c1 :: R) (S i - 1) = false).
  { replace (S i - 1) with (length (X ++ [Sym w])) by (rewrite app_length; simpl; lia). apply sep_at_app. }
  rewrite Hs, andb_false_r.
  replace ((X ++ [Sym w]) ++ Sym c1 :: R) with ((X ++ [Sym w; Sym c1]) ++ R)
    by (rewrite <- !app_assoc; reflexivity).
  replace (S i) with (length (X ++ [Sym w; Sym c1])) at 1 by (rewrite app_length; simpl; lia).
  rewrite insert_at_app. rewrite <- app_assoc. reflexivity.
Qed.

Lemma splice_R_sep X c R i : i = S (length X) ->
  splice_head blank (X ++ Sym c :: Head :: Sep :: R) i w DR =
  (X ++ Sym w :: Sym blank :: Head :: Sep :: R, S i).
Proof.
  intro Hi. unfold splice_head. rewrite (splice_prefix X c _ i Hi). cbn [andb].
  assert (Hs : sep_at ((X ++ [Sym w]) ++ Sep :: R) (S i - 1) = true).
  { replace (S i - 1) with (length (X ++ [Sym w])) by (rewrite app_length; simpl; lia). apply sep_at_app. }
  rewrite Hs. cbn [Nat.ltb Nat.leb andb].
  replace (S i - 1) with (length (X ++ [Sym w])) by (rewrite app_length; simpl; lia).
  rewrite insert_at_app. rewrite <- app_assoc. f_equal. rewrite app_length. simpl. lia.
Qed.

Lemma splice_L_start c R :
  splice_head blank (Sym c :: Head :: R) 1 w DL = (Sym blank :: Head :: Sym w :: R, 1).
Proof. reflexivity. Qed.

Lemma splice_L_sep X c R i : i = S (length (X ++ [Sep])) ->
  splice_head blank ((X ++ [Sep]) ++ Sym c :: Head :: R) i w DL =
  ((X ++ [Sep]) ++ Sym blank :: Head :: Sym w :: R, i).
Proof.
  intro Hi. unfold splice_head. rewrite (splice_prefix (X ++ [Sep]) c _ i Hi). cbn [andb].
  assert (Hl : length (X ++ [Sep]) = S (length X)) by (rewrite app_length; simpl; lia).
  assert (Hs : sep_at (((X ++ [Sep]) ++ [Sym w]) ++ R) (i - 1 - 1) = true).
  { replace (i - 1 - 1) with (length X) by lia. rewrite <- !app_assoc. simpl. apply sep_at_app. }
  rewrite Hs, orb_true_r.
  replace (((X ++ [Sep]) ++ [Sym w]) ++ R) with ((X ++ [Sep]) ++ Sym w :: R) by (rewrite <- !app_assoc; reflexivity).
  replace (i - 1) with (length (X ++ [Sep])) by lia.
  rewrite insert_at_app. f_equal. lia.
Qed.

Lemma splice_L_sym X a c R i : i = S (length (X ++ [Sym a])) ->
  splice_head blank ((X ++ [Sym a]) ++ Sym c :: Head :: R) i w DL =
  (X ++ Sym a :: Head :: Sym w :: R, i - 1).
Proof.
  intro Hi. unfold splice_head. rewrite (splice_prefix (X ++ [Sym a]) c _ i Hi). cbn [andb].
  assert (Hl : length (X ++ [Sym a]) = S (length X)) by (rewrite app_length; simpl; lia).
  assert (Hs : sep_at (((X ++ [Sym a]) ++ [Sym w]) ++ R) (i - 1 - 1) = false).
  { replace (i - 1 - 1) with (length X) by lia. rewrite <- !app_assoc. simpl. apply sep_at_app. }
  rewrite Hs, orb_false_r, andb_false_r.
  replace (Nat.eqb (i - 1) 0) with false by (symmetry; apply Nat.eqb_neq; lia).
  replace (((X ++ [Sym a]) ++ [Sym w]) ++ R) with ((X ++ [Sym a]) ++ Sym w :: R) by (rewrite <- !app_assoc; reflexivity).
  replace (i - 1) with (length (X ++ [Sym a])) at 1 by lia.
  rewrite insert_at_app. rewrite <- app_assoc. reflexivity.
Qed.

End Splice.

(* ================= the scanning loop of one move ================= *)
Ltac list_eq :=
  repeat rewrite map_app; repeat rewrite <- app_assoc; cbn [app map];
  repeat rewrite <- app_assoc; cbn [app map]; reflexivity.

Section Scan.
Variables (blank w : nat) (d : dir).

Lemma scan_move_S f tp i : scan_move (S f) blank tp i w d =
  match nth_error tp i with
  | None => Err IndexErr
  | Some Head => let (tp', i') := splice_head blank tp i w d in scan_move f blank tp' (S i') w d
  | Some Sep => Ok (tp, S i)
  | Some (Sym _) => scan_move f blank tp (S i) w d
  end.
Proof. reflexivity. Qed.

Lemma scan_move_mono f : forall tp i r, scan_move f blank tp i w d = Ok r ->
  forall f', f <= f' -> scan_move f' blank tp i w d = Ok r.
Proof.
  induction f as [|f IH]; intros tp i r H f' Hf; [discriminate|].
  destruct f' as [|f']; [lia|]. rewrite scan_move_S in *.
  destruct (nth_error tp i) as [[s| |]|]; try discriminate.
  - apply (IH _ _ _ H). lia.
  - destruct (splice_head blank tp i w d) as [tp' i']. apply (IH _ _ _ H). lia.
  - exact H.
Qed.

Lemma scan_syms xs : forall X Y f,
  scan_move (length xs + f) blank (X ++ map Sym xs ++ Y) (length X) w d =
  scan_move f blank (X ++ map Sym xs ++ Y) (length X + length xs) w d.
Proof.
  induction xs as [|x xs IH]; intros X Y f.
  - simpl. rewrite Nat.add_0_r. reflexivity.
  - cbn [length map app Nat.add]. rewrite scan_move_S, nth_error_app_len.
    replace (X ++ Sym x :: map Sym xs ++ Y) with ((X ++ [Sym x]) ++ map Sym xs ++ Y) by list_eq.
    replace (S (length X)) with (length (X ++ [Sym x])) by (rewrite app_length; simpl; lia).
    rewrite IH. f_equal. rewrite app_length. simpl. lia.
Qed.

Lemma scan_to_sep ys U post f :
  scan_move (length ys + S f) blank (U ++ map Sym ys ++ Sep :: post) (length U) w d =
  Ok (U ++ map Sym ys ++ Sep :: post, length U + length ys + 1).
Proof.
  rewrite scan_syms, scan_move_S.
  replace (U ++ map Sym ys ++ Sep :: post) with ((U ++ map Sym ys) ++ Sep :: post) at 1 by list_eq.
  replace (length U + length ys) with (length (U ++ map Sym ys)) at 1 by (rewrite app_length, map_length; reflexivity).
  rewrite nth_error_app_len. f_equal. f_equal. lia.
Qed.

(* a whole segment: skip the cells up to the scanned one, splice at the head marker, skip to the separator *)
Lemma scan_segment pre A c R tp' i' U ys post f :
  splice_head blank ((pre ++ map Sym A) ++ Sym c :: Head :: R) (S (length (pre ++ map Sym A))) w d = (tp', i') ->
  tp' = U ++ map Sym ys ++ Sep :: post -> S i' = length U ->
  scan_move (length (A ++ [c]) + S (length ys + S f)) blank
            ((pre ++ map Sym A) ++ Sym c :: Head :: R) (length pre) w d =
  Ok (tp', length U + length ys + 1).
Proof.
  intros Hsp Htp Hi.
  replace ((pre ++ map Sym A) ++ Sym c :: Head :: R) with (pre ++ map Sym (A ++ [c]) ++ Head :: R) at 1 by list_eq.
  rewrite scan_syms, scan_move_S.
  replace (pre ++ map Sym (A ++ [c]) ++ Head :: R) with ((pre ++ map Sym (A ++ [c])) ++ Head :: R) at 1 by list_eq.
  replace (length pre + length (A ++ [c])) with (length (pre ++ map Sym (A ++ [c])))
    by (rewrite app_length, map_length; reflexivity).
  rewrite nth_error_app_len.
  replace (pre ++ map Sym (A ++ [c]) ++ Head :: R) with ((pre ++ map Sym A) ++ Sym c :: Head :: R) by list_eq.
  replace (length (pre ++ map Sym (A ++ [c]))) with (S (length (pre ++ map Sym A)))
    by (rewrite !app_length, !map_length, app_length; simpl; lia).
  rewrite Hsp, Htp, Hi. apply scan_to_sep.
Qed.

End Scan.

(* ================= tapes as zippers ================= *)
Section Zipper.

Lemma list_split_nth (l : list nat) p dflt : p < length l ->
  l = firstn p l ++ nth p l dflt :: skipn (S p) l.
Proof.
  revert p. induction l as [|x l IH]; intros [|p] H; simpl in *; try lia; [reflexivity|].
  f_equal. apply IH. lia.
Qed.

Lemma tape_zip t : wf t -> exists A c Bc, t_cells t = A ++ c :: Bc /\ length A = t_pos t.
Proof.
  intro H. exists (firstn (t_pos t) (t_cells t)), (nth (t_pos t) (t_cells t) 0), (skipn (S (t_pos t)) (t_cells t)).
  split; [apply list_split_nth; exact H|]. apply firstn_length_le. unfold wf in H. lia.
Qed.

Definition enc_z (A : list nat) (c : nat) (Bc : list nat) : list esym :=
  map Sym A ++ Sym c :: Head :: map Sym Bc ++ [Sep].

Lemma enc_tape_zip t A c Bc : t_cells t = A ++ c :: Bc -> length A = t_pos t -> enc_tape t = enc_z A c Bc.
Proof.
  intros Hc Hl. unfold enc_tape, enc_z. rewrite Hc, <- Hl.
  replace (A ++ c :: Bc) with ((A ++ [c]) ++ Bc) by (rewrite <- app_assoc; reflexivity).
  replace (S (length A)) with (length (A ++ [c])) by (rewrite app_length; simpl; lia).
  rewrite firstn_app_len, skipn_app_len. list_eq.
Qed.

Lemma upd_app A c Bc x : upd (length A) x (A ++ c :: Bc) = A ++ x :: Bc.
Proof. unfold upd. rewrite firstn_app_len, skipn_app_len. reflexivity. Qed.

(* the cells and head index after one write+move, by direction and boundary *)
Lemma act_zip t A c Bc w d : t_cells t = A ++ c :: Bc -> length A = t_pos t ->
  let t' := t_move (t_write t w) d in
  match d with
  | DN => t_cells t' = A ++ w :: Bc /\ t_pos t' = length A
  | DR => match Bc with
          | [] => t_cells t' = (A ++ [w]) ++ t_blank t :: [] /\ t_pos t' = length (A ++ [w])
          | c1 :: B1 => t_cells t' = (A ++ [w]) ++ c1 :: B1 /\ t_pos t' = length (A ++ [w])
          end
  | DL => (A = [] -> t_cells t' = [] ++ t_blank t :: w :: Bc /\ t_pos t' = 0) /\
          (forall A1 a, A = A1 ++ [a] -> t_cells t' = A1 ++ a :: w :: Bc /\ t_pos t' = length A1)
  end.
Proof.
  destruct t as [cells p b]. cbn [t_cells t_pos t_blank]. intros -> <-.
  unfold t_write, t_move. cbn [t_cells t_pos t_blank]. rewrite upd_app.
  assert (Hlen : length (A ++ w :: Bc) = length A + S (length Bc)) by (rewrite app_length; reflexivity).
  destruct d; cbn [doff].
  - (* L *) split.
    + intros ->. cbn [length app Z.of_nat Z.add]. cbn. split; reflexivity.
    + intros A1 a ->.
      assert (Hp : length (A1 ++ [a]) = S (length A1)) by (rewrite app_length; simpl; lia).
      destruct (Z.eqb_spec (Z.of_nat (length (A1 ++ [a])) + -1) (-1)) as [E|E]; [lia|].
      rewrite Hlen.
      destruct (Z.eqb_spec (Z.of_nat (length (A1 ++ [a])) + -1)
                           (Z.of_nat (length (A1 ++ [a]) + S (length Bc)))) as [E2|E2]; [lia|].
      split; [rewrite <- app_assoc; reflexivity|lia].
  - (* R *)
    destruct (Z.eqb_spec (Z.of_nat (length A) + 1) (-1)) as [E|E]; [lia|]. rewrite Hlen.
    destruct Bc as [|c1 B1]; cbn [length].
    + destruct (Z.eqb_spec (Z.of_nat (length A) + 1) (Z.of_nat (length A + 1))) as [E2|E2]; [|lia].
      split; [rewrite <- !app_assoc; reflexivity|rewrite app_length; simpl; lia].
    + destruct (Z.eqb_spec (Z.of_nat (length A) + 1) (Z.of_nat (length A + S (S (length B1))))) as [E2|E2]; [lia|].
      split; [rewrite <- app_assoc; reflexivity|rewrite app_length; simpl; lia].
  - (* N *)
    destruct (Z.eqb_spec (Z.of_nat (length A) + 0) (-1)) as [E|E]; [lia|]. rewrite Hlen.
    destruct (Z.eqb_spec (Z.of_nat (length A) + 0) (Z.of_nat (length A + S (length Bc)))) as [E2|E2]; [lia|].
    split; [reflexivity|lia].
Qed.

End Zipper.

(* ================= one virtual-tape write+move re-establishes the encoding ================= *)
Section ApplyMove.
Variables (blank w : nat).

Lemma seg_done d pre A c R X tp' i' U ys post seg' :
  X = pre ++ map Sym A ->
  splice_head blank (X ++ Sym c :: Head :: R) (S (length X)) w d = (tp', i') ->
  tp' = U ++ map Sym ys ++ Sep :: post -> S i' = length U ->
  U ++ map Sym ys ++ [Sep] = pre ++ seg' ->
  length ys <= S (length R) ->
  scan_move (scan_fuel (X ++ Sym c :: Head :: R)) blank (X ++ Sym c :: Head :: R) (length pre) w d =
  Ok (pre ++ seg' ++ post, length (pre ++ seg')).
Proof.
  intros HX Hsp Htp Hi Hseg Hys. subst X.
  pose proof (scan_segment blank w d pre A c R tp' i' U ys post 0 Hsp Htp Hi) as H.
  assert (Hr : (tp', length U + length ys + 1) = (pre ++ seg' ++ post, length (pre ++ seg'))).
  { f_equal.
    - rewrite Htp. rewrite (app_assoc pre seg' post), <- Hseg. list_eq.
    - rewrite <- Hseg. rewrite !app_length, map_length. simpl. lia. }
  rewrite Hr in H. apply (scan_move_mono blank w d _ _ _ _ H).
  unfold scan_fuel. rewrite !app_length, !map_length. cbn [length]. lia.
Qed.

Lemma list_last_case (A : list nat) : A = [] \/ exists A1 a, A = A1 ++ [a].
Proof.
  induction A as [|x A IH] using rev_ind; [left; reflexivity|]. right. exists A, x. reflexivity.
Qed.

Definition pre_ok (pre : list esym) : Prop := pre = [] \/ exists pre', pre = pre' ++ [Sep].

Theorem apply_move_encodes d pre t post : wf t -> t_blank t = blank -> pre_ok pre ->
  scan_move (scan_fuel (pre ++ enc_tape t ++ post)) blank (pre ++ enc_tape t ++ post) (length pre) w d =
  Ok (pre ++ enc_tape (t_move (t_write t w) d) ++ post,
      length (pre ++ enc_tape (t_move (t_write t w) d))).
Proof.
  intros Hwf Hb Hpre. destruct (tape_zip t Hwf) as [A [c [Bc [Hc Hl]]]].
  pose proof (act_zip t A c Bc w d Hc Hl) as Hact. cbv zeta in Hact. rewrite Hb in Hact.
  rewrite (enc_tape_zip t A c Bc Hc Hl). unfold enc_z at 1 2.
  set (R0 := map Sym Bc ++ Sep :: post).
  replace (pre ++ (map Sym A ++ Sym c :: Head :: map Sym Bc ++ [Sep]) ++ post)
    with ((pre ++ map Sym A) ++ Sym c :: Head :: R0) by (unfold R0; list_eq).
  destruct d.
  - (* L *) destruct Hact as [H0 H1]. destruct (list_last_case A) as [HA|[A1 [a HA]]].
    + destruct (H0 HA) as [Hc' Hp']. rewrite (enc_tape_zip _ [] blank (w :: Bc) Hc' (eq_sym Hp')).
      subst A. cbn [map]. rewrite app_nil_r.
      destruct Hpre as [->|[pre' ->]].
      * apply (seg_done DL [] [] c R0 [] (Sym blank :: Head :: Sym w :: R0) 1 [Sym blank; Head] (w :: Bc) post).
        -- reflexivity.
        -- apply splice_L_start.
        -- unfold R0. list_eq.
        -- reflexivity.
        -- unfold enc_z. list_eq.
        -- unfold R0. rewrite app_length, map_length. simpl. lia.
      * apply (seg_done DL (pre' ++ [Sep]) [] c R0 (pre' ++ [Sep])
                 ((pre' ++ [Sep]) ++ Sym blank :: Head :: Sym w :: R0) (S (length (pre' ++ [Sep])))
                 ((pre' ++ [Sep]) ++ [Sym blank; Head]) (w :: Bc) post).
        -- cbn [map]. rewrite app_nil_r. reflexivity.
        -- apply splice_L_sep. reflexivity.
        -- unfold R0. list_eq.
        -- rewrite !app_length. simpl. lia.
        -- unfold enc_z. list_eq.
        -- unfold R0. rewrite app_length, map_length. simpl. lia.
    + destruct (H1 A1 a HA) as [Hc' Hp']. rewrite (enc_tape_zip _ A1 a (w :: Bc) Hc' (eq_sym Hp')).
      subst A.
      replace (pre ++ map Sym (A1 ++ [a])) with ((pre ++ map Sym A1) ++ [Sym a]) by list_eq.
      apply (seg_done DL pre (A1 ++ [a]) c R0 ((pre ++ map Sym A1) ++ [Sym a])
               ((pre ++ map Sym A1) ++ Sym a :: Head :: Sym w :: R0) (S (length ((pre ++ map Sym A1) ++ [Sym a])) - 1)
               ((pre ++ map Sym A1) ++ [Sym a; Head]) (w :: Bc) post).
      * list_eq.
      * apply splice_L_sym. reflexivity.
      * unfold R0. list_eq.
      * rewrite !app_length. simpl. lia.
      * unfold enc_z. list_eq.
      * unfold R0. rewrite app_length, map_length. simpl. lia.
  - (* R *) destruct Bc as [|c1 B1].
    + destruct Hact as [Hc' Hp']. rewrite (enc_tape_zip _ (A ++ [w]) blank [] Hc' (eq_sym Hp')).
      apply (seg_done DR pre A c R0 (pre ++ map Sym A)
               ((pre ++ map Sym A) ++ Sym w :: Sym blank :: Head :: Sep :: post) (S (S (length (pre ++ map Sym A))))
               ((pre ++ map Sym A) ++ [Sym w; Sym blank; Head]) [] post).
      * reflexivity.
      * unfold R0. cbn [map app]. apply splice_R_sep. reflexivity.
      * list_eq.
      * rewrite !app_length. simpl. lia.
      * unfold enc_z. list_eq.
      * simpl. lia.
    + destruct Hact as [Hc' Hp']. rewrite (enc_tape_zip _ (A ++ [w]) c1 B1 Hc' (eq_sym Hp')).
      apply (seg_done DR pre A c R0 (pre ++ map Sym A)
               ((pre ++ map Sym A) ++ Sym w :: Sym c1 :: Head :: (map Sym B1 ++ Sep :: post))
               (S (S (length (pre ++ map Sym A))))
               ((pre ++ map Sym A) ++ [Sym w; Sym c1; Head]) B1 post).
      * reflexivity.
      * unfold R0. cbn [map app]. apply splice_R_sym. reflexivity.
      * list_eq.
      * rewrite !app_length. simpl. lia.
      * unfold enc_z. list_eq.
      * unfold R0. rewrite app_length, map_length. simpl. lia.
  - (* N *) destruct Hact as [Hc' Hp']. rewrite (enc_tape_zip _ A w Bc Hc' (eq_sym Hp')).
    apply (seg_done DN pre A c R0 (pre ++ map Sym A)
             ((pre ++ map Sym A) ++ Sym w :: Head :: R0) (S (length (pre ++ map Sym A)))
             ((pre ++ map Sym A) ++ [Sym w; Head]) Bc post).
    + reflexivity.
    + apply splice_N. reflexivity.
    + unfold R0. list_eq.
    + rewrite !app_length. simpl. lia.
    + unfold enc_z. list_eq.
    + unfold R0. rewrite app_length, map_length. simpl. lia.
Qed.

End ApplyMove.

(* ================= all moves of one transition; reading the heads ================= *)
Section Moves.
Variable blank : nat.

Lemma enc_tape_pre_ok pre t : pre_ok (pre ++ enc_tape t).
Proof.
  right. unfold enc_tape.
  exists (pre ++ map Sym (firstn (S (t_pos t)) (t_cells t)) ++ Head :: map Sym (skipn (S (t_pos t)) (t_cells t))).
  list_eq.
Qed.

Definition act_all (mv : list mmove) (ts : list tape) : list tape :=
  map (fun p : mmove * tape => t_move (t_write (snd p) (fst (fst p))) (snd (fst p))) (combine mv ts).

Lemma apply_moves_encodes : forall ts mv pre post,
  Forall wf ts -> Forall (fun t => t_blank t = blank) ts -> length mv = length ts -> pre_ok pre ->
  apply_moves blank (pre ++ encode ts ++ post) (length pre) mv =
  Ok (pre ++ encode (act_all mv ts) ++ post, length (pre ++ encode (act_all mv ts))).
Proof.
  induction ts as [|t ts IH]; intros [|[w d] mv] pre post Hwf Hb Hlen Hpre; simpl in Hlen; try discriminate.
  - simpl. rewrite app_nil_r. reflexivity.
  - inversion Hwf as [|? ? Hwt Hwts]; inversion Hb as [|? ? Hbt Hbts]; subst.
    cbn [apply_moves]. unfold encode at 1 2. cbn [flat_map]. fold (encode ts).
    replace (pre ++ (enc_tape t ++ encode ts) ++ post) with (pre ++ enc_tape t ++ (encode ts ++ post)) by list_eq.
    rewrite (apply_move_encodes (t_blank t) w d pre t (encode ts ++ post) Hwt eq_refl Hpre).
    cbn [bind fst snd].
    replace (pre ++ enc_tape (t_move (t_write t w) d) ++ encode ts ++ post)
      with ((pre ++ enc_tape (t_move (t_write t w) d)) ++ encode ts ++ post) by list_eq.
    rewrite (IH mv _ post Hwts Hbts); [|injection Hlen; auto|apply enc_tape_pre_ok].
    unfold act_all, encode. cbn [combine map flat_map fst snd]. f_equal. f_equal; list_eq.
Qed.

Lemma go_syms xs : forall prev rest heads found seps,
  read_heads_go prev (map Sym xs ++ rest) heads found seps =
  read_heads_go (match rev xs with [] => prev | y :: _ => Some (Sym y) end) rest heads found seps.
Proof.
  induction xs as [|x xs IH]; intros prev rest heads found seps; [reflexivity|].
  cbn [map app read_heads_go]. rewrite IH. cbn [rev]. destruct (rev xs); reflexivity.
Qed.

Lemma go_segment t prev rest heads seps : wf t ->
  read_heads_go prev (enc_tape t ++ rest) heads 0 seps =
  read_heads_go (Some Sep) rest (Sym (t_read t) :: heads) 0 (S seps).
Proof.
  intro Hwf. destruct (tape_zip t Hwf) as [A [c [Bc [Hc Hl]]]].
  rewrite (enc_tape_zip t A c Bc Hc Hl). unfold enc_z.
  assert (Hr : t_read t = c) by (unfold t_read; rewrite Hc, <- Hl; apply nth_middle).
  rewrite Hr.
  replace ((map Sym A ++ Sym c :: Head :: map Sym Bc ++ [Sep]) ++ rest)
    with (map Sym (A ++ [c]) ++ Head :: map Sym Bc ++ Sep :: rest) by list_eq.
  rewrite go_syms, rev_app_distr. cbn [rev app read_heads_go].
  rewrite go_syms. cbn [read_heads_go Nat.eqb Nat.ltb Nat.leb]. reflexivity.
Qed.

Lemma go_all ts : forall prev heads seps, Forall wf ts -> length heads = seps ->
  read_heads_go prev (encode ts) heads 0 seps = Ok (rev heads ++ map (fun t => Sym (t_read t)) ts).
Proof.
  induction ts as [|t ts IH]; intros prev heads seps Hwf Hl.
  - cbn [encode flat_map read_heads_go map]. rewrite Hl, Nat.eqb_refl, app_nil_r. reflexivity.
  - inversion Hwf; subst. unfold encode. cbn [flat_map]. fold (encode ts).
    rewrite go_segment by assumption. rewrite IH; [|assumption|reflexivity].
    cbn [rev map]. rewrite <- app_assoc. reflexivity.
Qed.

Lemma read_heads_encode ts : Forall wf ts ->
  read_heads (encode ts) = Ok (map Sym (map t_read ts)).
Proof. intro H. unfold read_heads. rewrite go_all by auto. rewrite map_map. reflexivity. Qed.

Lemma heads_key_syms xs : heads_key (map Sym xs) = Some xs.
Proof. induction xs as [|x xs IH]; simpl; [reflexivity|]. rewrite IH. reflexivity. Qed.

Lemma ext_initial_encode ts : Forall (fun t => t_pos t = 0 /\ wf t) ts -> ext_initial ts = Ok (encode ts).
Proof.
  induction 1 as [|t ts [Hp Hw] _ IH]; [reflexivity|].
  cbn [ext_initial]. rewrite IH. unfold encode at 2. cbn [flat_map]. fold (encode ts).
  unfold enc_tape. rewrite Hp. unfold wf in Hw. rewrite Hp in Hw.
  destruct (t_cells t) as [|c r]; [simpl in Hw; lia|]. reflexivity.
Qed.

End Moves.
