(* C17 lemmas: the extended-tape splicing of read_input_as_ntm re-establishes the encoding of the
   multitape configuration after every virtual-tape write+move. *)
From Coq Require Import List Arith ZArith Bool Lia.
From AV Require Import Base.Util Spec.TM Model.TM Proofs.TM Model.MNTMSim.
Import ListNotations.

(* ================= list surgery ================= *)
Section Surgery.
Context {A : Type}.

Lemma firstn_app_len (X Y : list A) : firstn (length X) (X ++ Y) = X.
Proof. induction X as [|x X IH]; simpl; [destruct Y; reflexivity|]. rewrite IH. reflexivity. Qed.

Lemma skipn_app_len (X Y : list A) : skipn (length X) (X ++ Y) = Y.
Proof. induction X as [|x X IH]; simpl; [reflexivity|exact IH]. Qed.

Lemma nth_error_app_len (X : list A) y Y : nth_error (X ++ y :: Y) (length X) = Some y.
Proof. induction X as [|x X IH]; simpl; [reflexivity|exact IH]. Qed.

Lemma nth_error_app_plus (X Y : list A) k : nth_error (X ++ Y) (length X + k) = nth_error Y k.
Proof. induction X as [|x X IH]; simpl; [reflexivity|exact IH]. Qed.

End Surgery.

Section Splice.

Lemma set_at_app X x y Z : set_at (length X) x (X ++ y :: Z) = X ++ x :: Z.
Proof.
  unfold set_at. rewrite firstn_app_len.
  change (S (length X)) with (1 + length X). rewrite Nat.add_comm.
  replace (X ++ y :: Z) with ((X ++ [y]) ++ Z) by (rewrite <- app_assoc; reflexivity).
  replace (length X + 1) with (length (X ++ [y])) by (rewrite app_length; reflexivity).
  rewrite skipn_app_len. reflexivity.
Qed.

Lemma remove_at_app X y Z : remove_at (length X) (X ++ y :: Z) = X ++ Z.
Proof.
  unfold remove_at. rewrite firstn_app_len.
  replace (X ++ y :: Z) with ((X ++ [y]) ++ Z) by (rewrite <- app_assoc; reflexivity).
  replace (S (length X)) with (length (X ++ [y])) by (rewrite app_length; simpl; lia).
  rewrite skipn_app_len. reflexivity.
Qed.

Lemma insert_at_app X xs Z : insert_at (length X) xs (X ++ Z) = X ++ xs ++ Z.
Proof. unfold insert_at. rewrite firstn_app_len, skipn_app_len. reflexivity. Qed.

Lemma sep_at_app X y Z : sep_at (X ++ y :: Z) (length X) = is_sep y.
Proof. unfold sep_at. rewrite nth_error_app_len. destruct y; reflexivity. Qed.

Variables (blank w : nat).

(* tp = X ++ Sym c :: Head :: R, the head marker at index |X| + 1 *)
Lemma splice_prefix X c R i : i = S (length X) ->
  remove_at i (set_at (i - 1) (Sym w) (X ++ Sym c :: Head :: R)) = (X ++ [Sym w]) ++ R.
Proof.
  intros ->. replace (S (length X) - 1) with (length X) by lia. rewrite set_at_app.
  replace (X ++ Sym w :: Head :: R) with ((X ++ [Sym w]) ++ Head :: R) by (rewrite <- app_assoc; reflexivity).
  replace (S (length X)) with (length (X ++ [Sym w])) by (rewrite app_length; simpl; lia).
  apply remove_at_app.
Qed.

Lemma splice_N X c R i : i = S (length X) ->
  splice_head blank (X ++ Sym c :: Head :: R) i w DN = (X ++ Sym w :: Head :: R, i).
Proof.
  intro Hi. unfold splice_head. rewrite (splice_prefix X c R i Hi). cbn [andb].
  assert (Hl : i = length (X ++ [Sym w])) by (rewrite app_length; simpl; lia).
  assert (Hs : sep_at ((X ++ [Sym w]) ++ R) (i - 1) = false).
  { replace (i - 1) with (length X) by lia. rewrite <- app_assoc. simpl. apply sep_at_app. }
  rewrite Hs, andb_false_r. rewrite Hl at 1. rewrite insert_at_app. rewrite <- app_assoc. reflexivity.
Qed.

Lemma splice_R_sym X c c1 R i : i = S (length X) ->
  splice_head blank (X ++ Sym c :: Head :: Sym c1 :: R) i w DR = (X ++ Sym w :: Sym c1 :: Head :: R, S i).
Proof.
  intro Hi. unfold splice_head. rewrite (splice_prefix X c _ i Hi). cbn [andb].
  assert (Hs : sep_at ((X ++ [Sym w]) ++ Sym c1 :: R) (S i - 1) = false).
  { replace (S i - 1) with (length (X ++ [Sym w])) by (rewrite app_length; simpl; lia). apply sep_at_app. }
  rewrite Hs, andb_false_r.
  replace ((X ++ [Sym w]) ++ Sym c1 :: R) with ((X ++ [Sym w; Sym c1]) ++ R)
    by (rewrite <- !app_assoc; reflexivity).
  replace (S i) with (length (X ++ [Sym w; Sym c1])) at 1 by (rewrite app_length; simpl; lia).
  rewrite insert_at_app. rewrite <- app_assoc. reflexivity.
Qed.

Lemma splice_R_sep X c R i : i = S (length X) ->
  splice_head blank (X ++ Sym c :: Head :: Sep :: R) i w DR =
  (X ++ Sym w :: Sym blank :: Head :: Sep :: R, S i).
Proof.
  intro Hi. unfold splice_head. rewrite (splice_prefix X c _ i Hi). cbn [andb].
  assert (Hs : sep_at ((X ++ [Sym w]) ++ Sep :: R) (S i - 1) = true).
  { replace (S i - 1) with (length (X ++ [Sym w])) by (rewrite app_length; simpl; lia). apply sep_at_app. }
  rewrite Hs. cbn [Nat.ltb Nat.leb andb].
  replace (S i - 1) with (length (X ++ [Sym w])) by (rewrite app_length; simpl; lia).
  rewrite insert_at_app. rewrite <- app_assoc. f_equal. rewrite app_length. simpl. lia.
Qed.

Lemma splice_L_start c R :
  splice_head blank (Sym c :: Head :: R) 1 w DL = (Sym blank :: Head :: Sym w :: R, 1).
Proof. reflexivity. Qed.

Lemma splice_L_sep X c R i : i = S (length (X ++ [Sep])) ->
  splice_head blank ((X ++ [Sep]) ++ Sym c :: Head :: R) i w DL =
  ((X ++ [Sep]) ++ Sym blank :: Head :: Sym w :: R, i).
Proof.
  intro Hi. unfold splice_head. rewrite (splice_prefix (X ++ [Sep]) c _ i Hi). cbn [andb].
  assert (Hl : length (X ++ [Sep]) = S (length X)) by (rewrite app_length; simpl; lia).
  assert (Hs : sep_at (((X ++ [Sep]) ++ [Sym w]) ++ R) (i - 1 - 1) = true).
  { replace (i - 1 - 1) with (length X) by lia. rewrite <- !app_assoc. simpl. apply sep_at_app. }
  rewrite Hs, orb_true_r.
  replace (((X ++ [Sep]) ++ [Sym w]) ++ R) with ((X ++ [Sep]) ++ Sym w :: R) by (rewrite <- !app_assoc; reflexivity).
  replace (i - 1) with (length (X ++ [Sep])) by lia.
  rewrite insert_at_app. f_equal. lia.
Qed.

Lemma splice_L_sym X a c R i : i = S (length (X ++ [Sym a])) ->
  splice_head blank ((X ++ [Sym a]) ++ Sym c :: Head :: R) i w DL =
  (X ++ Sym a :: Head :: Sym w :: R, i - 1).
Proof.
  intro Hi. unfold splice_head. rewrite (splice_prefix (X ++ [Sym a]) c _ i Hi). cbn [andb].
  assert (Hl : length (X ++ [Sym a]) = S (length X)) by (rewrite app_length; simpl; lia).
  assert (Hs : sep_at (((X ++ [Sym a]) ++ [Sym w]) ++ R) (i - 1 - 1) = false).
  { replace (i - 1 - 1) with (length X) by lia. rewrite <- !app_assoc. simpl. apply sep_at_app. }
  rewrite Hs, orb_false_r, andb_false_r.
  replace (Nat.eqb (i - 1) 0) with false by (symmetry; apply Nat.eqb_neq; lia).
  replace (((X ++ [Sym a]) ++ [Sym w]) ++ R) with ((X ++ [Sym a]) ++ Sym w :: R) by (rewrite <- !app_assoc; reflexivity).
  replace (i - 1) with (length (X ++ [Sym a])) at 1 by lia.
  rewrite insert_at_app. rewrite <- app_assoc. reflexivity.
Qed.

End Splice.

(* ================= the scanning loop of one move ================= *)
Ltac list_eq :=
  repeat rewrite map_app; repeat rewrite <- app_assoc; cbn [app map];
  repeat rewrite <- app_assoc; cbn [app map]; reflexivity.

Section Scan.
Variables (blank w : nat) (d : dir).

Lemma scan_move_S f tp i : scan_move (S f) blank tp i w d =
  match nth_error tp i with
  | None => Err IndexErr
  | Some Head => let (tp', i') := splice_head blank tp i w d in scan_move f blank tp' (S i') w d
  | Some Sep => Ok (tp, S i)
  | Some (Sym _) => scan_move f blank tp (S i) w d
  end.
Proof. reflexivity. Qed.

Lemma scan_move_mono f : forall tp i r, scan_move f blank tp i w d = Ok r ->
  forall f', f <= f' -> scan_move f' blank tp i w d = Ok r.
Proof.
  induction f as [|f IH]; intros tp i r H f' Hf; [discriminate|].
  destruct f' as [|f']; [lia|]. rewrite scan_move_S in *.
  destruct (nth_error tp i) as [[s| |]|]; try discriminate.
  - apply (IH _ _ _ H). lia.
  - destruct (splice_head blank tp i w d) as [tp' i']. apply (IH _ _ _ H). lia.
  - exact H.
Qed.

Lemma scan_syms xs : forall X Y f,
  scan_move (length xs + f) blank (X ++ map Sym xs ++ Y) (length X) w d =
  scan_move f blank (X ++ map Sym xs ++ Y) (length X + length xs) w d.
Proof.
  induction xs as [|x xs IH]; intros X Y f.
  - simpl. rewrite Nat.add_0_r. reflexivity.
  - cbn [length map app Nat.add]. rewrite scan_move_S, nth_error_app_len.
    replace (X ++ Sym x :: map Sym xs ++ Y) with ((X ++ [Sym x]) ++ map Sym xs ++ Y) by list_eq.
    replace (S (length X)) with (length (X ++ [Sym x])) by (rewrite app_length; simpl; lia).
    rewrite IH. f_equal. rewrite app_length. simpl. lia.
Qed.

Lemma scan_to_sep ys U post f :
  scan_move (length ys + S f) blank (U ++ map Sym ys ++ Sep :: post) (length U) w d =
  Ok (U ++ map Sym ys ++ Sep :: post, length U + length ys + 1).
Proof.
  rewrite scan_syms, scan_move_S.
  replace (U ++ map Sym ys ++ Sep :: post) with ((U ++ map Sym ys) ++ Sep :: post) at 1 by list_eq.
  replace (length U + length ys) with (length (U ++ map Sym ys)) at 1 by (rewrite app_length, map_length; reflexivity).
  rewrite nth_error_app_len. f_equal. f_equal. lia.
Qed.

(* a whole segment: skip the cells up to the scanned one, splice at the head marker, skip to the separator *)
Lemma scan_segment pre A c R tp' i' U ys post f :
  splice_head blank ((pre ++ map Sym A) ++ Sym c :: Head :: R) (S (length (pre ++ map Sym A))) w d = (tp', i') ->
  tp' = U ++ map Sym ys ++ Sep :: post -> S i' = length U ->
  scan_move (length (A ++ [c]) + S (length ys + S f)) blank
            ((pre ++ map Sym A) ++ Sym c :: Head :: R) (length pre) w d =
  Ok (tp', length U + length ys + 1).
Proof.
  intros Hsp Htp Hi.
  replace ((pre ++ map Sym A) ++ Sym c :: Head :: R) with (pre ++ map Sym (A ++ [c]) ++ Head :: R) at 1 by list_eq.
  rewrite scan_syms, scan_move_S.
  replace (pre ++ map Sym (A ++ [c]) ++ Head :: R) with ((pre ++ map Sym (A ++ [c])) ++ Head :: R) at 1 by list_eq.
  replace (length pre + length (A ++ [c])) with (length (pre ++ map Sym (A ++ [c])))
    by (rewrite app_length, map_length; reflexivity).
  rewrite nth_error_app_len.
  replace (pre ++ map Sym (A ++ [c]) ++ Head :: R) with ((pre ++ map Sym A) ++ Sym c :: Head :: R) by list_eq.
  replace (length (pre ++ map Sym (A ++ [c]))) with (S (length (pre ++ map Sym A)))
    by (rewrite !app_length, !map_length, app_length; simpl; lia).
  rewrite Hsp, Htp, Hi. apply scan_to_sep.
Qed.

End Scan.

(* ================= tapes as zippers ================= *)
Section Zipper.

Lemma list_split_nth (l : list nat) p dflt : p < length l ->
  l = firstn p l ++ nth p l dflt :: skipn (S p) l.
Proof.
  revert p. induction l as [|x l IH]; intros [|p] H; simpl in *; try lia; [reflexivity|].
  f_equal. apply IH. lia.
Qed.

Lemma tape_zip t : wf t -> exists A c Bc, t_cells t = A ++ c :: Bc /\ length A = t_pos t.
Proof.
  intro H. exists (firstn (t_pos t) (t_cells t)), (nth (t_pos t) (t_cells t) 0), (skipn (S (t_pos t)) (t_cells t)).
  split; [apply list_split_nth; exact H|]. apply firstn_length_le. unfold wf in H. lia.
Qed.

Definition enc_z (A : list nat) (c : nat) (Bc : list nat) : list esym :=
  map Sym A ++ Sym c :: Head :: map Sym Bc ++ [Sep].

Lemma enc_tape_zip t A c Bc : t_cells t = A ++ c :: Bc -> length A = t_pos t -> enc_tape t = enc_z A c Bc.
Proof.
  intros Hc Hl. unfold enc_tape, enc_z. rewrite Hc, <- Hl.
  replace (A ++ c :: Bc) with ((A ++ [c]) ++ Bc) by (rewrite <- app_assoc; reflexivity).
  replace (S (length A)) with (length (A ++ [c])) by (rewrite app_length; simpl; lia).
  rewrite firstn_app_len, skipn_app_len. list_eq.
Qed.

Lemma upd_app A c Bc x : upd (length A) x (A ++ c :: Bc) = A ++ x :: Bc.
Proof. unfold upd. rewrite firstn_app_len, skipn_app_len. reflexivity. Qed.

(* the cells and head index after one write+move, by direction and boundary *)
Lemma act_zip t A c Bc w d : t_cells t = A ++ c :: Bc -> length A = t_pos t ->
  let t' := t_move (t_write t w) d in
  match d with
  | DN => t_cells t' = A ++ w :: Bc /\ t_pos t' = length A
  | DR => match Bc with
          | [] => t_cells t' = (A ++ [w]) ++ t_blank t :: [] /\ t_pos t' = length (A ++ [w])
          | c1 :: B1 => t_cells t' = (A ++ [w]) ++ c1 :: B1 /\ t_pos t' = length (A ++ [w])
          end
  | DL => (A = [] -> t_cells t' = [] ++ t_blank t :: w :: Bc /\ t_pos t' = 0) /\
          (forall A1 a, A = A1 ++ [a] -> t_cells t' = A1 ++ a :: w :: Bc /\ t_pos t' = length A1)
  end.
Proof.
  destruct t as [cells p b]. cbn [t_cells t_pos t_blank]. intros -> <-.
  unfold t_write, t_move. cbn [t_cells t_pos t_blank]. rewrite upd_app.
  assert (Hlen : length (A ++ w :: Bc) = length A + S (length Bc)) by (rewrite app_length; reflexivity).
  destruct d; cbn [doff].
  - (* L *) split.
    + intros ->. cbn [length app Z.of_nat Z.add]. cbn. split; reflexivity.
    + intros A1 a ->.
      assert (Hp : length (A1 ++ [a]) = S (length A1)) by (rewrite app_length; simpl; lia).
      destruct (Z.eqb_spec (Z.of_nat (length (A1 ++ [a])) + -1) (-1)) as [E|E]; [lia|].
      rewrite Hlen.
      destruct (Z.eqb_spec (Z.of_nat (length (A1 ++ [a])) + -1)
                           (Z.of_nat (length (A1 ++ [a]) + S (length Bc)))) as [E2|E2]; [lia|].
      split; [rewrite <- app_assoc; reflexivity|lia].
  - (* R *)
    destruct (Z.eqb_spec (Z.of_nat (length A) + 1) (-1)) as [E|E]; [lia|]. rewrite Hlen.
    destruct Bc as [|c1 B1]; cbn [length].
    + destruct (Z.eqb_spec (Z.of_nat (length A) + 1) (Z.of_nat (length A + 1))) as [E2|E2]; [|lia].
      split; [rewrite <- !app_assoc; reflexivity|rewrite app_length; simpl; lia].
    + destruct (Z.eqb_spec (Z.of_nat (length A) + 1) (Z.of_nat (length A + S (S (length B1))))) as [E2|E2]; [lia|].
      split; [rewrite <- app_assoc; reflexivity|rewrite app_length; simpl; lia].
  - (* N *)
    destruct (Z.eqb_spec (Z.of_nat (length A) + 0) (-1)) as [E|E]; [lia|]. rewrite Hlen.
    destruct (Z.eqb_spec (Z.of_nat (length A) + 0) (Z.of_nat (length A + S (length Bc)))) as [E2|E2]; [lia|].
    split; [reflexivity|lia].
Qed.

End Zipper.

(* ================= one virtual-tape write+move re-establishes the encoding ================= *)
Section ApplyMove.
Variables (blank w : nat).

Lemma seg_done d pre A c R X tp' i' U ys post seg' :
  X = pre ++ map Sym A ->
  splice_head blank (X ++ Sym c :: Head :: R) (S (length X)) w d = (tp', i') ->
  tp' = U ++ map Sym ys ++ Sep :: post -> S i' = length U ->
  U ++ map Sym ys ++ [Sep] = pre ++ seg' ->
  length ys <= S (length R) ->
  scan_move (scan_fuel (X ++ Sym c :: Head :: R)) blank (X ++ Sym c :: Head :: R) (length pre) w d =
  Ok (pre ++ seg' ++ post, length (pre ++ seg')).
Proof.
  intros HX Hsp Htp Hi Hseg Hys. subst X.
  pose proof (scan_segment blank w d pre A c R tp' i' U ys post 0 Hsp Htp Hi) as H.
  assert (Hr : (tp', length U + length ys + 1) = (pre ++ seg' ++ post, length (pre ++ seg'))).
  { f_equal.
    - rewrite Htp. rewrite (app_assoc pre seg' post), <- Hseg. list_eq.
    - rewrite <- Hseg. rewrite !app_length, map_length. simpl. lia. }
  rewrite Hr in H. apply (scan_move_mono blank w d _ _ _ _ H).
  unfold scan_fuel. rewrite !app_length, !map_length. cbn [length]. lia.
Qed.

Lemma list_last_case (A : list nat) : A = [] \/ exists A1 a, A = A1 ++ [a].
Proof.
  induction A as [|x A IH] using rev_ind; [left; reflexivity|]. right. exists A, x. reflexivity.
Qed.

Definition pre_ok (pre : list esym) : Prop := pre = [] \/ exists pre', pre = pre' ++ [Sep].

Theorem apply_move_encodes d pre t post : wf t -> t_blank t = blank -> pre_ok pre ->
  scan_move (scan_fuel (pre ++ enc_tape t ++ post)) blank (pre ++ enc_tape t ++ post) (length pre) w d =
  Ok (pre ++ enc_tape (t_move (t_write t w) d) ++ post,
      length (pre ++ enc_tape (t_move (t_write t w) d))).
Proof.
  intros Hwf Hb Hpre. destruct (tape_zip t Hwf) as [A [c [Bc [Hc Hl]]]].
  pose proof (act_zip t A c Bc w d Hc Hl) as Hact. cbv zeta in Hact. rewrite Hb in Hact.
  rewrite (enc_tape_zip t A c Bc Hc Hl). unfold enc_z at 1 2.
  set (R0 := map Sym Bc ++ Sep :: post).
  replace (pre ++ (map Sym A ++ Sym c :: Head :: map Sym Bc ++ [Sep]) ++ post)
    with ((pre ++ map Sym A) ++ Sym c :: Head :: R0) by (unfold R0; list_eq).
  destruct d.
  - (* L *) destruct Hact as [H0 H1]. destruct (list_last_case A) as [HA|[A1 [a HA]]].
    + destruct (H0 HA) as [Hc' Hp']. rewrite (enc_tape_zip _ [] blank (w :: Bc) Hc' (eq_sym Hp')).
      subst A. cbn [map]. rewrite app_nil_r.
      destruct Hpre as [->|[pre' ->]].
      * apply (seg_done DL [] [] c R0 [] (Sym blank :: Head :: Sym w :: R0) 1 [Sym blank; Head] (w :: Bc) post).
        -- reflexivity.
        -- apply splice_L_start.
        -- unfold R0. list_eq.
        -- reflexivity.
        -- unfold enc_z. list_eq.
        -- unfold R0. rewrite app_length, map_length. simpl. lia.
      * apply (seg_done DL (pre' ++ [Sep]) [] c R0 (pre' ++ [Sep])
                 ((pre' ++ [Sep]) ++ Sym blank :: Head :: Sym w :: R0) (S (length (pre' ++ [Sep])))
                 ((pre' ++ [Sep]) ++ [Sym blank; Head]) (w :: Bc) post).
        -- cbn [map]. rewrite app_nil_r. reflexivity.
        -- apply splice_L_sep. reflexivity.
        -- unfold R0. list_eq.
        -- rewrite !app_length. simpl. lia.
        -- unfold enc_z. list_eq.
        -- unfold R0. rewrite app_length, map_length. simpl. lia.
    + destruct (H1 A1 a HA) as [Hc' Hp']. rewrite (enc_tape_zip _ A1 a (w :: Bc) Hc' (eq_sym Hp')).
      subst A.
      replace (pre ++ map Sym (A1 ++ [a])) with ((pre ++ map Sym A1) ++ [Sym a]) by list_eq.
      apply (seg_done DL pre (A1 ++ [a]) c R0 ((pre ++ map Sym A1) ++ [Sym a])
               ((pre ++ map Sym A1) ++ Sym a :: Head :: Sym w :: R0) (S (length ((pre ++ map Sym A1) ++ [Sym a])) - 1)
               ((pre ++ map Sym A1) ++ [Sym a; Head]) (w :: Bc) post).
      * list_eq.
      * apply splice_L_sym. reflexivity.
      * unfold R0. list_eq.
      * rewrite !app_length. simpl. lia.
      * unfold enc_z. list_eq.
      * unfold R0. rewrite app_length, map_length. simpl. lia.
  - (* R *) destruct Bc as [|c1 B1].
    + destruct Hact as [Hc' Hp']. rewrite (enc_tape_zip _ (A ++ [w]) blank [] Hc' (eq_sym Hp')).
      apply (seg_done DR pre A c R0 (pre ++ map Sym A)
               ((pre ++ map Sym A) ++ Sym w :: Sym blank :: Head :: Sep :: post) (S (S (length (pre ++ map Sym A))))
               ((pre ++ map Sym A) ++ [Sym w; Sym blank; Head]) [] post).
      * reflexivity.
      * unfold R0. cbn [map app]. apply splice_R_sep. reflexivity.
      * list_eq.
      * rewrite !app_length. simpl. lia.
      * unfold enc_z. list_eq.
      * simpl. lia.
    + destruct Hact as [Hc' Hp']. rewrite (enc_tape_zip _ (A ++ [w]) c1 B1 Hc' (eq_sym Hp')).
      apply (seg_done DR pre A c R0 (pre ++ map Sym A)
               ((pre ++ map Sym A) ++ Sym w :: Sym c1 :: Head :: (map Sym B1 ++ Sep :: post))
               (S (S (length (pre ++ map Sym A))))
               ((pre ++ map Sym A) ++ [Sym w; Sym c1; Head]) B1 post).
      * reflexivity.
      * unfold R0. cbn [map app]. apply splice_R_sym. reflexivity.
      * list_eq.
      * rewrite !app_length. simpl. lia.
      * unfold enc_z. list_eq.
      * unfold R0. rewrite app_length, map_length. simpl. lia.
  - (* N *) destruct Hact as [Hc' Hp']. rewrite (enc_tape_zip _ A w Bc Hc' (eq_sym Hp')).
    apply (seg_done DN pre A c R0 (pre ++ map Sym A)
             ((pre ++ map Sym A) ++ Sym w :: Head :: R0) (S (length (pre ++ map Sym A)))
             ((pre ++ map Sym A) ++ [Sym w; Head]) Bc post).
    + reflexivity.
    + apply splice_N. reflexivity.
    + unfold R0. list_eq.
    + rewrite !app_length. simpl. lia.
    + unfold enc_z. list_eq.
    + unfold R0. rewrite app_length, map_length. simpl. lia.
Qed.

End ApplyMove.

(* ================= all moves of one transition; reading the heads ================= *)
Section Moves.
Variable blank : nat.

Lemma enc_tape_pre_ok pre t : pre_ok (pre ++ enc_tape t).
Proof.
  right. unfold enc_tape.
  exists (pre ++ map Sym (firstn (S (t_pos t)) (t_cells t)) ++ Head :: map Sym (skipn (S (t_pos t)) (t_cells t))).
  list_eq.
Qed.

Definition act_all (mv : list mmove) (ts : list tape) : list tape :=
  map (fun p : mmove * tape => t_move (t_write (snd p) (fst (fst p))) (snd (fst p))) (combine mv ts).

Lemma apply_moves_encodes : forall ts mv pre post,
  Forall wf ts -> Forall (fun t => t_blank t = blank) ts -> length mv = length ts -> pre_ok pre ->
  apply_moves blank (pre ++ encode ts ++ post) (length pre) mv =
  Ok (pre ++ encode (act_all mv ts) ++ post, length (pre ++ encode (act_all mv ts))).
Proof.
  induction ts as [|t ts IH]; intros [|[w d] mv] pre post Hwf Hb Hlen Hpre; simpl in Hlen; try discriminate.
  - simpl. rewrite app_nil_r. reflexivity.
  - inversion Hwf as [|? ? Hwt Hwts]; inversion Hb as [|? ? Hbt Hbts]; subst.
    cbn [apply_moves]. unfold encode at 1 2. cbn [flat_map]. fold (encode ts).
    replace (pre ++ (enc_tape t ++ encode ts) ++ post) with (pre ++ enc_tape t ++ (encode ts ++ post)) by list_eq.
    rewrite (apply_move_encodes (t_blank t) w d pre t (encode ts ++ post) Hwt eq_refl Hpre).
    cbn [bind fst snd].
    replace (pre ++ enc_tape (t_move (t_write t w) d) ++ encode ts ++ post)
      with ((pre ++ enc_tape (t_move (t_write t w) d)) ++ encode ts ++ post) by list_eq.
    rewrite (IH mv _ post Hwts Hbts); [|injection Hlen; auto|apply enc_tape_pre_ok].
    unfold act_all, encode. cbn [combine map flat_map fst snd]. f_equal. f_equal; list_eq.
Qed.

Lemma go_syms xs : forall prev rest heads found seps,
  read_heads_go prev (map Sym xs ++ rest) heads found seps =
  read_heads_go (match rev xs with [] => prev | y :: _ => Some (Sym y) end) rest heads found seps.
Proof.
  induction xs as [|x xs IH]; intros prev rest heads found seps; [reflexivity|].
  cbn [map app read_heads_go]. rewrite IH. cbn [rev]. destruct (rev xs); reflexivity.
Qed.

Lemma go_segment t prev rest heads seps : wf t ->
  read_heads_go prev (enc_tape t ++ rest) heads 0 seps =
  read_heads_go (Some Sep) rest (Sym (t_read t) :: heads) 0 (S seps).
Proof.
  intro Hwf. destruct (tape_zip t Hwf) as [A [c [Bc [Hc Hl]]]].
  rewrite (enc_tape_zip t A c Bc Hc Hl). unfold enc_z.
  assert (Hr : t_read t = c) by (unfold t_read; rewrite Hc, <- Hl; apply nth_middle).
  rewrite Hr.
  replace ((map Sym A ++ Sym c :: Head :: map Sym Bc ++ [Sep]) ++ rest)
    with (map Sym (A ++ [c]) ++ Head :: map Sym Bc ++ Sep :: rest) by list_eq.
  rewrite go_syms, rev_app_distr. cbn [rev app read_heads_go].
  rewrite go_syms. cbn [read_heads_go Nat.eqb Nat.ltb Nat.leb]. reflexivity.
Qed.

Lemma go_all ts : forall prev heads seps, Forall wf ts -> length heads = seps ->
  read_heads_go prev (encode ts) heads 0 seps = Ok (rev heads ++ map (fun t => Sym (t_read t)) ts).
Proof.
  induction ts as [|t ts IH]; intros prev heads seps Hwf Hl.
  - cbn [encode flat_map read_heads_go map]. rewrite Hl, Nat.eqb_refl, app_nil_r. reflexivity.
  - inversion Hwf; subst. unfold encode. cbn [flat_map]. fold (encode ts).
    rewrite go_segment by assumption. rewrite IH; [|assumption|reflexivity].
    cbn [rev map]. rewrite <- app_assoc. reflexivity.
Qed.

Lemma read_heads_encode ts : Forall wf ts ->
  read_heads (encode ts) = Ok (map Sym (map t_read ts)).
Proof. intro H. unfold read_heads. rewrite go_all by auto. rewrite map_map. reflexivity. Qed.

Lemma heads_key_syms xs : heads_key (map Sym xs) = Some xs.
Proof. induction xs as [|x xs IH]; simpl; [reflexivity|]. rewrite IH. reflexivity. Qed.

Lemma ext_initial_encode ts : Forall (fun t => t_pos t = 0 /\ wf t) ts -> ext_initial ts = Ok (encode ts).
Proof.
  induction 1 as [|t ts [Hp Hw] _ IH]; [reflexivity|].
  cbn [ext_initial]. rewrite IH. unfold encode at 2. cbn [flat_map]. fold (encode ts).
  unfold enc_tape. rewrite Hp. unfold wf in Hw. rewrite Hp in Hw.
  destruct (t_cells t) as [|c r]; [simpl in Hw; lia|]. reflexivity.
Qed.

End Moves.

(* ================= one BFS iteration of the simulation against the multitape step ================= *)
Section SimStep.
Variable m : mntm.
Hypothesis Hvt : valid_tapes m = true.

Definition good (n : mcfg) : Prop :=
  wfs n /\ Forall (fun t => t_blank t = mt_blank m) (snd n) /\ length (snd n) = mt_n m.
Definition sim_rel (c : ecfg) (n : mcfg) : Prop :=
  fst (fst c) = fst n /\ snd (fst c) = encode (snd n).

Lemma delta_alts_len q k alts : mt_delta m q k = Some alts ->
  Forall (fun a : malt => length (snd a) = mt_n m) alts.
Proof.
  unfold valid_tapes in Hvt. apply andb_true_iff in Hvt. destruct Hvt as [_ H].
  rewrite forallb_forall in H. unfold mt_delta.
  destruct (assoc q (mt_trans m)) as [row|] eqn:E; [|discriminate].
  intro Hs. apply assoc_In in E. apply assocl_In in Hs.
  specialize (H _ E). cbn [snd] in H. rewrite forallb_forall in H. specialize (H _ Hs). cbn [snd] in H.
  rewrite forallb_forall in H. apply Forall_forall. intros a Ha. apply Nat.eqb_eq. apply H. exact Ha.
Qed.

Lemma good_apply n a : good n -> length (snd a) = mt_n m -> good (mntm_apply n a).
Proof.
  intros [Hw [Hb Hl]] Ha. split; [exact (proj1 (mntm_apply_abs n a Hw))|]. split.
  - unfold mntm_apply. cbn [snd]. apply Forall_forall. intros t Ht. apply in_map_iff in Ht.
    destruct Ht as [[[w d] t0] [<- Hin]]. cbn [fst snd]. apply in_combine_r in Hin.
    rewrite Forall_forall in Hb. exact (Hb _ Hin).
  - unfold mntm_apply. cbn [snd]. rewrite map_length, combine_length. lia.
Qed.

Lemma sim_alt_encode ts a : Forall wf ts -> Forall (fun t => t_blank t = mt_blank m) ts ->
  length (snd a) = length ts ->
  exists pos, sim_alt (mt_blank m) (encode ts) a = Ok (fst a, encode (act_all (snd a) ts), pos).
Proof.
  intros Hw Hb Hl. unfold sim_alt.
  pose proof (apply_moves_encodes (mt_blank m) ts (snd a) [] [] Hw Hb Hl (or_introl eq_refl)) as H.
  cbn [app length] in H. rewrite !app_nil_r in H. rewrite H. cbn [bind fst snd]. eexists. reflexivity.
Qed.

Lemma mapR_sim ts alts : Forall wf ts -> Forall (fun t => t_blank t = mt_blank m) ts ->
  Forall (fun a : malt => length (snd a) = length ts) alts ->
  exists new, mapR (sim_alt (mt_blank m) (encode ts)) alts = Ok new /\
    Forall2 (fun (c' : ecfg) (a : malt) => fst (fst c') = fst a /\ snd (fst c') = encode (act_all (snd a) ts)) new alts.
Proof.
  intros Hw Hb. induction 1 as [|a alts Ha _ IH].
  - exists []. split; [reflexivity|constructor].
  - destruct IH as [new [Hn HF]]. destruct (sim_alt_encode ts a Hw Hb Ha) as [pos Hp].
    exists ((fst a, encode (act_all (snd a) ts), pos) :: new). split.
    + cbn [mapR]. rewrite Hp, Hn. reflexivity.
    + constructor; [split; reflexivity|exact HF].
Qed.

(* what sim_expand does on an entry that encodes the multitape configuration n *)
Lemma sim_expand_rel c n : sim_rel c n -> good n ->
  if memb (fst n) (mt_finals m) then sim_expand m c = inl (Ok c)
  else match mt_delta m (fst n) (map t_read (snd n)) with
       | None => sim_expand m c = inr []
       | Some alts => exists new, sim_expand m c = inr new /\
                        Forall2 (fun c' a => sim_rel c' (mntm_apply n a)) new alts
       end.
Proof.
  destruct c as [[q ext] pos]. intros [Hq He] [Hw [Hb Hl]]. cbn [fst snd] in Hq, He. subst q ext.
  unfold sim_expand. destruct (memb (fst n) (mt_finals m)); [reflexivity|].
  rewrite (read_heads_encode (snd n) Hw), heads_key_syms.
  destruct (mt_delta m (fst n) (map t_read (snd n))) as [alts|] eqn:Hd; [|reflexivity].
  assert (Hal : Forall (fun a : malt => length (snd a) = length (snd n)) alts).
  { rewrite Hl. exact (delta_alts_len _ _ _ Hd). }
  destruct (mapR_sim (snd n) alts Hw Hb Hal) as [new [Hn HF]]. exists new. rewrite Hn.
  split; [reflexivity|]. clear Hn Hal Hd. induction HF as [|c' a new alts [H1 H2] _ IH]; constructor; [|exact IH].
  split; [exact H1|exact H2].
Qed.

Lemma Forall2_In_l {A B} (R : A -> B -> Prop) l1 l2 x : Forall2 R l1 l2 -> In x l1 -> exists y, In y l2 /\ R x y.
Proof.
  induction 1 as [|a b l1 l2 Hab _ IH]; intros []; [subst; exists b; split; [left; reflexivity|exact Hab]|].
  destruct (IH H) as [y [Hy Hr]]. exists y. split; [right; exact Hy|exact Hr].
Qed.

Lemma Forall2_In_r {A B} (R : A -> B -> Prop) l1 l2 y : Forall2 R l1 l2 -> In y l2 -> exists x, In x l1 /\ R x y.
Proof.
  induction 1 as [|a b l1 l2 Hab _ IH]; intros []; [subst; exists a; split; [left; reflexivity|exact Hab]|].
  destruct (IH H) as [x [Hx Hr]]. exists x. split; [right; exact Hx|exact Hr].
Qed.

Lemma sim_inl_facts c n o : sim_rel c n -> good n -> sim_expand m c = inl o ->
  o = Ok c /\ mt_final m (abs_mcfg n).
Proof.
  intros Hr Hg He. pose proof (sim_expand_rel c n Hr Hg) as H.
  destruct (memb (fst n) (mt_finals m)) eqn:Ef.
  - rewrite H in He. inversion He. split; [reflexivity|]. apply memb_In. exact Ef.
  - destruct (mt_delta m (fst n) (map t_read (snd n))) as [alts|].
    + destruct H as [new [H _]]. rewrite H in He. discriminate.
    + rewrite H in He. discriminate.
Qed.

Lemma sim_inr_facts c n new : sim_rel c n -> good n -> sim_expand m c = inr new ->
  ~ mt_final m (abs_mcfg n) /\
  (forall c', In c' new -> exists n', sim_rel c' n' /\ good n' /\ mstep m (abs_mcfg n) (abs_mcfg n')) /\
  (forall z, mstep m (abs_mcfg n) z ->
     exists c' n', In c' new /\ sim_rel c' n' /\ good n' /\ mzcfg_eq (abs_mcfg n') z).
Proof.
  intros Hr Hg He. pose proof (sim_expand_rel c n Hr Hg) as H.
  assert (Hh : map t_read (snd n) = zheads (snd (abs_mcfg n))) by apply heads_view.
  destruct (memb (fst n) (mt_finals m)) eqn:Ef; [rewrite H in He; discriminate|].
  apply memb_false in Ef. split; [exact Ef|].
  destruct (mt_delta m (fst n) (map t_read (snd n))) as [alts|] eqn:Hd.
  - destruct H as [new' [H HF]]. rewrite H in He. inversion He; subst new'. clear He H.
    pose proof (delta_alts_len _ _ _ Hd) as Hlen. rewrite Forall_forall in Hlen.
    rewrite Hh in Hd. destruct Hg as [Hw Hg'].
    split.
    + intros c' Hc'. destruct (Forall2_In_l _ _ _ _ HF Hc') as [a [Ha Hrel]].
      exists (mntm_apply n a). split; [exact Hrel|]. split; [apply good_apply; [split; assumption|exact (Hlen _ Ha)]|].
      exists alts, (fst a), (snd a). split; [exact Hd|]. split; [destruct a; exact Ha|].
      split; [reflexivity|]. exact (proj2 (mntm_apply_abs n a Hw)).
    + intros z [alts' [q' [mv [Hd' [Hin [Hq Hz]]]]]]. cbn [abs_mcfg fst] in Hd', Hd. rewrite Hd in Hd'.
      inversion Hd'; subst alts'.
      destruct (Forall2_In_r _ _ _ _ HF Hin) as [c' [Hc' Hrel]].
      exists c', (mntm_apply n (q', mv)). split; [exact Hc'|]. split; [exact Hrel|].
      split; [apply good_apply; [split; assumption|exact (Hlen _ Hin)]|].
      split; [cbn; congruence|]. eapply F2zeq_trans; [exact (proj2 (mntm_apply_abs n (q', mv) Hw))|].
      apply F2zeq_sym. exact Hz.
  - rewrite H in He. inversion He; subst new. split; [intros c' []|].
    intros z [alts' [q' [mv [Hd' _]]]]. cbn [abs_mcfg fst] in Hd'. rewrite <- Hh, Hd in Hd'. discriminate.
Qed.

End SimStep.

(* ================= the BFS of the simulation ================= *)
Section SimBFS.
Variable m : mntm.
Hypothesis Hvt : valid_tapes m = true.

Lemma sim_bfs_eq fuel queue : sim_bfs m fuel queue =
  match queue with
  | [] => ([], Err Reject)
  | c :: q =>
    match fuel with
    | 0 => ([], Err Fuel)
    | S f => match sim_expand m c with
             | inl o => ([c], o)
             | inr new => let (ys, o) := sim_bfs m f (q ++ new) in (c :: ys, o)
             end
    end
  end.
Proof. destruct fuel; reflexivity. Qed.

(* soundness: an accepting end is an entry encoding a reachable configuration in a final state;
   no exception other than the rejection *)
Lemma sim_bfs_sound w fuel : forall queue ys o,
  (forall c, In c queue -> exists n, sim_rel c n /\ good m n /\ mreachable m w (abs_mcfg n)) ->
  sim_bfs m fuel queue = (ys, o) ->
  match o with
  | Ok cl => exists n, sim_rel cl n /\ mreachable m w (abs_mcfg n) /\ mt_final m (abs_mcfg n)
  | Err Reject => True
  | Err Fuel => True
  | Err _ => False
  end.
Proof.
  induction fuel as [|f IH]; intros queue ys o Hq; rewrite sim_bfs_eq; destruct queue as [|c q].
  - intro H. inversion H; subst. exact I.
  - intro H. inversion H; subst. exact I.
  - intro H. inversion H; subst. exact I.
  - destruct (Hq c (or_introl eq_refl)) as [n [Hr [Hg Hreach]]].
    destruct (sim_expand m c) as [o'|new] eqn:He.
    + intro H. inversion H; subst. destruct (sim_inl_facts m Hvt c n o Hr Hg He) as [-> Hf].
      exists n. split; [exact Hr|]. split; assumption.
    + destruct (sim_bfs m f (q ++ new)) as [ys1 o1] eqn:Er. intro H. inversion H; subst.
      destruct (sim_inr_facts m Hvt c n new Hr Hg He) as [_ [Hnew _]].
      apply (IH (q ++ new) ys1 o); [|exact Er].
      intros c' Hc'. apply in_app_iff in Hc'. destruct Hc' as [Hc'|Hc'].
      * apply Hq. right. exact Hc'.
      * destruct (Hnew c' Hc') as [n' [Hr' [Hg' Hs]]]. exists n'. split; [exact Hr'|]. split; [exact Hg'|].
        destruct Hreach as [k Hk]. exists (S k). eapply mreach_snoc; eassumption.
Qed.

Definition sclosed (l all : list ecfg) : Prop :=
  forall p, In p l -> forall n, sim_rel p n -> good m n ->
    ~ mt_final m (abs_mcfg n) /\
    forall z, mstep m (abs_mcfg n) z ->
      exists c n', In c all /\ sim_rel c n' /\ good m n' /\ mzcfg_eq (abs_mcfg n') z.

Lemma sim_bfs_reject fuel : forall P queue ys,
  (forall c, In c (P ++ queue) -> exists n, sim_rel c n /\ good m n) ->
  sclosed P (P ++ queue) ->
  sim_bfs m fuel queue = (ys, Err Reject) ->
  (forall c, In c (P ++ queue) -> In c (P ++ ys)) /\ sclosed (P ++ ys) (P ++ ys).
Proof.
  induction fuel as [|f IH]; intros P queue ys Hg Hcl; rewrite sim_bfs_eq; destruct queue as [|c q].
  - intro H. inversion H; subst. rewrite app_nil_r in *. split; [auto|exact Hcl].
  - discriminate.
  - intro H. inversion H; subst. rewrite app_nil_r in *. split; [auto|exact Hcl].
  - destruct (sim_expand m c) as [o'|new] eqn:He.
    + intro H. inversion H; subst. exfalso.
      destruct (Hg c) as [n [Hr Hgn]]; [apply in_app_iff; right; left; reflexivity|].
      destruct (sim_inl_facts m Hvt c n _ Hr Hgn He) as [Hx _]. discriminate.
    + destruct (sim_bfs m f (q ++ new)) as [ys1 o1] eqn:Er. intro H. inversion H; subst.
      assert (Hsub : forall x, In x (P ++ c :: q) -> In x ((P ++ [c]) ++ q ++ new)).
      { intros x Hx. rewrite !in_app_iff in *. simpl in *. tauto. }
      destruct (IH (P ++ [c]) (q ++ new) ys1) as [I1 I2].
      * intros x Hx. rewrite !in_app_iff in Hx. destruct Hx as [[Hx|[Hx|[]]]|[Hx|Hx]].
        -- apply Hg. apply in_app_iff. left. exact Hx.
        -- subst. apply Hg. apply in_app_iff. right. left. reflexivity.
        -- apply Hg. apply in_app_iff. right. right. exact Hx.
        -- destruct (Hg c) as [n [Hr Hgn]]; [apply in_app_iff; right; left; reflexivity|].
           destruct (sim_inr_facts m Hvt c n new Hr Hgn He) as [_ [Hnew _]].
           destruct (Hnew x Hx) as [n' [Hr' [Hg' _]]]. exists n'. split; assumption.
      * intros p Hp n Hr Hgn. apply in_app_iff in Hp. destruct Hp as [Hp|[Hp|[]]].
        -- destruct (Hcl p Hp n Hr Hgn) as [Hnf Hs]. split; [exact Hnf|].
           intros z Hz. destruct (Hs z Hz) as [x [n' [Hx Hrest]]]. exists x, n'. split; [apply Hsub; exact Hx|exact Hrest].
        -- subst p. destruct (sim_inr_facts m Hvt c n new Hr Hgn He) as [Hnf [_ Hall]]. split; [exact Hnf|].
           intros z Hz. destruct (Hall z Hz) as [x [n' [Hx Hrest]]]. exists x, n'.
           split; [|exact Hrest]. rewrite !in_app_iff. right. right. exact Hx.
      * exact Er.
      * split.
        -- intros x Hx. specialize (Hsub x Hx). specialize (I1 x Hsub).
           rewrite !in_app_iff in *. simpl in *. tauto.
        -- replace (P ++ c :: ys1) with ((P ++ [c]) ++ ys1) by (rewrite <- app_assoc; reflexivity).
           exact I2.
Qed.

Lemma sclosed_reach l : sclosed l l -> forall k c n z, In c l -> sim_rel c n -> good m n ->
  mreach m k (abs_mcfg n) z ->
  exists c' n', In c' l /\ sim_rel c' n' /\ good m n' /\ mzcfg_eq (abs_mcfg n') z.
Proof.
  intros Hcl. induction k as [|k IH]; intros c n z Hc Hr Hg Hreach; inversion Hreach; subst.
  - exists c, n. split; [exact Hc|]. split; [exact Hr|]. split; [exact Hg|assumption].
  - destruct (Hcl c Hc n Hr Hg) as [_ Hs].
    match goal with H : mstep m _ _ |- _ => destruct (Hs _ H) as [p1 [n1 [Hp1 [Hr1 [Hg1 He1]]]]] end.
    apply (IH p1 n1 z Hp1 Hr1 Hg1). eapply mreach_cong_l; [apply mzcfg_eq_sym; exact He1|assumption].
Qed.

Lemma good_start w : good m (mntm_start m w).
Proof.
  split; [exact (proj1 (mntm_start_abs m w))|]. unfold mntm_start. cbn [snd]. split.
  - constructor; [reflexivity|]. apply Forall_forall. intros t Ht. apply repeat_spec in Ht. subst. reflexivity.
  - cbn [length]. rewrite repeat_length. unfold valid_tapes in Hvt. apply andb_true_iff in Hvt.
    destruct Hvt as [H _]. apply Nat.leb_le in H. lia.
Qed.

Lemma sim_initial w : ext_initial (snd (mntm_start m w)) = Ok (encode (snd (mntm_start m w))).
Proof.
  apply ext_initial_encode. unfold mntm_start. cbn [snd].
  constructor; [split; [reflexivity|apply wf_init]|].
  apply Forall_forall. intros t Ht. apply repeat_spec in Ht. subst. split; [reflexivity|apply wf_init].
Qed.

Lemma sim_accepts_spec fuel w :
  (sim_accepts m fuel w = Ok true -> mreach_final m w) /\
  (sim_accepts m fuel w = Ok false -> ~ mreach_final m w) /\
  (sim_accepts m fuel w = Ok true \/ sim_accepts m fuel w = Ok false \/ sim_accepts m fuel w = Err Fuel).
Proof.
  unfold sim_accepts, sim_stepwise. rewrite sim_initial.
  destruct (sim_bfs m fuel [(mt_init m, encode (snd (mntm_start m w)), 0)]) as [ys o] eqn:E. cbn [snd].
  set (c0 := (mt_init m, encode (snd (mntm_start m w)), 0)) in *.
  assert (Hr0 : sim_rel c0 (mntm_start m w)) by (split; reflexivity).
  pose proof (good_start w) as Hg0. destruct (mntm_start_abs m w) as [_ Hst].
  assert (Hq : forall c, In c [c0] -> exists n, sim_rel c n /\ good m n /\ mreachable m w (abs_mcfg n)).
  { intros c [<-|[]]. exists (mntm_start m w). split; [exact Hr0|]. split; [exact Hg0|].
    exists 0. apply mr_0. apply mzcfg_eq_sym. exact Hst. }
  pose proof (sim_bfs_sound w fuel [c0] ys o Hq E) as Hs.
  destruct o as [cl|e]; simpl verdict_of.
  - split; [|split; [intro Hx; discriminate Hx|auto]]. intros _. destruct Hs as [n [_ [[k Hk] Hf]]].
    exists k, (abs_mcfg n). split; assumption.
  - destruct e; try contradiction; simpl verdict_of.
    + split; [intro Hx; discriminate Hx|]. split; [|auto]. intros _ [k [z [Hreach Hf]]].
      destruct (sim_bfs_reject fuel [] [c0] ys) as [I1 I2].
      * intros c [<-|[]]. exists (mntm_start m w). split; assumption.
      * intros p [].
      * exact E.
      * cbn [app] in I1, I2.
        assert (Hreach' : mreach m k (abs_mcfg (mntm_start m w)) z)
          by (eapply mreach_cong_l; [apply mzcfg_eq_sym; exact Hst|exact Hreach]).
        destruct (sclosed_reach ys I2 k c0 _ z (I1 c0 (or_introl eq_refl)) Hr0 Hg0 Hreach')
          as [c' [n' [Hc' [Hr' [Hg' [Hq' _]]]]]].
        destruct (I2 c' Hc' n' Hr' Hg') as [Hnf _]. apply Hnf. unfold mt_final in *.
        cbn [abs_mcfg fst] in *. rewrite Hq'. exact Hf.
    + split; [intro Hx; discriminate Hx|]. split; [intro Hx; discriminate Hx|auto].
Qed.

End SimBFS.

(* the two simulators of the library agree whenever both return *)
Lemma verdict_agreement m w f1 f2 b1 b2 : valid_mntm m = true -> valid_tapes m = true ->
  sim_accepts m f1 w = Ok b1 -> mntm_accepts m f2 w = Ok b2 -> b1 = b2.
Proof.
  intros Hv Hvt H1 H2.
  destruct (sim_accepts_spec m Hvt f1 w) as [Sa [Sr _]].
  destruct (mntm_accepts_spec m Hv f2 w) as [Na [Nr _]].
  destruct b1, b2; try reflexivity; exfalso.
  - exact (Nr H2 (Sa H1)).
  - exact (Sr H1 (Na H2)).
Qed.
