(* Lemmas for C08 (continuation): the input symbols of the results of the NFA operations.
   Every operation of Model/NFAOps.v hands [usyms A B] (binary: self.input_symbols | other.input_symbols,
   nfa.py lines 520, 572, 698, 787, 852, 942) or [n_syms A] (unary: lines 401, 608, 635, 674) to the
   constructor, whose validation returns the automaton unchanged. *)
From Coq Require Import List Arith Bool Lia.
From AV Require Import Base.Util Base.Closure Spec.Lang Spec.FA Model.FARun Model.Decide Model.NFAOps Model.Subset
     Proofs.NFAOps.
Import ListNotations.

Lemma usyms_In A B a : In a (usyms A B) <-> In a (n_syms A) \/ In a (n_syms B).
Proof. unfold usyms. rewrite set_of_In, in_app_iff. tauto. Qed.

Lemma usyms_NoDup A B : NoDup (usyms A B).
Proof. apply set_of_NoDup. Qed.

Lemma check_nfa_syms m R : check_nfa m = Ok R -> n_syms R = n_syms m.
Proof. intro H. apply check_nfa_inv in H. destruct H as [-> _]. reflexivity. Qed.

Lemma ops_union_syms A B R : nfa_union A B = Ok R -> n_syms R = usyms A B.
Proof.
  unfold nfa_union. destruct (lookups_ok A && lookups_ok B); [|discriminate].
  intro H. apply check_nfa_syms in H. exact H.
Qed.

Lemma ops_concat_syms A B R : nfa_concat A B = Ok R -> n_syms R = usyms A B.
Proof.
  unfold nfa_concat. destruct (lookups_ok A && lookups_ok B); [|discriminate].
  intro H. apply check_nfa_syms in H. exact H.
Qed.

Lemma ops_star_syms A R : nfa_star A = Ok R -> n_syms R = n_syms A.
Proof. unfold nfa_star. intro H. apply check_nfa_syms in H. exact H. Qed.

Lemma ops_option_syms A R : nfa_option A = Ok R -> n_syms R = n_syms A.
Proof. unfold nfa_option. intro H. apply check_nfa_syms in H. exact H. Qed.

Lemma ops_reverse_syms A R : nfa_reverse A = Ok R -> n_syms R = n_syms A.
Proof. unfold nfa_reverse. intro H. apply check_nfa_syms in H. exact H. Qed.

Lemma ops_inter_syms A B R : nfa_intersection A B = Ok R -> n_syms R = usyms A B.
Proof.
  unfold nfa_intersection. destruct (inter_states A B); [|discriminate].
  intro H. apply check_nfa_syms in H. exact H.
Qed.

Lemma ops_shuffle_syms A B R : nfa_shuffle A B = Ok R -> n_syms R = usyms A B.
Proof. unfold nfa_shuffle. intro H. apply check_nfa_syms in H. exact H. Qed.

Lemma ops_elim_syms A R : nfa_eliminate_lambda A = Ok R -> n_syms R = n_syms A.
Proof.
  unfold nfa_eliminate_lambda. destruct (elim_parts A); [|discriminate]. simpl.
  intro H. apply check_nfa_syms in H. exact H.
Qed.

Lemma ops_rquot_syms A B R : nfa_right_quotient A B = Ok R -> n_syms R = usyms A B.
Proof.
  unfold nfa_right_quotient. destruct (elim_parts A); [|discriminate]. simpl.
  destruct (elim_parts B); [|discriminate]. simpl.
  intro H. apply check_nfa_syms in H. exact H.
Qed.

Lemma ops_lquot_syms A B R : nfa_left_quotient A B = Ok R -> n_syms R = usyms A B.
Proof.
  unfold nfa_left_quotient. destruct (elim_parts A); [|discriminate]. simpl.
  destruct (elim_parts B); [|discriminate]. simpl.
  intro H. apply check_nfa_syms in H. exact H.
Qed.

(* ---- compositions: the symbol list the evaluation produces, and the leaves' symbols ---- *)
Fixpoint nexp_syms (e : nexp) : list nat :=
  match e with
  | NLeaf A => n_syms A
  | NStar e | NOption e | NReverse e => nexp_syms e
  | NUnion e f | NConcat e f | NInter e f | NShuffle e f | NRQuot e f | NLQuot e f =>
    set_of (nexp_syms e ++ nexp_syms f)
  end.

Fixpoint nexp_leaves (e : nexp) : list nfa :=
  match e with
  | NLeaf A => [A]
  | NStar e | NOption e | NReverse e => nexp_leaves e
  | NUnion e f | NConcat e f | NInter e f | NShuffle e f | NRQuot e f | NLQuot e f =>
    nexp_leaves e ++ nexp_leaves f
  end.

(* a is a symbol of some operand *)
Definition nexp_leaf_sym (e : nexp) (a : nat) : Prop := exists A, In A (nexp_leaves e) /\ In a (n_syms A).

Lemma nexp_syms_In e a : In a (nexp_syms e) <-> nexp_leaf_sym e a.
Proof.
  unfold nexp_leaf_sym.
  induction e as [A|e IHe f IHf|e IHe f IHf|e IHe|e IHe|e IHe|e IHe f IHf|e IHe f IHf|e IHe f IHf|e IHe f IHf];
    simpl; try exact IHe;
    try (rewrite set_of_In, in_app_iff, IHe, IHf; split;
         [intros [[X [H1 H2]]|[X [H1 H2]]]; exists X; rewrite in_app_iff; tauto
         |intros [X [H1 H2]]; apply in_app_iff in H1; destruct H1 as [H1|H1]; [left|right]; exists X; tauto]).
  split.
  - intro H. exists A. split; [left; reflexivity|exact H].
  - intros [X [[<-|[]] H]]. exact H.
Qed.

Lemma bind2_inv x y f R : bind2 x y f = Ok R -> exists a b, x = Ok a /\ y = Ok b /\ f a b = Ok R.
Proof.
  unfold bind2. destruct x as [a|]; [|discriminate]. simpl. destruct y as [b|]; [|discriminate]. simpl.
  intro H. exists a, b. auto.
Qed.

Lemma bind1_inv (x : res nfa) (f : nfa -> res nfa) R : bind x f = Ok R -> exists a, x = Ok a /\ f a = Ok R.
Proof. destruct x as [a|]; [|discriminate]. simpl. intro H. exists a. auto. Qed.

Lemma ops_eval_syms e : forall R, nfa_eval e = Ok R -> n_syms R = nexp_syms e.
Proof.
  induction e as [A|e IHe f IHf|e IHe f IHf|e IHe|e IHe|e IHe|e IHe f IHf|e IHe f IHf|e IHe f IHf|e IHe f IHf];
    simpl; intros R H;
    try (apply bind2_inv in H; destruct H as [a [b [Ea [Eb H]]]];
         rewrite <- (IHe a Ea), <- (IHf b Eb));
    try (apply bind1_inv in H; destruct H as [a [Ea H]]; rewrite <- (IHe a Ea)).
  - inversion H. reflexivity.
  - exact (ops_union_syms a b R H).
  - exact (ops_concat_syms a b R H).
  - exact (ops_star_syms a R H).
  - exact (ops_option_syms a R H).
  - exact (ops_reverse_syms a R H).
  - exact (ops_inter_syms a b R H).
  - exact (ops_shuffle_syms a b R H).
  - exact (ops_rquot_syms a b R H).
  - exact (ops_lquot_syms a b R H).
Qed.

Lemma nsame_syms_iff A B : nsame_syms A B = true <-> (forall a, In a (n_syms A) <-> In a (n_syms B)).
Proof.
  unfold nsame_syms. rewrite andb_true_iff, !subsetb_incl. unfold incl. split.
  - intros [H1 H2] a. split; auto.
  - intro H. split; intro a; apply H.
Qed.
