(* Lemmas for C08: generic graph paths, simulation, the [assemble] numbering,
   then one section per operation. *)
From Coq Require Import List Arith Bool Lia.
From AV Require Import Base.Util Base.Closure Spec.Lang Spec.FA Model.FARun Model.Decide Model.NFAOps Proofs.FARun.
Import ListNotations.

(* ------------------------------------------------------------------ *)
(* small list facts *)
Section ListFacts.
  Lemma ssorted_NoDup l : ssorted l -> NoDup l.
  Proof.
    induction l as [|x l IH]; intro H; [constructor|].
    constructor.
    - intro Hin. pose proof (ssorted_lt _ _ H _ Hin). lia.
    - apply IH. eapply ssorted_tail. exact H.
  Qed.

  Lemma set_of_NoDup l : NoDup (set_of l).
  Proof. apply ssorted_NoDup. apply set_of_sorted. Qed.

  Lemma NoDup_map_on {X Y} (f : X -> Y) (l : list X) :
    NoDup l -> (forall x y, In x l -> In y l -> f x = f y -> x = y) -> NoDup (map f l).
  Proof.
    induction l as [|a l IH]; simpl; intros Hnd Hinj; [constructor|].
    inversion Hnd as [|? ? Hna Hnd']; subst. constructor.
    - intro Hin. apply in_map_iff in Hin. destruct Hin as [y [Hy Hin]].
      assert (y = a) by (apply Hinj; [right; exact Hin|left; reflexivity|exact Hy]).
      subst. contradiction.
    - apply IH; [exact Hnd'|]. intros x y Hx Hy. apply Hinj; right; assumption.
  Qed.

  Lemma NoDup_all_eq {X} (l : list X) c : NoDup l -> (forall x, In x l -> x = c) -> length l <= 1.
  Proof.
    intros Hnd Hall. destruct l as [|a [|b l]]; simpl; try lia.
    exfalso. inversion Hnd as [|? ? Hna _]; subst. apply Hna. left.
    rewrite (Hall a), (Hall b); [reflexivity|right; left; reflexivity|left; reflexivity].
  Qed.

  Lemma nonempty_In {X} (l : list X) : nonempty l = true <-> exists x, In x l.
  Proof.
    destruct l as [|a l]; simpl; split.
    - discriminate.
    - intros [x []].
    - intros _. exists a. left. reflexivity.
    - reflexivity.
  Qed.
End ListFacts.

Section GIdx.
  Context {X : Type}.
  Variable eqb : X -> X -> bool.
  Hypothesis eqb_spec : eqb_ok eqb.

  Lemma gidx_inj l : forall x y, In x l -> In y l -> gidx eqb x l = gidx eqb y l -> x = y.
  Proof.
    induction l as [|a l IH]; intros x y Hx Hy; [destruct Hx|]. simpl.
    destruct (eqb x a) eqn:Ex; destruct (eqb y a) eqn:Ey; intro E.
    - apply eqb_spec in Ex. apply eqb_spec in Ey. congruence.
    - discriminate.
    - discriminate.
    - injection E as E. apply IH; [| |exact E].
      + destruct Hx as [Hx|Hx]; [|exact Hx]. subst. rewrite (eqb_ok_refl _ eqb_spec) in Ex. discriminate.
      + destruct Hy as [Hy|Hy]; [|exact Hy]. subst. rewrite (eqb_ok_refl _ eqb_spec) in Ey. discriminate.
  Qed.
End GIdx.

Lemma eqb_pp_ok : eqb_ok eqb_pp.
Proof. apply eqb_pair_ok; apply eqb_nat_ok. Qed.
Lemma eqb_ppb_ok : eqb_ok eqb_ppb.
Proof. apply eqb_pair_ok; [apply eqb_pp_ok|apply eqb_bool_ok]. Qed.

Lemma pidx_inj l x y : In x l -> In y l -> pidx x l = pidx y l -> x = y.
Proof. apply (gidx_inj _ eqb_pp_ok). Qed.
Lemma tidx_inj l x y : In x l -> In y l -> tidx x l = tidx y l -> x = y.
Proof. apply (gidx_inj _ eqb_ppb_ok). Qed.

(* the fresh state is not a state *)
Lemma fresh_from_notin l : forall fuel k,
  (forall j, j < k -> In j l) -> length l < k + fuel -> ~ In (fresh_from fuel l k) l.
Proof.
  intros fuel. induction fuel as [|f IH]; intros k Hall Hlen; simpl.
  - intro Hin. assert (Hincl : incl (seq 0 k) l).
    { intros j Hj. apply in_seq in Hj. apply Hall. lia. }
    pose proof (NoDup_incl_length (seq_NoDup k 0) Hincl) as Hl. rewrite seq_length in Hl. lia.
  - destruct (memb k l) eqn:E.
    + apply IH; [|lia]. intros j Hj. destruct (Nat.eq_dec j k) as [->|Hne].
      * apply memb_In. exact E.
      * apply Hall. lia.
    + apply memb_false. exact E.
Qed.

Lemma fresh_notin l : ~ In (fresh l) l.
Proof. unfold fresh. apply fresh_from_notin; [intros j Hj; lia|lia]. Qed.

(* ------------------------------------------------------------------ *)
(* paths in a labelled graph over any carrier *)
Section GPath.
  Context {X : Type}.
  Variable E : X -> option nat -> X -> Prop.

  Inductive gpath : X -> word -> X -> Prop :=
  | gp_refl x : gpath x [] x
  | gp_eps x y z w : E x None y -> gpath y w z -> gpath x w z
  | gp_sym x a y z w : E x (Some a) y -> gpath y w z -> gpath x (a :: w) z.

  Lemma gpath_app x u y v z : gpath x u y -> gpath y v z -> gpath x (u ++ v) z.
  Proof.
    intros H1 H2. induction H1 as [x|x y z' w He Hp IH|x a y z' w He Hp IH]; simpl.
    - exact H2.
    - eapply gp_eps; [exact He|apply IH; exact H2].
    - eapply gp_sym; [exact He|apply IH; exact H2].
  Qed.

  Lemma gpath_snoc_eps x w y z : gpath x w y -> E y None z -> gpath x w z.
  Proof.
    intros H He. rewrite <- (app_nil_r w). eapply gpath_app; [exact H|].
    eapply gp_eps; [exact He|apply gp_refl].
  Qed.

  Lemma gpath_snoc_sym x w y a z : gpath x w y -> E y (Some a) z -> gpath x (w ++ [a]) z.
  Proof.
    intros H He. eapply gpath_app; [exact H|]. eapply gp_sym; [exact He|apply gp_refl].
  Qed.

  (* a path over a :: w : empty-string steps, the a-edge, the rest *)
  Lemma gpath_cons_inv x a w z :
    gpath x (a :: w) z -> exists x1 x2, gpath x [] x1 /\ E x1 (Some a) x2 /\ gpath x2 w z.
  Proof.
    intro H. remember (a :: w) as u eqn:Eu. revert a w Eu.
    induction H as [x|x y z u He Hp IH|x b y z u He Hp IH]; intros a w Eu.
    - discriminate.
    - destruct (IH a w Eu) as [x1 [x2 [H1 [H2 H3]]]]. exists x1, x2.
      split; [eapply gp_eps; [exact He|exact H1]|]. split; assumption.
    - inversion Eu; subst. exists x, y. split; [apply gp_refl|]. split; assumption.
  Qed.

  Lemma gpath_nil_inv (P : X -> Prop) x z :
    gpath x [] z -> P x -> (forall y y', P y -> E y None y' -> P y') -> P z.
  Proof.
    intros H. remember (@nil nat) as u eqn:Eu.
    induction H as [x|x y z u He Hp IH|x b y z u He Hp IH]; intros Hx Hstep.
    - exact Hx.
    - apply IH; [exact Eu| |exact Hstep]. eapply Hstep; eassumption.
    - discriminate.
  Qed.
End GPath.

Lemma gpath_mono {X} (E1 E2 : X -> option nat -> X -> Prop) :
  (forall x a y, E1 x a y -> E2 x a y) -> forall x w y, gpath E1 x w y -> gpath E2 x w y.
Proof.
  intros Hm x w y H. induction H as [x|x y z w He Hp IH|x a y z w He Hp IH].
  - apply gp_refl.
  - eapply gp_eps; [apply Hm; exact He|exact IH].
  - eapply gp_sym; [apply Hm; exact He|exact IH].
Qed.

Lemma nfa_path_gpath m p w q : nfa_path m p w q <-> gpath (n_edge m) p w q.
Proof.
  split; intro H.
  - induction H as [q|p q r w He Hp IH|p a q r w He Hp IH].
    + apply gp_refl.
    + eapply gp_eps; eassumption.
    + eapply gp_sym; eassumption.
  - induction H as [q|p q r w He Hp IH|p a q r w He Hp IH].
    + apply np_refl.
    + eapply np_eps; eassumption.
    + eapply np_sym; eassumption.
Qed.

(* simulation: a map between graphs that preserves and reflects edges on an
   invariant set preserves and reflects paths *)
Section Sim.
  Context {X Y : Type}.
  Variable EX : X -> option nat -> X -> Prop.
  Variable EY : Y -> option nat -> Y -> Prop.
  Variable f : X -> Y.
  Variable P : X -> Prop.
  Hypothesis fwd : forall x a x', P x -> EX x a x' -> P x' /\ EY (f x) a (f x').
  Hypothesis bwd : forall x a y, P x -> EY (f x) a y -> exists x', y = f x' /\ EX x a x'.

  Lemma sim_fwd x w x' : P x -> gpath EX x w x' -> P x' /\ gpath EY (f x) w (f x').
  Proof.
    intros Hx H. induction H as [x|x y z w He Hp IH|x a y z w He Hp IH].
    - split; [exact Hx|apply gp_refl].
    - destruct (fwd _ _ _ Hx He) as [Hy HeY]. destruct (IH Hy) as [Hz HpY].
      split; [exact Hz|]. eapply gp_eps; eassumption.
    - destruct (fwd _ _ _ Hx He) as [Hy HeY]. destruct (IH Hy) as [Hz HpY].
      split; [exact Hz|]. eapply gp_sym; eassumption.
  Qed.

  Lemma sim_bwd y0 w y : gpath EY y0 w y -> forall x, P x -> y0 = f x ->
    exists x', y = f x' /\ P x' /\ gpath EX x w x'.
  Proof.
    intro H. induction H as [y0|y0 y1 z w He Hp IH|y0 a y1 z w He Hp IH]; intros x Hx E0; subst.
    - exists x. split; [reflexivity|]. split; [exact Hx|apply gp_refl].
    - destruct (bwd _ _ _ Hx He) as [x1 [E1 He1]]. destruct (fwd _ _ _ Hx He1) as [Hx1 _].
      destruct (IH x1 Hx1 E1) as [x' [Ez [Hx' Hp']]]. exists x'.
      split; [exact Ez|]. split; [exact Hx'|]. eapply gp_eps; eassumption.
    - destruct (bwd _ _ _ Hx He) as [x1 [E1 He1]]. destruct (fwd _ _ _ Hx He1) as [Hx1 _].
      destruct (IH x1 Hx1 E1) as [x' [Ez [Hx' Hp']]]. exists x'.
      split; [exact Ez|]. split; [exact Hx'|]. eapply gp_sym; eassumption.
  Qed.
End Sim.

(* ------------------------------------------------------------------ *)
(* rows *)
Section Rows.
  Context {X : Type}.

  Lemma oassoc_In' {B} k (l : list (option nat * B)) v : oassoc k l = Some v -> In (k, v) l.
  Proof.
    induction l as [|[k' v'] r IH]; simpl; [discriminate|].
    destruct (eqb_opt Nat.eqb k k') eqn:E.
    - apply (eqb_opt_ok _ eqb_nat_ok) in E. subst. intro H. inversion H. left. reflexivity.
    - intro H. right. apply IH. exact H.
  Qed.

  Lemma oassoc_None_keys {B} k (l : list (option nat * B)) : oassoc k l = None <-> ~ In k (map fst l).
  Proof.
    induction l as [|[k' v'] r IH]; simpl; [tauto|].
    destruct (eqb_opt Nat.eqb k k') eqn:E.
    - apply (eqb_opt_ok _ eqb_nat_ok) in E. subst. split; [discriminate|]. intro H. exfalso. apply H. left. reflexivity.
    - apply (eqb_ok_false _ (eqb_opt_ok _ eqb_nat_ok)) in E. rewrite IH. split.
      + intros H [H1|H1]; [congruence|tauto].
      + intros H H1. apply H. right. exact H1.
  Qed.

  Lemma xtg_In (r : xrow X) a y : In y (xtg r a) -> exists l, In (a, l) r /\ In y l.
  Proof.
    unfold xtg. destruct (oassoc a r) as [l|] eqn:E; [|intros []].
    intro H. exists l. split; [apply oassoc_In'; exact E|exact H].
  Qed.

  Lemma xtg_key (r : xrow X) a y : In y (xtg r a) -> In a (map fst r).
  Proof.
    intro H. destruct (xtg_In _ _ _ H) as [l [H1 _]]. apply in_map_iff. exists (a, l). split; [reflexivity|exact H1].
  Qed.

  Lemma has_key_In (r : xrow X) a : has_key r a = true <-> In a (map fst r).
  Proof.
    unfold has_key. destruct (oassoc a r) eqn:E.
    - split; [|reflexivity]. intros _. apply oassoc_In' in E. apply in_map_iff. exists (a, l). split; [reflexivity|exact E].
    - split; [discriminate|]. intro H. apply oassoc_None_keys in E. contradiction.
  Qed.

  Lemma omemb_In a l : existsb (eqb_opt Nat.eqb a) l = true <-> In a l.
  Proof.
    rewrite existsb_exists. split.
    - intros [b [Hb E]]. apply (eqb_opt_ok _ eqb_nat_ok) in E. subst. exact Hb.
    - intro H. exists a. split; [exact H|apply (eqb_opt_ok _ eqb_nat_ok); reflexivity].
  Qed.

  Lemma tab_oassoc keys (F : option nat -> list X) a :
    oassoc a (tab keys F) = if existsb (eqb_opt Nat.eqb a) keys then Some (F a) else None.
  Proof.
    induction keys as [|k keys IH]; simpl; [reflexivity|].
    destruct (eqb_opt Nat.eqb a k) eqn:E; simpl.
    - apply (eqb_opt_ok _ eqb_nat_ok) in E. subst. reflexivity.
    - exact IH.
  Qed.

  Lemma tab_tg keys (F : option nat -> list X) a y :
    In y (xtg (tab keys F) a) <-> In a keys /\ In y (F a).
  Proof.
    unfold xtg. rewrite tab_oassoc. destruct (existsb (eqb_opt Nat.eqb a) keys) eqn:E.
    - apply omemb_In in E. tauto.
    - split; [intros []|]. intros [H _]. apply omemb_In in H. congruence.
  Qed.

  Lemma tab_entry keys (F : option nat -> list X) a l : In (a, l) (tab keys F) -> In a keys /\ l = F a.
  Proof.
    unfold tab. intro H. apply in_map_iff in H. destruct H as [k [E Hk]]. inversion E; subst. auto.
  Qed.

  Lemma tab_keys keys (F : option nat -> list X) : map fst (tab keys F) = keys.
  Proof. unfold tab. rewrite map_map. simpl. apply map_id. Qed.
End Rows.

Lemma xrow_map_oassoc {X Y} (f : X -> Y) (r : xrow X) a :
  oassoc a (xrow_map f r) = option_map (map f) (oassoc a r).
Proof.
  induction r as [|[k v] r IH]; simpl; [reflexivity|].
  destruct (eqb_opt Nat.eqb a k); [reflexivity|exact IH].
Qed.

Lemma xrow_map_tg {X Y} (f : X -> Y) (r : xrow X) a : xtg (xrow_map f r) a = map f (xtg r a).
Proof. unfold xtg. rewrite xrow_map_oassoc. destruct (oassoc a r); reflexivity. Qed.

Lemma xrow_map_entry {X Y} (f : X -> Y) (r : xrow X) a l :
  In (a, l) (xrow_map f r) -> exists l0, In (a, l0) r /\ l = map f l0.
Proof.
  unfold xrow_map. intro H. apply in_map_iff in H. destruct H as [[k v] [E Hk]].
  simpl in E. inversion E; subst. exists v. auto.
Qed.

Lemma n_targets_arow A q a : n_targets A q a = xtg (arow A q) a.
Proof.
  unfold n_targets, arow, tr_row, xtg, row. destruct (assoc q (n_trans A)); reflexivity.
Qed.

(* ------------------------------------------------------------------ *)
(* the numbering [assemble] *)
Section Assemble.
  Context {X : Type}.
  Variable enc : X -> nat.
  Variable xs : list X.
  Variable syms : list nat.
  Variable rowof : X -> option (xrow X).
  Variable x0 : X.
  Variable fin : list X.

  Definition xedge (x : X) (a : option nat) (y : X) : Prop :=
    exists r, rowof x = Some r /\ In y (xtg r a).

  Definition inj_on : Prop := forall x y, In x xs -> In y xs -> enc x = enc y -> x = y.
  Definition rows_ok : Prop :=
    forall x r, In x xs -> rowof x = Some r ->
      forall a l, In (a, l) r -> osym_ok syms a = true /\ incl l xs.

  Hypothesis Hinj : inj_on.

  Let R := assemble enc xs syms rowof x0 fin.
  Let g := fun x => match rowof x with Some r => [(enc x, xrow_map enc r)] | None => [] end.

  Lemma asm_assoc_none k l :
    (forall x, In x l -> enc x = k -> rowof x = None) -> assoc k (flat_map g l) = None.
  Proof.
    induction l as [|a l IH]; intro H; simpl; [reflexivity|].
    unfold g at 1. destruct (rowof a) as [r|] eqn:Er; simpl.
    - destruct (Nat.eqb k (enc a)) eqn:E.
      + apply Nat.eqb_eq in E. rewrite (H a (or_introl eq_refl) (eq_sym E)) in Er. discriminate.
      + apply IH. intros x Hx. apply H. right. exact Hx.
    - apply IH. intros x Hx. apply H. right. exact Hx.
  Qed.

  Lemma asm_assoc l x :
    (forall y, In y l -> enc y = enc x -> y = x) -> In x l ->
    assoc (enc x) (flat_map g l) = option_map (xrow_map enc) (rowof x).
  Proof.
    induction l as [|a l IH]; intros Hi Hx; [destruct Hx|]. simpl.
    unfold g at 1. destruct (rowof a) as [r|] eqn:Er; simpl.
    - destruct (Nat.eqb (enc x) (enc a)) eqn:E.
      + apply Nat.eqb_eq in E. assert (a = x) by (apply Hi; [left; reflexivity|symmetry; exact E]).
        subst. rewrite Er. reflexivity.
      + destruct Hx as [Hx|Hx]; [subst; rewrite Nat.eqb_refl in E; discriminate|].
        apply IH; [|exact Hx]. intros y Hy. apply Hi. right. exact Hy.
    - destruct Hx as [Hx|Hx].
      + subst. rewrite Er. simpl. apply asm_assoc_none. intros y Hy Ey.
        assert (y = x) by (apply Hi; [right; exact Hy|exact Ey]). subst. exact Er.
      + apply IH; [|exact Hx]. intros y Hy. apply Hi. right. exact Hy.
  Qed.

  Lemma asm_targets x a z : In x xs ->
    (In z (n_targets R (enc x) a) <-> exists y, z = enc y /\ xedge x a y).
  Proof.
    intro Hx. unfold n_targets. change (n_trans R) with (flat_map g xs).
    assert (Ha : assoc (enc x) (flat_map g xs) = option_map (xrow_map enc) (rowof x)).
    { apply asm_assoc; [intros y Hy E; apply Hinj; assumption|exact Hx]. }
    unfold xrow in Ha |- *. rewrite Ha. clear Ha.
    unfold xedge. destruct (rowof x) as [r|]; simpl.
    - rewrite xrow_map_oassoc. split.
      + destruct (oassoc a r) as [l|] eqn:E; simpl; [|intros []].
        intro Hz. apply in_map_iff in Hz. destruct Hz as [y [Ey Hy]].
        exists y. split; [auto|]. exists r. split; [reflexivity|]. unfold xtg. rewrite E. exact Hy.
      + intros [y [Ey [r' [Er Hy]]]]. inversion Er; subst r'. unfold xtg in Hy.
        destruct (oassoc a r) as [l|]; simpl; [|destruct Hy]. subst z. apply in_map. exact Hy.
    - split; [intros []|]. intros [y [_ [r [Er _]]]]. discriminate.
  Qed.

  Hypothesis Hrows : rows_ok.

  Lemma xedge_closed x a y : In x xs -> xedge x a y -> In y xs.
  Proof.
    intros Hx [r [Er Hy]]. destruct (xtg_In _ _ _ Hy) as [l [Hl Hyl]].
    destruct (Hrows x r Hx Er a l Hl) as [_ Hincl]. apply Hincl. exact Hyl.
  Qed.

  Lemma asm_path_fwd x w y : In x xs -> gpath xedge x w y -> In y xs /\ nfa_path R (enc x) w (enc y).
  Proof.
    intros Hx H. rewrite nfa_path_gpath.
    apply (sim_fwd xedge (n_edge R) enc (fun x => In x xs)); [|exact Hx|exact H].
    intros x1 a x2 H1 He. split; [eapply xedge_closed; eassumption|].
    unfold n_edge. apply asm_targets; [exact H1|]. exists x2. auto.
  Qed.

  Lemma asm_path_bwd x w z : In x xs -> nfa_path R (enc x) w z ->
    exists y, z = enc y /\ In y xs /\ gpath xedge x w y.
  Proof.
    intros Hx H. rewrite nfa_path_gpath in H.
    apply (sim_bwd xedge (n_edge R) enc (fun x => In x xs)) with (y0 := enc x); auto.
    - intros x1 a x2 H1 He. split; [eapply xedge_closed; eassumption|].
      unfold n_edge. apply asm_targets; [exact H1|]. exists x2. auto.
    - intros x1 a y H1 He. unfold n_edge in He. apply asm_targets in He; [|exact H1]. exact He.
  Qed.

  Hypothesis Hx0 : In x0 xs.
  Hypothesis Hfin : incl fin xs.

  Theorem asm_lang w : L_nfa R w <-> exists y, gpath xedge x0 w y /\ In y fin.
  Proof.
    unfold L_nfa. split.
    - intros [z [Hp Hz]]. unfold R, assemble in Hp, Hz. simpl in Hp, Hz.
      apply asm_path_bwd in Hp; [|exact Hx0]. destruct Hp as [y [Ez [Hy Hp]]].
      apply in_map_iff in Hz. destruct Hz as [y' [Ey' Hy']].
      assert (y' = y) by (apply Hinj; [apply Hfin; exact Hy'|exact Hy|congruence]).
      subst y'. exists y. auto.
    - intros [y [Hp Hy]]. destruct (asm_path_fwd _ _ _ Hx0 Hp) as [_ Hp'].
      exists (enc y). split; [exact Hp'|]. unfold R, assemble. simpl. apply in_map. exact Hy.
  Qed.

  Hypothesis Hnd : NoDup xs.
  Hypothesis Hsyms : NoDup syms.
  Hypothesis Hrow0 : rowof x0 <> None \/ length xs <= 1.

  Lemma asm_keys l k : In k (map fst (flat_map g l)) -> exists x, In x l /\ k = enc x /\ rowof x <> None.
  Proof.
    induction l as [|a l IH]; simpl; [intros []|].
    rewrite map_app, in_app_iff. intros [H|H].
    - unfold g in H. destruct (rowof a) eqn:Er; simpl in H; [|destruct H].
      destruct H as [H|[]]. exists a. split; [left; reflexivity|]. split; [auto|congruence].
    - destruct (IH H) as [x [Hx Hk]]. exists x. split; [right; exact Hx|exact Hk].
  Qed.

  Lemma asm_keys_NoDup l : NoDup l -> incl l xs -> NoDup (map fst (flat_map g l)).
  Proof.
    induction l as [|a l IH]; simpl; intros Hn Hi; [constructor|].
    inversion Hn as [|? ? Hna Hn']; subst. rewrite map_app.
    assert (IH' : NoDup (map fst (flat_map g l))) by (apply IH; [exact Hn'|intros y Hy; apply Hi; right; exact Hy]).
    unfold g at 1. destruct (rowof a); simpl; [|exact IH'].
    constructor; [|exact IH']. intro Hin. apply asm_keys in Hin. destruct Hin as [x' [Hx' [Ek _]]].
    assert (x' = a) by (apply Hinj; [apply Hi; right; exact Hx'|apply Hi; left; reflexivity|auto]).
    subst. contradiction.
  Qed.

  Theorem asm_valid : valid_nfa R = true.
  Proof.
    unfold valid_nfa, R, assemble. simpl. fold g. repeat rewrite andb_true_iff. repeat split.
    - apply nodupb_NoDup. apply NoDup_map_on; [exact Hnd|exact Hinj].
    - apply nodupb_NoDup. exact Hsyms.
    - apply nodupb_NoDup. apply asm_keys_NoDup; [exact Hnd|apply incl_refl].
    - apply forallb_forall. intros [k row] Hin. simpl.
      apply in_flat_map in Hin. destruct Hin as [x [Hx Hin]]. unfold g in Hin.
      destruct (rowof x) as [r|] eqn:Er; [|destruct Hin]. destruct Hin as [Hin|[]]. inversion Hin; subst.
      unfold nrow_ok. simpl. apply forallb_forall. intros [a l] Hal.
      apply xrow_map_entry in Hal. destruct Hal as [l0 [Hl0 ->]].
      destruct (Hrows x r Hx Er a l0 Hl0) as [Hs Hincl]. simpl. apply andb_true_iff. split.
      + unfold osym_ok in Hs. exact Hs.
      + apply subsetb_incl. intros z Hz. apply in_map_iff in Hz. destruct Hz as [y [<- Hy]].
        apply in_map. apply Hincl. exact Hy.
    - apply memb_In. apply in_map. exact Hx0.
    - apply orb_true_iff. destruct Hrow0 as [H|H].
      + left. apply memb_In. destruct (rowof x0) as [r|] eqn:Er; [|congruence].
        apply in_map_iff. exists (enc x0, xrow_map enc r). split; [reflexivity|].
        apply in_flat_map. exists x0. split; [exact Hx0|]. unfold g. rewrite Er. left. reflexivity.
      + right. apply Nat.leb_le. rewrite map_length. exact H.
    - apply subsetb_incl. intros z Hz. apply in_map_iff in Hz. destruct Hz as [y [<- Hy]].
      apply in_map. apply Hfin. exact Hy.
  Qed.
End Assemble.

Lemma check_nfa_ok m : valid_nfa m = true -> check_nfa m = Ok m.
Proof. intro H. unfold check_nfa. rewrite H. reflexivity. Qed.

Lemma check_nfa_inv m r : check_nfa m = Ok r -> r = m /\ valid_nfa m = true.
Proof. unfold check_nfa. destruct (valid_nfa m); [|discriminate]. intro H. inversion H. auto. Qed.

(* ------------------------------------------------------------------ *)
(* facts about a valid operand *)
Section Operand.
  Variable A : nfa.
  Hypothesis Hv : valid_nfa A = true.

  Lemma ops_valid_parts :
    NoDup (n_states A) /\ NoDup (n_syms A) /\ NoDup (map fst (n_trans A)) /\
    (forall q r, In (q, r) (n_trans A) -> forall a l, In (a, l) r ->
        osym_ok (n_syms A) a = true /\ incl l (n_states A)) /\
    In (n_init A) (n_states A) /\
    (In (n_init A) (map fst (n_trans A)) \/ length (n_states A) <= 1) /\
    incl (n_finals A) (n_states A).
  Proof.
    unfold valid_nfa in Hv. repeat rewrite andb_true_iff in Hv.
    destruct Hv as [[[[[[H1 H2] H3] H4] H5] H6] H7].
    split; [apply nodupb_NoDup; exact H1|]. split; [apply nodupb_NoDup; exact H2|].
    split; [apply nodupb_NoDup; exact H3|]. split.
    - intros q r Hin a l Hal. rewrite forallb_forall in H4. specialize (H4 _ Hin). simpl in H4.
      unfold nrow_ok in H4. rewrite forallb_forall in H4. specialize (H4 _ Hal). simpl in H4.
      apply andb_true_iff in H4. destruct H4 as [Ha Hl]. split; [exact Ha|apply subsetb_incl; exact Hl].
    - split; [apply memb_In; exact H5|]. split; [|apply subsetb_incl; exact H7].
      apply orb_true_iff in H6. destruct H6 as [H6|H6]; [left; apply memb_In; exact H6|right; apply Nat.leb_le; exact H6].
  Qed.

  Lemma arow_entry q a l : In (a, l) (arow A q) -> osym_ok (n_syms A) a = true /\ incl l (n_states A).
  Proof.
    unfold arow, tr_row, row. destruct (assoc q (n_trans A)) as [r|] eqn:E; [|intros []].
    intro H. destruct ops_valid_parts as (_ & _ & _ & Hr & _). apply assoc_In in E. eapply Hr; eassumption.
  Qed.

  Lemma arow_assoc q r : assoc q (n_trans A) = Some r -> arow A q = r.
  Proof. intro H. unfold arow, tr_row. unfold row. rewrite H. reflexivity. Qed.

  Lemma edge_in_states q a t : n_edge A q a t -> In t (n_states A).
  Proof.
    unfold n_edge. rewrite n_targets_arow. intro H. destruct (xtg_In _ _ _ H) as [l [Hl Ht]].
    destruct (arow_entry _ _ _ Hl) as [_ Hi]. apply Hi. exact Ht.
  Qed.

  Lemma edge_sym_ok q a t : n_edge A q a t -> osym_ok (n_syms A) a = true.
  Proof.
    unfold n_edge. rewrite n_targets_arow. intro H. destruct (xtg_In _ _ _ H) as [l [Hl Ht]].
    destruct (arow_entry _ _ _ Hl) as [Hs _]. exact Hs.
  Qed.

  Lemma path_in_states q w t : In q (n_states A) -> nfa_path A q w t -> In t (n_states A).
  Proof.
    intros Hq H. induction H as [q|p q r w He Hp IH|p a q r w He Hp IH]; [exact Hq| |].
    - apply IH. eapply edge_in_states. exact He.
    - apply IH. eapply edge_in_states. exact He.
  Qed.

  Lemma lookups_ok_valid : lookups_ok A = true.
  Proof.
    destruct ops_valid_parts as (_ & _ & _ & Hr & Hi & _ & Hf).
    unfold lookups_ok. repeat rewrite andb_true_iff. split; [split|].
    - apply forallb_forall. intros [q r] Hin. simpl. apply orb_true_iff. right.
      apply forallb_forall. intros [a l] Hal. simpl. apply subsetb_incl. eapply Hr; eassumption.
    - apply memb_In. exact Hi.
    - apply subsetb_incl. exact Hf.
  Qed.
End Operand.

Lemma usyms_l A B a : osym_ok (n_syms A) a = true -> osym_ok (usyms A B) a = true.
Proof.
  destruct a as [s|]; simpl; [|reflexivity]. intro H. apply memb_In. apply memb_In in H.
  unfold usyms. apply set_of_In. apply in_or_app. left. exact H.
Qed.
Lemma usyms_r A B a : osym_ok (n_syms B) a = true -> osym_ok (usyms A B) a = true.
Proof.
  destruct a as [s|]; simpl; [|reflexivity]. intro H. apply memb_In. apply memb_In in H.
  unfold usyms. apply set_of_In. apply in_or_app. right. exact H.
Qed.
Lemma usyms_NoDup A B : NoDup (usyms A B).
Proof. apply set_of_NoDup. Qed.

Lemma NoDup_app_intro {X} (l m : list X) :
  NoDup l -> NoDup m -> (forall x, In x l -> In x m -> False) -> NoDup (l ++ m).
Proof.
  intros Hl Hm Hd. induction l as [|a l IH]; simpl; [exact Hm|].
  inversion Hl as [|? ? Hna Hl']; subst. constructor.
  - intro H. apply in_app_or in H. destruct H as [H|H]; [contradiction|].
    apply (Hd a); [left; reflexivity|exact H].
  - apply IH; [exact Hl'|]. intros x Hx. apply Hd. right. exact Hx.
Qed.

Lemma NoDup_map_pair {T} (t : T) (l : list nat) : NoDup l -> NoDup (map (pair t) l).
Proof. intro H. apply NoDup_map_on; [exact H|]. intros x y _ _ E. inversion E. reflexivity. Qed.

(* paths inside an embedded copy of an operand *)
Section Embed.
  Context {X : Type}.
  Variable A : nfa.
  Variable EX : X -> option nat -> X -> Prop.
  Variable f : nat -> X.
  Hypothesis Hedge : forall q a y, EX (f q) a y <-> exists q', y = f q' /\ n_edge A q a q'.

  Lemma embed_fwd q w q' : nfa_path A q w q' -> gpath EX (f q) w (f q').
  Proof.
    intro H. rewrite nfa_path_gpath in H.
    apply (sim_fwd (n_edge A) EX f (fun _ => True)); [|exact I|exact H].
    intros x a x' _ He. split; [exact I|]. apply Hedge. exists x'. auto.
  Qed.

  Lemma embed_bwd q w y : gpath EX (f q) w y -> exists q', y = f q' /\ nfa_path A q w q'.
  Proof.
    intro H.
    destruct (sim_bwd (n_edge A) EX f (fun _ => True)) with (y0 := f q) (w := w) (y := y) (x := q)
      as [q' [E [_ Hp]]]; auto.
    - intros x a x' _ He. split; [exact I|]. apply Hedge. exists x'. auto.
    - intros x a y' _ He. apply Hedge in He. exact He.
    - exists q'. split; [exact E|]. apply nfa_path_gpath. exact Hp.
  Qed.
End Embed.

(* ------------------------------------------------------------------ *)
Section Union.
  Variables A B : nfa.
  Hypothesis HvA : valid_nfa A = true.
  Hypothesis HvB : valid_nfa B = true.

  Let xs := union_xs A B.
  Let enc := fun x => pidx x xs.
  Let EU := xedge (union_rowof A B).

  Lemma union_edge1 q a y : EU (1, q) a y <-> exists q', y = (1, q') /\ n_edge A q a q'.
  Proof.
    unfold EU, xedge, union_rowof, n_edge. simpl. rewrite n_targets_arow. split.
    - intros [r [Er Hy]]. inversion Er; subst r. rewrite xrow_map_tg in Hy.
      apply in_map_iff in Hy. destruct Hy as [q' [E Hq']]. exists q'. auto.
    - intros [q' [-> Hq']]. eexists. split; [reflexivity|]. rewrite xrow_map_tg. apply in_map. exact Hq'.
  Qed.

  Lemma union_edge2 q a y : EU (2, q) a y <-> exists q', y = (2, q') /\ n_edge B q a q'.
  Proof.
    unfold EU, xedge, union_rowof, n_edge. simpl. rewrite n_targets_arow. split.
    - intros [r [Er Hy]]. inversion Er; subst r. rewrite xrow_map_tg in Hy.
      apply in_map_iff in Hy. destruct Hy as [q' [E Hq']]. exists q'. auto.
    - intros [q' [-> Hq']]. eexists. split; [reflexivity|]. rewrite xrow_map_tg. apply in_map. exact Hq'.
  Qed.

  Lemma union_edge0 k a y : EU (0, k) a y <-> a = None /\ (y = (1, n_init A) \/ y = (2, n_init B)).
  Proof.
    unfold EU, xedge, union_rowof. simpl. split.
    - intros [r [Er Hy]]. inversion Er; subst r. unfold xtg in Hy. simpl in Hy.
      destruct a as [s|]; simpl in Hy; [destruct Hy|].
      split; [reflexivity|]. destruct Hy as [Hy|[Hy|[]]]; auto.
    - intros [-> Hy]. eexists. split; [reflexivity|]. unfold xtg. simpl.
      destruct Hy as [->| ->]; [left|right; left]; reflexivity.
  Qed.

  Lemma union_xs_NoDup : NoDup xs.
  Proof.
    destruct (ops_valid_parts A HvA) as (HnA & _). destruct (ops_valid_parts B HvB) as (HnB & _).
    unfold xs, union_xs. constructor.
    - intro H. apply in_app_or in H. destruct H as [H|H]; apply in_map_iff in H; destruct H as [q [E _]]; discriminate.
    - apply NoDup_app_intro; [apply NoDup_map_pair; exact HnA|apply NoDup_map_pair; exact HnB|].
      intros x H1 H2. apply in_map_iff in H1. apply in_map_iff in H2.
      destruct H1 as [q1 [<- _]]. destruct H2 as [q2 [E _]]. discriminate.
  Qed.

  Lemma union_in1 q : In q (n_states A) -> In (1, q) xs.
  Proof. intro H. unfold xs, union_xs. right. apply in_or_app. left. apply in_map. exact H. Qed.
  Lemma union_in2 q : In q (n_states B) -> In (2, q) xs.
  Proof. intro H. unfold xs, union_xs. right. apply in_or_app. right. apply in_map. exact H. Qed.

  Lemma union_xs_inv x : In x xs ->
    x = (0, 0) \/ (exists q, x = (1, q) /\ In q (n_states A)) \/ (exists q, x = (2, q) /\ In q (n_states B)).
  Proof.
    unfold xs, union_xs. intros [H|H]; [left; auto|]. right.
    apply in_app_or in H. destruct H as [H|H]; apply in_map_iff in H; destruct H as [q [E Hq]]; [left|right]; exists q; auto.
  Qed.

  Lemma union_rows_ok : rows_ok xs (usyms A B) (union_rowof A B).
  Proof.
    destruct (ops_valid_parts A HvA) as (_ & _ & _ & _ & HiA & _).
    destruct (ops_valid_parts B HvB) as (_ & _ & _ & _ & HiB & _).
    intros x r Hx Er a l Hal.
    destruct (union_xs_inv x Hx) as [->|[[q [-> Hq]]|[q [-> Hq]]]]; unfold union_rowof in Er; simpl in Er;
      inversion Er; subst r; clear Er.
    - destruct Hal as [Hal|[]]. inversion Hal; subst. split; [reflexivity|].
      intros z [<-|[<-|[]]]; [apply union_in1; exact HiA|apply union_in2; exact HiB].
    - apply xrow_map_entry in Hal. destruct Hal as [l0 [Hl0 ->]].
      destruct (arow_entry A HvA _ _ _ Hl0) as [Hs Hi]. split; [apply usyms_l; exact Hs|].
      intros z Hz. apply in_map_iff in Hz. destruct Hz as [t [<- Ht]]. apply union_in1. apply Hi. exact Ht.
    - apply xrow_map_entry in Hal. destruct Hal as [l0 [Hl0 ->]].
      destruct (arow_entry B HvB _ _ _ Hl0) as [Hs Hi]. split; [apply usyms_r; exact Hs|].
      intros z Hz. apply in_map_iff in Hz. destruct Hz as [t [<- Ht]]. apply union_in2. apply Hi. exact Ht.
  Qed.

  Lemma union_fin_incl : incl (union_fin A B) xs.
  Proof.
    destruct (ops_valid_parts A HvA) as (_ & _ & _ & _ & _ & _ & HfA).
    destruct (ops_valid_parts B HvB) as (_ & _ & _ & _ & _ & _ & HfB).
    intros z Hz. unfold union_fin in Hz. apply in_app_or in Hz.
    destruct Hz as [Hz|Hz]; apply in_map_iff in Hz; destruct Hz as [q [<- Hq]];
      [apply union_in1; apply HfA|apply union_in2; apply HfB]; exact Hq.
  Qed.

  Lemma union_pre_valid : valid_nfa (union_pre A B) = true.
  Proof.
    unfold union_pre. apply asm_valid.
    - intros x y. apply pidx_inj.
    - apply union_rows_ok.
    - left. reflexivity.
    - apply union_fin_incl.
    - apply union_xs_NoDup.
    - apply usyms_NoDup.
    - left. discriminate.
  Qed.

  Lemma union_pre_lang : L_nfa (union_pre A B) =L l_union (L_nfa A) (L_nfa B).
  Proof.
    intro w. unfold union_pre. rewrite asm_lang.
    2: intros x y; apply pidx_inj. 2: apply union_rows_ok. 2: left; reflexivity. 2: apply union_fin_incl.
    fold EU. unfold l_union, L_nfa. split.
    - intros [y [Hp Hy]]. inversion Hp as [x|x y1 z w' He Hp'|x a y1 z w' He Hp']; subst.
      + exfalso. unfold union_fin in Hy. apply in_app_or in Hy.
        destruct Hy as [Hy|Hy]; apply in_map_iff in Hy; destruct Hy as [q [E _]]; discriminate.
      + apply union_edge0 in He. destruct He as [_ [->| ->]].
        * left. apply (embed_bwd A EU (pair 1) union_edge1) in Hp'. destruct Hp' as [q' [-> Hq']].
          exists q'. split; [exact Hq'|]. unfold union_fin in Hy. apply in_app_or in Hy.
          destruct Hy as [Hy|Hy]; apply in_map_iff in Hy; destruct Hy as [q [E Hq]]; inversion E; subst; exact Hq.
        * right. apply (embed_bwd B EU (pair 2) union_edge2) in Hp'. destruct Hp' as [q' [-> Hq']].
          exists q'. split; [exact Hq'|]. unfold union_fin in Hy. apply in_app_or in Hy.
          destruct Hy as [Hy|Hy]; apply in_map_iff in Hy; destruct Hy as [q [E Hq]]; inversion E; subst; exact Hq.
      + apply union_edge0 in He. destruct He as [He _]. discriminate.
    - intros [[q [Hp Hq]]|[q [Hp Hq]]].
      + exists (1, q). split.
        * eapply gp_eps; [apply union_edge0; split; [reflexivity|left; reflexivity]|].
          apply (embed_fwd A EU (pair 1) union_edge1). exact Hp.
        * unfold union_fin. apply in_or_app. left. apply in_map. exact Hq.
      + exists (2, q). split.
        * eapply gp_eps; [apply union_edge0; split; [reflexivity|right; reflexivity]|].
          apply (embed_fwd B EU (pair 2) union_edge2). exact Hp.
        * unfold union_fin. apply in_or_app. right. apply in_map. exact Hq.
  Qed.

  Theorem ops_union_total : exists R, nfa_union A B = Ok R /\ valid_nfa R = true.
  Proof.
    exists (union_pre A B). split; [|apply union_pre_valid].
    unfold nfa_union. rewrite (lookups_ok_valid A HvA), (lookups_ok_valid B HvB). simpl.
    apply check_nfa_ok. apply union_pre_valid.
  Qed.

  Theorem ops_union_lang R : nfa_union A B = Ok R -> L_nfa R =L l_union (L_nfa A) (L_nfa B).
  Proof.
    unfold nfa_union. destruct (lookups_ok A && lookups_ok B); [|discriminate].
    intro H. apply check_nfa_inv in H. destruct H as [-> _]. apply union_pre_lang.
  Qed.
End Union.

(* ------------------------------------------------------------------ *)
Section Concat.
  Variables A B : nfa.
  Hypothesis HvA : valid_nfa A = true.
  Hypothesis HvB : valid_nfa B = true.

  Let xs := concat_xs A B.
  Let EC := xedge (concat_rowof A B).

  Lemma concat_edge2 q a y : EC (2, q) a y <-> exists q', y = (2, q') /\ n_edge B q a q'.
  Proof.
    unfold EC, xedge, concat_rowof, n_edge. simpl. rewrite n_targets_arow. split.
    - intros [r [Er Hy]]. inversion Er; subst r. rewrite xrow_map_tg in Hy.
      apply in_map_iff in Hy. destruct Hy as [q' [E Hq']]. exists q'. auto.
    - intros [q' [-> Hq']]. eexists. split; [reflexivity|]. rewrite xrow_map_tg. apply in_map. exact Hq'.
  Qed.

  Lemma concat_edge1 q a y :
    EC (1, q) a y <-> (exists q', y = (1, q') /\ n_edge A q a q') \/
                      (a = None /\ In q (n_finals A) /\ y = (2, n_init B)).
  Proof.
    unfold EC, xedge, concat_rowof, n_edge. simpl. rewrite n_targets_arow.
    destruct (memb q (n_finals A)) eqn:Ef.
    - apply memb_In in Ef. split.
      + intros [r [Er Hy]]. inversion Er; subst r. apply tab_tg in Hy. destruct Hy as [_ Hy].
        apply in_app_or in Hy. destruct Hy as [Hy|Hy].
        * left. apply in_map_iff in Hy. destruct Hy as [q' [E Hq']]. exists q'. auto.
        * right. destruct a as [s|]; [destruct Hy|]. destruct Hy as [Hy|[]]. auto.
      + intros [[q' [-> Hq']]|[-> [_ ->]]]; (eexists; split; [reflexivity|]); apply tab_tg.
        * split; [apply in_or_app; left; eapply xtg_key; exact Hq'|].
          apply in_or_app. left. apply in_map. exact Hq'.
        * split; [apply in_or_app; right; left; reflexivity|]. apply in_or_app. right. left. reflexivity.
    - apply memb_false in Ef. split.
      + intros [r [Er Hy]]. inversion Er; subst r. rewrite xrow_map_tg in Hy.
        apply in_map_iff in Hy. destruct Hy as [q' [E Hq']]. left. exists q'. auto.
      + intros [[q' [-> Hq']]|[_ [Hf _]]]; [|contradiction].
        eexists. split; [reflexivity|]. rewrite xrow_map_tg. apply in_map. exact Hq'.
  Qed.

  Lemma concat_path1 x w y : gpath EC x w y -> forall p, x = (1, p) ->
    (exists q, y = (1, q) /\ nfa_path A p w q) \/
    (exists u v f q, w = u ++ v /\ nfa_path A p u f /\ In f (n_finals A) /\
                     nfa_path B (n_init B) v q /\ y = (2, q)).
  Proof.
    intro H. induction H as [x|x y1 z w He Hp IH|x a y1 z w He Hp IH]; intros p Ex; subst x.
    - left. exists p. split; [reflexivity|apply np_refl].
    - apply concat_edge1 in He. destruct He as [[q' [-> He]]|[_ [Hf ->]]].
      + destruct (IH q' eq_refl) as [[q [-> Hq]]|[u [v [f [q [-> [Hu [Hf [Hv ->]]]]]]]]].
        * left. exists q. split; [reflexivity|]. eapply np_eps; eassumption.
        * right. exists u, v, f, q. repeat split; auto. eapply np_eps; eassumption.
      + apply (embed_bwd B EC (pair 2) concat_edge2) in Hp. destruct Hp as [q [-> Hq]].
        right. exists [], w, p, q. repeat split; auto. apply np_refl.
    - apply concat_edge1 in He. destruct He as [[q' [-> He]]|[Ha _]]; [|discriminate].
      destruct (IH q' eq_refl) as [[q [-> Hq]]|[u [v [f [q [-> [Hu [Hf [Hv ->]]]]]]]]].
      + left. exists q. split; [reflexivity|]. eapply np_sym; eassumption.
      + right. exists (a :: u), v, f, q. repeat split; auto. eapply np_sym; eassumption.
  Qed.

  Lemma concat_path_fwd p u f : nfa_path A p u f -> gpath EC (1, p) u (1, f).
  Proof.
    intro H. rewrite nfa_path_gpath in H.
    apply (sim_fwd (n_edge A) EC (pair 1) (fun _ => True)); [|exact I|exact H].
    intros x a x' _ He. split; [exact I|]. apply concat_edge1. left. exists x'. auto.
  Qed.

  Lemma concat_in1 q : In q (n_states A) -> In (1, q) xs.
  Proof. intro H. unfold xs, concat_xs. apply in_or_app. left. apply in_map. exact H. Qed.
  Lemma concat_in2 q : In q (n_states B) -> In (2, q) xs.
  Proof. intro H. unfold xs, concat_xs. apply in_or_app. right. apply in_map. exact H. Qed.

  Lemma concat_xs_inv x : In x xs ->
    (exists q, x = (1, q) /\ In q (n_states A)) \/ (exists q, x = (2, q) /\ In q (n_states B)).
  Proof.
    unfold xs, concat_xs. intro H.
    apply in_app_or in H. destruct H as [H|H]; apply in_map_iff in H; destruct H as [q [E Hq]]; [left|right]; exists q; auto.
  Qed.

  Lemma concat_xs_NoDup : NoDup xs.
  Proof.
    destruct (ops_valid_parts A HvA) as (HnA & _). destruct (ops_valid_parts B HvB) as (HnB & _).
    unfold xs, concat_xs.
    apply NoDup_app_intro; [apply NoDup_map_pair; exact HnA|apply NoDup_map_pair; exact HnB|].
    intros x H1 H2. apply in_map_iff in H1. apply in_map_iff in H2.
    destruct H1 as [q1 [<- _]]. destruct H2 as [q2 [E _]]. discriminate.
  Qed.

  Lemma concat_rows_ok : rows_ok xs (usyms A B) (concat_rowof A B).
  Proof.
    destruct (ops_valid_parts B HvB) as (_ & _ & _ & _ & HiB & _).
    intros x r Hx Er a l Hal.
    destruct (concat_xs_inv x Hx) as [[q [-> Hq]]|[q [-> Hq]]]; unfold concat_rowof in Er; simpl in Er;
      inversion Er; subst r; clear Er.
    - destruct (memb q (n_finals A)).
      + apply tab_entry in Hal. destruct Hal as [Hk ->]. split.
        * apply in_app_or in Hk. destruct Hk as [Hk|[<-|[]]]; [|reflexivity].
          apply in_map_iff in Hk. destruct Hk as [[a' l0] [Ea Hl0]]. simpl in Ea. subst a'.
          apply usyms_l. eapply arow_entry; eassumption.
        * intros z Hz. apply in_app_or in Hz. destruct Hz as [Hz|Hz].
          -- apply in_map_iff in Hz. destruct Hz as [t [<- Ht]]. apply concat_in1.
             destruct (xtg_In _ _ _ Ht) as [l0 [Hl0 Htl]]. destruct (arow_entry A HvA _ _ _ Hl0) as [_ Hi]. apply Hi. exact Htl.
          -- destruct a as [s|]; [destruct Hz|]. destruct Hz as [<-|[]]. apply concat_in2. exact HiB.
      + apply xrow_map_entry in Hal. destruct Hal as [l0 [Hl0 ->]].
        destruct (arow_entry A HvA _ _ _ Hl0) as [Hs Hi]. split; [apply usyms_l; exact Hs|].
        intros z Hz. apply in_map_iff in Hz. destruct Hz as [t [<- Ht]]. apply concat_in1. apply Hi. exact Ht.
    - apply xrow_map_entry in Hal. destruct Hal as [l0 [Hl0 ->]].
      destruct (arow_entry B HvB _ _ _ Hl0) as [Hs Hi]. split; [apply usyms_r; exact Hs|].
      intros z Hz. apply in_map_iff in Hz. destruct Hz as [t [<- Ht]]. apply concat_in2. apply Hi. exact Ht.
  Qed.

  Lemma concat_x0 : In (1, n_init A) xs.
  Proof. destruct (ops_valid_parts A HvA) as (_ & _ & _ & _ & HiA & _). apply concat_in1. exact HiA. Qed.

  Lemma concat_fin_incl : incl (map (pair 2) (n_finals B)) xs.
  Proof.
    destruct (ops_valid_parts B HvB) as (_ & _ & _ & _ & _ & _ & HfB).
    intros z Hz. apply in_map_iff in Hz. destruct Hz as [q [<- Hq]]. apply concat_in2. apply HfB. exact Hq.
  Qed.

  Lemma concat_pre_valid : valid_nfa (concat_pre A B) = true.
  Proof.
    unfold concat_pre. apply asm_valid.
    - intros x y. apply pidx_inj.
    - apply concat_rows_ok.
    - apply concat_x0.
    - apply concat_fin_incl.
    - apply concat_xs_NoDup.
    - apply usyms_NoDup.
    - left. unfold concat_rowof. simpl. discriminate.
  Qed.

  Lemma concat_pre_lang : L_nfa (concat_pre A B) =L l_cat (L_nfa A) (L_nfa B).
  Proof.
    intro w. unfold concat_pre. rewrite asm_lang.
    2: intros x y; apply pidx_inj. 2: apply concat_rows_ok. 2: apply concat_x0. 2: apply concat_fin_incl.
    fold EC. unfold l_cat, L_nfa. split.
    - intros [y [Hp Hy]]. apply in_map_iff in Hy. destruct Hy as [qf [<- Hqf]].
      destruct (concat_path1 _ _ _ Hp (n_init A) eq_refl) as [[q [E _]]|[u [v [f [q [-> [Hu [Hf [Hv E]]]]]]]]]; [discriminate|].
      inversion E; subst q. exists u, v. split; [reflexivity|]. split; [exists f; auto|exists qf; auto].
    - intros [u [v [-> [[f [Hu Hf]] [q [Hv Hq]]]]]]. exists (2, q). split; [|apply in_map; exact Hq].
      eapply gpath_app; [apply concat_path_fwd; exact Hu|].
      eapply gp_eps; [apply concat_edge1; right; auto|].
      apply (embed_fwd B EC (pair 2) concat_edge2). exact Hv.
  Qed.

  Theorem ops_concat_total : exists R, nfa_concat A B = Ok R /\ valid_nfa R = true.
  Proof.
    exists (concat_pre A B). split; [|apply concat_pre_valid].
    unfold nfa_concat. rewrite (lookups_ok_valid A HvA), (lookups_ok_valid B HvB). simpl.
    apply check_nfa_ok. apply concat_pre_valid.
  Qed.

  Theorem ops_concat_lang R : nfa_concat A B = Ok R -> L_nfa R =L l_cat (L_nfa A) (L_nfa B).
  Proof.
    unfold nfa_concat. destruct (lookups_ok A && lookups_ok B); [|discriminate].
    intro H. apply check_nfa_inv in H. destruct H as [-> _]. apply concat_pre_lang.
  Qed.
End Concat.

(* ------------------------------------------------------------------ *)
(* star, option, reverse: original names plus one fresh state *)
Lemma edge_assoc A x a y :
  n_edge A x a y <-> exists r, assoc x (n_trans A) = Some r /\ In y (xtg r a).
Proof.
  unfold n_edge, n_targets, xtg. destruct (assoc x (n_trans A)) as [r|]; split.
  - intro H. exists r. auto.
  - intros [r' [E H]]. inversion E; subst. exact H.
  - intros [].
  - intros [r' [E _]]. discriminate.
Qed.

Lemma idn_inj (l : list nat) : inj_on idn l.
Proof. intros x y _ _ E. exact E. Qed.

Section Fresh.
  Variable A : nfa.
  Hypothesis Hv : valid_nfa A = true.
  Let n := fresh (n_states A).
  Let xs := n_states A ++ [n].

  Lemma fr_notin q : In q (n_states A) -> q <> n.
  Proof. intros Hq E. subst q. apply (fresh_notin (n_states A)). exact Hq. Qed.

  Lemma fr_neqb q : In q (n_states A) -> Nat.eqb q n = false.
  Proof. intro Hq. apply Nat.eqb_neq. apply fr_notin. exact Hq. Qed.

  Lemma fr_NoDup : NoDup xs.
  Proof.
    destruct (ops_valid_parts A Hv) as (Hn & _). unfold xs.
    apply NoDup_app_intro; [exact Hn|constructor; [intros []|constructor]|].
    intros x Hx [<-|[]]. apply (fresh_notin (n_states A)). exact Hx.
  Qed.

  Lemma fr_in q : In q (n_states A) -> In q xs.
  Proof. intro H. unfold xs. apply in_or_app. left. exact H. Qed.
  Lemma fr_in_n : In n xs.
  Proof. unfold xs. apply in_or_app. right. left. reflexivity. Qed.
  Lemma fr_inv x : In x xs -> In x (n_states A) \/ x = n.
  Proof. unfold xs. intro H. apply in_app_or in H. destruct H as [H|[H|[]]]; auto. Qed.

  Lemma fr_init : In (n_init A) (n_states A).
  Proof. destruct (ops_valid_parts A Hv) as (_ & _ & _ & _ & Hi & _). exact Hi. Qed.
  Lemma fr_finals : incl (n_finals A) (n_states A).
  Proof. destruct (ops_valid_parts A Hv) as (_ & _ & _ & _ & _ & _ & Hf). exact Hf. Qed.

  Lemma fr_fin_incl : incl (n_finals A ++ [n]) xs.
  Proof.
    intros z Hz. apply in_app_or in Hz. destruct Hz as [Hz|[<-|[]]]; [apply fr_in; apply fr_finals; exact Hz|apply fr_in_n].
  Qed.

  Lemma assoc_rows_ok x r a l : assoc x (n_trans A) = Some r -> In (a, l) r ->
    osym_ok (n_syms A) a = true /\ incl l xs.
  Proof.
    intros E Hal. destruct (ops_valid_parts A Hv) as (_ & _ & _ & Hr & _). apply assoc_In in E.
    destruct (Hr _ _ E _ _ Hal) as [Hs Hi]. split; [exact Hs|]. intros z Hz. apply fr_in. apply Hi. exact Hz.
  Qed.

  (* ---------------- option ---------------- *)
  Let EO := xedge (option_rowof A n).

  Lemma option_edge_n a y : EO n a y <-> a = None /\ y = n_init A.
  Proof.
    unfold EO, xedge, option_rowof. rewrite Nat.eqb_refl. split.
    - intros [r [Er Hy]]. inversion Er; subst r. unfold xtg in Hy. destruct a as [s|]; simpl in Hy; [destruct Hy|].
      destruct Hy as [Hy|[]]. auto.
    - intros [-> ->]. eexists. split; [reflexivity|]. unfold xtg. simpl. left. reflexivity.
  Qed.

  Lemma option_edge q a y : In q (n_states A) -> (EO q a y <-> n_edge A q a y).
  Proof.
    intro Hq. unfold EO, xedge, option_rowof. rewrite (fr_neqb q Hq). rewrite edge_assoc. tauto.
  Qed.

  Lemma option_path q w y : In q (n_states A) -> (gpath EO q w y <-> nfa_path A q w y).
  Proof.
    intro Hq. rewrite nfa_path_gpath. split; intro H.
    - destruct (sim_bwd (n_edge A) EO idn (fun x => In x (n_states A))) with (y0 := q) (w := w) (y := y) (x := q)
        as [q' [E [_ Hp]]]; auto.
      + intros x a x' Hx He. split; [eapply edge_in_states; eassumption|]. apply option_edge; assumption.
      + intros x a y' Hx He. exists y'. split; [reflexivity|]. apply option_edge in He; assumption.
      + unfold idn in E. subst. exact Hp.
    - apply (sim_fwd (n_edge A) EO idn (fun x => In x (n_states A))) in H; [apply H| |exact Hq].
      intros x a x' Hx He. split; [eapply edge_in_states; eassumption|]. apply option_edge; assumption.
  Qed.

  Lemma option_rows_ok : rows_ok xs (n_syms A) (option_rowof A n).
  Proof.
    intros x r Hx Er a l Hal. unfold option_rowof in Er. destruct (Nat.eqb x n).
    - inversion Er; subst r. destruct Hal as [Hal|[]]. inversion Hal; subst. split; [reflexivity|].
      intros z [<-|[]]. apply fr_in. apply fr_init.
    - eapply assoc_rows_ok; eassumption.
  Qed.

  Lemma option_pre_valid : valid_nfa (option_pre A) = true.
  Proof.
    unfold option_pre. apply asm_valid.
    - apply idn_inj.
    - apply option_rows_ok.
    - apply fr_in_n.
    - apply fr_fin_incl.
    - apply fr_NoDup.
    - destruct (ops_valid_parts A Hv) as (_ & Hs & _). exact Hs.
    - left. unfold option_rowof. fold n. rewrite Nat.eqb_refl. discriminate.
  Qed.

  Lemma option_pre_lang : L_nfa (option_pre A) =L l_opt (L_nfa A).
  Proof.
    intro w. unfold option_pre. rewrite asm_lang.
    2: apply idn_inj. 2: apply option_rows_ok. 2: apply fr_in_n. 2: apply fr_fin_incl.
    fold n. fold EO. unfold l_opt, L_nfa. split.
    - intros [y [Hp Hy]]. inversion Hp as [x|x y1 z w' He Hp'|x a y1 z w' He Hp']; subst.
      + left. reflexivity.
      + apply option_edge_n in He. destruct He as [_ ->]. right.
        apply option_path in Hp'; [|apply fr_init]. exists y. split; [exact Hp'|].
        apply in_app_or in Hy. destruct Hy as [Hy|[Hy|[]]]; [exact Hy|].
        exfalso. apply (fr_notin y); [|auto]. eapply path_in_states; [exact Hv|apply fr_init|exact Hp'].
      + apply option_edge_n in He. destruct He as [He _]. discriminate.
    - intros [->|[q [Hp Hq]]].
      + exists n. split; [apply gp_refl|]. apply in_or_app. right. left. reflexivity.
      + exists q. split; [|apply in_or_app; left; exact Hq].
        eapply gp_eps; [apply option_edge_n; auto|]. apply option_path; [apply fr_init|exact Hp].
  Qed.

  (* ---------------- star ---------------- *)
  Let ES := xedge (star_rowof A n).

  Lemma star_edge_n a y : ES n a y <-> a = None /\ y = n_init A.
  Proof.
    unfold ES, xedge, star_rowof. rewrite Nat.eqb_refl. split.
    - intros [r [Er Hy]]. inversion Er; subst r. unfold xtg in Hy. destruct a as [s|]; simpl in Hy; [destruct Hy|].
      destruct Hy as [Hy|[]]. auto.
    - intros [-> ->]. eexists. split; [reflexivity|]. unfold xtg. simpl. left. reflexivity.
  Qed.

  Lemma star_edge q a y : In q (n_states A) ->
    (ES q a y <-> n_edge A q a y \/ (a = None /\ In q (n_finals A) /\ y = n_init A)).
  Proof.
    intro Hq. unfold ES, xedge, star_rowof. rewrite (fr_neqb q Hq).
    destruct (memb q (n_finals A)) eqn:Ef.
    - apply memb_In in Ef. unfold n_edge. rewrite n_targets_arow. split.
      + intros [r [Er Hy]]. inversion Er; subst r. apply tab_tg in Hy. destruct Hy as [_ Hy].
        apply in_app_or in Hy. destruct Hy as [Hy|Hy]; [left; exact Hy|].
        right. destruct a as [s|]; [destruct Hy|]. destruct Hy as [Hy|[]]. auto.
      + intros [Hy|[-> [_ ->]]]; (eexists; split; [reflexivity|]); apply tab_tg.
        * split; [apply in_or_app; left; eapply xtg_key; exact Hy|]. apply in_or_app. left. exact Hy.
        * split; [apply in_or_app; right; left; reflexivity|]. apply in_or_app. right. left. reflexivity.
    - apply memb_false in Ef. rewrite edge_assoc. split; [tauto|]. intros [H|[_ [Hf _]]]; [exact H|contradiction].
  Qed.

  Lemma star_step_in q a y : In q (n_states A) -> ES q a y -> In y (n_states A).
  Proof.
    intros Hq He. apply star_edge in He; [|exact Hq].
    destruct He as [He|[_ [_ ->]]]; [eapply edge_in_states; eassumption|apply fr_init].
  Qed.

  Lemma star_path_in q w y : In q (n_states A) -> gpath ES q w y -> In y (n_states A).
  Proof.
    intros Hq H. induction H as [x|x y1 z w He Hp IH|x a y1 z w He Hp IH]; [exact Hq| |];
      apply IH; eapply star_step_in; eassumption.
  Qed.

  Lemma star_path_sound p w f : gpath ES p w f -> In p (n_states A) -> In f (n_finals A) ->
    exists u v, w = u ++ v /\ (exists f', nfa_path A p u f' /\ In f' (n_finals A)) /\ l_star (L_nfa A) v.
  Proof.
    intro H. induction H as [x|x y1 z w He Hp IH|x a y1 z w He Hp IH]; intros Hx Hf.
    - exists [], []. split; [reflexivity|]. split; [exists x; split; [apply np_refl|exact Hf]|apply star_nil].
    - pose proof (star_step_in _ _ _ Hx He) as Hy1.
      destruct (IH Hy1 Hf) as [u [v [-> [[f' [Hu Hf']] Hs]]]].
      apply star_edge in He; [|exact Hx]. destruct He as [He|[_ [Hxf ->]]].
      + exists u, v. split; [reflexivity|]. split; [|exact Hs]. exists f'. split; [eapply np_eps; eassumption|exact Hf'].
      + exists [], (u ++ v). split; [reflexivity|]. split; [exists x; split; [apply np_refl|exact Hxf]|].
        apply star_app; [|exact Hs]. exists f'. auto.
    - pose proof (star_step_in _ _ _ Hx He) as Hy1.
      destruct (IH Hy1 Hf) as [u [v [-> [[f' [Hu Hf']] Hs]]]].
      apply star_edge in He; [|exact Hx]. destruct He as [He|[Ha _]]; [|discriminate].
      exists (a :: u), v. split; [reflexivity|]. split; [|exact Hs]. exists f'. split; [eapply np_sym; eassumption|exact Hf'].
  Qed.

  Lemma star_embed p u f : In p (n_states A) -> nfa_path A p u f -> gpath ES p u f.
  Proof.
    intros Hp H. rewrite nfa_path_gpath in H.
    apply (sim_fwd (n_edge A) ES idn (fun x => In x (n_states A))) in H; [apply H| |exact Hp].
    intros x a x' Hx He. split; [eapply edge_in_states; eassumption|]. apply star_edge; [exact Hx|left; exact He].
  Qed.

  Lemma star_complete w : l_star (L_nfa A) w ->
    w = [] \/ exists f, In f (n_finals A) /\ gpath ES (n_init A) w f.
  Proof.
    intro H. induction H as [|u v [f [Hu Hf]] Hs IH]; [left; reflexivity|]. right.
    apply star_embed in Hu; [|apply fr_init].
    destruct IH as [->|[f' [Hf' Hpv]]].
    - rewrite app_nil_r. exists f. auto.
    - exists f'. split; [exact Hf'|]. eapply gpath_app; [exact Hu|].
      eapply gp_eps; [|exact Hpv]. apply star_edge; [apply fr_finals; exact Hf|]. right. auto.
  Qed.

  Lemma star_rows_ok : rows_ok xs (n_syms A) (star_rowof A n).
  Proof.
    intros x r Hx Er a l Hal. unfold star_rowof in Er. destruct (Nat.eqb x n).
    - inversion Er; subst r. destruct Hal as [Hal|[]]. inversion Hal; subst. split; [reflexivity|].
      intros z [<-|[]]. apply fr_in. apply fr_init.
    - destruct (memb x (n_finals A)); [|eapply assoc_rows_ok; eassumption].
      inversion Er; subst r. apply tab_entry in Hal. destruct Hal as [Hk ->]. split.
      + apply in_app_or in Hk. destruct Hk as [Hk|[<-|[]]]; [|reflexivity].
        apply in_map_iff in Hk. destruct Hk as [[a' l0] [Ea Hl0]]. simpl in Ea. subst a'.
        eapply arow_entry; eassumption.
      + intros z Hz. apply in_app_or in Hz. destruct Hz as [Hz|Hz].
        * apply fr_in. destruct (xtg_In _ _ _ Hz) as [l0 [Hl0 Hzl]].
          destruct (arow_entry A Hv _ _ _ Hl0) as [_ Hi]. apply Hi. exact Hzl.
        * destruct a as [s|]; [destruct Hz|]. destruct Hz as [<-|[]]. apply fr_in. apply fr_init.
  Qed.

  Lemma star_pre_valid : valid_nfa (star_pre A) = true.
  Proof.
    unfold star_pre. apply asm_valid.
    - apply idn_inj.
    - apply star_rows_ok.
    - apply fr_in_n.
    - apply fr_fin_incl.
    - apply fr_NoDup.
    - destruct (ops_valid_parts A Hv) as (_ & Hs & _). exact Hs.
    - left. unfold star_rowof. fold n. rewrite Nat.eqb_refl. discriminate.
  Qed.

  Lemma star_pre_lang : L_nfa (star_pre A) =L l_star (L_nfa A).
  Proof.
    intro w. unfold star_pre. rewrite asm_lang.
    2: apply idn_inj. 2: apply star_rows_ok. 2: apply fr_in_n. 2: apply fr_fin_incl.
    fold n. fold ES. split.
    - intros [y [Hp Hy]]. inversion Hp as [x|x y1 z w' He Hp'|x a y1 z w' He Hp']; subst.
      + apply star_nil.
      + apply star_edge_n in He. destruct He as [_ ->].
        assert (Hys : In y (n_states A)) by (eapply star_path_in; [apply fr_init|exact Hp']).
        apply in_app_or in Hy. destruct Hy as [Hy|[Hy|[]]]; [|exfalso; apply (fr_notin y Hys); auto].
        destruct (star_path_sound _ _ _ Hp' fr_init Hy) as [u [v [-> [Hu Hs]]]].
        apply star_app; [exact Hu|exact Hs].
      + apply star_edge_n in He. destruct He as [He _]. discriminate.
    - intro H. apply star_complete in H. destruct H as [->|[f [Hf Hp]]].
      + exists n. split; [apply gp_refl|]. apply in_or_app. right. left. reflexivity.
      + exists f. split; [|apply in_or_app; left; exact Hf].
        eapply gp_eps; [apply star_edge_n; auto|exact Hp].
  Qed.
End Fresh.

Section FreshThms.
  Variable A : nfa.
  Hypothesis Hv : valid_nfa A = true.

  Theorem ops_option_total : exists R, nfa_option A = Ok R /\ valid_nfa R = true.
  Proof.
    exists (option_pre A). split; [|apply option_pre_valid; exact Hv].
    apply check_nfa_ok. apply option_pre_valid. exact Hv.
  Qed.
  Theorem ops_option_lang R : nfa_option A = Ok R -> L_nfa R =L l_opt (L_nfa A).
  Proof. intro H. apply check_nfa_inv in H. destruct H as [-> _]. apply option_pre_lang. exact Hv. Qed.

  Theorem ops_star_total : exists R, nfa_star A = Ok R /\ valid_nfa R = true.
  Proof.
    exists (star_pre A). split; [|apply star_pre_valid; exact Hv].
    apply check_nfa_ok. apply star_pre_valid. exact Hv.
  Qed.
  Theorem ops_star_lang R : nfa_star A = Ok R -> L_nfa R =L l_star (L_nfa A).
  Proof. intro H. apply check_nfa_inv in H. destruct H as [-> _]. apply star_pre_lang. exact Hv. Qed.
End FreshThms.

(* ------------------------------------------------------------------ *)
Section Reverse.
  Variable A : nfa.
  Hypothesis Hv : valid_nfa A = true.
  Let n := fresh (n_states A).
  Let xs := n_states A ++ [n].
  Let ER := xedge (reverse_rowof A n).

  Lemma edge_src_keyed p a x : n_edge A p a x -> In p (map fst (n_trans A)).
  Proof. intro H. apply edge_assoc in H. destruct H as [r [E _]]. eapply assoc_Some_key. exact E. Qed.

  Lemma edge_okeys p a x : n_edge A p a x -> In a (okeys A).
  Proof.
    intro H. apply (edge_sym_ok A Hv) in H. unfold okeys. destruct a as [s|]; [|left; reflexivity].
    right. apply in_map. apply memb_In. exact H.
  Qed.

  Lemma rev_sources_In x a p : In p (rev_sources A x a) <-> In p (n_states A) /\ n_edge A p a x.
  Proof.
    unfold rev_sources. rewrite !filter_In, !memb_In. split; [tauto|].
    intros [Hp H]. split; [split; [eapply edge_src_keyed; exact H|exact Hp]|exact H].
  Qed.

  Lemma reverse_edge_n a y : ER n a y <-> a = None /\ In y (n_finals A).
  Proof.
    unfold ER, xedge, reverse_rowof. rewrite Nat.eqb_refl. split.
    - intros [r [Er Hy]]. inversion Er; subst r. unfold xtg in Hy. destruct a as [s|]; simpl in Hy; [destruct Hy|]. auto.
    - intros [-> Hy]. eexists. split; [reflexivity|]. unfold xtg. simpl. exact Hy.
  Qed.

  Lemma reverse_edge x a y : In x (n_states A) -> (ER x a y <-> In y (n_states A) /\ n_edge A y a x).
  Proof.
    intro Hx. unfold ER, xedge, reverse_rowof. pose proof (fr_neqb A x Hx) as En. fold n in En. rewrite En. split.
    - intros [r [Er Hy]]. inversion Er; subst r. apply tab_tg in Hy. destruct Hy as [_ Hy].
      apply rev_sources_In. exact Hy.
    - intro H. eexists. split; [reflexivity|]. apply tab_tg. split; [|apply rev_sources_In; exact H].
      apply filter_In. split; [eapply edge_okeys; apply H|]. apply nonempty_In. exists y. apply rev_sources_In. exact H.
  Qed.

  Lemma reverse_path_bwd x w y : gpath ER x w y -> In x (n_states A) ->
    In y (n_states A) /\ gpath (n_edge A) y (rev w) x.
  Proof.
    intro H. induction H as [x|x y1 z w He Hp IH|x a y1 z w He Hp IH]; intro Hx.
    - split; [exact Hx|apply gp_refl].
    - apply reverse_edge in He; [|exact Hx]. destruct He as [Hy1 He]. destruct (IH Hy1) as [Hz Hp'].
      split; [exact Hz|]. eapply gpath_snoc_eps; eassumption.
    - apply reverse_edge in He; [|exact Hx]. destruct He as [Hy1 He]. destruct (IH Hy1) as [Hz Hp'].
      split; [exact Hz|]. simpl. eapply gpath_snoc_sym; eassumption.
  Qed.

  Lemma reverse_path_fwd y u x : gpath (n_edge A) y u x -> In y (n_states A) -> gpath ER x (rev u) y.
  Proof.
    intro H. induction H as [y|y y1 x u He Hp IH|y a y1 x u He Hp IH]; intro Hy.
    - apply gp_refl.
    - pose proof (edge_in_states A Hv _ _ _ He) as Hy1.
      eapply gpath_snoc_eps; [apply IH; exact Hy1|]. apply reverse_edge; [exact Hy1|split; assumption].
    - pose proof (edge_in_states A Hv _ _ _ He) as Hy1. simpl.
      eapply gpath_snoc_sym; [apply IH; exact Hy1|]. apply reverse_edge; [exact Hy1|split; assumption].
  Qed.

  Lemma reverse_rows_ok : rows_ok xs (n_syms A) (reverse_rowof A n).
  Proof.
    intros x r Hx Er a l Hal. unfold reverse_rowof in Er. injection Er as Er. subst r.
    destruct (Nat.eqb x n).
    - destruct Hal as [Hal|[]]. inversion Hal; subst. split; [reflexivity|].
      intros z Hz. apply (fr_in A). apply (fr_finals A Hv). exact Hz.
    - pose proof (tab_entry _ _ _ _ Hal) as [Ha ->].
      assert (Ha' : In a (okeys A)).
      { unfold okeys. destruct (nonempty (rev_sources A x None)); [destruct Ha as [<-|Ha]; [left; reflexivity|]|];
          right; apply filter_In in Ha; apply Ha. }
      clear Ha. rename Ha' into Ha. split.
      + unfold okeys in Ha. destruct Ha as [<-|Ha]; [reflexivity|].
        apply in_map_iff in Ha. destruct Ha as [s [<- Hs]]. simpl. apply memb_In. exact Hs.
      + intros z Hz. apply (fr_in A). apply rev_sources_In in Hz. apply Hz.
  Qed.

  Lemma reverse_pre_valid : valid_nfa (reverse_pre A) = true.
  Proof.
    unfold reverse_pre. apply asm_valid.
    - apply idn_inj.
    - apply reverse_rows_ok.
    - apply (fr_in_n A).
    - intros z [<-|[]]. apply (fr_in A). apply (fr_init A Hv).
    - apply (fr_NoDup A Hv).
    - destruct (ops_valid_parts A Hv) as (_ & Hs & _). exact Hs.
    - left. unfold reverse_rowof. discriminate.
  Qed.

  Lemma reverse_pre_lang : L_nfa (reverse_pre A) =L l_rev (L_nfa A).
  Proof.
    intro w. unfold reverse_pre. rewrite asm_lang.
    2: apply idn_inj. 2: apply reverse_rows_ok. 2: apply (fr_in_n A).
    2: intros z [<-|[]]; apply (fr_in A); apply (fr_init A Hv).
    fold n. fold ER. unfold l_rev, L_nfa. split.
    - intros [y [Hp [<-|[]]]]. inversion Hp as [x|x y1 z w' He Hp'|x a y1 z w' He Hp']; subst.
      + exfalso. apply (fr_notin A (n_init A) (fr_init A Hv)). auto.
      + apply reverse_edge_n in He. destruct He as [_ Hf].
        apply reverse_path_bwd in Hp'; [|apply (fr_finals A Hv); exact Hf]. destruct Hp' as [_ Hp'].
        exists y1. split; [apply nfa_path_gpath; exact Hp'|exact Hf].
      + apply reverse_edge_n in He. destruct He as [He _]. discriminate.
    - intros [f [Hp Hf]]. exists (n_init A). split; [|left; reflexivity].
      eapply gp_eps; [apply reverse_edge_n; split; [reflexivity|exact Hf]|].
      rewrite <- (rev_involutive w). apply reverse_path_fwd; [apply nfa_path_gpath; exact Hp|apply (fr_init A Hv)].
  Qed.
End Reverse.

Section ReverseThms.
  Variable A : nfa.
  Hypothesis Hv : valid_nfa A = true.

  Theorem ops_reverse_total : exists R, nfa_reverse A = Ok R /\ valid_nfa R = true.
  Proof.
    exists (reverse_pre A). split; [|apply reverse_pre_valid; assumption].
    unfold nfa_reverse. apply check_nfa_ok. apply reverse_pre_valid; assumption.
  Qed.
  Theorem ops_reverse_lang R : nfa_reverse A = Ok R -> L_nfa R =L l_rev (L_nfa A).
  Proof.
    unfold nfa_reverse. intro H. apply check_nfa_inv in H. destruct H as [-> _]. apply reverse_pre_lang; assumption.
  Qed.
End ReverseThms.

(* ------------------------------------------------------------------ *)
(* products of graphs *)
Lemma gpath_closed {X} (E : X -> option nat -> X -> Prop) (P : X -> Prop) :
  (forall x a y, P x -> E x a y -> P y) -> forall x w y, P x -> gpath E x w y -> P y.
Proof.
  intros Hc x w y Hx H. induction H as [x|x y1 z w He Hp IH|x a y1 z w He Hp IH]; [exact Hx| |];
    apply IH; eapply Hc; eassumption.
Qed.

Lemma gpath_iff {X} (E1 E2 : X -> option nat -> X -> Prop) :
  (forall x a y, E1 x a y <-> E2 x a y) -> forall x w y, gpath E1 x w y <-> gpath E2 x w y.
Proof. intros H x w y. split; apply gpath_mono; intros x' a y'; apply H. Qed.

Section ProdPath.
  Context {X Y : Type}.
  Variable EA : X -> option nat -> X -> Prop.
  Variable EB : Y -> option nat -> Y -> Prop.

  (* synchronous on symbols, interleaved on the empty string *)
  Definition prodE (x : X * Y) (a : option nat) (y : X * Y) : Prop :=
    match a with
    | None => (EA (fst x) None (fst y) /\ snd y = snd x) \/ (fst y = fst x /\ EB (snd x) None (snd y))
    | Some _ => EA (fst x) a (fst y) /\ EB (snd x) a (snd y)
    end.

  Lemma prod_split x w y : gpath prodE x w y -> gpath EA (fst x) w (fst y) /\ gpath EB (snd x) w (snd y).
  Proof.
    intro H. induction H as [x|x y1 z w He Hp [IH1 IH2]|x a y1 z w He Hp [IH1 IH2]].
    - split; apply gp_refl.
    - simpl in He. destruct He as [[He E]|[E He]].
      + rewrite E in IH2. split; [eapply gp_eps; eassumption|exact IH2].
      + rewrite E in IH1. split; [exact IH1|eapply gp_eps; eassumption].
    - simpl in He. destruct He as [He1 He2]. split; eapply gp_sym; eassumption.
  Qed.

  Lemma prod_lift_l p p' : gpath EA p [] p' -> forall q, gpath prodE (p, q) [] (p', q).
  Proof.
    intro H. remember (@nil nat) as w eqn:Ew.
    induction H as [p|p p1 p' w He Hp IH|p a p1 p' w He Hp IH]; intro q.
    - apply gp_refl.
    - eapply gp_eps; [|apply IH; exact Ew]. simpl. left. auto.
    - discriminate.
  Qed.

  Lemma prod_lift_r q q' : gpath EB q [] q' -> forall p, gpath prodE (p, q) [] (p, q').
  Proof.
    intro H. remember (@nil nat) as w eqn:Ew.
    induction H as [q|q q1 q' w He Hp IH|q a q1 q' w He Hp IH]; intro p.
    - apply gp_refl.
    - eapply gp_eps; [|apply IH; exact Ew]. simpl. right. auto.
    - discriminate.
  Qed.

  Lemma prod_join p w p' : gpath EA p w p' -> forall q q', gpath EB q w q' -> gpath prodE (p, q) w (p', q').
  Proof.
    intro H. induction H as [p|p p1 p' w He Hp IH|p a p1 p' w He Hp IH]; intros q q' HB.
    - apply prod_lift_r. exact HB.
    - eapply gp_eps; [|apply IH; exact HB]. simpl. left. auto.
    - apply gpath_cons_inv in HB. destruct HB as [q1 [q2 [H1 [H2 H3]]]].
      change (a :: w) with ([] ++ a :: w). eapply gpath_app; [apply prod_lift_r; exact H1|].
      eapply gp_sym; [|apply IH; exact H3]. simpl. auto.
  Qed.

  (* shuffle: either side moves on any label *)
  Definition shufE (x : X * Y) (a : option nat) (y : X * Y) : Prop :=
    (EA (fst x) a (fst y) /\ snd y = snd x) \/ (fst y = fst x /\ EB (snd x) a (snd y)).

  Lemma shuf_lift_l p u p' : gpath EA p u p' -> forall q, gpath shufE (p, q) u (p', q).
  Proof.
    intro H. induction H as [p|p p1 p' w He Hp IH|p a p1 p' w He Hp IH]; intro q.
    - apply gp_refl.
    - eapply gp_eps; [|apply IH]. left. auto.
    - eapply gp_sym; [|apply IH]. left. auto.
  Qed.

  Lemma shuf_lift_r q v q' : gpath EB q v q' -> forall p, gpath shufE (p, q) v (p, q').
  Proof.
    intro H. induction H as [q|q q1 q' w He Hp IH|q a q1 q' w He Hp IH]; intro p.
    - apply gp_refl.
    - eapply gp_eps; [|apply IH]. right. auto.
    - eapply gp_sym; [|apply IH]. right. auto.
  Qed.

  Lemma shuf_split x w y : gpath shufE x w y ->
    exists u v, shuffle u v w /\ gpath EA (fst x) u (fst y) /\ gpath EB (snd x) v (snd y).
  Proof.
    intro H. induction H as [x|x y1 z w He Hp [u [v [Hs [IH1 IH2]]]]|x a y1 z w He Hp [u [v [Hs [IH1 IH2]]]]].
    - exists [], []. split; [apply sh_nil|]. split; apply gp_refl.
    - destruct He as [[He E]|[E He]].
      + rewrite E in IH2. exists u, v. split; [exact Hs|]. split; [eapply gp_eps; eassumption|exact IH2].
      + rewrite E in IH1. exists u, v. split; [exact Hs|]. split; [exact IH1|eapply gp_eps; eassumption].
    - destruct He as [[He E]|[E He]].
      + rewrite E in IH2. exists (a :: u), v. split; [apply sh_l; exact Hs|]. split; [eapply gp_sym; eassumption|exact IH2].
      + rewrite E in IH1. exists u, (a :: v). split; [apply sh_r; exact Hs|]. split; [exact IH1|eapply gp_sym; eassumption].
  Qed.

  Lemma shuf_join u v w : shuffle u v w -> forall p p' q q',
    gpath EA p u p' -> gpath EB q v q' -> gpath shufE (p, q) w (p', q').
  Proof.
    intro H. induction H as [|a u v w Hs IH|a u v w Hs IH]; intros p p' q q' HA HB.
    - change (@nil nat) with (@nil nat ++ @nil nat).
      eapply gpath_app; [apply shuf_lift_l; exact HA|apply shuf_lift_r; exact HB].
    - apply gpath_cons_inv in HA. destruct HA as [p1 [p2 [H1 [H2 H3]]]].
      change (a :: w) with ([] ++ a :: w). eapply gpath_app; [apply shuf_lift_l; exact H1|].
      eapply gp_sym; [|eapply IH; eassumption]. left. auto.
    - apply gpath_cons_inv in HB. destruct HB as [q1 [q2 [H1 [H2 H3]]]].
      change (a :: w) with ([] ++ a :: w). eapply gpath_app; [apply shuf_lift_r; exact H1|].
      eapply gp_sym; [|eapply IH; eassumption]. right. auto.
  Qed.
End ProdPath.

Lemma opt_row_tg {X} (R : xrow X) a y :
  (exists r, opt_row R = Some r /\ In y (xtg r a)) <-> In y (xtg R a).
Proof.
  split.
  - intros [r [E H]]. destruct R; simpl in E; [discriminate|]. inversion E; subst. exact H.
  - intro H. destruct R as [|e R]; [unfold xtg in H; simpl in H; destruct H|].
    exists (e :: R). split; [reflexivity|exact H].
Qed.

Lemma tab_row_targets {X} keys (F : option nat -> list X) y :
  In y (row_targets (tab keys F)) <-> exists a, In a keys /\ In y (F a).
Proof.
  unfold row_targets, tab. rewrite in_flat_map. split.
  - intros [[a l] [Hin Hy]]. apply in_map_iff in Hin. destruct Hin as [a' [E Ha]]. injection E as <- <-.
    exists a'. auto.
  - intros [a [Ha Hy]]. exists (a, F a). split; [apply in_map_iff; exists a; auto|exact Hy].
Qed.

Lemma in_cond_keys (c : bool) (l : list nat) (s : nat) :
  In (Some s) ((if c then [None] else []) ++ map Some l) <-> In s l.
Proof.
  rewrite in_app_iff, in_map_iff. split.
  - intros [H|[s' [E H]]]; [destruct c; [destruct H as [H|[]]; discriminate|destruct H]|inversion E; subst; exact H].
  - intro H. right. exists s. auto.
Qed.

Lemma in_cond_none (c : bool) (l : list nat) :
  In None ((if c then [None] else []) ++ map Some l) <-> c = true.
Proof.
  rewrite in_app_iff, in_map_iff. split.
  - intros [H|[s' [E H]]]; [destruct c; [reflexivity|destruct H]|discriminate].
  - intros ->. left. left. reflexivity.
Qed.

(* ------------------------------------------------------------------ *)
Section Inter.
  Variables A B : nfa.
  Hypothesis HvA : valid_nfa A = true.
  Hypothesis HvB : valid_nfa B = true.

  Let syms := usyms A B.
  Let rowI := fun x => opt_row (inter_row A B syms x).
  Let EI := xedge rowI.
  Let EP := prodE (n_edge A) (n_edge B).

  Lemma inter_row_tg x a y : In y (xtg (inter_row A B syms x) a) <-> EP x a y.
  Proof.
    unfold inter_row. rewrite tab_tg. unfold EP, prodE, n_edge. rewrite !n_targets_arow.
    destruct a as [s|].
    - rewrite in_cond_keys, filter_In, andb_true_iff, !has_key_In.
      destruct y as [y1 y2]. rewrite in_prod_iff. simpl. split; [tauto|].
      intros [H1 H2]. split; [|auto]. split; [|split; eapply xtg_key; eassumption].
      rewrite <- n_targets_arow in H1. apply (edge_sym_ok A HvA) in H1. simpl in H1.
      apply memb_In in H1. unfold syms, usyms. apply set_of_In. apply in_or_app. left. exact H1.
    - rewrite in_cond_none, orb_true_iff, !has_key_In, in_app_iff. split.
      + intros [_ [H|H]]; apply in_map_iff in H; destruct H as [t [<- Ht]]; simpl; auto.
      + intros [[H1 H2]|[H1 H2]].
        * split; [left; eapply xtg_key; exact H1|]. left. apply in_map_iff. exists (fst y). split; [|exact H1].
          destruct y; simpl in *; congruence.
        * split; [right; eapply xtg_key; exact H2|]. right. apply in_map_iff. exists (snd y). split; [|exact H2].
          destruct y; simpl in *; congruence.
  Qed.

  Lemma inter_edge x a y : EI x a y <-> EP x a y.
  Proof. unfold EI, xedge, rowI. rewrite opt_row_tg. apply inter_row_tg. Qed.

  Lemma inter_succ x y : In y (row_targets (inter_row A B syms x)) <-> exists a, EP x a y.
  Proof.
    split.
    - intro H. unfold row_targets in H. apply in_flat_map in H. destruct H as [[a l] [Hin Hy]].
      exists a. apply inter_row_tg. unfold inter_row in *. apply tab_tg.
      apply tab_entry in Hin. destruct Hin as [Hk ->]. auto.
    - intros [a H]. apply inter_row_tg in H. unfold inter_row in *. apply tab_tg in H.
      apply tab_row_targets. exists a. exact H.
  Qed.

  Lemma EP_in x a y : In (fst x) (n_states A) -> In (snd x) (n_states B) -> EP x a y ->
    In (fst y) (n_states A) /\ In (snd y) (n_states B).
  Proof.
    intros H1 H2 He. unfold EP, prodE in He. destruct a as [s|].
    - destruct He as [Ha Hb]. split; [eapply (edge_in_states A HvA); exact Ha|eapply (edge_in_states B HvB); exact Hb].
    - destruct He as [[Ha E]|[E Hb]].
      + rewrite E. split; [eapply (edge_in_states A HvA); exact Ha|exact H2].
      + rewrite E. split; [exact H1|eapply (edge_in_states B HvB); exact Hb].
  Qed.

  Lemma inter_states_some : exists ps, inter_states A B = Some ps.
  Proof.
    destruct (ops_valid_parts A HvA) as (_ & _ & _ & _ & HiA & _).
    destruct (ops_valid_parts B HvB) as (_ & _ & _ & _ & HiB & _).
    destruct (inter_states A B) as [ps|] eqn:E; [eauto|]. exfalso. revert E. unfold inter_states.
    apply (closure_fuel _ _ eqb_pp_ok _ (list_prod (n_states A) (n_states B))).
    - intros x y Hx Hy. destruct x as [x1 x2]. apply in_prod_iff in Hx. destruct Hx as [Hx1 Hx2].
      apply inter_succ in Hy. destruct Hy as [a Hy]. destruct (EP_in (x1, x2) a y Hx1 Hx2 Hy) as [H1 H2].
      destruct y as [y1 y2]. apply in_prod_iff. auto.
    - intros x [<-|[]]. apply in_prod_iff. auto.
    - rewrite prod_length. lia.
  Qed.

  Variable ps : list (nat * nat).
  Hypothesis Hps : inter_states A B = Some ps.
  Let x0 := (n_init A, n_init B).

  Lemma inter_x0 : In x0 ps.
  Proof.
    unfold inter_states in Hps. eapply (closure_complete _ _ eqb_pp_ok); [exact Hps|].
    apply reach_init. left. reflexivity.
  Qed.

  Lemma inter_closed x a y : In x ps -> EP x a y -> In y ps.
  Proof.
    intros Hx He. unfold inter_states in Hps. eapply (closure_complete _ _ eqb_pp_ok); [exact Hps|].
    eapply reach_step; [eapply (closure_sound _ _ eqb_pp_ok); [exact Hps|exact Hx]|].
    apply inter_succ. exists a. exact He.
  Qed.

  Lemma inter_rows_ok : rows_ok ps syms rowI.
  Proof.
    intros x r Hx Er a l Hal. unfold rowI in Er.
    assert (r = inter_row A B syms x) by (destruct (inter_row A B syms x); simpl in Er; [discriminate|inversion Er; reflexivity]).
    subst r. clear Er. split.
    - unfold inter_row in Hal. apply tab_entry in Hal. destruct Hal as [Hk _].
      destruct a as [s|]; [|reflexivity]. apply in_cond_keys in Hk. apply filter_In in Hk. simpl. apply memb_In. apply Hk.
    - intros y Hy. assert (Hs : In y (row_targets (inter_row A B syms x))).
      { unfold row_targets. apply in_flat_map. exists (a, l). auto. }
      apply inter_succ in Hs. destruct Hs as [a' He]. eapply inter_closed; eassumption.
  Qed.

  Lemma inter_fin_incl : incl (filter (fun x => memb (fst x) (n_finals A) && memb (snd x) (n_finals B)) ps) ps.
  Proof. intros z Hz. apply filter_In in Hz. apply Hz. Qed.

  Lemma inter_row0 : rowI x0 <> None \/ length ps <= 1.
  Proof.
    unfold rowI. destruct (inter_row A B syms x0) as [|e r] eqn:E; [|left; simpl; discriminate].
    right. apply (NoDup_all_eq ps x0).
    - unfold inter_states in Hps. eapply (closure_NoDup _ _ eqb_pp_ok). exact Hps.
    - intros x Hx. unfold inter_states in Hps. apply (closure_sound _ _ eqb_pp_ok _ _ _ _ Hps) in Hx.
      induction Hx as [x Hx|x y Hr IH Hy]; [destruct Hx as [<-|[]]; reflexivity|].
      subst x. change (In y (row_targets (inter_row A B syms x0))) in Hy. rewrite E in Hy. destruct Hy.
  Qed.

  Lemma inter_pre_valid : valid_nfa (inter_pre A B ps) = true.
  Proof.
    unfold inter_pre. apply asm_valid.
    - intros x y. apply pidx_inj.
    - apply inter_rows_ok.
    - apply inter_x0.
    - apply inter_fin_incl.
    - unfold inter_states in Hps. eapply (closure_NoDup _ _ eqb_pp_ok). exact Hps.
    - apply usyms_NoDup.
    - apply inter_row0.
  Qed.

  Lemma inter_pre_lang : L_nfa (inter_pre A B ps) =L l_inter (L_nfa A) (L_nfa B).
  Proof.
    intro w. unfold inter_pre. rewrite asm_lang.
    2: intros x y; apply pidx_inj. 2: apply inter_rows_ok. 2: apply inter_x0. 2: apply inter_fin_incl.
    fold syms. fold rowI. fold EI. unfold l_inter, L_nfa. split.
    - intros [y [Hp Hy]]. apply (gpath_iff _ _ inter_edge) in Hp. apply prod_split in Hp. destruct Hp as [H1 H2].
      apply filter_In in Hy. destruct Hy as [_ Hy]. apply andb_true_iff in Hy. destruct Hy as [F1 F2].
      apply memb_In in F1. apply memb_In in F2. simpl in H1, H2.
      split; [exists (fst y)|exists (snd y)]; (split; [apply nfa_path_gpath; assumption|assumption]).
    - intros [[f [H1 F1]] [g [H2 F2]]]. exists (f, g).
      assert (Hp : gpath EP x0 w (f, g)).
      { apply prod_join; apply nfa_path_gpath; assumption. }
      split; [apply (gpath_iff _ _ inter_edge); exact Hp|].
      apply filter_In. split.
      + apply (gpath_closed EP (fun x => In x ps)) with (x := x0) (w := w); [|apply inter_x0|exact Hp].
        intros x a y. apply inter_closed.
      + simpl. apply andb_true_iff. split; apply memb_In; assumption.
  Qed.
End Inter.

Section InterThms.
  Variables A B : nfa.
  Hypothesis HvA : valid_nfa A = true.
  Hypothesis HvB : valid_nfa B = true.

  Theorem ops_inter_total : exists R, nfa_intersection A B = Ok R /\ valid_nfa R = true.
  Proof.
    destruct (inter_states_some A B HvA HvB) as [ps Hps]. exists (inter_pre A B ps).
    split; [|apply inter_pre_valid; assumption].
    unfold nfa_intersection. rewrite Hps. apply check_nfa_ok. apply inter_pre_valid; assumption.
  Qed.

  Theorem ops_inter_lang R : nfa_intersection A B = Ok R -> L_nfa R =L l_inter (L_nfa A) (L_nfa B).
  Proof.
    unfold nfa_intersection. destruct (inter_states A B) as [ps|] eqn:Hps; [|discriminate].
    intro H. apply check_nfa_inv in H. destruct H as [-> _]. apply inter_pre_lang; assumption.
  Qed.
End InterThms.

(* ------------------------------------------------------------------ *)
Lemma NoDup_list_prod {X Y} (l : list X) (m : list Y) : NoDup l -> NoDup m -> NoDup (list_prod l m).
Proof.
  intros Hl Hm. induction l as [|a l IH]; simpl; [constructor|].
  inversion Hl as [|? ? Hna Hl']; subst. apply NoDup_app_intro.
  - apply NoDup_map_on; [exact Hm|]. intros x y _ _ E. inversion E. reflexivity.
  - apply IH. exact Hl'.
  - intros [x y] H1 H2. apply in_map_iff in H1. destruct H1 as [y' [E _]]. inversion E; subst.
    apply in_prod_iff in H2. destruct H2 as [H2 _]. contradiction.
Qed.

Section Shuffle.
  Variables A B : nfa.
  Hypothesis HvA : valid_nfa A = true.
  Hypothesis HvB : valid_nfa B = true.

  Let xs := list_prod (n_states A) (n_states B).
  Let ESh := xedge (shuffle_rowof A B).
  Let EP := shufE (n_edge A) (n_edge B).

  Lemma shuffle_edge x a y : ESh x a y <-> EP x a y.
  Proof.
    unfold ESh, xedge, shuffle_rowof, EP, shufE, n_edge. rewrite !n_targets_arow. split.
    - intros [r [Er Hy]]. injection Er as <-. apply tab_tg in Hy. destruct Hy as [_ Hy].
      apply in_app_or in Hy. destruct Hy as [H|H]; apply in_map_iff in H; destruct H as [t [<- Ht]]; simpl; auto.
    - intro H. eexists. split; [reflexivity|]. apply tab_tg. destruct H as [[H1 H2]|[H1 H2]].
      + split; [apply in_or_app; left; eapply xtg_key; exact H1|]. apply in_or_app. left.
        apply in_map_iff. exists (fst y). split; [|exact H1]. destruct y; simpl in *; congruence.
      + split; [apply in_or_app; right; eapply xtg_key; exact H2|]. apply in_or_app. right.
        apply in_map_iff. exists (snd y). split; [|exact H2]. destruct y; simpl in *; congruence.
  Qed.

  Lemma shuffle_rows_ok : rows_ok xs (usyms A B) (shuffle_rowof A B).
  Proof.
    intros [x1 x2] r Hx Er a l Hal. apply in_prod_iff in Hx. destruct Hx as [Hx1 Hx2].
    unfold shuffle_rowof in Er. injection Er as <-. pose proof (tab_entry _ _ _ _ Hal) as [Hk ->]. simpl in *. split.
    - apply in_app_or in Hk. destruct Hk as [Hk|Hk]; apply in_map_iff in Hk; destruct Hk as [[a' l0] [Ea Hl0]];
        simpl in Ea; subst a'.
      + apply usyms_l. eapply arow_entry; eassumption.
      + apply usyms_r. eapply arow_entry; eassumption.
    - intros y Hy. apply in_app_or in Hy. destruct Hy as [H|H]; apply in_map_iff in H; destruct H as [t [<- Ht]];
        apply in_prod_iff; destruct (xtg_In _ _ _ Ht) as [l0 [Hl0 Htl]].
      + split; [|exact Hx2]. destruct (arow_entry A HvA _ _ _ Hl0) as [_ Hi]. apply Hi. exact Htl.
      + split; [exact Hx1|]. destruct (arow_entry B HvB _ _ _ Hl0) as [_ Hi]. apply Hi. exact Htl.
  Qed.

  Lemma shuffle_x0 : In (n_init A, n_init B) xs.
  Proof.
    destruct (ops_valid_parts A HvA) as (_ & _ & _ & _ & HiA & _).
    destruct (ops_valid_parts B HvB) as (_ & _ & _ & _ & HiB & _). apply in_prod_iff. auto.
  Qed.

  Lemma shuffle_fin_incl : incl (list_prod (n_finals A) (n_finals B)) xs.
  Proof.
    destruct (ops_valid_parts A HvA) as (_ & _ & _ & _ & _ & _ & HfA).
    destruct (ops_valid_parts B HvB) as (_ & _ & _ & _ & _ & _ & HfB).
    intros [z1 z2] Hz. apply in_prod_iff in Hz. apply in_prod_iff. split; [apply HfA|apply HfB]; apply Hz.
  Qed.

  Lemma shuffle_pre_valid : valid_nfa (shuffle_pre A B) = true.
  Proof.
    destruct (ops_valid_parts A HvA) as (HnA & _). destruct (ops_valid_parts B HvB) as (HnB & _).
    unfold shuffle_pre. apply asm_valid.
    - intros x y. apply pidx_inj.
    - apply shuffle_rows_ok.
    - apply shuffle_x0.
    - apply shuffle_fin_incl.
    - apply NoDup_list_prod; assumption.
    - apply usyms_NoDup.
    - left. unfold shuffle_rowof. discriminate.
  Qed.

  Lemma shuffle_pre_lang : L_nfa (shuffle_pre A B) =L l_shuffle (L_nfa A) (L_nfa B).
  Proof.
    intro w. unfold shuffle_pre. rewrite asm_lang.
    2: intros x y; apply pidx_inj. 2: apply shuffle_rows_ok. 2: apply shuffle_x0. 2: apply shuffle_fin_incl.
    fold ESh. unfold l_shuffle, L_nfa. split.
    - intros [[y1 y2] [Hp Hy]]. apply (gpath_iff _ _ shuffle_edge) in Hp. apply shuf_split in Hp.
      destruct Hp as [u [v [Hs [H1 H2]]]]. apply in_prod_iff in Hy. destruct Hy as [F1 F2]. simpl in H1, H2.
      exists u, v. split; [exists y1; split; [apply nfa_path_gpath; exact H1|exact F1]|].
      split; [exists y2; split; [apply nfa_path_gpath; exact H2|exact F2]|exact Hs].
    - intros [u [v [[f [H1 F1]] [[g [H2 F2]] Hs]]]]. exists (f, g). split; [|apply in_prod_iff; auto].
      apply (gpath_iff _ _ shuffle_edge). eapply shuf_join; [exact Hs| |]; apply nfa_path_gpath; assumption.
  Qed.

  Theorem ops_shuffle_total : exists R, nfa_shuffle A B = Ok R /\ valid_nfa R = true.
  Proof.
    exists (shuffle_pre A B). split; [|apply shuffle_pre_valid].
    apply check_nfa_ok. apply shuffle_pre_valid.
  Qed.

  Theorem ops_shuffle_lang R : nfa_shuffle A B = Ok R -> L_nfa R =L l_shuffle (L_nfa A) (L_nfa B).
  Proof. intro H. apply check_nfa_inv in H. destruct H as [-> _]. apply shuffle_pre_lang. Qed.
End Shuffle.

(* ------------------------------------------------------------------ *)
(* _eliminate_lambda *)
Lemma gpath_app_inv {X} (E : X -> option nat -> X -> Prop) u : forall x v z,
  gpath E x (u ++ v) z -> exists y, gpath E x u y /\ gpath E y v z.
Proof.
  intros x v z H. remember (u ++ v) as w eqn:Ew. revert u v Ew.
  induction H as [x|x y1 z w He Hp IH|x a y1 z w He Hp IH]; intros u v Ew.
  - destruct u; [|discriminate]. destruct v; [|discriminate]. exists x. split; apply gp_refl.
  - destruct (IH u v Ew) as [y [H1 H2]]. exists y. split; [eapply gp_eps; eassumption|exact H2].
  - destruct u as [|b u]; simpl in Ew.
    + subst v. exists x. split; [apply gp_refl|]. eapply gp_sym; eassumption.
    + inversion Ew; subst. destruct (IH u v eq_refl) as [y [H1 H2]]. exists y.
      split; [eapply gp_sym; eassumption|exact H2].
Qed.

Lemma gpath_noeps_nil {X} (E : X -> option nat -> X -> Prop) :
  (forall x y, ~ E x None y) -> forall x y, gpath E x [] y -> x = y.
Proof.
  intros Hn x y H. remember (@nil nat) as w eqn:Ew.
  induction H as [x|x y1 z w He Hp IH|x a y1 z w He Hp IH]; [reflexivity| |discriminate].
  exfalso. eapply Hn. exact He.
Qed.

Lemma gpath_noeps_cons {X} (E : X -> option nat -> X -> Prop) :
  (forall x y, ~ E x None y) -> forall x a w z, gpath E x (a :: w) z ->
  exists y, E x (Some a) y /\ gpath E y w z.
Proof.
  intros Hn x a w z H. apply gpath_cons_inv in H. destruct H as [x1 [x2 [H1 [H2 H3]]]].
  apply (gpath_noeps_nil E Hn) in H1. subst x1. exists x2. auto.
Qed.

Section Elim.
  Variable A : nfa.
  Hypothesis Hv : valid_nfa A = true.

  Definition EE := xedge (elim_rowof A).
  Definition efin (y : nat) : Prop := exists g, In g (n_finals A) /\ eps_star A y g.

  Lemma ecl_spec q x : In q (n_states A) -> (In x (ecl A q) <-> eps_star A q x).
  Proof.
    intro Hq. destruct (eclosure_spec A Hv q Hq) as [c [Ec [_ Hc]]]. unfold ecl. rewrite Ec. apply Hc.
  Qed.

  Lemma encl_spec q p : In q (n_states A) -> (In p (encl A q) <-> eps_star A q p /\ p <> q).
  Proof.
    intro Hq. unfold encl. rewrite filter_In, negb_true_iff, Nat.eqb_neq, (ecl_spec q p Hq). tauto.
  Qed.

  Lemma elim_next_spec q s y : In q (n_states A) ->
    (In y (elim_next A q s) <->
     exists p t, eps_star A q p /\ p <> q /\ n_edge A p (Some s) t /\ eps_star A t y).
  Proof.
    intro Hq. unfold elim_next. rewrite in_flat_map. split.
    - intros [p [Hp Hy]]. apply in_flat_map in Hy. destruct Hy as [t [Ht Hy]].
      apply (encl_spec q p Hq) in Hp. destruct Hp as [Hp Hne]. exists p, t. split; [exact Hp|]. split; [exact Hne|].
      split; [exact Ht|]. apply ecl_spec in Hy; [exact Hy|].
      eapply (edge_in_states A Hv); [exact Ht]. 
    - intros [p [t [Hp [Hne [Ht Hy]]]]]. exists p. split; [apply (encl_spec q p Hq); auto|].
      apply in_flat_map. exists t. split; [exact Ht|]. apply ecl_spec; [|exact Hy].
      eapply (edge_in_states A Hv). exact Ht.
  Qed.

  Lemma elim_row_tg q a y : In q (n_states A) ->
    (In y (xtg (elim_row A q) a) <->
     exists s, a = Some s /\ (n_edge A q (Some s) y \/ In y (elim_next A q s))).
  Proof.
    intro Hq. unfold elim_row. rewrite tab_tg. split.
    - intros [_ Hy]. destruct a as [s|]; [|destruct Hy]. exists s. split; [reflexivity|].
      apply in_app_or in Hy. unfold n_edge. rewrite n_targets_arow. exact Hy.
    - intros [s [-> Hy]]. unfold n_edge in Hy. rewrite n_targets_arow in Hy. split; [|apply in_or_app; exact Hy].
      apply in_or_app. destruct Hy as [Hy|Hy].
      + left. apply filter_In. split; [eapply xtg_key; exact Hy|reflexivity].
      + right. apply in_map. unfold elim_new_syms. apply filter_In. split; [|apply nonempty_In; exists y; exact Hy].
        apply (elim_next_spec q s y Hq) in Hy. destruct Hy as [p [t [_ [_ [Ht _]]]]].
        apply (edge_sym_ok A Hv) in Ht. simpl in Ht. apply memb_In. exact Ht.
  Qed.

  Lemma elim_edge_row q a y : EE q a y <-> In y (xtg (elim_row A q) a).
  Proof.
    unfold EE, xedge, elim_rowof. split.
    - intros [r [Er Hy]]. destruct (is_some (assoc q (n_trans A)) || nonempty (elim_new_syms A q)); [|discriminate].
      injection Er as <-. exact Hy.
    - intro Hy. exists (elim_row A q). split; [|exact Hy].
      replace (is_some (assoc q (n_trans A)) || nonempty (elim_new_syms A q)) with true; [reflexivity|].
      symmetry. apply orb_true_iff. unfold elim_row in Hy. apply tab_tg in Hy. destruct Hy as [Hk _].
      apply in_app_or in Hk. destruct Hk as [Hk|Hk].
      + left. apply filter_In in Hk. destruct Hk as [Hk _]. unfold arow, tr_row, row in Hk.
        destruct (assoc q (n_trans A)); [reflexivity|destruct Hk].
      + right. apply in_map_iff in Hk. destruct Hk as [s [_ Hs]]. apply nonempty_In. exists s. exact Hs.
  Qed.

  Lemma elim_edge q a y : In q (n_states A) ->
    (EE q a y <-> exists s, a = Some s /\ (n_edge A q (Some s) y \/ In y (elim_next A q s))).
  Proof. intro Hq. rewrite elim_edge_row. apply elim_row_tg. exact Hq. Qed.

  Lemma elim_no_eps q y : In q (n_states A) -> ~ EE q None y.
  Proof. intros Hq H. apply (elim_edge q None y Hq) in H. destruct H as [s [E _]]. discriminate. Qed.

  Lemma elim_sound q a y : In q (n_states A) -> EE q a y ->
    exists s p t, a = Some s /\ eps_star A q p /\ n_edge A p (Some s) t /\ eps_star A t y.
  Proof.
    intros Hq H. apply (elim_edge q a y Hq) in H. destruct H as [s [-> [H|H]]].
    - exists s, q, y. split; [reflexivity|]. split; [apply np_refl|]. split; [exact H|apply np_refl].
    - apply (elim_next_spec q s y Hq) in H. destruct H as [p [t [Hp [_ [Ht Hy]]]]]. exists s, p, t. auto.
  Qed.

  Lemma elim_complete q p s t : In q (n_states A) ->
    eps_star A q p -> n_edge A p (Some s) t -> EE q (Some s) t.
  Proof.
    intros Hq Hp Ht. apply (elim_edge q _ t Hq). exists s. split; [reflexivity|].
    destruct (Nat.eq_dec p q) as [->|Hne]; [left; exact Ht|]. right.
    apply (elim_next_spec q s t Hq). exists p, t. split; [exact Hp|]. split; [exact Hne|]. split; [exact Ht|apply np_refl].
  Qed.

  Lemma elim_step_in q a y : In q (n_states A) -> EE q a y -> In y (n_states A).
  Proof.
    intros Hq H. destruct (elim_sound q a y Hq H) as [s [p [t [_ [Hp [Ht Hy]]]]]].
    eapply (eps_star_in_states A Hv); [|exact Hy]. eapply (edge_in_states A Hv). exact Ht.
  Qed.

  Lemma elim_sym_ok q s y : In q (n_states A) -> EE q (Some s) y -> In s (n_syms A).
  Proof.
    intros Hq H. destruct (elim_sound q _ y Hq H) as [s' [p [t [E [_ [Ht _]]]]]]. inversion E; subst s'.
    apply (edge_sym_ok A Hv) in Ht. simpl in Ht. apply memb_In. exact Ht.
  Qed.

  (* paths of the eliminated graph against paths of A *)
  Lemma elim_path_sound q w y : gpath EE q w y -> In q (n_states A) -> nfa_path A q w y /\ In y (n_states A).
  Proof.
    intro H. induction H as [x|x y1 z w He Hp IH|x a y1 z w He Hp IH]; intro Hx.
    - split; [apply np_refl|exact Hx].
    - exfalso. eapply elim_no_eps; eassumption.
    - destruct (elim_sound x _ y1 Hx He) as [s [p [t [E [H1 [H2 H3]]]]]]. inversion E; subst s.
      destruct (IH (elim_step_in _ _ _ Hx He)) as [IH1 IH2]. split; [|exact IH2].
      change (a :: w) with (([] ++ [a]) ++ w). eapply nfa_path_app; [|exact IH1].
      eapply nfa_path_app; [exact H1|]. eapply np_sym; [exact H2|exact H3].
  Qed.

  Lemma elim_path_complete w : forall q f, In q (n_states A) -> nfa_path A q w f ->
    exists y, gpath EE q w y /\ eps_star A y f.
  Proof.
    induction w as [|a w IH]; intros q f Hq H.
    - exists q. split; [apply gp_refl|exact H].
    - apply nfa_path_gpath in H. apply gpath_cons_inv in H. destruct H as [p [t [H1 [H2 H3]]]].
      apply nfa_path_gpath in H1. apply nfa_path_gpath in H3.
      pose proof (elim_complete q p a t Hq H1 H2) as He.
      destruct (IH t f (elim_step_in _ _ _ Hq He) H3) as [y [Hy1 Hy2]].
      exists y. split; [eapply gp_sym; eassumption|exact Hy2].
  Qed.

  Lemma elim_accepts q w : In q (n_states A) ->
    ((exists y, gpath EE q w y /\ efin y) <-> (exists f, nfa_path A q w f /\ In f (n_finals A))).
  Proof.
    intro Hq. split.
    - intros [y [Hp [g [Hg Hy]]]]. destruct (elim_path_sound _ _ _ Hp Hq) as [Hp' _].
      exists g. split; [|exact Hg]. rewrite <- (app_nil_r w). eapply nfa_path_app; [exact Hp'|exact Hy].
    - intros [f [Hp Hf]]. destruct (elim_path_complete w q f Hq Hp) as [y [Hy1 Hy2]].
      exists y. split; [exact Hy1|]. exists f. auto.
  Qed.

  (* the final states *)
  Definition elim_step (acc : list nat) (q : nat) : list nat :=
    if existsb (fun p => memb p acc) (encl A q) then q :: acc else acc.

  Lemma elim_fold l : forall acc, incl l (n_states A) ->
    (forall x, In x acc -> In x (n_states A) /\ efin x) -> incl (n_finals A) acc ->
    let res := fold_left elim_step l acc in
    (forall x, In x res -> In x (n_states A) /\ efin x) /\ incl acc res /\
    (forall q, In q l -> efin q -> In q res).
  Proof.
    induction l as [|q l IH]; intros acc Hl Hacc HF; simpl.
    - split; [exact Hacc|]. split; [apply incl_refl|]. intros q [].
    - assert (Hq : In q (n_states A)) by (apply Hl; left; reflexivity).
      assert (Hl' : incl l (n_states A)) by (intros z Hz; apply Hl; right; exact Hz).
      assert (Hacc' : forall x, In x (elim_step acc q) -> In x (n_states A) /\ efin x).
      { unfold elim_step. destruct (existsb (fun p => memb p acc) (encl A q)) eqn:Ex; [|exact Hacc].
        intros x [<-|Hx]; [|apply Hacc; exact Hx]. split; [exact Hq|].
        apply existsb_exists in Ex. destruct Ex as [p [Hp Hpa]]. apply memb_In in Hpa.
        apply (encl_spec q p Hq) in Hp. destruct Hp as [Hp _]. destruct (Hacc p Hpa) as [_ [g [Hg Hpg]]].
        exists g. split; [exact Hg|]. unfold eps_star in *. change (nfa_path A q ([] ++ []) g). eapply nfa_path_app; eassumption. }
      assert (Hinc : incl acc (elim_step acc q)).
      { unfold elim_step. destruct (existsb (fun p => memb p acc) (encl A q)); [|apply incl_refl].
        intros z Hz. right. exact Hz. }
      assert (HF' : incl (n_finals A) (elim_step acc q)) by (intros z Hz; apply Hinc; apply HF; exact Hz).
      destruct (IH (elim_step acc q) Hl' Hacc' HF') as [R1 [R2 R3]].
      split; [exact R1|]. split; [intros z Hz; apply R2; apply Hinc; exact Hz|].
      intros q' [<-|Hq'] Hef; [|apply R3; assumption]. apply R2.
      destruct Hef as [g [Hg Hqg]]. destruct (Nat.eq_dec g q) as [->|Hne].
      + apply Hinc. apply HF. exact Hg.
      + unfold elim_step. replace (existsb (fun p => memb p acc) (encl A q)) with true; [left; reflexivity|].
        symmetry. apply existsb_exists. exists g. split; [apply (encl_spec q g Hq); auto|].
        apply memb_In. apply HF. exact Hg.
  Qed.

  Lemma elim_finals_spec f : In f (n_states A) -> (In f (elim_finals A) <-> efin f).
  Proof.
    intro Hf. destruct (ops_valid_parts A Hv) as (_ & _ & _ & _ & _ & _ & HF).
    destruct (elim_fold (n_states A) (n_finals A)) as [R1 [R2 R3]].
    - apply incl_refl.
    - intros x Hx. split; [apply HF; exact Hx|]. exists x. split; [exact Hx|apply np_refl].
    - apply incl_refl.
    - unfold elim_finals. fold elim_step. split.
      + intro H. apply R1. exact H.
      + intro H. apply R3; assumption.
  Qed.

  Lemma elim_succ q y : In y (row_targets (elim_row A q)) <-> exists a, EE q a y.
  Proof.
    unfold elim_row. rewrite tab_row_targets. split.
    - intros [a H]. exists a. apply elim_edge_row. unfold elim_row. apply tab_tg. exact H.
    - intros [a H]. exists a. apply elim_edge_row in H. unfold elim_row in H. apply tab_tg in H. exact H.
  Qed.

  Lemma elim_parts_some : exists e, elim_parts A = Ok e.
  Proof.
    destruct (ops_valid_parts A Hv) as (_ & _ & _ & _ & Hi & _).
    unfold elim_parts.
    destruct (closure Nat.eqb (fun q => row_targets (elim_row A q)) (S (length (n_states A))) [n_init A]) as [reach|] eqn:E; [eauto|].
    exfalso. revert E. apply (closure_fuel _ _ eqb_nat_ok _ (n_states A)).
    - intros x y Hx Hy. apply elim_succ in Hy. destruct Hy as [a Hy]. eapply elim_step_in; eassumption.
    - intros x [<-|[]]. exact Hi.
    - lia.
  Qed.

  Variable e : eparts.
  Hypothesis He : elim_parts A = Ok e.

  Lemma elim_parts_inv :
    closure Nat.eqb (fun q => row_targets (elim_row A q)) (S (length (n_states A))) [n_init A] = Some (e_states e) /\
    e_rowof e = elim_rowof A /\
    e_finals e = filter (fun q => memb q (elim_finals A)) (e_states e).
  Proof.
    unfold elim_parts in He.
    destruct (closure Nat.eqb (fun q => row_targets (elim_row A q)) (S (length (n_states A))) [n_init A]) as [reach|]; [|discriminate].
    injection He as <-. simpl. auto.
  Qed.

  Lemma es_init : In (n_init A) (e_states e).
  Proof.
    destruct elim_parts_inv as [Hc _]. eapply (closure_complete _ _ eqb_nat_ok); [exact Hc|].
    apply reach_init. left. reflexivity.
  Qed.

  Lemma es_NoDup : NoDup (e_states e).
  Proof. destruct elim_parts_inv as [Hc _]. eapply (closure_NoDup _ _ eqb_nat_ok). exact Hc. Qed.

  Lemma es_in_states q : In q (e_states e) -> In q (n_states A).
  Proof.
    destruct (ops_valid_parts A Hv) as (_ & _ & _ & _ & Hi & _).
    destruct elim_parts_inv as [Hc _]. intro Hq. apply (closure_sound _ _ eqb_nat_ok _ _ _ _ Hc) in Hq.
    induction Hq as [x Hx|x y Hr IH Hy]; [destruct Hx as [<-|[]]; exact Hi|].
    apply elim_succ in Hy. destruct Hy as [a Hy]. eapply elim_step_in; eassumption.
  Qed.

  Lemma es_closed q a y : In q (e_states e) -> EE q a y -> In y (e_states e).
  Proof.
    destruct elim_parts_inv as [Hc _]. intros Hq Hy.
    eapply (closure_complete _ _ eqb_nat_ok); [exact Hc|].
    eapply reach_step; [eapply (closure_sound _ _ eqb_nat_ok); [exact Hc|exact Hq]|].
    apply elim_succ. exists a. exact Hy.
  Qed.

  Lemma es_path_closed q w y : In q (e_states e) -> gpath EE q w y -> In y (e_states e).
  Proof. apply (gpath_closed EE (fun x => In x (e_states e))). intros x a y'. apply es_closed. Qed.

  Lemma es_finals f : In f (e_finals e) <-> In f (e_states e) /\ efin f.
  Proof.
    destruct elim_parts_inv as [_ [_ Hf]]. rewrite Hf, filter_In, memb_In. split.
    - intros [H1 H2]. split; [exact H1|]. apply elim_finals_spec; [apply es_in_states; exact H1|exact H2].
    - intros [H1 H2]. split; [exact H1|]. apply elim_finals_spec; [apply es_in_states; exact H1|exact H2].
  Qed.

  (* rows of the eliminated automaton as used by the quotients *)
  Lemma erow_tg q a y : In y (xtg (erow e q) a) <-> EE q a y.
  Proof.
    destruct elim_parts_inv as [_ [Hr _]]. unfold erow, EE, xedge. rewrite Hr. split.
    - intro H. destruct (elim_rowof A q) as [r|]; [exists r; auto|unfold xtg in H; simpl in H; destruct H].
    - intros [r [Er H]]. rewrite Er. exact H.
  Qed.

  Lemma erow_key_sym q a : In q (n_states A) -> In a (map fst (erow e q)) -> exists s, a = Some s /\ In s (n_syms A).
  Proof.
    destruct elim_parts_inv as [_ [Hr _]]. intros Hq Ha. unfold erow in Ha. rewrite Hr in Ha.
    unfold elim_rowof in Ha. destruct (is_some (assoc q (n_trans A)) || nonempty (elim_new_syms A q)); [|destruct Ha].
    unfold elim_row in Ha. rewrite tab_keys in Ha. apply in_app_or in Ha. destruct Ha as [Ha|Ha].
    - apply filter_In in Ha. destruct Ha as [Ha Hs]. destruct a as [s|]; [|discriminate]. exists s. split; [reflexivity|].
      apply in_map_iff in Ha. destruct Ha as [[a' l] [Ea Hl]]. simpl in Ea. subst a'.
      destruct (arow_entry A Hv _ _ _ Hl) as [Hok _]. simpl in Hok. apply memb_In. exact Hok.
    - apply in_map_iff in Ha. destruct Ha as [s [<- Hs]]. exists s. split; [reflexivity|].
      unfold elim_new_syms in Hs. apply filter_In in Hs. apply Hs.
  Qed.

  (* the language seen from the initial state *)
  Lemma elim_lang w :
    (exists f, gpath EE (n_init A) w f /\ In f (e_finals e)) <-> L_nfa A w.
  Proof.
    destruct (ops_valid_parts A Hv) as (_ & _ & _ & _ & Hi & _). unfold L_nfa.
    rewrite <- (elim_accepts (n_init A) w Hi). split.
    - intros [f [Hp Hf]]. apply es_finals in Hf. exists f. split; [exact Hp|apply Hf].
    - intros [f [Hp Hf]]. exists f. split; [exact Hp|]. apply es_finals. split; [|exact Hf].
      eapply es_path_closed; [apply es_init|exact Hp].
  Qed.
End Elim.

(* ------------------------------------------------------------------ *)
(* quotients: shared facts about the joint moves of two eliminated automata *)
Lemma elim_no_eps_any A q y : ~ EE A q None y.
Proof.
  intro H. apply elim_edge_row in H. unfold elim_row in H. apply tab_tg in H. destruct H as [_ []].
Qed.

Lemma joint_targets_In (ra rb : xrow nat) syms p :
  In p (joint_targets ra rb syms) <->
  exists s, In s syms /\ In (fst p) (xtg ra (Some s)) /\ In (snd p) (xtg rb (Some s)).
Proof.
  unfold joint_targets, joint_keys. rewrite in_flat_map. destruct p as [p1 p2]. simpl. split.
  - intros [s [Hs Hp]]. apply filter_In in Hs. apply in_prod_iff in Hp. exists s. tauto.
  - intros [s [Hs [H1 H2]]]. exists s. split; [|apply in_prod_iff; auto].
    apply filter_In. split; [exact Hs|]. apply andb_true_iff. split; apply has_key_In; eapply xtg_key; eassumption.
Qed.

Lemma joint_keys_nonempty (ra rb : xrow nat) syms p :
  In p (joint_targets ra rb syms) -> joint_keys ra rb syms <> [].
Proof.
  unfold joint_targets. intro H. apply in_flat_map in H. destruct H as [s [Hs _]]. intro E. rewrite E in Hs. destruct Hs.
Qed.

Section Quot.
  Variables A B : nfa.
  Hypothesis HvA : valid_nfa A = true.
  Hypothesis HvB : valid_nfa B = true.
  Variables ea eb : eparts.
  Hypothesis Hea : elim_parts A = Ok ea.
  Hypothesis Heb : elim_parts B = Ok eb.

  Let syms := usyms A B.
  Let iA := n_init A.
  Let iB := n_init B.
  Let EA := EE A.
  Let EB := EE B.

  (* one joint move *)
  Definition jstep (qa qb ta tb : nat) : Prop := exists s, EA qa (Some s) ta /\ EB qb (Some s) tb.

  Lemma joint_In qa qb ta tb : In qa (n_states A) ->
    (In (ta, tb) (joint_targets (erow ea qa) (erow eb qb) syms) <-> jstep qa qb ta tb).
  Proof.
    intro Hqa. rewrite joint_targets_In. simpl. unfold jstep. split.
    - intros [s [_ [H1 H2]]]. exists s. split; [apply (erow_tg A ea Hea); exact H1|apply (erow_tg B eb Heb); exact H2].
    - intros [s [H1 H2]]. exists s. split; [|split; [apply (erow_tg A ea Hea); exact H1|apply (erow_tg B eb Heb); exact H2]].
      apply (elim_sym_ok A HvA) in H1; [|exact Hqa]. unfold syms, usyms. apply set_of_In. apply in_or_app. left. exact H1.
  Qed.

  Lemma jstep_in qa qb ta tb : In qa (n_states A) -> In qb (n_states B) -> jstep qa qb ta tb ->
    In ta (n_states A) /\ In tb (n_states B).
  Proof.
    intros Ha Hb [s [H1 H2]]. split; [eapply (elim_step_in A HvA); eassumption|eapply (elim_step_in B HvB); eassumption].
  Qed.

  (* sequences of joint moves = reading one common word on both sides *)
  Inductive jpath : nat * nat -> nat * nat -> Prop :=
  | jp_refl x : jpath x x
  | jp_step qa qb ta tb y : jstep qa qb ta tb -> jpath (ta, tb) y -> jpath (qa, qb) y.

  Lemma jpath_word x y : jpath x y ->
    exists v, gpath EA (fst x) v (fst y) /\ gpath EB (snd x) v (snd y).
  Proof.
    intro H. induction H as [x|qa qb ta tb y [s [H1 H2]] Hp [v [IH1 IH2]]].
    - exists []. split; apply gp_refl.
    - exists (s :: v). simpl in *. split; eapply gp_sym; eassumption.
  Qed.

  Lemma word_jpath qa v ta : gpath EA qa v ta -> forall qb tb, gpath EB qb v tb -> jpath (qa, qb) (ta, tb).
  Proof.
    intro H. induction H as [qa|qa q1 ta v He Hp IH|qa s q1 ta v He Hp IH]; intros qb tb HB.
    - apply (gpath_noeps_nil EB (elim_no_eps_any B)) in HB. subst. apply jp_refl.
    - exfalso. eapply elim_no_eps_any. exact He.
    - apply (gpath_noeps_cons EB (elim_no_eps_any B)) in HB. destruct HB as [q2 [H2 H3]].
      eapply jp_step; [exists s; split; eassumption|]. apply IH. exact H3.
  Qed.

  Lemma jpath_in x y : jpath x y -> In (fst x) (n_states A) -> In (snd x) (n_states B) ->
    In (fst y) (n_states A) /\ In (snd y) (n_states B).
  Proof.
    intro H. induction H as [x|qa qb ta tb y Hs Hp IH]; intros Ha Hb; [auto|].
    simpl in *. destruct (jstep_in _ _ _ _ Ha Hb Hs) as [Ha' Hb']. apply IH; assumption.
  Qed.

  Lemma iA_in : In iA (n_states A).
  Proof. destruct (ops_valid_parts A HvA) as (_ & _ & _ & _ & Hi & _). exact Hi. Qed.
  Lemma iB_in : In iB (n_states B).
  Proof. destruct (ops_valid_parts B HvB) as (_ & _ & _ & _ & Hi & _). exact Hi. Qed.

  (* ---------------- right quotient ---------------- *)
  Let rowR := rq_rowof ea eb syms iB.
  Let ER := xedge rowR.

  Lemma rq_edge_F q qb a y :
    ER (q, qb, false) a y <->
    (a = None /\ y = (q, iB, true)) \/ (exists s t, a = Some s /\ EA q (Some s) t /\ y = (t, iB, false)).
  Proof.
    unfold ER, xedge, rowR, rq_rowof. simpl. split.
    - intros [r [Er Hy]]. injection Er as <-. apply tab_tg in Hy. destruct Hy as [_ Hy].
      destruct a as [s|].
      + right. apply in_map_iff in Hy. destruct Hy as [t [<- Ht]]. exists s, t.
        split; [reflexivity|]. split; [apply (erow_tg A ea Hea); exact Ht|reflexivity].
      + left. destruct Hy as [<-|[]]. auto.
    - intros [[-> ->]|[s [t [-> [Ht ->]]]]]; (eexists; split; [reflexivity|]); apply tab_tg.
      + split; [apply in_or_app; right; left; reflexivity|left; reflexivity].
      + apply (erow_tg A ea Hea) in Ht. split; [apply in_or_app; left; eapply xtg_key; exact Ht|].
        apply in_map_iff. exists t. auto.
  Qed.

  Lemma rq_edge_T qa qb a y : In qa (n_states A) ->
    (ER (qa, qb, true) a y <-> a = None /\ exists ta tb, jstep qa qb ta tb /\ y = (ta, tb, true)).
  Proof.
    intro Hqa. unfold ER, xedge, rowR, rq_rowof. simpl. split.
    - intros [r [Er Hy]].
      destruct (joint_keys (erow ea qa) (erow eb qb) syms) as [|k ks] eqn:Ek; [discriminate|].
      injection Er as <-. unfold xtg in Hy. destruct a as [s|]; simpl in Hy; [destruct Hy|].
      split; [reflexivity|]. apply in_map_iff in Hy. destruct Hy as [[ta tb] [<- Hp]].
      exists ta, tb. split; [|reflexivity]. apply joint_In; assumption.
    - intros [-> [ta [tb [Hs ->]]]]. apply (joint_In qa qb ta tb Hqa) in Hs.
      pose proof (joint_keys_nonempty _ _ _ _ Hs) as Hne.
      destruct (joint_keys (erow ea qa) (erow eb qb) syms) as [|k ks] eqn:Ek; [congruence|].
      eexists. split; [reflexivity|]. unfold xtg. simpl. apply in_map_iff. exists (ta, tb). auto.
  Qed.

  Lemma rq_T_path x w y : gpath ER x w y -> snd x = true ->
    In (fst (fst x)) (n_states A) -> In (snd (fst x)) (n_states B) ->
    w = [] /\ snd y = true /\ jpath (fst x) (fst y).
  Proof.
    intro H. induction H as [x|x y1 z w He Hp IH|x a y1 z w He Hp IH]; intros Hx Ha Hb.
    - split; [reflexivity|]. split; [exact Hx|apply jp_refl].
    - destruct x as [[qa qb] fl]. simpl in *. subst fl. apply rq_edge_T in He; [|exact Ha].
      destruct He as [_ [ta [tb [Hs ->]]]]. destruct (jstep_in _ _ _ _ Ha Hb Hs) as [Ha' Hb'].
      destruct (IH eq_refl Ha' Hb') as [-> [Hz Hj]]. split; [reflexivity|]. split; [exact Hz|].
      eapply jp_step; eassumption.
    - destruct x as [[qa qb] fl]. simpl in *. subst fl. apply rq_edge_T in He; [|exact Ha].
      destruct He as [E _]. discriminate.
  Qed.

  Lemma rq_T_complete x y : jpath x y -> In (fst x) (n_states A) -> In (snd x) (n_states B) ->
    gpath ER (x, true) [] (y, true).
  Proof.
    intro H. induction H as [x|qa qb ta tb y Hs Hp IH]; intros Ha Hb; [apply gp_refl|]. simpl in *.
    destruct (jstep_in _ _ _ _ Ha Hb Hs) as [Ha' Hb'].
    eapply gp_eps; [|apply IH; assumption]. apply rq_edge_T; [exact Ha|]. split; [reflexivity|]. exists ta, tb. auto.
  Qed.

  Lemma rq_F_path x w y : gpath ER x w y -> snd x = false -> snd y = true ->
    In (fst (fst x)) (n_states A) ->
    exists q', gpath EA (fst (fst x)) w q' /\ In q' (n_states A) /\ jpath (q', iB) (fst y).
  Proof.
    intro H. induction H as [x|x y1 z w He Hp IH|x a y1 z w He Hp IH]; intros Hx Hy Ha.
    - congruence.
    - destruct x as [[q qb] fl]. simpl in *. subst fl. apply rq_edge_F in He.
      destruct He as [[_ ->]|[s [t [E _]]]]; [|discriminate].
      destruct (rq_T_path _ _ _ Hp eq_refl Ha iB_in) as [-> [_ Hj]].
      exists q. split; [apply gp_refl|]. split; [exact Ha|exact Hj].
    - destruct x as [[q qb] fl]. simpl in *. subst fl. apply rq_edge_F in He.
      destruct He as [[E _]|[s [t [E [Ht ->]]]]]; [discriminate|]. inversion E; subst s.
      destruct (IH eq_refl Hy (elim_step_in A HvA _ _ _ Ha Ht)) as [q' [H1 [H2 H3]]].
      exists q'. split; [eapply gp_sym; eassumption|]. auto.
  Qed.

  Lemma rq_F_complete q w q' : gpath EA q w q' -> gpath ER (q, iB, false) w (q', iB, false).
  Proof.
    intro H. induction H as [q|q q1 q' w He Hp IH|q s q1 q' w He Hp IH].
    - apply gp_refl.
    - exfalso. eapply elim_no_eps_any. exact He.
    - eapply gp_sym; [|exact IH]. apply rq_edge_F. right. exists s, q1. auto.
  Qed.

  Let finQ := map (fun p : nat * nat => (p, true)) (list_prod (e_finals ea) (e_finals eb)).

  Lemma finQ_In y : In y finQ <-> snd y = true /\ In (fst (fst y)) (e_finals ea) /\ In (snd (fst y)) (e_finals eb).
  Proof.
    unfold finQ. rewrite in_map_iff. split.
    - intros [[p1 p2] [<- Hp]]. apply in_prod_iff in Hp. simpl. tauto.
    - intros [H1 [H2 H3]]. destruct y as [[y1 y2] fl]. simpl in *. subst fl. exists (y1, y2). split; [reflexivity|].
      apply in_prod_iff. auto.
  Qed.

  Lemma rq_graph_lang w :
    (exists y, gpath ER (iA, iB, false) w y /\ In y finQ) <-> l_rquot (L_nfa A) (L_nfa B) w.
  Proof.
    unfold l_rquot. split.
    - intros [y [Hp Hy]]. apply finQ_In in Hy. destruct Hy as [Hy [Fa Fb]].
      destruct (rq_F_path _ _ _ Hp eq_refl Hy iA_in) as [q' [H1 [H2 H3]]]. simpl in H1.
      apply jpath_word in H3. destruct H3 as [v [H3 H4]]. simpl in H3, H4. exists v. split.
      + apply (elim_lang B HvB eb Heb). exists (snd (fst y)). auto.
      + apply (elim_lang A HvA ea Hea). exists (fst (fst y)). split; [|exact Fa]. eapply gpath_app; eassumption.
    - intros [v [HB HA]]. apply (elim_lang B HvB eb Heb) in HB. apply (elim_lang A HvA ea Hea) in HA.
      destruct HB as [fb [Hb Fb]]. destruct HA as [fa [Ha Fa]].
      apply gpath_app_inv in Ha. destruct Ha as [q' [H1 H2]].
      exists (fa, fb, true). split; [|apply finQ_In; simpl; auto].
      rewrite <- (app_nil_r w). eapply gpath_app; [apply rq_F_complete; exact H1|].
      eapply gp_eps; [apply rq_edge_F; left; split; reflexivity|].
      apply (rq_T_complete (q', iB) (fa, fb)); simpl.
      + eapply word_jpath; eassumption.
      + destruct (elim_path_sound A HvA _ _ _ H1 iA_in) as [_ H]. exact H.
      + exact iB_in.
  Qed.

  Let xsR := rq_xs ea eb iB.

  Lemma rq_xs_In x : In x xsR <->
    (snd x = false /\ snd (fst x) = iB /\ In (fst (fst x)) (e_states ea)) \/
    (snd x = true /\ In (fst (fst x)) (e_states ea) /\ In (snd (fst x)) (e_states eb)).
  Proof.
    unfold xsR, rq_xs. rewrite in_app_iff, !in_map_iff. split.
    - intros [[q [<- Hq]]|[[p1 p2] [<- Hp]]]; simpl; [left; auto|right]. apply in_prod_iff in Hp. tauto.
    - destruct x as [[x1 x2] fl]. simpl. intros [[-> [-> H]]|[-> [H1 H2]]].
      + left. exists x1. auto.
      + right. exists (x1, x2). split; [reflexivity|apply in_prod_iff; auto].
  Qed.

  Lemma rq_xs_NoDup : NoDup xsR.
  Proof.
    unfold xsR, rq_xs. apply NoDup_app_intro.
    - apply NoDup_map_on; [apply (es_NoDup A ea Hea)|]. intros x y _ _ E. inversion E. reflexivity.
    - apply NoDup_map_on; [apply NoDup_list_prod; [apply (es_NoDup A ea Hea)|apply (es_NoDup B eb Heb)]|].
      intros x y _ _ E. inversion E. reflexivity.
    - intros x H1 H2. apply in_map_iff in H1. apply in_map_iff in H2.
      destruct H1 as [q [<- _]]. destruct H2 as [p [E _]]. discriminate.
  Qed.

  Lemma rq_rows_ok : rows_ok xsR syms rowR.
  Proof.
    intros [[q qb] fl] r Hx Er a l Hal. apply rq_xs_In in Hx. simpl in Hx.
    destruct Hx as [[-> [-> Hq]]|[-> [Hqa Hqb]]].
    - pose proof (es_in_states A HvA ea Hea _ Hq) as HqA.
      unfold rowR, rq_rowof in Er. simpl in Er. injection Er as <-.
      pose proof (tab_entry _ _ _ _ Hal) as [Hk ->]. split.
      + apply in_app_or in Hk. destruct Hk as [Hk|[<-|[]]]; [|reflexivity].
        destruct (erow_key_sym A HvA ea Hea q a HqA Hk) as [s [-> Hs]]. apply usyms_l. simpl. apply memb_In. exact Hs.
      + intros y Hy. apply rq_xs_In. destruct a as [s|].
        * apply in_map_iff in Hy. destruct Hy as [t [<- Ht]]. left. simpl. split; [reflexivity|]. split; [reflexivity|].
          apply (erow_tg A ea Hea) in Ht. eapply (es_closed A ea Hea); eassumption.
        * destruct Hy as [<-|[]]. right. simpl. split; [reflexivity|]. split; [exact Hq|apply (es_init B eb Heb)].
    - pose proof (es_in_states A HvA ea Hea _ Hqa) as HqA.
      unfold rowR, rq_rowof in Er. simpl in Er.
      destruct (joint_keys (erow ea q) (erow eb qb) syms) as [|k ks] eqn:Ek; [discriminate|].
      injection Er as <-. destruct Hal as [Hal|[]]. injection Hal as <- <-. split; [reflexivity|].
      intros y Hy. apply in_map_iff in Hy. destruct Hy as [[ta tb] [<- Hp]].
      apply (joint_In q qb ta tb HqA) in Hp. destruct Hp as [s [H1 H2]].
      apply rq_xs_In. right. simpl. split; [reflexivity|].
      split; [eapply (es_closed A ea Hea); eassumption|eapply (es_closed B eb Heb); eassumption].
  Qed.

  Lemma rq_x0 : In (iA, iB, false) xsR.
  Proof. apply rq_xs_In. left. simpl. split; [reflexivity|]. split; [reflexivity|apply (es_init A ea Hea)]. Qed.

  Lemma rq_fin_incl : incl finQ xsR.
  Proof.
    intros y Hy. apply finQ_In in Hy. destruct Hy as [H1 [H2 H3]]. apply rq_xs_In. right.
    apply (es_finals A HvA ea Hea) in H2. apply (es_finals B HvB eb Heb) in H3. tauto.
  Qed.

  Lemma rq_pre_valid : valid_nfa (rq_pre A B ea eb) = true.
  Proof.
    unfold rq_pre. apply asm_valid.
    - intros x y. apply tidx_inj.
    - apply rq_rows_ok.
    - apply rq_x0.
    - apply rq_fin_incl.
    - apply rq_xs_NoDup.
    - apply usyms_NoDup.
    - left. unfold rq_rowof. simpl. discriminate.
  Qed.

  Lemma rq_pre_lang : L_nfa (rq_pre A B ea eb) =L l_rquot (L_nfa A) (L_nfa B).
  Proof.
    intro w. unfold rq_pre. rewrite asm_lang.
    2: intros x y; apply tidx_inj. 2: apply rq_rows_ok. 2: apply rq_x0. 2: apply rq_fin_incl.
    apply rq_graph_lang.
  Qed.

  (* ---------------- left quotient ---------------- *)
  Let x0L : triple := (iA, iB, false).
  Let rowL := lq_rowof ea eb syms x0L.
  Let EL := xedge rowL.

  Lemma lq_edge_T qa qb a y :
    EL (qa, qb, true) a y <-> exists s t, a = Some s /\ EA qa (Some s) t /\ y = (t, qb, true).
  Proof.
    unfold EL, xedge, rowL, lq_rowof. simpl. split.
    - intros [r [Er Hy]]. injection Er as <-. apply tab_tg in Hy. destruct Hy as [_ Hy].
      apply in_map_iff in Hy. destruct Hy as [t [<- Ht]]. apply (erow_tg A ea Hea) in Ht.
      destruct a as [s|]; [|exfalso; eapply elim_no_eps_any; exact Ht]. exists s, t. auto.
    - intros [s [t [-> [Ht ->]]]]. eexists. split; [reflexivity|]. apply (erow_tg A ea Hea) in Ht.
      apply tab_tg. split; [eapply xtg_key; exact Ht|]. apply in_map_iff. exists t. auto.
  Qed.

  Lemma lq_edge_F qa qb a y : In qa (n_states A) ->
    (EL (qa, qb, false) a y <->
     a = None /\ ((exists ta tb, jstep qa qb ta tb /\ y = (ta, tb, false)) \/
                  (In qb (e_finals eb) /\ y = (qa, qb, true)))).
  Proof.
    intro Hqa. unfold EL, xedge, rowL, lq_rowof. simpl. split.
    - intros [r [Er Hy]].
      destruct (nonempty (joint_keys (erow ea qa) (erow eb qb) syms) || memb qb (e_finals eb)) eqn:Ec.
      + injection Er as <-. unfold xtg in Hy. destruct a as [s|]; simpl in Hy; [destruct Hy|].
        split; [reflexivity|]. apply in_app_or in Hy. destruct Hy as [Hy|Hy].
        * left. apply in_map_iff in Hy. destruct Hy as [[ta tb] [<- Hp]]. exists ta, tb.
          split; [apply joint_In; assumption|reflexivity].
        * right. destruct (memb qb (e_finals eb)) eqn:Ef; [|destruct Hy]. destruct Hy as [<-|[]].
          split; [apply memb_In; exact Ef|reflexivity].
      + destruct (eqb_ppb (qa, qb, false) x0L); [|discriminate]. injection Er as <-.
        unfold xtg in Hy. simpl in Hy. destruct Hy.
    - intros [-> [[ta [tb [Hs ->]]]|[Hf ->]]].
      + apply (joint_In qa qb ta tb Hqa) in Hs. pose proof (joint_keys_nonempty _ _ _ _ Hs) as Hne.
        destruct (joint_keys (erow ea qa) (erow eb qb) syms) as [|k ks] eqn:Ek; [congruence|]. simpl.
        eexists. split; [reflexivity|]. unfold xtg. simpl. apply in_or_app. left.
        apply in_map_iff. exists (ta, tb). auto.
      + apply memb_In in Hf. rewrite Hf. rewrite orb_true_r.
        eexists. split; [reflexivity|]. unfold xtg. simpl. apply in_or_app. right. left. reflexivity.
  Qed.

  Lemma lq_T_path x w y : gpath EL x w y -> snd x = true ->
    snd y = true /\ snd (fst y) = snd (fst x) /\ gpath EA (fst (fst x)) w (fst (fst y)).
  Proof.
    intro H. induction H as [x|x y1 z w He Hp IH|x a y1 z w He Hp IH]; intro Hx.
    - split; [exact Hx|]. split; [reflexivity|apply gp_refl].
    - destruct x as [[qa qb] fl]. simpl in *. subst fl. apply lq_edge_T in He.
      destruct He as [s [t [E _]]]. discriminate.
    - destruct x as [[qa qb] fl]. simpl in *. subst fl. apply lq_edge_T in He.
      destruct He as [s [t [E [Ht ->]]]]. inversion E; subst s.
      destruct (IH eq_refl) as [H1 [H2 H3]]. simpl in *. split; [exact H1|]. split; [exact H2|].
      eapply gp_sym; eassumption.
  Qed.

  Lemma lq_T_complete qa w fa qb : gpath EA qa w fa -> gpath EL (qa, qb, true) w (fa, qb, true).
  Proof.
    intro H. induction H as [q|q q1 q' w He Hp IH|q s q1 q' w He Hp IH].
    - apply gp_refl.
    - exfalso. eapply elim_no_eps_any. exact He.
    - eapply gp_sym; [|exact IH]. apply lq_edge_T. exists s, q1. auto.
  Qed.

  Lemma lq_F_path x w y : gpath EL x w y -> snd x = false -> snd y = true ->
    In (fst (fst x)) (n_states A) -> In (snd (fst x)) (n_states B) ->
    exists qa qb, jpath (fst x) (qa, qb) /\ In qb (e_finals eb) /\ snd (fst y) = qb /\
                  gpath EA qa w (fst (fst y)).
  Proof.
    intro H. induction H as [x|x y1 z w He Hp IH|x a y1 z w He Hp IH]; intros Hx Hy Ha Hb.
    - congruence.
    - destruct x as [[qa qb] fl]. simpl in *. subst fl. apply lq_edge_F in He; [|exact Ha].
      destruct He as [_ [[ta [tb [Hs ->]]]|[Hf ->]]].
      + destruct (jstep_in _ _ _ _ Ha Hb Hs) as [Ha' Hb'].
        destruct (IH eq_refl Hy Ha' Hb') as [qa' [qb' [H1 H2]]]. exists qa', qb'.
        split; [eapply jp_step; eassumption|exact H2].
      + destruct (lq_T_path _ _ _ Hp eq_refl) as [_ [H2 H3]]. simpl in *.
        exists qa, qb. split; [apply jp_refl|]. auto.
    - destruct x as [[qa qb] fl]. simpl in *. subst fl. apply lq_edge_F in He; [|exact Ha].
      destruct He as [E _]. discriminate.
  Qed.

  Lemma lq_F_complete x y : jpath x y -> In (fst x) (n_states A) -> In (snd x) (n_states B) ->
    gpath EL (x, false) [] (y, false).
  Proof.
    intro H. induction H as [x|qa qb ta tb y Hs Hp IH]; intros Ha Hb; [apply gp_refl|]. simpl in *.
    destruct (jstep_in _ _ _ _ Ha Hb Hs) as [Ha' Hb'].
    eapply gp_eps; [|apply IH; assumption]. apply lq_edge_F; [exact Ha|]. split; [reflexivity|]. left. exists ta, tb. auto.
  Qed.

  Lemma lq_graph_lang w :
    (exists y, gpath EL x0L w y /\ In y finQ) <-> l_lquot (L_nfa A) (L_nfa B) w.
  Proof.
    unfold l_lquot. split.
    - intros [y [Hp Hy]]. apply finQ_In in Hy. destruct Hy as [Hy [Fa Fb]].
      destruct (lq_F_path _ _ _ Hp eq_refl Hy iA_in iB_in) as [qa [qb [H1 [H2 [H3 H4]]]]].
      apply jpath_word in H1. destruct H1 as [u [H5 H6]]. simpl in H5, H6. exists u. split.
      + apply (elim_lang B HvB eb Heb). exists qb. auto.
      + apply (elim_lang A HvA ea Hea). exists (fst (fst y)). split; [|exact Fa]. eapply gpath_app; eassumption.
    - intros [u [HB HA]]. apply (elim_lang B HvB eb Heb) in HB. apply (elim_lang A HvA ea Hea) in HA.
      destruct HB as [fb [Hb Fb]]. destruct HA as [fa [Ha Fa]].
      apply gpath_app_inv in Ha. destruct Ha as [q' [H1 H2]].
      exists (fa, fb, true). split; [|apply finQ_In; simpl; auto].
      change w with ([] ++ w). eapply gpath_app.
      + apply (lq_F_complete (iA, iB) (q', fb)); [eapply word_jpath; eassumption|exact iA_in|exact iB_in].
      + eapply gp_eps; [|apply lq_T_complete; exact H2]. apply lq_edge_F.
        * destruct (elim_path_sound A HvA _ _ _ H1 iA_in) as [_ H]. exact H.
        * split; [reflexivity|]. right. auto.
  Qed.

  Let xsL := lq_xs ea eb.

  Lemma lq_xs_In x : In x xsL <->
    (snd x = false /\ In (fst (fst x)) (e_states ea) /\ In (snd (fst x)) (e_states eb)) \/
    (snd x = true /\ In (fst (fst x)) (e_states ea) /\ In (snd (fst x)) (e_finals eb)).
  Proof.
    unfold xsL, lq_xs. rewrite in_app_iff, !in_map_iff. split.
    - intros [[[p1 p2] [<- Hp]]|[[p1 p2] [<- Hp]]]; apply in_prod_iff in Hp; simpl; tauto.
    - destruct x as [[x1 x2] fl]. simpl. intros [[-> [H1 H2]]|[-> [H1 H2]]]; [left|right];
        (exists (x1, x2); split; [reflexivity|apply in_prod_iff; auto]).
  Qed.

  Lemma eb_finals_NoDup : NoDup (e_finals eb).
  Proof.
    destruct (elim_parts_inv B eb Heb) as [_ [_ Hf]]. rewrite Hf. apply NoDup_filter. apply (es_NoDup B eb Heb).
  Qed.

  Lemma lq_xs_NoDup : NoDup xsL.
  Proof.
    unfold xsL, lq_xs. apply NoDup_app_intro.
    - apply NoDup_map_on; [apply NoDup_list_prod; [apply (es_NoDup A ea Hea)|apply (es_NoDup B eb Heb)]|].
      intros x y _ _ E. inversion E. reflexivity.
    - apply NoDup_map_on; [apply NoDup_list_prod; [apply (es_NoDup A ea Hea)|apply eb_finals_NoDup]|].
      intros x y _ _ E. inversion E. reflexivity.
    - intros x H1 H2. apply in_map_iff in H1. apply in_map_iff in H2.
      destruct H1 as [q [<- _]]. destruct H2 as [p [E _]]. discriminate.
  Qed.

  Lemma lq_rows_ok : rows_ok xsL syms rowL.
  Proof.
    intros [[qa qb] fl] r Hx Er a l Hal. apply lq_xs_In in Hx. simpl in Hx.
    destruct Hx as [[-> [Hqa Hqb]]|[-> [Hqa Hqb]]]; pose proof (es_in_states A HvA ea Hea _ Hqa) as HqA;
      unfold rowL, lq_rowof in Er; simpl in Er.
    - destruct (nonempty (joint_keys (erow ea qa) (erow eb qb) syms) || memb qb (e_finals eb)).
      + injection Er as <-. destruct Hal as [Hal|[]]. injection Hal as <- <-. split; [reflexivity|].
        intros y Hy. apply in_app_or in Hy. apply lq_xs_In. destruct Hy as [Hy|Hy].
        * apply in_map_iff in Hy. destruct Hy as [[ta tb] [<- Hp]].
          apply (joint_In qa qb ta tb HqA) in Hp. destruct Hp as [s [H1 H2]]. left. simpl. split; [reflexivity|].
          split; [eapply (es_closed A ea Hea); eassumption|eapply (es_closed B eb Heb); eassumption].
        * destruct (memb qb (e_finals eb)) eqn:Ef; [|destruct Hy]. destruct Hy as [<-|[]].
          right. simpl. split; [reflexivity|]. split; [exact Hqa|apply memb_In; exact Ef].
      + destruct (eqb_ppb (qa, qb, false) x0L); [|discriminate]. injection Er as <-. destruct Hal.
    - injection Er as <-. pose proof (tab_entry _ _ _ _ Hal) as [Hk ->]. split.
      + destruct (erow_key_sym A HvA ea Hea qa a HqA Hk) as [s [-> Hs]]. apply usyms_l. simpl. apply memb_In. exact Hs.
      + intros y Hy. apply in_map_iff in Hy. destruct Hy as [t [<- Ht]]. apply (erow_tg A ea Hea) in Ht.
        apply lq_xs_In. right. simpl. split; [reflexivity|]. split; [eapply (es_closed A ea Hea); eassumption|exact Hqb].
  Qed.

  Lemma lq_x0 : In x0L xsL.
  Proof.
    apply lq_xs_In. left. simpl. split; [reflexivity|]. split; [apply (es_init A ea Hea)|apply (es_init B eb Heb)].
  Qed.

  Lemma lq_fin_incl : incl finQ xsL.
  Proof.
    intros y Hy. apply finQ_In in Hy. destruct Hy as [H1 [H2 H3]]. apply lq_xs_In. right.
    apply (es_finals A HvA ea Hea) in H2. tauto.
  Qed.

  Lemma lq_pre_valid : valid_nfa (lq_pre A B ea eb) = true.
  Proof.
    unfold lq_pre. apply asm_valid.
    - intros x y. apply tidx_inj.
    - apply lq_rows_ok.
    - apply lq_x0.
    - apply lq_fin_incl.
    - apply lq_xs_NoDup.
    - apply usyms_NoDup.
    - left. unfold lq_rowof. simpl.
      destruct (nonempty (joint_keys (erow ea (n_init A)) (erow eb (n_init B)) (usyms A B)) || memb (n_init B) (e_finals eb));
        [discriminate|].
      rewrite (eqb_ok_refl _ eqb_ppb_ok). discriminate.
  Qed.

  Lemma lq_pre_lang : L_nfa (lq_pre A B ea eb) =L l_lquot (L_nfa A) (L_nfa B).
  Proof.
    intro w. unfold lq_pre. rewrite asm_lang.
    2: intros x y; apply tidx_inj. 2: apply lq_rows_ok. 2: apply lq_x0. 2: apply lq_fin_incl.
    apply lq_graph_lang.
  Qed.
End Quot.

Section QuotThms.
  Variables A B : nfa.
  Hypothesis HvA : valid_nfa A = true.
  Hypothesis HvB : valid_nfa B = true.

  Theorem ops_rquot_total : exists R, nfa_right_quotient A B = Ok R /\ valid_nfa R = true.
  Proof.
    destruct (elim_parts_some A HvA) as [ea Hea]. destruct (elim_parts_some B HvB) as [eb Heb].
    exists (rq_pre A B ea eb). split; [|apply rq_pre_valid; assumption].
    unfold nfa_right_quotient. rewrite Hea, Heb. simpl. apply check_nfa_ok. apply rq_pre_valid; assumption.
  Qed.

  Theorem ops_rquot_lang R : nfa_right_quotient A B = Ok R -> L_nfa R =L l_rquot (L_nfa A) (L_nfa B).
  Proof.
    unfold nfa_right_quotient. destruct (elim_parts A) as [ea|] eqn:Hea; [|discriminate].
    destruct (elim_parts B) as [eb|] eqn:Heb; [|discriminate]. simpl.
    intro H. apply check_nfa_inv in H. destruct H as [-> _]. apply rq_pre_lang; assumption.
  Qed.

  Theorem ops_lquot_total : exists R, nfa_left_quotient A B = Ok R /\ valid_nfa R = true.
  Proof.
    destruct (elim_parts_some A HvA) as [ea Hea]. destruct (elim_parts_some B HvB) as [eb Heb].
    exists (lq_pre A B ea eb). split; [|apply lq_pre_valid; assumption].
    unfold nfa_left_quotient. rewrite Hea, Heb. simpl. apply check_nfa_ok. apply lq_pre_valid; assumption.
  Qed.

  Theorem ops_lquot_lang R : nfa_left_quotient A B = Ok R -> L_nfa R =L l_lquot (L_nfa A) (L_nfa B).
  Proof.
    unfold nfa_left_quotient. destruct (elim_parts A) as [ea|] eqn:Hea; [|discriminate].
    destruct (elim_parts B) as [eb|] eqn:Heb; [|discriminate]. simpl.
    intro H. apply check_nfa_inv in H. destruct H as [-> _]. apply lq_pre_lang; assumption.
  Qed.
End QuotThms.

(* ------------------------------------------------------------------ *)
(* eliminate_lambda as a public operation (shared with C07; names prefixed ops_) *)
Section ElimOp.
  Variable A : nfa.
  Hypothesis Hv : valid_nfa A = true.
  Variable e : eparts.
  Hypothesis He : elim_parts A = Ok e.

  Let R := assemble idn (e_states e) (n_syms A) (e_rowof e) (n_init A) (e_finals e).

  Lemma e_rowof_eq : e_rowof e = elim_rowof A.
  Proof. destruct (elim_parts_inv A e He) as [_ [H _]]. exact H. Qed.

  Lemma elimop_rows_ok : rows_ok (e_states e) (n_syms A) (e_rowof e).
  Proof.
    intros x r Hx Er a l Hal. pose proof (es_in_states A Hv e He x Hx) as HxA.
    assert (Hr : erow e x = r) by (unfold erow; rewrite Er; reflexivity).
    split.
    - assert (Hk : In a (map fst (erow e x))).
      { rewrite Hr. apply in_map_iff. exists (a, l). auto. }
      destruct (erow_key_sym A Hv e He x a HxA Hk) as [s [-> Hs]]. simpl. apply memb_In. exact Hs.
    - intros y Hy. rewrite e_rowof_eq in Er. unfold elim_rowof in Er.
      destruct (is_some (assoc x (n_trans A)) || nonempty (elim_new_syms A x)); [|discriminate].
      injection Er as <-. unfold elim_row in Hal. pose proof (tab_entry _ _ _ _ Hal) as [Hk El].
      apply (es_closed A e He x a y Hx). apply elim_edge_row. unfold elim_row. apply tab_tg. split; [exact Hk|].
      rewrite <- El. exact Hy.
  Qed.

  Lemma elimop_fin_incl : incl (e_finals e) (e_states e).
  Proof. intros f Hf. apply (es_finals A Hv e He) in Hf. apply Hf. Qed.

  Lemma elimop_row0 : e_rowof e (n_init A) <> None \/ length (e_states e) <= 1.
  Proof.
    rewrite e_rowof_eq. unfold elim_rowof.
    destruct (is_some (assoc (n_init A) (n_trans A)) || nonempty (elim_new_syms A (n_init A))) eqn:Ec; [left; discriminate|].
    right. apply (NoDup_all_eq (e_states e) (n_init A)); [apply (es_NoDup A e He)|].
    destruct (elim_parts_inv A e He) as [Hc _]. intros x Hx.
    apply (closure_sound _ _ eqb_nat_ok _ _ _ _ Hc) in Hx.
    induction Hx as [x Hx|x y Hr IH Hy]; [destruct Hx as [<-|[]]; reflexivity|].
    subst x. exfalso. apply elim_succ in Hy. destruct Hy as [a Hy]. unfold EE, xedge, elim_rowof in Hy.
    rewrite Ec in Hy. destruct Hy as [r [Er _]]. discriminate.
  Qed.

  Lemma elimop_valid : valid_nfa R = true.
  Proof.
    unfold R. apply asm_valid.
    - apply idn_inj.
    - apply elimop_rows_ok.
    - apply (es_init A e He).
    - apply elimop_fin_incl.
    - apply (es_NoDup A e He).
    - destruct (ops_valid_parts A Hv) as (_ & Hs & _). exact Hs.
    - apply elimop_row0.
  Qed.

  Lemma elimop_lang : L_nfa R =L L_nfa A.
  Proof.
    intro w. unfold R. rewrite asm_lang.
    2: apply idn_inj. 2: apply elimop_rows_ok. 2: apply (es_init A e He). 2: apply elimop_fin_incl.
    rewrite e_rowof_eq. apply (elim_lang A Hv e He).
  Qed.

  (* no empty-string edge is left *)
  Lemma elimop_no_eps p q : ~ n_edge R p None q.
  Proof.
    intro H. unfold n_edge in H.
    assert (Hp : In p (map fst (n_trans R))).
    { apply edge_assoc in H. destruct H as [r [Er _]]. eapply assoc_Some_key. exact Er. }
    unfold R, assemble in Hp. simpl in Hp. apply in_map_iff in Hp. destruct Hp as [[p' r] [Ep Hin]]. simpl in Ep. subst p'.
    apply in_flat_map in Hin. destruct Hin as [x [Hx Hin]].
    destruct (e_rowof e x) eqn:Er; [|destruct Hin]. destruct Hin as [Hin|[]]. injection Hin as <- _.
    apply (asm_targets idn (e_states e) (n_syms A) (e_rowof e) (n_init A) (e_finals e) (idn_inj _) x None q Hx) in H.
    destruct H as [y [_ Hy]]. rewrite e_rowof_eq in Hy. eapply elim_no_eps_any. exact Hy.
  Qed.
End ElimOp.

Section ElimOpThms.
  Variable A : nfa.
  Hypothesis Hv : valid_nfa A = true.

  Theorem ops_elim_total : exists R, nfa_eliminate_lambda A = Ok R /\ valid_nfa R = true.
  Proof.
    destruct (elim_parts_some A Hv) as [e He]. eexists. unfold nfa_eliminate_lambda. rewrite He. simpl.
    split; [apply check_nfa_ok|]; apply elimop_valid; assumption.
  Qed.

  Theorem ops_elim_lang R : nfa_eliminate_lambda A = Ok R ->
    L_nfa R =L L_nfa A /\ (forall p q, ~ n_edge R p None q).
  Proof.
    unfold nfa_eliminate_lambda. destruct (elim_parts A) as [e|] eqn:He; [|discriminate]. simpl.
    intro H. apply check_nfa_inv in H. destruct H as [-> _].
    split; [apply elimop_lang; assumption|apply elimop_no_eps; assumption].
  Qed.
End ElimOpThms.

(* ------------------------------------------------------------------ *)
(* compositions *)
(* the language operations respect language equality *)
Section LangExt.
  Variables A A' B B' : lang.
  Hypothesis HA : A =L A'.
  Hypothesis HB : B =L B'.

  Lemma l_union_ext : l_union A B =L l_union A' B'.
  Proof. intro w. unfold l_union. rewrite (HA w), (HB w). tauto. Qed.
  Lemma l_inter_ext : l_inter A B =L l_inter A' B'.
  Proof. intro w. unfold l_inter. rewrite (HA w), (HB w). tauto. Qed.
  Lemma l_cat_ext : l_cat A B =L l_cat A' B'.
  Proof.
    intro w. unfold l_cat. split; intros [u [v [E [H1 H2]]]]; exists u, v; (split; [exact E|]);
      (split; [apply HA; exact H1|apply HB; exact H2]).
  Qed.
  Lemma l_star_ext : l_star A =L l_star A'.
  Proof.
    intro w. split; intro H; induction H as [|u v Hu Hv IH]; try apply star_nil;
      (apply star_app; [apply HA; exact Hu|exact IH]).
  Qed.
  Lemma l_opt_ext : l_opt A =L l_opt A'.
  Proof. intro w. unfold l_opt. rewrite (HA w). tauto. Qed.
  Lemma l_rev_ext : l_rev A =L l_rev A'.
  Proof. intro w. unfold l_rev. apply HA. Qed.
  Lemma l_shuffle_ext : l_shuffle A B =L l_shuffle A' B'.
  Proof.
    intro w. unfold l_shuffle. split; intros [u [v [H1 [H2 H3]]]]; exists u, v;
      (split; [apply HA; exact H1|]); (split; [apply HB; exact H2|exact H3]).
  Qed.
  Lemma l_rquot_ext : l_rquot A B =L l_rquot A' B'.
  Proof.
    intro w. unfold l_rquot. split; intros [v [H1 H2]]; exists v; (split; [apply HB; exact H1|apply HA; exact H2]).
  Qed.
  Lemma l_lquot_ext : l_lquot A B =L l_lquot A' B'.
  Proof.
    intro w. unfold l_lquot. split; intros [v [H1 H2]]; exists v; (split; [apply HB; exact H1|apply HA; exact H2]).
  Qed.
End LangExt.

Fixpoint nexp_den (e : nexp) : lang :=
  match e with
  | NLeaf A => L_nfa A
  | NUnion e f => l_union (nexp_den e) (nexp_den f)
  | NConcat e f => l_cat (nexp_den e) (nexp_den f)
  | NStar e => l_star (nexp_den e)
  | NOption e => l_opt (nexp_den e)
  | NReverse e => l_rev (nexp_den e)
  | NInter e f => l_inter (nexp_den e) (nexp_den f)
  | NShuffle e f => l_shuffle (nexp_den e) (nexp_den f)
  | NRQuot e f => l_rquot (nexp_den e) (nexp_den f)
  | NLQuot e f => l_lquot (nexp_den e) (nexp_den f)
  end.

Definition eval_good (e : nexp) : Prop :=
  exists R, nfa_eval e = Ok R /\ valid_nfa R = true /\ L_nfa R =L nexp_den e.

Theorem ops_compose e : nexp_leaves_ok e = true -> eval_good e.
Proof.
  induction e as [A|e IHe f IHf|e IHe f IHf|e IHe|e IHe|e IHe|e IHe f IHf|e IHe f IHf|e IHe f IHf|e IHe f IHf];
    simpl; intro Hok; unfold eval_good; simpl.
  - exists A. split; [reflexivity|]. split; [exact Hok|apply lang_eq_refl].
  - apply andb_true_iff in Hok. destruct Hok as [H1 H2].
    destruct (IHe H1) as [a [Ea [Va La]]]. destruct (IHf H2) as [b [Eb [Vb Lb]]].
    destruct (ops_union_total a b Va Vb) as [R [ER VR]]. exists R. unfold bind2. rewrite Ea, Eb. simpl.
    split; [exact ER|]. split; [exact VR|].
    eapply lang_eq_trans; [apply (ops_union_lang a b Va Vb R ER)|apply l_union_ext; assumption].
  - apply andb_true_iff in Hok. destruct Hok as [H1 H2].
    destruct (IHe H1) as [a [Ea [Va La]]]. destruct (IHf H2) as [b [Eb [Vb Lb]]].
    destruct (ops_concat_total a b Va Vb) as [R [ER VR]]. exists R. unfold bind2. rewrite Ea, Eb. simpl.
    split; [exact ER|]. split; [exact VR|].
    eapply lang_eq_trans; [apply (ops_concat_lang a b Va Vb R ER)|apply l_cat_ext; assumption].
  - destruct (IHe Hok) as [a [Ea [Va La]]].
    destruct (ops_star_total a Va) as [R [ER VR]]. exists R. rewrite Ea. simpl.
    split; [exact ER|]. split; [exact VR|].
    eapply lang_eq_trans; [apply (ops_star_lang a Va R ER)|apply l_star_ext; assumption].
  - destruct (IHe Hok) as [a [Ea [Va La]]].
    destruct (ops_option_total a Va) as [R [ER VR]]. exists R. rewrite Ea. simpl.
    split; [exact ER|]. split; [exact VR|].
    eapply lang_eq_trans; [apply (ops_option_lang a Va R ER)|apply l_opt_ext; assumption].
  - destruct (IHe Hok) as [a [Ea [Va La]]].
    destruct (ops_reverse_total a Va) as [R [ER VR]]. exists R. rewrite Ea. simpl.
    split; [exact ER|]. split; [exact VR|].
    eapply lang_eq_trans; [apply (ops_reverse_lang a Va R ER)|apply l_rev_ext; assumption].
  - apply andb_true_iff in Hok. destruct Hok as [H1 H2].
    destruct (IHe H1) as [a [Ea [Va La]]]. destruct (IHf H2) as [b [Eb [Vb Lb]]].
    destruct (ops_inter_total a b Va Vb) as [R [ER VR]]. exists R. unfold bind2. rewrite Ea, Eb. simpl.
    split; [exact ER|]. split; [exact VR|].
    eapply lang_eq_trans; [apply (ops_inter_lang a b Va R ER)|apply l_inter_ext; assumption].
  - apply andb_true_iff in Hok. destruct Hok as [H1 H2].
    destruct (IHe H1) as [a [Ea [Va La]]]. destruct (IHf H2) as [b [Eb [Vb Lb]]].
    destruct (ops_shuffle_total a b Va Vb) as [R [ER VR]]. exists R. unfold bind2. rewrite Ea, Eb. simpl.
    split; [exact ER|]. split; [exact VR|].
    eapply lang_eq_trans; [apply (ops_shuffle_lang a b Va Vb R ER)|apply l_shuffle_ext; assumption].
  - apply andb_true_iff in Hok. destruct Hok as [H1 H2].
    destruct (IHe H1) as [a [Ea [Va La]]]. destruct (IHf H2) as [b [Eb [Vb Lb]]].
    destruct (ops_rquot_total a b Va Vb) as [R [ER VR]]. exists R. unfold bind2. rewrite Ea, Eb. simpl.
    split; [exact ER|]. split; [exact VR|].
    eapply lang_eq_trans; [apply (ops_rquot_lang a b Va Vb R ER)|apply l_rquot_ext; assumption].
  - apply andb_true_iff in Hok. destruct Hok as [H1 H2].
    destruct (IHe H1) as [a [Ea [Va La]]]. destruct (IHf H2) as [b [Eb [Vb Lb]]].
    destruct (ops_lquot_total a b Va Vb) as [R [ER VR]]. exists R. unfold bind2. rewrite Ea, Eb. simpl.
    split; [exact ER|]. split; [exact VR|].
    eapply lang_eq_trans; [apply (ops_lquot_lang a b Va Vb R ER)|apply l_lquot_ext; assumption].
Qed.
