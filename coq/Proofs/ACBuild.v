(* Aho-Corasick, the failure phase (fail_bfs of Model/AhoCorasick.v, lines 1972-1994 of dfa.py):
   started on a trie whose nodes all have fail = None and out = own keyword, with the children of
   the root in the queue, every Ok result satisfies the failure-link specification that
   Proofs/AhoCorasick.v needs (fail = node of the longest proper suffix in the trie, out non-empty
   iff a pattern is a suffix of the node's string).

   Invariant: a string is `pending` while some queue entry is a proper prefix of it; strings that
   are not pending are done, pending ones still carry their initial fields; the queue is sorted by
   depth, so everything at most as deep as the head of the queue is done when the head is expanded. *)
From Coq Require Import List Arith Bool Lia.
From AV Require Import Base.Util Spec.Lang Spec.FA Spec.Preds Model.Construct Model.KMP Model.AhoCorasick
                       Proofs.Preds Proofs.Border Proofs.KMP Proofs.AhoCorasick.
Import ListNotations.

Definition pprefix (q s : word) : Prop := exists r, r <> [] /\ s = q ++ r.

Definition failspec (N : list tnode) (s : word) (x : tnode) : Prop :=
  match t_fail x with
  | Some f => exists u, nodeof N u = Some f /\ u <> [] /\ psuf u s /\
                        forall u', psuf u' s -> inT N u' -> length u' <= length u
  | None => forall u', psuf u' s -> inT N u' -> u' = []
  end.

Definition shape (N0 N : list tnode) : Prop :=
  length N = length N0 /\ forall k, option_map t_succ (nth_error N k) = option_map t_succ (nth_error N0 k).

Lemma shape_edge N0 N k a : shape N0 N -> edge N k a = edge N0 k a.
Proof.
  intros [_ H]. unfold edge. specialize (H k).
  destruct (nth_error N k), (nth_error N0 k); simpl in H; congruence.
Qed.

Lemma shape_follow N0 N s : shape N0 N -> forall k, follow N k s = follow N0 k s.
Proof.
  intro H. induction s as [|a s IH]; intro k; [reflexivity|]. simpl. rewrite (shape_edge N0 N k a H).
  destruct (edge N0 k a); [apply IH|reflexivity].
Qed.

Lemma shape_nodeof N0 N s : shape N0 N -> nodeof N s = nodeof N0 s.
Proof. intro H. apply shape_follow. exact H. Qed.

Lemma shape_refl N : shape N N.
Proof. split; [reflexivity|]. intro k. reflexivity. Qed.

Lemma shape_upd N0 N k x x' : shape N0 N -> nth_error N k = Some x -> t_succ x' = t_succ x -> shape N0 (upd N k x').
Proof.
  intros [HL H] Ex Es. split; [rewrite upd_length; exact HL|]. intro j.
  destruct (Nat.eq_dec j k) as [->|Hne].
  - rewrite nth_error_upd_same by (apply nth_error_Some; congruence). rewrite <- H, Ex. simpl. congruence.
  - rewrite nth_error_upd_other by exact Hne. apply H.
Qed.

Lemma psuf_snoc_cases (y c : word) a : psuf y (c ++ [a]) -> y = [] \/ exists x, y = x ++ [a] /\ psuf x c.
Proof.
  intros [Hs Hl]. destruct (suffix_snoc_cases y c a Hs) as [->|[x [-> Hx]]]; [left; reflexivity|right].
  exists x. split; [reflexivity|]. split; [exact Hx|]. rewrite !app_length in Hl. simpl in Hl. lia.
Qed.

Lemma psuf_tl (x c : word) : c <> [] -> (psuf x c <-> has_suffix x (tl c)).
Proof.
  intro Hc. unfold psuf. rewrite (has_suffix_tl x c Hc). tauto.
Qed.

Section FailPhase.
  Variable N0 : list tnode.
  Variable P : list word.

  Hypothesis HV : forall s k, nodeof N0 s = Some k -> k < length N0.
  Hypothesis HI : forall s s' k, nodeof N0 s = Some k -> nodeof N0 s' = Some k -> s = s'.
  Hypothesis HK : forall k x, nth_error N0 k = Some x -> NoDup (map fst (t_succ x)).
  Hypothesis HP : forall p, In p P -> inT N0 p.
  Hypothesis HPne : forall p, In p P -> p <> [].

  Definition done (s : word) (x : tnode) : Prop := failspec N0 s x /\ (t_out x <> [] <-> ends_with_any P s).
  Definition initial (s : word) (x : tnode) : Prop := t_fail x = None /\ (t_out x <> [] <-> In s P).

  Definition J (N : list tnode) (pend : word -> Prop) : Prop :=
    shape N0 N /\
    (exists r, nth_error N 0 = Some r /\ nth_error N0 0 = Some r /\ t_fail r = None) /\
    (forall s k x, s <> [] -> nodeof N0 s = Some k -> nth_error N k = Some x -> ~ pend s -> done s x) /\
    (forall s k x, nodeof N0 s = Some k -> nth_error N k = Some x -> pend s -> initial s x).

  Lemma node_get0 N s k : shape N0 N -> nodeof N0 s = Some k -> exists x, nth_error N k = Some x.
  Proof.
    intros [HL _] H. apply HV in H. destruct (nth_error N k) as [x|] eqn:E; [exists x; reflexivity|].
    apply nth_error_None in E. lia.
  Qed.

  (* one successor of the node of c gets its failure link and output chain *)
  Lemma set_fail_step N (pend : word -> Prop) c kc xc a k' :
    J N pend -> c <> [] -> nodeof N0 c = Some kc -> nth_error N kc = Some xc -> ~ pend c ->
    (forall s, s <> [] -> inT N0 s -> length s <= length c -> ~ pend s) ->
    nodeof N0 (c ++ [a]) = Some k' -> pend (c ++ [a]) ->
    exists N1, set_fail (S (length N)) (t_fail xc) N (a, k') = Ok N1 /\
      J N1 (fun s => pend s /\ s <> c ++ [a]) /\ (forall k, k <> k' -> nth_error N1 k = nth_error N k).
  Proof.
    intros [Hsh [Hr0 [J1 J4]]] Hc Hkc Exc Hnc Hshallow Hk' Hpend.
    assert (Hr : exists r, nth_error N 0 = Some r /\ t_fail r = None).
    { destruct Hr0 as [r [E1 [_ E2]]]. exists r. split; assumption. }
    assert (Hno : forall s, nodeof N s = nodeof N0 s) by (intro s; apply shape_nodeof; exact Hsh).
    assert (HVN : forall s k, nodeof N s = Some k -> k < length N).
    { intros s k H. rewrite Hno in H. apply HV in H. destruct Hsh as [HL _]. lia. }
    assert (HFN : forall s k x, s <> [] -> length s <= length c -> nodeof N s = Some k -> nth_error N k = Some x ->
              match t_fail x with
              | Some f => exists u, nodeof N u = Some f /\ u <> [] /\ psuf u s /\
                                    forall u', psuf u' s -> inT N u' -> length u' <= length u
              | None => forall u', psuf u' s -> inT N u' -> u' = []
              end).
    { intros s k x Hs Hl Hk Ex. rewrite Hno in Hk.
      assert (Hin : inT N0 s) by (unfold inT; congruence).
      destruct (J1 s k x Hs Hk Ex (Hshallow s Hs Hin Hl)) as [Hf _]. unfold failspec in Hf.
      destruct (t_fail x) as [f|].
      - destruct Hf as [u [H1 [H2 [H3 H4]]]]. exists u. rewrite Hno. split; [exact H1|]. split; [exact H2|].
        split; [exact H3|]. intros u' Hu' Hi. apply H4; [exact Hu'|]. unfold inT in *. rewrite <- Hno. exact Hi.
      - intros u' Hu' Hi. apply Hf; [exact Hu'|]. unfold inT in *. rewrite <- Hno. exact Hi. }
    (* the walk from fail(c) over the proper suffixes of c *)
    destruct (J1 c kc xc Hc Hkc Exc Hnc) as [Hfc _]. unfold failspec in Hfc.
    assert (Hchain : chain N (length c) (tl c) a (S (length N)) (t_fail xc)).
    { unfold chain. destruct (t_fail xc) as [f|].
      - destruct Hfc as [u [H1 [H2 [H3 H4]]]]. exists u. rewrite Hno. split; [exact H1|].
        split; [apply (proj1 (psuf_tl u c Hc)); exact H3|]. split.
        + assert (length u < length N0) by (eapply depth_bound; eassumption).
          destruct Hsh as [HL _]. lia.
        + split; [destruct H3; lia|]. intros x Hx Hi. apply H4; [apply (proj2 (psuf_tl x c Hc)); exact Hx|].
          apply (inT_prefix N0 x [a]). unfold inT in *. rewrite <- Hno. exact Hi.
      - split; [lia|]. intros x Hx Hi. apply Hfc; [apply (proj2 (psuf_tl x c Hc)); exact Hx|].
        apply (inT_prefix N0 x [a]). unfold inT in *. rewrite <- Hno. exact Hi. }
    destruct (fail_walk_ok N (length c) HVN Hr HFN (tl c) a (S (length N)) (t_fail xc) Hchain) as [st [Ew Hw]].
    unfold set_fail. rewrite Ew. cbn [bind].
    (* the new node *)
    assert (Hk'0 : k' <> 0).
    { intro E0. subst k'. assert (Hnil : nodeof N0 [] = Some 0) by reflexivity.
      pose proof (HI _ _ _ Hk' Hnil) as Ec. destruct c; discriminate. }
    destruct (node_get0 N (c ++ [a]) k' Hsh Hk') as [sd Esd].
    (* facts about a candidate failure target: fl = node of a proper suffix t of c ++ [a], dominating all others *)
    assert (Hfinish : forall nfail nout,
      (match nfail with
       | Some fl => exists t fd, nodeof N0 t = Some fl /\ t <> [] /\ psuf t (c ++ [a]) /\ nth_error N fl = Some fd /\
                                nout = t_out sd ++ t_out fd /\
                                forall y, psuf y (c ++ [a]) -> inT N0 y -> length y <= length t
       | None => nout = t_out sd /\ forall y, psuf y (c ++ [a]) -> inT N0 y -> y = []
       end) ->
      J (upd N k' (mknode (t_succ sd) nout nfail)) (fun s => pend s /\ s <> c ++ [a])).
    { intros nfail nout Hspec.
      assert (Hother : forall s k, nodeof N0 s = Some k -> s <> c ++ [a] -> k <> k').
      { intros s k Hk Hne Ek. subst k. apply Hne. eapply HI; eassumption. }
      split; [eapply shape_upd; [exact Hsh|exact Esd|reflexivity]|]. split.
      { rewrite nth_error_upd_other by (intro Ez; apply Hk'0; symmetry; exact Ez). exact Hr0. }
      split.
      - intros s k x Hsne Hk Ex Hnp.
        destruct (list_eq_dec Nat.eq_dec s (c ++ [a])) as [->|Hne].
        + rewrite Hk' in Hk. inversion Hk; subst k.
          rewrite nth_error_upd_same in Ex by (apply nth_error_Some; congruence). inversion Ex; subst x. clear Ex.
          destruct (J4 (c ++ [a]) k' sd Hk' Esd Hpend) as [_ Hown].
          split.
          * unfold failspec. cbn [t_fail]. destruct nfail as [fl|].
            -- destruct Hspec as [t [fd [H1 [H2 [H3 [_ [_ H6]]]]]]]. exists t. repeat split; try assumption; apply H3.
            -- destruct Hspec as [_ H]. exact H.
          * cbn [t_out]. destruct nfail as [fl|].
            -- destruct Hspec as [t [fd [H1 [H2 [H3 [H4 [-> H6]]]]]]].
               assert (Hdt : done t fd).
               { apply (J1 t fl fd H2 H1 H4). apply Hshallow; [exact H2|unfold inT; congruence|].
                 destruct H3 as [_ H3]. rewrite app_length in H3. simpl in H3. lia. }
               destruct Hdt as [_ Hot]. split.
               ++ intro Hne. destruct (t_out sd) as [|o os] eqn:Eo.
                  ** simpl in Hne. apply Hot in Hne. destruct Hne as [p [Hp Hps]]. exists p. split; [exact Hp|].
                     eapply has_suffix_trans; [exact Hps|apply H3].
                  ** exists (c ++ [a]). split; [apply Hown; discriminate|apply has_suffix_refl].
               ++ intros [p [Hp Hs]]. destruct (list_eq_dec Nat.eq_dec p (c ++ [a])) as [->|Hpne].
                  ** apply Hown in Hp. intro En. apply app_eq_nil in En. tauto.
                  ** assert (Hps : psuf p (c ++ [a])).
                     { split; [exact Hs|]. pose proof (has_suffix_length p _ Hs) as Hl.
                       destruct (Nat.eq_dec (length p) (length (c ++ [a]))) as [El|El]; [|lia].
                       exfalso. apply Hpne. apply (has_suffix_same_len p (c ++ [a]) (c ++ [a]) Hs (has_suffix_refl _) El). }
                     assert (Hpt : has_suffix p t).
                     { apply (suffix_of_suffix p t (c ++ [a]) Hs (proj1 H3)). apply H6; [exact Hps|apply HP; exact Hp]. }
                     intro En. apply app_eq_nil in En. destruct En as [_ En].
                     assert (Hne : t_out fd <> []) by (apply Hot; exists p; split; assumption). contradiction.
            -- destruct Hspec as [-> Hall]. split.
               ++ intro Hne. exists (c ++ [a]). split; [apply Hown; exact Hne|apply has_suffix_refl].
               ++ intros [p [Hp Hs]]. destruct (list_eq_dec Nat.eq_dec p (c ++ [a])) as [->|Hpne].
                  ** apply Hown. exact Hp.
                  ** exfalso. assert (Hps : psuf p (c ++ [a])).
                     { split; [exact Hs|]. pose proof (has_suffix_length p _ Hs) as Hl.
                       destruct (Nat.eq_dec (length p) (length (c ++ [a]))) as [El|El]; [|lia].
                       exfalso. apply Hpne. apply (has_suffix_same_len p (c ++ [a]) (c ++ [a]) Hs (has_suffix_refl _) El). }
                     apply (HPne p Hp). apply Hall; [exact Hps|apply HP; exact Hp].
        + rewrite nth_error_upd_other in Ex by (apply (Hother s k); assumption).
          apply (J1 s k x Hsne Hk Ex). intro Hp. apply Hnp. split; assumption.
      - intros s k x Hk Ex [Hp Hne].
        rewrite nth_error_upd_other in Ex by (apply (Hother s k); assumption). apply (J4 s k x Hk Ex Hp). }
    (* what the walk found *)
    assert (Hcand : forall y, psuf y (c ++ [a]) -> inT N0 y -> y = [] \/ exists x, y = x ++ [a] /\ has_suffix x (tl c) /\ inT N (x ++ [a])).
    { intros y Hy Hi. destruct (psuf_snoc_cases y c a Hy) as [->|[x [-> Hx]]]; [left; reflexivity|right].
      exists x. split; [reflexivity|]. split; [apply (proj1 (psuf_tl x c Hc)); exact Hx|]. unfold inT in *. rewrite Hno. exact Hi. }
    destruct st as [j|].
    - destruct Hw as [v [j' [Hv [Hvs [He Hmax]]]]].
      destruct (node_get0 N v j Hsh ltac:(rewrite <- Hno; exact Hv)) as [sn Esn].
      rewrite (idx_Ok N j sn Esn), (idx_Ok N k' sd Esd). cbn [bind].
      unfold edge in He. rewrite Esn in He. rewrite He.
      assert (Hj' : nodeof N0 (v ++ [a]) = Some j').
      { rewrite <- Hno, nodeof_snoc, Hv. unfold edge. rewrite Esn. exact He. }
      destruct (node_get0 N (v ++ [a]) j' Hsh Hj') as [fd Efd].
      rewrite (idx_Ok N j' fd Efd). cbn [bind]. eexists. split; [reflexivity|].
      split; [|intros k Hk; apply nth_error_upd_other; exact Hk].
      apply (Hfinish (Some j') _). exists (v ++ [a]), fd. split; [exact Hj'|].
      split; [intro En; apply app_eq_nil in En; destruct En; discriminate|]. split.
      + apply (proj2 (psuf_tl v c Hc)) in Hvs. destruct Hvs as [Hvs Hvl].
        split; [apply has_suffix_snoc; split; [reflexivity|exact Hvs]|].
        rewrite !app_length. simpl. lia.
      + split; [exact Efd|]. split; [reflexivity|].
        intros y Hy Hi. destruct (Hcand y Hy Hi) as [->|[x [-> [Hx Hix]]]]; [simpl; lia|].
        rewrite !app_length. simpl. pose proof (Hmax x Hx Hix). lia.
    - destruct Hr as [r [Er Efr]].
      rewrite (idx_Ok N 0 r Er), (idx_Ok N k' sd Esd). cbn [bind].
      destruct (assoc a (t_succ r)) as [fl|] eqn:Ea.
      + assert (Hfl : nodeof N0 [a] = Some fl).
        { rewrite <- Hno. unfold nodeof. simpl. unfold edge. rewrite Er, Ea. reflexivity. }
        destruct (node_get0 N [a] fl Hsh Hfl) as [fd Efd].
        rewrite (idx_Ok N fl fd Efd). cbn [bind]. eexists. split; [reflexivity|].
        split; [|intros k Hk; apply nth_error_upd_other; exact Hk].
        apply (Hfinish (Some fl) _). exists [a], fd. split; [exact Hfl|]. split; [discriminate|]. split.
        * split; [exists c; reflexivity|]. rewrite app_length. simpl. destruct c; [congruence|simpl; lia].
        * split; [exact Efd|]. split; [reflexivity|].
          intros y Hy Hi. destruct (Hcand y Hy Hi) as [->|[x [-> [Hx Hix]]]]; [simpl; lia|].
          rewrite (Hw x Hx Hix). simpl. lia.
      + eexists. split; [reflexivity|]. split; [|intros k Hk; apply nth_error_upd_other; exact Hk].
        apply (Hfinish None _). split; [reflexivity|].
        intros y Hy Hi. destruct (Hcand y Hy Hi) as [->|[x [-> [Hx Hix]]]]; [reflexivity|]. exfalso.
        pose proof (Hw x Hx Hix) as ->. unfold inT, nodeof in Hix. simpl in Hix. unfold edge in Hix.
        rewrite Er, Ea in Hix. congruence.
  Qed.

  Lemma J_ext N (pend pend' : word -> Prop) :
    (forall s, inT N0 s -> (pend s <-> pend' s)) -> J N pend -> J N pend'.
  Proof.
    intros He [Hsh [Hr [J1 J4]]]. split; [exact Hsh|]. split; [exact Hr|]. split.
    - intros s k x Hs Hk Ex Hn. apply (J1 s k x Hs Hk Ex). intro Hp. apply Hn. apply He; [unfold inT; congruence|exact Hp].
    - intros s k x Hk Ex Hp. apply (J4 s k x Hk Ex). apply He; [unfold inT; congruence|exact Hp].
  Qed.

  (* all successors of the node of c *)
  Lemma children_fold c kc xc : c <> [] -> nodeof N0 c = Some kc ->
    forall todo N (pend : word -> Prop),
    J N pend -> nth_error N kc = Some xc -> ~ pend c ->
    (forall s, s <> [] -> inT N0 s -> length s <= length c -> ~ pend s) ->
    (forall a k', In (a, k') todo -> nodeof N0 (c ++ [a]) = Some k' /\ pend (c ++ [a])) ->
    NoDup (map fst todo) ->
    exists N1, foldM (set_fail (S (length N0)) (t_fail xc)) todo N = Ok N1 /\
      J N1 (fun s => pend s /\ forall a k', In (a, k') todo -> s <> c ++ [a]).
  Proof.
    intros Hc Hkc. induction todo as [|[a k'] todo IH]; intros N pend HJ Exc Hnc Hsh Htodo Hnd.
    - exists N. split; [reflexivity|].
      apply (J_ext N pend); [|exact HJ]. intros s _. split; [intro H; split; [exact H|intros a k' []]|intros [H _]; exact H].
    - cbn [foldM]. destruct (Htodo a k' (or_introl eq_refl)) as [Hk' Hp'].
      assert (HL : length N = length N0) by (destruct HJ as [[HL _] _]; exact HL).
      destruct (set_fail_step N pend c kc xc a k' HJ Hc Hkc Exc Hnc Hsh Hk' Hp') as [N' [Es [HJ' Hsame]]].
      rewrite HL in Es. rewrite Es. cbn [bind].
      assert (Exc' : nth_error N' kc = Some xc).
      { rewrite Hsame; [exact Exc|]. intro Ek. subst k'. pose proof (HI _ _ _ Hkc Hk') as Ec.
        apply (f_equal (@length nat)) in Ec. rewrite app_length in Ec. simpl in Ec. lia. }
      inversion Hnd as [|? ? Hnot Hnd']; subst.
      destruct (IH N' _ HJ' Exc') as [N1 [E1 HJ1]].
      + intros [Hp _]. exact (Hnc Hp).
      + intros s Hs Hi Hl [Hp _]. exact (Hsh s Hs Hi Hl Hp).
      + intros a2 k2 Hin. destruct (Htodo a2 k2 (or_intror Hin)) as [H1 H2]. split; [exact H1|]. split; [exact H2|].
        intro Ee. apply app_inj_tail in Ee. destruct Ee as [_ Ea]. subst a2.
        apply Hnot. apply in_map_iff. exists (a, k2). split; [reflexivity|exact Hin].
      + exact Hnd'.
      + exists N1. split; [exact E1|]. refine (J_ext N1 _ _ _ HJ1). intros s _. split.
        * intros [[Hp Hne] Hrest]. split; [exact Hp|]. intros a2 k2 [Ee|Hin]; [inversion Ee; subst; exact Hne|eapply Hrest; exact Hin].
        * intros [Hp Hall]. split; [split; [exact Hp|apply (Hall a k'); left; reflexivity]|].
          intros a2 k2 Hin. apply (Hall a2 k2). right. exact Hin.
  Qed.

  (* ---------- the queue loop ---------- *)
  Definition pendQ (qs : list word) (s : word) : Prop := exists q, In q qs /\ pprefix q s.

  Definition binv (N : list tnode) (queue : list nat) (qs : list word) (U : list nat) : Prop :=
    J N (pendQ qs) /\
    Forall2 (fun k q => nodeof N0 q = Some k) queue qs /\
    (forall q, In q qs -> q <> []) /\
    (exists d A B, qs = A ++ B /\ (forall q, In q A -> length q = d) /\ (forall q, In q B -> length q = S d)) /\
    NoDup U /\ incl queue U /\ NoDup queue /\
    (forall s a k' ks, s <> [] -> nodeof N0 (s ++ [a]) = Some k' -> nodeof N0 s = Some ks ->
                       In k' queue \/ ~ In k' U -> ~ In ks U).

  Lemma filter_remove_length (x : nat) l : In x l -> length (filter (fun y => negb (Nat.eqb y x)) l) < length l.
  Proof.
    induction l as [|y l IH]; intro H; [destruct H|]. simpl. destruct (Nat.eqb y x) eqn:E; simpl.
    - assert (Hle : forall m : list nat, length (filter (fun y => negb (Nat.eqb y x)) m) <= length m).
      { induction m as [|z m IHm]; [simpl; lia|]. simpl. destruct (negb (Nat.eqb z x)); simpl; lia. }
      specialize (Hle l). lia.
    - destruct H as [->|H]; [rewrite Nat.eqb_refl in E; discriminate|]. specialize (IH H). lia.
  Qed.

  Lemma Forall2_In_l {A B} (R : A -> B -> Prop) l1 l2 x : Forall2 R l1 l2 -> In x l1 -> exists y, In y l2 /\ R x y.
  Proof.
    intro H. induction H as [|a b l1 l2 Hab H IH]; intro Hin; [destruct Hin|].
    destruct Hin as [<-|Hin]; [exists b; split; [left; reflexivity|exact Hab]|].
    destruct (IH Hin) as [y [Hy Hr]]. exists y. split; [right; exact Hy|exact Hr].
  Qed.

  Lemma Forall2_In_r {A B} (R : A -> B -> Prop) l1 l2 y : Forall2 R l1 l2 -> In y l2 -> exists x, In x l1 /\ R x y.
  Proof.
    intro H. induction H as [|a b l1 l2 Hab H IH]; intro Hin; [destruct Hin|].
    destruct Hin as [<-|Hin]; [exists a; split; [left; reflexivity|exact Hab]|].
    destruct (IH Hin) as [x [Hx Hr]]. exists x. split; [right; exact Hx|exact Hr].
  Qed.

  Lemma pprefix_length q s : pprefix q s -> length q < length s.
  Proof. intros [r [Hr ->]]. rewrite app_length. destruct r; [congruence|simpl; lia]. Qed.

  Lemma fail_bfs_ok : forall fuel N queue qs U, binv N queue qs U -> length U < fuel ->
    exists N', fail_bfs fuel N queue = Ok N' /\ J N' (fun _ => False).
  Proof.
    induction fuel as [|fuel IH]; intros N queue qs U Hb Hf; [lia|].
    destruct Hb as [HJ [Hq [Hne [Hsort [HUnd [Hincl [Hqnd Hpar]]]]]]].
    destruct Hq as [|kc c queue' qs' Hkc Hq'].
    - exists N. split; [reflexivity|]. refine (J_ext N _ _ _ HJ). intros s _. split; [intros [q [[] _]]|intros []].
    - cbn [fail_bfs].
      assert (Hc : c <> []) by (apply Hne; left; reflexivity).
      assert (Hsh : shape N0 N) by (destruct HJ as [H _]; exact H).
      destruct (node_get0 N c kc Hsh Hkc) as [xc Exc]. rewrite (idx_Ok N kc xc Exc). cbn [bind].
      (* the head is a shallowest entry *)
      assert (Hmin : forall q, In q (c :: qs') -> length c <= length q).
      { destruct Hsort as [d [A [B [EAB [HA HB]]]]]. intros q Hq.
        destruct A as [|a0 A'].
        - simpl in EAB. subst B. rewrite (HB c (or_introl eq_refl)), (HB q Hq). lia.
        - simpl in EAB. inversion EAB; subst a0. rewrite (HA c (or_introl eq_refl)).
          assert (Hqq : In q (c :: A') \/ In q B).
          { rewrite H1 in Hq. destruct Hq as [<-|Hq]; [left; left; reflexivity|].
            apply in_app_or in Hq. destruct Hq; [left; right; assumption|right; assumption]. }
          destruct Hqq as [Hqq|Hqq]; [rewrite (HA q Hqq)|rewrite (HB q Hqq)]; lia. }
      assert (Hshallow : forall s, s <> [] -> inT N0 s -> length s <= length c -> ~ pendQ (c :: qs') s).
      { intros s _ _ Hl [q [Hq Hp]]. apply pprefix_length in Hp. specialize (Hmin q Hq). lia. }
      assert (Hncq : ~ In c qs').
      { intro Hin. destruct (Forall2_In_r _ _ _ c Hq' Hin) as [k [Hk Hkk]]. rewrite Hkc in Hkk. inversion Hkk; subst k.
        inversion Hqnd; contradiction. }
      (* the successors *)
      assert (Hx0 : exists x0, nth_error N0 kc = Some x0 /\ t_succ x0 = t_succ xc).
      { destruct Hsh as [_ Hs]. specialize (Hs kc). rewrite Exc in Hs. simpl in Hs.
        destruct (nth_error N0 kc) as [x0|]; [|discriminate]. exists x0. split; [reflexivity|]. simpl in Hs. congruence. }
      destruct Hx0 as [x0 [Ex0 Es0]].
      assert (Hkeys : NoDup (map fst (t_succ xc))) by (rewrite <- Es0; eapply HK; exact Ex0).
      assert (Hchild : forall a k', In (a, k') (t_succ xc) <-> nodeof N0 (c ++ [a]) = Some k').
      { intros a k'. rewrite nodeof_snoc, Hkc. unfold edge. rewrite Ex0, Es0. split.
        - apply assoc_NoDup. exact Hkeys.
        - apply assoc_In. }
      destruct (children_fold c kc xc Hc Hkc (t_succ xc) N (pendQ (c :: qs')) HJ Exc) as [N1 [E1 HJ1]].
      + apply Hshallow; [exact Hc|unfold inT; congruence|lia].
      + exact Hshallow.
      + intros a k' Hin. split; [apply Hchild; exact Hin|]. exists c. split; [left; reflexivity|].
        exists [a]. split; [discriminate|reflexivity].
      + exact Hkeys.
      + replace (length N) with (length N0) by (destruct Hsh as [HL _]; lia). rewrite E1. cbn [bind].
        set (kids := map (fun e => c ++ [fst e]) (t_succ xc)).
        set (U' := filter (fun y => negb (Nat.eqb y kc)) U).
        assert (HkcU : In kc U) by (apply Hincl; left; reflexivity).
        assert (Hkid : forall k', In k' (map snd (t_succ xc)) -> In k' U /\ ~ In k' (kc :: queue') /\ k' <> kc).
        { intros k' Hin. apply in_map_iff in Hin. destruct Hin as [[a k2] [Ek Hin]]. simpl in Ek. subst k2.
          apply Hchild in Hin.
          assert (Hnk : k' <> kc).
          { intro Ek. subst k'. pose proof (HI _ _ _ Hkc Hin) as Ec. apply (f_equal (@length nat)) in Ec.
            rewrite app_length in Ec. simpl in Ec. lia. }
          destruct (in_dec Nat.eq_dec k' (kc :: queue')) as [Hi|Hi].
          - exfalso. exact (Hpar c a k' kc Hc Hin Hkc (or_introl Hi) HkcU).
          - destruct (in_dec Nat.eq_dec k' U) as [Hu|Hu]; [split; [exact Hu|split; [exact Hi|exact Hnk]]|].
            exfalso. exact (Hpar c a k' kc Hc Hin Hkc (or_intror Hu) HkcU). }
        destruct (IH N1 (queue' ++ map snd (t_succ xc)) (qs' ++ kids) U') as [N' [E' HJ']].
        * split; [|split; [|split; [|split; [|split; [|split; [|split]]]]]].
          -- (* J *)
             refine (J_ext N1 _ _ _ HJ1). intros s Hs. split.
             ++ intros [[q [Hq Hp]] Hnk]. destruct Hq as [<-|Hq].
                ** destruct Hp as [r [Hr ->]]. destruct r as [|a r']; [congruence|].
                   assert (Hin : inT N0 (c ++ [a])).
                   { apply (inT_prefix N0 _ r'). rewrite <- app_assoc. exact Hs. }
                   unfold inT in Hin. destruct (nodeof N0 (c ++ [a])) as [k'|] eqn:Ek; [|congruence].
                   apply Hchild in Ek. exists (c ++ [a]). split.
                   { apply in_or_app. right. unfold kids. apply in_map_iff. exists (a, k'). split; [reflexivity|exact Ek]. }
                   exists r'. split; [|rewrite <- app_assoc; reflexivity].
                   intros ->. apply (Hnk a k' Ek). reflexivity.
                ** exists q. split; [apply in_or_app; left; exact Hq|exact Hp].
             ++ intros [q [Hq Hp]]. apply in_app_or in Hq. destruct Hq as [Hq|Hq].
                ** split; [exists q; split; [right; exact Hq|exact Hp]|].
                   intros a k' Hin ->. pose proof (pprefix_length _ _ Hp) as Hl. rewrite app_length in Hl. simpl in Hl.
                   pose proof (Hmin q (or_intror Hq)) as Hm.
                   destruct Hp as [r [Hr Er]]. assert (Hlq : length q = length c) by lia.
                   assert (Eq : q = c).
                   { apply (f_equal (firstn (length c))) in Er. rewrite firstn_app, firstn_all, Nat.sub_diag in Er.
                     simpl in Er. rewrite app_nil_r in Er. rewrite <- Hlq, firstn_app, firstn_all, Nat.sub_diag in Er.
                     simpl in Er. rewrite app_nil_r in Er. symmetry. exact Er. }
                   subst q. contradiction.
                ** unfold kids in Hq. apply in_map_iff in Hq. destruct Hq as [[a k'] [<- Hin]]. simpl fst in *.
                   destruct Hp as [r [Hr ->]]. split.
                   --- exists c. split; [left; reflexivity|]. exists ([a] ++ r). split; [discriminate|rewrite app_assoc; reflexivity].
                   --- intros a2 k2 _ Ee. apply (f_equal (@length nat)) in Ee. rewrite !app_length in Ee. simpl in Ee.
                       destruct r; [congruence|simpl in Ee; lia].
          -- (* queue / strings *)
             apply Forall2_app; [exact Hq'|]. unfold kids. clear -Hchild.
             assert (H : forall l, (forall a k', In (a, k') l -> nodeof N0 (c ++ [a]) = Some k') ->
                       Forall2 (fun k q => nodeof N0 q = Some k) (map snd l) (map (fun e => c ++ [fst e]) l)).
             { induction l as [|[a k'] l IHl]; intro H; simpl; constructor.
               - apply H. left. reflexivity.
               - apply IHl. intros a2 k2 Hin. apply H. right. exact Hin. }
             apply H. intros a k' Hin. apply Hchild. exact Hin.
          -- intros q Hq. apply in_app_or in Hq. destruct Hq as [Hq|Hq]; [apply Hne; right; exact Hq|].
             unfold kids in Hq. apply in_map_iff in Hq. destruct Hq as [e [<- _]]. intro En. apply app_eq_nil in En. destruct En; discriminate.
          -- (* sorted *)
             destruct Hsort as [d [A [B [EAB [HA HB]]]]]. destruct A as [|a0 A'].
             ++ simpl in EAB. subst B. exists (S d), qs', kids. split; [reflexivity|]. split.
                ** intros q Hq. apply HB. right. exact Hq.
                ** intros q Hq. unfold kids in Hq. apply in_map_iff in Hq. destruct Hq as [e [<- _]].
                   rewrite app_length, (HB c (or_introl eq_refl)). simpl. lia.
             ++ simpl in EAB. inversion EAB; subst a0. exists d, A', (B ++ kids). split; [rewrite app_assoc; reflexivity|]. split.
                ** intros q Hq. apply HA. right. exact Hq.
                ** intros q Hq. apply in_app_or in Hq. destruct Hq as [Hq|Hq]; [apply HB; exact Hq|].
                   unfold kids in Hq. apply in_map_iff in Hq. destruct Hq as [e [<- _]].
                   rewrite app_length, (HA c (or_introl eq_refl)). simpl. lia.
          -- apply NoDup_filter. exact HUnd.
          -- intros k Hk. apply in_app_or in Hk. unfold U'. apply filter_In. destruct Hk as [Hk|Hk].
             ++ split; [apply Hincl; right; exact Hk|]. apply negb_true_iff, Nat.eqb_neq. intros ->. inversion Hqnd; contradiction.
             ++ destruct (Hkid k Hk) as [H1 [_ H3]]. split; [exact H1|]. apply negb_true_iff, Nat.eqb_neq. exact H3.
          -- (* NoDup of the new queue *)
             apply NoDup_app_intro.
             ++ inversion Hqnd; assumption.
             ++ assert (H : forall l, NoDup (map fst l) -> (forall a k', In (a, k') l -> nodeof N0 (c ++ [a]) = Some k') -> NoDup (map snd l)).
                { induction l as [|[a k'] l IHl]; intros Hnd Hl; simpl; constructor.
                  - intro Hin. apply in_map_iff in Hin. destruct Hin as [[a2 k2] [Ek Hin]]. simpl in Ek. subst k2.
                    pose proof (Hl a k' (or_introl eq_refl)) as H1. pose proof (Hl a2 k' (or_intror Hin)) as H2.
                    pose proof (HI _ _ _ H1 H2) as Ee. apply app_inj_tail in Ee. destruct Ee as [_ <-].
                    inversion Hnd as [|? ? Hnot _]; subst. apply Hnot. apply in_map_iff. exists (a, k'). split; [reflexivity|exact Hin].
                  - inversion Hnd; subst. apply IHl; [assumption|]. intros a2 k2 Hin. apply Hl. right. exact Hin. }
                apply H; [exact Hkeys|]. intros a k' Hin. apply Hchild. exact Hin.
             ++ intros k Hk1 Hk2. destruct (Hkid k Hk2) as [_ [H2 _]]. apply H2. right. exact Hk1.
          -- (* parents of discovered nodes are popped *)
             intros s a k' ks Hs Hk' Hks Hor. unfold U'. rewrite filter_In. intros [HinU Hneq].
             apply negb_true_iff, Nat.eqb_neq in Hneq.
             destruct Hor as [Hin|Hnot].
             ++ apply in_app_or in Hin. destruct Hin as [Hin|Hin].
                ** exact (Hpar s a k' ks Hs Hk' Hks (or_introl (or_intror Hin)) HinU).
                ** apply in_map_iff in Hin. destruct Hin as [[a2 k2] [Ek Hin]]. simpl in Ek. subst k2.
                   apply Hchild in Hin. pose proof (HI _ _ _ Hk' Hin) as Ee. apply app_inj_tail in Ee. destruct Ee as [-> _].
                   rewrite Hkc in Hks. inversion Hks. congruence.
             ++ unfold U' in Hnot. rewrite filter_In in Hnot.
                destruct (Nat.eq_dec k' kc) as [->|Hd].
                ** exact (Hpar s a kc ks Hs Hk' Hks (or_introl (or_introl eq_refl)) HinU).
                ** apply (Hpar s a k' ks Hs Hk' Hks); [|exact HinU]. right. intro Hu. apply Hnot. split; [exact Hu|].
                   apply negb_true_iff, Nat.eqb_neq. exact Hd.
        * pose proof (filter_remove_length kc U HkcU). unfold U'. lia.
        * exists N'. split; [exact E'|exact HJ'].
  Qed.

  (* ---------- the whole phase, from the freshly built trie ---------- *)
  Hypothesis Hinit : forall s k x, nodeof N0 s = Some k -> nth_error N0 k = Some x ->
    t_fail x = None /\ (t_out x <> [] <-> In s P).

  Theorem fail_phase_ok root : nth_error N0 0 = Some root ->
    exists N', fail_bfs (S (length N0)) N0 (map snd (t_succ root)) = Ok N' /\ J N' (fun _ => False).
  Proof.
    intro Er.
    set (qs0 := map (fun e : nat * nat => [fst e]) (t_succ root)).
    assert (Hkeys : NoDup (map fst (t_succ root))) by (eapply HK; exact Er).
    assert (Hchild : forall a k', In (a, k') (t_succ root) <-> nodeof N0 [a] = Some k').
    { intros a k'. unfold nodeof. simpl. unfold edge. rewrite Er. split.
      - intro H. rewrite (assoc_NoDup a k' _ Hkeys H). reflexivity.
      - destruct (assoc a (t_succ root)) as [j|] eqn:Ea; [|discriminate]. intro H. inversion H; subst. apply assoc_In. exact Ea. }
    assert (Hnil : nodeof N0 [] = Some 0) by reflexivity.
    apply (fail_bfs_ok (S (length N0)) N0 (map snd (t_succ root)) qs0 (seq 1 (length N0 - 1))).
    - split; [|split; [|split; [|split; [|split; [|split; [|split]]]]]].
      + (* J *)
        split; [apply shape_refl|]. split; [exists root; split; [exact Er|split; [exact Er|exact (proj1 (Hinit [] 0 root Hnil Er))]]|]. split.
        * intros s k x Hs Hk Ex Hnp. destruct (Hinit s k x Hk Ex) as [Hf Ho].
          destruct s as [|a r]; [congruence|]. destruct r as [|b r'].
          -- split.
             ++ unfold failspec. rewrite Hf. intros u' [_ Hl] _. simpl in Hl. destruct u'; [reflexivity|simpl in Hl; lia].
             ++ rewrite Ho. split.
                ** intro Hin. exists [a]. split; [exact Hin|apply has_suffix_refl].
                ** intros [p [Hp Hsf]]. pose proof (HPne p Hp) as Hne. pose proof (has_suffix_length p _ Hsf) as Hl. simpl in Hl.
                   destruct Hsf as [u Eu]. destruct u as [|u0 u']; [simpl in Eu; subst p; exact Hp|].
                   exfalso. apply (f_equal (@length nat)) in Eu. simpl in Eu. rewrite app_length in Eu.
                   destruct p; [congruence|simpl in Eu; lia].
          -- exfalso. apply Hnp. exists [a]. split.
             ++ unfold qs0. assert (Hin : inT N0 [a]).
                { apply (inT_prefix N0 [a] (b :: r')). unfold inT. simpl. simpl in Hk. congruence. }
                unfold inT in Hin. destruct (nodeof N0 [a]) as [k'|] eqn:Ek; [|congruence].
                apply Hchild in Ek. apply in_map_iff. exists (a, k'). split; [reflexivity|exact Ek].
             ++ exists (b :: r'). split; [discriminate|reflexivity].
        * intros s k x Hk Ex _. exact (Hinit s k x Hk Ex).
      + unfold qs0. clear -Hchild.
        assert (H : forall l, (forall a k', In (a, k') l -> nodeof N0 [a] = Some k') ->
                  Forall2 (fun k q => nodeof N0 q = Some k) (map snd l) (map (fun e : nat * nat => [fst e]) l)).
        { induction l as [|[a k'] l IHl]; intro H; simpl; constructor.
          - apply H. left. reflexivity.
          - apply IHl. intros a2 k2 Hin. apply H. right. exact Hin. }
        apply H. intros a k' Hin. apply Hchild. exact Hin.
      + intros q Hq. unfold qs0 in Hq. apply in_map_iff in Hq. destruct Hq as [e [<- _]]. discriminate.
      + exists 1, qs0, []. split; [symmetry; apply app_nil_r|]. split; [|intros q []].
        intros q Hq. unfold qs0 in Hq. apply in_map_iff in Hq. destruct Hq as [e [<- _]]. reflexivity.
      + apply seq_NoDup.
      + intros k Hk. apply in_map_iff in Hk. destruct Hk as [[a k2] [Ek Hin]]. simpl in Ek. subst k2.
        apply Hchild in Hin. apply in_seq. pose proof (HV _ _ Hin).
        assert (k <> 0). { intros ->. pose proof (HI _ _ _ Hin Hnil). discriminate. } lia.
      + assert (H : forall l, NoDup (map fst l) -> (forall a k', In (a, k') l -> nodeof N0 [a] = Some k') -> NoDup (map snd l)).
        { induction l as [|[a k'] l IHl]; intros Hnd Hl; simpl; constructor.
          - intro Hin. apply in_map_iff in Hin. destruct Hin as [[a2 k2] [Ek Hin]]. simpl in Ek. subst k2.
            pose proof (Hl a k' (or_introl eq_refl)) as H1. pose proof (Hl a2 k' (or_intror Hin)) as H2.
            pose proof (HI _ _ _ H1 H2) as Ee. inversion Ee; subst a2.
            inversion Hnd as [|? ? Hnot _]; subst. apply Hnot. apply in_map_iff. exists (a, k'). split; [reflexivity|exact Hin].
          - inversion Hnd; subst. apply IHl; [assumption|]. intros a2 k2 Hin. apply Hl. right. exact Hin. }
        apply H; [exact Hkeys|]. intros a k' Hin. apply Hchild. exact Hin.
      + intros s a k' ks Hs Hk' Hks Hor. exfalso. destruct Hor as [Hin|Hnot].
        * apply in_map_iff in Hin. destruct Hin as [[a2 k2] [Ek Hin]]. simpl in Ek. subst k2.
          apply Hchild in Hin. pose proof (HI _ _ _ Hk' Hin) as Ee.
          destruct s as [|s0 s']; [congruence|]. destruct s'; discriminate.
        * apply Hnot. apply in_seq. pose proof (HV _ _ Hk').
          assert (k' <> 0). { intros ->. pose proof (HI _ _ _ Hk' Hnil) as Ee. destruct s; discriminate. } lia.
    - rewrite seq_length. pose proof (HV _ _ Hnil). lia.
  Qed.
End FailPhase.
