(* Aho-Corasick, the failure phase (fail_bfs of Model/AhoCorasick.v, lines 1972-1994 of dfa.py):
   started on a trie whose nodes all have fail = None and out = own keyword, with the children of
   the root in the queue, every Ok result satisfies the failure-link specification that
   Proofs/AhoCorasick.v needs (fail = node of the longest proper suffix in the trie, out non-empty
   iff a pattern is a suffix of the node's string).

   Invariant: a string is `pending` while some queue entry is a proper prefix of it; strings that
   are not pending are done, pending ones still carry their initial fields; the queue is sorted by
   depth, so everything at most as deep as the head of the queue is done when the head is expanded. *)
From Coq Require Import List Arith Bool Lia.
From AV Require Import Base.Util Spec.Lang Spec.FA Spec.Preds Model.Construct Model.KMP Model.AhoCorasick
                       Proofs.Preds Proofs.Border Proofs.KMP Proofs.AhoCorasick.
Import ListNotations.

Definition pprefix (q s : word) : Prop := exists r, r <> [] /\ s = q ++ r.

Definition failspec (N : list tnode) (s : word) (x : tnode) : Prop :=
  match t_fail x with
  | Some f => exists u, nodeof N u = Some f /\ u <> [] /\ psuf u s /\
                        forall u', psuf u' s -> inT N u' -> length u' <= length u
  | None => forall u', psuf u' s -> inT N u' -> u' = []
  end.

Definition shape (N0 N : list tnode) : Prop :=
  length N = length N0 /\ forall k, option_map t_succ (nth_error N k) = option_map t_succ (nth_error N0 k).

Lemma shape_edge N0 N k a : shape N0 N -> edge N k a = edge N0 k a.
Proof.
  intros [_ H]. unfold edge. specialize (H k).
  destruct (nth_error N k), (nth_error N0 k); simpl in H; congruence.
Qed.

Lemma shape_follow N0 N s : shape N0 N -> forall k, follow N k s = follow N0 k s.
Proof.
  intro H. induction s as [|a s IH]; intro k; [reflexivity|]. simpl. rewrite (shape_edge N0 N k a H).
  destruct (edge N0 k a); [apply IH|reflexivity].
Qed.

Lemma shape_nodeof N0 N s : shape N0 N -> nodeof N s = nodeof N0 s.
Proof. intro H. apply shape_follow. exact H. Qed.

Lemma shape_refl N : shape N N.
Proof. split; [reflexivity|]. intro k. reflexivity. Qed.

Lemma shape_upd N0 N k x x' : shape N0 N -> nth_error N k = Some x -> t_succ x' = t_succ x -> shape N0 (upd N k x').
Proof.
  intros [HL H] Ex Es. split; [rewrite upd_length; exact HL|]. intro j.
  destruct (Nat.eq_dec j k) as [->|Hne].
  - rewrite nth_error_upd_same by (apply nth_error_Some; congruence). rewrite <- H, Ex. simpl. congruence.
  - rewrite nth_error_upd_other by exact Hne. apply H.
Qed.

Lemma psuf_snoc_cases (y c : word) a : psuf y (c ++ [a]) -> y = [] \/ exists x, y = x ++ [a] /\ psuf x c.
Proof.
  intros [Hs Hl]. destruct (suffix_snoc_cases y c a Hs) as [->|[x [-> Hx]]]; [left; reflexivity|right].
  exists x. split; [reflexivity|]. split; [exact Hx|]. rewrite !app_length in Hl. simpl in Hl. lia.
Qed.

Lemma psuf_tl (x c : word) : c <> [] -> (psuf x c <-> has_suffix x (tl c)).
Proof.
  intro Hc. unfold psuf. rewrite (has_suffix_tl x c Hc). tauto.
Qed.

Section FailPhase.
  Variable N0 : list tnode.
  Variable P : list word.

  Hypothesis HV : forall s k, nodeof N0 s = Some k -> k < length N0.
  Hypothesis HI : forall s s' k, nodeof N0 s = Some k -> nodeof N0 s' = Some k -> s = s'.
  Hypothesis HK : forall k x, nth_error N0 k = Some x -> NoDup (map fst (t_succ x)).
  Hypothesis HP : forall p, In p P -> inT N0 p.
  Hypothesis HPne : forall p, In p P -> p <> [].

  Definition done (s : word) (x : tnode) : Prop := failspec N0 s x /\ (t_out x <> [] <-> ends_with_any P s).
  Definition initial (s : word) (x : tnode) : Prop := t_fail x = None /\ (t_out x <> [] <-> In s P).

  Definition J (N : list tnode) (pend : word -> Prop) : Prop :=
    shape N0 N /\
    (exists r, nth_error N 0 = Some r /\ t_fail r = None) /\
    (forall s k x, s <> [] -> nodeof N0 s = Some k -> nth_error N k = Some x -> ~ pend s -> done s x) /\
    (forall s k x, nodeof N0 s = Some k -> nth_error N k = Some x -> pend s -> initial s x).

  Lemma node_get0 N s k : shape N0 N -> nodeof N0 s = Some k -> exists x, nth_error N k = Some x.
  Proof.
    intros [HL _] H. apply HV in H. destruct (nth_error N k) as [x|] eqn:E; [exists x; reflexivity|].
    apply nth_error_None in E. lia.
  Qed.

  (* one successor of the node of c gets its failure link and output chain *)
  Lemma set_fail_step N (pend : word -> Prop) c kc xc a k' N1 :
    J N pend -> c <> [] -> nodeof N0 c = Some kc -> nth_error N kc = Some xc -> ~ pend c ->
    (forall s, s <> [] -> inT N0 s -> length s <= length c -> ~ pend s) ->
    nodeof N0 (c ++ [a]) = Some k' -> pend (c ++ [a]) ->
    set_fail (S (length N)) (t_fail xc) N (a, k') = Ok N1 ->
    J N1 (fun s => pend s /\ s <> c ++ [a]).
  Proof.
    intros [Hsh [Hr [J1 J4]]] Hc Hkc Exc Hnc Hshallow Hk' Hpend E.
    assert (Hno : forall s, nodeof N s = nodeof N0 s) by (intro s; apply shape_nodeof; exact Hsh).
    assert (HVN : forall s k, nodeof N s = Some k -> k < length N).
    { intros s k H. rewrite Hno in H. apply HV in H. destruct Hsh as [HL _]. lia. }
    assert (HFN : forall s k x, s <> [] -> length s <= length c -> nodeof N s = Some k -> nth_error N k = Some x ->
              match t_fail x with
              | Some f => exists u, nodeof N u = Some f /\ u <> [] /\ psuf u s /\
                                    forall u', psuf u' s -> inT N u' -> length u' <= length u
              | None => forall u', psuf u' s -> inT N u' -> u' = []
              end).
    { intros s k x Hs Hl Hk Ex. rewrite Hno in Hk.
      assert (Hin : inT N0 s) by (unfold inT; congruence).
      destruct (J1 s k x Hs Hk Ex (Hshallow s Hs Hin Hl)) as [Hf _]. unfold failspec in Hf.
      destruct (t_fail x) as [f|].
      - destruct Hf as [u [H1 [H2 [H3 H4]]]]. exists u. rewrite Hno. split; [exact H1|]. split; [exact H2|].
        split; [exact H3|]. intros u' Hu' Hi. apply H4; [exact Hu'|]. unfold inT in *. rewrite <- Hno. exact Hi.
      - intros u' Hu' Hi. apply Hf; [exact Hu'|]. unfold inT in *. rewrite <- Hno. exact Hi. }
    (* the walk from fail(c) over the proper suffixes of c *)
    destruct (J1 c kc xc Hc Hkc Exc Hnc) as [Hfc _]. unfold failspec in Hfc.
    assert (Hchain : chain N (length c) (tl c) a (S (length N)) (t_fail xc)).
    { unfold chain. destruct (t_fail xc) as [f|].
      - destruct Hfc as [u [H1 [H2 [H3 H4]]]]. exists u. rewrite Hno. split; [exact H1|].
        split; [apply (proj1 (psuf_tl u c Hc)); exact H3|]. split.
        + assert (length u < length N0) by (eapply depth_bound; eassumption).
          destruct Hsh as [HL _]. lia.
        + split; [destruct H3; lia|]. intros x Hx Hi. apply H4; [apply (proj2 (psuf_tl x c Hc)); exact Hx|].
          apply (inT_prefix N0 x [a]). unfold inT in *. rewrite <- Hno. exact Hi.
      - split; [lia|]. intros x Hx Hi. apply Hfc; [apply (proj2 (psuf_tl x c Hc)); exact Hx|].
        apply (inT_prefix N0 x [a]). unfold inT in *. rewrite <- Hno. exact Hi. }
    destruct (fail_walk_ok N (length c) HVN Hr HFN (tl c) a (S (length N)) (t_fail xc) Hchain) as [st [Ew Hw]].
    unfold set_fail in E. rewrite Ew in E. cbn [bind] in E.
    (* the new node *)
    assert (Hk'0 : k' <> 0).
    { intro E0. subst k'. assert (Hnil : nodeof N0 [] = Some 0) by reflexivity.
      pose proof (HI _ _ _ Hk' Hnil) as Ec. destruct c; discriminate. }
    destruct (node_get0 N (c ++ [a]) k' Hsh Hk') as [sd Esd].
    (* facts about a candidate failure target: fl = node of a proper suffix t of c ++ [a], dominating all others *)
    assert (Hfinish : forall nfail nout,
      (match nfail with
       | Some fl => exists t fd, nodeof N0 t = Some fl /\ t <> [] /\ psuf t (c ++ [a]) /\ nth_error N fl = Some fd /\
                                nout = t_out sd ++ t_out fd /\
                                forall y, psuf y (c ++ [a]) -> inT N0 y -> length y <= length t
       | None => nout = t_out sd /\ forall y, psuf y (c ++ [a]) -> inT N0 y -> y = []
       end) ->
      J (upd N k' (mknode (t_succ sd) nout nfail)) (fun s => pend s /\ s <> c ++ [a])).
    { intros nfail nout Hspec.
      assert (Hother : forall s k, nodeof N0 s = Some k -> s <> c ++ [a] -> k <> k').
      { intros s k Hk Hne Ek. subst k. apply Hne. eapply HI; eassumption. }
      split; [eapply shape_upd; [exact Hsh|exact Esd|reflexivity]|]. split.
      { rewrite nth_error_upd_other by (intro Ez; apply Hk'0; symmetry; exact Ez). exact Hr. }
      split.
      - intros s k x Hsne Hk Ex Hnp.
        destruct (list_eq_dec Nat.eq_dec s (c ++ [a])) as [->|Hne].
        + rewrite Hk' in Hk. inversion Hk; subst k.
          rewrite nth_error_upd_same in Ex by (apply nth_error_Some; congruence). inversion Ex; subst x. clear Ex.
          destruct (J4 (c ++ [a]) k' sd Hk' Esd Hpend) as [_ Hown].
          split.
          * unfold failspec. cbn [t_fail]. destruct nfail as [fl|].
            -- destruct Hspec as [t [fd [H1 [H2 [H3 [_ [_ H6]]]]]]]. exists t. repeat split; try assumption; apply H3.
            -- destruct Hspec as [_ H]. exact H.
          * cbn [t_out]. destruct nfail as [fl|].
            -- destruct Hspec as [t [fd [H1 [H2 [H3 [H4 [-> H6]]]]]]].
               assert (Hdt : done t fd).
               { apply (J1 t fl fd H2 H1 H4). apply Hshallow; [exact H2|unfold inT; congruence|].
                 destruct H3 as [_ H3]. rewrite app_length in H3. simpl in H3. lia. }
               destruct Hdt as [_ Hot]. split.
               ++ intro Hne. destruct (t_out sd) as [|o os] eqn:Eo.
                  ** simpl in Hne. apply Hot in Hne. destruct Hne as [p [Hp Hps]]. exists p. split; [exact Hp|].
                     eapply has_suffix_trans; [exact Hps|apply H3].
                  ** exists (c ++ [a]). split; [apply Hown; discriminate|apply has_suffix_refl].
               ++ intros [p [Hp Hs]]. destruct (list_eq_dec Nat.eq_dec p (c ++ [a])) as [->|Hpne].
                  ** apply Hown in Hp. intro En. apply app_eq_nil in En. tauto.
                  ** assert (Hps : psuf p (c ++ [a])).
                     { split; [exact Hs|]. pose proof (has_suffix_length p _ Hs) as Hl.
                       destruct (Nat.eq_dec (length p) (length (c ++ [a]))) as [El|El]; [|lia].
                       exfalso. apply Hpne. apply (has_suffix_same_len p (c ++ [a]) (c ++ [a]) Hs (has_suffix_refl _) El). }
                     assert (Hpt : has_suffix p t).
                     { apply (suffix_of_suffix p t (c ++ [a]) Hs (proj1 H3)). apply H6; [exact Hps|apply HP; exact Hp]. }
                     intro En. apply app_eq_nil in En. destruct En as [_ En].
                     assert (Hne : t_out fd <> []) by (apply Hot; exists p; split; assumption). contradiction.
            -- destruct Hspec as [-> Hall]. split.
               ++ intro Hne. exists (c ++ [a]). split; [apply Hown; exact Hne|apply has_suffix_refl].
               ++ intros [p [Hp Hs]]. destruct (list_eq_dec Nat.eq_dec p (c ++ [a])) as [->|Hpne].
                  ** apply Hown. exact Hp.
                  ** exfalso. assert (Hps : psuf p (c ++ [a])).
                     { split; [exact Hs|]. pose proof (has_suffix_length p _ Hs) as Hl.
                       destruct (Nat.eq_dec (length p) (length (c ++ [a]))) as [El|El]; [|lia].
                       exfalso. apply Hpne. apply (has_suffix_same_len p (c ++ [a]) (c ++ [a]) Hs (has_suffix_refl _) El). }
                     apply (HPne p Hp). apply Hall; [exact Hps|apply HP; exact Hp].
        + rewrite nth_error_upd_other in Ex by (apply (Hother s k); assumption).
          apply (J1 s k x Hsne Hk Ex). intro Hp. apply Hnp. split; assumption.
      - intros s k x Hk Ex [Hp Hne].
        rewrite nth_error_upd_other in Ex by (apply (Hother s k); assumption). apply (J4 s k x Hk Ex Hp). }
    (* what the walk found *)
    assert (Hcand : forall y, psuf y (c ++ [a]) -> inT N0 y -> y = [] \/ exists x, y = x ++ [a] /\ has_suffix x (tl c) /\ inT N (x ++ [a])).
    { intros y Hy Hi. destruct (psuf_snoc_cases y c a Hy) as [->|[x [-> Hx]]]; [left; reflexivity|right].
      exists x. split; [reflexivity|]. split; [apply (proj1 (psuf_tl x c Hc)); exact Hx|]. unfold inT in *. rewrite Hno. exact Hi. }
    destruct st as [j|].
    - destruct Hw as [v [j' [Hv [Hvs [He Hmax]]]]].
      destruct (node_get0 N v j Hsh ltac:(rewrite <- Hno; exact Hv)) as [sn Esn].
      rewrite (idx_Ok N j sn Esn), (idx_Ok N k' sd Esd) in E. cbn [bind] in E.
      unfold edge in He. rewrite Esn in He. rewrite He in E.
      assert (Hj' : nodeof N0 (v ++ [a]) = Some j').
      { rewrite <- Hno, nodeof_snoc, Hv. unfold edge. rewrite Esn. exact He. }
      destruct (node_get0 N (v ++ [a]) j' Hsh Hj') as [fd Efd].
      rewrite (idx_Ok N j' fd Efd) in E. cbn [bind] in E. inversion E; subst N1. clear E.
      apply (Hfinish (Some j') _). exists (v ++ [a]), fd. split; [exact Hj'|].
      split; [intro En; apply app_eq_nil in En; destruct En; discriminate|]. split.
      + apply (proj2 (psuf_tl v c Hc)) in Hvs. destruct Hvs as [Hvs Hvl].
        split; [apply has_suffix_snoc; split; [reflexivity|exact Hvs]|].
        rewrite !app_length. simpl. lia.
      + split; [exact Efd|]. split; [reflexivity|].
        intros y Hy Hi. destruct (Hcand y Hy Hi) as [->|[x [-> [Hx Hix]]]]; [simpl; lia|].
        rewrite !app_length. simpl. pose proof (Hmax x Hx Hix). lia.
    - destruct Hr as [r [Er Efr]].
      rewrite (idx_Ok N 0 r Er), (idx_Ok N k' sd Esd) in E. cbn [bind] in E.
      destruct (assoc a (t_succ r)) as [fl|] eqn:Ea.
      + assert (Hfl : nodeof N0 [a] = Some fl).
        { rewrite <- Hno. unfold nodeof. simpl. unfold edge. rewrite Er, Ea. reflexivity. }
        destruct (node_get0 N [a] fl Hsh Hfl) as [fd Efd].
        rewrite (idx_Ok N fl fd Efd) in E. cbn [bind] in E. inversion E; subst N1. clear E.
        apply (Hfinish (Some fl) _). exists [a], fd. split; [exact Hfl|]. split; [discriminate|]. split.
        * split; [exists c; reflexivity|]. rewrite app_length. simpl. destruct c; [congruence|simpl; lia].
        * split; [exact Efd|]. split; [reflexivity|].
          intros y Hy Hi. destruct (Hcand y Hy Hi) as [->|[x [-> [Hx Hix]]]]; [simpl; lia|].
          rewrite (Hw x Hx Hix). simpl. lia.
      + inversion E; subst N1. clear E. apply (Hfinish None _). split; [reflexivity|].
        intros y Hy Hi. destruct (Hcand y Hy Hi) as [->|[x [-> [Hx Hix]]]]; [reflexivity|]. exfalso.
        pose proof (Hw x Hx Hix) as ->. unfold inT, nodeof in Hix. simpl in Hix. unfold edge in Hix.
        rewrite Er, Ea in Hix. congruence.
  Qed.
End FailPhase.
