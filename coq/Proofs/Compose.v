(* Glue for the composition corollaries (Props/P_C05c, P_C06b, P_C07b, P_C08b, P_C09b, P_C13b): facts that belong to
   no single property - how the alphabet relation [same_syms] follows from the alphabet EQUALITIES the operation
   theorems conclude with, verdict equality vs language equality, textbook identities of the language operations of
   Spec/Lang.v, and the counting step "two duplicate-free lists with the same members have the same length". *)
From Coq Require Import List Arith Bool Lia Permutation.
From AV Require Import Base.Util Spec.Lang Spec.FA Model.Product Proofs.Decide.
Import ListNotations.

(* ---- alphabets ---- *)
Lemma same_syms_congr A B A' B' : d_syms A' = d_syms A -> d_syms B' = d_syms B -> same_syms A' B' = same_syms A B.
Proof. intros HA HB. unfold same_syms. rewrite HA, HB. reflexivity. Qed.

Lemma same_syms_eq A B : d_syms A = d_syms B -> same_syms A B = true.
Proof.
  intro H. unfold same_syms. rewrite H. apply andb_true_iff. split; apply subsetb_incl; apply incl_refl.
Qed.

Lemma same_syms_over A B : same_syms A B = true -> forall w, over (d_syms A) w <-> over (d_syms B) w.
Proof.
  unfold same_syms. rewrite andb_true_iff, !subsetb_incl. intros [H1 H2] w. unfold over.
  rewrite !Forall_forall. split; intros H a Ha; [apply H1|apply H2]; apply H; exact Ha.
Qed.

Lemma over_dec S w : over S w \/ ~ over S w.
Proof.
  destruct (over_or_foreign S w) as [H|[u [a [v [-> Ha]]]]]; [left; exact H|right].
  intro H. unfold over in H. rewrite Forall_forall in H. apply Ha. apply H. apply in_or_app. right. left. reflexivity.
Qed.

(* ---- verdicts and languages ---- *)
Lemma acc_eq_lang A B : (forall w, dfa_acc A w = dfa_acc B w) -> L_dfa A =L L_dfa B.
Proof. intros H w. unfold L_dfa. rewrite (H w). tauto. Qed.

Lemma lang_acc_eq A B : L_dfa A =L L_dfa B -> forall w, dfa_acc A w = dfa_acc B w.
Proof.
  intros H w. specialize (H w). unfold L_dfa in H.
  destruct (dfa_acc A w), (dfa_acc B w); try reflexivity; [symmetry|]; apply H; reflexivity.
Qed.

(* ---- language algebra (Spec/Lang.v) ---- *)
Lemma l_rev_ext A B : A =L B -> l_rev A =L l_rev B.
Proof. intros H w. apply H. Qed.

Lemma l_rev_union A B : l_rev (l_union A B) =L l_union (l_rev A) (l_rev B).
Proof. intro w. unfold l_rev, l_union. tauto. Qed.

Lemma l_rev_cat A B : l_rev (l_cat A B) =L l_cat (l_rev B) (l_rev A).
Proof.
  intro w. unfold l_rev, l_cat. split.
  - intros [u [v [E [Hu Hv]]]]. exists (rev v), (rev u). rewrite !rev_involutive.
    split; [|split; assumption]. rewrite <- rev_app_distr, <- E. symmetry. apply rev_involutive.
  - intros [u [v [E [Hu Hv]]]]. exists (rev v), (rev u). split; [|split; assumption].
    rewrite E. apply rev_app_distr.
Qed.

Lemma l_rev_rev A : l_rev (l_rev A) =L A.
Proof. intro w. unfold l_rev. rewrite rev_involutive. tauto. Qed.

Lemma l_star_mono (A B : lang) : (forall w, A w -> B w) -> forall w, l_star A w -> l_star B w.
Proof. intros H w Hw. induction Hw as [|u v Hu _ IH]; [constructor|constructor; [apply H; exact Hu|exact IH]]. Qed.

Lemma l_star_opt A : l_star (l_opt A) =L l_star A.
Proof.
  intro w. split.
  - intro H. induction H as [|u v Hu _ IH]; [constructor|].
    destruct Hu as [->|Hu]; [exact IH|constructor; assumption].
  - apply l_star_mono. intros u Hu. right. exact Hu.
Qed.

Lemma l_star_app A u v : l_star A u -> l_star A v -> l_star A (u ++ v).
Proof.
  intros Hu Hv. induction Hu as [|x y Hx _ IH]; [exact Hv|]. rewrite <- app_assoc. constructor; assumption.
Qed.

Lemma l_star_star A : l_star (l_star A) =L l_star A.
Proof.
  intro w. split.
  - intro H. induction H as [|u v Hu _ IH]; [constructor|apply l_star_app; assumption].
  - apply l_star_mono. intros u Hu. rewrite <- (app_nil_r u). constructor; [exact Hu|constructor].
Qed.

Lemma l_star_rev_incl A w : l_star A w -> l_star (l_rev A) (rev w).
Proof.
  intro H. induction H as [|u v Hu _ IH]; [constructor|]. rewrite rev_app_distr.
  apply l_star_app; [exact IH|]. rewrite <- (app_nil_r (rev u)). constructor; [|constructor].
  unfold l_rev. rewrite rev_involutive. exact Hu.
Qed.

Lemma l_rev_star A : l_rev (l_star A) =L l_star (l_rev A).
Proof.
  intro w. unfold l_rev at 1. split.
  - intro H. rewrite <- (rev_involutive w). apply l_star_rev_incl. exact H.
  - intro H. apply l_star_rev_incl in H. revert H. apply l_star_mono. intros u Hu.
    unfold l_rev in Hu. rewrite rev_involutive in Hu. exact Hu.
Qed.

(* ---- counting ---- *)
Lemma nodup_same_members_length {X} (l1 l2 : list X) :
  NoDup l1 -> NoDup l2 -> (forall x, In x l1 <-> In x l2) -> length l1 = length l2.
Proof. intros H1 H2 H. apply Permutation_length. apply NoDup_Permutation; assumption. Qed.

Fixpoint max_len_of (l : list word) : nat :=
  match l with [] => 0 | w :: r => Nat.max (length w) (max_len_of r) end.

Lemma max_len_of_bound l w : In w l -> length w <= max_len_of l.
Proof.
  induction l as [|x r IH]; simpl; [intros []|]. intros [->|H]; [apply Nat.le_max_l|].
  eapply Nat.le_trans; [apply IH; exact H|apply Nat.le_max_r].
Qed.

Lemma NoDup_firstn {X} n (l : list X) : NoDup l -> NoDup (firstn n l).
Proof.
  revert n. induction l as [|a l IH]; intros [|n] H; simpl; try constructor.
  - inversion H as [|? ? Hn Hd]; subst. intro Hin. apply Hn. revert Hin. clear. revert n.
    induction l as [|b l IH]; intros [|n]; simpl; try tauto. intros [H|H]; [left; exact H|right; eapply IH; exact H].
  - inversion H; subst. apply IH. assumption.
Qed.

(* ---- the number of words of a given length ---- *)
From AV Require Import Spec.Words Spec.Preds.

Lemma flat_map_const_length {X Y} (f : X -> list Y) (l : list X) n :
  (forall x, In x l -> length (f x) = n) -> length (flat_map f l) = length l * n.
Proof.
  induction l as [|a l IH]; intro H; simpl; [reflexivity|]. rewrite app_length, IH.
  - rewrite (H a (or_introl eq_refl)). reflexivity.
  - intros x Hx. apply H. right. exact Hx.
Qed.

Lemma all_words_length S k : length (all_words S k) = length S ^ k.
Proof.
  induction k as [|k IH]; simpl; [reflexivity|].
  rewrite (flat_map_const_length _ S (length S ^ k)); [reflexivity|]. intros a _. rewrite map_length. exact IH.
Qed.

Lemma filter_all {X} (f : X -> bool) l : (forall x, In x l -> f x = true) -> filter f l = l.
Proof.
  induction l as [|a l IH]; intro H; simpl; [reflexivity|]. rewrite (H a (or_introl eq_refl)). f_equal.
  apply IH. intros x Hx. apply H. right. exact Hx.
Qed.

Lemma filter_none {X} (f : X -> bool) l : (forall x, In x l -> f x = false) -> filter f l = [].
Proof.
  induction l as [|a l IH]; intro H; simpl; [reflexivity|]. rewrite (H a (or_introl eq_refl)).
  apply IH. intros x Hx. apply H. right. exact Hx.
Qed.

Lemma counted_over cs w : Forall (fun a => In a cs) w -> counted cs w = length w.
Proof.
  unfold counted. induction w as [|a w IH]; intro H; simpl; [reflexivity|]. inversion H as [|? ? Ha Hw]; subst.
  rewrite (proj2 (memb_In a cs) Ha). simpl. f_equal. apply IH. exact Hw.
Qed.

Lemma flat_map_length_sum {X Y} (f : X -> list Y) l :
  length (flat_map f l) = list_sum (map (fun x => length (f x)) l).
Proof. induction l as [|a l IH]; simpl; [reflexivity|]. rewrite app_length, IH. reflexivity. Qed.

Lemma NoDup_app_disjoint {X} (a b : list X) :
  NoDup a -> NoDup b -> (forall x, In x a -> ~ In x b) -> NoDup (a ++ b).
Proof.
  induction a as [|x a IH]; intros Ha Hb H; simpl; [exact Hb|]. inversion Ha as [|? ? Hx Ha']; subst. constructor.
  - intro Hin. apply in_app_or in Hin. destruct Hin as [Hin|Hin]; [exact (Hx Hin)|exact (H x (or_introl eq_refl) Hin)].
  - apply IH; [exact Ha'|exact Hb|]. intros y Hy. apply H. right. exact Hy.
Qed.

Lemma NoDup_flat_map_disjoint {X Y} (f : X -> list Y) l :
  NoDup l -> (forall x, In x l -> NoDup (f x)) ->
  (forall x y z, In x l -> In y l -> In z (f x) -> In z (f y) -> x = y) -> NoDup (flat_map f l).
Proof.
  induction l as [|a l IH]; intros Hl Hf Hd; simpl; [constructor|]. inversion Hl as [|? ? Ha Hl']; subst.
  apply NoDup_app_disjoint.
  - apply Hf. left. reflexivity.
  - apply IH; [exact Hl'| |].
    + intros x Hx. apply Hf. right. exact Hx.
    + intros x y z Hx Hy. apply Hd; right; assumption.
  - intros z Hz Hin. apply in_flat_map in Hin. destruct Hin as [y [Hy Hzy]].
    assert (a = y) by (apply (Hd a y z); [left; reflexivity|right; exact Hy|exact Hz|exact Hzy]). subst y. exact (Ha Hy).
Qed.
