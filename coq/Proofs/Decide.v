(* Correctness of the comparators of Model/Decide.v. *)
From Coq Require Import List Arith Bool Lia.
From AV Require Import Base.Util Base.Closure Base.KClosure Spec.Lang Spec.FA Model.FARun Model.Decide Proofs.FARun.
Import ListNotations.

Definition over (syms : list nat) (w : word) : Prop := Forall (fun a => In a syms) w.

Lemma over_or_foreign syms w :
  over syms w \/ exists u a v, w = u ++ a :: v /\ ~ In a syms.
Proof.
  induction w as [|a w IH]; [left; constructor|].
  destruct (memb a syms) eqn:E.
  - apply memb_In in E. destruct IH as [IH|[u [b [v [-> Hb]]]]].
    + left. constructor; assumption.
    + right. exists (a :: u), b, v. split; [reflexivity|exact Hb].
  - apply memb_false in E. right. exists [], a, w. split; [reflexivity|exact E].
Qed.

Section GDiff.
  Variables X Y : Type.
  Variable eqbX : X -> X -> bool.
  Variable eqbY : Y -> Y -> bool.
  Hypothesis eqbX_ok : eqb_ok eqbX.
  Hypothesis eqbY_ok : eqb_ok eqbY.
  Variable stepX : X -> nat -> X.
  Variable stepY : Y -> nat -> Y.
  Variable finX : X -> bool.
  Variable finY : Y -> bool.
  Variable syms : list nat.
  Variable x0 : X.
  Variable y0 : Y.

  Notation runX := (fun w => fold_left stepX w x0).
  Notation runY := (fun w => fold_left stepY w y0).
  Notation item := (gitem X Y).
  Notation gs := (gsucc X Y stepX stepY syms).
  Notation init := [((x0, y0), @nil nat)].

  Definition item_ok (x : item) : Prop :=
    over syms (rev (snd x)) /\ fst x = (runX (rev (snd x)), runY (rev (snd x))).

  Lemma item_ok_succ x y : item_ok x -> In y (gs x) -> item_ok y.
  Proof.
    intros [Ho He] Hy. unfold gsucc in Hy. apply in_map_iff in Hy. destruct Hy as [a [<- Ha]].
    unfold item_ok. simpl. split.
    - unfold over. apply Forall_app. split; [exact Ho|]. constructor; [exact Ha|constructor].
    - rewrite !fold_left_app. simpl. rewrite He. reflexivity.
  Qed.

  Lemma item_ok_init y : In y init -> item_ok y.
  Proof. intros [<-|[]]. split; [constructor|reflexivity]. Qed.

  Lemma gs_compat : succ_compat fst gs.
  Proof.
    intros x x' Hk y Hy. unfold gsucc in *. apply in_map_iff in Hy. destruct Hy as [a [<- Ha]].
    exists ((stepX (fst (fst x')) a, stepY (snd (fst x')) a), a :: snd x'). split.
    - apply in_map_iff. exists a. split; [reflexivity|exact Ha].
    - simpl. rewrite Hk. reflexivity.
  Qed.

  Lemma word_reach w : over syms w -> kreach gs init ((runX w, runY w), rev w).
  Proof.
    induction w as [|a w IH] using rev_ind; intro Ho.
    - apply kreach_init. left. reflexivity.
    - apply Forall_app in Ho. destruct Ho as [Ho Ha]. inversion Ha; subst.
      eapply kreach_step; [apply IH; exact Ho|].
      unfold gsucc. apply in_map_iff. exists a. split; [|assumption].
      simpl. rewrite !fold_left_app, rev_app_distr. reflexivity.
  Qed.

  Lemma pair_ok : eqb_ok (eqb_pair eqbX eqbY).
  Proof. apply eqb_pair_ok; assumption. Qed.

  Theorem gdiff_none fuel :
    gdiff X Y eqbX eqbY stepX stepY finX finY syms fuel x0 y0 = Some None ->
    forall w, over syms w -> finX (runX w) = finY (runY w).
  Proof.
    unfold gdiff, gexplore. destruct (kclosure _ _ _ _ _) as [items|] eqn:E; [|discriminate].
    destruct (find (gbad X Y finX finY) items) as [x|] eqn:Ef; [discriminate|]. intros _ w Ho.
    destruct (kclosure_complete _ _ _ _ pair_ok _ _ _ _ gs_compat E _ (word_reach w Ho)) as [z [Hz Hk]].
    pose proof (find_none _ _ Ef z Hz) as Hb. unfold gbad in Hb. simpl in Hk. rewrite Hk in Hb. simpl in Hb.
    destruct (finX (runX w)), (finY (runY w)); simpl in Hb; congruence.
  Qed.

  Theorem gdiff_some fuel w :
    gdiff X Y eqbX eqbY stepX stepY finX finY syms fuel x0 y0 = Some (Some w) ->
    over syms w /\ finX (runX w) <> finY (runY w).
  Proof.
    unfold gdiff, gexplore. destruct (kclosure _ _ _ _ _) as [items|] eqn:E; [|discriminate].
    destruct (find (gbad X Y finX finY) items) as [x|] eqn:Ef; [|discriminate]. intro H. inversion H; subst. clear H.
    apply find_some in Ef. destruct Ef as [Hx Hb].
    assert (Hok : item_ok x).
    { apply (kclosure_inv _ _ _ _ pair_ok _ item_ok _ _ _ item_ok_init item_ok_succ E x Hx). }
    destruct Hok as [Ho He]. split; [exact Ho|].
    unfold gbad in Hb. rewrite He in Hb. simpl in Hb.
    destruct (finX _), (finY _); simpl in Hb; congruence.
  Qed.

  Section Fuel.
    Variable UX : list X.
    Variable UY : list Y.
    Hypothesis UX_closed : forall x a, In x UX -> In (stepX x a) UX.
    Hypothesis UY_closed : forall y a, In y UY -> In (stepY y a) UY.
    Hypothesis x0_in : In x0 UX.
    Hypothesis y0_in : In y0 UY.

    Theorem gdiff_fuel fuel : length UX * length UY < fuel ->
      gdiff X Y eqbX eqbY stepX stepY finX finY syms fuel x0 y0 <> None.
    Proof.
      intro Hf. unfold gdiff, gexplore.
      destruct (kclosure _ _ _ _ _) as [items|] eqn:E; [discriminate|]. exfalso. revert E.
      apply (kclosure_fuel _ _ _ _ pair_ok _ (list_prod UX UY)
               (fun x : item => In (fst (fst x)) UX /\ In (snd (fst x)) UY)).
      - intros [[x y] w] [H1 H2]. simpl in *. apply in_prod; assumption.
      - intros x y [H1 H2] Hy. unfold gsucc in Hy. apply in_map_iff in Hy. destruct Hy as [a [<- _]].
        simpl. split; [apply UX_closed|apply UY_closed]; assumption.
      - intros x [<-|[]]. simpl. split; assumption.
      - rewrite prod_length. exact Hf.
    Qed.
  End Fuel.
End GDiff.

(* ---------- DFA instance ---------- *)
Lemma fold_ostep m w q : fold_left (ostep m) w q = dfa_run m q w.
Proof. revert q. induction w as [|a w IH]; intro q; simpl; [reflexivity|apply IH]. Qed.

Section DFADiff.
  Variables A B : dfa.
  Hypothesis HA : valid_dfa A = true.
  Hypothesis HB : valid_dfa B = true.

  Let syms := set_union (d_syms A) (d_syms B).

  Lemma foreign_both_reject u a v : ~ In a syms -> dfa_acc A (u ++ a :: v) = false /\ dfa_acc B (u ++ a :: v) = false.
  Proof.
    intro H. unfold syms in H. rewrite set_union_In in H. split.
    - apply dfa_foreign_symbol_rejects; [exact HA|tauto].
    - apply dfa_foreign_symbol_rejects; [exact HB|tauto].
  Qed.

  Definition ostates (m : dfa) : list (option nat) := None :: map Some (d_states m).

  Lemma ostates_closed m : valid_dfa m = true -> forall x a, In x (ostates m) -> In (ostep m x a) (ostates m).
  Proof.
    intros Hm x a Hx. destruct x as [q|]; simpl; [|left; reflexivity].
    destruct (d_delta m q a) as [q'|] eqn:E; [|left; reflexivity].
    right. apply in_map. apply (delta_in_states m Hm) in E. tauto.
  Qed.

  Lemma ostates_init m : valid_dfa m = true -> In (Some (d_init m)) (ostates m).
  Proof. intro Hm. right. apply in_map. destruct (valid_dfa_parts m Hm) as (_ & _ & _ & _ & _ & H & _). exact H. Qed.

  Theorem dfa_diff_spec :
    exists r, dfa_diff A B = Ok r /\
      (r = None <-> L_dfa A =L L_dfa B) /\
      (forall w, r = Some w -> dfa_acc A w <> dfa_acc B w).
  Proof.
    unfold dfa_diff.
    destruct (gdiff _ _ _ _ _ _ _ _ _ _ _ _) as [r|] eqn:E.
    - exists r. split; [reflexivity|].
      assert (Hsome : forall w, r = Some w -> dfa_acc A w <> dfa_acc B w).
      { intros w ->. apply gdiff_some in E; [|apply eqb_opt_ok, eqb_nat_ok|apply eqb_opt_ok, eqb_nat_ok].
        destruct E as [_ E]. cbv beta in E. rewrite !fold_ostep in E. exact E. }
      split; [|exact Hsome]. split.
      + intros ->. intro w. unfold L_dfa.
        destruct (over_or_foreign syms w) as [Ho|[u [a [v [-> Ha]]]]].
        * pose proof (gdiff_none _ _ _ _ (eqb_opt_ok _ eqb_nat_ok) (eqb_opt_ok _ eqb_nat_ok)
                        _ _ _ _ _ _ _ _ E w Ho) as H.
          cbv beta in H. rewrite !fold_ostep in H. unfold dfa_acc, dfa_acc_from. rewrite H. tauto.
        * destruct (foreign_both_reject u a v Ha) as [H1 H2]. rewrite H1, H2. tauto.
      + intro HL. destruct r as [w|]; [|reflexivity]. exfalso.
        apply (Hsome w eq_refl). specialize (HL w). unfold L_dfa in HL.
        destruct (dfa_acc A w), (dfa_acc B w); try reflexivity; exfalso;
          [destruct HL as [HL _]; specialize (HL eq_refl)|destruct HL as [_ HL]; specialize (HL eq_refl)]; discriminate.
    - exfalso. revert E.
      apply (gdiff_fuel _ _ _ _ (eqb_opt_ok _ eqb_nat_ok) (eqb_opt_ok _ eqb_nat_ok) _ _ _ _ _ _ _
               (ostates A) (ostates B)).
      + apply ostates_closed; exact HA.
      + apply ostates_closed; exact HB.
      + apply ostates_init; exact HA.
      + apply ostates_init; exact HB.
      + unfold dfa_diff_fuel, ostates. simpl. rewrite !map_length. lia.
  Qed.
End DFADiff.

(* ---------- subset construction ---------- *)
Section Subset.
  Variable m : nfa.
  Hypothesis Hv : valid_nfa m = true.

  Lemma eclose_spec p : In p (n_states m) ->
    ssorted (eclose m p) /\ forall q, In q (eclose m p) <-> eps_star m p q.
  Proof.
    intro Hp. destruct (eclosure_spec m Hv p Hp) as [c [E [Hs Hc]]].
    unfold eclosure, eps_succ in E. unfold eclose.
    destruct (closure Nat.eqb (fun q => n_targets m q None) (S (length (n_states m))) [p]) as [c'|];
      [|discriminate].
    inversion E; subst. split; assumption.
  Qed.

  Lemma eclose_in_states p q : In p (n_states m) -> In q (eclose m p) -> In q (n_states m).
  Proof.
    intros Hp Hq. apply (eps_star_in_states m Hv p q Hp). apply (eclose_spec p Hp). exact Hq.
  Qed.

  Lemma nset_step_In S a x :
    In x (nset_step m S a) <-> exists q t, In q S /\ n_edge m q (Some a) t /\ eps_star m t x.
  Proof.
    unfold nset_step. rewrite set_of_In, in_flat_map. split.
    - intros [q [Hq H]]. apply in_flat_map in H. destruct H as [t [Ht H]].
      exists q, t. split; [exact Hq|]. split; [exact Ht|].
      apply (eclose_spec t (targets_in_states m Hv _ _ _ Ht)). exact H.
    - intros [q [t [Hq [Ht H]]]]. exists q. split; [exact Hq|]. apply in_flat_map. exists t.
      split; [exact Ht|]. apply (eclose_spec t (targets_in_states m Hv _ _ _ Ht)). exact H.
  Qed.

  Lemma nset_step_sorted S a : ssorted (nset_step m S a).
  Proof. apply set_of_sorted. Qed.

  Lemma nset_step_incl S a : incl (nset_step m S a) (n_states m).
  Proof.
    intros x Hx. apply nset_step_In in Hx. destruct Hx as [q [t [_ [Ht H]]]].
    apply (eps_star_in_states m Hv t x); [|exact H]. eapply targets_in_states; eassumption.
  Qed.

  Lemma init_in_states : In (n_init m) (n_states m).
  Proof. destruct (valid_nfa_parts m Hv) as (_ & _ & H & _). exact H. Qed.

  Lemma subset_run_gen w : forall u cur,
    set_is cur (fun q => nfa_path m (n_init m) u q) ->
    set_is (fold_left (nset_step m) w cur) (fun q => nfa_path m (n_init m) (u ++ w) q).
  Proof.
    induction w as [|a w IH]; intros u cur Hc; simpl.
    - rewrite app_nil_r. exact Hc.
    - replace (u ++ a :: w) with ((u ++ [a]) ++ w) by (rewrite <- app_assoc; reflexivity).
      apply IH. split; [apply nset_step_sorted|].
      intro x. rewrite nset_step_In, (path_snoc m). destruct Hc as [_ Hc]. split.
      + intros [q [t [Hq H]]]. exists q, t. split; [apply Hc; exact Hq|exact H].
      + intros [q [t [Hq H]]]. exists q, t. split; [apply Hc; exact Hq|exact H].
  Qed.

  Lemma subset_run_spec w :
    set_is (fold_left (nset_step m) w (nset_init m)) (fun q => nfa_path m (n_init m) w q).
  Proof.
    apply (subset_run_gen w []). unfold nset_init.
    destruct (eclose_spec _ init_in_states) as [H1 H2]. split; [exact H1|exact H2].
  Qed.

  Lemma nset_final_spec S : nset_final m S = true <-> exists q, In q S /\ In q (n_finals m).
  Proof.
    unfold nset_final. rewrite existsb_exists. split.
    - intros [q [H1 H2]]. exists q. split; [exact H1|apply memb_In; exact H2].
    - intros [q [H1 H2]]. exists q. split; [exact H1|apply memb_In; exact H2].
  Qed.

  Theorem nfa_acc_spec w : nfa_acc m w = true <-> L_nfa m w.
  Proof.
    unfold nfa_acc. rewrite nset_final_spec. destruct (subset_run_spec w) as [_ H]. unfold L_nfa. split.
    - intros [q [H1 H2]]. exists q. split; [apply H; exact H1|exact H2].
    - intros [q [H1 H2]]. exists q. split; [apply H; exact H1|exact H2].
  Qed.

  Lemma edge_sym_in_syms p a t : n_edge m p (Some a) t -> In a (n_syms m).
  Proof.
    unfold n_edge, n_targets. destruct (assoc p (n_trans m)) as [row|] eqn:E; [|intros []].
    destruct (oassoc (Some a) row) as [l|] eqn:E2; [|intros []]. intros _.
    destruct (valid_nfa_parts m Hv) as (_ & H & _). apply assoc_In in E. specialize (H _ _ E).
    unfold nrow_ok in H. rewrite forallb_forall in H. apply oassoc_In in E2. specialize (H _ E2).
    simpl in H. apply andb_true_iff in H. destruct H as [H _]. apply memb_In. exact H.
  Qed.

  Lemma path_over p w q : nfa_path m p w q -> over (n_syms m) w.
  Proof.
    intro H. induction H as [q|p q r w He Hp IH|p a q r w He Hp IH].
    - constructor.
    - exact IH.
    - constructor; [eapply edge_sym_in_syms; exact He|exact IH].
  Qed.

  Lemma nfa_foreign_rejects u a v : ~ In a (n_syms m) -> ~ L_nfa m (u ++ a :: v).
  Proof.
    intros Ha [q [Hp _]]. apply path_over in Hp. apply Forall_app in Hp. destruct Hp as [_ Hp].
    inversion Hp; subst. contradiction.
  Qed.

  (* the universe of subset states *)
  Fixpoint subseqs (l : list nat) : list (list nat) :=
    match l with [] => [[]] | x :: r => subseqs r ++ map (cons x) (subseqs r) end.

  Lemma subseqs_length l : length (subseqs l) = Nat.pow 2 (length l).
  Proof. induction l as [|x r IH]; simpl; [reflexivity|]. rewrite app_length, map_length, IH. lia. Qed.

  Lemma nil_in_subseqs l : In [] (subseqs l).
  Proof. induction l as [|x r IH]; simpl; [left; reflexivity|]. apply in_or_app. left. exact IH. Qed.

  Lemma ssorted_in_subseqs l : ssorted l -> forall x, ssorted x -> incl x l -> In x (subseqs l).
  Proof.
    induction l as [|y r IH]; intros Hl x Hx Hi.
    - destruct x as [|z x']; [left; reflexivity|]. exfalso. apply (Hi z). left. reflexivity.
    - destruct x as [|z x']; [apply nil_in_subseqs|]. simpl. apply in_or_app.
      destruct (Nat.eq_dec z y) as [->|Hne].
      + right. apply in_map. apply IH; [eapply ssorted_tail; exact Hl|eapply ssorted_tail; exact Hx|].
        intros t Ht. pose proof (ssorted_lt _ _ Hx _ Ht) as Hlt.
        destruct (Hi t (or_intror Ht)) as [->|H]; [lia|exact H].
      + left. apply IH; [eapply ssorted_tail; exact Hl|exact Hx|].
        assert (Hz : In z r) by (destruct (Hi z (or_introl eq_refl)) as [->|H]; [contradiction|exact H]).
        pose proof (ssorted_lt _ _ Hl _ Hz) as Hyz.
        intros t [->|Ht]; [exact Hz|].
        pose proof (ssorted_lt _ _ Hx _ Ht) as Hlt.
        destruct (Hi t (or_intror Ht)) as [->|H]; [lia|exact H].
  Qed.

  Definition nuniverse : list (list nat) := subseqs (set_of (n_states m)).

  Lemma in_nuniverse x : ssorted x -> incl x (n_states m) -> In x nuniverse.
  Proof.
    intros Hs Hi. apply ssorted_in_subseqs; [apply set_of_sorted|exact Hs|].
    intros t Ht. apply set_of_In. apply Hi. exact Ht.
  Qed.

  Lemma set_add_length x l : length (set_add x l) <= S (length l).
  Proof.
    induction l as [|y r IH]; simpl; [lia|].
    destruct (Nat.ltb x y); simpl; [lia|]. destruct (Nat.eqb x y); simpl; lia.
  Qed.

  Lemma set_of_length l : length (set_of l) <= length l.
  Proof. induction l as [|x r IH]; simpl; [lia|]. pose proof (set_add_length x (set_of r)). lia. Qed.

  Lemma nuniverse_length : length nuniverse <= pow2 (length (n_states m)).
  Proof.
    unfold nuniverse, pow2. rewrite subseqs_length. apply Nat.pow_le_mono_r; [lia|apply set_of_length].
  Qed.

  Lemma nuniverse_closed x a : In x nuniverse -> In (nset_step m x a) nuniverse.
  Proof. intros _. apply in_nuniverse; [apply nset_step_sorted|apply nset_step_incl]. Qed.

  Lemma nuniverse_init : In (nset_init m) nuniverse.
  Proof.
    apply in_nuniverse.
    - apply (eclose_spec _ init_in_states).
    - intros x Hx. eapply eclose_in_states; [exact init_in_states|exact Hx].
  Qed.
End Subset.

Lemma bool_eq_iff (a b : bool) : (a = true <-> b = true) -> a = b.
Proof. destruct a, b; intros [H1 H2]; try reflexivity; [specialize (H1 eq_refl)|specialize (H2 eq_refl)]; discriminate. Qed.

Section NFADiff.
  Variables A B : nfa.
  Hypothesis HA : valid_nfa A = true.
  Hypothesis HB : valid_nfa B = true.

  Theorem nfa_diff_sound r : nfa_diff A B = Ok r ->
      (r = None <-> L_nfa A =L L_nfa B) /\
      (forall w, r = Some w -> nfa_acc A w <> nfa_acc B w).
  Proof.
    unfold nfa_diff.
    destruct (gdiff _ _ _ _ _ _ _ _ _ _ _ _) as [r'|] eqn:E; [|discriminate].
    intro H. inversion H; subst r'. clear H.
    assert (Hsome : forall w, r = Some w -> nfa_acc A w <> nfa_acc B w).
    { intros w ->. apply gdiff_some in E; [|apply eqb_list_ok, eqb_nat_ok|apply eqb_list_ok, eqb_nat_ok].
      destruct E as [_ E]. exact E. }
    split; [|exact Hsome]. split.
    + intros ->. intro w.
      destruct (over_or_foreign (set_union (n_syms A) (n_syms B)) w) as [Ho|[u [a [v [-> Ha]]]]].
      * pose proof (gdiff_none _ _ _ _ (eqb_list_ok _ eqb_nat_ok) (eqb_list_ok _ eqb_nat_ok)
                      _ _ _ _ _ _ _ _ E w Ho) as H.
        cbv beta in H. fold (nfa_acc A w) in H. fold (nfa_acc B w) in H.
        rewrite <- (nfa_acc_spec A HA), <- (nfa_acc_spec B HB). rewrite H. tauto.
      * rewrite set_union_In in Ha. split; intro H; exfalso.
        -- apply (nfa_foreign_rejects A HA u a v); [tauto|exact H].
        -- apply (nfa_foreign_rejects B HB u a v); [tauto|exact H].
    + intro HL. destruct r as [w|]; [|reflexivity]. exfalso.
      apply (Hsome w eq_refl). apply bool_eq_iff.
      rewrite (nfa_acc_spec A HA), (nfa_acc_spec B HB). apply HL.
  Qed.

  Theorem nfa_diff_total : length (n_states A) + length (n_states B) <= 14 ->
    exists r, nfa_diff A B = Ok r.
  Proof.
    intro Hsz. unfold nfa_diff.
    destruct (gdiff _ _ _ _ _ _ _ _ _ _ _ _) as [r|] eqn:E; [exists r; reflexivity|].
    exfalso. revert E.
    apply (gdiff_fuel _ _ _ _ (eqb_list_ok _ eqb_nat_ok) (eqb_list_ok _ eqb_nat_ok) _ _ _ _ _ _ _
             (nuniverse A) (nuniverse B)).
    + apply nuniverse_closed; exact HA.
    + apply nuniverse_closed; exact HB.
    + apply nuniverse_init; exact HA.
    + apply nuniverse_init; exact HB.
    + unfold nfa_diff_fuel. apply Nat.leb_le in Hsz. rewrite Hsz.
      pose proof (nuniverse_length A). pose proof (nuniverse_length B).
      apply Nat.lt_succ_r. apply Nat.mul_le_mono; assumption.
  Qed.
End NFADiff.

Section NFADFADiff.
  Variable A : nfa.
  Variable B : dfa.
  Hypothesis HA : valid_nfa A = true.
  Hypothesis HB : valid_dfa B = true.

  Theorem nfa_dfa_diff_sound r : nfa_dfa_diff A B = Ok r ->
      (r = None <-> L_nfa A =L L_dfa B) /\
      (forall w, r = Some w -> nfa_acc A w <> dfa_acc B w).
  Proof.
    unfold nfa_dfa_diff.
    destruct (gdiff _ _ _ _ _ _ _ _ _ _ _ _) as [r'|] eqn:E; [|discriminate].
    intro H. inversion H; subst r'. clear H.
    assert (Hsome : forall w, r = Some w -> nfa_acc A w <> dfa_acc B w).
    { intros w ->. apply gdiff_some in E; [|apply eqb_list_ok, eqb_nat_ok|apply eqb_opt_ok, eqb_nat_ok].
      destruct E as [_ E]. cbv beta in E. rewrite fold_ostep in E. exact E. }
    split; [|exact Hsome]. split.
    + intros ->. intro w. unfold L_dfa.
      destruct (over_or_foreign (set_union (n_syms A) (d_syms B)) w) as [Ho|[u [a [v [-> Ha]]]]].
      * pose proof (gdiff_none _ _ _ _ (eqb_list_ok _ eqb_nat_ok) (eqb_opt_ok _ eqb_nat_ok)
                      _ _ _ _ _ _ _ _ E w Ho) as H.
        cbv beta in H. rewrite fold_ostep in H. fold (nfa_acc A w) in H.
        rewrite <- (nfa_acc_spec A HA). unfold dfa_acc, dfa_acc_from. rewrite H. tauto.
      * rewrite set_union_In in Ha.
        rewrite (dfa_foreign_symbol_rejects B HB u a v); [|tauto]. split; intro H; [exfalso|discriminate].
        apply (nfa_foreign_rejects A HA u a v); [tauto|exact H].
    + intro HL. destruct r as [w|]; [|reflexivity]. exfalso.
      apply (Hsome w eq_refl). apply bool_eq_iff.
      rewrite (nfa_acc_spec A HA). apply HL.
  Qed.

  Theorem nfa_dfa_diff_total : length (n_states A) <= 14 -> exists r, nfa_dfa_diff A B = Ok r.
  Proof.
    intro Hsz. unfold nfa_dfa_diff.
    destruct (gdiff _ _ _ _ _ _ _ _ _ _ _ _) as [r|] eqn:E; [exists r; reflexivity|].
    exfalso. revert E.
    apply (gdiff_fuel _ _ _ _ (eqb_list_ok _ eqb_nat_ok) (eqb_opt_ok _ eqb_nat_ok) _ _ _ _ _ _ _
             (nuniverse A) (ostates B)).
    + apply nuniverse_closed; exact HA.
    + apply ostates_closed; exact HB.
    + apply nuniverse_init; exact HA.
    + apply ostates_init; exact HB.
    + apply Nat.leb_le in Hsz. rewrite Hsz.
      pose proof (nuniverse_length A). unfold ostates. simpl. rewrite map_length.
      apply Nat.lt_succ_r. apply Nat.mul_le_mono; [assumption|lia].
  Qed.
End NFADFADiff.
