(* Aho-Corasick (Model/AhoCorasick.v): correctness of the goto function `ac_goto` - the failure
   walk of lines 2008-2014 of dfa.py - and of the output flags, for ANY node table that satisfies
   the classical failure-link specification:

     the string of a node = the path from the root;   T = the strings of the trie;
     fail(node of s)  = node of the longest proper suffix of s that is in T (None when that is "");
     out(node of s) is non-empty  <->  some pattern is a suffix of s;   every pattern is in T.

   Then: the state after reading w (from the root, through ac_goto) is the node of the longest
   suffix of w that is in T, the model never fails (no IndexError, fuel |nodes|+1 suffices), and
   that state has a non-empty output chain iff some pattern is a suffix of w. *)
From Coq Require Import List Arith Bool Lia.
From AV Require Import Base.Util Spec.Lang Spec.FA Spec.Preds Model.Construct Model.KMP Model.AhoCorasick
                       Proofs.Preds Proofs.Border Proofs.KMP.
Import ListNotations.

(* ---------- strings of the trie ---------- *)
Definition edge (N : list tnode) (k a : nat) : option nat :=
  match nth_error N k with Some x => assoc a (t_succ x) | None => None end.

Fixpoint follow (N : list tnode) (k : nat) (s : word) : option nat :=
  match s with
  | [] => Some k
  | a :: r => match edge N k a with Some k' => follow N k' r | None => None end
  end.

Definition nodeof (N : list tnode) (s : word) : option nat := follow N 0 s.
Definition inT (N : list tnode) (s : word) : Prop := nodeof N s <> None.

Lemma follow_app N u : forall k v,
  follow N k (u ++ v) = match follow N k u with Some j => follow N j v | None => None end.
Proof.
  induction u as [|a u IH]; intros k v; [reflexivity|]. simpl. destruct (edge N k a); [apply IH|reflexivity].
Qed.

Lemma nodeof_snoc N s a : nodeof N (s ++ [a]) = match nodeof N s with Some j => edge N j a | None => None end.
Proof.
  unfold nodeof. rewrite follow_app. destruct (follow N 0 s) as [j|]; [|reflexivity]. simpl.
  destruct (edge N j a); reflexivity.
Qed.

Lemma inT_prefix N u v : inT N (u ++ v) -> inT N u.
Proof. unfold inT, nodeof. rewrite follow_app. destruct (follow N 0 u); [discriminate|congruence]. Qed.

(* ---------- suffix helpers ---------- *)
Definition psuf (u s : word) : Prop := has_suffix u s /\ length u < length s.

Lemma has_suffix_refl (s : word) : has_suffix s s.
Proof. exists []. reflexivity. Qed.

Lemma has_suffix_nil (s : word) : has_suffix [] s.
Proof. exists s. symmetry. apply app_nil_r. Qed.

Lemma app_eq_len_r (x y u v : word) : x ++ u = y ++ v -> length u = length v -> u = v.
Proof.
  revert y. induction x as [|a x IH]; intros y H Hl.
  - destruct y as [|b y]; [exact H|]. exfalso. simpl in H. apply (f_equal (@length nat)) in H.
    simpl in H. rewrite app_length in H. lia.
  - destruct y as [|b y].
    + exfalso. simpl in H. apply (f_equal (@length nat)) in H. simpl in H. rewrite app_length in H. lia.
    + simpl in H. inversion H. eapply IH; eassumption.
Qed.

Lemma has_suffix_same_len (u v s : word) : has_suffix u s -> has_suffix v s -> length u = length v -> u = v.
Proof. intros [x Hx] [y Hy] Hl. rewrite Hx in Hy. eapply app_eq_len_r; eassumption. Qed.

Lemma suffix_snoc_cases (y s : word) a : has_suffix y (s ++ [a]) -> y = [] \/ exists x, y = x ++ [a] /\ has_suffix x s.
Proof.
  intro H. destruct (exists_last_or_nil y) as [->|[x [b ->]]]; [left; reflexivity|right].
  apply has_suffix_snoc in H. destruct H as [-> H]. exists x. split; [reflexivity|exact H].
Qed.

Lemma NoDup_map_inj_in {A B} (f : A -> B) l :
  (forall x y, In x l -> In y l -> f x = f y -> x = y) -> NoDup l -> NoDup (map f l).
Proof.
  intros Hinj Hnd. induction Hnd as [|x l Hnot Hnd IH]; [constructor|]. simpl. constructor.
  - intro Hin. apply in_map_iff in Hin. destruct Hin as [y [E Hy]].
    assert (y = x) by (apply Hinj; [right; exact Hy|left; reflexivity|exact E]). subst y. contradiction.
  - apply IH. intros a b Ha Hb. apply Hinj; right; assumption.
Qed.

Lemma NoDup_app_intro {A} (l1 l2 : list A) :
  NoDup l1 -> NoDup l2 -> (forall x, In x l1 -> In x l2 -> False) -> NoDup (l1 ++ l2).
Proof.
  intros H1 H2 Hd. induction H1 as [|x l1 Hnot H1 IH]; [exact H2|]. simpl. constructor.
  - intro Hin. apply in_app_or in Hin. destruct Hin as [Hin|Hin]; [contradiction|].
    apply (Hd x); [left; reflexivity|exact Hin].
  - apply IH. intros y Hy1 Hy2. apply (Hd y); [right; exact Hy1|exact Hy2].
Qed.


Section Goto.
  Variable N : list tnode.
  Variable P : list word.
  Variable D : nat.      (* the failure links are only assumed correct for strings of length <= D *)

  Hypothesis HV : forall s k, nodeof N s = Some k -> k < length N.
  Hypothesis HI : forall s s' k, nodeof N s = Some k -> nodeof N s' = Some k -> s = s'.
  Hypothesis Hroot : exists r, nth_error N 0 = Some r /\ t_fail r = None.
  Hypothesis HF : forall s k x, s <> [] -> length s <= D -> nodeof N s = Some k -> nth_error N k = Some x ->
    match t_fail x with
    | Some f => exists u, nodeof N u = Some f /\ u <> [] /\ psuf u s /\
                          forall u', psuf u' s -> inT N u' -> length u' <= length u
    | None => forall u', psuf u' s -> inT N u' -> u' = []
    end.

  Lemma node_get s k : nodeof N s = Some k -> exists x, nth_error N k = Some x.
  Proof.
    intro H. apply HV in H. destruct (nth_error N k) as [x|] eqn:E; [exists x; reflexivity|].
    apply nth_error_None in E. lia.
  Qed.

  (* a string of the trie is shorter than the number of nodes: its prefixes have distinct nodes *)
  Lemma depth_bound s k : nodeof N s = Some k -> length s < length N.
  Proof.
    intro H.
    assert (Hpre : forall i, i <= length s -> exists j, nodeof N (firstn i s) = Some j).
    { intros i Hi. assert (Hin : inT N (firstn i s)).
      { apply (inT_prefix N _ (skipn i s)). rewrite firstn_skipn. unfold inT. congruence. }
      unfold inT in Hin. destruct (nodeof N (firstn i s)) as [j|]; [exists j; reflexivity|congruence]. }
    set (g := fun i => match nodeof N (firstn i s) with Some j => j | None => 0 end).
    assert (Hnd : NoDup (map g (seq 0 (S (length s))))).
    { apply NoDup_map_inj_in; [|apply seq_NoDup].
      intros i1 i2 H1 H2 E. apply in_seq in H1. apply in_seq in H2.
      destruct (Hpre i1 ltac:(lia)) as [j1 E1]. destruct (Hpre i2 ltac:(lia)) as [j2 E2].
      unfold g in E. rewrite E1, E2 in E. subst j2.
      pose proof (HI _ _ _ E1 E2) as Ef. apply (f_equal (@length nat)) in Ef.
      rewrite !firstn_length_le in Ef by lia. exact Ef. }
    assert (Hinc : incl (map g (seq 0 (S (length s)))) (seq 0 (length N))).
    { intros j Hj. apply in_map_iff in Hj. destruct Hj as [i [<- Hi]]. apply in_seq in Hi.
      destruct (Hpre i ltac:(lia)) as [j Ej]. unfold g. rewrite Ej. apply in_seq. apply HV in Ej. lia. }
    pose proof (NoDup_incl_length Hnd Hinc) as Hl. rewrite map_length, !seq_length in Hl. lia.
  Qed.

  (* ---------- the failure walk, started in a node whose string is a suffix of s ---------- *)
  Definition chain (s : word) (a : nat) (fuel : nat) (st : option nat) : Prop :=
    match st with
    | Some j => exists v, nodeof N v = Some j /\ has_suffix v s /\ length v + 2 <= fuel /\ length v <= D /\
                          forall x, has_suffix x s -> inT N (x ++ [a]) -> length x <= length v
    | None => 1 <= fuel /\ forall x, has_suffix x s -> inT N (x ++ [a]) -> x = []
    end.

  Definition walked (s : word) (a : nat) (r : option nat) : Prop :=
    match r with
    | Some j => exists v j', nodeof N v = Some j /\ has_suffix v s /\ edge N j a = Some j' /\
                             forall x, has_suffix x s -> inT N (x ++ [a]) -> length x <= length v
    | None => forall x, has_suffix x s -> inT N (x ++ [a]) -> x = []
    end.

  Lemma fail_walk_ok s a : forall fuel st, chain s a fuel st ->
    exists r, fail_walk N a fuel st = Ok r /\ walked s a r.
  Proof.
    induction fuel as [|fuel IH]; intros st Hc.
    - destruct st as [j|]; [destruct Hc as [v [_ [_ [Hf _]]]]; lia|destruct Hc; lia].
    - destruct st as [j|]; [|exists None; split; [reflexivity|exact (proj2 Hc)]].
      destruct Hc as [v [Hv [Hs [Hf [HvD Hmax]]]]]. cbn [fail_walk].
      destruct (node_get v j Hv) as [x Ex]. rewrite (idx_Ok N j x Ex). cbn [bind].
      destruct (assoc a (t_succ x)) as [j'|] eqn:Ea.
      + exists (Some j). split; [reflexivity|]. exists v, j'. split; [exact Hv|]. split; [exact Hs|].
        split; [unfold edge; rewrite Ex; exact Ea|exact Hmax].
      + (* no a-successor: v ++ [a] is not in the trie; every candidate is a proper suffix of v *)
        assert (Hno : ~ inT N (v ++ [a])).
        { unfold inT. rewrite nodeof_snoc, Hv. unfold edge. rewrite Ex, Ea. congruence. }
        assert (Hprop : forall y, has_suffix y s -> inT N (y ++ [a]) -> psuf y v /\ inT N y).
        { intros y Hy Hin. pose proof (Hmax y Hy Hin) as Hle.
          assert (Hlt : length y < length v).
          { destruct (Nat.eq_dec (length y) (length v)) as [E|E]; [|lia].
            exfalso. apply Hno. rewrite <- (has_suffix_same_len y v s Hy Hs E). exact Hin. }
          split; [split; [apply (suffix_of_suffix y v s Hy Hs); lia|exact Hlt]|].
          eapply inT_prefix. exact Hin. }
        apply IH. destruct v as [|c v'].
        * (* the root *)
          unfold nodeof in Hv. simpl in Hv. inversion Hv; subst j.
          destruct Hroot as [r [Er Efr]]. rewrite Er in Ex. inversion Ex; subst x. rewrite Efr.
          split; [lia|]. intros y Hy Hin. destruct (Hprop y Hy Hin) as [[_ Hl] _]. simpl in Hl. lia.
        * pose proof (HF (c :: v') j x ltac:(discriminate) HvD Hv Ex) as HFk.
          destruct (t_fail x) as [f|].
          -- destruct HFk as [u [Hu [Hune [[Hus Hul] Humax]]]]. exists u. split; [exact Hu|].
             split; [eapply has_suffix_trans; eassumption|]. split; [lia|]. split; [lia|].
             intros y Hy Hin. destruct (Hprop y Hy Hin) as [Hp Hi]. apply Humax; assumption.
          -- split; [lia|]. intros y Hy Hin. destruct (Hprop y Hy Hin) as [Hp Hi]. apply HFk; assumption.
  Qed.

  (* u is the longest suffix of x that is in the trie, k its node *)
  Definition maxsuf (x u : word) (k : nat) : Prop :=
    nodeof N u = Some k /\ has_suffix u x /\ forall y, has_suffix y x -> inT N y -> length y <= length u.

  Theorem ac_goto_ok s k a : nodeof N s = Some k -> length s <= D ->
    exists k' u, ac_goto N k a = Ok k' /\ maxsuf (s ++ [a]) u k'.
  Proof.
    intros Hs HsD. unfold ac_goto.
    destruct (fail_walk_ok s a (S (length N)) (Some k)) as [r [Er Hw]].
    { exists s. split; [exact Hs|]. split; [apply has_suffix_refl|]. split; [pose proof (depth_bound s k Hs); lia|].
      split; [exact HsD|]. intros x Hx _. apply has_suffix_length. exact Hx. }
    rewrite Er. cbn [bind]. destruct r as [j|].
    - destruct Hw as [v [j' [Hv [Hvs [He Hmax]]]]].
      destruct (node_get v j Hv) as [x Ex]. rewrite (idx_Ok N j x Ex). cbn [bind].
      unfold edge in He. rewrite Ex in He. rewrite He.
      exists j', (v ++ [a]). split; [reflexivity|]. split; [|split].
      + rewrite nodeof_snoc, Hv. unfold edge. rewrite Ex. exact He.
      + apply has_suffix_snoc. split; [reflexivity|exact Hvs].
      + intros y Hy Hin. destruct (suffix_snoc_cases y s a Hy) as [->|[x0 [-> Hx0]]]; [simpl; lia|].
        rewrite !app_length. simpl. pose proof (Hmax x0 Hx0 Hin). lia.
    - destruct Hroot as [r [Er0 _]]. rewrite (idx_Ok N 0 r Er0). cbn [bind].
      destruct (assoc a (t_succ r)) as [j'|] eqn:Ea.
      + exists j', [a]. split; [reflexivity|]. split; [|split].
        * unfold nodeof. simpl. unfold edge. rewrite Er0, Ea. reflexivity.
        * exists s. reflexivity.
        * intros y Hy Hin. destruct (suffix_snoc_cases y s a Hy) as [->|[x0 [-> Hx0]]]; [simpl; lia|].
          rewrite (Hw x0 Hx0 Hin). simpl. lia.
      + exists 0, []. split; [reflexivity|]. split; [reflexivity|]. split; [apply has_suffix_nil|].
        intros y Hy Hin. destruct (suffix_snoc_cases y s a Hy) as [->|[x0 [-> Hx0]]]; [simpl; lia|].
        exfalso. pose proof (Hw x0 Hx0 Hin) as ->. unfold inT, nodeof in Hin. simpl in Hin.
        unfold edge in Hin. rewrite Er0, Ea in Hin. congruence.
  Qed.

  (* ---------- the run ---------- *)
  Hypothesis HD : length N <= D.

  Fixpoint ac_run (k : nat) (w : word) : res nat :=
    match w with
    | [] => Ok k
    | a :: r => bind (ac_goto N k a) (fun k' => ac_run k' r)
    end.

  Lemma ac_run_app k u v : ac_run k (u ++ v) = bind (ac_run k u) (fun j => ac_run j v).
  Proof.
    revert k. induction u as [|a u IH]; intro k; [reflexivity|]. simpl.
    destruct (ac_goto N k a) as [k'|e]; simpl; [apply IH|reflexivity].
  Qed.

  Theorem ac_run_ok w : exists k u, ac_run 0 w = Ok k /\ maxsuf w u k.
  Proof.
    induction w as [|a w IH] using rev_ind.
    - exists 0, []. split; [reflexivity|]. split; [reflexivity|]. split; [apply has_suffix_refl|].
      intros y Hy _. apply has_suffix_length in Hy. exact Hy.
    - destruct IH as [k [u [Er [Hu [Hus Humax]]]]].
      destruct (ac_goto_ok u k a Hu ltac:(pose proof (depth_bound u k Hu); lia)) as [k' [u' [Eg [Hu' [Hus' Humax']]]]].
      exists k', u'. split; [rewrite ac_run_app, Er; simpl; rewrite Eg; reflexivity|].
      split; [exact Hu'|]. split.
      + eapply has_suffix_trans; [exact Hus'|]. apply has_suffix_snoc. split; [reflexivity|exact Hus].
      + intros y Hy Hin. apply Humax'; [|exact Hin].
        destruct (suffix_snoc_cases y w a Hy) as [->|[x0 [-> Hx0]]]; [apply has_suffix_nil|].
        apply has_suffix_snoc. split; [reflexivity|].
        apply (suffix_of_suffix x0 u w Hx0 Hus). apply Humax; [exact Hx0|]. eapply inT_prefix. exact Hin.
  Qed.

  (* ---------- outputs ---------- *)
  Hypothesis HP : forall p, In p P -> inT N p.
  Hypothesis HO : forall s k x, nodeof N s = Some k -> nth_error N k = Some x ->
    (t_out x <> [] <-> ends_with_any P s).

  Theorem ac_suffix_ok w : exists k x, ac_run 0 w = Ok k /\ nth_error N k = Some x /\
    (t_out x <> [] <-> ends_with_any P w).
  Proof.
    destruct (ac_run_ok w) as [k [u [Er [Hu [Hus Humax]]]]]. destruct (node_get u k Hu) as [x Ex].
    exists k, x. split; [exact Er|]. split; [exact Ex|]. rewrite (HO u k x Hu Ex). split.
    - intros [p [Hp Hs]]. exists p. split; [exact Hp|]. eapply has_suffix_trans; eassumption.
    - intros [p [Hp Hs]]. exists p. split; [exact Hp|].
      apply (suffix_of_suffix p u w Hs Hus). apply Humax; [exact Hs|apply HP; exact Hp].
  Qed.

  (* substring mode: some prefix of the word drives the run into a state with an output *)
  Theorem ac_substring_ok w :
    contains_any P w <->
    exists w' k x, has_prefix w' w /\ ac_run 0 w' = Ok k /\ nth_error N k = Some x /\ t_out x <> [].
  Proof.
    split.
    - intros [p [Hp [u [v E]]]]. destruct (ac_suffix_ok (u ++ p)) as [k [x [Er [Ex Ho]]]].
      exists (u ++ p), k, x. split; [exists v; rewrite E, app_assoc; reflexivity|]. split; [exact Er|].
      split; [exact Ex|]. apply Ho. exists p. split; [exact Hp|]. exists u. reflexivity.
    - intros [w' [k [x [[v ->] [Er [Ex Ho]]]]]]. destruct (ac_suffix_ok w') as [k2 [x2 [Er2 [Ex2 Ho2]]]].
      rewrite Er in Er2. inversion Er2; subst k2. rewrite Ex in Ex2. inversion Ex2; subst x2.
      apply Ho2 in Ho. destruct Ho as [p [Hp [u ->]]]. exists p. split; [exact Hp|]. exists u, v.
      rewrite <- app_assoc. reflexivity.
  Qed.
End Goto.
