(* Lemmas for C13: the counting / enumeration / length / sampling models agree with
   the language of the DFA. *)
From Coq Require Import List Arith NArith Bool Lia Sorted Permutation.
From AV Require Import Base.Util Base.Closure Spec.Lang Spec.FA Spec.Words Model.Count Proofs.FARun Proofs.Pump.
Import ListNotations.

(* ---------- generic list facts ---------- *)
Section ListFacts.
  Context {A B : Type}.

  Lemma filter_flat_map (f : B -> bool) (g : A -> list B) l :
    filter f (flat_map g l) = flat_map (fun x => filter f (g x)) l.
  Proof. induction l as [|x l IH]; simpl; [reflexivity|]. rewrite filter_app, IH. reflexivity. Qed.

  Lemma filter_map_swap (f : B -> bool) (g : A -> B) l :
    filter f (map g l) = map g (filter (fun x => f (g x)) l).
  Proof.
    induction l as [|x l IH]; simpl; [reflexivity|]. destruct (f (g x)); simpl; rewrite IH; reflexivity.
  Qed.

  Lemma filter_false (l : list A) (f : A -> bool) : (forall x, In x l -> f x = false) -> filter f l = [].
  Proof.
    induction l as [|x l IH]; simpl; intro H; [reflexivity|].
    rewrite (H x (or_introl eq_refl)). apply IH. intros y Hy. apply H. right. exact Hy.
  Qed.

  Lemma flat_map_filter_nil (p : A -> bool) (g : A -> list B) l :
    (forall a, In a l -> p a = false -> g a = []) -> flat_map g (filter p l) = flat_map g l.
  Proof.
    induction l as [|x l IH]; simpl; intro H; [reflexivity|].
    destruct (p x) eqn:E; simpl.
    - rewrite IH; [reflexivity|]. intros a Ha. apply H. right. exact Ha.
    - rewrite (H x (or_introl eq_refl) E). simpl. apply IH. intros a Ha. apply H. right. exact Ha.
  Qed.

  Lemma flat_map_ext_in (f g : A -> list B) l :
    (forall a, In a l -> f a = g a) -> flat_map f l = flat_map g l.
  Proof.
    induction l as [|x l IH]; simpl; intro H; [reflexivity|].
    rewrite (H x (or_introl eq_refl)), IH; [reflexivity|]. intros a Ha. apply H. right. exact Ha.
  Qed.

  Lemma flat_map_nil (g : A -> list B) l : (forall a, In a l -> g a = []) -> flat_map g l = [].
  Proof.
    induction l as [|x l IH]; simpl; intro H; [reflexivity|].
    rewrite (H x (or_introl eq_refl)). simpl. apply IH. intros a Ha. apply H. right. exact Ha.
  Qed.

  Lemma length_flat_map_N (g : A -> list B) l :
    N.of_nat (length (flat_map g l)) = Nsum (map (fun a => N.of_nat (length (g a))) l).
  Proof.
    induction l as [|x l IH]; simpl; [reflexivity|]. rewrite app_length, Nat2N.inj_add, IH. reflexivity.
  Qed.
End ListFacts.

Lemma Nsum_perm (l l' : list N) : Permutation l l' -> Nsum l = Nsum l'.
Proof. intro H. induction H; simpl; lia. Qed.

Lemma Nsum_app l l' : Nsum (l ++ l') = (Nsum l + Nsum l')%N.
Proof. induction l as [|x l IH]; simpl; [reflexivity|]. rewrite IH. lia. Qed.

Lemma ssorted_cons_all a l : (forall y, In y l -> a < y) -> ssorted l -> ssorted (a :: l).
Proof.
  intros H Hs. destruct l as [|b l]; [constructor|]. constructor; [apply H; left; reflexivity|exact Hs].
Qed.

Lemma ssorted_filter f l : ssorted l -> ssorted (filter f l).
Proof.
  induction l as [|a l IH]; simpl; intro H; [constructor|].
  pose proof (IH (ssorted_tail _ _ H)) as IH'. destruct (f a); [|exact IH'].
  apply ssorted_cons_all; [|exact IH']. intros y Hy. apply filter_In in Hy.
  eapply ssorted_lt; [exact H|tauto].
Qed.

Lemma ssorted_NoDup l : ssorted l -> NoDup l.
Proof.
  induction l as [|a l IH]; intro H; [constructor|]. constructor; [|apply IH; eapply ssorted_tail; exact H].
  intro Hin. pose proof (ssorted_lt _ _ H _ Hin). lia.
Qed.

Lemma flat_map_sub {B} (g : nat -> list B) l1 l2 :
  ssorted l1 -> ssorted l2 -> incl l1 l2 -> (forall a, In a l2 -> ~ In a l1 -> g a = []) ->
  flat_map g l1 = flat_map g l2.
Proof.
  intros H1 H2 Hi Hg.
  assert (E : l1 = filter (fun a => memb a l1) l2).
  { apply ssorted_ext; [exact H1|apply ssorted_filter; exact H2|]. intro x. rewrite filter_In, memb_In.
    split; [intro Hx; split; [apply Hi; exact Hx|exact Hx]|tauto]. }
  rewrite E at 1. apply flat_map_filter_nil. intros a Ha Hm. apply Hg; [exact Ha|]. apply memb_false. exact Hm.
Qed.

(* ---------- counts and word lists ---------- *)
Section Count.
  Variable m : dfa.
  Hypothesis Hv : valid_dfa m = true.

  Definition ssyms : list nat := set_of (d_syms m).

  (* accepted words of length k from an optional state, in lexicographic order *)
  Definition oacc_words (k : nat) (o : option nat) : list word :=
    filter (dfa_acc_from m o) (all_words ssyms k).

  Lemma acc_from_cons q a w : dfa_acc_from m (Some q) (a :: w) = dfa_acc_from m (d_delta m q a) w.
  Proof. reflexivity. Qed.

  Lemma acc_from_None w : dfa_acc_from m None w = false.
  Proof. unfold dfa_acc_from. rewrite dfa_run_None. reflexivity. Qed.

  Lemma oacc_words_None k : oacc_words k None = [].
  Proof. unfold oacc_words. apply filter_false. intros w _. apply acc_from_None. Qed.

  Lemma oacc_words_step k q :
    oacc_words (S k) (Some q) = flat_map (fun a => map (cons a) (oacc_words k (d_delta m q a))) ssyms.
  Proof.
    unfold oacc_words. simpl. rewrite filter_flat_map. apply flat_map_ext_in. intros a _.
    rewrite filter_map_swap. reflexivity.
  Qed.

  Lemma row_key_delta q a : In a (map fst (row_of m q)) <-> exists t, d_delta m q a = Some t.
  Proof.
    unfold row_of, d_delta. destruct (d_row m q) as [row|]; simpl.
    - destruct (assoc a row) eqn:E.
      + split; [eauto|]. intros _. eapply assoc_Some_key. exact E.
      + apply assoc_None in E. split; [contradiction|]. intros [t Ht]. discriminate.
    - split; [contradiction|]. intros [t Ht]. discriminate.
  Qed.

  Lemma row_syms_In q a : In a (row_syms m q) <-> exists t, d_delta m q a = Some t.
  Proof. unfold row_syms. rewrite set_of_In. apply row_key_delta. Qed.

  Lemma row_syms_incl q : incl (row_syms m q) ssyms.
  Proof.
    intros a Ha. apply row_syms_In in Ha. destruct Ha as [t Ht].
    apply (delta_in_states m Hv) in Ht. apply set_of_In. tauto.
  Qed.

  Lemma row_keys_NoDup q : NoDup (map fst (row_of m q)).
  Proof.
    unfold row_of. destruct (d_row m q) as [row|] eqn:E; [|constructor].
    apply (row_props m Hv) in E. unfold row_ok in E. repeat rewrite andb_true_iff in E.
    destruct E as [[E _] _]. apply nodupb_NoDup. exact E.
  Qed.

  Lemma row_entry_delta q a t : In (a, t) (row_of m q) -> d_delta m q a = Some t.
  Proof.
    intro H. pose proof (row_keys_NoDup q) as Hn. unfold row_of, d_delta in *.
    destruct (d_row m q) as [row|]; [|destruct H]. apply assoc_NoDup; assumption.
  Qed.

  Lemma is_final_ofinal q : is_final m q = ofinal m (Some q).
  Proof. reflexivity. Qed.

  (* words_of_length: exactly the accepted words of that length, in lexicographic order *)
  Theorem wl_from k : forall q, wl m k q = oacc_words k (Some q).
  Proof.
    induction k as [|k IH]; intro q.
    - unfold oacc_words. simpl. unfold dfa_acc_from. simpl. rewrite is_final_ofinal. simpl.
      destruct (memb q (d_finals m)); reflexivity.
    - rewrite oacc_words_step. simpl.
      rewrite <- (flat_map_sub (fun a => map (cons a) (oacc_words k (d_delta m q a))) (row_syms m q) ssyms).
      + apply flat_map_ext_in. intros a _. destruct (d_delta m q a) as [t|].
        * rewrite IH. reflexivity.
        * rewrite oacc_words_None. reflexivity.
      + apply set_of_sorted.
      + apply set_of_sorted.
      + apply row_syms_incl.
      + intros a _ Hn. destruct (d_delta m q a) as [t|] eqn:E.
        * exfalso. apply Hn. apply row_syms_In. eauto.
        * rewrite oacc_words_None. reflexivity.
  Qed.

  Lemma wl_length_cnt k : forall q, cnt m k q = N.of_nat (length (wl m k q)).
  Proof.
    induction k as [|k IH]; intro q; simpl.
    - destruct (is_final m q); reflexivity.
    - rewrite length_flat_map_N.
      assert (P : Permutation (row_syms m q) (map fst (row_of m q))).
      { apply NoDup_Permutation.
        - apply ssorted_NoDup. apply set_of_sorted.
        - apply row_keys_NoDup.
        - intro a. unfold row_syms. apply set_of_In. }
      rewrite (Nsum_perm _ _ (Permutation_map _ P)). rewrite map_map. f_equal.
      apply map_ext_in. intros [a t] Hin. simpl. rewrite (row_entry_delta q a t Hin).
      rewrite map_length. apply IH.
  Qed.

  Theorem cnt_from k q : cnt m k q = N.of_nat (length (oacc_words k (Some q))).
  Proof. rewrite wl_length_cnt, wl_from. reflexivity. Qed.

  Lemma oacc_words_In k o w :
    In w (oacc_words k o) <-> length w = k /\ dfa_acc_from m o w = true /\ Forall (fun a => In a (d_syms m)) w.
  Proof.
    unfold oacc_words. rewrite filter_In, all_words_In. unfold ssyms.
    split.
    - intros [[H1 H2] H3]. repeat split; try assumption.
      eapply Forall_impl; [|exact H2]. intros a Ha. apply set_of_In. exact Ha.
    - intros [H1 [H2 H3]]. repeat split; try assumption.
      eapply Forall_impl; [|exact H3]. intros a Ha. apply set_of_In. exact Ha.
  Qed.

  Lemma acc_from_syms w : forall q, dfa_acc_from m (Some q) w = true -> Forall (fun a => In a (d_syms m)) w.
  Proof.
    induction w as [|a w IH]; intros q H; [constructor|].
    rewrite acc_from_cons in H. destruct (d_delta m q a) as [t|] eqn:E.
    - constructor; [apply (delta_in_states m Hv) in E; tauto|eapply IH; exact H].
    - rewrite acc_from_None in H. discriminate.
  Qed.

  Lemma oacc_words_In' k q w :
    In w (oacc_words k (Some q)) <-> length w = k /\ dfa_acc_from m (Some q) w = true.
  Proof.
    rewrite oacc_words_In. split; [tauto|]. intros [H1 H2]. repeat split; try assumption.
    eapply acc_from_syms. exact H2.
  Qed.

  Lemma cnt_zero_iff k q : cnt m k q = 0%N <-> forall w, length w = k -> dfa_acc_from m (Some q) w = false.
  Proof.
    rewrite cnt_from. split.
    - intros H w Hl. destruct (dfa_acc_from m (Some q) w) eqn:E; [|reflexivity].
      assert (Hin : In w (oacc_words k (Some q))) by (apply oacc_words_In'; tauto).
      destruct (oacc_words k (Some q)); [destruct Hin|simpl in H; lia].
    - intro H. destruct (oacc_words k (Some q)) as [|w l] eqn:E; [reflexivity|].
      assert (Hin : In w (oacc_words k (Some q))) by (rewrite E; left; reflexivity).
      apply oacc_words_In' in Hin. destruct Hin as [Hl Ha]. rewrite (H w Hl) in Ha. discriminate.
  Qed.

  (* ---------- random_word ---------- *)
  Definition row_total (r : nat) (row : list (nat * nat)) : N := Nsum (map (fun p => cnt m r (snd p)) row).

  Lemma cnt_S r q : cnt m (S r) q = row_total r (row_of m q).
  Proof. reflexivity. Qed.

  Lemma pick_some r row : forall c, (c < row_total r row)%N ->
    exists a t, pick m r row c = Some (a, t) /\ In (a, t) row /\ cnt m r t <> 0%N.
  Proof.
    induction row as [|[a t] rest IH]; intros c Hc; unfold row_total in *; simpl in *; [lia|].
    destruct (N.ltb c (cnt m r t)) eqn:E.
    - apply N.ltb_lt in E. exists a, t. split; [reflexivity|]. split; [left; reflexivity|lia].
    - apply N.ltb_ge in E. destruct (IH (c - cnt m r t)%N) as [a' [t' [H1 [H2 H3]]]]; [lia|].
      exists a', t'. split; [exact H1|]. split; [right; exact H2|exact H3].
  Qed.

  Lemma rw_go_member rem : forall q draws,
    cnt m rem q <> 0%N -> length draws = rem -> Forall2 N.lt draws (rw_totals m rem q draws) ->
    exists w, rw_go m rem q draws = Ok w /\ length w = rem /\ dfa_acc_from m (Some q) w = true.
  Proof.
    induction rem as [|r IH]; intros q draws Hc Hl HF.
    - exists []. simpl in *. destruct (is_final m q) eqn:E; [|congruence].
      split; [reflexivity|]. split; [reflexivity|]. unfold dfa_acc_from. simpl. exact E.
    - destruct draws as [|c ds]; [discriminate|]. simpl in Hl.
      change (rw_totals m (S r) q (c :: ds)) with
        (cnt m (S r) q :: match pick m r (row_of m q) c with
                          | Some (_, t) => rw_totals m r t ds
                          | None => rw_totals m r q ds
                          end) in HF.
      inversion HF as [|x y l l' Hlt HF']; subst.
      assert (Hlt' : (c < row_total r (row_of m q))%N) by exact Hlt.
      destruct (pick_some r (row_of m q) c Hlt') as [a [t [Hp [Hin Hne]]]].
      rewrite Hp in HF'. destruct (IH t ds Hne ltac:(lia) HF') as [w [Hw [Hlen Hacc]]].
      exists (a :: w). simpl. rewrite Hp, Hw. simpl. split; [reflexivity|]. split; [lia|].
      rewrite acc_from_cons, (row_entry_delta q a t Hin). exact Hacc.
  Qed.

  Theorem random_word_member k draws :
    cnt m k (d_init m) <> 0%N -> length draws = k ->
    Forall2 N.lt draws (rw_totals m k (d_init m) draws) ->
    exists w, random_word m k draws = Ok w /\ length w = k /\ dfa_acc m w = true.
  Proof.
    intros Hc Hl HF. unfold random_word. destruct (N.eqb (cnt m k (d_init m)) 0) eqn:E.
    - apply N.eqb_eq in E. contradiction.
    - exact (rw_go_member k (d_init m) draws Hc Hl HF).
  Qed.

  Lemma rw_go_not_valueerr k : forall draws q, rw_go m k q draws <> Err ValueErr.
  Proof.
    induction k as [|k IH]; intros draws q; simpl.
    - destruct (is_final m q); discriminate.
    - destruct draws as [|c ds]; [discriminate|].
      destruct (pick m k (row_of m q) c) as [[a t]|].
      + destruct (rw_go m k t ds) eqn:E2; simpl; [discriminate|].
        intro H. inversion H; subst. eapply IH. exact E2.
      + apply IH.
  Qed.

  Theorem random_word_none k draws :
    (forall w, length w = k -> dfa_acc m w = false) <-> random_word m k draws = Err ValueErr.
  Proof.
    unfold random_word. split.
    - intro H. apply (cnt_zero_iff k (d_init m)) in H. rewrite H. reflexivity.
    - destruct (N.eqb (cnt m k (d_init m)) 0) eqn:E.
      + intros _. apply N.eqb_eq in E. apply (cnt_zero_iff k (d_init m)). exact E.
      + intro H. exfalso. exact (rw_go_not_valueerr k draws (d_init m) H).
  Qed.
End Count.

(* ---------- minimum_word_length ---------- *)
Section MinLen.
  Variable m : dfa.
  Hypothesis Hv : valid_dfa m = true.
  Let q0 := d_init m.

  Lemma targets_delta p q : In q (targets m p) <-> exists a, d_delta m p a = Some q.
  Proof.
    unfold targets. rewrite in_map_iff. split.
    - intros [[a t] [E Hin]]. simpl in E. subst t. exists a. apply (row_entry_delta m Hv). exact Hin.
    - intros [a Ha]. exists (a, q). split; [reflexivity|]. unfold d_delta, row_of in *.
      destruct (d_row m p) as [row|]; [|discriminate]. apply assoc_In. exact Ha.
  Qed.

  Lemma run_snoc w a q : dfa_run m (Some q0) (w ++ [a]) = Some q ->
    exists p, dfa_run m (Some q0) w = Some p /\ d_delta m p a = Some q.
  Proof.
    rewrite dfa_run_app. simpl. destruct (dfa_run m (Some q0) w) as [p|]; simpl; [|discriminate].
    intro H. exists p. split; [reflexivity|exact H].
  Qed.

  Lemma acc_run w : dfa_acc m w = true <-> exists q, dfa_run m (Some q0) w = Some q /\ is_final m q = true.
  Proof.
    unfold dfa_acc, dfa_acc_from. fold q0. destruct (dfa_run m (Some q0) w) as [q|]; simpl.
    - split; [intro H; exists q; split; [reflexivity|exact H]|]. intros [q' [E H]]. inversion E; subst. exact H.
    - split; [discriminate|]. intros [q' [E _]]. discriminate.
  Qed.

  Lemma fresh_In visited l y : In y (fresh visited l) -> In y l /\ ~ In y visited.
  Proof. exact (newof_In nat Nat.eqb eqb_nat_ok (fun _ => []) visited l y). Qed.

  Lemma fresh_complete visited l y : In y l -> In y visited \/ In y (fresh visited l).
  Proof. exact (newof_complete nat Nat.eqb eqb_nat_ok (fun _ => []) visited l y). Qed.

  Lemma fresh_NoDup visited l : NoDup (fresh visited l).
  Proof. exact (newof_NoDup nat Nat.eqb eqb_nat_ok visited l). Qed.

  Record minv (d : nat) (old layer : list nat) : Prop := {
    mi1 : forall q, In q layer -> exists w, length w = d /\ dfa_run m (Some q0) w = Some q;
    mi2 : forall q, In q old -> is_final m q = false;
    mi3a : forall w q, length w < d -> dfa_run m (Some q0) w = Some q -> In q old;
    mi3b : forall w q, length w = d -> dfa_run m (Some q0) w = Some q -> In q old \/ In q layer;
    mi4 : forall p a q, In p old -> d_delta m p a = Some q -> In q old \/ In q layer;
    mi5 : NoDup (old ++ layer);
    mi6 : incl (old ++ layer) (d_states m) }.

  Definition min_len_post (r : res nat) : Prop :=
    match r with
    | Ok n => (exists w, length w = n /\ dfa_acc m w = true) /\ (forall w, dfa_acc m w = true -> n <= length w)
    | Err Empty => forall w, dfa_acc m w = false
    | Err _ => False
    end.

  Lemma minv_closed old d : minv d old [] -> forall w q, dfa_run m (Some q0) w = Some q -> In q old.
  Proof.
    intros I w. induction w as [|a w IH] using rev_ind; intros q Hr.
    - destruct d as [|d].
      + destruct (mi3b _ _ _ I [] q eq_refl Hr) as [H|[]]. exact H.
      + apply (mi3a _ _ _ I [] q); [simpl; lia|exact Hr].
    - apply run_snoc in Hr. destruct Hr as [p [Hp Hd]]. specialize (IH p Hp).
      destruct (mi4 _ _ _ I p a q IH Hd) as [H|[]]. exact H.
  Qed.

  Lemma min_len_go_spec fuel : forall layer old d,
    minv d old layer -> length (d_states m) + 2 <= fuel + length old ->
    min_len_post (min_len_go m fuel layer (old ++ layer) d).
  Proof.
    induction fuel as [|f IH]; intros layer old d I Hf.
    - exfalso. pose proof (mi5 _ _ _ I) as Hn. pose proof (mi6 _ _ _ I) as Hi.
      apply NoDup_incl_length in Hi; [|exact Hn]. rewrite app_length in Hi. simpl in Hf. lia.
    - simpl. destruct (existsb (is_final m) layer) eqn:Ex.
      + apply existsb_exists in Ex. destruct Ex as [q [Hq Hfin]].
        destruct (mi1 _ _ _ I q Hq) as [w [Hl Hr]]. split.
        * exists w. split; [exact Hl|]. apply acc_run. exists q. split; assumption.
        * intros w' Hacc. apply acc_run in Hacc. destruct Hacc as [q' [Hr' Hf']].
          destruct (Nat.lt_ge_cases (length w') d) as [Hlt|Hge]; [|exact Hge].
          pose proof (mi3a _ _ _ I w' q' Hlt Hr') as Hin. rewrite (mi2 _ _ _ I q' Hin) in Hf'. discriminate.
      + destruct layer as [|x l].
        * simpl. intro w. destruct (dfa_acc m w) eqn:E; [|reflexivity].
          apply acc_run in E. destruct E as [q [Hr Hfin]].
          rewrite (mi2 _ _ _ I q (minv_closed old d I w q Hr)) in Hfin. discriminate.
        * set (layer := x :: l) in *. set (next := fresh (old ++ layer) (flat_map (targets m) layer)).
          assert (Hnf : forall q, In q layer -> is_final m q = false).
          { intros q Hq. destruct (is_final m q) eqn:E; [|reflexivity].
            assert (existsb (is_final m) layer = true) by (apply existsb_exists; exists q; split; assumption).
            congruence. }
          assert (Hstep : forall p a q, In p layer -> d_delta m p a = Some q -> In q (old ++ layer) \/ In q next).
          { intros p a q Hp Hd. apply fresh_complete. apply in_flat_map. exists p. split; [exact Hp|].
            apply targets_delta. exists a. exact Hd. }
          apply (IH next (old ++ layer) (S d)).
          -- constructor.
             ++ intros q Hq. apply fresh_In in Hq. destruct Hq as [Hq _]. apply in_flat_map in Hq.
                destruct Hq as [p [Hp Ht]]. apply targets_delta in Ht. destruct Ht as [a Ha].
                destruct (mi1 _ _ _ I p Hp) as [w [Hl Hr]]. exists (w ++ [a]). split.
                ** rewrite app_length. simpl. lia.
                ** rewrite dfa_run_app, Hr. simpl. exact Ha.
             ++ intros q Hq. apply in_app_or in Hq. destruct Hq as [Hq|Hq]; [exact (mi2 _ _ _ I q Hq)|exact (Hnf q Hq)].
             ++ intros w q Hl Hr. apply in_or_app.
                destruct (Nat.lt_ge_cases (length w) d) as [Hlt|Hge].
                ** left. exact (mi3a _ _ _ I w q Hlt Hr).
                ** apply (mi3b _ _ _ I w q); [lia|exact Hr].
             ++ intros w q Hl Hr. destruct w as [|b w'] using rev_ind; [discriminate|]. clear IHw'.
                rewrite app_length in Hl. simpl in Hl.
                apply run_snoc in Hr. destruct Hr as [p [Hp Hd]].
                destruct (mi3b _ _ _ I w' p ltac:(lia) Hp) as [Ho|Hlay].
                ** left. apply in_or_app. exact (mi4 _ _ _ I p b q Ho Hd).
                ** exact (Hstep p b q Hlay Hd).
             ++ intros p a q Hp Hd. apply in_app_or in Hp. destruct Hp as [Hp|Hp].
                ** left. apply in_or_app. exact (mi4 _ _ _ I p a q Hp Hd).
                ** exact (Hstep p a q Hp Hd).
             ++ apply (NoDup_app_disjoint nat (fun _ => [])); [exact (mi5 _ _ _ I)|apply fresh_NoDup|].
                intros y Hy. apply fresh_In in Hy. tauto.
             ++ intros y Hy. apply in_app_or in Hy. destruct Hy as [Hy|Hy]; [exact (mi6 _ _ _ I y Hy)|].
                apply fresh_In in Hy. destruct Hy as [Hy _]. apply in_flat_map in Hy.
                destruct Hy as [p [_ Ht]]. apply targets_delta in Ht. destruct Ht as [a Ha].
                apply (delta_in_states m Hv) in Ha. tauto.
          -- rewrite app_length. unfold layer. simpl. lia.
  Qed.

  Theorem min_len_spec : min_len_post (min_len m).
  Proof.
    unfold min_len. fold q0. apply (min_len_go_spec _ [q0] [] 0); [|simpl; lia].
    constructor.
    - intros q [<-|[]]. exists []. split; reflexivity.
    - intros q [].
    - intros w q H. lia.
    - intros w q Hl Hr. destruct w; [|discriminate]. simpl in Hr. inversion Hr. right. left. reflexivity.
    - intros p a q [].
    - simpl. constructor; [intros []|constructor].
    - intros y [<-|[]]. destruct (valid_dfa_parts m Hv) as (_ & _ & _ & _ & _ & H & _). exact H.
  Qed.
End MinLen.

(* ---------- reachability, emptiness, maximum_word_length ---------- *)
Section MaxLen.
  Variable m : dfa.
  Hypothesis Hv : valid_dfa m = true.
  Let q0 := d_init m.

  Definition coacc (q : nat) : Prop := exists v, dfa_acc_from m (Some q) v = true.

  Lemma run_snoc_from q w a x : dfa_run m (Some q) (w ++ [a]) = Some x ->
    exists p, dfa_run m (Some q) w = Some p /\ d_delta m p a = Some x.
  Proof.
    rewrite dfa_run_app. simpl. destruct (dfa_run m (Some q) w) as [p|]; simpl; [|discriminate].
    intro H. exists p. split; [reflexivity|exact H].
  Qed.

  Lemma reach_run q x : reach (targets m) [q] x <-> exists w, dfa_run m (Some q) w = Some x.
  Proof.
    split.
    - intro H. induction H as [x Hx|x y Hr IH Hy].
      + destruct Hx as [<-|[]]. exists []. reflexivity.
      + destruct IH as [w Hw]. apply (targets_delta m Hv) in Hy. destruct Hy as [a Ha].
        exists (w ++ [a]). rewrite dfa_run_app, Hw. simpl. exact Ha.
    - intros [w Hw]. revert x Hw. induction w as [|a w IH] using rev_ind; intros x Hw.
      + simpl in Hw. inversion Hw. apply reach_init. left. reflexivity.
      + apply run_snoc_from in Hw. destruct Hw as [p [Hp Hd]].
        eapply reach_step; [apply IH; exact Hp|]. apply (targets_delta m Hv). exists a. exact Hd.
  Qed.

  Lemma reach_from_ok q : In q (d_states m) ->
    exists l, reach_from m q = Ok l /\ forall x, In x l <-> exists w, dfa_run m (Some q) w = Some x.
  Proof.
    intro Hq. unfold reach_from.
    destruct (closure Nat.eqb (targets m) (S (length (d_states m))) [q]) as [l|] eqn:E.
    - exists l. split; [reflexivity|]. intro x. rewrite <- reach_run. split.
      + apply (closure_sound nat Nat.eqb eqb_nat_ok _ _ _ _ E).
      + apply (closure_complete nat Nat.eqb eqb_nat_ok _ _ _ _ E).
    - exfalso. revert E. apply (closure_fuel nat Nat.eqb eqb_nat_ok (targets m) (d_states m)).
      + intros x y Hx Hy. apply (targets_delta m Hv) in Hy. destruct Hy as [a Ha].
        apply (delta_in_states m Hv) in Ha. tauto.
      + intros y [<-|[]]. exact Hq.
      + lia.
  Qed.

  Lemma acc_from_run q w : dfa_acc_from m (Some q) w = true <->
    exists x, dfa_run m (Some q) w = Some x /\ is_final m x = true.
  Proof.
    unfold dfa_acc_from. destruct (dfa_run m (Some q) w) as [x|]; simpl.
    - split; [intro H; exists x; split; [reflexivity|exact H]|]. intros [x' [E H]]. inversion E; subst. exact H.
    - split; [discriminate|]. intros [x' [E _]]. discriminate.
  Qed.

  Lemma can_accept_spec q : In q (d_states m) ->
    exists b, can_accept m q = Ok b /\ (b = true <-> coacc q).
  Proof.
    intro Hq. unfold can_accept. destruct (reach_from_ok q Hq) as [l [E Hl]]. rewrite E. simpl.
    eexists. split; [reflexivity|]. rewrite existsb_exists. unfold coacc. split.
    - intros [x [Hx Hf]]. apply Hl in Hx. destruct Hx as [w Hw]. exists w. apply acc_from_run. eauto.
    - intros [w Hw]. apply acc_from_run in Hw. destruct Hw as [x [Hr Hf]]. exists x. split; [|exact Hf].
      apply Hl. eauto.
  Qed.

  Lemma q0_state : In q0 (d_states m).
  Proof. destruct (valid_dfa_parts m Hv) as (_ & _ & _ & _ & _ & H & _). exact H. Qed.

  Theorem isempty_spec : exists b, isempty m = Ok b /\ (b = true <-> forall w, dfa_acc m w = false).
  Proof.
    unfold isempty. destruct (can_accept_spec q0 q0_state) as [b [E Hb]]. fold q0. rewrite E. simpl.
    eexists. split; [reflexivity|]. unfold coacc in Hb. destruct b; simpl.
    - split; [discriminate|]. intro H. destruct Hb as [Hb _]. destruct (Hb eq_refl) as [v Hv'].
      unfold dfa_acc in H. fold q0 in H. rewrite H in Hv'. discriminate.
    - split; [|reflexivity]. intros _ w. unfold dfa_acc. fold q0.
      destruct (dfa_acc_from m (Some q0) w) eqn:E2; [|reflexivity].
      destruct Hb as [_ Hb]. discriminate Hb. exists w. exact E2.
  Qed.

  Lemma keep_useful_spec l : incl l (d_states m) ->
    exists r, keep_useful m l = Ok r /\ forall q, In q r <-> In q l /\ coacc q.
  Proof.
    induction l as [|x l IH]; intro Hi; simpl.
    - exists []. split; [reflexivity|]. intro q. simpl. tauto.
    - destruct IH as [r [E Hr]]; [intros y Hy; apply Hi; right; exact Hy|]. rewrite E. simpl.
      destruct (can_accept_spec x (Hi x (or_introl eq_refl))) as [b [Eb Hb]]. rewrite Eb. simpl.
      eexists. split; [reflexivity|]. intro q. destruct b.
      + simpl. rewrite Hr. split.
        * intros [<-|[H1 H2]]; [split; [left; reflexivity|apply Hb; reflexivity]|tauto].
        * intros [[<-|H1] H2]; [left; reflexivity|right; tauto].
      + rewrite Hr. split; [tauto|]. intros [[<-|H1] H2]; [|tauto].
        apply Hb in H2. discriminate.
  Qed.

  (* layer d of the useful part: states reached by a word of length d from which a final state
     can still be reached *)
  Definition layer_ok (d : nat) (layer : list nat) : Prop :=
    forall q, In q layer <-> (exists w, length w = d /\ dfa_run m (Some q0) w = Some q) /\ coacc q.

  Lemma layer_states d layer : layer_ok d layer -> incl layer (d_states m).
  Proof.
    intros H q Hq. apply H in Hq. destruct Hq as [[w [_ Hr]] _].
    pose proof (dfa_run_ok m Hv w (Some q0) q0_state) as Hok. rewrite Hr in Hok. exact Hok.
  Qed.

  Lemma coacc_pred p a q : d_delta m p a = Some q -> coacc q -> coacc p.
  Proof. intros Hd [v Hv']. exists (a :: v). rewrite acc_from_cons, Hd. exact Hv'. Qed.

  Lemma next_layer d layer : layer_ok d layer ->
    exists next, keep_useful m (set_of (flat_map (targets m) layer)) = Ok next /\ layer_ok (S d) next.
  Proof.
    intro HL.
    assert (Hi : incl (set_of (flat_map (targets m) layer)) (d_states m)).
    { intros y Hy. apply (proj1 (set_of_In _ _)) in Hy. apply in_flat_map in Hy. destruct Hy as [p [_ Ht]].
      apply (targets_delta m Hv) in Ht. destruct Ht as [a Ha]. apply (delta_in_states m Hv) in Ha. tauto. }
    destruct (keep_useful_spec _ Hi) as [next [E Hn]]. exists next. split; [exact E|].
    intro q. rewrite Hn, set_of_In, in_flat_map. split.
    - intros [[p [Hp Ht]] Hc]. split; [|exact Hc]. apply HL in Hp. destruct Hp as [[w [Hl Hr]] _].
      apply (targets_delta m Hv) in Ht. destruct Ht as [a Ha]. exists (w ++ [a]). split.
      + rewrite app_length. simpl. lia.
      + rewrite dfa_run_app, Hr. simpl. exact Ha.
    - intros [[w [Hl Hr]] Hc]. split; [|exact Hc].
      destruct w as [|a w'] using rev_ind; [discriminate|]. clear IHw'.
      rewrite app_length in Hl. simpl in Hl. apply run_snoc_from in Hr. destruct Hr as [p [Hp Hd]].
      exists p. split.
      + apply HL. split; [exists w'; split; [lia|exact Hp]|]. eapply coacc_pred; eassumption.
      + apply (targets_delta m Hv). exists a. exact Hd.
  Qed.

  Lemma acc_prefix w n : dfa_acc m w = true -> n <= length w ->
    exists q, dfa_run m (Some q0) (firstn n w) = Some q /\ coacc q.
  Proof.
    intros Ha Hn. unfold dfa_acc, dfa_acc_from in Ha. fold q0 in Ha.
    rewrite <- (firstn_skipn n w) in Ha at 1. rewrite dfa_run_app in Ha.
    destruct (dfa_run m (Some q0) (firstn n w)) as [q|].
    - exists q. split; [reflexivity|]. exists (skipn n w). exact Ha.
    - rewrite dfa_run_None in Ha. discriminate.
  Qed.

  Definition lp_post (d fuel : nat) (r : res (option nat)) : Prop :=
    match r with
    | Ok (Some n) => (exists w, length w = n /\ dfa_acc m w = true) /\ (forall w, dfa_acc m w = true -> length w <= n)
    | Ok None => exists w, dfa_acc m w = true /\ d + fuel <= length w
    | Err _ => False
    end.

  Lemma layer_word d layer q : layer_ok d layer -> In q layer ->
    exists w, dfa_acc m w = true /\ d <= length w.
  Proof.
    intros HL Hq. apply HL in Hq. destruct Hq as [[w [Hl Hr]] [v Hv']].
    exists (w ++ v). split.
    - unfold dfa_acc, dfa_acc_from. fold q0. rewrite dfa_run_app, Hr. exact Hv'.
    - rewrite app_length. lia.
  Qed.

  Lemma lp_go_spec fuel : forall layer d, layer_ok d layer -> layer <> [] ->
    lp_post d fuel (lp_go m fuel layer d).
  Proof.
    induction fuel as [|f IH]; intros layer d HL Hne; simpl.
    - destruct layer as [|q l]; [congruence|].
      destruct (layer_word d _ q HL (or_introl eq_refl)) as [w [Ha Hl]]. exists w. split; [exact Ha|lia].
    - destruct (next_layer d layer HL) as [next [E HN]]. rewrite E. simpl.
      destruct next as [|x nx] eqn:En.
      + destruct layer as [|q l]; [congruence|].
        assert (Hmax : forall w, dfa_acc m w = true -> length w <= d).
        { intros w Ha. destruct (Nat.le_gt_cases (length w) d) as [H|H]; [exact H|]. exfalso.
          destruct (acc_prefix w (S d) Ha H) as [q' [Hr Hc]].
          assert (Hin : In q' []); [|destruct Hin].
          apply HN. split; [|exact Hc]. exists (firstn (S d) w). split; [|exact Hr].
          apply firstn_length_le. lia. }
        split; [|exact Hmax].
        destruct (layer_word d _ q HL (or_introl eq_refl)) as [w [Ha Hl]]. exists w. split; [|exact Ha].
        specialize (Hmax w Ha). lia.
      + rewrite <- En in *. assert (Hne' : next <> []) by (rewrite En; discriminate).
        specialize (IH next (S d) HN Hne'). unfold lp_post in *.
        destruct (lp_go m f next (S d)) as [[n|]|e]; [exact IH| |exact IH].
        destruct IH as [w [Ha Hl]]. exists w. split; [exact Ha|lia].
  Qed.

  (* maximum_word_length without the pumping step: Some n is the exact maximum, None means some
     accepted word is at least as long as the number of states, Empty iff the language is empty *)
  Lemma max_len_pre :
    match max_len m with
    | Ok (Some n) => (exists w, length w = n /\ dfa_acc m w = true) /\ (forall w, dfa_acc m w = true -> length w <= n)
    | Ok None => exists w, dfa_acc m w = true /\ length (d_states m) <= length w
    | Err Empty => forall w, dfa_acc m w = false
    | Err _ => False
    end.
  Proof.
    unfold max_len. destruct isempty_spec as [b [E Hb]]. rewrite E. simpl. destruct b.
    - apply Hb. reflexivity.
    - assert (Hc : coacc q0).
      { destruct (can_accept_spec q0 q0_state) as [b' [E' Hb']]. unfold isempty in E. fold q0 in E.
        rewrite E' in E. simpl in E. inversion E as [E2]. apply Hb'. destruct b'; [reflexivity|discriminate]. }
      assert (HL : layer_ok 0 [q0]).
      { intro q. split.
        - intros [<-|[]]. split; [exists []; split; reflexivity|exact Hc].
        - intros [[w [Hl Hr]] _]. destruct w; [|discriminate]. simpl in Hr. inversion Hr. left. reflexivity. }
      pose proof (lp_go_spec (length (d_states m)) [q0] 0 HL ltac:(discriminate)) as H.
      unfold lp_post in H. fold q0. destruct (lp_go m (length (d_states m)) [q0] 0) as [[n|]|e]; [exact H|exact H|destruct H].
  Qed.
End MaxLen.

(* ---------- maximum length, cardinality, iteration ---------- *)
Lemma ss_impl_in {A} (R R' : A -> A -> Prop) l :
  StronglySorted R l -> (forall x y, In x l -> In y l -> R x y -> R' x y) -> StronglySorted R' l.
Proof.
  induction l as [|a l IH]; intros H HR; [constructor|].
  apply StronglySorted_inv in H. destruct H as [H Ha]. constructor.
  - apply IH; [exact H|]. intros x y Hx Hy. apply HR; right; assumption.
  - apply Forall_forall. intros y Hy. rewrite Forall_forall in Ha.
    apply HR; [left; reflexivity|right; exact Hy|apply Ha; exact Hy].
Qed.

Section Card.
  Variable m : dfa.
  Hypothesis Hv : valid_dfa m = true.
  Let q0 := d_init m.

  Definition infinite_lang : Prop := forall n, exists w, dfa_acc m w = true /\ n < length w.

  Theorem max_len_spec :
    match max_len m with
    | Ok (Some n) => (exists w, length w = n /\ dfa_acc m w = true) /\ (forall w, dfa_acc m w = true -> length w <= n)
    | Ok None => infinite_lang
    | Err Empty => forall w, dfa_acc m w = false
    | Err _ => False
    end.
  Proof.
    pose proof (max_len_pre m Hv) as H. destruct (max_len m) as [[n|]|e]; try exact H.
    destruct H as [w [Ha Hl]]. exact (pump_infinite m Hv w Ha Hl).
  Qed.

  (* the accepted words of length < L, by length then lexicographically *)
  Definition level (k : nat) : list word := filter (dfa_acc m) (all_words (ssyms m) k).
  Definition words_below (L : nat) : list word := flat_map level (seq 0 L).

  Lemma level_wl k : level k = wl m k q0.
  Proof. symmetry. exact (wl_from m Hv k q0). Qed.

  Lemma level_In k w : In w (level k) <-> length w = k /\ dfa_acc m w = true.
  Proof. exact (oacc_words_In' m Hv k q0 w). Qed.

  Lemma words_below_In L w : In w (words_below L) <-> dfa_acc m w = true /\ length w < L.
  Proof.
    unfold words_below. rewrite in_flat_map. split.
    - intros [k [Hk Hw]]. apply in_seq in Hk. apply level_In in Hw. destruct Hw as [<- Ha]. split; [exact Ha|lia].
    - intros [Ha Hl]. exists (length w). split; [apply in_seq; lia|]. apply level_In. tauto.
  Qed.

  Lemma words_below_sorted L : StronglySorted ll_lt (words_below L).
  Proof.
    unfold words_below. induction L as [|L IH]; [constructor|].
    rewrite seq_S, flat_map_app. simpl. rewrite app_nil_r. apply ss_app.
    - exact IH.
    - apply (ss_impl_in lex_lt).
      + unfold level. apply ss_filter. apply all_words_sorted. apply set_of_sorted.
      + intros x y Hx Hy Hlt. right. apply level_In in Hx. apply level_In in Hy. split; [lia|exact Hlt].
    - intros x y Hx Hy. left. apply (words_below_In L) in Hx. apply level_In in Hy. lia.
  Qed.

  Lemma words_below_NoDup L : NoDup (words_below L).
  Proof. eapply ss_NoDup; [exact ll_lt_irrefl|apply words_below_sorted]. Qed.

  Lemma level_count k : cnt m k q0 = N.of_nat (length (level k)).
  Proof. exact (cnt_from m Hv k q0). Qed.

  Lemma Nsum_levels start len :
    Nsum (map (fun j => cnt m j q0) (seq start len)) = N.of_nat (length (flat_map level (seq start len))).
  Proof.
    rewrite length_flat_map_N. f_equal. apply map_ext. intro j. apply level_count.
  Qed.

  Lemma level_nil_below lo k : (forall w, dfa_acc m w = true -> lo <= length w) -> k < lo -> level k = [].
  Proof.
    intros Hmin Hk. destruct (level k) as [|w l] eqn:E; [reflexivity|].
    assert (Hin : In w (level k)) by (rewrite E; left; reflexivity).
    apply level_In in Hin. destruct Hin as [Hl Ha]. specialize (Hmin w Ha). lia.
  Qed.

  Lemma levels_from lo len : (forall w, dfa_acc m w = true -> lo <= length w) ->
    flat_map level (seq lo len) = words_below (lo + len).
  Proof.
    intro Hmin. unfold words_below. rewrite seq_app, flat_map_app. simpl.
    assert (E : flat_map level (seq 0 lo) = []).
    { apply flat_map_nil. intros k Hk. apply in_seq in Hk. apply (level_nil_below lo); [exact Hmin|lia]. }
    rewrite E. reflexivity.
  Qed.

  (* cardinality: the number of accepted words (all of them shorter than some bound);
     InfiniteLanguageException exactly for an infinite language; 0 for the empty one *)
  Theorem cardinality_spec :
    match cardinality m with
    | Ok c => exists L, (forall w, dfa_acc m w = true -> length w < L) /\ c = N.of_nat (length (words_below L))
    | Err Infinite => infinite_lang
    | Err _ => False
    end.
  Proof.
    unfold cardinality. pose proof (min_len_spec m Hv) as Hmin. unfold min_len_post in Hmin.
    pose proof max_len_spec as Hmax.
    destruct (min_len m) as [lo|e].
    - destruct Hmin as [[w0 [Hl0 Ha0]] Hmin]. destruct (max_len m) as [[h|]|e]; cbn [bind].
      + destruct Hmax as [_ Hmax]. exists (S h). split.
        * intros w Ha. specialize (Hmax w Ha). lia.
        * fold q0. rewrite Nsum_levels, (levels_from lo (S h - lo) Hmin).
          specialize (Hmax w0 Ha0). replace (lo + (S h - lo)) with (S h) by lia. reflexivity.
      + exact Hmax.
      + destruct e; try contradiction. exfalso. rewrite (Hmax w0) in Ha0. discriminate.
    - destruct e; try contradiction. exists 0. split.
      + intros w Ha. rewrite (Hmin w) in Ha. discriminate.
      + reflexivity.
  Qed.

  (* ---- iteration ---- *)
  Definition lvl_from (k f : nat) : list word := flat_map (fun j => wl m j q0) (seq k f).

  Lemma bind_id {A} (r : res A) : bind r (fun s => Ok s) = r.
  Proof. destruct r; reflexivity. Qed.

  Lemma iter_go_eq stop fuel : forall k need,
    iter_go m fuel k need stop =
      if Nat.leb need (length (lvl_from k fuel)) then Ok (firstn need (lvl_from k fuel))
      else bind stop (fun s => Ok (lvl_from k fuel ++ s)).
  Proof.
    induction fuel as [|f IH]; intros k need.
    - destruct need as [|nd]; simpl; [reflexivity|]. symmetry. apply bind_id.
    - destruct need as [|nd]; [reflexivity|].
      assert (El : lvl_from k (S f) = wl m k q0 ++ lvl_from (S k) f) by reflexivity.
      rewrite El. clear El.
      change (iter_go m (S f) k (S nd) stop) with
        (if Nat.leb (S nd) (length (wl m k q0)) then Ok (firstn (S nd) (wl m k q0))
         else bind (iter_go m f (S k) (S nd - length (wl m k q0)) stop) (fun r => Ok (wl m k q0 ++ r))).
      set (ws := wl m k q0). set (rest := lvl_from (S k) f). rewrite app_length.
      destruct (Nat.leb (S nd) (length ws)) eqn:E1.
      + apply Nat.leb_le in E1. assert (E2 : Nat.leb (S nd) (length ws + length rest) = true) by (apply Nat.leb_le; lia).
        rewrite E2. rewrite firstn_app. replace (S nd - length ws) with 0 by lia. rewrite firstn_O, app_nil_r. reflexivity.
      + apply Nat.leb_gt in E1. rewrite IH. fold rest.
        destruct (Nat.leb (S nd - length ws) (length rest)) eqn:E3.
        * apply Nat.leb_le in E3. assert (E2 : Nat.leb (S nd) (length ws + length rest) = true) by (apply Nat.leb_le; lia).
          rewrite E2. simpl bind. rewrite firstn_app. rewrite (firstn_all2 ws) by lia. reflexivity.
        * apply Nat.leb_gt in E3. assert (E2 : Nat.leb (S nd) (length ws + length rest) = false) by (apply Nat.leb_gt; lia).
          rewrite E2. destruct stop as [s|e]; simpl; [rewrite app_assoc; reflexivity|reflexivity].
  Qed.

  Lemma lvl_from_level k f : lvl_from k f = flat_map level (seq k f).
  Proof. unfold lvl_from. apply flat_map_ext. intro j. symmetry. apply level_wl. Qed.

  (* an infinite language has at least n words shorter than lo + n*(|Q|+1): one per window *)
  Lemma words_below_grow lo n : infinite_lang -> n <= length (words_below (lo + n * S (length (d_states m)))).
  Proof.
    intro Hinf. induction n as [|n IH]; [lia|].
    set (Q := length (d_states m)) in *. set (L := lo + n * S Q) in *.
    replace (lo + S n * S Q) with (L + S Q) by (unfold L; simpl; lia).
    unfold words_below in *. rewrite seq_app, flat_map_app, app_length. change (0 + L) with L.
    destruct (window_word m Hv Hinf L) as [w [Ha Hl]]. fold Q in Hl.
    assert (Hin : In w (flat_map level (seq L (S Q)))).
    { apply in_flat_map. exists (length w). split; [apply in_seq; lia|]. apply level_In. tauto. }
    destruct (flat_map level (seq L (S Q))) as [|x l]; [destruct Hin|]. simpl length. lia.
  Qed.

  (* iteration: the first n words of the (length, lexicographic) listing of the language; either n
     words were produced or the whole (finite) language was; an empty language yields nothing.
     The level budget of an infinite language is sufficient: no other outcome. *)
  Theorem iter_upto_spec n :
    exists ws L, iter_upto m n = Ok ws /\ ws = firstn n (words_below L) /\
                 (length ws = n \/ (forall w, dfa_acc m w = true -> In w ws)).
  Proof.
    unfold iter_upto. destruct (isempty_spec m Hv) as [b [Ee Hb]]. rewrite Ee. cbn [bind]. destruct b.
    - exists [], 0. split; [reflexivity|]. split; [destruct n; reflexivity|]. right. intros w Ha.
      destruct Hb as [Hb _]. rewrite (Hb eq_refl w) in Ha. discriminate.
    - pose proof (min_len_spec m Hv) as Hmin. unfold min_len_post in Hmin. pose proof max_len_spec as Hmax.
      assert (Hne : ~ (forall w, dfa_acc m w = false)) by (intro H; apply Hb in H; discriminate).
      destruct (min_len m) as [lo|e]; [|destruct e; contradiction]. cbn [bind].
      destruct Hmin as [[w0 [Hl0 Ha0]] Hmin].
      destruct (max_len m) as [[h|]|e]; cbn [bind].
      + destruct Hmax as [_ Hmax]. rewrite iter_go_eq. fold q0.
        rewrite lvl_from_level, (levels_from lo (S h - lo) Hmin).
        pose proof (Hmax w0 Ha0) as Hlo. replace (lo + (S h - lo)) with (S h) by lia.
        destruct (Nat.leb n (length (words_below (S h)))) eqn:E.
        * eexists. exists (S h). split; [reflexivity|]. split; [reflexivity|].
          left. apply firstn_length_le. apply Nat.leb_le. exact E.
        * cbn [bind]. eexists. exists (S h). split; [reflexivity|]. rewrite app_nil_r. apply Nat.leb_gt in E. split.
          -- symmetry. apply firstn_all2. lia.
          -- right. intros w Ha. apply words_below_In. split; [exact Ha|]. specialize (Hmax w Ha). lia.
      + rewrite iter_go_eq. fold q0. rewrite lvl_from_level, (levels_from lo _ Hmin).
        set (L := lo + n * S (length (d_states m))).
        assert (E : Nat.leb n (length (words_below L)) = true).
        { apply Nat.leb_le. apply words_below_grow. exact Hmax. }
        rewrite E. eexists. exists L. split; [reflexivity|]. split; [reflexivity|].
        left. apply firstn_length_le. apply Nat.leb_le. exact E.
      + destruct e; contradiction.
  Qed.
End Card.

(* ---------- random_word: uniformity ---------- *)
Section Uniform.
  Variable m : dfa.
  Hypothesis Hv : valid_dfa m = true.

  Lemma pick_In r row : forall c a t, pick m r row c = Some (a, t) -> In (a, t) row.
  Proof.
    induction row as [|[a' t'] rest IH]; intros c a t; simpl; [discriminate|].
    destruct (N.ltb c (cnt m r t')).
    - intro H. inversion H; subst. left. reflexivity.
    - intro H. right. eapply IH. exact H.
  Qed.

  (* per step: with the draw ranging over [0, total), the entry (a, t) of the row is selected
     exactly for the draws of an interval of cnt r t consecutive values inside the range *)
  Lemma pick_interval r row : NoDup (map fst row) -> forall a t, In (a, t) row ->
    exists off, (off + cnt m r t <= row_total m r row)%N /\
      forall c, pick m r row c = Some (a, t) <-> (off <= c < off + cnt m r t)%N.
  Proof.
    induction row as [|[a' t'] rest IH]; intros Hn a t Hin; [destruct Hin|].
    simpl in Hn. inversion Hn as [|x l Hnot Hn']; subst.
    unfold row_total. simpl. fold (row_total m r rest).
    destruct Hin as [Hin|Hin].
    - inversion Hin; subst. exists 0%N. split; [lia|]. intro c.
      destruct (N.ltb c (cnt m r t)) eqn:E.
      + apply N.ltb_lt in E. split; [intros _; lia|reflexivity].
      + apply N.ltb_ge in E. split; [|lia]. intro H. apply pick_In in H.
        exfalso. apply Hnot. apply in_map_iff. exists (a, t). split; [reflexivity|exact H].
    - destruct (IH Hn' a t Hin) as [off [Hle Hc]]. exists (cnt m r t' + off)%N. split; [lia|]. intro c.
      assert (Hne : a <> a').
      { intro E. subst a'. apply Hnot. apply in_map_iff. exists (a, t). split; [reflexivity|exact Hin]. }
      destruct (N.ltb c (cnt m r t')) eqn:E.
      + apply N.ltb_lt in E. split; [|lia]. intro H. inversion H. congruence.
      + apply N.ltb_ge in E. rewrite Hc. lia.
  Qed.

  (* along the run of a word: the product of the sizes of the selecting intervals, and the
     product of the sizes of the ranges drawn from *)
  Fixpoint path_num (rem q : nat) (w : word) : N :=
    match rem, w with
    | S r, a :: w' => match d_delta m q a with
                      | Some t => (cnt m r t * path_num r t w')%N
                      | None => 0%N
                      end
    | _, _ => 1%N
    end.

  Fixpoint path_den (rem q : nat) (w : word) : N :=
    match rem, w with
    | S r, a :: w' => match d_delta m q a with
                      | Some t => (cnt m (S r) q * path_den r t w')%N
                      | None => 0%N
                      end
    | _, _ => 1%N
    end.

  (* the ranges drawn from along the run of w *)
  Fixpoint path_bounds (rem q : nat) (w : word) : list N :=
    match rem, w with
    | S r, a :: w' => match d_delta m q a with
                      | Some t => cnt m (S r) q :: path_bounds r t w'
                      | None => []
                      end
    | _, _ => []
    end.

  Definition Nprod (l : list N) : N := fold_right N.mul 1%N l.

  Lemma path_den_bounds rem : forall q w, length w = rem -> dfa_acc_from m (Some q) w = true ->
    path_den rem q w = Nprod (path_bounds rem q w).
  Proof.
    induction rem as [|r IH]; intros q w Hl Ha; [destruct w; reflexivity|].
    destruct w as [|a w']; [discriminate|]. simpl in Hl. rewrite (acc_from_cons m) in Ha.
    simpl path_den. simpl path_bounds.
    destruct (d_delta m q a) as [t|] eqn:E; [|rewrite (acc_from_None m) in Ha; discriminate].
    simpl. rewrite (IH t w' ltac:(lia) Ha). reflexivity.
  Qed.

  (* telescoping: (number of draw vectors producing w) / (size of the box they are drawn from)
     = 1 / (number of accepted words of that length), the same for every accepted w *)
  Lemma path_telescope rem : forall q w, length w = rem -> dfa_acc_from m (Some q) w = true ->
    (path_num rem q w * cnt m rem q = path_den rem q w)%N /\ path_den rem q w <> 0%N.
  Proof.
    induction rem as [|r IH]; intros q w Hl Ha.
    - destruct w; [|discriminate]. simpl. unfold dfa_acc_from in Ha. simpl in Ha.
      unfold is_final. rewrite Ha. split; [reflexivity|discriminate].
    - destruct w as [|a w']; [discriminate|]. simpl in Hl.
      rewrite (acc_from_cons m) in Ha. simpl path_num. simpl path_den.
      destruct (d_delta m q a) as [t|] eqn:E; [|rewrite (acc_from_None m) in Ha; discriminate].
      destruct (IH t w' ltac:(lia) Ha) as [IH1 IH2]. split.
      + rewrite <- IH1.
        change (cnt m (S r) q) with (Nsum (map (fun p : nat * nat => cnt m r (snd p)) (row_of m q))).
        generalize (Nsum (map (fun p : nat * nat => cnt m r (snd p)) (row_of m q))) (cnt m r t) (path_num r t w').
        intros x y z. rewrite (N.mul_comm z y), (N.mul_comm x). reflexivity.
      + assert (Hc : cnt m (S r) q <> 0%N).
        { intro Hz. apply (cnt_zero_iff m Hv (S r) q) with (w := a :: w') in Hz; [|simpl; lia].
          rewrite (acc_from_cons m), E in Hz. congruence. }
        apply N.neq_mul_0. split; [exact Hc|exact IH2].
  Qed.
End Uniform.
