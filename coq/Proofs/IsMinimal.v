(* is_minimal (Model/Construct.v) is sound: a valid DFA that passes it has the fewest states among
   the DFAs of its kind for its language - GIVEN the Myhill-Nerode lower bound, which is proved on
   branch `minim` (theorem C05_nerode_lower_bound, coq/Props/P_C05.v).  To avoid duplicating that
   development here the lower bound enters as a hypothesis whose statement is copied verbatim. *)
From Coq Require Import List Arith Bool Lia.
From AV Require Import Base.Util Base.Closure Spec.Lang Spec.FA Spec.Preds Model.Decide Model.Product
                       Model.Construct Proofs.FARun Proofs.Decide Proofs.Product Proofs.Preds Proofs.Border
                       Proofs.Construct.
Import ListNotations.

Definition nerode_lower_bound_statement : Prop :=
  forall A B, valid_dfa A = true -> valid_dfa B = true -> L_dfa B =L L_dfa A ->
    (forall r, In r (d_states A) -> exists u, dfa_run A (Some (d_init A)) u = Some r) ->
    (forall r1 r2, In r1 (d_states A) -> In r2 (d_states A) -> r1 <> r2 ->
        exists w, dfa_acc_from A (Some r1) w <> dfa_acc_from A (Some r2) w) ->
    (complete B -> d_syms B = d_syms A -> size A <= size B) /\
    ((forall r, In r (d_states A) -> exists w, dfa_acc_from A (Some r) w = true) -> size A <= size B).

Lemma with_init_valid m q : valid_dfa m = true -> In q (d_states m) -> valid_dfa (with_init m q) = true.
Proof.
  intros Hv Hq. unfold valid_dfa in *.
  cbn [with_init d_states d_syms d_trans d_init d_finals d_partial].
  repeat rewrite andb_true_iff in Hv. destruct Hv as [[[[[[H1 H2] H3] H4] H5] H6] H7].
  repeat rewrite andb_true_iff. repeat split; try assumption.
  apply memb_In. exact Hq.
Qed.

Lemma run_with_init m q w : forall c, dfa_run (with_init m q) c w = dfa_run m c w.
Proof. induction w as [|a w IH]; intro c; [reflexivity|]. simpl. rewrite IH. reflexivity. Qed.

Lemma acc_with_init m q w : dfa_acc (with_init m q) w = dfa_acc_from m (Some q) w.
Proof. unfold dfa_acc, dfa_acc_from. rewrite run_with_init. reflexivity. Qed.

Lemma distinguishable_spec m p q : valid_dfa m = true -> In p (d_states m) -> In q (d_states m) ->
  distinguishable m p q = true -> exists w, dfa_acc_from m (Some p) w <> dfa_acc_from m (Some q) w.
Proof.
  intros Hv Hp Hq. unfold distinguishable.
  destruct (dfa_diff_spec (with_init m p) (with_init m q) (with_init_valid m p Hv Hp) (with_init_valid m q Hv Hq))
    as [r [E [_ Hw]]].
  rewrite E. destruct r as [w|]; [|discriminate]. intros _. exists w.
  rewrite <- !acc_with_init. apply Hw. reflexivity.
Qed.

Lemma live_spec m q : valid_dfa m = true -> In q (d_states m) ->
  live m q = true -> exists w, dfa_acc_from m (Some q) w = true.
Proof.
  intros Hv Hq. unfold live.
  assert (Hnd : NoDup (d_syms m)).
  { destruct (valid_dfa_parts m Hv) as (_ & H & _). exact H. }
  destruct (dfa_diff_spec (with_init m q) (empty_m (d_syms m)) (with_init_valid m q Hv Hq) (empty_valid _ Hnd))
    as [r [E [_ Hw]]].
  rewrite E. destruct r as [w|]; [|discriminate]. intros _. exists w.
  specialize (Hw w eq_refl). rewrite empty_acc, acc_with_init in Hw.
  destruct (dfa_acc_from m (Some q) w); [reflexivity|congruence].
Qed.

Lemma all_pairs_spec (r : nat -> nat -> bool) l : all_pairs r l = true ->
  forall x y, In x l -> In y l -> x <> y -> r x y = true \/ r y x = true.
Proof.
  induction l as [|p rest IH]; intros H x y Hx Hy Hne; [destruct Hx|].
  simpl in H. apply andb_true_iff in H. destruct H as [Hp Hr]. rewrite forallb_forall in Hp.
  destruct Hx as [<-|Hx], Hy as [<-|Hy].
  - congruence.
  - left. apply Hp. exact Hy.
  - right. apply Hp. exact Hx.
  - apply IH; assumption.
Qed.

Theorem is_minimal_sound_of_lower_bound : nerode_lower_bound_statement ->
  forall m, valid_dfa m = true -> is_minimal m = true ->
    (forall m', valid_dfa m' = true -> complete m' -> d_syms m' = d_syms m -> L_dfa m' =L L_dfa m ->
                size m <= size m') /\
    (d_partial m = true ->
     forall m', valid_dfa m' = true -> L_dfa m' =L L_dfa m -> size m <= size m').
Proof.
  intros LB m Hv Hmin. unfold is_minimal in Hmin.
  destruct (reach_states m) as [R|] eqn:ER; [|discriminate].
  repeat rewrite andb_true_iff in Hmin. destruct Hmin as [[Hreach Hdist] Hkind].
  assert (Hacc : forall r, In r (d_states m) -> exists u, dfa_run m (Some (d_init m)) u = Some r).
  { intros r Hr. rewrite forallb_forall in Hreach. specialize (Hreach r Hr). apply memb_In in Hreach.
    unfold reach_states in ER.
    destruct (closure Nat.eqb _ (S (length (d_states m))) [d_init m]) as [qs|] eqn:E; [|discriminate].
    simpl in ER. inversion ER; subst qs.
    apply (closure_sound _ _ eqb_nat_ok _ _ _ _ E) in Hreach. apply (reach_run m Hv). exact Hreach. }
  assert (Hd : forall r1 r2, In r1 (d_states m) -> In r2 (d_states m) -> r1 <> r2 ->
               exists w, dfa_acc_from m (Some r1) w <> dfa_acc_from m (Some r2) w).
  { intros r1 r2 H1 H2 Hne. destruct (all_pairs_spec _ _ Hdist r1 r2 H1 H2 Hne) as [H|H].
    - apply distinguishable_spec; assumption.
    - destruct (distinguishable_spec m r2 r1 Hv H2 H1 H) as [w Hw]. exists w. congruence. }
  split.
  - intros m' Hv' Hc Hs HL. exact (proj1 (LB m m' Hv Hv' HL Hacc Hd) Hc Hs).
  - intros Hp m' Hv' HL. rewrite Hp in Hkind. simpl in Hkind. apply orb_true_iff in Hkind.
    destruct Hkind as [H1|Hlive].
    + apply Nat.eqb_eq in H1. unfold size. rewrite H1.
      destruct (valid_dfa_parts m' Hv') as (_ & _ & _ & _ & _ & Hi & _).
      destruct (d_states m'); [destruct Hi|simpl; lia].
    + apply (proj2 (LB m m' Hv Hv' HL Hacc Hd)). intros r Hr.
      rewrite forallb_forall in Hlive. apply live_spec; [exact Hv|exact Hr|apply Hlive; exact Hr].
Qed.
