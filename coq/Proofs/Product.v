(* The lazy cross product explores exactly the pairs reached along words all of whose
   steps are "taken" under the relevance flags; the decisions of C06 follow. *)
From Coq Require Import List Arith Bool Lia.
From AV Require Import Base.Util Base.Closure Spec.Lang Spec.FA Model.Decide Model.Product
     Proofs.FARun Proofs.Decide.
Import ListNotations.

Definition issome {A} (o : option A) : bool := negb (isnone o).

Lemma assoc_prow m x c : assoc c (prow m x) = ostep m x c.
Proof.
  destruct x as [q|]; simpl; [|reflexivity]. unfold d_delta. destruct (d_row m q); reflexivity.
Qed.

Lemma assoc_issome_key {B} c (l : list (nat * B)) : issome (assoc c l) = true <-> In c (map fst l).
Proof.
  unfold issome. destruct (assoc c l) eqn:E; simpl.
  - split; [intros _; eapply assoc_Some_key; exact E|reflexivity].
  - apply assoc_None in E. split; [discriminate|contradiction].
Qed.

Lemma run_some_prefix m x u v q : dfa_run m x (u ++ v) = Some q -> exists q', dfa_run m x u = Some q'.
Proof.
  rewrite dfa_run_app. destruct (dfa_run m x u) as [q'|]; [eauto|]. rewrite dfa_run_None. discriminate.
Qed.

Lemma ofinal_some m x : ofinal m x = true -> issome x = true.
Proof. destruct x; [reflexivity|discriminate]. Qed.

Section Cross.
  Variables A B : dfa.
  Variables lrel rrel : bool.

  Definition pstep (p : pst) (c : nat) : pst := (ostep A (fst p) c, ostep B (snd p) c).
  Definition prun (p : pst) (w : word) : pst := (dfa_run A (fst p) w, dfa_run B (snd p) w).
  Definition take (p : pst) : bool :=
    (issome (fst p) || issome (snd p)) && (lrel || issome (fst p)) && (rrel || issome (snd p)).
  Definition psucc (p : pst) : list pst := map snd (cross_expand A B lrel rrel p).
  Definition pinit : pst := (Some (d_init A), Some (d_init B)).

  Lemma prun_app p u v : prun p (u ++ v) = prun (prun p u) v.
  Proof. unfold prun. simpl. rewrite !dfa_run_app. reflexivity. Qed.

  Lemma prun_snoc p u c : prun p (u ++ [c]) = pstep (prun p u) c.
  Proof. rewrite prun_app. reflexivity. Qed.

  Lemma expand_char p c p' :
    In (c, p') (cross_expand A B lrel rrel p) <-> p' = pstep p c /\ take p' = true.
  Proof.
    unfold cross_expand. rewrite in_flat_map. split.
    - intros [c' [Hc' H]]. rewrite !assoc_prow in H.
      destruct ((negb lrel && isnone (ostep A (fst p) c')) || (negb rrel && isnone (ostep B (snd p) c'))) eqn:E;
        [destruct H|].
      destruct H as [H|[]]. inversion H; subst. split; [reflexivity|].
      apply (proj1 (set_of_In _ _)) in Hc'. apply in_app_or in Hc'. rewrite <- !assoc_issome_key, !assoc_prow in Hc'.
      unfold take, pstep, issome in *. simpl.
      destruct lrel, rrel, (ostep A (fst p) c), (ostep B (snd p) c); simpl in *;
        try reflexivity; try discriminate; destruct Hc'; discriminate.
    - intros [-> Ht]. exists c. rewrite !assoc_prow. unfold take, pstep, issome in *. simpl in *. split.
      + apply (proj2 (set_of_In _ _)). apply in_or_app. rewrite <- !assoc_issome_key, !assoc_prow. unfold issome.
        destruct (ostep A (fst p) c), (ostep B (snd p) c); simpl in *; try (left; reflexivity);
          try (right; reflexivity). destruct lrel, rrel; discriminate.
      + destruct lrel, rrel, (ostep A (fst p) c), (ostep B (snd p) c); simpl in *;
          try discriminate; left; reflexivity.
  Qed.

  Lemma psucc_char p p' : In p' (psucc p) <-> exists c, p' = pstep p c /\ take p' = true.
  Proof.
    unfold psucc. rewrite in_map_iff. split.
    - intros [[c q] [<- H]]. apply expand_char in H. exists c. exact H.
    - intros [c H]. exists (c, p'). split; [reflexivity|]. apply expand_char. exact H.
  Qed.

  (* words all of whose steps are taken *)
  Inductive tpath (p : pst) : word -> pst -> Prop :=
  | tp_nil : tpath p [] p
  | tp_snoc w c q : tpath p w q -> take (pstep q c) = true -> tpath p (w ++ [c]) (pstep q c).

  Lemma tpath_run p w q : tpath p w q -> q = prun p w.
  Proof.
    intro H. induction H as [|w c q H IH Ht]; [destruct p; reflexivity|].
    rewrite prun_snoc, <- IH. reflexivity.
  Qed.

  Lemma reach_tpath p q : reach psucc [p] q <-> exists w, tpath p w q.
  Proof.
    split.
    - intro H. induction H as [x Hx|x y Hr [w IH] Hy].
      + destruct Hx as [<-|[]]. exists []. constructor.
      + apply psucc_char in Hy. destruct Hy as [c [-> Ht]]. exists (w ++ [c]). constructor; assumption.
    - intros [w H]. induction H as [|w c q H IH Ht].
      + apply reach_init. left. reflexivity.
      + eapply reach_step; [exact IH|]. apply psucc_char. exists c. split; [reflexivity|exact Ht].
  Qed.

  Lemma tpath_of_prefixes p w :
    (forall u c v, w = u ++ c :: v -> take (prun p (u ++ [c])) = true) -> tpath p w (prun p w).
  Proof.
    induction w as [|c w IH] using rev_ind; intro H.
    - destruct p. constructor.
    - rewrite prun_snoc. constructor.
      + apply IH. intros u d v ->. apply (H u d (v ++ [c])). rewrite <- app_assoc. reflexivity.
      + rewrite <- prun_snoc. apply (H w c []). reflexivity.
  Qed.

  Hypothesis HA : valid_dfa A = true.
  Hypothesis HB : valid_dfa B = true.

  Lemma cross_states_ok :
    exists ps, cross_states A B lrel rrel = Ok ps /\
      forall q, In q ps <-> exists w, tpath pinit w q.
  Proof.
    unfold cross_states.
    destruct (closure peqb _ (cross_fuel A B) _) as [ps|] eqn:E.
    - exists ps. split; [reflexivity|]. intro q. rewrite <- reach_tpath. fold psucc in E. split.
      + apply (closure_sound _ _ (eqb_pair_ok _ _ (eqb_opt_ok _ eqb_nat_ok) (eqb_opt_ok _ eqb_nat_ok)) _ _ _ _ E).
      + apply (closure_complete _ _ (eqb_pair_ok _ _ (eqb_opt_ok _ eqb_nat_ok) (eqb_opt_ok _ eqb_nat_ok)) _ _ _ _ E).
    - exfalso. revert E. fold psucc.
      apply (closure_fuel _ _ (eqb_pair_ok _ _ (eqb_opt_ok _ eqb_nat_ok) (eqb_opt_ok _ eqb_nat_ok)) _
               (list_prod (ostates A) (ostates B))).
      + intros [x y] p' Hx Hp'. apply in_prod_iff in Hx. destruct Hx as [Hx Hy].
        apply psucc_char in Hp'. destruct Hp' as [c [-> _]]. unfold pstep. cbn [fst snd].
        apply in_prod; [apply ostates_closed|apply ostates_closed]; assumption.
      + intros p [<-|[]]. apply in_prod; apply ostates_init; assumption.
      + rewrite prod_length. unfold cross_fuel, ostates. simpl. rewrite !map_length. lia.
  Qed.

  (* a target that forces every step of its access word to be taken is found iff some word reaches it *)
  Lemma find_state_spec (T : pst -> bool) :
    (forall w, T (prun pinit w) = true -> forall u c v, w = u ++ c :: v -> take (prun pinit (u ++ [c])) = true) ->
    exists b, find_state A B lrel rrel T = Ok b /\ (b = true <-> exists w, T (prun pinit w) = true).
  Proof.
    intro HT. destruct cross_states_ok as [ps [E Hps]]. unfold find_state. rewrite E. simpl.
    exists (existsb T ps). split; [reflexivity|]. rewrite existsb_exists. split.
    - intros [q [Hq Ht]]. apply Hps in Hq. destruct Hq as [w Hw]. exists w.
      rewrite <- (tpath_run _ _ _ Hw). exact Ht.
    - intros [w Hw]. exists (prun pinit w). split; [|exact Hw]. apply Hps. exists w.
      apply tpath_of_prefixes. apply HT. exact Hw.
  Qed.
End Cross.

Section Decisions.
  Variables A B : dfa.
  Hypothesis HA : valid_dfa A = true.
  Hypothesis HB : valid_dfa B = true.
  Hypothesis Hsyms : same_syms A B = true.

  Lemma accA w : dfa_acc A w = ofinal A (fst (prun A B (pinit A B) w)).
  Proof. reflexivity. Qed.
  Lemma accB w : dfa_acc B w = ofinal B (snd (prun A B (pinit A B) w)).
  Proof. reflexivity. Qed.

  Lemma final_prefix_some (m : dfa) x u c v :
    ofinal m (dfa_run m x (u ++ c :: v)) = true -> issome (dfa_run m x (u ++ [c])) = true.
  Proof.
    intro H. apply ofinal_some in H. destruct (dfa_run m x (u ++ c :: v)) as [q|] eqn:E; [|discriminate].
    replace (u ++ c :: v) with ((u ++ [c]) ++ v) in E by (rewrite <- app_assoc; reflexivity).
    apply run_some_prefix in E. destruct E as [q' ->]. reflexivity.
  Qed.

  Theorem issubset_spec :
    exists b, issubset_m A B = Ok b /\ (b = true <-> forall w, L_dfa A w -> L_dfa B w).
  Proof.
    unfold issubset_m, guard_syms. rewrite Hsyms.
    destruct (find_state_spec A B false true HA HB
                (fun p => ofinal A (fst p) && negb (ofinal B (snd p)))) as [b [E Hb]].
    - intros w Hw u c v ->. apply andb_true_iff in Hw. destruct Hw as [Hw _]. simpl in Hw.
      unfold take. simpl. rewrite (final_prefix_some A _ u c v Hw). reflexivity.
    - rewrite E. simpl. exists (negb b). split; [reflexivity|]. rewrite negb_true_iff. split.
      + intros Hf w Hw. unfold L_dfa in *. destruct (dfa_acc B w) eqn:EB; [reflexivity|].
        exfalso. assert (b = true); [|congruence]. apply Hb. exists w.
        rewrite <- accA, <- accB, Hw, EB. reflexivity.
      + intro H. destruct b; [|reflexivity]. exfalso. destruct Hb as [Hb _]. destruct (Hb eq_refl) as [w Hw].
        rewrite <- accA, <- accB in Hw. apply andb_true_iff in Hw. destruct Hw as [H1 H2].
        apply negb_true_iff in H2. specialize (H w H1). unfold L_dfa in H. congruence.
  Qed.

  Theorem isdisjoint_spec :
    exists b, isdisjoint_m A B = Ok b /\ (b = true <-> forall w, ~ (L_dfa A w /\ L_dfa B w)).
  Proof.
    unfold isdisjoint_m, guard_syms. rewrite Hsyms.
    destruct (find_state_spec A B false false HA HB
                (fun p => ofinal A (fst p) && ofinal B (snd p))) as [b [E Hb]].
    - intros w Hw u c v ->. apply andb_true_iff in Hw. destruct Hw as [H1 H2]. simpl in H1, H2.
      unfold take. simpl. rewrite (final_prefix_some A _ u c v H1), (final_prefix_some B _ u c v H2). reflexivity.
    - rewrite E. simpl. exists (negb b). split; [reflexivity|]. rewrite negb_true_iff. split.
      + intros Hf w [H1 H2]. unfold L_dfa in *. assert (b = true); [|congruence]. apply Hb. exists w.
        rewrite <- accA, <- accB, H1, H2. reflexivity.
      + intro H. destruct b; [|reflexivity]. exfalso. destruct Hb as [Hb _]. destruct (Hb eq_refl) as [w Hw].
        rewrite <- accA, <- accB in Hw. apply andb_true_iff in Hw. apply (H w). exact Hw.
  Qed.

  Theorem eq_spec : exists b, eq_m A B = Ok b /\ (b = true <-> L_dfa A =L L_dfa B).
  Proof.
    unfold eq_m, guard_syms. rewrite Hsyms.
    destruct (dfa_diff_spec A B HA HB) as [r [E [H1 _]]]. rewrite E. simpl.
    exists (isnone r). split; [reflexivity|]. rewrite <- H1. destruct r; simpl; split; congruence.
  Qed.

  Theorem ne_spec : exists b, ne_m A B = Ok b /\ (b = true <-> ~ (L_dfa A =L L_dfa B)).
  Proof.
    destruct eq_spec as [b [E H]]. unfold ne_m. rewrite E. simpl. exists (negb b). split; [reflexivity|].
    rewrite negb_true_iff. destruct b; split; intro H'; try discriminate; try reflexivity.
    - exfalso. apply H'. apply H. reflexivity.
    - intro H2. apply H in H2. discriminate.
  Qed.
End Decisions.

Lemma same_syms_sym A B : same_syms A B = same_syms B A.
Proof. unfold same_syms. apply andb_comm. Qed.

Section Strict.
  Variables A B : dfa.
  Hypothesis HA : valid_dfa A = true.
  Hypothesis HB : valid_dfa B = true.
  Hypothesis Hsyms : same_syms A B = true.

  Theorem issuperset_spec :
    exists b, issuperset_m A B = Ok b /\ (b = true <-> forall w, L_dfa B w -> L_dfa A w).
  Proof. unfold issuperset_m. apply issubset_spec; [assumption|assumption|rewrite same_syms_sym; assumption]. Qed.

  Theorem lt_spec :
    exists b, lt_m A B = Ok b /\
      (b = true <-> (forall w, L_dfa A w -> L_dfa B w) /\ ~ (L_dfa A =L L_dfa B)).
  Proof.
    unfold lt_m, le_m. destruct (issubset_spec A B HA HB Hsyms) as [b1 [E1 H1]]. rewrite E1. simpl.
    destruct b1.
    - destruct (ne_spec A B HA HB Hsyms) as [b2 [E2 H2]]. exists b2. split; [exact E2|].
      rewrite H2. split; [intro H; split; [apply H1; reflexivity|exact H]|tauto].
    - exists false. split; [reflexivity|]. split; [discriminate|]. intros [H _]. apply H1 in H. discriminate.
  Qed.

  Theorem gt_spec :
    exists b, gt_m A B = Ok b /\
      (b = true <-> (forall w, L_dfa B w -> L_dfa A w) /\ ~ (L_dfa A =L L_dfa B)).
  Proof.
    unfold gt_m, ge_m. destruct issuperset_spec as [b1 [E1 H1]]. rewrite E1. simpl.
    destruct b1.
    - destruct (ne_spec A B HA HB Hsyms) as [b2 [E2 H2]]. exists b2. split; [exact E2|].
      rewrite H2. split; [intro H; split; [apply H1; reflexivity|exact H]|tauto].
    - exists false. split; [reflexivity|]. split; [discriminate|]. intros [H _]. apply H1 in H. discriminate.
  Qed.
End Strict.

(* isempty *)
Section Empty.
  Variable m : dfa.
  Hypothesis Hv : valid_dfa m = true.

  Lemma row_succ q q' : In q' (map snd (prow m (Some q))) <-> exists c, d_delta m q c = Some q'.
  Proof.
    simpl. unfold d_delta. destruct (d_row m q) as [row|] eqn:E.
    - rewrite in_map_iff. split.
      + intros [[c t] [<- H]]. exists c. simpl.
        apply assoc_NoDup; [|exact H].
        pose proof (row_props m Hv _ _ E) as Hr. unfold row_ok in Hr. repeat rewrite andb_true_iff in Hr.
        destruct Hr as [[Hr _] _]. apply nodupb_NoDup. exact Hr.
      + intros [c H]. exists (c, q'). split; [reflexivity|apply assoc_In; exact H].
    - simpl. split; [intros []|intros [c H]; discriminate].
  Qed.

  Lemma reach_run q : reach (fun q => map snd (prow m (Some q))) [d_init m] q <->
                      exists w, dfa_run m (Some (d_init m)) w = Some q.
  Proof.
    split.
    - intro H. induction H as [x Hx|x y Hr [w IH] Hy].
      + destruct Hx as [<-|[]]. exists []. reflexivity.
      + apply row_succ in Hy. destruct Hy as [c Hc]. exists (w ++ [c]).
        rewrite dfa_run_app, IH. simpl. exact Hc.
    - intros [w H]. revert q H. induction w as [|c w IH] using rev_ind; intros q H.
      + simpl in H. inversion H. apply reach_init. left. reflexivity.
      + rewrite dfa_run_app in H. destruct (dfa_run m (Some (d_init m)) w) as [q0|] eqn:E; [|discriminate].
        simpl in H. eapply reach_step; [apply IH; reflexivity|]. apply row_succ. exists c. exact H.
  Qed.

  Theorem isempty_spec : exists b, isempty_m m = Ok b /\ (b = true <-> forall w, ~ L_dfa m w).
  Proof.
    unfold isempty_m, reach_states.
    destruct (closure Nat.eqb _ (S (length (d_states m))) [d_init m]) as [qs|] eqn:E; simpl.
    - exists (negb (existsb (fun q => memb q (d_finals m)) qs)). split; [reflexivity|].
      rewrite negb_true_iff. split.
      + intros Hf w Hw. unfold L_dfa, dfa_acc, dfa_acc_from in Hw.
        destruct (dfa_run m (Some (d_init m)) w) as [q|] eqn:Er; [|discriminate]. simpl in Hw.
        assert (existsb (fun q => memb q (d_finals m)) qs = true); [|congruence].
        apply existsb_exists. exists q. split; [|exact Hw].
        apply (closure_complete _ _ eqb_nat_ok _ _ _ _ E). apply reach_run. exists w. exact Er.
      + intro H. destruct (existsb _ qs) eqn:Ex; [|reflexivity]. exfalso.
        apply existsb_exists in Ex. destruct Ex as [q [Hq Hf]].
        apply (closure_sound _ _ eqb_nat_ok _ _ _ _ E) in Hq. apply reach_run in Hq. destruct Hq as [w Hw].
        apply (H w). unfold L_dfa, dfa_acc, dfa_acc_from. rewrite Hw. exact Hf.
    - exfalso. revert E. apply (closure_fuel _ _ eqb_nat_ok _ (d_states m)).
      + intros x y _ Hy. apply row_succ in Hy. destruct Hy as [c Hc].
        apply (delta_in_states m Hv) in Hc. tauto.
      + intros x [<-|[]]. destruct (valid_dfa_parts m Hv) as (_ & _ & _ & _ & _ & H & _). exact H.
      + lia.
  Qed.
End Empty.
