(* C13, uniformity of random_word: counting whole draw vectors.
   Along the run of an accepted word w = a_1..a_k (states q_0..q_k) the code draws d_i from
   [0, cnt (k-i+1) q_(i-1)).  The vectors of that box that make rw_go return w are exactly the
   vectors of the product of the selecting intervals [off_i, off_i + cnt (k-i) q_i)  (pick_interval),
   so there are path_num of them (rw_vectors); with the telescoping identity (path_telescope)
   path_num * cnt k q_0 = |box|: every accepted word of length k has probability 1 / cnt k q_0. *)
From Coq Require Import List Arith NArith Bool Lia.
From AV Require Import Base.Util Spec.Lang Spec.FA Spec.Words Model.Count Proofs.FARun Proofs.Count.
Import ListNotations.

(* ---------- intervals of N and products of lists ---------- *)
Definition Nrange (off len : N) : list N := map (fun j => (off + N.of_nat j)%N) (seq 0 (N.to_nat len)).

Lemma Nrange_In off len c : In c (Nrange off len) <-> (off <= c < off + len)%N.
Proof.
  unfold Nrange. rewrite in_map_iff. split.
  - intros [j [<- Hj]]. apply in_seq in Hj. lia.
  - intro H. exists (N.to_nat (c - off)). split; [lia|]. apply in_seq. lia.
Qed.

Lemma Nrange_NoDup off len : NoDup (Nrange off len).
Proof.
  unfold Nrange. apply FinFun.Injective_map_NoDup; [|apply seq_NoDup].
  intros x y H. lia.
Qed.

Lemma Nrange_length off len : N.of_nat (length (Nrange off len)) = len.
Proof. unfold Nrange. rewrite map_length, seq_length. apply N2Nat.id. Qed.

Section Prod.
  Context {A : Type}.
  Definition cons_all (I : list A) (vs : list (list A)) : list (list A) :=
    flat_map (fun c => map (cons c) vs) I.

  Lemma cons_all_In I vs ds : In ds (cons_all I vs) <-> exists c ds', ds = c :: ds' /\ In c I /\ In ds' vs.
  Proof.
    unfold cons_all. rewrite in_flat_map. split.
    - intros [c [Hc H]]. apply in_map_iff in H. destruct H as [ds' [<- Hd]]. exists c, ds'. tauto.
    - intros [c [ds' [-> [Hc Hd]]]]. exists c. split; [exact Hc|]. apply in_map. exact Hd.
  Qed.

  Lemma cons_all_length I vs : length (cons_all I vs) = length I * length vs.
  Proof.
    unfold cons_all. induction I as [|c I IH]; simpl; [reflexivity|].
    rewrite app_length, map_length, IH. reflexivity.
  Qed.

  Lemma NoDup_app_disj (l l' : list (list A)) :
    NoDup l -> NoDup l' -> (forall y, In y l -> ~ In y l') -> NoDup (l ++ l').
  Proof.
    intros Hl Hm Hd. induction Hl as [|a l Ha Hl IH]; simpl; [exact Hm|]. constructor.
    - intro H. apply in_app_or in H. destruct H as [H|H]; [contradiction|].
      apply (Hd a); [left; reflexivity|exact H].
    - apply IH. intros y Hy. apply Hd. right. exact Hy.
  Qed.

  Lemma cons_all_NoDup I vs : NoDup I -> NoDup vs -> NoDup (cons_all I vs).
  Proof.
    intros HI Hvs. unfold cons_all. induction HI as [|c I Hc HI IH]; simpl; [constructor|].
    apply NoDup_app_disj.
    - apply FinFun.Injective_map_NoDup; [|exact Hvs]. intros x y H. inversion H. reflexivity.
    - exact IH.
    - intros ds H1 H2. apply in_map_iff in H1. destruct H1 as [ds' [<- _]].
      apply in_flat_map in H2. destruct H2 as [c' [Hc' H2]]. apply in_map_iff in H2.
      destruct H2 as [ds'' [E _]]. inversion E; subst. contradiction.
  Qed.
End Prod.

Section Uniform2.
  Variable m : dfa.
  Hypothesis Hv : valid_dfa m = true.

  Lemma delta_row_entry q a t : d_delta m q a = Some t -> In (a, t) (row_of m q).
  Proof.
    intro E. assert (Ha : In a (map fst (row_of m q))) by (apply (row_key_delta m); exists t; exact E).
    apply in_map_iff in Ha. destruct Ha as [[a' t'] [Ea Hin]]. simpl in Ea. subst a'.
    pose proof (row_entry_delta m Hv q a t' Hin) as E'. rewrite E in E'. inversion E'; subst. exact Hin.
  Qed.

  Lemma Forall2_nil_r {A B} (R : A -> B -> Prop) l : Forall2 R l [] <-> l = [].
  Proof. split; [intro H; inversion H; reflexivity|intros ->; constructor]. Qed.

  (* the draw vectors of the box along w that produce w: a duplicate-free list of path_num vectors *)
  Lemma rw_vectors rem : forall q w, length w = rem -> dfa_acc_from m (Some q) w = true ->
    exists vs, NoDup vs /\
      (forall ds, In ds vs <-> Forall2 N.lt ds (path_bounds m rem q w) /\ rw_go m rem q ds = Ok w) /\
      N.of_nat (length vs) = path_num m rem q w.
  Proof.
    induction rem as [|r IH]; intros q w Hl Ha.
    - destruct w; [|discriminate]. exists [[]]. split; [constructor; [intros []|constructor]|].
      split; [|reflexivity]. intro ds. simpl.
      unfold dfa_acc_from in Ha. simpl in Ha. unfold is_final. rewrite Ha. rewrite Forall2_nil_r.
      split; [intros [<-|[]]; split; reflexivity|intros [-> _]; left; reflexivity].
    - destruct w as [|a w']; [discriminate|]. simpl in Hl. rewrite (acc_from_cons m) in Ha.
      simpl path_bounds. simpl path_num.
      destruct (d_delta m q a) as [t|] eqn:E; [|rewrite (acc_from_None m) in Ha; discriminate].
      destruct (IH t w' ltac:(lia) Ha) as [vs' [Hnd' [Hin' Hlen']]].
      pose proof (delta_row_entry q a t E) as Hrow.
      destruct (pick_interval m r (row_of m q) (row_keys_NoDup m Hv q) a t Hrow) as [off [Hle Hpick]].
      exists (cons_all (Nrange off (cnt m r t)) vs'). split; [|split].
      + apply cons_all_NoDup; [apply Nrange_NoDup|exact Hnd'].
      + intro ds. rewrite cons_all_In. split.
        * intros [c [ds' [-> [Hc Hd]]]]. apply Nrange_In in Hc. apply Hin' in Hd. destruct Hd as [Hb Hgo].
          split.
          -- constructor; [|exact Hb]. unfold row_total in Hle. lia.
          -- simpl. apply Hpick in Hc. rewrite Hc, Hgo. reflexivity.
        * intros [Hb Hgo]. inversion Hb as [|c bd ds' bds Hc Hb' E1 E2]; subst. exists c, ds'.
          split; [reflexivity|]. simpl in Hgo.
          destruct (pick_some m r (row_of m q) c Hc) as [a' [t' [Ep [Hin _]]]]. rewrite Ep in Hgo.
          destruct (rw_go m r t' ds') as [w''|e] eqn:Ego; simpl in Hgo; [|discriminate].
          inversion Hgo; subst a' w''.
          pose proof (row_entry_delta m Hv q a t' Hin) as E'. rewrite E in E'. inversion E'; subst t'.
          split; [apply Nrange_In; apply Hpick; exact Ep|]. apply Hin'. split; assumption.
      + rewrite cons_all_length, Nat2N.inj_mul, Nrange_length, Hlen'. reflexivity.
  Qed.

  (* random_word is uniform *)
  Theorem random_word_uniform k w : length w = k -> dfa_acc m w = true ->
    exists vs, NoDup vs /\
      (forall ds, In ds vs <-> Forall2 N.lt ds (path_bounds m k (d_init m) w) /\ random_word m k ds = Ok w) /\
      N.of_nat (length vs) = path_num m k (d_init m) w /\
      (N.of_nat (length vs) * cnt m k (d_init m) = Nprod (path_bounds m k (d_init m) w))%N /\
      Nprod (path_bounds m k (d_init m) w) <> 0%N.
  Proof.
    intros Hl Ha. destruct (rw_vectors k (d_init m) w Hl Ha) as [vs [Hnd [Hin Hlen]]].
    destruct (path_telescope m Hv k (d_init m) w Hl Ha) as [Ht Hnz].
    rewrite (path_den_bounds m k (d_init m) w Hl Ha) in Ht, Hnz.
    assert (Hc : N.eqb (cnt m k (d_init m)) 0 = false).
    { apply N.eqb_neq. intro Hz. apply (cnt_zero_iff m Hv k (d_init m)) with (w := w) in Hz; [|exact Hl].
      unfold dfa_acc in Ha. congruence. }
    exists vs. split; [exact Hnd|]. split; [|split; [exact Hlen|split; [rewrite Hlen; exact Ht|exact Hnz]]].
    intro ds. unfold random_word. rewrite Hc. apply Hin.
  Qed.
End Uniform2.
