(* Lemmas for C05, abstract half: Moore-style signature refinement on a deterministic
   system reaches the coarsest finality-respecting congruence (Nerode equivalence on the
   state list), and the fuel |Q|+1 suffices. *)
From Coq Require Import List Arith Bool Lia.
From AV Require Import Base.Util Spec.Lang Model.Minimize.
Import ListNotations.

(* ---------- generic helpers: gmem / dedup / idx ---------- *)
Section GenLemmas.
  Context {A : Type}.
  Variable e : A -> A -> bool.
  Hypothesis e_ok : eqb_ok e.

  Lemma gmem_In x l : gmem e x l = true <-> In x l.
  Proof.
    unfold gmem. rewrite existsb_exists. split.
    - intros [y [Hy E]]. apply e_ok in E. subst. exact Hy.
    - intro H. exists x. split; [exact H|apply e_ok; reflexivity].
  Qed.

  Lemma dedup_In x l : In x (dedup e l) <-> In x l.
  Proof.
    induction l as [|y l IH]; simpl; [tauto|].
    destruct (gmem e y (dedup e l)) eqn:E.
    - apply gmem_In in E. rewrite IH. split; [auto|]. intros [H|H]; [subst; apply IH; exact E|exact H].
    - simpl. rewrite IH. tauto.
  Qed.

  Lemma dedup_NoDup l : NoDup (dedup e l).
  Proof.
    induction l as [|y l IH]; simpl; [constructor|].
    destruct (gmem e y (dedup e l)) eqn:E; [exact IH|].
    constructor; [|exact IH]. intro H. apply gmem_In in H. congruence.
  Qed.

  Lemma dedup_length l : length (dedup e l) <= length l.
  Proof.
    induction l as [|y l IH]; simpl; [lia|].
    destruct (gmem e y (dedup e l)); simpl; lia.
  Qed.

  Lemma idx_inj x y l : In x l -> idx e x l = idx e y l -> x = y.
  Proof.
    induction l as [|z l IH]; simpl; [tauto|].
    intros Hx. destruct (e x z) eqn:E1; destruct (e y z) eqn:E2; intro H; try discriminate.
    - apply e_ok in E1. apply e_ok in E2. congruence.
    - destruct Hx as [Hx|Hx].
      + subst. rewrite (eqb_ok_refl _ e_ok) in E1. discriminate.
      + apply IH; [exact Hx|]. lia.
  Qed.
End GenLemmas.

(* map f l <> map g l gives a position where they differ (nat-valued, constructive) *)
Lemma map_neq_ex {B} (f g : B -> nat) l : map f l <> map g l -> exists a, In a l /\ f a <> g a.
Proof.
  induction l as [|b l IH]; simpl; intro H; [contradiction H; reflexivity|].
  destruct (Nat.eq_dec (f b) (g b)) as [E|N].
  - destruct IH as [a [Ha Hn]].
    + intro E2. apply H. rewrite E, E2. reflexivity.
    + exists a. split; [right; exact Ha|exact Hn].
  - exists b. split; [left; reflexivity|exact N].
Qed.

(* ---------- counting classes: a refinement with no more classes is the same partition ---------- *)
Section Count.
  Variable X : Type.
  Variable Q : list X.
  Variables f g : X -> nat.
  Hypothesis refines : forall x y, In x Q -> In y Q -> g x = g y -> f x = f y.

  Notation F := (dedup Nat.eqb (map f Q)).
  Notation G := (dedup Nat.eqb (map g Q)).

  Definition pick (v : nat) : option X := find (fun x => Nat.eqb (f x) v) Q.
  Definition hmap (v : nat) : nat := match pick v with Some x => g x | None => 0 end.

  Lemma pick_spec v : In v F -> exists x, pick v = Some x /\ In x Q /\ f x = v.
  Proof.
    intro Hv. apply (proj1 (dedup_In _ eqb_nat_ok _ _)) in Hv. apply in_map_iff in Hv. destruct Hv as [x0 [E0 H0]].
    unfold pick. destruct (find (fun x => Nat.eqb (f x) v) Q) as [x|] eqn:E.
    - apply find_some in E. destruct E as [E1 E2]. apply Nat.eqb_eq in E2. eauto.
    - exfalso. pose proof (find_none _ _ E x0 H0) as Hn. simpl in Hn. apply Nat.eqb_neq in Hn. contradiction.
  Qed.

  Lemma hmap_inj v v' : In v F -> In v' F -> hmap v = hmap v' -> v = v'.
  Proof.
    intros Hv Hv' E. destruct (pick_spec v Hv) as [x [P [Hx Fx]]]. destruct (pick_spec v' Hv') as [x' [P' [Hx' Fx']]].
    unfold hmap in E. rewrite P, P' in E. rewrite <- Fx, <- Fx'. apply refines; assumption.
  Qed.

  Lemma hmap_in_G v : In v F -> In (hmap v) G.
  Proof.
    intro Hv. destruct (pick_spec v Hv) as [x [P [Hx Fx]]]. unfold hmap. rewrite P.
    apply (dedup_In _ eqb_nat_ok). apply in_map. exact Hx.
  Qed.

  Lemma NoDup_map_inj_on (l : list nat) (h : nat -> nat) :
    NoDup l -> (forall a b, In a l -> In b l -> h a = h b -> a = b) -> NoDup (map h l).
  Proof.
    induction l as [|a l IH]; intros Hn Hinj; simpl; [constructor|].
    inversion Hn; subst. constructor.
    - intro H. apply in_map_iff in H. destruct H as [b [Hb Hin]].
      assert (b = a) by (apply Hinj; [right; exact Hin|left; reflexivity|exact Hb]). subst. contradiction.
    - apply IH; [assumption|]. intros a' b' Ha' Hb'. apply Hinj; right; assumption.
  Qed.

  Lemma hmap_NoDup : NoDup (map hmap F).
  Proof.
    apply NoDup_map_inj_on; [apply dedup_NoDup; exact eqb_nat_ok|]. intros a b Ha Hb. apply hmap_inj; assumption.
  Qed.

  Lemma count_mono : length F <= length G.
  Proof.
    rewrite <- (map_length hmap F). apply NoDup_incl_length; [exact hmap_NoDup|].
    intros y Hy. apply in_map_iff in Hy. destruct Hy as [v [<- Hv]]. apply hmap_in_G. exact Hv.
  Qed.

  Lemma count_same : length G <= length F ->
    forall x y, In x Q -> In y Q -> f x = f y -> g x = g y.
  Proof.
    intros Hle x y Hx Hy Hf.
    destruct (Nat.eq_dec (g x) (g y)) as [E|N]; [exact E|exfalso].
    assert (Hv : In (f x) F) by (apply (dedup_In _ eqb_nat_ok); apply in_map; exact Hx).
    destruct (pick_spec _ Hv) as [z [P [Hz Fz]]].
    (* one of x, y has a g-value different from the representative's *)
    assert (Hu : exists u, In u Q /\ f u = f x /\ g u <> g z).
    { destruct (Nat.eq_dec (g x) (g z)) as [E1|N1].
      - exists y. split; [exact Hy|]. split; [symmetry; exact Hf|]. congruence.
      - exists x. split; [exact Hx|]. split; [reflexivity|exact N1]. }
    destruct Hu as [u [Hu [Fu Gu]]].
    assert (Hnot : ~ In (g u) (map hmap F)).
    { intro H. apply in_map_iff in H. destruct H as [v' [E' Hv']].
      destruct (pick_spec _ Hv') as [z' [P' [Hz' Fz']]].
      assert (Hveq : v' = f x).
      { unfold hmap in E'. rewrite P' in E'. rewrite <- Fz', <- Fu. apply refines; assumption. }
      rewrite Hveq in P', E'. rewrite P in P'. inversion P'; subst z'. unfold hmap in E'. rewrite P in E'. congruence. }
    assert (Hnd : NoDup (g u :: map hmap F)) by (constructor; [exact Hnot|exact hmap_NoDup]).
    assert (Hinc : incl (g u :: map hmap F) G).
    { intros y' [<-|Hy'].
      - apply (dedup_In _ eqb_nat_ok). apply in_map. exact Hu.
      - apply in_map_iff in Hy'. destruct Hy' as [v [<- Hv2]]. apply hmap_in_G. exact Hv2. }
    pose proof (NoDup_incl_length Hnd Hinc) as Hl. simpl in Hl. rewrite map_length in Hl. lia.
  Qed.
End Count.

(* ---------- the refinement ---------- *)
Section MooreProofs.
  Variable X : Type.
  Variable eqbX : X -> X -> bool.
  Hypothesis eqbX_ok : eqb_ok eqbX.
  Variable step : X -> nat -> X.
  Variable fin : X -> bool.
  Variable syms : list nat.
  Variable Q : list X.
  Hypothesis Q_closed : forall x a, In x Q -> In (step x a) Q.
  (* a symbol outside the alphabet leads every state to the same place (the trap) *)
  Hypothesis foreign : forall x y a, ~ In a syms -> step x a = step y a.

  Notation look := (look eqbX).
  Notation round := (round eqbX step syms Q).
  Notation tab := (tab Q).
  Notation sig := (sig step syms).

  Fixpoint xrun (x : X) (w : word) : X :=
    match w with [] => x | a :: r => xrun (step x a) r end.

  Lemma xrun_app u : forall x v, xrun x (u ++ v) = xrun (xrun x u) v.
  Proof. induction u as [|a u IH]; intros x v; simpl; [reflexivity|apply IH]. Qed.

  Lemma xrun_in_Q w : forall x, In x Q -> In (xrun x w) Q.
  Proof. induction w as [|a w IH]; intros x Hx; simpl; [exact Hx|]. apply IH. apply Q_closed. exact Hx. Qed.

  Lemma look_map g l x : In x l -> look (map (fun y => (y, g y)) l) x = g x.
  Proof.
    induction l as [|y l IH]; simpl; [tauto|]. intro H.
    destruct (eqbX x y) eqn:E.
    - apply eqbX_ok in E. subst. reflexivity.
    - destruct H as [H|H]; [subst; rewrite (eqb_ok_refl _ eqbX_ok) in E; discriminate|]. apply IH. exact H.
  Qed.

  Lemma look_tab g x : In x Q -> look (tab g) x = g x.
  Proof. apply look_map. Qed.

  Lemma map_snd_tab g : map snd (tab g) = map g Q.
  Proof. unfold Minimize.tab. rewrite map_map. reflexivity. Qed.

  Lemma ncls_tab g : ncls (tab g) = length (dedup Nat.eqb (map g Q)).
  Proof. unfold ncls. rewrite map_snd_tab. reflexivity. Qed.

  Definition is_tab (t : table X) : Prop := exists g, t = tab g.

  Lemma ncls_look t : is_tab t -> ncls t = length (dedup Nat.eqb (map (look t) Q)).
  Proof.
    intros [g ->]. rewrite ncls_tab. f_equal. f_equal. apply map_ext_in. intros x Hx.
    symmetry. apply look_tab. exact Hx.
  Qed.

  Lemma round_is_tab t : is_tab (round t).
  Proof. unfold Minimize.round. eexists. reflexivity. Qed.

  Lemma sig_eq_iff c x y :
    sig c x = sig c y <-> c x = c y /\ forall a, In a syms -> c (step x a) = c (step y a).
  Proof.
    unfold Minimize.sig. split.
    - intro H. inversion H as [[H1 H2]]. split; [reflexivity|].
      intros a Ha. exact (proj1 map_ext_in_iff H2 a Ha).
    - intros [H1 H2]. f_equal; [exact H1|]. apply map_ext_in. exact H2.
  Qed.

  (* one round: same new class iff same signature *)
  Lemma round_eq t x y : In x Q -> In y Q ->
    (look (round t) x = look (round t) y <-> sig (look t) x = sig (look t) y).
  Proof.
    intros Hx Hy. unfold Minimize.round. rewrite !look_tab by assumption. split.
    - intro H. apply (idx_inj _ (eqb_list_ok _ eqb_nat_ok)) in H; [exact H|].
      apply (dedup_In _ (eqb_list_ok _ eqb_nat_ok)). apply in_map. exact Hx.
    - intro H. unfold leqb. rewrite H. reflexivity.
  Qed.

  Fixpoint iterT (k : nat) : table X :=
    match k with 0 => tab0 fin Q | S k' => round (iterT k') end.

  Lemma iterT_is_tab k : is_tab (iterT k).
  Proof. destruct k; simpl; [eexists; reflexivity|apply round_is_tab]. Qed.

  Lemma look_tab0 x : In x Q -> look (tab0 fin Q) x = if fin x then 1 else 0.
  Proof. intro H. unfold tab0. apply look_tab. exact H. Qed.

  (* cls_k_spec, first half: same class after k rounds -> agree on all words of length <= k *)
  Lemma cls_agree k : forall x y, In x Q -> In y Q -> look (iterT k) x = look (iterT k) y ->
    forall w, length w <= k -> fin (xrun x w) = fin (xrun y w).
  Proof.
    induction k as [|k IH]; intros x y Hx Hy Hc w Hw.
    - destruct w; [|simpl in Hw; lia]. simpl in *. rewrite !look_tab0 in Hc by assumption.
      destruct (fin x), (fin y); try reflexivity; discriminate.
    - simpl in Hc. apply round_eq in Hc; [|assumption|assumption]. apply sig_eq_iff in Hc.
      destruct Hc as [H1 H2]. destruct w as [|a w]; simpl.
      + apply (IH x y Hx Hy H1 []). simpl. lia.
      + destruct (in_dec Nat.eq_dec a syms) as [Ha|Ha].
        * apply IH; [apply Q_closed; exact Hx|apply Q_closed; exact Hy|apply H2; exact Ha|simpl in Hw; lia].
        * rewrite (foreign x y a Ha). reflexivity.
  Qed.

  (* second half, constructive: different classes -> an explicit distinguishing word *)
  Lemma cls_dist k : forall x y, In x Q -> In y Q -> look (iterT k) x <> look (iterT k) y ->
    exists w, length w <= k /\ Forall (fun a => In a syms) w /\ fin (xrun x w) <> fin (xrun y w).
  Proof.
    induction k as [|k IH]; intros x y Hx Hy Hc.
    - exists []. split; [simpl; lia|]. split; [constructor|]. simpl. simpl in Hc.
      rewrite !look_tab0 in Hc by assumption. destruct (fin x), (fin y); congruence.
    - simpl in Hc.
      assert (Hs : sig (look (iterT k)) x <> sig (look (iterT k)) y).
      { intro E. apply Hc. apply round_eq; assumption. }
      destruct (Nat.eq_dec (look (iterT k) x) (look (iterT k) y)) as [E|N].
      + assert (Hm : map (fun a => look (iterT k) (step x a)) syms <> map (fun a => look (iterT k) (step y a)) syms).
        { intro E2. apply Hs. unfold Minimize.sig. rewrite E, E2. reflexivity. }
        apply map_neq_ex in Hm. destruct Hm as [a [Ha Hn]].
        destruct (IH _ _ (Q_closed x a Hx) (Q_closed y a Hy) Hn) as [w [Hl [Hf Hd]]].
        exists (a :: w). split; [simpl; lia|]. split; [constructor; assumption|exact Hd].
      + destruct (IH x y Hx Hy N) as [w [Hl [Hf Hd]]]. exists w. split; [lia|]. split; assumption.
  Qed.

  Theorem cls_k_spec k x y : In x Q -> In y Q ->
    (look (iterT k) x = look (iterT k) y <->
     forall w, length w <= k -> fin (xrun x w) = fin (xrun y w)).
  Proof.
    intros Hx Hy. split; [apply cls_agree; assumption|].
    intro H. destruct (Nat.eq_dec (look (iterT k) x) (look (iterT k) y)) as [E|N]; [exact E|exfalso].
    destruct (cls_dist k x y Hx Hy N) as [w [Hl [_ Hd]]]. apply Hd. apply H. exact Hl.
  Qed.

  (* a round never merges: the new partition refines the old one *)
  Lemma round_refines t x y : In x Q -> In y Q ->
    look (round t) x = look (round t) y -> look t x = look t y.
  Proof. intros Hx Hy H. apply round_eq in H; [|assumption|assumption]. apply sig_eq_iff in H. tauto. Qed.

  Definition stable (t : table X) : Prop := ncls (round t) = ncls t.

  Lemma stable_no_split t : is_tab t -> stable t ->
    forall x y, In x Q -> In y Q -> look t x = look t y -> look (round t) x = look (round t) y.
  Proof.
    intros Ht Hs. apply (count_same X Q (look t) (look (round t))).
    - intros x y Hx Hy. apply round_refines; assumption.
    - rewrite <- (ncls_look _ Ht), <- (ncls_look _ (round_is_tab t)). unfold stable in Hs. lia.
  Qed.

  Lemma stable_congruence t : is_tab t -> stable t ->
    forall x y a, In x Q -> In y Q -> look t x = look t y -> look t (step x a) = look t (step y a).
  Proof.
    intros Ht Hs x y a Hx Hy Hc.
    destruct (in_dec Nat.eq_dec a syms) as [Ha|Ha]; [|rewrite (foreign x y a Ha); reflexivity].
    pose proof (stable_no_split t Ht Hs x y Hx Hy Hc) as H.
    apply round_eq in H; [|assumption|assumption]. apply sig_eq_iff in H. apply H. exact Ha.
  Qed.

  (* a stable table is exactly Nerode equivalence on Q *)
  Theorem stable_is_nerode k : stable (iterT k) ->
    forall x y, In x Q -> In y Q ->
      (look (iterT k) x = look (iterT k) y <-> forall w, fin (xrun x w) = fin (xrun y w)).
  Proof.
    intros Hs x y Hx Hy. split.
    - intros Hc w. revert x y Hx Hy Hc. induction w as [|a w IH]; intros x y Hx Hy Hc; simpl.
      + apply (cls_agree k x y Hx Hy Hc []). simpl. lia.
      + apply IH; [apply Q_closed; exact Hx|apply Q_closed; exact Hy|].
        apply (stable_congruence _ (iterT_is_tab k) Hs); assumption.
    - intro H. apply cls_k_spec; [assumption|assumption|]. intros w _. apply H.
  Qed.

  Theorem stable_dist k x y : In x Q -> In y Q -> look (iterT k) x <> look (iterT k) y ->
    exists w, Forall (fun a => In a syms) w /\ fin (xrun x w) <> fin (xrun y w).
  Proof. intros Hx Hy H. destruct (cls_dist k x y Hx Hy H) as [w [_ Hw]]. exists w. exact Hw. Qed.

  (* ---- the fuelled loop ---- *)
  Notation refine := (refine eqbX step syms Q).

  Lemma refine_spec fuel : forall t t', refine fuel t = Some t' ->
    (exists k, t = iterT k) -> exists k', t' = iterT k' /\ stable t'.
  Proof.
    induction fuel as [|f IH]; intros t t' H [k Hk]; simpl in H; [discriminate|].
    destruct (Nat.eqb (ncls (round t)) (ncls t)) eqn:E.
    - inversion H; subst t'. exists k. split; [exact Hk|]. apply Nat.eqb_eq in E. exact E.
    - apply (IH _ _ H). exists (S k). subst t. reflexivity.
  Qed.

  Lemma ncls_le t : is_tab t -> ncls t <= length Q.
  Proof.
    intros [g ->]. rewrite ncls_tab. etransitivity; [apply dedup_length|]. rewrite map_length. lia.
  Qed.

  Lemma ncls_round_ge t : is_tab t -> ncls t <= ncls (round t).
  Proof.
    intro Ht. rewrite (ncls_look _ Ht), (ncls_look _ (round_is_tab t)).
    apply (count_mono X Q (look t) (look (round t))). intros x y Hx Hy. apply round_refines; assumption.
  Qed.

  (* refine_fuel: every splitting round adds a class and there are at most |Q| classes *)
  Lemma refine_fuel_gen fuel : forall t, is_tab t -> length Q < fuel + ncls t -> refine fuel t <> None.
  Proof.
    induction fuel as [|f IH]; intros t Ht Hl.
    - pose proof (ncls_le t Ht). simpl in Hl. lia.
    - simpl. destruct (Nat.eqb (ncls (round t)) (ncls t)) eqn:E; [discriminate|].
      apply Nat.eqb_neq in E. apply IH; [apply round_is_tab|].
      pose proof (ncls_round_ge t Ht). lia.
  Qed.

  Theorem moore_ok : exists t k, moore eqbX step fin syms Q = Some t /\ t = iterT k /\ stable t.
  Proof.
    unfold moore. destruct (refine (S (length Q)) (tab0 fin Q)) as [t|] eqn:E.
    - destruct (refine_spec _ _ _ E) as [k [Hk Hs]]; [exists 0; reflexivity|].
      exists t, k. split; [reflexivity|]. split; assumption.
    - exfalso. revert E. apply refine_fuel_gen; [apply (iterT_is_tab 0)|]. lia.
  Qed.

  (* packaged: the loop returns a table that is exactly Nerode equivalence on Q *)
  Theorem moore_nerode : exists t, moore eqbX step fin syms Q = Some t /\
    (forall x y, In x Q -> In y Q ->
       (look t x = look t y <-> forall w, fin (xrun x w) = fin (xrun y w))) /\
    (forall x y, In x Q -> In y Q -> look t x <> look t y ->
       exists w, Forall (fun a => In a syms) w /\ fin (xrun x w) <> fin (xrun y w)).
  Proof.
    destruct moore_ok as [t [k [E [Hk Hs]]]]. exists t. split; [exact E|]. subst t. split.
    - intros x y Hx Hy. apply stable_is_nerode; assumption.
    - intros x y Hx Hy. apply stable_dist; assumption.
  Qed.
End MooreProofs.
