(* Lemmas for C05: the construction of the result as coded in DFA._minify (Model/Hopcroft.v,
   Section Coded: names = positions in get_sets(), representative = any member, rows filtered
   through back_map) yields an automaton isomorphic to the specification model's quotient. *)
From Coq Require Import List Arith Bool Lia.
From AV Require Import Base.Util Spec.Lang Spec.FA Spec.Minimal Model.FARun Model.Decide Model.Minimize
                       Model.Hopcroft Proofs.FARun Proofs.Moore Proofs.Minimize Proofs.Hopcroft.
Import ListNotations.

(* ---------- isomorphic DFA records ---------- *)
Section Iso.
  Variables A B : dfa.
  Variable f : nat -> nat.
  Hypothesis NA : NoDup (d_states A).
  Hypothesis NB : NoDup (d_states B).
  Hypothesis H_syms : d_syms A = d_syms B.
  Hypothesis H_st : forall q, In q (d_states A) -> In (f q) (d_states B).
  Hypothesis H_inj : forall q q', In q (d_states A) -> In q' (d_states A) -> f q = f q' -> q = q'.
  Hypothesis H_sur : forall r, In r (d_states B) -> exists q, In q (d_states A) /\ f q = r.
  Hypothesis H_init : In (d_init A) (d_states A) /\ f (d_init A) = d_init B.
  Hypothesis H_fin : forall q, In q (d_states A) -> memb q (d_finals A) = memb (f q) (d_finals B).
  Hypothesis H_delta : forall q a, In q (d_states A) ->
    match d_delta A q a with
    | Some t => In t (d_states A) /\ d_delta B (f q) a = Some (f t)
    | None => d_delta B (f q) a = None
    end.

  Lemma iso_run w : forall q, In q (d_states A) ->
    dfa_run B (Some (f q)) w = option_map f (dfa_run A (Some q) w) /\
    (forall t, dfa_run A (Some q) w = Some t -> In t (d_states A)).
  Proof.
    induction w as [|a w IH]; intros q Hq; simpl.
    - split; [reflexivity|]. intros t E. inversion E; subst. exact Hq.
    - pose proof (H_delta q a Hq) as Hd. destruct (d_delta A q a) as [t|].
      + destruct Hd as [Ht Ed]. rewrite Ed. apply IH. exact Ht.
      + rewrite Hd. rewrite !dfa_run_None. split; [reflexivity|discriminate].
  Qed.

  Lemma iso_acc_from q w : In q (d_states A) -> dfa_acc_from A (Some q) w = dfa_acc_from B (Some (f q)) w.
  Proof.
    intro Hq. unfold dfa_acc_from. destruct (iso_run w q Hq) as [E Hin]. rewrite E.
    destruct (dfa_run A (Some q) w) as [t|]; simpl; [|reflexivity]. apply H_fin. apply Hin. reflexivity.
  Qed.

  Lemma iso_lang : forall w, dfa_acc A w = dfa_acc B w.
  Proof. intro w. unfold dfa_acc. destruct H_init as [Hi <-]. apply iso_acc_from. exact Hi. Qed.

  Lemma iso_size : size A = size B.
  Proof.
    unfold size. apply Nat.le_antisymm.
    - rewrite <- (map_length f (d_states A)). apply NoDup_incl_length.
      + clear - NA H_inj. induction (d_states A) as [|x l IH]; simpl; [constructor|].
        inversion NA; subst. constructor.
        * intro H. apply in_map_iff in H. destruct H as [y [E Hy]].
          assert (y = x) by (apply H_inj; [right; exact Hy|left; reflexivity|exact E]). subst. contradiction.
        * apply IH; [assumption|]. intros q q' Hq Hq'. apply H_inj; right; assumption.
      + intros r Hr. apply in_map_iff in Hr. destruct Hr as [q [<- Hq]]. apply H_st. exact Hq.
    - rewrite <- (map_length f (d_states A)). apply NoDup_incl_length; [exact NB|].
      intros r Hr. destruct (H_sur r Hr) as [q [Hq <-]]. apply in_map. exact Hq.
  Qed.

  Lemma iso_complete : complete A <-> complete B.
  Proof.
    split; intros Hc.
    - intros r a Hr Ha. destruct (H_sur r Hr) as [q [Hq <-]]. rewrite <- H_syms in Ha.
      destruct (Hc q a Hq Ha) as [t Et]. pose proof (H_delta q a Hq) as Hd. rewrite Et in Hd.
      exists (f t). tauto.
    - intros q a Hq Ha. rewrite H_syms in Ha. destruct (Hc (f q) a (H_st q Hq) Ha) as [r Er].
      pose proof (H_delta q a Hq) as Hd. destruct (d_delta A q a) as [t|]; [exists t; reflexivity|congruence].
  Qed.

  Lemma iso_minimal_complete : minimal_complete B -> minimal_complete A.
  Proof.
    intros HB m' Hv Hc Hs Hl. rewrite iso_size. apply HB; [exact Hv|exact Hc|congruence|].
    intro w. rewrite (Hl w). unfold L_dfa. rewrite (iso_lang w). tauto.
  Qed.

  Lemma iso_minimal_partial : minimal_partial B -> minimal_partial A.
  Proof.
    intros HB m' Hv Hs Hl. rewrite iso_size. apply HB; [exact Hv|congruence|].
    intro w. rewrite (Hl w). unfold L_dfa. rewrite (iso_lang w). tauto.
  Qed.
End Iso.

(* ---------- list facts ---------- *)
Lemma enum_idx {B} (f : nat -> B) l : NoDup l -> forall s,
  combine (seq s (length l)) (map f l) = map (fun i => (s + idx Nat.eqb i l, f i)) l.
Proof.
  induction l as [|a l IH]; intros Hnd s; simpl; [reflexivity|]. inversion Hnd; subst.
  rewrite Nat.eqb_refl, Nat.add_0_r. f_equal. rewrite (IH H2 (S s)). apply map_ext_in. intros i Hi.
  destruct (Nat.eqb i a) eqn:E; [apply Nat.eqb_eq in E; subst; contradiction|]. f_equal. lia.
Qed.

Lemma nth_error_idx i l : In i l -> nth_error l (idx Nat.eqb i l) = Some i.
Proof.
  induction l as [|a l IH]; simpl; [tauto|]. intro H. destruct (Nat.eqb i a) eqn:E.
  - apply Nat.eqb_eq in E. subst. reflexivity.
  - destruct H as [H|H]; [subst; rewrite Nat.eqb_refl in E; discriminate|]. simpl. apply IH. exact H.
Qed.

Lemma assoc_unique {V} k (v : V) l : In (k, v) l -> (forall v', In (k, v') l -> v' = v) -> assoc k l = Some v.
Proof.
  induction l as [|[k' v'] l IH]; simpl; [tauto|]. intros Hin Hu. destruct (Nat.eqb k k') eqn:E.
  - apply Nat.eqb_eq in E. subst k'. f_equal. apply Hu. left. reflexivity.
  - destruct Hin as [Hin|Hin]; [inversion Hin; subst; rewrite Nat.eqb_refl in E; discriminate|].
    apply IH; [exact Hin|]. intros v2 H2. apply Hu. right. exact H2.
Qed.

Lemma assoc_absent {V} k (l : list (nat * V)) : (forall v, ~ In (k, v) l) -> assoc k l = None.
Proof.
  intro H. apply assoc_None. intro Hin. apply in_map_iff in Hin. destruct Hin as [[k' v] [E Hin]].
  simpl in E. subst k'. exact (H v Hin).
Qed.

(* a row filtered through a partial renaming of its targets *)
Definition frow (h : nat -> option nat) (old : list (nat * nat)) : list (nat * nat) :=
  flat_map (fun p => match h (snd p) with Some n => [(fst p, n)] | None => [] end) old.

Lemma frow_keys h old a : In a (map fst (frow h old)) -> In a (map fst old).
Proof.
  unfold frow. intro H. apply in_map_iff in H. destruct H as [[a' n] [E Hin]]. simpl in E. subst a'.
  apply in_flat_map in Hin. destruct Hin as [[a0 t0] [Hp Hin]]. simpl in Hin.
  destruct (h t0); [|destruct Hin]. destruct Hin as [Hin|[]]. inversion Hin; subst.
  apply in_map_iff. exists (a, t0). split; [reflexivity|exact Hp].
Qed.

Lemma frow_assoc h old a : NoDup (map fst old) ->
  assoc a (frow h old) = match assoc a old with Some t => h t | None => None end.
Proof.
  induction old as [|[a0 t0] r IH]; intro Hnd; [reflexivity|]. simpl in Hnd. inversion Hnd; subst.
  change (frow h ((a0, t0) :: r)) with ((match h t0 with Some n => [(a0, n)] | None => [] end) ++ frow h r).
  simpl assoc at 2. destruct (Nat.eqb a a0) eqn:E.
  - apply Nat.eqb_eq in E. subst a0. destruct (h t0) as [n|].
    + simpl. rewrite Nat.eqb_refl. reflexivity.
    + simpl. apply assoc_None. intro H. apply frow_keys in H. contradiction.
  - destruct (h t0) as [n|]; simpl; [rewrite E|]; apply IH; assumption.
Qed.

Lemma frow_length h old : length (frow h old) <= length old.
Proof.
  induction old as [|[a0 t0] r IH]; [simpl; lia|].
  change (frow h ((a0, t0) :: r)) with ((match h t0 with Some n => [(a0, n)] | None => [] end) ++ frow h r).
  rewrite app_length. destruct (h t0); simpl; lia.
Qed.

Lemma mapM_ok {A B} (f : A -> res B) (g : A -> B) l : (forall x, In x l -> f x = Ok (g x)) -> mapM f l = Ok (map g l).
Proof.
  induction l as [|x l IH]; intro H; simpl; [reflexivity|].
  rewrite (H x (or_introl eq_refl)). simpl. rewrite IH; [reflexivity|]. intros y Hy. apply H. right. exact Hy.
Qed.

Lemma frow_In h old a v : In (a, v) (frow h old) <-> exists t, In (a, t) old /\ h t = Some v.
Proof.
  unfold frow. rewrite in_flat_map. split.
  - intros [[a0 t0] [Hp Hin]]. simpl in Hin. destruct (h t0) as [n|] eqn:E; [|destruct Hin].
    destruct Hin as [Hin|[]]. inversion Hin; subst. exists t0. split; assumption.
  - intros [t [Hp E]]. exists (a, t). split; [exact Hp|]. simpl. rewrite E. left. reflexivity.
Qed.

Lemma frow_keys_NoDup h old : NoDup (map fst old) -> NoDup (map fst (frow h old)).
Proof.
  induction old as [|[a0 t0] r IH]; intro Hnd; [constructor|]. simpl in Hnd. inversion Hnd; subst.
  change (frow h ((a0, t0) :: r)) with ((match h t0 with Some n => [(a0, n)] | None => [] end) ++ frow h r).
  destruct (h t0) as [n|]; simpl; [|apply IH; assumption]. constructor; [|apply IH; assumption].
  intro H. apply frow_keys in H. contradiction.
Qed.

Lemma existsb_false {A} (f : A -> bool) l : existsb f l = false -> forall x, In x l -> f x = false.
Proof.
  intros H x Hx. destruct (f x) eqn:E; [|reflexivity]. assert (T : existsb f l = true) by (apply existsb_exists; exists x; auto). congruence.
Qed.

Section CodedProofs.
  Variable m : dfa.
  Hypothesis Hv : valid_dfa m = true.
  Variable K : list nat.
  Hypothesis HK : goodK m K.
  Variable P : prs (option nat).
  Notation Qh := (h_states m K).
  Hypothesis Hwf : wf (option nat) oeqb Qh P.
  Notation cls := (look oeqb (p_tab P)).
  (* the specification model's class function, with what Proofs/Minimize.v needs to know about it *)
  Variable c' : option nat -> nat.
  Hypothesis nerode' : forall x y, In x (kQ K) -> In y (kQ K) ->
    (c' x = c' y <-> forall w, ofinal m (xrun (option nat) (kstep m K) x w) = ofinal m (xrun (option nat) (kstep m K) y w)).
  Hypothesis Hcc : forall x y, In x Qh -> In y Qh -> (cls x = cls y <-> c' x = c' y).
  Variable rep : list nat -> nat.
  Hypothesis Hrep : forall l, l <> [] -> In (rep l) l.

  Notation ids := (p_ids P).
  Notation mem := (members oeqb Qh P).
  Notation dr := (dropped m K c').
  Notation nm := (cname K c').
  Notation bmap := (c_back_map m K P).
  Definition pos (q : nat) : nat := idx Nat.eqb (cls (Some q)) ids.

  Lemma QhS q : In (Some q) Qh <-> In q K.
  Proof. apply (Qh_In m Hv K HK (Some q)). Qed.

  Lemma cls_ids q : In q K -> In (cls (Some q)) ids.
  Proof. intro Hq. apply (wf_in _ _ _ _ Hwf). apply QhS. exact Hq. Qed.

  Lemma mem_Some i q : In (Some q) (mem i) <-> In q K /\ cls (Some q) = i.
  Proof. rewrite (members_In (option nat) oeqb Qh P i (Some q)), QhS. tauto. Qed.

  (* `trap_state in eq` for the class of a kept state = the specification model's `dropped` *)
  Lemma trap_class q : In q K -> c_has_trap (mem (cls (Some q))) = dr (Some q).
  Proof.
    intro Hq. apply bool_iff_eq. unfold c_has_trap, dropped.
    rewrite (gmem_In oeqb (eqb_opt_ok _ eqb_nat_ok)), (members_In (option nat) oeqb Qh P), andb_true_iff, Nat.eqb_eq.
    rewrite (Qh_In m Hv K HK None). split.
    - intros [Hn E]. split; [exact Hn|]. symmetry. apply Hcc; [apply (Qh_In m Hv K HK None); exact Hn|apply QhS; exact Hq|exact E].
    - intros [Hn E]. split; [exact Hn|]. apply Hcc; [apply (Qh_In m Hv K HK None); exact Hn|apply QhS; exact Hq|]. symmetry. exact E.
  Qed.

  Lemma pairs_eq : c_pairs m K P = map (fun i => (idx Nat.eqb i ids, mem i)) ids.
  Proof.
    unfold c_pairs, c_sets, get_sets. rewrite map_length.
    apply (enum_idx (fun i => mem i) ids (wf_nodup _ _ _ _ Hwf) 0).
  Qed.

  Lemma bmap_In q n : In (q, n) bmap <-> In q K /\ dr (Some q) = false /\ n = pos q.
  Proof.
    unfold c_back_map. rewrite pairs_eq, in_flat_map. split.
    - intros [p [Hp Hin]]. apply in_map_iff in Hp. destruct Hp as [i [<- Hi]]. simpl in Hin.
      destruct (c_has_trap (mem i)) eqn:Et; [destruct Hin|]. apply in_map_iff in Hin.
      destruct Hin as [q' [E Hq']]. inversion E; subst q' n. apply somes_In in Hq'. apply mem_Some in Hq'.
      destruct Hq' as [Hq Ec]. split; [exact Hq|]. split; [|unfold pos; rewrite Ec; reflexivity].
      rewrite <- (trap_class q Hq), Ec. exact Et.
    - intros [Hq [Hd ->]]. exists (pos q, mem (cls (Some q))). split.
      + apply in_map_iff. exists (cls (Some q)). split; [reflexivity|apply cls_ids; exact Hq].
      + simpl. rewrite (trap_class q Hq), Hd. apply in_map_iff. exists q. split; [reflexivity|].
        apply somes_In. apply mem_Some. split; [exact Hq|reflexivity].
  Qed.

  Lemma bmap_assoc t : assoc t bmap = if memb t K && negb (dr (Some t)) then Some (pos t) else None.
  Proof.
    destruct (memb t K && negb (dr (Some t))) eqn:E.
    - apply andb_true_iff in E. destruct E as [Ht Hd]. apply memb_In in Ht. apply negb_true_iff in Hd.
      apply assoc_unique; [apply bmap_In; auto|]. intros v' H. apply bmap_In in H. tauto.
    - apply assoc_absent. intros v H. apply bmap_In in H. destruct H as [Ht [Hd _]].
      apply memb_In in Ht. rewrite Ht, Hd in E. discriminate.
  Qed.

  Lemma c_name_live q : In q K -> dr (Some q) = false -> c_name m K P q = Ok (pos q).
  Proof.
    intros Hq Hd. unfold c_name. rewrite bmap_assoc. apply memb_In in Hq. rewrite Hq, Hd. reflexivity.
  Qed.

  (* from a coded name back to the specification model's name of the same class *)
  Definition fname (n : nat) : nat :=
    match nth_error ids n with
    | Some i => match find (fun r => Nat.eqb (cls (Some r)) i) K with Some r => r | None => 0 end
    | None => 0
    end.

  Lemma fname_pos q : In q K -> fname (pos q) = nm q.
  Proof.
    intro Hq. unfold fname, pos. rewrite (nth_error_idx _ _ (cls_ids q Hq)). unfold cname.
    rewrite (find_ext_in (fun r => Nat.eqb (cls (Some r)) (cls (Some q))) (fun r => Nat.eqb (c' (Some r)) (c' (Some q))) K).
    - destruct (find (fun r => Nat.eqb (c' (Some r)) (c' (Some q))) K) eqn:E; [reflexivity|].
      exfalso. pose proof (find_none _ _ E q Hq) as H. simpl in H. rewrite Nat.eqb_refl in H. discriminate.
    - intros r Hr. apply bool_iff_eq. rewrite !Nat.eqb_eq. apply Hcc; apply QhS; assumption.
  Qed.

  Lemma pos_eq q q' : In q K -> In q' K -> (pos q = pos q' <-> c' (Some q) = c' (Some q')).
  Proof.
    intros Hq Hq'. rewrite <- (Hcc (Some q) (Some q')); [|apply QhS; exact Hq|apply QhS; exact Hq']. unfold pos. split.
    - intro E. apply (idx_inj Nat.eqb eqb_nat_ok _ _ ids (cls_ids q Hq) E).
    - intro E. rewrite E. reflexivity.
  Qed.

  (* ---- the coded automaton, given that some kept state is not dropped ---- *)
  Notation finK := (filter (fun q => memb q (d_finals m)) K).
  Definition rowof (i : nat) : list (nat * nat) :=
    match d_row m (rep (somes (mem i))) with
    | Some old => frow (fun t => assoc t bmap) old
    | None => []
    end.
  Notation live := (c_live m K P).
  Definition ctrans : list (nat * list (nat * nat)) := map (fun p => (fst p, rowof (nth (fst p) ids 0))) live.
  Definition cR : dfa :=
    mkdfa (set_of (map snd bmap)) (d_syms m) ctrans (pos (d_init m)) (set_of (map pos finK))
          (existsb (fun r => negb (Nat.eqb (length (snd r)) (length (d_syms m)))) ctrans).

  Lemma live_In p : In p live <-> exists i, In i ids /\ c_has_trap (mem i) = false /\ p = (idx Nat.eqb i ids, mem i).
  Proof.
    unfold c_live. rewrite filter_In, pairs_eq, in_map_iff. split.
    - intros [[i [<- Hi]] Ht]. simpl in Ht. apply negb_true_iff in Ht. exists i. auto.
    - intros [i [Hi [Ht ->]]]. split; [exists i; auto|]. simpl. rewrite Ht. reflexivity.
  Qed.

  (* a class without the trap has a kept member; its representative is a kept member *)
  Lemma live_rep i : In i ids -> c_has_trap (mem i) = false ->
    In (rep (somes (mem i))) K /\ cls (Some (rep (somes (mem i)))) = i.
  Proof.
    intros Hi Ht. apply mem_Some. apply somes_In. apply Hrep.
    destruct (wf_inh _ _ _ _ Hwf i Hi) as [x [Hx Ex]]. destruct x as [q|].
    - intro E0. assert (H : In q (somes (mem i))) by (apply somes_In; apply mem_Some; split; [apply QhS; exact Hx|exact Ex]).
      rewrite E0 in H. destruct H.
    - exfalso. assert (T : c_has_trap (mem i) = true).
      { apply (gmem_In oeqb (eqb_opt_ok _ eqb_nat_ok)). apply (members_In (option nat) oeqb). split; assumption. }
      congruence.
  Qed.

  Hypothesis init_live : dr (Some (d_init m)) = false.
  Let Hinit : In (d_init m) K := gk_init m K HK.

  Theorem c_quotient_eq : c_quotient m K P rep = Ok (cR, h_blocks m K P).
  Proof.
    unfold c_quotient.
    assert (Hne : In (d_init m, pos (d_init m)) bmap) by (apply bmap_In; auto).
    destruct bmap as [|b0 br] eqn:Eb; [destruct Hne|]. rewrite <- Eb. clear Hne.
    rewrite (c_name_live _ Hinit init_live). simpl.
    rewrite (mapM_ok (c_name m K P) pos finK).
    2:{ intros q Hq. apply filter_In in Hq. destruct Hq as [Hq Hf]. apply c_name_live; [exact Hq|].
        apply (final_not_dropped m K c' nerode' q Hq). apply memb_In. exact Hf. }
    simpl.
    rewrite (mapM_ok (fun p => bind (c_row m K P rep (snd p)) (fun r => Ok (fst p, r)))
                     (fun p => (fst p, rowof (nth (fst p) ids 0))) live).
    2:{ intros p Hp. apply live_In in Hp. destruct Hp as [i [Hi [Ht ->]]]. simpl.
        rewrite (nth_error_nth _ _ 0 (nth_error_idx i ids Hi)).
        unfold c_row, rowof. destruct (live_rep i Hi Ht) as [Hr _].
        destruct (K_row m Hv K HK _ Hr) as [old Eo]. rewrite Eo. reflexivity. }
    simpl. f_equal. f_equal.
    unfold h_blocks, c_live, c_pairs, c_sets.
    set (l := get_sets oeqb Qh P). clearbody l. generalize 0 as s.
    induction l as [|B l IH]; intro s; simpl; [reflexivity|].
    unfold c_has_trap at 1. simpl. destruct (gmem oeqb None B); simpl; [apply IH|f_equal; apply IH].
  Qed.

  (* ---- cR is isomorphic to the specification model's qR, by fname ---- *)
  Notation qRs := (qR m K c').

  Lemma cR_states n : In n (d_states cR) <-> exists q, In q K /\ dr (Some q) = false /\ n = pos q.
  Proof.
    simpl. rewrite set_of_In, in_map_iff. split.
    - intros [[q n'] [E Hin]]. simpl in E. subst n'. apply bmap_In in Hin. exists q. exact Hin.
    - intros [q H]. exists (q, n). split; [reflexivity|apply bmap_In; exact H].
  Qed.

  Lemma cR_states_NoDup : NoDup (d_states cR).
  Proof. simpl. apply ssorted_NoDup. apply set_of_sorted. Qed.

  Lemma keys_NoDup : NoDup (map fst ctrans).
  Proof.
    unfold ctrans. rewrite map_map. simpl. unfold c_live. apply map_fst_filter_NoDup.
    rewrite pairs_eq, map_map. simpl. apply NoDup_map_inj_on'; [apply (wf_nodup _ _ _ _ Hwf)|].
    intros a b Ha _ E. apply (idx_inj Nat.eqb eqb_nat_ok a b ids Ha E).
  Qed.

  Lemma cR_row q : In q K -> dr (Some q) = false -> d_row cR (pos q) = Some (rowof (cls (Some q))).
  Proof.
    intros Hq Hd. unfold d_row. simpl. apply assoc_NoDup; [apply keys_NoDup|].
    unfold ctrans. apply in_map_iff. exists (pos q, mem (cls (Some q))). split.
    - simpl. unfold pos. rewrite (nth_error_nth _ _ 0 (nth_error_idx _ ids (cls_ids q Hq))). reflexivity.
    - apply live_In. exists (cls (Some q)). split; [apply cls_ids; exact Hq|]. split; [|reflexivity].
      rewrite (trap_class q Hq). exact Hd.
  Qed.

  (* the representative of the class of a live kept state *)
  Definition repq (q : nat) : nat := rep (somes (mem (cls (Some q)))).

  Lemma repq_ok q : In q K -> dr (Some q) = false -> In (repq q) K /\ c' (Some (repq q)) = c' (Some q).
  Proof.
    intros Hq Hd. destruct (live_rep (cls (Some q)) (cls_ids q Hq)) as [Hr Ec].
    - rewrite (trap_class q Hq). exact Hd.
    - split; [exact Hr|]. apply Hcc; [apply QhS; exact Hr|apply QhS; exact Hq|exact Ec].
  Qed.

  Lemma cR_delta q a : In q K -> dr (Some q) = false ->
    d_delta cR (pos q) a = match d_delta m (repq q) a with Some t => assoc t bmap | None => None end.
  Proof.
    intros Hq Hd. unfold d_delta at 1. rewrite (cR_row q Hq Hd). unfold rowof. fold (repq q).
    destruct (repq_ok q Hq Hd) as [Hr _]. destruct (K_row m Hv K HK _ Hr) as [old Eo].
    unfold d_delta. rewrite Eo. apply frow_assoc. apply (row_keys_NoDup m Hv _ _ Eo).
  Qed.

  Lemma iso_delta n a : In n (d_states cR) ->
    match d_delta cR n a with
    | Some t => In t (d_states cR) /\ d_delta qRs (fname n) a = Some (fname t)
    | None => d_delta qRs (fname n) a = None
    end.
  Proof.
    intro Hn. apply cR_states in Hn. destruct Hn as [q [Hq [Hd ->]]].
    rewrite (cR_delta q a Hq Hd), (fname_pos q Hq). rewrite (qR_delta m Hv K c' _ a (nm_in_qstates m K c' q Hq Hd)).
    destruct (repq_ok q Hq Hd) as [Hr Ec]. destruct (cname_in K c' q Hq) as [Hnq Ecn].
    destruct (memb a (d_syms m)) eqn:Ea.
    - apply memb_In in Ea. rewrite qtarget_proj.
      rewrite (proj_class m K c' (kstep m K (Some (nm q)) a) (kstep m K (Some (repq q)) a)
                 (inQ_step m K _ a (inQ_Some K _ Hnq))
                 (congr m K c' nerode' _ _ a (inQ_Some K _ Hnq) (inQ_Some K _ Hr) (eq_trans Ecn (eq_sym Ec)))
                 (okx_step m K _ a Hnq Ea) (okx_step m K _ a Hr Ea)).
      simpl kstep. destruct (d_delta m (repq q) a) as [t|].
      + rewrite bmap_assoc. destruct (memb t K) eqn:Et; simpl.
        * apply memb_In in Et. unfold proj. destruct (dr (Some t)) eqn:Edt; simpl; [reflexivity|].
          split; [apply cR_states; exists t; auto|]. rewrite (fname_pos t Et). reflexivity.
        * unfold proj. destruct (dr None); reflexivity.
      + unfold proj. destruct (dr None); reflexivity.
    - apply memb_false in Ea. destruct (d_delta m (repq q) a) as [t|] eqn:E; [|reflexivity].
      apply (delta_in_states m Hv) in E. tauto.
  Qed.

  Lemma iso_fin n : In n (d_states cR) -> memb n (d_finals cR) = memb (fname n) (d_finals qRs).
  Proof.
    intro Hn. apply cR_states in Hn. destruct Hn as [q [Hq [Hd ->]]]. rewrite (fname_pos q Hq).
    simpl. rewrite (qfinals_spec m K c' nerode' q Hq). apply bool_iff_eq.
    rewrite memb_In, set_of_In, in_map_iff. split.
    - intros [q' [E Hq']]. apply filter_In in Hq'. destruct Hq' as [Hq' Hf].
      apply (pos_eq q' q Hq' Hq) in E.
      pose proof (class_fin m K c' nerode' (Some q') (Some q) (inQ_Some K _ Hq') (inQ_Some K _ Hq) E) as F.
      simpl in F. congruence.
    - intro Hf. exists q. split; [reflexivity|]. apply filter_In. split; assumption.
  Qed.

  Lemma iso_all :
    (forall w, dfa_acc cR w = dfa_acc qRs w) /\ size cR = size qRs /\ (complete cR <-> complete qRs) /\
    (minimal_complete qRs -> minimal_complete cR) /\ (minimal_partial qRs -> minimal_partial cR).
  Proof.
    assert (NB : NoDup (d_states qRs)) by (simpl; apply (qstates_NoDup m K HK c')).
    assert (H_st : forall n, In n (d_states cR) -> In (fname n) (d_states qRs)).
    { intros n Hn. apply cR_states in Hn. destruct Hn as [q [Hq [Hd ->]]]. rewrite (fname_pos q Hq).
      simpl. apply nm_in_qstates; assumption. }
    assert (H_inj : forall n n', In n (d_states cR) -> In n' (d_states cR) -> fname n = fname n' -> n = n').
    { intros n n' Hn Hn'. apply cR_states in Hn. apply cR_states in Hn'.
      destruct Hn as [q [Hq [Hd ->]]]. destruct Hn' as [q' [Hq' [Hd' ->]]].
      rewrite (fname_pos q Hq), (fname_pos q' Hq'). intro E. apply (pos_eq q q' Hq Hq').
      destruct (cname_in K c' q Hq) as [_ E1]. destruct (cname_in K c' q' Hq') as [_ E2]. congruence. }
    assert (H_sur : forall r, In r (d_states qRs) -> exists n, In n (d_states cR) /\ fname n = r).
    { intros r Hr. simpl in Hr. apply qstates_In in Hr. destruct Hr as [Hr [Hd En]].
      exists (pos r). split; [apply cR_states; exists r; auto|]. rewrite (fname_pos r Hr). exact En. }
    assert (H_init : In (d_init cR) (d_states cR) /\ fname (d_init cR) = d_init qRs).
    { split; [apply cR_states; exists (d_init m); auto|]. simpl. apply fname_pos. exact Hinit. }
    split; [exact (iso_lang cR qRs fname H_init iso_fin iso_delta)|].
    split; [exact (iso_size cR qRs fname cR_states_NoDup NB H_st H_inj H_sur)|].
    split; [exact (iso_complete cR qRs fname eq_refl H_st H_sur H_init iso_delta)|].
    split.
    - exact (iso_minimal_complete cR qRs fname cR_states_NoDup NB eq_refl H_st H_inj H_sur H_init iso_fin iso_delta).
    - exact (iso_minimal_partial cR qRs fname cR_states_NoDup NB eq_refl H_st H_inj H_sur H_init iso_fin iso_delta).
  Qed.

  Lemma cR_valid : valid_dfa cR = true.
  Proof.
    unfold valid_dfa. repeat (apply andb_true_iff; split).
    - apply nodupb_NoDup. exact cR_states_NoDup.
    - apply nodupb_NoDup. exact (syms_NoDup m Hv).
    - apply nodupb_NoDup. exact keys_NoDup.
    - apply forallb_forall. intros n Hn. apply memb_In. apply cR_states in Hn. destruct Hn as [q [Hq [Hd ->]]].
      eapply assoc_Some_key. exact (cR_row q Hq Hd).
    - apply forallb_forall. intros [n row] Hin. change (d_trans cR) with ctrans in Hin. unfold ctrans in Hin.
      apply in_map_iff in Hin. destruct Hin as [p [E Hp]]. apply live_In in Hp. destruct Hp as [i [Hi [Ht ->]]].
      simpl in E. rewrite (nth_error_nth _ _ 0 (nth_error_idx i ids Hi)) in E. inversion E; subst n row. clear E. simpl snd.
      destruct (live_rep i Hi Ht) as [Hr Ec]. destruct (K_row m Hv K HK _ Hr) as [old Eo].
      assert (Erow : rowof i = frow (fun t => assoc t bmap) old) by (unfold rowof; rewrite Eo; reflexivity).
      pose proof (row_keys_NoDup m Hv _ _ Eo) as Hnd.
      pose proof (row_props m Hv _ _ Eo) as Hok. unfold row_ok in Hok. repeat rewrite andb_true_iff in Hok.
      destruct Hok as [[_ Hent] _]. rewrite forallb_forall in Hent.
      assert (Hkeys : incl (map fst (rowof i)) (d_syms m)).
      { intros a Ha. rewrite Erow in Ha. apply frow_keys in Ha. apply in_map_iff in Ha. destruct Ha as [[a' t] [Ea Hin]].
        simpl in Ea. subst a'. specialize (Hent _ Hin). simpl in Hent. apply andb_true_iff in Hent. apply memb_In. tauto. }
      unfold row_ok. repeat (apply andb_true_iff; split).
      + apply nodupb_NoDup. rewrite Erow. apply frow_keys_NoDup. exact Hnd.
      + apply forallb_forall. intros [a v] Hin. simpl. apply andb_true_iff. split; apply memb_In.
        * apply Hkeys. apply in_map_iff. exists (a, v). split; [reflexivity|exact Hin].
        * rewrite Erow in Hin. apply frow_In in Hin. destruct Hin as [t [_ Et]]. apply assoc_In in Et.
          apply bmap_In in Et. apply cR_states. exists t. exact Et.
      + simpl d_partial. destruct (existsb (fun r => negb (Nat.eqb (length (snd r)) (length (d_syms m)))) ctrans) eqn:Ep;
          [reflexivity|]. simpl.
        assert (Hlen : length (rowof i) = length (d_syms m)).
        { pose proof (existsb_false _ _ Ep (idx Nat.eqb i ids, rowof i)) as H. simpl in H.
          apply negb_false_iff in H; [apply Nat.eqb_eq in H; exact H|].
          unfold ctrans. apply in_map_iff. exists (idx Nat.eqb i ids, mem i). split.
          - simpl. rewrite (nth_error_nth _ _ 0 (nth_error_idx i ids Hi)). reflexivity.
          - apply live_In. exists i. auto. }
        apply forallb_forall. intros a Ha. apply memb_In. revert a Ha.
        apply NoDup_length_incl; [rewrite Erow; apply frow_keys_NoDup; exact Hnd| |exact Hkeys].
        rewrite map_length, Hlen. apply Nat.le_refl.
    - apply memb_In. apply cR_states. exists (d_init m). auto.
    - apply subsetb_incl. intros v Hv'. simpl in Hv'. rewrite set_of_In in Hv'. apply in_map_iff in Hv'.
      destruct Hv' as [q [<- Hq]]. apply filter_In in Hq. destruct Hq as [Hq Hf]. apply cR_states. exists q.
      split; [exact Hq|]. split; [|reflexivity]. apply (final_not_dropped m K c' nerode' q Hq). apply memb_In. exact Hf.
  Qed.
End CodedProofs.

(* ---------- _minify entirely as coded vs the specification model ---------- *)
Definition coded_ok (m : dfa) (Rc : dfa) (Pc : list (list nat)) (R0 : dfa) : Prop :=
  valid_dfa Rc = true /\ d_syms Rc = d_syms R0 /\ (forall w, dfa_acc Rc w = dfa_acc R0 w) /\ size Rc = size R0 /\
  (complete Rc <-> complete R0) /\
  (minimal_complete R0 -> minimal_complete Rc) /\ (minimal_partial R0 -> minimal_partial Rc).

Theorem cminify_core_ok m K sched sord rep : valid_dfa m = true -> goodK m K ->
  (forall a, In a sord <-> In a (d_syms m)) -> (forall l, l <> [] -> In (rep l) l) ->
  exists Rc Pc R0 P0 Pf, cminify_core m K sched sord rep = Ok (Rc, Pc) /\ minify_core m K = Ok (R0, P0) /\
    h_hopcroft m K sched sord = Some Pf /\ (Pc <> [] -> Pc = h_blocks m K Pf) /\ coded_ok m Rc Pc R0.
Proof.
  intros Hv HK Hs Hrep.
  destruct (h_hopcroft_moore m Hv K HK sched sord Hs) as [Pf [t [E [Et [Hwf Hcc]]]]].
  destruct (moore_nerode (option nat) oeqb (eqb_opt_ok _ eqb_nat_ok) (kstep m K) (ofinal m)
              (d_syms m) (kQ K) (kQ_closed m K) (kstep_foreign m Hv K)) as [t' [Et' [Hn _]]].
  unfold kmoore in Et. rewrite Et in Et'. inversion Et'; subst t'. clear Et'.
  set (c' := look oeqb t) in *.
  unfold cminify_core, minify_core, kmoore. rewrite E, Et. fold c'. rewrite quotient_eq.
  destruct (qstates m K c') as [|r0 rest] eqn:Eq.
  - (* only the trap's class: empty_language on both sides *)
    assert (Eb : c_back_map m K Pf = []).
    { destruct (c_back_map m K Pf) as [|[q n] br] eqn:Eb; [reflexivity|exfalso].
      assert (Hin : In (q, n) (c_back_map m K Pf)) by (rewrite Eb; left; reflexivity).
      apply (bmap_In m Hv K HK Pf Hwf c' Hcc) in Hin. destruct Hin as [Hq [Hd _]].
      pose proof (nm_in_qstates m K c' q Hq Hd) as H. rewrite Eq in H. destruct H. }
    exists (empty_language (d_syms m)), [], (empty_language (d_syms m)), [], Pf.
    unfold c_quotient. rewrite Eb. split; [reflexivity|]. split; [reflexivity|]. split; [reflexivity|].
    split; [intro H; contradiction H; reflexivity|]. unfold coded_ok.
    split; [apply empty_language_valid; apply (syms_NoDup m Hv)|]. repeat split; auto.
  - assert (Ed : dropped m K c' (Some (d_init m)) = false).
    { destruct (dropped m K c' (Some (d_init m))) eqn:Ed; [exfalso|reflexivity].
      assert (Hr0 : In r0 (qstates m K c')) by (rewrite Eq; left; reflexivity).
      apply qstates_In in Hr0. destruct Hr0 as [HrK [Hdr _]].
      destruct (gk_access m K HK r0 HrK) as [u Hu].
      pose proof (dr_run m K c' Hn u (Some (d_init m)) (inQ_Some K _ (gk_init m K HK)) Ed) as H.
      rewrite Hu in H. congruence. }
    rewrite Ed.
    exists (cR m K Pf rep), (h_blocks m K Pf), (qR m K c'), (qblocks m K c'), Pf.
    split; [apply (c_quotient_eq m Hv K HK Pf Hwf c' Hn Hcc rep Hrep Ed)|].
    split; [reflexivity|]. split; [reflexivity|]. split; [reflexivity|].
    destruct (iso_all m Hv K HK Pf Hwf c' Hn Hcc rep Hrep Ed) as [H1 [H2 [H3 [H4 H5]]]].
    unfold coded_ok. split; [apply (cR_valid m Hv K HK Pf Hwf c' Hn Hcc rep Hrep Ed)|].
    split; [reflexivity|]. repeat split; try assumption; apply H3.
Qed.

Definition coded_result (m R : dfa) (size0 : nat) : Prop :=
  valid_dfa R = true /\ d_syms R = d_syms m /\ L_dfa R =L L_dfa m /\ size R = size0 /\
  (complete R -> minimal_complete R) /\ (~ complete R -> minimal_partial R).

Lemma coded_transfer m Rc Pc R0 : coded_ok m Rc Pc R0 -> min_result m R0 -> coded_result m Rc (size R0).
Proof.
  intros [Hvc [Hs [Hl [Hz [Hc [Hmc Hmp]]]]]] M. pose proof M as [V [S [Lg [St _]]]].
  unfold coded_result. split; [exact Hvc|]. split; [congruence|]. split.
  - intro w. unfold L_dfa. rewrite (Hl w), (Lg w). tauto.
  - split; [exact Hz|]. split.
    + intros _. apply Hmc. exact (struct_minimal_complete R0 V St).
    + intro Hn. apply Hmp. destruct (d_partial R0) eqn:Ep.
      * exact (struct_minimal_partial R0 V St Ep).
      * exfalso. apply Hn. apply Hc. exact (complete_when_not_partial R0 V Ep).
Qed.

Theorem cminify_full_ok m sched sord rep : valid_dfa m = true ->
  (forall a, In a sord <-> In a (d_syms m)) -> (forall l, l <> [] -> In (rep l) l) ->
  exists R P R0, cminify_full m sched sord rep = Ok (R, P) /\ minify m = Ok R0 /\ coded_result m R (size R0).
Proof.
  intros Hv Hs Hrep. destruct (kept_minify_good m Hv) as [K [E HK]].
  destruct (cminify_core_ok m K sched sord rep Hv HK Hs Hrep) as [Rc [Pc [R0 [P0 [Pf [E1 [E2 [_ [_ Hok]]]]]]]]].
  exists Rc, Pc, R0. unfold cminify_full. rewrite E. simpl. split; [exact E1|].
  assert (Em : minify m = Ok R0) by (unfold minify, minify_full; rewrite E; simpl; rewrite E2; reflexivity).
  split; [exact Em|]. apply (coded_transfer m Rc Pc R0 Hok). exact (proj1 (minify_inv m R0 Hv Em)).
Qed.

Theorem cto_partial_min_full_ok m sched sord rep : valid_dfa m = true ->
  (forall a, In a sord <-> In a (d_syms m)) -> (forall l, l <> [] -> In (rep l) l) ->
  exists R P R0, cto_partial_min_full m sched sord rep = Ok (R, P) /\ to_partial_min m = Ok R0 /\
                 coded_result m R (size R0).
Proof.
  intros Hv Hs Hrep. destruct (kept_live_good m Hv) as [K [E [HK _]]].
  destruct (cminify_core_ok m K sched sord rep Hv HK Hs Hrep) as [Rc [Pc [R0 [P0 [Pf [E1 [E2 [_ [_ Hok]]]]]]]]].
  exists Rc, Pc, R0. unfold cto_partial_min_full. rewrite E. simpl. split; [exact E1|].
  assert (Em : to_partial_min m = Ok R0) by (unfold to_partial_min, to_partial_min_full; rewrite E; simpl; rewrite E2; reflexivity).
  split; [exact Em|]. apply (coded_transfer m Rc Pc R0 Hok). exact (to_partial_min_inv m R0 Hv Em).
Qed.
