(* C04, second part: to_complete, complement (and expression trees with complement), to_partial. *)
From Coq Require Import List Arith Bool Lia.
From AV Require Import Base.Util Base.Closure Spec.Lang Spec.FA Model.Decide Model.Product Model.Build
     Model.DFAOps Proofs.FARun Proofs.Decide Proofs.Product Proofs.Build Proofs.DFAOps.
Import ListNotations.

(* ---------- association-list facts ---------- *)
Lemma assoc_app {B} k (l1 l2 : list (nat * B)) :
  assoc k (l1 ++ l2) = match assoc k l1 with Some v => Some v | None => assoc k l2 end.
Proof.
  induction l1 as [|[k' v] r IH]; simpl; [reflexivity|]. destruct (Nat.eqb k k'); [reflexivity|exact IH].
Qed.

Lemma assoc_tabulate {B} (g : nat -> B) k syms :
  assoc k (map (fun a => (a, g a)) syms) = if memb k syms then Some (g k) else None.
Proof.
  induction syms as [|a r IH]; simpl; [reflexivity|]. destruct (Nat.eqb k a) eqn:E; simpl.
  - apply Nat.eqb_eq in E. subst. reflexivity.
  - exact IH.
Qed.

Lemma assoc_filter_key {B} (f : nat -> bool) k (l : list (nat * B)) :
  assoc k (filter (fun r => f (fst r)) l) = if f k then assoc k l else None.
Proof.
  induction l as [|[k' v] r IH]; simpl; [destruct (f k); reflexivity|].
  destruct (f k') eqn:Ef; simpl; destruct (Nat.eqb k k') eqn:E.
  - apply Nat.eqb_eq in E. subst. rewrite Ef. reflexivity.
  - exact IH.
  - apply Nat.eqb_eq in E. subst. rewrite Ef in *. exact IH.
  - exact IH.
Qed.

Lemma assoc_filter_val {B} (f : B -> bool) k (l : list (nat * B)) : NoDup (map fst l) ->
  assoc k (filter (fun r => f (snd r)) l) =
  match assoc k l with Some v => if f v then Some v else None | None => None end.
Proof.
  induction l as [|[k' v] r IH]; simpl; intro Hnd; [reflexivity|]. inversion Hnd as [|x l' Hx Hnd']; subst.
  specialize (IH Hnd'). destruct (f v) eqn:Ef; simpl; destruct (Nat.eqb k k') eqn:E.
  - rewrite Ef. reflexivity.
  - exact IH.
  - apply Nat.eqb_eq in E. subst. rewrite Ef. rewrite IH.
    destruct (assoc k' r) eqn:E2; [|reflexivity]. apply assoc_Some_key in E2. contradiction.
  - exact IH.
Qed.

Lemma map_fst_tabulate {B} (g : nat -> B) syms : map fst (map (fun a => (a, g a)) syms) = syms.
Proof. induction syms as [|a r IH]; simpl; [reflexivity|]. rewrite IH. reflexivity. Qed.

Lemma map_fst_map_snd {B C} (g : B -> C) (l : list (nat * B)) :
  map fst (map (fun r => (fst r, g (snd r))) l) = map fst l.
Proof. induction l as [|x r IH]; simpl; [reflexivity|]. rewrite IH. reflexivity. Qed.

Lemma le_fold_max x l : In x l -> x <= fold_right Nat.max 0 l.
Proof.
  induction l as [|y r IH]; simpl; [intros []|]. intros [->|H]; [lia|]. specialize (IH H). lia.
Qed.

(* ---------- validity: introduction / elimination in Prop form ---------- *)
Lemma row_ok_elim m row : row_ok m row = true ->
  NoDup (map fst row) /\
  (forall a t, In (a, t) row -> In a (d_syms m) /\ In t (d_states m)) /\
  (d_partial m = false -> forall a, In a (d_syms m) -> In a (map fst row)).
Proof.
  unfold row_ok. repeat rewrite andb_true_iff. intros [[H1 H2] H3]. split; [apply nodupb_NoDup; exact H1|]. split.
  - intros a t Hin. rewrite forallb_forall in H2. specialize (H2 _ Hin). simpl in H2.
    apply andb_true_iff in H2. destruct H2 as [Ha Ht]. split; apply memb_In; assumption.
  - intros Hp a Ha. rewrite Hp in H3. simpl in H3. rewrite forallb_forall in H3. apply memb_In. apply H3. exact Ha.
Qed.

Lemma row_ok_intro m row :
  NoDup (map fst row) ->
  (forall a t, In (a, t) row -> In a (d_syms m) /\ In t (d_states m)) ->
  (d_partial m = true \/ forall a, In a (d_syms m) -> In a (map fst row)) ->
  row_ok m row = true.
Proof.
  intros H1 H2 H3. unfold row_ok. repeat rewrite andb_true_iff. split; [split|].
  - apply nodupb_NoDup. exact H1.
  - apply forallb_forall. intros [a t] Hin. simpl. destruct (H2 _ _ Hin) as [Ha Ht].
    apply andb_true_iff. split; apply memb_In; assumption.
  - destruct H3 as [H3|H3]; [rewrite H3; reflexivity|]. apply orb_true_iff. right.
    apply forallb_forall. intros a Ha. apply memb_In. apply H3. exact Ha.
Qed.

Lemma valid_dfa_intro m :
  NoDup (d_states m) -> NoDup (d_syms m) -> NoDup (map fst (d_trans m)) ->
  (forall q, In q (d_states m) -> In q (map fst (d_trans m))) ->
  (forall q row, In (q, row) (d_trans m) -> row_ok m row = true) ->
  In (d_init m) (d_states m) -> incl (d_finals m) (d_states m) ->
  valid_dfa m = true.
Proof.
  intros H1 H2 H3 H4 H5 H6 H7. unfold valid_dfa. repeat rewrite andb_true_iff. repeat split.
  - apply nodupb_NoDup; exact H1.
  - apply nodupb_NoDup; exact H2.
  - apply nodupb_NoDup; exact H3.
  - apply forallb_forall. intros q Hq. apply memb_In. apply H4. exact Hq.
  - apply forallb_forall. intros [q row] Hin. simpl. eapply H5. exact Hin.
  - apply memb_In; exact H6.
  - apply subsetb_incl; exact H7.
Qed.

(* the run only looks at the transition table *)
Lemma dfa_run_trans_eq m1 m2 : d_trans m1 = d_trans m2 -> forall w q, dfa_run m1 q w = dfa_run m2 q w.
Proof.
  intros E w. induction w as [|a w IH]; intro q; simpl; [reflexivity|].
  replace (ostep m1 q a) with (ostep m2 q a); [apply IH|].
  destruct q as [s|]; simpl; [|reflexivity]. unfold d_delta, d_row. rewrite E. reflexivity.
Qed.

(* an accepted word is over the alphabet *)
Lemma acc_from_over m (Hv : valid_dfa m = true) w : forall q,
  ofinal m (dfa_run m (Some q) w) = true -> over (d_syms m) w.
Proof.
  induction w as [|a w IH]; intros q H; [constructor|]. simpl in H.
  destruct (d_delta m q a) as [t|] eqn:E.
  - constructor; [apply (delta_in_states m Hv) in E; tauto|]. eapply IH. exact H.
  - rewrite dfa_run_None in H. discriminate.
Qed.

Lemma acc_over m (Hv : valid_dfa m = true) w : dfa_acc m w = true -> over (d_syms m) w.
Proof. apply acc_from_over. exact Hv. Qed.

Lemma not_over_rejects m (Hv : valid_dfa m = true) w : ~ over (d_syms m) w -> dfa_acc m w = false.
Proof.
  intro H. destruct (dfa_acc m w) eqn:E; [|reflexivity]. exfalso. apply H. apply acc_over; assumption.
Qed.

(* every row of the table (also of keys that are not states) has every symbol *)
Definition rows_full (m : dfa) : Prop :=
  forall q row, In (q, row) (d_trans m) -> forall a, In a (d_syms m) -> In a (map fst row).

Lemma rows_full_complete m : valid_dfa m = true -> rows_full m -> complete m.
Proof.
  intros Hv Hf q a Hq Ha. destruct (state_has_row m Hv q Hq) as [row Hr].
  unfold d_delta. rewrite Hr. apply assoc_In in Hr. specialize (Hf _ _ Hr a Ha).
  destruct (assoc a row) eqn:E; [eauto|]. apply assoc_None in E. contradiction.
Qed.

(* ---------- to_complete ---------- *)
Section ToComplete.
  Variable m : dfa.
  Hypothesis Hv : valid_dfa m = true.

  Let trap := fresh_state m.

  Lemma trap_fresh : ~ In trap (d_states m) /\ ~ In trap (map fst (d_trans m)).
  Proof.
    split; intro H; unfold trap, fresh_state in H.
    - pose proof (le_fold_max _ (d_states m ++ map fst (d_trans m)) (in_or_app _ _ _ (or_introl H))). lia.
    - pose proof (le_fold_max _ (d_states m ++ map fst (d_trans m)) (in_or_app _ _ _ (or_intror H))). lia.
  Qed.

  Lemma not_rows_partial_full : rows_partial m = false -> rows_full m.
  Proof.
    intros Hp q row Hin. unfold rows_partial in Hp.
    assert (Hlen : length row = length (d_syms m)).
    { destruct (Nat.eqb (length row) (length (d_syms m))) eqn:E; [apply Nat.eqb_eq; exact E|].
      exfalso. assert (existsb (fun r => negb (Nat.eqb (length (snd r)) (length (d_syms m)))) (d_trans m) = true);
        [|congruence].
      apply existsb_exists. exists (q, row). split; [exact Hin|]. simpl. rewrite E. reflexivity. }
    destruct (valid_dfa_parts m Hv) as (_ & Hs & _ & _ & H5 & _).
    destruct (row_ok_elim _ _ (H5 _ _ Hin)) as (Hnd & Hent & _).
    apply NoDup_length_incl; [exact Hnd|rewrite map_length; lia|].
    intros a Ha. apply in_map_iff in Ha. destruct Ha as [[a' t] [<- Hat]]. simpl. apply (Hent _ _ Hat).
  Qed.

  (* the record built in the `rows_partial` branch *)
  Definition completed : dfa :=
    mkdfa (d_states m ++ [trap]) (d_syms m)
          (map (fun r => (fst r, fill_row (d_syms m) trap (snd r))) (d_trans m)
               ++ [(trap, map (fun a => (a, trap)) (d_syms m))])
          (d_init m) (d_finals m) false.

  Lemma to_complete_unfold : to_complete_m m = if rows_partial m then completed else m.
  Proof. reflexivity. Qed.

  Lemma completed_row q row : d_row m q = Some row ->
    d_row completed q = Some (fill_row (d_syms m) trap row).
  Proof.
    intro H. unfold d_row, completed. simpl. rewrite assoc_app, assoc_map_snd.
    unfold d_row in H. rewrite H. reflexivity.
  Qed.

  Lemma completed_row_trap : d_row completed trap = Some (map (fun a => (a, trap)) (d_syms m)).
  Proof.
    unfold d_row, completed. simpl. rewrite assoc_app, assoc_map_snd.
    destruct (assoc trap (d_trans m)) eqn:E.
    - apply assoc_Some_key in E. destruct trap_fresh as [_ H]. contradiction.
    - simpl. rewrite Nat.eqb_refl. reflexivity.
  Qed.

  Lemma completed_delta q a : In q (d_states m) ->
    d_delta completed q a =
    if memb a (d_syms m) then Some (match d_delta m q a with Some t => t | None => trap end) else None.
  Proof.
    intro Hq. destruct (state_has_row m Hv q Hq) as [row Hr]. unfold d_delta at 1.
    rewrite (completed_row _ _ Hr). unfold fill_row. rewrite assoc_tabulate.
    unfold d_delta. rewrite Hr. reflexivity.
  Qed.

  Lemma completed_delta_trap a : d_delta completed trap a = if memb a (d_syms m) then Some trap else None.
  Proof. unfold d_delta. rewrite completed_row_trap. apply assoc_tabulate. Qed.

  Lemma completed_valid : valid_dfa completed = true.
  Proof.
    destruct (valid_dfa_parts m Hv) as (H1 & H2 & H3 & H4 & H5 & H6 & H7).
    destruct trap_fresh as [Hf1 Hf2].
    apply valid_dfa_intro; simpl.
    - apply NoDup_app_disj; [exact H1|constructor; [intros []|constructor]|].
      intros y [<-|[]]. exact Hf1.
    - exact H2.
    - rewrite map_app, map_fst_map_snd. simpl. apply NoDup_app_disj; [exact H3|constructor; [intros []|constructor]|].
      intros y [<-|[]]. exact Hf2.
    - intros q Hq. rewrite map_app, map_fst_map_snd. simpl. apply in_or_app. apply in_app_or in Hq.
      destruct Hq as [Hq|Hq]; [left; apply H4; exact Hq|right; exact Hq].
    - intros q row Hin. apply in_app_or in Hin. destruct Hin as [Hin|Hin].
      + apply in_map_iff in Hin. destruct Hin as [[q0 row0] [E Hin]]. simpl in E. inversion E; subst. clear E.
        destruct (row_ok_elim _ _ (H5 _ _ Hin)) as (Hnd & Hent & _).
        apply row_ok_intro; simpl.
        * unfold fill_row. rewrite map_fst_tabulate. exact H2.
        * intros a t Hat. unfold fill_row in Hat. apply in_map_iff in Hat. destruct Hat as [a' [E Ha']].
          inversion E; subst. clear E. split; [exact Ha'|]. apply in_or_app.
          destruct (assoc a row0) eqn:Ea; [left|right; left; reflexivity].
          apply assoc_In in Ea. apply (Hent _ _ Ea).
        * right. intros a Ha. unfold fill_row. rewrite map_fst_tabulate. exact Ha.
      + destruct Hin as [E|[]]. inversion E; subst. clear E. apply row_ok_intro; simpl.
        * rewrite map_fst_tabulate. exact H2.
        * intros a t Hat. apply in_map_iff in Hat. destruct Hat as [a' [E Ha']]. inversion E; subst.
          split; [exact Ha'|]. apply in_or_app. right. left. reflexivity.
        * right. intros a Ha. rewrite map_fst_tabulate. exact Ha.
    - apply in_or_app. left. exact H6.
    - intros q Hq. apply in_or_app. left. apply H7. exact Hq.
  Qed.

  Lemma completed_full : rows_full completed.
  Proof.
    intros q row Hin a Ha. simpl in *. apply in_app_or in Hin. destruct Hin as [Hin|Hin].
    - apply in_map_iff in Hin. destruct Hin as [[q0 row0] [E Hin]]. simpl in E. inversion E; subst.
      unfold fill_row. rewrite map_fst_tabulate. exact Ha.
    - destruct Hin as [E|[]]. inversion E; subst. rewrite map_fst_tabulate. exact Ha.
  Qed.

  Lemma trap_rejects w : ofinal completed (dfa_run completed (Some trap) w) = false.
  Proof.
    induction w as [|a w IH]; simpl.
    - apply memb_false. intro H. destruct (valid_dfa_parts m Hv) as (_ & _ & _ & _ & _ & _ & H7).
      destruct trap_fresh as [Hf _]. apply Hf. apply H7. exact H.
    - rewrite completed_delta_trap. destruct (memb a (d_syms m)); [exact IH|]. rewrite dfa_run_None. reflexivity.
  Qed.

  Lemma completed_acc_from w : forall q, In q (d_states m) ->
    ofinal completed (dfa_run completed (Some q) w) = ofinal m (dfa_run m (Some q) w).
  Proof.
    induction w as [|a w IH]; intros q Hq; simpl; [reflexivity|].
    rewrite (completed_delta q a Hq). destruct (d_delta m q a) as [t|] eqn:E.
    - pose proof (delta_in_states m Hv _ _ _ E) as [Ht Ha]. apply memb_In in Ha. rewrite Ha. apply IH. exact Ht.
    - rewrite dfa_run_None. simpl. destruct (memb a (d_syms m)); [apply trap_rejects|].
      rewrite dfa_run_None. reflexivity.
  Qed.

  Theorem to_complete_spec :
    valid_dfa (to_complete_m m) = true /\ complete (to_complete_m m) /\ rows_full (to_complete_m m) /\
    d_syms (to_complete_m m) = d_syms m /\
    forall w, dfa_acc (to_complete_m m) w = dfa_acc m w.
  Proof.
    rewrite to_complete_unfold. destruct (rows_partial m) eqn:Ep.
    - split; [exact completed_valid|]. split; [apply rows_full_complete; [exact completed_valid|exact completed_full]|].
      split; [exact completed_full|]. split; [reflexivity|]. intro w. unfold dfa_acc, dfa_acc_from.
      apply (completed_acc_from w (d_init m)). destruct (valid_dfa_parts m Hv) as (_ & _ & _ & _ & _ & H & _). exact H.
    - pose proof (not_rows_partial_full Ep) as Hf. split; [exact Hv|]. split; [apply rows_full_complete; assumption|].
      split; [exact Hf|]. split; reflexivity.
  Qed.
End ToComplete.

(* ---------- complement ---------- *)
Lemma memb_filter (f : nat -> bool) x l : memb x (filter f l) = memb x l && f x.
Proof.
  apply bool_eq_iff. rewrite andb_true_iff, !memb_In, filter_In. tauto.
Qed.

Lemma run_total m (Hv : valid_dfa m = true) (Hc : complete m) w : over (d_syms m) w ->
  forall q, In q (d_states m) -> exists q', dfa_run m (Some q) w = Some q' /\ In q' (d_states m).
Proof.
  induction 1 as [|a w Ha Hw IH]; intros q Hq; simpl; [eauto|].
  destruct (Hc q a Hq Ha) as [t Ht]. rewrite Ht. apply IH. apply (delta_in_states m Hv) in Ht. tauto.
Qed.

Section Complement.
  Variable m : dfa.
  Hypothesis Hv : valid_dfa m = true.

  Definition compl_base : dfa := if d_partial m then to_complete_m m else m.

  Lemma compl_base_spec :
    valid_dfa compl_base = true /\ rows_full compl_base /\ d_syms compl_base = d_syms m /\
    forall w, dfa_acc compl_base w = dfa_acc m w.
  Proof.
    unfold compl_base. destruct (d_partial m) eqn:Ep.
    - destruct (to_complete_spec m Hv) as (H1 & _ & H2 & H3 & H4). repeat split; assumption.
    - split; [exact Hv|]. split; [|split; reflexivity].
      intros q row Hin. destruct (valid_dfa_parts m Hv) as (_ & _ & _ & _ & H5 & _).
      destruct (row_ok_elim _ _ (H5 _ _ Hin)) as (_ & _ & H). apply H. exact Ep.
  Qed.

  Lemma complement_unfold :
    complement_m m =
    mkdfa (d_states compl_base) (d_syms compl_base) (d_trans compl_base) (d_init compl_base)
          (filter (fun q => negb (memb q (d_finals compl_base))) (d_states compl_base)) false.
  Proof. reflexivity. Qed.

  Theorem complement_spec :
    valid_dfa (complement_m m) = true /\ d_syms (complement_m m) = d_syms m /\
    (forall w, over (d_syms m) w -> dfa_acc (complement_m m) w = negb (dfa_acc m w)) /\
    (forall w, ~ over (d_syms m) w -> dfa_acc (complement_m m) w = false).
  Proof.
    destruct compl_base_spec as (Hvc & Hfc & Hsc & Hac).
    assert (HV : valid_dfa (complement_m m) = true).
    { rewrite complement_unfold. destruct (valid_dfa_parts _ Hvc) as (H1 & H2 & H3 & H4 & H5 & H6 & H7).
      apply valid_dfa_intro; simpl; try assumption.
      - intros q row Hin. destruct (row_ok_elim _ _ (H5 _ _ Hin)) as (Hnd & Hent & _).
        apply row_ok_intro; simpl; [exact Hnd|exact Hent|]. right. apply (Hfc _ _ Hin).
      - intros q Hq. apply filter_In in Hq. tauto. }
    split; [exact HV|]. split; [rewrite complement_unfold; simpl; exact Hsc|]. split.
    - intros w Hw. rewrite <- Hac. rewrite complement_unfold. unfold dfa_acc, dfa_acc_from. simpl d_init.
      rewrite <- Hsc in Hw.
      destruct (run_total _ Hvc (rows_full_complete _ Hvc Hfc) w Hw (d_init compl_base)) as [q' [Hr Hq']].
      { destruct (valid_dfa_parts _ Hvc) as (_ & _ & _ & _ & _ & H & _). exact H. }
      rewrite (dfa_run_trans_eq _ compl_base) by reflexivity. rewrite Hr. simpl.
      rewrite memb_filter. apply memb_In in Hq'. rewrite Hq'. reflexivity.
    - intros w Hw. apply not_over_rejects; [exact HV|]. rewrite complement_unfold. simpl. rewrite Hsc. exact Hw.
  Qed.

  Corollary complement_lang : L_dfa (complement_m m) =L l_compl (d_syms m) (L_dfa m).
  Proof.
    destruct complement_spec as (_ & _ & H1 & H2). intro w. unfold L_dfa, l_compl. fold (over (d_syms m) w).
    destruct (over_or_foreign (d_syms m) w) as [Ho|[u [a [v [-> Ha]]]]].
    - rewrite (H1 w Ho). destruct (dfa_acc m w); simpl; split.
      + discriminate.
      + intros [_ H]. exfalso. apply H. reflexivity.
      + intros _. split; [exact Ho|discriminate].
      + reflexivity.
    - assert (Hno : ~ over (d_syms m) (u ++ a :: v)).
      { intro Ho. apply Forall_app in Ho. destruct Ho as [_ Ho]. inversion Ho; subst. contradiction. }
      rewrite (H2 _ Hno). split; [discriminate|]. intros [Ho _]. contradiction.
  Qed.
End Complement.

(* expression trees of the four binary operations and complement *)
Fixpoint leaves_okc (S : list nat) (e : dexpr) : Prop :=
  match e with
  | DLeaf m => valid_dfa m = true /\ d_syms m = S
  | DBin _ a b => leaves_okc S a /\ leaves_okc S b
  | DCompl a => leaves_okc S a
  end.

Theorem dexprc_spec S e : leaves_okc S e ->
  exists R, deval e = Ok R /\ valid_dfa R = true /\ d_syms R = S /\
            (forall w, over S w -> dfa_acc R w = dsem e w) /\
            (forall w, ~ over S w -> dfa_acc R w = false).
Proof.
  assert (Hrej : forall R, valid_dfa R = true -> d_syms R = S -> forall w, ~ over S w -> dfa_acc R w = false).
  { intros R V Sy w Hw. apply not_over_rejects; [exact V|]. rewrite Sy. exact Hw. }
  induction e as [m|o a IHa b IHb|a IHa]; simpl.
  - intros [Hv Hs]. exists m. split; [reflexivity|]. split; [exact Hv|]. split; [exact Hs|]. split; [reflexivity|].
    apply Hrej; assumption.
  - intros [Ha Hb]. destruct (IHa Ha) as [Ra [Ea [Va [Sa [La _]]]]]. destruct (IHb Hb) as [Rb [Eb [Vb [Sb [Lb _]]]]].
    rewrite Ea, Eb. simpl.
    destruct (binop_spec Ra Rb o Va Vb (same_syms_refl_eq Ra Rb (eq_trans Sa (eq_sym Sb)))) as [R [E [V [Sy L]]]].
    exists R. split; [exact E|]. split; [exact V|]. assert (Sy' : d_syms R = S) by congruence. split; [exact Sy'|]. split.
    + intros w Hw. rewrite L, (La w Hw), (Lb w Hw). reflexivity.
    + apply Hrej; assumption.
  - intro Ha. destruct (IHa Ha) as [Ra [Ea [Va [Sa [La _]]]]]. rewrite Ea. simpl.
    destruct (complement_spec Ra Va) as (V & Sy & L1 & _). exists (complement_m Ra). split; [reflexivity|].
    split; [exact V|]. assert (Sy' : d_syms (complement_m Ra) = S) by congruence. split; [exact Sy'|]. split.
    + intros w Hw. rewrite L1 by (rewrite Sa; exact Hw). rewrite (La w Hw). reflexivity.
    + apply Hrej; assumption.
Qed.

(* ---------- accessible / co-accessible states ---------- *)
Lemma NoDup_map_filter {A B} (f : A -> B) (p : A -> bool) l : NoDup (map f l) -> NoDup (map f (filter p l)).
Proof.
  induction l as [|x r IH]; simpl; intro H; [constructor|]. inversion H as [|y l' Hx Hr]; subst.
  destruct (p x); simpl; [|apply IH; exact Hr]. constructor; [|apply IH; exact Hr].
  intro Hin. apply Hx. apply in_map_iff in Hin. destruct Hin as [z [E Hz]]. apply filter_In in Hz.
  apply in_map_iff. exists z. tauto.
Qed.

Section Access.
  Variable m : dfa.
  Hypothesis Hv : valid_dfa m = true.

  Definition accessible (q : nat) : Prop := exists w, dfa_run m (Some (d_init m)) w = Some q.
  Definition coacc (q : nat) : Prop := exists w, ofinal m (dfa_run m (Some q) w) = true.
  Definition preds (q : nat) : list nat := filter (fun p => memb q (row_targets m p)) (d_states m).

  Lemma accessible_state q : accessible q -> In q (d_states m).
  Proof.
    intros [w Hw]. pose proof (dfa_run_ok m Hv w _ (init_ok m Hv)) as H. rewrite Hw in H. exact H.
  Qed.

  Lemma accessible_step q a t : accessible q -> d_delta m q a = Some t -> accessible t.
  Proof. intros [w Hw] Hd. exists (w ++ [a]). rewrite dfa_run_app, Hw. simpl. exact Hd. Qed.

  Lemma coacc_step q a t : d_delta m q a = Some t -> coacc t -> coacc q.
  Proof. intros Hd [w Hw]. exists (a :: w). simpl. rewrite Hd. exact Hw. Qed.

  Lemma reach_states_ok :
    exists acc, reach_states m = Ok acc /\ NoDup acc /\ forall q, In q acc <-> accessible q.
  Proof.
    unfold reach_states.
    destruct (closure Nat.eqb _ (S (length (d_states m))) [d_init m]) as [qs|] eqn:E; simpl.
    - exists qs. split; [reflexivity|]. split; [eapply closure_NoDup; [exact eqb_nat_ok|exact E]|].
      intro q. unfold accessible. rewrite <- (reach_run m Hv). split.
      + apply (closure_sound _ _ eqb_nat_ok _ _ _ _ E).
      + apply (closure_complete _ _ eqb_nat_ok _ _ _ _ E).
    - exfalso. revert E. apply (closure_fuel _ _ eqb_nat_ok _ (d_states m)).
      + intros x y _ Hy. apply (row_succ m Hv) in Hy. destruct Hy as [c Hc].
        apply (delta_in_states m Hv) in Hc. tauto.
      + intros x [<-|[]]. destruct (valid_dfa_parts m Hv) as (_ & _ & _ & _ & _ & H & _). exact H.
      + lia.
  Qed.

  Lemma preds_char q p : In p (preds q) <-> In p (d_states m) /\ exists a, d_delta m p a = Some q.
  Proof.
    unfold preds, row_targets. rewrite filter_In, memb_In, (row_succ m Hv). tauto.
  Qed.

  Lemma coreach_char q : reach preds (d_finals m) q <-> In q (d_states m) /\ coacc q.
  Proof.
    split.
    - intro H. induction H as [x Hx|x y Hr [_ IH] Hy].
      + split; [destruct (valid_dfa_parts m Hv) as (_ & _ & _ & _ & _ & _ & H); apply H; exact Hx|].
        exists []. simpl. apply memb_In. exact Hx.
      + apply preds_char in Hy. destruct Hy as [Hy [a Ha]]. split; [exact Hy|]. eapply coacc_step; eassumption.
    - intros [Hq [w Hw]]. revert q Hq Hw. induction w as [|a w IH]; intros q Hq Hw; simpl in Hw.
      + apply reach_init. apply memb_In. exact Hw.
      + destruct (d_delta m q a) as [t|] eqn:E; [|rewrite dfa_run_None in Hw; discriminate].
        eapply reach_step; [apply (IH t); [apply (delta_in_states m Hv) in E; tauto|exact Hw]|].
        apply preds_char. split; [exact Hq|]. exists a. exact E.
  Qed.

  Lemma coreach_states_ok :
    exists co, coreach_states m = Ok co /\ NoDup co /\ forall q, In q co <-> In q (d_states m) /\ coacc q.
  Proof.
    unfold coreach_states. fold preds.
    destruct (closure Nat.eqb preds (S (length (d_states m))) (d_finals m)) as [qs|] eqn:E; simpl.
    - exists qs. split; [reflexivity|]. split; [eapply closure_NoDup; [exact eqb_nat_ok|exact E]|].
      intro q. rewrite <- coreach_char. split.
      + apply (closure_sound _ _ eqb_nat_ok _ _ _ _ E).
      + apply (closure_complete _ _ eqb_nat_ok _ _ _ _ E).
    - exfalso. revert E. apply (closure_fuel _ _ eqb_nat_ok _ (d_states m)).
      + intros x y _ Hy. apply preds_char in Hy. tauto.
      + destruct (valid_dfa_parts m Hv) as (_ & _ & _ & _ & _ & _ & H). exact H.
      + lia.
  Qed.
End Access.

(* ---------- to_partial ---------- *)
Section ToPartial.
  Variable m : dfa.
  Hypothesis Hv : valid_dfa m = true.
  Variables acc co : list nat.
  Hypothesis Hacc : forall q, In q acc <-> accessible m q.
  Hypothesis Hco : forall q, In q co <-> In q (d_states m) /\ coacc m q.

  Definition pkeep : list nat := set_add (d_init m) (set_of (filter (fun q => memb q co) acc)).
  Definition partialR : dfa :=
    mkdfa pkeep (d_syms m)
          (map (fun r => (fst r, filter (fun ct => memb (snd ct) co) (snd r)))
               (filter (fun r => memb (fst r) pkeep) (d_trans m)))
          (d_init m) (filter (fun q => memb q pkeep) (d_finals m)) true.

  Lemma pkeep_In q : In q pkeep <-> q = d_init m \/ (In q acc /\ In q co).
  Proof. unfold pkeep. rewrite set_add_In, set_of_In, filter_In, memb_In. tauto. Qed.

  Lemma init_accessible : accessible m (d_init m).
  Proof. exists []. reflexivity. Qed.

  Lemma pkeep_accessible q : In q pkeep -> accessible m q.
  Proof. intro H. apply pkeep_In in H. destruct H as [->|[H _]]; [apply init_accessible|apply Hacc; exact H]. Qed.

  Lemma pkeep_state q : In q pkeep -> In q (d_states m).
  Proof. intro H. apply (accessible_state m Hv). apply pkeep_accessible. exact H. Qed.

  Lemma partial_row q : In q pkeep ->
    d_row partialR q = option_map (filter (fun ct => memb (snd ct) co)) (d_row m q).
  Proof.
    intro Hq. unfold d_row, partialR. simpl. rewrite assoc_map_snd.
    rewrite (assoc_filter_key (fun k => memb k pkeep)). apply memb_In in Hq. rewrite Hq. reflexivity.
  Qed.

  Lemma partial_delta q a : In q pkeep ->
    d_delta partialR q a =
    match d_delta m q a with Some t => if memb t co then Some t else None | None => None end.
  Proof.
    intro Hq. unfold d_delta. rewrite (partial_row q Hq).
    destruct (state_has_row m Hv q (pkeep_state q Hq)) as [row Hr]. rewrite Hr. simpl.
    apply (assoc_filter_val (fun t => memb t co)).
    destruct (row_ok_elim _ _ (row_props m Hv _ _ Hr)) as (H & _). exact H.
  Qed.

  Lemma partial_valid : valid_dfa partialR = true.
  Proof.
    destruct (valid_dfa_parts m Hv) as (H1 & H2 & H3 & H4 & H5 & H6 & H7).
    apply valid_dfa_intro; simpl.
    - apply ssorted_NoDup. apply set_add_sorted. apply set_of_sorted.
    - exact H2.
    - rewrite map_fst_map_snd. apply NoDup_map_filter. exact H3.
    - intros q Hq. rewrite map_fst_map_snd. pose proof (H4 q (pkeep_state q Hq)) as Hk.
      apply in_map_iff in Hk. destruct Hk as [[q' row] [E Hin]]. simpl in E. subst q'.
      apply in_map_iff. exists (q, row). split; [reflexivity|]. apply filter_In. split; [exact Hin|].
      simpl. apply memb_In. exact Hq.
    - intros q row' Hin. apply in_map_iff in Hin. destruct Hin as [[q0 row] [E Hin]]. simpl in E.
      inversion E; subst. clear E. apply filter_In in Hin. destruct Hin as [Hin Hq]. simpl in Hq. apply memb_In in Hq.
      destruct (row_ok_elim _ _ (H5 _ _ Hin)) as (Hnd & Hent & _).
      apply row_ok_intro; simpl.
      + apply NoDup_map_filter. exact Hnd.
      + intros a t Hat. apply filter_In in Hat. destruct Hat as [Hat Ht]. simpl in Ht. apply memb_In in Ht.
        split; [apply (Hent _ _ Hat)|]. apply pkeep_In. right. split; [|exact Ht].
        apply Hacc. apply (accessible_step m q a t); [apply pkeep_accessible; exact Hq|].
        unfold d_delta, d_row. rewrite (assoc_NoDup q row (d_trans m) H3 Hin). apply assoc_NoDup; assumption.
      + left. reflexivity.
    - apply pkeep_In. left. reflexivity.
    - intros q Hq. apply filter_In in Hq. destruct Hq as [_ Hq]. apply memb_In. exact Hq.
  Qed.

  Lemma partial_acc_from w : forall q, In q pkeep ->
    ofinal partialR (dfa_run partialR (Some q) w) = ofinal m (dfa_run m (Some q) w).
  Proof.
    induction w as [|a w IH]; intros q Hq; simpl.
    - rewrite memb_filter. apply memb_In in Hq. rewrite Hq. apply andb_true_r.
    - rewrite (partial_delta q a Hq). destruct (d_delta m q a) as [t|] eqn:E; [|rewrite !dfa_run_None; reflexivity].
      destruct (memb t co) eqn:Et.
      + apply IH. apply pkeep_In. right. split; [|apply memb_In; exact Et].
        apply Hacc. eapply accessible_step; [apply pkeep_accessible; exact Hq|exact E].
      + rewrite dfa_run_None. simpl. symmetry.
        destruct (ofinal m (dfa_run m (Some t) w)) eqn:Ef; [|reflexivity]. exfalso.
        apply memb_false in Et. apply Et. apply Hco. split; [apply (delta_in_states m Hv) in E; tauto|].
        exists w. exact Ef.
  Qed.
End ToPartial.

Theorem to_partial_spec m : valid_dfa m = true ->
  exists R, to_partial_m m = Ok R /\ valid_dfa R = true /\ d_syms R = d_syms m /\
            forall w, dfa_acc R w = dfa_acc m w.
Proof.
  intro Hv. destruct (reach_states_ok m Hv) as [acc [Ea [_ Hacc]]].
  destruct (coreach_states_ok m Hv) as [co [Ec [_ Hco]]].
  exists (partialR m acc co). split; [unfold to_partial_m; rewrite Ea, Ec; reflexivity|].
  split; [apply partial_valid; assumption|]. split; [reflexivity|].
  intro w. unfold dfa_acc, dfa_acc_from. apply (partial_acc_from m Hv acc co Hacc Hco w (d_init m)).
  apply pkeep_In. left. reflexivity.
Qed.
