(* C14 T2, termination: the mirror stack machine returns within the budget machine_fuel, in both
   directions and without any error.
   Measure.  A configuration is a path in the trie of words of length <= H over the n symbols
   (H = max_length, or the number of states when there is none and the language is finite) plus a
   candidate.  Every stack level (and the top) still owes
     - one iteration per candidate symbol not yet looked at, plus one for the return to the parent
       (muB: at most n+1 per level), and
     - the complete traversal of the subtrees below those candidates; a subtree rooted at depth d
       has V d = words_upto n (H-d) nodes (0 beyond H), each costing at most n+1 iterations (muA).
   mu = (n+1)*muA + muB drops by at least one in every iteration: a descent moves one subtree from
   "owed" to "current" (muA drops by 1 node = n+1 iterations, muB grows by the n candidates of the
   new level), next-sibling and return-to-parent drop muB.  The subtrees owed along one path are
   disjoint parts of the trie, so muA <= words_upto n H (stkA_bound), which gives exactly the
   driver's budget.  A descent below depth H is impossible: max_length forbids it, or, without
   max_length, the child would be a useful state at depth >= |Q| of a finite language.
   Symbols of the start word outside the alphabet (next_symbol, e6d88f7): a level whose path holds
   such a symbol has run off the automaton, nothing is entered from it, so it owes no subtree (ok);
   the level of the first such symbol may owe all n subtrees of its parent instead of n-1.
   should_yield (366d64a) plays no role in termination. *)
From Coq Require Import List Arith Bool Lia Sorted.
From AV Require Import Base.Util Base.Closure Spec.Lang Spec.FA Spec.DictOrder Spec.Words Model.Decide
                       Model.Product Model.Succ Model.SuccMachine Proofs.FARun Proofs.Product
                       Proofs.FiniteSucc Proofs.Succ Proofs.SuccMachine Proofs.SuccMachineRev.
Import ListNotations.

(* ---------- the symbols after a given one ---------- *)
Fixpoint tail_after (l : list nat) (a : nat) : list nat :=
  match l with
  | [] => []
  | b :: r => if a =? b then r else tail_after r a
  end.

(* candidates still to be looked at, the current one included *)
Definition remc (l : list nat) (c : option nat) : nat :=
  match c with None => 0 | Some a => S (length (tail_after l a)) end.

Lemma tail_after_incl l a : incl (tail_after l a) l.
Proof.
  induction l as [|b r IH]; simpl; [intros x []|].
  destruct (a =? b); intros x Hx; right; [exact Hx|apply IH; exact Hx].
Qed.

Lemma tail_after_len l a : In a l -> S (length (tail_after l a)) <= length l.
Proof.
  induction l as [|b r IH]; intro H; [destruct H|]. simpl. destruct (a =? b) eqn:E; [lia|].
  apply Nat.eqb_neq in E. destruct H as [H|H]; [congruence|]. specialize (IH H). lia.
Qed.

Lemma sym_succ_tail l a : In a l -> sym_succ l a = Ok (hd_error (tail_after l a)).
Proof.
  induction l as [|b r IH]; intro H; [destruct H|]. simpl. destruct (a =? b) eqn:E; [reflexivity|].
  apply Nat.eqb_neq in E. destruct H as [H|H]; [congruence|apply IH; exact H].
Qed.

Lemma sym_succ_in l a b : sym_succ l a = Ok (Some b) -> In a l /\ In b l.
Proof.
  induction l as [|x r IH]; simpl; [discriminate|]. destruct (a =? x) eqn:E.
  - apply Nat.eqb_eq in E. subst x. destruct r as [|b' r']; simpl; intro H; inversion H; subst.
    split; [left; reflexivity|right; left; reflexivity].
  - intro H. destruct (IH H) as [H1 H2]. split; right; assumption.
Qed.

Lemma sym_succ_remc l : NoDup l -> forall a n, sym_succ l a = Ok n -> remc l n = length (tail_after l a).
Proof.
  induction l as [|x r IH]; intros Hnd a n H; simpl in H; [discriminate|].
  inversion Hnd as [|? ? Hx Hr]; subst. simpl tail_after. destruct (a =? x) eqn:E.
  - destruct r as [|b r']; simpl in H; inversion H; subst; [reflexivity|]. simpl.
    destruct (b =? x) eqn:E1; [apply Nat.eqb_eq in E1; subst; exfalso; apply Hx; left; reflexivity|].
    rewrite Nat.eqb_refl. reflexivity.
  - rewrite <- (IH Hr a n H). destruct n as [b|]; [|reflexivity]. simpl.
    destruct (b =? x) eqn:E1; [|reflexivity]. apply Nat.eqb_eq in E1. subst b.
    exfalso. apply Hx. apply (sym_succ_in r a x H).
Qed.

(* ---------- the size of the trie below depth d ---------- *)
Definition V (n H d : nat) : nat := if d <=? H then words_upto n (H - d) else 0.

Lemma V_step n H d : d <= H -> V n H d = 1 + n * V n H (S d).
Proof.
  intro Hd. unfold V. destruct (d <=? H) eqn:E; [|apply Nat.leb_gt in E; lia].
  destruct (S d <=? H) eqn:E1.
  - apply Nat.leb_le in E1. replace (H - d) with (S (H - S d)) by lia. reflexivity.
  - apply Nat.leb_gt in E1. replace (H - d) with 0 by lia. simpl. lia.
Qed.

Lemma V_ge n H d : n * V n H (S d) <= V n H d.
Proof.
  destruct (le_lt_dec d H) as [Hd|Hd]; [rewrite (V_step n H d Hd); lia|].
  unfold V at 1. destruct (S d <=? H) eqn:E; [apply Nat.leb_le in E; lia|lia].
Qed.

Lemma V_0 n H : V n H 0 = words_upto n H.
Proof. unfold V. simpl. rewrite Nat.sub_0_r. reflexivity. Qed.

Lemma next_sym_res_in l r a b : next_sym l r a = Some b -> In b l.
Proof.
  unfold next_sym. destruct (memb a l) eqn:E.
  - destruct (sym_succ l a) as [n|e] eqn:En; [|discriminate]. intro H. subst n. apply (sym_succ_in l a b En).
  - intro H. apply find_some in H. tauto.
Qed.

Section Total.
  Variable m : dfa.
  Hypothesis Hv : valid_dfa m = true.
  Variables (lo : nat) (ohi : option nat) (reverse : bool).
  Hypothesis Hfin : ohi = None -> finite_lang (L_dfa m).
  Variable co : list nat.
  Hypothesis Hco : forall q, In q co <-> In q (d_states m) /\ coacc m q.
  Variables (syms : list nat) (first : nat) (rest : list nat).
  Hypothesis Esy : syms = first :: rest.
  Hypothesis Hnd : NoDup syms.
  Hypothesis Hsy : forall a, In a syms <-> In a (d_syms m).

  Notation H := (the_hi m ohi).
  Notation n := (length syms).
  Notation run w := (dfa_run m (Some (d_init m)) w).
  Notation Vd := (V n H).

  (* the path lies inside the alphabet *)
  Definition ok (cs : list nat) : bool := forallb (fun c => memb c syms) cs.
  (* candidates left at the parent after returning from the child c *)
  Definition nx (c : nat) : nat := remc syms (next_sym syms reverse c).

  Fixpoint stkA (cs : list nat) : nat :=
    match cs with
    | [] => 0
    | c :: cs' => (if ok cs' then nx c * Vd (S (length cs')) else 0) + stkA cs'
    end.
  Fixpoint stkB (cs : list nat) : nat :=
    match cs with
    | [] => 0
    | c :: cs' => S (nx c) + stkB cs'
    end.
  Definition muA (C : cfg) : nat :=
    (if ok (c_chars C) then remc syms (c_cand C) * Vd (S (length (c_chars C))) else 0) + stkA (c_chars C).
  Definition muB (C : cfg) : nat := S (remc syms (c_cand C)) + stkB (c_chars C).
  Definition mu (C : cfg) : nat := S n * muA C + muB C.

  Lemma remc_first : remc syms (Some first) = n.
  Proof. rewrite Esy. simpl. rewrite Nat.eqb_refl. reflexivity. Qed.

  Lemma first_in : In first syms.
  Proof. rewrite Esy. left. reflexivity. Qed.

  Lemma remc_le c : (forall a, c = Some a -> In a syms) -> remc syms c <= n.
  Proof.
    intro Hc. destruct c as [a|]; [|simpl; lia]. unfold remc. apply tail_after_len. apply Hc. reflexivity.
  Qed.

  Lemma nx_le c : nx c <= n.
  Proof. unfold nx. apply remc_le. intros a Ha. exact (next_sym_res_in syms reverse c a Ha). Qed.

  Lemma nx_in c : In c syms -> nx c = length (tail_after syms c) /\ S (nx c) <= n.
  Proof.
    intro Hc. destruct (sym_succ_total syms c Hc) as [nxt En]. unfold nx.
    rewrite (next_sym_in syms c Hc reverse nxt En), (sym_succ_remc syms Hnd c nxt En).
    split; [reflexivity|apply tail_after_len; exact Hc].
  Qed.

  Lemma ok_cons c cs : ok (c :: cs) = memb c syms && ok cs.
  Proof. reflexivity. Qed.

  (* the subtrees owed along a path are disjoint parts of the trie *)
  Lemma stkA_bound cs : stkA cs + (if ok cs then Vd (length cs) else 0) <= Vd 0.
  Proof.
    induction cs as [|c cs IH]; [simpl; lia|]. simpl stkA. rewrite ok_cons. simpl length.
    pose proof (V_ge n H (length cs)) as Hg. pose proof (nx_le c) as Hle.
    set (v := Vd (S (length cs))) in *.
    destruct (ok cs); [|rewrite andb_false_r; lia].
    rewrite andb_true_r. destruct (memb c syms) eqn:Ec.
    - apply memb_In in Ec. destruct (nx_in c Ec) as [_ Hl].
      assert (Hm : S (nx c) * v <= n * v) by (apply Nat.mul_le_mono_r; exact Hl). lia.
    - assert (Hm : nx c * v <= n * v) by (apply Nat.mul_le_mono_r; exact Hle). lia.
  Qed.

  Lemma stkB_bound cs : stkB cs <= length cs * S n.
  Proof.
    induction cs as [|c cs IH]; [simpl; lia|]. pose proof (nx_le c) as Hl. simpl stkB. simpl length.
    simpl Nat.mul. lia.
  Qed.

  (* a descent happens above depth H only, and only from a path inside the alphabet *)
  Lemma descend_depth p a :
    in_co co (ostep m (run p) a) && can_descend ohi (length p) = true ->
    S (length p) <= H /\ Forall (fun c => In c syms) p.
  Proof.
    intro E. apply andb_true_iff in E. destruct E as [E1 E2]. split.
    - unfold the_hi. destruct ohi as [h|] eqn:Eo.
      + simpl in E2. apply Nat.ltb_lt in E2. lia.
      + destruct (ostep m (run p) a) as [t|] eqn:Et; [|discriminate]. simpl in E1.
        apply memb_In in E1. apply Hco in E1. destruct E1 as [_ [z Hz]].
        destruct (finite_isfinite m Hv (Hfin eq_refl)) as [_ Hb].
        assert (Hacc : L_dfa m (p ++ a :: z)).
        { unfold L_dfa, dfa_acc, dfa_acc_from. rewrite dfa_run_app. unfold dfa_acc_from in Hz.
          replace (dfa_run m (run p) (a :: z)) with (dfa_run m (ostep m (run p) a) z) by reflexivity.
          rewrite Et. exact Hz. }
        specialize (Hb _ Hacc). rewrite app_length in Hb. simpl in Hb. unfold default_hi. lia.
    - destruct (run p) as [q|] eqn:Er; [|simpl in E1; discriminate].
      pose proof (run_some_syms m Hv p _ _ Er) as Hp. rewrite Forall_forall in *.
      intros c Hc. apply Hsy. apply Hp. exact Hc.
  Qed.

  Lemma ok_of_Forall cs : Forall (fun c => In c syms) cs -> ok cs = true.
  Proof.
    intro Hf. unfold ok. apply forallb_forall. rewrite Forall_forall in Hf.
    intros c Hc. apply memb_In. apply Hf. exact Hc.
  Qed.

  (* one loop iteration: no error, well-formedness kept, the measure drops *)
  Lemma step_total C : wf m syms C -> (c_chars C <> [] \/ c_cand C <> None) ->
    exists y C', mstep m co syms first reverse lo ohi C = Ok (y, C') /\ wf m syms C' /\ mu C' < mu C.
  Proof.
    intros [Hst Hcand] Hne. unfold mstep.
    destruct (stack_top m _ _ Hst) as [below Ess]. rewrite Ess. cbv zeta.
    set (p := rev (c_chars C)) in *.
    destruct (c_cand C) as [a|] eqn:Ec.
    - assert (Ha : In a syms) by (apply Hcand; reflexivity).
      destruct (nx_in a Ha) as [Hnx _].
      destruct (in_co co (ostep m (run p) a) && can_descend ohi (length (c_chars C))) eqn:Evi.
      + (* descend *)
        eexists. eexists. split; [reflexivity|]. split.
        * split; simpl.
          -- split; [|rewrite <- Ess; exact Hst]. fold p. rewrite dfa_run_app. reflexivity.
          -- intros x Hx. injection Hx as <-. exact first_in.
        * assert (Hd : S (length (c_chars C)) <= H /\ ok (c_chars C) = true).
          { replace (length (c_chars C)) with (length p) by (unfold p; apply rev_length).
            destruct (descend_depth p a) as [H1 H2]; [unfold p at 2; rewrite rev_length; exact Evi|].
            split; [exact H1|]. apply ok_of_Forall. unfold p in H2. apply Forall_rev in H2.
            rewrite rev_involutive in H2. exact H2. }
          destruct Hd as [Hd Hok].
          unfold mu, muA, muB. rewrite Ec. simpl c_cand. simpl c_chars. rewrite remc_first.
          simpl stkA. simpl stkB. rewrite ok_cons, Hok. apply memb_In in Ha. rewrite Ha. simpl andb. cbv iota.
          simpl length. unfold remc. rewrite Hnx.
          rewrite (V_step n H (S (length (c_chars C))) Hd).
          set (r := length (tail_after syms a)). set (v := Vd (S (S (length (c_chars C))))).
          set (A := stkA (c_chars C)). set (B := stkB (c_chars C)). set (k := n). nia.
      + (* next sibling *)
        eexists. eexists. split; [reflexivity|]. split.
        * split; simpl; [rewrite <- Ess; exact Hst|].
          intros x Hx. exact (next_sym_res_in syms reverse a x Hx).
        * unfold mu, muA, muB. rewrite Ec. simpl c_cand. simpl c_chars. fold (nx a). rewrite Hnx. unfold remc.
          set (r := length (tail_after syms a)). set (v := Vd (S (length (c_chars C)))).
          set (A := stkA (c_chars C)). set (B := stkB (c_chars C)). set (k := n).
          destruct (ok (c_chars C)); nia.
    - (* return to the parent *)
      destruct (c_chars C) as [|a cs] eqn:Ecs; [destruct Hne as [Hne|Hne]; congruence|].
      eexists. eexists. split; [reflexivity|]. split.
      + simpl in Hst. rewrite Ess in Hst. destruct Hst as [_ Hst].
        split; simpl; [exact Hst|].
        intros x Hx. exact (next_sym_res_in syms reverse a x Hx).
      + unfold mu, muA, muB. rewrite Ec, Ecs. simpl c_cand. simpl c_chars. fold (nx a).
        simpl remc. simpl stkA. simpl stkB.
        set (r := nx a). set (v := Vd (S (length cs))).
        set (A := stkA cs). set (B := stkB cs). set (k := n).
        destruct (ok (a :: cs)); destruct (ok cs); nia.
  Qed.

  Lemma loop_total : forall f C, wf m syms C -> mu C <= f ->
    exists l, mloop m co syms first reverse lo ohi f C = Ok l.
  Proof.
    assert (Hexit : forall C, wf m syms C ->
              exists l, match c_states C with [] => Err IndexErr
                        | state :: _ => Ok (emit m lo ohi C state reverse true) end = Ok l).
    { intros C [Hst _]. destruct (stack_top m _ _ Hst) as [below Ess]. rewrite Ess. eexists. reflexivity. }
    assert (Hpos : forall C, 1 <= mu C) by (intro C; unfold mu, muB; lia).
    induction f as [|f IH]; intros C Hwf Hmu.
    - specialize (Hpos C). lia.
    - assert (Hstep : c_chars C <> [] \/ c_cand C <> None ->
                exists l, bind (mstep m co syms first reverse lo ohi C)
                            (fun yc => bind (mloop m co syms first reverse lo ohi f (snd yc))
                                            (fun l => Ok (fst yc ++ l))) = Ok l).
      { intro Hne. destruct (step_total C Hwf Hne) as [y [C' [Est [Hwf' Hlt]]]]. rewrite Est. simpl.
        destruct (IH C' Hwf') as [l' El]; [lia|]. rewrite El. simpl. eexists. reflexivity. }
      simpl. destruct (c_chars C) eqn:Ecs; destruct (c_cand C) eqn:Ec;
        try (apply Hstep; (left; discriminate) || (right; discriminate)).
      apply Hexit. exact Hwf.
  Qed.

  (* the initial configuration fits the driver's budget, whatever the start word *)
  Lemma mu_init start strict :
    mu (init_cfg m first start strict reverse)
      <= (words_upto n H + match start with Some s => length s | None => 0 end + 1) * (n + 2).
  Proof.
    unfold init_cfg. destruct start as [s|].
    - set (cand := if reverse then None else Some first).
      assert (Hr : remc syms cand <= n).
      { apply remc_le. unfold cand. intros a Ha. destruct reverse; [discriminate|].
        injection Ha as <-. exact first_in. }
      unfold mu, muA, muB. simpl c_cand. simpl c_chars. fold cand.
      pose proof (stkA_bound (rev s)) as HA. pose proof (stkB_bound (rev s)) as HB.
      rewrite rev_length in *. pose proof (V_ge n H (length s)) as Hg. rewrite V_0 in HA.
      set (r := remc syms cand) in *. set (v := Vd (S (length s))) in *.
      assert (Hm : r * v <= n * v) by (apply Nat.mul_le_mono_r; exact Hr).
      set (A := stkA (rev s)) in *. set (B := stkB (rev s)) in *. set (W := words_upto n H) in *.
      set (k := length s) in *. set (nn := n) in *. destruct (ok (rev s)); nia.
    - unfold mu, muA, muB. simpl c_cand. simpl c_chars. rewrite remc_first. simpl stkA. simpl stkB.
      simpl ok. cbv iota.
      change (length (@nil nat)) with 0. pose proof (V_ge n H 0) as Hg. rewrite V_0 in Hg.
      set (v := Vd 1) in *. set (W := words_upto n H) in *. set (nn := n) in *. nia.
  Qed.
End Total.

(* ---------- the theorem: no hypothesis on the start word or on the alphabet ---------- *)
Theorem machine_total fuel m start strict reverse lo ohi :
  valid_dfa m = true ->
  (reverse = true \/ ohi = None -> finite_lang (L_dfa m)) ->
  machine_fuel m start ohi <= fuel ->
  exists l, succ_machine fuel m start strict reverse lo ohi = Ok l.
Proof.
  intros Hv Hfin Hfuel. unfold succ_machine.
  assert (Efin : (if reverse then isfinite_m m else Ok true) = Ok true).
  { destruct reverse; [|reflexivity]. apply (finite_isfinite m Hv). apply Hfin. left. reflexivity. }
  rewrite Efin. simpl.
  destruct (coreach_states_ok m Hv) as [co [Eco Hco]]. rewrite Eco. simpl.
  assert (Hnd : NoDup (machine_syms m reverse)).
  { pose proof (ss_NoDup _ lt (set_of (d_syms m)) Nat.lt_irrefl (ssorted_SS _ (set_of_sorted (d_syms m)))) as Hn.
    unfold machine_syms. destruct reverse; [apply NoDup_rev; exact Hn|exact Hn]. }
  assert (Hsy : forall a, In a (machine_syms m reverse) <-> In a (d_syms m)).
  { intro a. unfold machine_syms. destruct reverse; [rewrite <- in_rev|]; apply set_of_In. }
  assert (Hlen : length (machine_syms m reverse) = length (set_of (d_syms m))).
  { unfold machine_syms. destruct reverse; [apply rev_length|reflexivity]. }
  destruct (machine_syms m reverse) as [|first rest] eqn:Esy.
  - eexists. reflexivity.
  - assert (Hfin' : ohi = None -> finite_lang (L_dfa m)) by (intro E; apply Hfin; right; exact E).
    apply (loop_total m Hv lo ohi reverse Hfin' co Hco (first :: rest) first rest eq_refl Hnd Hsy).
    + unfold init_cfg. destruct start as [s|]; split; simpl.
      * apply (trace_rev_ok m s [] [] (Some (d_init m))); reflexivity.
      * intros a Ha. destruct reverse; [discriminate|]. inversion Ha; subst. left. reflexivity.
      * reflexivity.
      * intros a Ha. inversion Ha; subst. left. reflexivity.
    + pose proof (mu_init m ohi reverse (first :: rest) first rest eq_refl Hnd start strict) as Hmu.
      unfold machine_fuel in Hfuel. cbv zeta in Hfuel. rewrite Hlen in Hmu.
      eapply Nat.le_trans; [exact Hmu|]. eapply Nat.le_trans; [apply Nat.le_succ_diag_r|exact Hfuel].
Qed.

(* total correctness: within the budget the machine returns exactly the specified list *)
Theorem machine_forward_total fuel m start strict lo ohi :
  valid_dfa m = true ->
  (ohi = None -> finite_lang (L_dfa m)) ->
  machine_fuel m start ohi <= fuel ->
  succ_machine fuel m start strict false lo ohi = Ok (succ_list m start strict lo (the_hi m ohi)).
Proof.
  intros Hv Hfin Hfuel.
  destruct (machine_total fuel m start strict false lo ohi Hv) as [l El]; try assumption.
  - intros [E|E]; [discriminate|apply Hfin; exact E].
  - rewrite El. f_equal. exact (machine_forward_correct fuel m start strict lo ohi l Hv Hfin El).
Qed.

Theorem machine_reverse_total fuel m start strict lo ohi :
  valid_dfa m = true ->
  finite_lang (L_dfa m) ->
  machine_fuel m start ohi <= fuel ->
  succ_machine fuel m start strict true lo ohi = Ok (pred_list m start strict lo (the_hi m ohi)).
Proof.
  intros Hv Hfin Hfuel.
  destruct (machine_total fuel m start strict true lo ohi Hv) as [l El]; try assumption.
  - intros _. exact Hfin.
  - rewrite El. f_equal. exact (machine_reverse_correct fuel m start strict lo ohi l Hv Hfin El).
Qed.
