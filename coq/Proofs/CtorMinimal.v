(* Minimality for C15.
   1. is_minimal (Model/Construct.v) is sound, unconditionally: Proofs/IsMinimal.v proved it from the
      Myhill-Nerode lower bound as a hypothesis; the lower bound is Proofs/Minimize.v
      (lower_bound_complete / lower_bound_live).
   2. is_minimal is also complete (a valid DFA whose states are all accessible, pairwise
      distinguishable and - when flagged partial - live passes the test).
   3. The constructor models are minimal for ALL parameters: every state is reached by an explicit
      word and every pair of states is told apart by an explicit word. *)
From Coq Require Import List Arith Bool Lia.
From AV Require Import Base.Util Base.Closure Spec.Lang Spec.FA Spec.Minimal Spec.Preds Model.Decide Model.Product
                       Model.Construct Proofs.FARun Proofs.Decide Proofs.Product Proofs.Preds Proofs.Border
                       Proofs.Construct Proofs.IsMinimal.
Require AV.Proofs.Minimize.
Import ListNotations.

(* ---------- 1. soundness ---------- *)
Lemma nerode_lower_bound : nerode_lower_bound_statement.
Proof.
  intros A B HvA HvB Hl Hacc Hdist. split.
  - exact (AV.Proofs.Minimize.lower_bound_complete A B HvA HvB Hl Hacc Hdist).
  - exact (AV.Proofs.Minimize.lower_bound_live A B HvA HvB Hl Hacc Hdist).
Qed.

Theorem is_minimal_sound m : valid_dfa m = true -> is_minimal m = true ->
  minimal_complete m /\ (d_partial m = true -> minimal_partial m).
Proof.
  intros Hv Hm. destruct (is_minimal_sound_of_lower_bound nerode_lower_bound m Hv Hm) as [Hc Hp]. split.
  - exact Hc.
  - intros Ep m' Hv' _ HL. exact (Hp Ep m' Hv' HL).
Qed.

(* ---------- 2. completeness ---------- *)
Lemma all_pairs_intro (r : nat -> nat -> bool) l : NoDup l ->
  (forall x y, In x l -> In y l -> x <> y -> r x y = true) -> all_pairs r l = true.
Proof.
  induction l as [|p rest IH]; intros Hnd H; [reflexivity|].
  inversion Hnd as [|? ? Hnot Hnd']; subst. simpl. apply andb_true_iff. split.
  - apply forallb_forall. intros y Hy. apply H; [left; reflexivity|right; exact Hy|].
    intros ->. contradiction.
  - apply IH; [exact Hnd'|]. intros x y Hx Hy. apply H; right; assumption.
Qed.

Lemma distinguishable_intro m p q : valid_dfa m = true -> In p (d_states m) -> In q (d_states m) ->
  (exists w, dfa_acc_from m (Some p) w <> dfa_acc_from m (Some q) w) -> distinguishable m p q = true.
Proof.
  intros Hv Hp Hq [w Hw]. unfold distinguishable.
  destruct (dfa_diff_spec (with_init m p) (with_init m q) (with_init_valid m p Hv Hp) (with_init_valid m q Hv Hq))
    as [r [E [Hn _]]].
  rewrite E. destruct r as [w'|]; [reflexivity|]. exfalso.
  pose proof (proj1 Hn eq_refl w) as HL. unfold L_dfa in HL. rewrite !acc_with_init in HL.
  apply Hw. destruct (dfa_acc_from m (Some p) w), (dfa_acc_from m (Some q) w); try reflexivity.
  - symmetry. apply HL. reflexivity.
  - apply HL. reflexivity.
Qed.

Lemma live_intro m q : valid_dfa m = true -> In q (d_states m) ->
  (exists w, dfa_acc_from m (Some q) w = true) -> live m q = true.
Proof.
  intros Hv Hq [w Hw]. unfold live.
  assert (Hnd : NoDup (d_syms m)).
  { destruct (valid_dfa_parts m Hv) as (_ & H & _). exact H. }
  destruct (dfa_diff_spec (with_init m q) (empty_m (d_syms m)) (with_init_valid m q Hv Hq) (empty_valid _ Hnd))
    as [r [E [Hn _]]].
  rewrite E. destruct r as [w'|]; [reflexivity|]. exfalso.
  pose proof (proj1 Hn eq_refl w) as HL. unfold L_dfa in HL. rewrite acc_with_init, empty_acc in HL.
  apply HL in Hw. discriminate.
Qed.

Theorem is_minimal_intro m : valid_dfa m = true ->
  (forall r, In r (d_states m) -> exists u, dfa_run m (Some (d_init m)) u = Some r) ->
  (forall r1 r2, In r1 (d_states m) -> In r2 (d_states m) -> r1 <> r2 ->
     exists w, dfa_acc_from m (Some r1) w <> dfa_acc_from m (Some r2) w) ->
  (d_partial m = true -> forall r, In r (d_states m) -> exists w, dfa_acc_from m (Some r) w = true) ->
  is_minimal m = true.
Proof.
  intros Hv Hacc Hdist Hlive. unfold is_minimal, reach_states.
  destruct (closure Nat.eqb _ (S (length (d_states m))) [d_init m]) as [qs|] eqn:E; simpl.
  - repeat (apply andb_true_iff; split).
    + apply forallb_forall. intros q Hq. apply memb_In.
      apply (closure_complete _ _ eqb_nat_ok _ _ _ _ E). apply (reach_run m Hv). apply Hacc. exact Hq.
    + apply all_pairs_intro.
      * destruct (valid_dfa_parts m Hv) as (H & _). exact H.
      * intros x y Hx Hy Hne. apply distinguishable_intro; try assumption. apply Hdist; assumption.
    + destruct (d_partial m) eqn:Ep; [|reflexivity]. simpl. apply orb_true_iff. right.
      apply forallb_forall. intros q Hq. apply live_intro; try assumption. apply Hlive; [reflexivity|exact Hq].
  - exfalso. revert E. apply (closure_fuel _ _ eqb_nat_ok _ (d_states m)).
    + intros x y _ Hy. apply (row_succ m Hv) in Hy. destruct Hy as [c Hc].
      apply (delta_in_states m Hv) in Hc. tauto.
    + intros x [<-|[]]. destruct (valid_dfa_parts m Hv) as (_ & _ & _ & _ & _ & H & _). exact H.
    + lia.
Qed.

(* ---------- 3. table DFAs: explicit access and distinguishing words ---------- *)
Section TableMin.
  Variable syms : list nat.
  Variable n : nat.
  Variable f : nat -> nat -> option nat.
  Variable fin : nat -> bool.
  Variable partial : bool.
  Hypothesis Hn : 0 < n.
  Hypothesis Hclosed : forall q a t, q < n -> In a syms -> f q a = Some t -> t < n.

  Let M := table_dfa syms n f fin partial.
  Hypothesis Hvalid : valid_dfa M = true.

  Lemma table_acc_from q w : q < n ->
    dfa_acc_from M (Some q) w = overb syms w && afin fin (arun f (Some q) w).
  Proof.
    intro Hq. unfold dfa_acc_from. unfold M. rewrite (table_run syms n f fin partial Hclosed w q Hq).
    destruct (overb syms w) eqn:Ho; [|reflexivity]. simpl.
    destruct (arun f (Some q) w) as [t|] eqn:E; [|reflexivity]. simpl.
    unfold table_dfa. simpl. rewrite memb_filter, memb_seq.
    assert (Ht : Nat.ltb t n = true) by (apply Nat.ltb_lt; eapply (arun_lt syms n f Hclosed); eassumption).
    rewrite Ht. reflexivity.
  Qed.

  Hypothesis Hreach : forall q, q < n -> exists u, overb syms u = true /\ arun f (Some 0) u = Some q.
  Hypothesis Hdist : forall q1 q2, q1 < q2 -> q2 < n ->
    exists w, overb syms w = true /\ afin fin (arun f (Some q1) w) <> afin fin (arun f (Some q2) w).
  Hypothesis Hlive : partial = true -> forall q, q < n ->
    exists w, overb syms w = true /\ afin fin (arun f (Some q) w) = true.

  Theorem table_is_minimal : is_minimal M = true.
  Proof.
    assert (Hst : forall r, In r (d_states M) -> r < n).
    { intros r Hr. unfold M, table_dfa in Hr. simpl in Hr. apply in_seq in Hr. lia. }
    apply is_minimal_intro; [exact Hvalid| | |].
    - intros r Hr. destruct (Hreach r (Hst r Hr)) as [u [Ho Hu]]. exists u.
      change (d_init M) with 0. unfold M. rewrite (table_run syms n f fin partial Hclosed u 0 Hn), Ho. exact Hu.
    - assert (Hlt : forall r1 r2, r1 < r2 -> r2 < n ->
                exists w, dfa_acc_from M (Some r1) w <> dfa_acc_from M (Some r2) w).
      { intros r1 r2 H12 H2. destruct (Hdist r1 r2 H12 H2) as [w [Ho Hw]]. exists w.
        rewrite !table_acc_from by lia. rewrite Ho. exact Hw. }
      intros r1 r2 H1 H2 Hne. apply Hst in H1. apply Hst in H2.
      destruct (Nat.lt_ge_cases r1 r2) as [Hl|Hg].
      + apply Hlt; assumption.
      + destruct (Hlt r2 r1 ltac:(lia) H1) as [w Hw]. exists w. congruence.
    - intros Hp r Hr. destruct (Hlive Hp r (Hst r Hr)) as [w [Ho Hw]]. exists w.
      rewrite table_acc_from by (apply Hst; exact Hr). rewrite Ho. exact Hw.
  Qed.
End TableMin.

(* ---------- helpers ---------- *)
Lemma overb_firstn syms (p : word) k : overb syms p = true -> overb syms (firstn k p) = true.
Proof.
  intro H. rewrite <- (firstn_skipn k p), overb_app in H. apply andb_true_iff in H. tauto.
Qed.

Lemma overb_skipn syms (p : word) k : overb syms p = true -> overb syms (skipn k p) = true.
Proof.
  intro H. rewrite <- (firstn_skipn k p), overb_app in H. apply andb_true_iff in H. tauto.
Qed.

Lemma overb_repeat syms a k : In a syms -> overb syms (repeat a k) = true.
Proof.
  intro Ha. induction k as [|k IH]; [reflexivity|]. simpl. rewrite IH.
  assert (E : memb a syms = true) by (apply memb_In; exact Ha). rewrite E. reflexivity.
Qed.

Lemma counted_repeat cs a k : memb a cs = true -> counted cs (repeat a k) = k.
Proof.
  intro Ha. induction k as [|k IH]; [reflexivity|]. simpl repeat. rewrite counted_cons, Ha, IH. reflexivity.
Qed.

Lemma exists_other (syms : list nat) x : NoDup syms -> 2 <= length syms -> exists a, In a syms /\ a <> x.
Proof.
  intros Hnd Hl. destruct syms as [|s0 [|s1 r]]; simpl in Hl; try lia.
  inversion Hnd as [|? ? Hnot _]; subst.
  destruct (Nat.eq_dec s0 x) as [->|Hne].
  - exists s1. split; [right; left; reflexivity|]. intros ->. apply Hnot. left. reflexivity.
  - exists s0. split; [left; reflexivity|exact Hne].
Qed.

Lemma skipn_length_le (p : word) q : length (skipn q p) = length p - q.
Proof. apply skipn_length. Qed.

(* ---------- universal_language / empty_language ---------- *)
Theorem universal_is_minimal syms : NoDup syms -> is_minimal (universal_m syms) = true.
Proof.
  intro Hnd. unfold universal_m. apply table_is_minimal.
  - lia.
  - intros q a t _ _ E; inversion E; lia.
  - apply universal_valid. exact Hnd.
  - intros q Hq. exists []. split; [reflexivity|]. simpl. f_equal. lia.
  - intros q1 q2 H1 H2. lia.
  - discriminate.
Qed.

Theorem empty_is_minimal syms : NoDup syms -> is_minimal (empty_m syms) = true.
Proof.
  intro Hnd. unfold empty_m. apply table_is_minimal.
  - lia.
  - intros q a t _ _ E; inversion E; lia.
  - apply empty_valid. exact Hnd.
  - intros q Hq. exists []. split; [reflexivity|]. simpl. f_equal. lia.
  - intros q1 q2 H1 H2. lia.
  - discriminate.
Qed.

(* ---------- from_subsequence ---------- *)
Section SubseqMin.
  Variable p : word.
  Let l := length p.
  Let f := subseq_f p.

  Lemma subseq_along k : forall q, q + k <= l -> arun f (Some q) (firstn k (skipn q p)) = Some (q + k).
  Proof.
    induction k as [|k IH]; intros q Hq.
    - simpl. f_equal. lia.
    - destruct (nth_error p q) as [x|] eqn:E; [|apply nth_error_None in E; unfold l in Hq; lia].
      rewrite (skipn_nth_error p q x E). cbn [firstn]. rewrite arun_cons.
      change (astep f (Some q) x) with (subseq_f p q x). unfold subseq_f. rewrite E, Nat.eqb_refl.
      rewrite IH by lia. f_equal. lia.
  Qed.

  Lemma subseq_le w : forall q, q <= l -> exists t, arun f (Some q) w = Some t /\ t <= q + length w /\ t <= l.
  Proof.
    induction w as [|a w IH]; intros q Hq.
    - exists q. split; [reflexivity|]. simpl. lia.
    - rewrite arun_cons. change (astep f (Some q) a) with (subseq_f p q a). unfold subseq_f.
      destruct (nth_error p q) as [x|] eqn:E.
      + assert (Hlt : q < l) by (apply nth_error_Some; congruence).
        destruct (Nat.eqb x a).
        * destruct (IH (S q) Hlt) as [t [Ht [H1 H2]]]. exists t. split; [exact Ht|]. simpl. lia.
        * destruct (IH q Hq) as [t [Ht [H1 H2]]]. exists t. split; [exact Ht|]. simpl. lia.
      + destruct (IH q Hq) as [t [Ht [H1 H2]]]. exists t. split; [exact Ht|]. simpl. lia.
  Qed.
End SubseqMin.

Theorem from_subsequence_is_minimal syms p c : NoDup syms -> overb syms p = true ->
  is_minimal (from_subsequence_m syms p c) = true.
Proof.
  intros Hnd Hp. unfold from_subsequence_m. apply table_is_minimal.
  - lia.
  - intros q a t Hq _ H. eapply subseq_closed; eassumption.
  - apply from_subsequence_valid. exact Hnd.
  - intros q Hq. exists (firstn q p). split; [apply overb_firstn; exact Hp|].
    pose proof (subseq_along p q 0 ltac:(lia)) as H. simpl in H. exact H.
  - intros q1 q2 H12 H2. exists (skipn q2 p). split; [apply overb_skipn; exact Hp|].
    pose proof (subseq_along p (length p - q2) q2 ltac:(lia)) as Hb.
    rewrite firstn_all2 in Hb by (rewrite skipn_length; lia).
    replace (q2 + (length p - q2)) with (length p) in Hb by lia. rewrite Hb.
    destruct (subseq_le p (skipn q2 p) q1 ltac:(lia)) as [t [Ht [H1 _]]]. rewrite Ht.
    rewrite skipn_length in H1. cbn [afin]. rewrite Nat.eqb_refl.
    assert (E : Nat.eqb t (length p) = false) by (apply Nat.eqb_neq; lia). rewrite E.
    destruct c; discriminate.
  - discriminate.
Qed.

(* ---------- from_prefix ---------- *)
Section PrefixMin.
  Variable p : word.
  Variable e : bool.
  Let l := length p.
  Let f := prefix_f p e.

  Lemma prefix_along k : forall q, q + k <= l -> arun f (Some q) (firstn k (skipn q p)) = Some (q + k).
  Proof.
    induction k as [|k IH]; intros q Hq.
    - simpl. f_equal. lia.
    - destruct (nth_error p q) as [x|] eqn:E; [|apply nth_error_None in E; unfold l in Hq; lia].
      rewrite (skipn_nth_error p q x E). cbn [firstn]. rewrite arun_cons.
      change (astep f (Some q) x) with (prefix_f p e q x). unfold prefix_f. rewrite E, Nat.eqb_refl.
      rewrite IH by lia. f_equal. lia.
  Qed.

  (* too short a word never completes the pattern *)
  Lemma prefix_short w : forall q, q + length w < l -> arun f (Some q) w <> Some l.
  Proof.
    induction w as [|a w IH]; intros q Hq.
    - simpl in *. intro H. inversion H. lia.
    - rewrite arun_cons. change (astep f (Some q) a) with (prefix_f p e q a). unfold prefix_f.
      simpl in Hq. destruct (nth_error p q) as [x|] eqn:E; [|apply nth_error_None in E; unfold l in Hq; lia].
      destruct (Nat.eqb x a).
      + apply IH. lia.
      + destruct (Bool.bool_dec e true) as [Ee|Ee].
        * rewrite Ee. change (arun (prefix_f p e) (Some (S (length p))) w <> Some (length p)).
          rewrite (prefix_abs_err p e w). intro H. inversion H. lia.
        * apply not_true_is_false in Ee. rewrite Ee. rewrite arun_None. discriminate.
  Qed.

  Lemma prefix_never_None w : e = true -> forall q, arun f (Some q) w <> None.
  Proof.
    intro Ee. induction w as [|a w IH]; intro q; [discriminate|].
    rewrite arun_cons. change (astep f (Some q) a) with (prefix_f p e q a). unfold prefix_f. rewrite Ee.
    destruct (nth_error p q) as [x|]; [destruct (Nat.eqb x a)|destruct (Nat.eqb q (length p))]; apply IH.
  Qed.
End PrefixMin.

Lemma afin_not_l c l (r : option nat) : r <> Some l ->
  afin (fun q => flagb c (Nat.eqb q l)) r = match r with Some _ => negb c | None => false end.
Proof.
  intro H. destruct r as [t|]; [|reflexivity]. cbn [afin].
  assert (E : Nat.eqb t l = false) by (apply Nat.eqb_neq; congruence). rewrite E. destruct c; reflexivity.
Qed.

Theorem from_prefix_is_minimal syms p c ap : NoDup syms -> overb syms p = true -> p <> [] ->
  (prefix_needs_err c ap = true -> 2 <= length syms) ->
  is_minimal (from_prefix_m syms p c ap) = true.
Proof.
  intros Hnd Hp Hne Hsy. unfold from_prefix_m.
  set (e := prefix_needs_err c ap) in *.
  assert (Hl : 0 < length p) by (destruct p; [congruence|simpl; lia]).
  assert (Hgo : forall q, q <= length p -> arun (prefix_f p e) (Some q) (skipn q p) = Some (length p)).
  { intros q Hq. pose proof (prefix_along p e (length p - q) q ltac:(lia)) as Hb.
    rewrite firstn_all2 in Hb by (rewrite skipn_length; lia).
    replace (q + (length p - q)) with (length p) in Hb by lia. exact Hb. }
  apply table_is_minimal.
  - destruct e; lia.
  - intros q a t Hq _ H. eapply prefix_closed; [exact Hq|exact H].
  - apply from_prefix_valid; assumption.
  - (* access *)
    intros q Hq. destruct (Nat.le_gt_cases q (length p)) as [Hle|Hgt].
    + exists (firstn q p). split; [apply overb_firstn; exact Hp|].
      pose proof (prefix_along p e q 0 ltac:(lia)) as H. simpl in H. exact H.
    + destruct e eqn:Ee; [|lia]. assert (q = S (length p)) by lia. subst q.
      destruct p as [|x p']; [congruence|].
      destruct (exists_other syms x Hnd (Hsy eq_refl)) as [a [Ha Hax]].
      exists [a]. split.
      * simpl. assert (E : memb a syms = true) by (apply memb_In; exact Ha). rewrite E. reflexivity.
      * cbn [arun fold_left astep]. unfold prefix_f. cbn [nth_error].
        assert (E : Nat.eqb x a = false) by (apply Nat.eqb_neq; congruence). rewrite E. reflexivity.
  - (* distinguishing words *)
    intros q1 q2 H12 H2. destruct (Nat.le_gt_cases q2 (length p)) as [Hle|Hgt].
    + exists (skipn q2 p). split; [apply overb_skipn; exact Hp|].
      rewrite (Hgo q2 Hle). cbn [afin]. rewrite Nat.eqb_refl.
      rewrite afin_not_l by (apply prefix_short; rewrite skipn_length; lia).
      destruct (arun (prefix_f p e) (Some q1) (skipn q2 p)) as [t|] eqn:Er.
      * destruct c; simpl; discriminate.
      * destruct c; simpl; [discriminate|]. exfalso.
        assert (Ee : e = true) by (unfold e, prefix_needs_err; simpl; apply orb_true_r).
        exact (prefix_never_None p e (skipn q2 p) Ee q1 Er).
    + destruct e eqn:Ee; [|lia]. assert (q2 = S (length p)) by lia. subst q2.
      exists (skipn q1 p). split; [apply overb_skipn; exact Hp|].
      rewrite (Hgo q1 ltac:(lia)). rewrite (prefix_abs_err p true). cbn [afin]. rewrite Nat.eqb_refl.
      assert (E : Nat.eqb (S (length p)) (length p) = false) by (apply Nat.eqb_neq; lia). rewrite E.
      destruct c; discriminate.
  - (* live when partial *)
    intros Hpart q Hq. destruct e eqn:Ee; [discriminate|].
    assert (Hc : c = true) by (apply (prefix_flag_compat c ap); exact Ee). subst c.
    exists (skipn q p). split; [apply overb_skipn; exact Hp|].
    rewrite (Hgo q ltac:(lia)). cbn [afin flagb]. apply Nat.eqb_refl.
Qed.

(* ---------- of_length ---------- *)
(* side conditions: the range is not empty (lo <= hi) and some symbol of the alphabet is counted *)
Theorem of_length_is_minimal syms lo hi cnt a : NoDup syms ->
  In a syms -> In a (counted_set syms cnt) ->
  match hi with Some h => lo <= h | None => True end ->
  is_minimal (of_length_m syms lo hi cnt) = true.
Proof.
  intros Hnd Ha Hc Hr. unfold of_length_m. fold (counted_set syms cnt). set (cs := counted_set syms cnt) in *.
  assert (Hm : memb a cs = true) by (apply memb_In; exact Hc).
  destruct hi as [h|].
  - apply table_is_minimal.
    + lia.
    + intros q b t Hq _. destruct (Nat.leb q h) eqn:E.
      * apply Nat.leb_le in E. destruct (memb b cs); intro H; inversion H; subst; lia.
      * intro H; inversion H; subst. exact Hq.
    + apply (of_length_valid syms lo (Some h) cnt). exact Hnd.
    + intros q Hq. exists (repeat a q). split; [apply overb_repeat; exact Ha|].
      rewrite of_length_arun_closed by lia. rewrite counted_repeat by exact Hm. f_equal. lia.
    + intros q1 q2 H12 H2. exists (repeat a (h - q1)). split; [apply overb_repeat; exact Ha|].
      rewrite !of_length_arun_closed by lia. rewrite counted_repeat by exact Hm. cbn [afin].
      replace (Nat.min (q1 + (h - q1)) (S h)) with h by lia.
      replace (Nat.min (q2 + (h - q1)) (S h)) with (S h) by lia.
      assert (E1 : Nat.leb lo h && Nat.leb h h = true)
        by (apply andb_true_iff; split; apply Nat.leb_le; lia).
      assert (E2 : Nat.leb lo (S h) && Nat.leb (S h) h = false)
        by (apply andb_false_iff; right; apply Nat.leb_gt; lia).
      rewrite E1, E2. discriminate.
    + discriminate.
  - apply table_is_minimal.
    + lia.
    + intros q b t Hq _. destruct (Nat.ltb q lo) eqn:E.
      * apply Nat.ltb_lt in E. destruct (memb b cs); intro H; inversion H; subst; lia.
      * intro H; inversion H; subst. exact Hq.
    + apply (of_length_valid syms lo None cnt). exact Hnd.
    + intros q Hq. exists (repeat a q). split; [apply overb_repeat; exact Ha|].
      rewrite of_length_arun_open by lia. rewrite counted_repeat by exact Hm. f_equal. lia.
    + intros q1 q2 H12 H2. exists (repeat a (lo - q2)). split; [apply overb_repeat; exact Ha|].
      rewrite !of_length_arun_open by lia. rewrite counted_repeat by exact Hm. cbn [afin].
      replace (Nat.min (q2 + (lo - q2)) lo) with lo by lia. rewrite Nat.eqb_refl.
      assert (E : Nat.eqb (Nat.min (q1 + (lo - q2)) lo) lo = false) by (apply Nat.eqb_neq; lia).
      rewrite E. discriminate.
    + discriminate.
Qed.

(* ---------- nth_from_start ---------- *)
Lemma nth_startb_repeat s i k : nth_startb s (S i) (repeat s k) = Nat.ltb i k.
Proof.
  unfold nth_startb. revert i. induction k as [|k IH]; intro i.
  - destruct i; reflexivity.
  - destruct i as [|i]; simpl; [apply Nat.eqb_refl|]. rewrite IH. reflexivity.
Qed.

Lemma nth_start_count s n a k : forall q, q + k < n ->
  arun (nth_start_f s n) (Some q) (repeat a k) = Some (q + k).
Proof.
  induction k as [|k IH]; intros q Hq.
  - simpl. f_equal. lia.
  - simpl repeat. rewrite arun_cons. cbn [astep]. unfold nth_start_f at 2.
    assert (E : Nat.ltb (S q) n = true) by (apply Nat.ltb_lt; lia). rewrite E.
    rewrite IH by lia. f_equal. lia.
Qed.

Lemma nth_start_last s n a q : S q = n ->
  nth_start_f s n q a = if Nat.eqb a s then Some (S n) else Some n.
Proof.
  intro H. unfold nth_start_f.
  assert (E1 : Nat.ltb (S q) n = false) by (apply Nat.ltb_ge; lia).
  assert (E2 : Nat.eqb (S q) n = true) by (apply Nat.eqb_eq; lia). rewrite E1, E2. reflexivity.
Qed.

Theorem nth_from_start_is_minimal syms s n m : NoDup syms -> nth_from_start_m syms s n = Ok m ->
  is_minimal m = true.
Proof.
  intros Hnd H. pose proof H as Hok. apply nth_guard_cases in H. destruct H as [Hn [Hs [[Hl ->]|[Hl ->]]]].
  - apply (of_length_is_minimal syms n None None s); [exact Hnd|exact Hs|exact Hs|exact I].
  - assert (H2 : 2 <= length syms) by (destruct syms as [|x [|y r]]; simpl in *; try lia; destruct Hs).
    destruct (exists_other syms s Hnd H2) as [b [Hb Hbs]].
    assert (Ebs : Nat.eqb b s = false) by (apply Nat.eqb_neq; exact Hbs).
    apply table_is_minimal.
    + lia.
    + intros q a t Hq _ E. eapply nth_start_closed; eassumption.
    + eapply nth_from_start_valid; eassumption.
    + (* access *)
      intros q Hq. destruct (Nat.lt_ge_cases q n) as [Hlt|Hge].
      * exists (repeat s q). split; [apply overb_repeat; exact Hs|].
        rewrite nth_start_count by lia. reflexivity.
      * destruct (Nat.eq_dec q n) as [->|Hne].
        -- exists (repeat s (n - 1) ++ [b]). split.
           ++ rewrite overb_app, overb_repeat by exact Hs. simpl.
              assert (E : memb b syms = true) by (apply memb_In; exact Hb). rewrite E. reflexivity.
           ++ rewrite arun_app, nth_start_count by lia. cbn [arun fold_left astep Nat.add].
              rewrite nth_start_last by lia. rewrite Ebs. reflexivity.
        -- assert (q = S n) by lia. subst q.
           exists (repeat s (n - 1) ++ [s]). split.
           ++ rewrite overb_app, overb_repeat by exact Hs. simpl.
              assert (E : memb s syms = true) by (apply memb_In; exact Hs). rewrite E. reflexivity.
           ++ rewrite arun_app, nth_start_count by lia. cbn [arun fold_left astep Nat.add].
              rewrite nth_start_last by lia. rewrite Nat.eqb_refl. reflexivity.
    + (* distinguishing words *)
      intros q1 q2 H12 Hq2. destruct (Nat.lt_ge_cases q2 n) as [Hlt|Hge].
      * exists (repeat s (n - q2)). split; [apply overb_repeat; exact Hs|].
        rewrite !nth_start_arun by lia.
        destruct (n - q2) as [|i] eqn:E2; [lia|]. destruct (n - q1) as [|j] eqn:E1; [lia|].
        rewrite !nth_startb_repeat.
        assert (F1 : Nat.ltb j (S i) = false) by (apply Nat.ltb_ge; lia).
        assert (F2 : Nat.ltb i (S i) = true) by (apply Nat.ltb_lt; lia).
        rewrite F1, F2. discriminate.
      * destruct (Nat.lt_ge_cases q1 n) as [Hlt1|Hge1].
        -- destruct (Nat.eq_dec q2 n) as [->|Hne].
           ++ exists (repeat s (n - q1)). split; [apply overb_repeat; exact Hs|].
              rewrite nth_start_arun by lia. rewrite nth_start_abs by lia. cbn [afin].
              destruct (n - q1) as [|j] eqn:E1; [lia|]. rewrite nth_startb_repeat.
              assert (F1 : Nat.ltb j (S j) = true) by (apply Nat.ltb_lt; lia).
              assert (F2 : Nat.eqb n (S n) = false) by (apply Nat.eqb_neq; lia).
              rewrite F1, F2. discriminate.
           ++ assert (q2 = S n) by lia. subst q2. exists []. split; [reflexivity|]. simpl.
              rewrite Nat.eqb_refl.
              assert (F : Nat.eqb q1 (S n) = false) by (apply Nat.eqb_neq; lia). rewrite F. discriminate.
        -- assert (q1 = n) by lia. assert (q2 = S n) by lia. subst q1 q2.
           exists []. split; [reflexivity|]. simpl. rewrite Nat.eqb_refl.
           assert (F : Nat.eqb n (S n) = false) by (apply Nat.eqb_neq; lia). rewrite F. discriminate.
    + discriminate.
Qed.

(* ---------- from_substring / from_suffix ---------- *)
Lemma lps_self_prefix p q : q <= length p -> lps p (firstn q p) = q.
Proof.
  intro Hq. apply Nat.le_antisymm.
  - pose proof (bord_le_text p _ _ (lps_bord p (firstn q p))) as H. rewrite firstn_length_le in H by exact Hq. exact H.
  - apply lps_max. split; [exact Hq|]. exists []. reflexivity.
Qed.

Lemma substringb_short p w : length w < length p -> substringb p w = false.
Proof.
  intro H. destruct (substringb p w) eqn:E; [|reflexivity]. exfalso.
  apply substringb_spec in E. destruct E as [u [v ->]]. rewrite !app_length in H. lia.
Qed.

Section SubstringMin.
  Variable p : word.
  Variable ms : bool.
  Let l := length p.
  Let f := substring_f p ms.

  (* the state after a text, from the initial state *)
  Definition sstate (t : word) : nat := if ms then lps p t else if substringb p t then l else lps p t.

  Lemma substring_run0 t : arun f (Some 0) t = Some (sstate t).
  Proof.
    unfold f, sstate. destruct ms; [apply suffix_arun|apply substring_arun].
  Qed.

  Lemma sstate_prefix q : q <= l -> sstate (firstn q p) = q.
  Proof.
    intro Hq. unfold sstate. rewrite lps_self_prefix by exact Hq. destruct ms; [reflexivity|].
    destruct (Nat.eq_dec q l) as [->|Hne].
    - destruct (substringb p (firstn l p)); reflexivity.
    - rewrite substringb_short; [reflexivity|]. rewrite firstn_length_le by exact Hq. unfold l in *. lia.
  Qed.

  Lemma sstate_short t : length t < l -> sstate t <> l.
  Proof.
    intro H. unfold sstate. pose proof (bord_le_text p t _ (lps_bord p t)) as Hb.
    rewrite substringb_short by exact H. destruct ms; lia.
  Qed.

  Lemma substring_run_from q w : q <= l -> arun f (Some q) w = Some (sstate (firstn q p ++ w)).
  Proof.
    intro Hq. rewrite <- substring_run0, arun_app, substring_run0, sstate_prefix by exact Hq. reflexivity.
  Qed.
End SubstringMin.

Theorem from_substring_is_minimal syms p c ms : NoDup syms -> overb syms p = true -> p <> [] ->
  is_minimal (from_substring_m syms p c ms) = true.
Proof.
  intros Hnd Hp Hne. destruct p as [|x p']; [congruence|]. clear Hne.
  pose proof (from_substring_valid syms (x :: p') c ms Hnd) as Hv.
  change (from_substring_m syms (x :: p') c ms)
    with (table_dfa syms (S (length (x :: p'))) (substring_f (x :: p') ms)
                    (fun q => flagb c (Nat.eqb q (length (x :: p')))) false) in *.
  set (p := x :: p') in *.
  apply table_is_minimal.
  - lia.
  - intros q a t Hq _ H. eapply substring_closed; eassumption.
  - exact Hv.
  - intros q Hq. exists (firstn q p). split; [apply overb_firstn; exact Hp|].
    rewrite substring_run0, sstate_prefix by lia. reflexivity.
  - intros q1 q2 H12 H2. exists (skipn q2 p). split; [apply overb_skipn; exact Hp|].
    rewrite !substring_run_from by lia. rewrite firstn_skipn.
    assert (Ef : sstate p ms p = length p).
    { rewrite <- (firstn_all p) at 2. apply sstate_prefix. lia. }
    rewrite Ef. cbn [afin]. rewrite Nat.eqb_refl.
    assert (E : Nat.eqb (sstate p ms (firstn q1 p ++ skipn q2 p)) (length p) = false).
    { apply Nat.eqb_neq. apply sstate_short. rewrite app_length, firstn_length_le, skipn_length by lia. lia. }
    rewrite E. destruct c; discriminate.
  - discriminate.
Qed.

(* ---------- nth_from_end: the shift register ---------- *)
Fixpoint enc_bits (s b : nat) (n q : nat) : word :=      (* least significant bit first *)
  match n with
  | 0 => []
  | S m => (if Nat.eqb (q mod 2) 1 then s else b) :: enc_bits s b m (q / 2)
  end.

Lemma enc_bits_val s b : b <> s -> forall n q, q < Nat.pow 2 n -> bits s (enc_bits s b n q) = q.
Proof.
  intro Hb. induction n as [|m IH]; intros q Hq.
  - simpl in *. lia.
  - cbn [enc_bits bits]. rewrite IH.
    + unfold bit. pose proof (Nat.div_mod q 2 ltac:(lia)) as E. pose proof (Nat.mod_upper_bound q 2 ltac:(lia)) as Hm.
      destruct (Nat.eqb (q mod 2) 1) eqn:E1.
      * apply Nat.eqb_eq in E1. rewrite Nat.eqb_refl. lia.
      * apply Nat.eqb_neq in E1. assert (Eb : Nat.eqb b s = false) by (apply Nat.eqb_neq; exact Hb). rewrite Eb. lia.
    + apply Nat.div_lt_upper_bound; [lia|]. simpl in Hq. lia.
Qed.

Lemma enc_bits_over syms s b n : In s syms -> In b syms -> forall q, overb syms (enc_bits s b n q) = true.
Proof.
  intros Hs Hb. assert (Es : memb s syms = true) by (apply memb_In; exact Hs).
  assert (Eb : memb b syms = true) by (apply memb_In; exact Hb).
  induction n as [|m IH]; intro q; [reflexivity|]. cbn [enc_bits].
  destruct (Nat.eqb (q mod 2) 1); simpl overb; [rewrite Es|rewrite Eb]; rewrite IH; reflexivity.
Qed.

Lemma shift_zeros s b n : b <> s -> forall k q, q < Nat.pow 2 n ->
  arun (nth_end_f s n) (Some q) (repeat b k) = Some ((q * Nat.pow 2 k) mod Nat.pow 2 n).
Proof.
  intro Hb. pose proof (pow2_pos n) as HN.
  assert (Eb : Nat.eqb b s = false) by (apply Nat.eqb_neq; exact Hb).
  induction k as [|k IH]; intros q Hq.
  - simpl. rewrite Nat.mul_1_r, Nat.mod_small by exact Hq. reflexivity.
  - simpl repeat. rewrite arun_cons. cbn [astep]. unfold nth_end_f at 2. rewrite Eb, Nat.add_0_r.
    rewrite IH by (apply Nat.mod_upper_bound; lia). f_equal.
    rewrite Nat.mul_mod_idemp_l by lia. f_equal. simpl. lia.
Qed.

Lemma top_dist : forall n q1 q2, q1 < Nat.pow 2 n -> q2 < Nat.pow 2 n -> q1 <> q2 ->
  exists k, Nat.leb (Nat.div (Nat.pow 2 n) 2) ((q1 * Nat.pow 2 k) mod Nat.pow 2 n)
            <> Nat.leb (Nat.div (Nat.pow 2 n) 2) ((q2 * Nat.pow 2 k) mod Nat.pow 2 n).
Proof.
  induction n as [|m IH]; intros q1 q2 H1 H2 Hne; [simpl in *; lia|].
  rewrite half_pow2. pose proof (pow2_pos m) as HM.
  destruct (Bool.bool_dec (Nat.leb (Nat.pow 2 m) q1) (Nat.leb (Nat.pow 2 m) q2)) as [Esame|Ediff].
  - (* same top bit: drop it *)
    set (r1 := q1 mod Nat.pow 2 m). set (r2 := q2 mod Nat.pow 2 m).
    assert (Hr1 : r1 < Nat.pow 2 m) by (apply Nat.mod_upper_bound; lia).
    assert (Hr2 : r2 < Nat.pow 2 m) by (apply Nat.mod_upper_bound; lia).
    assert (Hr : r1 <> r2).
    { unfold r1, r2. intro E. apply Hne.
      pose proof (Nat.div_mod q1 (Nat.pow 2 m) ltac:(lia)) as D1. pose proof (Nat.div_mod q2 (Nat.pow 2 m) ltac:(lia)) as D2.
      assert (Hd1 : q1 / Nat.pow 2 m < 2) by (apply Nat.div_lt_upper_bound; [lia|simpl in H1; lia]).
      assert (Hd2 : q2 / Nat.pow 2 m < 2) by (apply Nat.div_lt_upper_bound; [lia|simpl in H2; lia]).
      destruct (Nat.leb (Nat.pow 2 m) q1) eqn:L1; symmetry in Esame.
      - apply Nat.leb_le in L1, Esame.
        assert (q1 / Nat.pow 2 m = 1) by (destruct (q1 / Nat.pow 2 m) as [|[|?]]; [nia|reflexivity|lia]).
        assert (q2 / Nat.pow 2 m = 1) by (destruct (q2 / Nat.pow 2 m) as [|[|?]]; [nia|reflexivity|lia]). nia.
      - apply Nat.leb_gt in L1, Esame.
        assert (q1 / Nat.pow 2 m = 0) by (destruct (q1 / Nat.pow 2 m) as [|?]; [reflexivity|nia]).
        assert (q2 / Nat.pow 2 m = 0) by (destruct (q2 / Nat.pow 2 m) as [|?]; [reflexivity|nia]). nia. }
    destruct m as [|m'].
    + simpl in Hr1, Hr2. lia.
    + destruct (IH r1 r2 Hr1 Hr2 Hr) as [k Hk]. rewrite half_pow2 in Hk. exists (S k).
      assert (Hstep : forall q, (q * Nat.pow 2 (S k)) mod Nat.pow 2 (S (S m'))
                               = 2 * (((q mod Nat.pow 2 (S m')) * Nat.pow 2 k) mod Nat.pow 2 (S m'))).
      { intro q. replace (q * Nat.pow 2 (S k)) with (2 * (q * Nat.pow 2 k)) by (simpl; lia).
        replace (Nat.pow 2 (S (S m'))) with (2 * Nat.pow 2 (S m')) by (simpl; lia).
        rewrite Nat.mul_mod_distr_l by lia. rewrite Nat.mul_mod_idemp_l by lia. reflexivity. }
      rewrite !Hstep. fold r1 r2.
      assert (Hleb : forall y, Nat.leb (Nat.pow 2 (S m')) (2 * y) = Nat.leb (Nat.pow 2 m') y).
      { intro y. apply eq_true_iff_eq. rewrite !Nat.leb_le. simpl. lia. }
      rewrite !Hleb. exact Hk.
  - exists 0. simpl Nat.pow at 2 4. rewrite !Nat.mul_1_r, !Nat.mod_small by assumption. exact Ediff.
Qed.

Theorem nth_from_end_is_minimal syms s n m : NoDup syms -> nth_from_end_m syms s n = Ok m -> is_minimal m = true.
Proof.
  intros Hnd H. pose proof H as Hok. apply nth_guard_cases in H. destruct H as [Hn [Hs [[Hl ->]|[Hl ->]]]].
  - apply (of_length_is_minimal syms n None None s); [exact Hnd|exact Hs|exact Hs|exact I].
  - assert (H2 : 2 <= length syms) by (destruct syms as [|x [|y r]]; simpl in *; try lia; destruct Hs).
    destruct (exists_other syms s Hnd H2) as [b [Hb Hbs]].
    pose proof (pow2_pos n) as HN.
    apply table_is_minimal.
    + exact HN.
    + intros q a t _ _ E. eapply nth_end_closed. exact E.
    + eapply nth_from_end_valid; eassumption.
    + intros q Hq. exists (rev (enc_bits s b n q)). split.
      * rewrite overb_rev. apply enc_bits_over; assumption.
      * rewrite shift_arun, rev_involutive, (enc_bits_val s b Hbs n q Hq), Nat.mod_small by exact Hq. reflexivity.
    + intros q1 q2 H12 Hq2. destruct (top_dist n q1 q2 ltac:(lia) Hq2 ltac:(lia)) as [k Hk].
      exists (repeat b k). split; [apply overb_repeat; exact Hb|].
      rewrite !(shift_zeros s b n Hbs) by lia. cbn [afin]. exact Hk.
    + discriminate.
Qed.
