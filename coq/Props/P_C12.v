(* C12 - state elimination yields a regular expression for the same language.
   Proved here, unbounded in the number of states, the alphabet and the word length:
   AST level (Spec/Regex0.v, Model/GNFA.v)
     - ripping a state other than the initial/final one preserves the GNFA's language (Kleene's argument);
     - ripping all inner states in ANY order leaves an expression denoting the GNFA's language;
     - the GNFA built from a valid DFA / NFA (fresh initial and final state, parallel edges merged by
       union, empty-string edges as REps) has the source's language.
   String level (Model/GNFAStr.v: the mirror model of the strings from_dfa / from_nfa / to_regex really
   build - bracket rule, (r2)* rule, the four r4 cases, (r1r2r3)?, the branch for an empty r1r2r3, the
   min-degree choice of the state to rip under an arbitrary iteration order of the candidates)
     - every label is the plain printing of a properly parenthesised annotated tree that denotes what the
       AST-level label denotes; from_dfa / from_nfa establish this and every rip step keeps it;
     - the loop never fails and rips along an order that lists exactly the inner states;
     - the printing of such a tree goes through the model of the library's lexer, validator,
       shunting-yard and postfix evaluation (Model/RegexLex.v, RegexParse.v) and gives the tree back
       (parentheses removed), and the compiler model (RegexBuild.v) builds a valid NFA for it;
     - hence, end to end, for every valid DFA / NFA over ordinary characters and EVERY schedule:
       to_regex returns a string that NFA.from_regex accepts and compiles to an NFA with exactly the
       source's language (or None, and then the source's language is empty). *)
From Coq Require Import List Arith Bool.
From AV Require Import Base.Util Spec.Lang Spec.FA Spec.Regex0 Model.Decide Model.GNFA Proofs.Decide Proofs.GNFA
                       Model.GNFAStr Model.RegexParse Model.RegexBuild Proofs.GNFAStr Proofs.GNFAStrParse.
From AV Require Spec.Regex.
Import ListNotations.

Theorem C12_rip_lang : forall g q, q <> g_init g -> q <> g_final g ->
  L_gnfa (rip g q) =L L_gnfa g.
Proof. exact rip_lang. Qed.
Print Assumptions C12_rip_lang.

(* ripping keeps the shape to_regex relies on *)
Theorem C12_rip_valid : forall g q, valid_gnfa g = true -> q <> g_init g -> q <> g_final g ->
  valid_gnfa (rip g q) = true.
Proof. intros g q H Hi Hf. apply valid_gnfa_ok. apply rip_ok; [apply valid_gnfa_ok; exact H|exact Hi|exact Hf]. Qed.
Print Assumptions C12_rip_valid.

Theorem C12_elim_lang : forall g order, valid_gnfa g = true ->
  ~ In (g_init g) order -> ~ In (g_final g) order ->
  (forall p, In p (g_states g) -> p = g_init g \/ p = g_final g \/ In p order) ->
  rden (elim g order) =L L_gnfa g.
Proof. intros g order H. apply elim_lang. apply valid_gnfa_ok. exact H. Qed.
Print Assumptions C12_elim_lang.

Theorem C12_gnfa_of_dfa_lang : forall d, valid_dfa d = true ->
  valid_gnfa (gnfa_of_dfa d) = true /\ L_gnfa (gnfa_of_dfa d) =L L_dfa d.
Proof.
  intros d Hv. split; [apply valid_gnfa_ok; apply gnfa_of_dfa_ok; exact Hv|apply gnfa_of_dfa_lang; exact Hv].
Qed.
Print Assumptions C12_gnfa_of_dfa_lang.

Theorem C12_gnfa_of_nfa_lang : forall n, valid_nfa n = true ->
  valid_gnfa (gnfa_of_nfa n) = true /\ L_gnfa (gnfa_of_nfa n) =L L_nfa n.
Proof.
  intros n Hv. split; [apply valid_gnfa_ok; apply gnfa_of_nfa_ok; exact Hv|apply gnfa_of_nfa_lang; exact Hv].
Qed.
Print Assumptions C12_gnfa_of_nfa_lang.

(* AST level, end to end: the expression AST that state elimination computes - for every order that
   lists exactly the source's states - denotes exactly the source's language *)
Theorem C12_dfa_elim_ast : forall d order, valid_dfa d = true ->
  (forall p, In p order <-> In p (d_states d)) ->
  rden (dfa_regex d order) =L L_dfa d.
Proof. intros d order Hv Ho. apply dfa_regex_lang; assumption. Qed.
Print Assumptions C12_dfa_elim_ast.

Theorem C12_nfa_elim_ast : forall n order, valid_nfa n = true ->
  (forall p, In p order <-> In p (n_states n)) ->
  rden (nfa_regex n order) =L L_nfa n.
Proof. intros n order Hv Ho. apply nfa_regex_lang; assumption. Qed.
Print Assumptions C12_nfa_elim_ast.

(* ---- string level ---- *)
(* the invariant: same states, and every string label is the printing of a properly parenthesised
   tree (symbols accepted by [ok], all of them ordinary characters) denoting what the AST-level
   label denotes.  from_dfa / from_nfa establish it ... *)
Theorem C12_from_fa_string_invariant : forall sigma, forallb sym_ok sigma = true ->
  (forall d, valid_dfa d = true -> d_syms d = sigma ->
     grel (sym_in sigma) (sgnfa_of_dfa d) (gnfa_of_dfa d)) /\
  (forall n, valid_nfa n = true -> n_syms n = sigma -> nfa_keys_nodup n = true ->
     grel (sym_in sigma) (sgnfa_of_nfa n) (gnfa_of_nfa n)).
Proof. intros sigma Hs. split; [exact (grel_of_dfa sigma Hs)|exact (grel_of_nfa sigma Hs)]. Qed.
Print Assumptions C12_from_fa_string_invariant.

(* ... and every rip step keeps it (all case splits of the loop body of to_regex) *)
Theorem C12_rip_string_invariant : forall ok, (forall a, ok a = true -> sym_ok a = true) ->
  forall s g q, grel ok s g -> grel ok (srip s q) (rip g q).
Proof. exact grel_rip. Qed.
Print Assumptions C12_rip_string_invariant.

(* the while loop under ANY schedule (iteration orders of the candidate dict): no ValueError, no
   fuel exhaustion; the states ripped avoid initial/final and cover every other state *)
Theorem C12_loop_total : forall g sched, sg_ok g ->
  exists order, sto_regex g sched = Ok (selim g order, order) /\
    (forall q, In q order -> q <> s_init g /\ q <> s_final g) /\
    (forall p, In p (s_states g) -> p = s_init g \/ p = s_final g \/ In p order).
Proof. exact sto_regex_spec. Qed.
Print Assumptions C12_loop_total.

(* the string returned by the mirror model is `show x` for a properly parenthesised tree x with
   xden x =L the source's language - for every schedule *)
Theorem C12_to_regex_string_denotes :
  (forall d sched, valid_dfa d = true -> forallb sym_ok (d_syms d) = true ->
     exists order, dfa_to_regex d sched = Ok (selim (sgnfa_of_dfa d) order, order) /\
       match selim (sgnfa_of_dfa d) order with
       | Some st => exists x, st = show x /\ wf_lab (sym_in (d_syms d)) x = true /\ xden x =L L_dfa d
       | None => forall w, ~ L_dfa d w
       end) /\
  (forall n sched, valid_nfa n = true -> forallb sym_ok (n_syms n) = true -> nfa_keys_nodup n = true ->
     exists order, nfa_to_regex n sched = Ok (selim (sgnfa_of_nfa n) order, order) /\
       match selim (sgnfa_of_nfa n) order with
       | Some st => exists x, st = show x /\ wf_lab (sym_in (n_syms n)) x = true /\ xden x =L L_nfa n
       | None => forall w, ~ L_nfa n w
       end).
Proof. split; [exact dfa_to_regex_string|exact nfa_to_regex_string]. Qed.
Print Assumptions C12_to_regex_string_denotes.

(* the library's parser (model) on the printing of a properly parenthesised tree: the tree itself
   without its parentheses, with the same denotation; NFA.from_regex with the alphabet returns a
   valid NFA over that alphabet with the denoted language *)
Theorem C12_show_parses : forall sigma x, NoDup sigma -> forallb sym_ok sigma = true ->
  wf_lab (sym_in sigma) x = true ->
  parse (show x) = Ok (cv x) /\ (forall s, Regex.den s (cv x) =L xden x) /\
  exists m, compile (show x) (Some sigma) = Ok m /\ valid_nfa m = true /\ n_syms m = sigma /\ L_nfa m =L xden x.
Proof.
  intros sigma x Hnd Hs Hw. destruct (show_compiles sigma x Hnd Hs Hw) as [Hp Hc].
  split; [exact Hp|]. split; [intro s; apply den_cv|exact Hc].
Qed.
Print Assumptions C12_show_parses.

(* THE PROPERTY, end to end: for every valid source over ordinary characters and every schedule,
   to_regex returns (never fails); a string result is accepted by the library's parser, the parsed
   expression denotes the source's language, and NFA.from_regex(string, input_symbols) is a valid NFA
   with exactly the source's language; the result None means the source's language is empty.
   regex_ok st sigma L := exists r m, parse st = Ok r /\ (forall s, den s r =L L) /\
     compile st (Some sigma) = Ok m /\ valid_nfa m = true /\ n_syms m = sigma /\ L_nfa m =L L *)
Theorem C12_dfa_to_regex : forall d sched, valid_dfa d = true -> forallb sym_ok (d_syms d) = true ->
  exists s order, dfa_to_regex d sched = Ok (s, order) /\
    match s with
    | Some st => regex_ok st (d_syms d) (L_dfa d)
    | None => forall w, ~ L_dfa d w
    end.
Proof. exact dfa_to_regex_full. Qed.
Print Assumptions C12_dfa_to_regex.

(* nfa_keys_nodup: no symbol is listed twice in a row (a Python dict cannot; valid_nfa does not say it) *)
Theorem C12_nfa_to_regex : forall n sched, valid_nfa n = true -> forallb sym_ok (n_syms n) = true ->
  nfa_keys_nodup n = true ->
  exists s order, nfa_to_regex n sched = Ok (s, order) /\
    match s with
    | Some st => regex_ok st (n_syms n) (L_nfa n)
    | None => forall w, ~ L_nfa n w
    end.
Proof. exact nfa_to_regex_full. Qed.
Print Assumptions C12_nfa_to_regex.

(* the AST matcher the driver uses for its bounded cross checks is exact *)
Theorem C12_rmatch_exact :
  (forall r w, rmatch r w = true <-> rden r w) /\
  (forall r acc syms k,
     (rex_diff_upto r acc syms k = None <->
      forall w, Forall (fun a => In a syms) w -> length w <= k -> (rden r w <-> acc w = true)) /\
     (forall w, rex_diff_upto r acc syms k = Some w -> ~ (rden r w <-> acc w = true))).
Proof. split; [intros r w; apply rmatch_spec|intros; apply rex_diff_upto_spec]. Qed.
Print Assumptions C12_rmatch_exact.

(* ---- non-vacuity ---- *)
(* the reproducer of the string-assembly defect: 0 -eps-> 1 -eps-> 2, 0 -a-> 2, final {2};
   language {"", "a"}; every rip order gives a correct AST *)
Definition ex_nfa : nfa :=
  mknfa [0; 1; 2] [0] [(0, [(None, [1]); (Some 0, [2])]); (1, [(None, [2])])] 0 [2].

Example C12_example_nfa :
  valid_nfa ex_nfa = true /\ valid_gnfa (gnfa_of_nfa ex_nfa) = true /\
  map (fun order => map (rmatch (nfa_regex ex_nfa order)) [[]; [0]; [0; 0]])
      [[0; 1; 2]; [2; 1; 0]; [1; 0; 2]; [1; 2; 0]]
  = [[true; true; false]; [true; true; false]; [true; true; false]; [true; true; false]] /\
  nfa_regex ex_nfa [1; 0; 2]
  = RCat (RCat REps (RUnion (RSym 0) (RCat REps REps))) REps.
Proof. vm_compute. repeat split. Qed.

(* two states, parallel edges 0 -a,b-> 1, a cycle 1 -a-> 0 and a loop 1 -b-> 1 *)
Definition ex_dfa : dfa :=
  mkdfa [0; 1] [0; 1] [(0, [(0, 1); (1, 1)]); (1, [(0, 0); (1, 1)])] 0 [1] false.

Example C12_example_dfa :
  valid_dfa ex_dfa = true /\ valid_gnfa (gnfa_of_dfa ex_dfa) = true /\
  rex_diff_upto (dfa_regex ex_dfa [0; 1]) (dfa_acc ex_dfa) [0; 1] 5 = None /\
  rex_diff_upto (dfa_regex ex_dfa [1; 0]) (dfa_acc ex_dfa) [0; 1] 5 = None /\
  label (gnfa_of_dfa ex_dfa) 0 1 = Some (RUnion (RSym 0) (RSym 1)) /\
  (* the cross check is not vacuous: a wrong expression is caught *)
  rex_diff_upto (RCat (RUnion (RSym 0) (RSym 1)) (RStar (RSym 0))) (dfa_acc ex_dfa) [0; 1] 3 = Some [0; 0].
Proof. vm_compute. repeat split. Qed.

(* string level: the defect reproducer over the character 'a' (code 26): 0 -""-> 1 -""-> 2, 0 -a-> 2.
   Every schedule gives "a?" (the unrepaired code gave "(|a)"); the model of the library's parser
   accepts it; with the candidates in the order 2,1,0 the states are ripped in the order 1,2,0 *)
Definition ex_nfa_s : nfa :=
  mknfa [0; 1; 2] [26] [(0, [(None, [1]); (Some 26, [2])]); (1, [(None, [2])])] 0 [2].

Example C12_example_nfa_string :
  valid_nfa ex_nfa_s = true /\ nfa_keys_nodup ex_nfa_s = true /\ forallb sym_ok (n_syms ex_nfa_s) = true /\
  nfa_to_regex ex_nfa_s [] = Ok (Some [26; 9], [1; 0; 2]) /\
  nfa_to_regex ex_nfa_s [[2; 1; 0]; [2; 0]; [0]] = Ok (Some [26; 9], [1; 2; 0]) /\
  parse [26; 9] = Ok (Regex.ROpt (Regex.RSym 26)) /\
  slabel (sgnfa_of_nfa ex_nfa_s) 0 2 = Some [26] /\ slabel (sgnfa_of_nfa ex_nfa_s) 0 1 = Some [].
Proof. vm_compute. repeat split. Qed.

(* parallel edges, a cycle and a loop over 'a','b' (26, 27): "(a|b)(a(a|b)|b)*" *)
Definition ex_dfa_s : dfa :=
  mkdfa [0; 1] [26; 27] [(0, [(26, 1); (27, 1)]); (1, [(26, 0); (27, 1)])] 0 [1] false.

Example C12_example_dfa_string :
  valid_dfa ex_dfa_s = true /\
  dfa_to_regex ex_dfa_s [] = Ok (Some [2; 26; 4; 27; 3; 2; 26; 2; 26; 4; 27; 3; 4; 27; 3; 7], [0; 1]) /\
  (exists m, compile [2; 26; 4; 27; 3; 2; 26; 2; 26; 4; 27; 3; 4; 27; 3; 7] (Some [26; 27]) = Ok m /\
             map (nfa_acc m) [[]; [26]; [27; 27]; [26; 26]; [27; 26; 27]] = map (dfa_acc ex_dfa_s) [[]; [26]; [27; 27]; [26; 26]; [27; 26; 27]]).
Proof. split; [vm_compute; reflexivity|]. split; [vm_compute; reflexivity|]. eexists. split; vm_compute; reflexivity. Qed.

(* the hypothesis nfa_keys_nodup is needed: a row listing "" twice (impossible for a Python dict)
   would merge to the label "|" and give "(|)", which the parser refuses *)
Example C12_example_keys_needed :
  let n := mknfa [0; 1] [26] [(0, [(None, [1]); (None, [1])])] 0 [1] in
  valid_nfa n = true /\ nfa_keys_nodup n = false /\
  nfa_to_regex n [] = Ok (Some [2; 4; 3], [0; 1]) /\ parse [2; 4; 3] = Err (Invalid 10).
Proof. vm_compute. repeat split. Qed.

(* ripping really needs the side condition: ripping the initial state loses the language *)
Example C12_example_rip_init :
  let g := gnfa_of_nfa ex_nfa in
  elim g [0; 1; 2] <> REmpty /\ elim (rip g (g_init g)) [0; 1; 2] = REmpty.
Proof. vm_compute. split; [discriminate|reflexivity]. Qed.
