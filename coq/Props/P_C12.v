(* C12 - state elimination yields a regular expression for the same language.
   Proved here, for expression ASTs (Spec/Regex0.v) and GNFAs with AST labels (Model/GNFA.v), unbounded in
   the number of states, the alphabet and the word length:
     - ripping a state other than the initial/final one preserves the GNFA's language (Kleene's argument);
     - ripping all inner states in ANY order leaves an expression denoting the GNFA's language;
     - the GNFA built from a valid DFA / NFA (fresh initial and final state, parallel edges merged by
       union, empty-string edges as REps) has the source's language;
     - hence elimination from a valid DFA / NFA gives an expression for exactly the source's language.
   NOT modelled in Coq: the assembly of the expression *string* in to_regex (bracket rules, "?", "|")
   and the library's parser.  That part of the property - "the library's own parser accepts the string
   and the parsed language is the source's" - is checked on every run by the correspondence
   (harness/props/c12.py: NFA.from_regex on the implementation's string, then the proved comparator).
   The end-to-end theorems are therefore named ..._partial and the full statement is kept below. *)
From Coq Require Import List Arith Bool.
From AV Require Import Base.Util Spec.Lang Spec.FA Spec.Regex0 Model.Decide Model.GNFA Proofs.Decide Proofs.GNFA.
Import ListNotations.

Theorem C12_rip_lang : forall g q, q <> g_init g -> q <> g_final g ->
  L_gnfa (rip g q) =L L_gnfa g.
Proof. exact rip_lang. Qed.
Print Assumptions C12_rip_lang.

(* ripping keeps the shape to_regex relies on *)
Theorem C12_rip_valid : forall g q, valid_gnfa g = true -> q <> g_init g -> q <> g_final g ->
  valid_gnfa (rip g q) = true.
Proof. intros g q H Hi Hf. apply valid_gnfa_ok. apply rip_ok; [apply valid_gnfa_ok; exact H|exact Hi|exact Hf]. Qed.
Print Assumptions C12_rip_valid.

Theorem C12_elim_lang : forall g order, valid_gnfa g = true ->
  ~ In (g_init g) order -> ~ In (g_final g) order ->
  (forall p, In p (g_states g) -> p = g_init g \/ p = g_final g \/ In p order) ->
  rden (elim g order) =L L_gnfa g.
Proof. intros g order H. apply elim_lang. apply valid_gnfa_ok. exact H. Qed.
Print Assumptions C12_elim_lang.

Theorem C12_gnfa_of_dfa_lang : forall d, valid_dfa d = true ->
  valid_gnfa (gnfa_of_dfa d) = true /\ L_gnfa (gnfa_of_dfa d) =L L_dfa d.
Proof.
  intros d Hv. split; [apply valid_gnfa_ok; apply gnfa_of_dfa_ok; exact Hv|apply gnfa_of_dfa_lang; exact Hv].
Qed.
Print Assumptions C12_gnfa_of_dfa_lang.

Theorem C12_gnfa_of_nfa_lang : forall n, valid_nfa n = true ->
  valid_gnfa (gnfa_of_nfa n) = true /\ L_gnfa (gnfa_of_nfa n) =L L_nfa n.
Proof.
  intros n Hv. split; [apply valid_gnfa_ok; apply gnfa_of_nfa_ok; exact Hv|apply gnfa_of_nfa_lang; exact Hv].
Qed.
Print Assumptions C12_gnfa_of_nfa_lang.

(* The full property, at string level: for every rip order the implementation may choose, the
   string it assembles is accepted by the library's parser and denotes the source's language.
   `print` stands for GNFA.to_regex's string assembly and `parse` for the library's regex parser
   (lexer + validator + shunting-yard + AST); neither is modelled in this development. *)
Definition C12_to_regex_statement (str : Type)
    (print_dfa : dfa -> list nat -> str) (print_nfa : nfa -> list nat -> str)
    (parse : str -> option rex) : Prop :=
  (forall d order, valid_dfa d = true -> (forall p, In p order <-> In p (d_states d)) ->
     exists r, parse (print_dfa d order) = Some r /\ rden r =L L_dfa d) /\
  (forall n order, valid_nfa n = true -> (forall p, In p order <-> In p (n_states n)) ->
     exists r, parse (print_nfa n order) = Some r /\ rden r =L L_nfa n).

(* proved part: the expression AST that state elimination computes - for every order that lists
   exactly the source's states, in particular the min-degree order of _find_min_connected_node
   under any tie-breaking - denotes exactly the source's language.  Missing: print/parse. *)
Theorem C12_dfa_to_regex_partial : forall d order, valid_dfa d = true ->
  (forall p, In p order <-> In p (d_states d)) ->
  rden (dfa_regex d order) =L L_dfa d.
Proof. intros d order Hv Ho. apply dfa_regex_lang; assumption. Qed.
Print Assumptions C12_dfa_to_regex_partial.

Theorem C12_nfa_to_regex_partial : forall n order, valid_nfa n = true ->
  (forall p, In p order <-> In p (n_states n)) ->
  rden (nfa_regex n order) =L L_nfa n.
Proof. intros n order Hv Ho. apply nfa_regex_lang; assumption. Qed.
Print Assumptions C12_nfa_to_regex_partial.

(* the AST matcher the driver uses for its bounded cross checks is exact *)
Theorem C12_rmatch_exact :
  (forall r w, rmatch r w = true <-> rden r w) /\
  (forall r acc syms k,
     (rex_diff_upto r acc syms k = None <->
      forall w, Forall (fun a => In a syms) w -> length w <= k -> (rden r w <-> acc w = true)) /\
     (forall w, rex_diff_upto r acc syms k = Some w -> ~ (rden r w <-> acc w = true))).
Proof. split; [intros r w; apply rmatch_spec|intros; apply rex_diff_upto_spec]. Qed.
Print Assumptions C12_rmatch_exact.

(* ---- non-vacuity ---- *)
(* the reproducer of the string-assembly defect: 0 -eps-> 1 -eps-> 2, 0 -a-> 2, final {2};
   language {"", "a"}; every rip order gives a correct AST *)
Definition ex_nfa : nfa :=
  mknfa [0; 1; 2] [0] [(0, [(None, [1]); (Some 0, [2])]); (1, [(None, [2])])] 0 [2].

Example C12_example_nfa :
  valid_nfa ex_nfa = true /\ valid_gnfa (gnfa_of_nfa ex_nfa) = true /\
  map (fun order => map (rmatch (nfa_regex ex_nfa order)) [[]; [0]; [0; 0]])
      [[0; 1; 2]; [2; 1; 0]; [1; 0; 2]; [1; 2; 0]]
  = [[true; true; false]; [true; true; false]; [true; true; false]; [true; true; false]] /\
  nfa_regex ex_nfa [1; 0; 2]
  = RCat (RCat REps (RUnion (RSym 0) (RCat REps REps))) REps.
Proof. vm_compute. repeat split. Qed.

(* two states, parallel edges 0 -a,b-> 1, a cycle 1 -a-> 0 and a loop 1 -b-> 1 *)
Definition ex_dfa : dfa :=
  mkdfa [0; 1] [0; 1] [(0, [(0, 1); (1, 1)]); (1, [(0, 0); (1, 1)])] 0 [1] false.

Example C12_example_dfa :
  valid_dfa ex_dfa = true /\ valid_gnfa (gnfa_of_dfa ex_dfa) = true /\
  rex_diff_upto (dfa_regex ex_dfa [0; 1]) (dfa_acc ex_dfa) [0; 1] 5 = None /\
  rex_diff_upto (dfa_regex ex_dfa [1; 0]) (dfa_acc ex_dfa) [0; 1] 5 = None /\
  label (gnfa_of_dfa ex_dfa) 0 1 = Some (RUnion (RSym 0) (RSym 1)) /\
  (* the cross check is not vacuous: a wrong expression is caught *)
  rex_diff_upto (RCat (RUnion (RSym 0) (RSym 1)) (RStar (RSym 0))) (dfa_acc ex_dfa) [0; 1] 3 = Some [0; 0].
Proof. vm_compute. repeat split. Qed.

(* ripping really needs the side condition: ripping the initial state loses the language *)
Example C12_example_rip_init :
  let g := gnfa_of_nfa ex_nfa in
  elim g [0; 1; 2] <> REmpty /\ elim (rip g (g_init g)) [0; 1; 2] = REmpty.
Proof. vm_compute. split; [discriminate|reflexivity]. Qed.
