(* C19 - validation is sound, results are valid, the validation flag never changes what a valid
   definition constructs.  (The two global flags themselves are process state of the Python
   interpreter: that no operation depends on them is monitored by the correspondence run in four
   interpreter processes, not proved - C19 is "partial" for that part.)

   validate() of every class is modelled in Model/Validate.v as the code's sequence of checks, the
   first failing one giving the exception.  wf_* (Proofs/Validate.v) are the documented rules as
   declarative predicates over RAW definitions; *_broken k says "a rule whose documented exception is
   number k is broken" (1 InvalidStateError, 2 InvalidSymbolError, 3 MissingStateError,
   4 MissingSymbolError, 5 InitialStateError, 6 FinalStateError, 10 InvalidRegexError,
   20 NondeterminismError, 21 InvalidAcceptanceModeError, 30 InvalidDirectionError,
   31 InconsistentTapesException). *)
From Coq Require Import List Arith Bool.
From AV Require Import Base.Util Spec.Lang Spec.FA Spec.PDA Model.PDA Model.Validate Proofs.Validate.
From AV Require Import Model.Decide Model.Product Model.Build Model.DFAOps Model.Subset Proofs.DFAOps Proofs.Subset.
From AV Require Import Spec.TM Model.MNTMSim Model.ValidateEmbed Proofs.ValidateMore.
Import ListNotations.

(* ---- the constructor accepts exactly the well-formed definitions ---- *)
Theorem C19_validate_iff_wf_dfa : forall m, dfa_validate m = Ok tt <-> wf_dfa m.
Proof. exact dfa_validate_iff_wf. Qed.
Print Assumptions C19_validate_iff_wf_dfa.

Theorem C19_validate_iff_wf_nfa : forall m, nfa_validate m = Ok tt <-> wf_nfa m.
Proof. exact nfa_validate_iff_wf. Qed.
Print Assumptions C19_validate_iff_wf_nfa.

(* mode: 0 final_state, 1 empty_stack, 2 both, anything else is not an acceptance mode *)
Theorem C19_validate_iff_wf_npda : forall m mode, npda_validate m mode = Ok tt <-> wf_npda m mode.
Proof. exact npda_validate_iff_wf. Qed.
Print Assumptions C19_validate_iff_wf_npda.

(* DPDA: the NPDA rules and no empty-string move next to a symbol move under the same stack top *)
Theorem C19_validate_iff_wf_dpda : forall m mode, dpda_validate_raw m mode = Ok tt <-> wf_dpda m mode.
Proof. exact dpda_validate_iff_wf. Qed.
Print Assumptions C19_validate_iff_wf_dpda.

(* DTM.validate and NTM.validate are the same sequence of checks over the raw table shape *)
Theorem C19_validate_iff_wf_dtm_ntm : forall m,
  (dtm_validate m = Ok tt <-> wf_tm m) /\ (ntm_validate m = Ok tt <-> wf_tm m).
Proof. intro m. split; exact (tm_validate_iff_wf m). Qed.
Print Assumptions C19_validate_iff_wf_dtm_ntm.

Theorem C19_validate_iff_wf_mntm : forall n m, mntm_validate n m = Ok tt <-> wf_mntm n m.
Proof. exact mntm_validate_iff_wf. Qed.
Print Assumptions C19_validate_iff_wf_mntm.

(* GNFA at the structural level: whether a label string is a regular expression over the alphabet
   is an input bit of the raw definition (the regex validator is C11's) *)
Theorem C19_validate_iff_wf_gnfa : forall m, gnfa_validate m = Ok tt <-> wf_gnfa m.
Proof. exact gnfa_validate_iff_wf. Qed.
Print Assumptions C19_validate_iff_wf_gnfa.

(* ---- the hypothesis of every other FA theorem is "no duplicate keys, and the constructor accepts" ---- *)
Theorem C19_valid_dfa_agrees : forall m, valid_dfa m = true <-> dfa_keys_ok m = true /\ dfa_validate m = Ok tt.
Proof. exact valid_dfa_agrees. Qed.
Print Assumptions C19_valid_dfa_agrees.

Theorem C19_valid_nfa_agrees : forall m, valid_nfa m = true <-> nfa_keys_ok m = true /\ nfa_validate m = Ok tt.
Proof. exact valid_nfa_agrees. Qed.
Print Assumptions C19_valid_nfa_agrees.

(* the hypothesis of the C02 theorems likewise: valid_pda = duplicate-free keys + the NPDA constructor accepts
   (mode 2 = "both"; valid_pda does not mention the mode, which the record cannot get wrong) *)
Theorem C19_valid_pda_agrees : forall m, valid_pda m = true <-> keys_ok m = true /\ npda_validate m 2 = Ok tt.
Proof. exact valid_pda_agrees. Qed.
Print Assumptions C19_valid_pda_agrees.

(* the DPDA constructor model that C02 reasons about is this checker restricted to valid acceptance modes *)
Theorem C19_dpda_checker_is_C02s : forall m mode, mode <= 2 -> dpda_validate_raw m mode = dpda_validate m.
Proof. exact dpda_validate_raw_agrees. Qed.
Print Assumptions C19_dpda_checker_is_C02s.

(* the hypotheses of the C03 / C17 theorems.  valid_dtm / valid_ntm / valid_mntm of Spec/TM.v live on records
   without state / symbol sets; raw_of_dtm / raw_of_ntm / raw_of_mntm Q I T (Model/ValidateEmbed.v) put such a
   machine in the raw shape the constructor checks, Q I T being the states, input symbols and tape symbols.
   tm_sets_ok r = the constructor's rules about those sets (input symbols a proper subset of the tape symbols,
   blank a tape symbol, rows / read symbols / result states / written symbols / directions known, initial
   state known, with a row unless it is the only state, not final, final states known) - everything except
   "no final state has a row", which is what valid_dtm / valid_ntm / valid_mntm say.  MNTM: valid_tapes (C17)
   demands at least one tape - not checked by MNTM.validate - and validate additionally checks one key
   component per tape (keys_len_ok), which neither predicate mentions.  An entry with an empty list of
   alternatives is accepted by both sides. *)
Theorem C19_valid_tm_agrees : forall Q I T,
  (forall m, dtm_validate (raw_of_dtm Q I T m) = Ok tt <-> valid_dtm m = true /\ tm_sets_ok (raw_of_dtm Q I T m)) /\
  (forall m, ntm_validate (raw_of_ntm Q I T m) = Ok tt <-> valid_ntm m = true /\ tm_sets_ok (raw_of_ntm Q I T m)) /\
  (forall m, (mntm_validate (mt_n m) (raw_of_mntm Q I T m) = Ok tt /\ 1 <= mt_n m) <->
             (valid_mntm m = true /\ valid_tapes m = true /\ keys_len_ok m = true /\ tm_sets_ok (raw_of_mntm Q I T m))).
Proof.
  intros Q I T. split; [exact (valid_dtm_agrees Q I T)|]. split; [exact (valid_ntm_agrees Q I T)|exact (valid_mntm_agrees Q I T)].
Qed.
Print Assumptions C19_valid_tm_agrees.

(* the embeddings commute with the Spec-level conversions used by C03's cross-model theorem *)
Theorem C19_tm_embeddings_commute : forall Q I T m,
  raw_of_ntm Q I T (ntm_of_dtm m) = raw_of_dtm Q I T m /\ raw_of_mntm Q I T (mntm_of_dtm m) = raw_of_dtm Q I T m.
Proof. intros Q I T m. split; [exact (raw_of_ntm_of_dtm Q I T m)|exact (raw_of_mntm_of_dtm Q I T m)]. Qed.
Print Assumptions C19_tm_embeddings_commute.

(* ---- the exception raised is the documented one ---- *)
(* whatever is raised is the documented exception of a rule that really is broken; a definition with a
   broken rule is rejected *)
Theorem C19_error_kind_sound :
  (forall m e, dfa_validate m = Err e -> exists k, e = Invalid k /\ dfa_broken m k) /\
  (forall m e, nfa_validate m = Err e -> exists k, e = Invalid k /\ nfa_broken m k) /\
  (forall m k, dfa_broken m k -> exists k', dfa_validate m = Err (Invalid k') /\ dfa_broken m k') /\
  (forall m k, nfa_broken m k -> exists k', nfa_validate m = Err (Invalid k') /\ nfa_broken m k').
Proof.
  repeat split.
  - exact dfa_validate_err_sound.
  - exact nfa_validate_err_sound.
  - exact dfa_broken_rejected.
  - exact nfa_broken_rejected.
Qed.
Print Assumptions C19_error_kind_sound.

(* if every broken rule has the same documented exception k (in particular: exactly one rule is
   broken), the constructor raises exactly k *)
Theorem C19_single_rule_kind :
  (forall m k, dfa_broken m k -> (forall k', dfa_broken m k' -> k' = k) -> dfa_validate m = Err (Invalid k)) /\
  (forall m k, nfa_broken m k -> (forall k', nfa_broken m k' -> k' = k) -> nfa_validate m = Err (Invalid k)) /\
  (forall m k, gnfa_broken m k -> (forall k', gnfa_broken m k' -> k' = k) -> gnfa_validate m = Err (Invalid k)).
Proof. split; [exact dfa_single_rule_kind|split; [exact nfa_single_rule_kind|exact gnfa_single_rule_kind]]. Qed.
Print Assumptions C19_single_rule_kind.

(* GNFA (structural rules of GNFA.validate; the validity of a label string is the input bit): the
   rules are gnfa_broken's constructors - initial / final state not a state (1), a label that is
   not a regular expression over the alphabet (10), the final state has outgoing transitions (1),
   a row of another state does not cover states - {initial} (3: incomplete table), an end state
   that is not a state (1), the initial state has no row (3).  Whatever is raised is the documented
   exception of a rule that is broken; a definition with a broken rule is rejected; only
   InvalidStateError, MissingStateError and InvalidRegexError are raised. *)
Theorem C19_error_kind_sound_gnfa :
  (forall m e, gnfa_validate m = Err e -> exists k, e = Invalid k /\ gnfa_broken m k) /\
  (forall m k, gnfa_broken m k -> exists k', gnfa_validate m = Err (Invalid k') /\ gnfa_broken m k') /\
  (forall m e, gnfa_validate m = Err e -> e = Invalid 1 \/ e = Invalid 3 \/ e = Invalid 10).
Proof. split; [exact gnfa_validate_err_sound|split; [exact gnfa_broken_rejected|exact gnfa_kinds]]. Qed.
Print Assumptions C19_error_kind_sound_gnfa.

(* ---- the ORDER in which several broken rules are reported ---- *)
(* [dfa_rules m] / [nfa_rules m] / [gnfa_rules m] (Proofs/ValidateMore.v) list the rules of the class as
   (documented exception, proposition) in the order the code checks them - for a DFA: every state
   has a row; then per row, in dict order: no symbol missing (complete DFA), the row's symbols are
   input symbols, the end states are states; then the initial state; then the final states.
   [first_broken rs k]: some rule of kind k does not hold and every rule in front of it holds.
   The constructor raises exactly the exception of the first broken rule; it accepts iff every
   rule holds; the reported rule is unique. *)
Theorem C19_first_broken_rule_dfa : forall m,
  (forall k, dfa_validate m = Err (Invalid k) <-> first_broken (dfa_rules m) k) /\
  (dfa_validate m = Ok tt <-> Forall holds (dfa_rules m)) /\
  (forall e, dfa_validate m = Err e -> exists k, e = Invalid k).
Proof.
  intro m. split; [exact (first_broken_rule_dfa m)|]. split; [exact (all_rules_dfa m)|].
  intros e. exact (validate_only_invalid _ e).
Qed.
Print Assumptions C19_first_broken_rule_dfa.

Theorem C19_first_broken_rule_nfa : forall m,
  (forall k, nfa_validate m = Err (Invalid k) <-> first_broken (nfa_rules m) k) /\
  (nfa_validate m = Ok tt <-> Forall holds (nfa_rules m)) /\
  (forall e, nfa_validate m = Err e -> exists k, e = Invalid k).
Proof.
  intro m. split; [exact (first_broken_rule_nfa m)|]. split; [exact (all_rules_nfa m)|].
  intros e. exact (validate_only_invalid _ e).
Qed.
Print Assumptions C19_first_broken_rule_nfa.

Theorem C19_first_broken_rule_gnfa : forall m,
  (forall k, gnfa_validate m = Err (Invalid k) <-> first_broken (gnfa_rules m) k) /\
  (gnfa_validate m = Ok tt <-> Forall holds (gnfa_rules m)).
Proof. intro m. split; [exact (first_broken_rule_gnfa m)|exact (all_rules_gnfa m)]. Qed.
Print Assumptions C19_first_broken_rule_gnfa.

(* "first broken" spelled out: the rule list splits into rules that hold, the reported rule, the rest *)
Theorem C19_first_broken_meaning : forall rs k,
  (first_broken rs k <-> exists pre P post, rs = pre ++ (k, P) :: post /\ Forall holds pre /\ ~ P) /\
  (forall k', first_broken rs k -> first_broken rs k' -> k = k').
Proof. intros rs k. split; [exact (first_broken_split rs k)|intro k'; exact (first_broken_functional rs k k')]. Qed.
Print Assumptions C19_first_broken_meaning.

(* the same for the pushdown and Turing-machine classes: invalid stack symbol, acceptance mode,
   nondeterministic DPDA, bad tape symbol, direction, tape count, final state with transitions, ... *)
Theorem C19_error_kind_sound_pda_tm :
  (forall m mode e, npda_validate m mode = Err e -> exists k, e = Invalid k /\ npda_broken m mode k) /\
  (forall m mode e, dpda_validate_raw m mode = Err e -> exists k, e = Invalid k /\ dpda_broken m mode k) /\
  (forall m e, tm_validate m = Err e -> exists k, e = Invalid k /\ tm_broken m k) /\
  (forall n m e, mntm_validate n m = Err e -> exists k, e = Invalid k /\ mntm_broken n m k) /\
  (forall m k, tm_broken m k -> exists k', tm_validate m = Err (Invalid k') /\ tm_broken m k') /\
  (forall n m k, mntm_broken n m k -> exists k', mntm_validate n m = Err (Invalid k')).
Proof.
  split; [|split; [|split; [|split; [|split]]]].
  - intros m mode e. exact (proj1 (pda_validate_err_sound m mode e)).
  - intros m mode e. exact (proj2 (pda_validate_err_sound m mode e)).
  - exact tm_validate_err_sound.
  - exact mntm_validate_err_sound.
  - exact tm_broken_rejected.
  - exact mntm_broken_rejected.
Qed.
Print Assumptions C19_error_kind_sound_pda_tm.

Theorem C19_single_rule_kind_pda_tm :
  (forall m mode k, npda_broken m mode k -> (forall k', npda_broken m mode k' -> k' = k) ->
     npda_validate m mode = Err (Invalid k)) /\
  (forall m mode k, dpda_broken m mode k -> (forall k', dpda_broken m mode k' -> k' = k) ->
     dpda_validate_raw m mode = Err (Invalid k)) /\
  (forall m k, tm_broken m k -> (forall k', tm_broken m k' -> k' = k) -> tm_validate m = Err (Invalid k)) /\
  (forall n m k, mntm_broken n m k -> (forall k', mntm_broken n m k' -> k' = k) -> mntm_validate n m = Err (Invalid k)).
Proof.
  split; [|split; [|split]].
  - intros m mode k. exact (proj1 (pda_single_rule_kind m mode k)).
  - intros m mode k. exact (proj2 (pda_single_rule_kind m mode k)).
  - exact tm_single_rule_kind.
  - exact mntm_single_rule_kind.
Qed.
Print Assumptions C19_single_rule_kind_pda_tm.

(* PDA constructors raise InvalidStateError, InvalidSymbolError, NondeterminismError or
   InvalidAcceptanceModeError, nothing else *)
Theorem C19_pda_error_kinds : forall m mode e,
  npda_validate m mode = Err e \/ dpda_validate_raw m mode = Err e ->
  e = Invalid 1 \/ e = Invalid 2 \/ e = Invalid 20 \/ e = Invalid 21.
Proof. exact pda_kinds. Qed.
Print Assumptions C19_pda_error_kinds.

(* MNTM: the single-tape rules come first; InconsistentTapesException only when all of them hold *)
Theorem C19_mntm_order : forall n m,
  (forall e, tm_validate m = Err e -> mntm_validate n m = Err e) /\
  (tm_validate m = Ok tt -> mntm_validate n m = if tapes_consistent n m then Ok tt else Err (Invalid 31)).
Proof. exact mntm_validate_order. Qed.
Print Assumptions C19_mntm_order.

(* ---- results of operations are valid: collected from the properties that prove them ---- *)
(* (a conjunction, extended as further operations get their validity theorem) *)
Theorem C19_results_valid :
  (* C04: union, intersection, difference, symmetric difference of valid DFAs *)
  (forall o A B, valid_dfa A = true -> valid_dfa B = true -> same_syms A B = true ->
     exists R, binop_m o A B = Ok R /\ dfa_validate R = Ok tt /\ dfa_keys_ok R = true) /\
  (* C04: every finite expression tree of those operations *)
  (forall S e, leaves_ok S e -> exists R, deval e = Ok R /\ dfa_validate R = Ok tt /\ dfa_keys_ok R = true) /\
  (* C07: DFA.from_nfa (subset construction) *)
  (forall m R, valid_nfa m = true -> determinize_m m = Ok R -> dfa_validate R = Ok tt /\ dfa_keys_ok R = true) /\
  (* C07: NFA.from_dfa *)
  (forall d, valid_dfa d = true -> nfa_validate (from_dfa_m d) = Ok tt /\ nfa_keys_ok (from_dfa_m d) = true).
Proof.
  split; [|split; [|split]].
  - intros o A B HA HB Hs. destruct (binop_spec A B o HA HB Hs) as [R [E [V _]]].
    apply valid_dfa_agrees in V. exists R. tauto.
  - intros S e Hl. destruct (dexpr_spec S e Hl) as [R [E [V _]]].
    apply valid_dfa_agrees in V. exists R. tauto.
  - intros m R Hv E. destruct (determinize_sound m Hv R E) as [V _]. apply valid_dfa_agrees in V. tauto.
  - intros d Hv. pose proof (from_dfa_valid d Hv) as V. apply valid_nfa_agrees in V. tauto.
Qed.
Print Assumptions C19_results_valid.

(* ---- the validation flag: on a well-formed definition the constructor returns the definition whether
   or not it validates; with validation off everything is accepted silently (the documented meaning) ---- *)
Theorem C19_validation_flag_irrelevant_on_valid :
  (forall flag m, wf_dfa m -> ctor dfa_validate flag m = Ok m) /\
  (forall flag m, wf_nfa m -> ctor nfa_validate flag m = Ok m) /\
  (forall flag m mode, wf_npda m mode -> ctor (fun x => npda_validate x mode) flag m = Ok m) /\
  (forall flag m mode, wf_dpda m mode -> ctor (fun x => dpda_validate_raw x mode) flag m = Ok m) /\
  (forall flag m, wf_tm m -> ctor tm_validate flag m = Ok m) /\
  (forall flag n m, wf_mntm n m -> ctor (mntm_validate n) flag m = Ok m) /\
  (forall D (v : D -> res unit) m, ctor v false m = Ok m).
Proof.
  split; [|split; [|split; [|split; [|split; [|split]]]]].
  - intros [|] m Hw; unfold ctor; [|reflexivity]. apply dfa_validate_iff_wf in Hw. rewrite Hw. reflexivity.
  - intros [|] m Hw; unfold ctor; [|reflexivity]. apply nfa_validate_iff_wf in Hw. rewrite Hw. reflexivity.
  - intros [|] m mode Hw; unfold ctor; [|reflexivity]. apply npda_validate_iff_wf in Hw. rewrite Hw. reflexivity.
  - intros [|] m mode Hw; unfold ctor; [|reflexivity]. apply dpda_validate_iff_wf in Hw. rewrite Hw. reflexivity.
  - intros [|] m Hw; unfold ctor; [|reflexivity]. apply tm_validate_iff_wf in Hw. rewrite Hw. reflexivity.
  - intros [|] n m Hw; unfold ctor; [|reflexivity]. apply mntm_validate_iff_wf in Hw. rewrite Hw. reflexivity.
  - intros D v m. reflexivity.
Qed.
Print Assumptions C19_validation_flag_irrelevant_on_valid.

(* ---- non-vacuity: concrete definitions, accepted and rejected ---- *)
Example C19_example_dfa :
  let ok := mkdfa [0;1] [0;1] [(0,[(0,0);(1,1)]);(1,[(0,0);(1,1)])] 0 [1] false in
  let missing_symbol := mkdfa [0;1] [0;1] [(0,[(0,0);(1,1)]);(1,[(0,0)])] 0 [1] false in
  let partial_ok := mkdfa [0;1] [0;1] [(0,[(0,0);(1,1)]);(1,[(0,0)])] 0 [1] true in
  let missing_row := mkdfa [0;1] [0;1] [(0,[(0,0);(1,1)])] 0 [1] true in
  let bad_symbol_then_bad_end := mkdfa [0;1] [0;1] [(0,[(0,7);(5,1)]);(1,[])] 0 [1] true in
  let bad_final := mkdfa [0;1] [0;1] [(0,[]);(1,[])] 0 [3] true in
  map dfa_validate [ok; missing_symbol; partial_ok; missing_row; bad_symbol_then_bad_end; bad_final]
  = [Ok tt; Err (Invalid 4); Ok tt; Err (Invalid 3); Err (Invalid 2); Err (Invalid 1)]
  /\ valid_dfa ok = true /\ valid_dfa missing_symbol = false.
Proof. vm_compute. repeat split. Qed.

Example C19_example_nfa :
  let ok := mknfa [0;1] [0] [(0,[(Some 0,[1]);(None,[0])])] 0 [1] in
  let no_initial_row := mknfa [0;1] [0] [(1,[])] 0 [1] in
  let single_state_no_row := mknfa [0] [0] [] 0 [0] in
  let bad_end := mknfa [0;1] [0] [(0,[(Some 0,[2])])] 0 [1] in
  let stray_row_accepted := mknfa [0] [0] [(0,[]);(5,[(Some 0,[0])])] 0 [0] in
  map nfa_validate [ok; no_initial_row; single_state_no_row; bad_end; stray_row_accepted]
  = [Ok tt; Err (Invalid 3); Ok tt; Err (Invalid 1); Ok tt].
Proof. vm_compute. reflexivity. Qed.

Example C19_example_pda_tm :
  let p := mkpda [0;1] [0] [0;1] [(0,[(Some 0,[(0,[(1,[0])])]);(None,[(1,[(1,[])])])])] 0 0 [1] BothModes in
  let clash := mkpda [0;1] [0] [0;1] [(0,[(Some 0,[(0,[(1,[0])])]);(None,[(0,[(1,[])])])])] 0 0 [1] BothModes in
  let t := mkrtm [0;1] [0] [0;1] [(0,[([0],[(1,[(1,1)])])])] 0 1 [1] in
  let t2 := mkrtm [0;1] [0] [0;1] [(0,[([0;1],[(1,[(1,1);(0,2)])])])] 0 1 [1] in
  (dpda_validate_raw p 2, dpda_validate_raw p 7, dpda_validate_raw clash 2, npda_validate clash 2)
  = (Ok tt, Err (Invalid 21), Err (Invalid 20), Ok tt) /\
  (tm_validate t, mntm_validate 1 t, mntm_validate 2 t, mntm_validate 2 t2,
   tm_validate (mkrtm [0;1] [0] [0;1] [(0,[([0],[(1,[(1,5)])])])] 0 1 [1]),
   tm_validate (mkrtm [0;1] [0;1] [0;1] [(0,[([0],[(1,[(1,1)])])])] 0 1 [1]),
   tm_validate (mkrtm [0;1] [0] [0;1] [(0,[([0],[(1,[(1,1)])])]);(1,[])] 0 1 [1]))
  = (Ok tt, Ok tt, Err (Invalid 31), Ok tt, Err (Invalid 30), Err (Invalid 4), Err (Invalid 6)).
Proof. vm_compute. split; reflexivity. Qed.

(* two broken rules of different kinds: the row of state 0 has a foreign symbol (InvalidSymbolError) and an
   unknown end state (InvalidStateError); the symbol rule comes first in the code, and is the one reported *)
Example C19_example_order :
  let m := mkdfa [0;1] [0;1] [(0,[(0,7);(5,1)]);(1,[])] 0 [1] true in
  dfa_broken m 1 /\ dfa_broken m 2 /\ first_broken (dfa_rules m) 2 /\ ~ first_broken (dfa_rules m) 1.
Proof.
  simpl. split; [|split; [|split]].
  - apply (db_end _ 0 [(0,7);(5,1)] 0 7); simpl; auto. intros [H|[H|[]]]; discriminate.
  - apply (db_sym _ 0 [(0,7);(5,1)] 5 1); simpl; auto. intros [H|[H|[]]]; discriminate.
  - apply C19_first_broken_rule_dfa. vm_compute. reflexivity.
  - intro H. apply C19_first_broken_rule_dfa in H. vm_compute in H. discriminate.
Qed.

(* GNFA: a complete three-state definition is accepted; each structural corruption gives its kind.
   The last one has a transition INTO the initial state (1 -> 0): GNFA.validate does not check the
   class docstring's "no transitions coming in" and accepts it (observed on the library: to_regex()
   then raises KeyError) *)
Example C19_example_gnfa :
  let ok := mkgnfa [0;1;2] [(0,[(1,Some true);(2,None)]);(1,[(1,Some true);(2,Some true)])] 0 2 in
  let final_with_row := mkgnfa [0;1;2] [(0,[(1,Some true);(2,None)]);(1,[(1,Some true);(2,Some true)]);(2,[(1,None)])] 0 2 in
  let incomplete := mkgnfa [0;1;2] [(0,[(1,Some true);(2,None)]);(1,[(2,Some true)])] 0 2 in
  let bad_label := mkgnfa [0;1;2] [(0,[(1,Some false);(2,None)]);(1,[(1,Some true);(2,Some true)])] 0 2 in
  let bad_end := mkgnfa [0;1;2] [(0,[(1,Some true);(2,None);(7,None)]);(1,[(1,Some true);(2,Some true)])] 0 2 in
  let no_initial_row := mkgnfa [0;1;2] [(1,[(1,Some true);(2,Some true)])] 0 2 in
  let into_initial := mkgnfa [0;1;2] [(0,[(1,Some true);(2,None)]);(1,[(1,Some true);(2,Some true);(0,Some true)])] 0 2 in
  map gnfa_validate [ok; final_with_row; incomplete; bad_label; bad_end; no_initial_row; into_initial]
  = [Ok tt; Err (Invalid 1); Err (Invalid 3); Err (Invalid 10); Err (Invalid 1); Err (Invalid 3); Ok tt].
Proof. vm_compute. reflexivity. Qed.

(* C03's example machine (blank 0, symbol 1, final state 2) with Q = {0,1,2}, I = {1}, T = {0,1}: accepted by
   the DTM constructor, hence valid_dtm; with the input symbols equal to the tape symbols it is rejected
   although valid_dtm holds (a rule about the sets) *)
Example C19_example_tm_embed :
  let m := mkdtm [(0, [(1, (0, 1, DL)); (0, (1, 1, DR))]); (1, [(1, (1, 1, DR)); (0, (2, 0, DN))])] 0 0 [2] in
  dtm_validate (raw_of_dtm [0;1;2] [1] [0;1] m) = Ok tt /\ valid_dtm m = true /\
  dtm_validate (raw_of_dtm [0;1;2] [0;1] [0;1] m) = Err (Invalid 4) /\
  mntm_validate 1 (raw_of_mntm [0;1;2] [1] [0;1] (mntm_of_dtm m)) = Ok tt.
Proof. vm_compute. repeat split. Qed.
