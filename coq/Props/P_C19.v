(* C19 - validation is sound, results are valid, the validation flag never changes what a valid
   definition constructs.  (The two global flags themselves are process state of the Python
   interpreter: that no operation depends on them is monitored by the correspondence run in four
   interpreter processes, not proved - C19 is "partial" for that part.)

   validate() of every class is modelled in Model/Validate.v as the code's sequence of checks, the
   first failing one giving the exception.  wf_* (Proofs/Validate.v) are the documented rules as
   declarative predicates over RAW definitions; *_broken k says "a rule whose documented exception is
   number k is broken" (1 InvalidStateError, 2 InvalidSymbolError, 3 MissingStateError,
   4 MissingSymbolError, 5 InitialStateError, 6 FinalStateError, 10 InvalidRegexError,
   20 NondeterminismError, 21 InvalidAcceptanceModeError, 30 InvalidDirectionError,
   31 InconsistentTapesException). *)
From Coq Require Import List Arith Bool.
From AV Require Import Base.Util Spec.Lang Spec.FA Spec.PDA Model.PDA Model.Validate Proofs.Validate.
From AV Require Import Model.Decide Model.Product Model.Build Model.DFAOps Model.Subset Proofs.DFAOps Proofs.Subset.
Import ListNotations.

(* ---- the constructor accepts exactly the well-formed definitions ---- *)
Theorem C19_validate_iff_wf_dfa : forall m, dfa_validate m = Ok tt <-> wf_dfa m.
Proof. exact dfa_validate_iff_wf. Qed.
Print Assumptions C19_validate_iff_wf_dfa.

Theorem C19_validate_iff_wf_nfa : forall m, nfa_validate m = Ok tt <-> wf_nfa m.
Proof. exact nfa_validate_iff_wf. Qed.
Print Assumptions C19_validate_iff_wf_nfa.

(* mode: 0 final_state, 1 empty_stack, 2 both, anything else is not an acceptance mode *)
Theorem C19_validate_iff_wf_npda : forall m mode, npda_validate m mode = Ok tt <-> wf_npda m mode.
Proof. exact npda_validate_iff_wf. Qed.
Print Assumptions C19_validate_iff_wf_npda.

(* DPDA: the NPDA rules and no empty-string move next to a symbol move under the same stack top *)
Theorem C19_validate_iff_wf_dpda : forall m mode, dpda_validate_raw m mode = Ok tt <-> wf_dpda m mode.
Proof. exact dpda_validate_iff_wf. Qed.
Print Assumptions C19_validate_iff_wf_dpda.

(* DTM.validate and NTM.validate are the same sequence of checks over the raw table shape *)
Theorem C19_validate_iff_wf_dtm_ntm : forall m,
  (dtm_validate m = Ok tt <-> wf_tm m) /\ (ntm_validate m = Ok tt <-> wf_tm m).
Proof. intro m. split; exact (tm_validate_iff_wf m). Qed.
Print Assumptions C19_validate_iff_wf_dtm_ntm.

Theorem C19_validate_iff_wf_mntm : forall n m, mntm_validate n m = Ok tt <-> wf_mntm n m.
Proof. exact mntm_validate_iff_wf. Qed.
Print Assumptions C19_validate_iff_wf_mntm.

(* GNFA at the structural level: whether a label string is a regular expression over the alphabet
   is an input bit of the raw definition (the regex validator is C11's) *)
Theorem C19_validate_iff_wf_gnfa : forall m, gnfa_validate m = Ok tt <-> wf_gnfa m.
Proof. exact gnfa_validate_iff_wf. Qed.
Print Assumptions C19_validate_iff_wf_gnfa.

(* ---- the hypothesis of every other FA theorem is "no duplicate keys, and the constructor accepts" ---- *)
Theorem C19_valid_dfa_agrees : forall m, valid_dfa m = true <-> dfa_keys_ok m = true /\ dfa_validate m = Ok tt.
Proof. exact valid_dfa_agrees. Qed.
Print Assumptions C19_valid_dfa_agrees.

Theorem C19_valid_nfa_agrees : forall m, valid_nfa m = true <-> nfa_keys_ok m = true /\ nfa_validate m = Ok tt.
Proof. exact valid_nfa_agrees. Qed.
Print Assumptions C19_valid_nfa_agrees.

(* the hypothesis of the C02 theorems likewise: valid_pda = duplicate-free keys + the NPDA constructor accepts
   (mode 2 = "both"; valid_pda does not mention the mode, which the record cannot get wrong) *)
Theorem C19_valid_pda_agrees : forall m, valid_pda m = true <-> keys_ok m = true /\ npda_validate m 2 = Ok tt.
Proof. exact valid_pda_agrees. Qed.
Print Assumptions C19_valid_pda_agrees.

(* the DPDA constructor model that C02 reasons about is this checker restricted to valid acceptance modes *)
Theorem C19_dpda_checker_is_C02s : forall m mode, mode <= 2 -> dpda_validate_raw m mode = dpda_validate m.
Proof. exact dpda_validate_raw_agrees. Qed.
Print Assumptions C19_dpda_checker_is_C02s.

(* ---- the exception raised is the documented one ---- *)
(* whatever is raised is the documented exception of a rule that really is broken; a definition with a
   broken rule is rejected *)
Theorem C19_error_kind_sound :
  (forall m e, dfa_validate m = Err e -> exists k, e = Invalid k /\ dfa_broken m k) /\
  (forall m e, nfa_validate m = Err e -> exists k, e = Invalid k /\ nfa_broken m k) /\
  (forall m k, dfa_broken m k -> exists k', dfa_validate m = Err (Invalid k') /\ dfa_broken m k') /\
  (forall m k, nfa_broken m k -> exists k', nfa_validate m = Err (Invalid k') /\ nfa_broken m k').
Proof.
  repeat split.
  - exact dfa_validate_err_sound.
  - exact nfa_validate_err_sound.
  - exact dfa_broken_rejected.
  - exact nfa_broken_rejected.
Qed.
Print Assumptions C19_error_kind_sound.

(* if every broken rule has the same documented exception k (in particular: exactly one rule is
   broken), the constructor raises exactly k *)
Theorem C19_single_rule_kind :
  (forall m k, dfa_broken m k -> (forall k', dfa_broken m k' -> k' = k) -> dfa_validate m = Err (Invalid k)) /\
  (forall m k, nfa_broken m k -> (forall k', nfa_broken m k' -> k' = k) -> nfa_validate m = Err (Invalid k)).
Proof. split; [exact dfa_single_rule_kind|exact nfa_single_rule_kind]. Qed.
Print Assumptions C19_single_rule_kind.

(* the same for the pushdown and Turing-machine classes: invalid stack symbol, acceptance mode,
   nondeterministic DPDA, bad tape symbol, direction, tape count, final state with transitions, ... *)
Theorem C19_error_kind_sound_pda_tm :
  (forall m mode e, npda_validate m mode = Err e -> exists k, e = Invalid k /\ npda_broken m mode k) /\
  (forall m mode e, dpda_validate_raw m mode = Err e -> exists k, e = Invalid k /\ dpda_broken m mode k) /\
  (forall m e, tm_validate m = Err e -> exists k, e = Invalid k /\ tm_broken m k) /\
  (forall n m e, mntm_validate n m = Err e -> exists k, e = Invalid k /\ mntm_broken n m k) /\
  (forall m k, tm_broken m k -> exists k', tm_validate m = Err (Invalid k') /\ tm_broken m k') /\
  (forall n m k, mntm_broken n m k -> exists k', mntm_validate n m = Err (Invalid k')).
Proof.
  split; [|split; [|split; [|split; [|split]]]].
  - intros m mode e. exact (proj1 (pda_validate_err_sound m mode e)).
  - intros m mode e. exact (proj2 (pda_validate_err_sound m mode e)).
  - exact tm_validate_err_sound.
  - exact mntm_validate_err_sound.
  - exact tm_broken_rejected.
  - exact mntm_broken_rejected.
Qed.
Print Assumptions C19_error_kind_sound_pda_tm.

Theorem C19_single_rule_kind_pda_tm :
  (forall m mode k, npda_broken m mode k -> (forall k', npda_broken m mode k' -> k' = k) ->
     npda_validate m mode = Err (Invalid k)) /\
  (forall m mode k, dpda_broken m mode k -> (forall k', dpda_broken m mode k' -> k' = k) ->
     dpda_validate_raw m mode = Err (Invalid k)) /\
  (forall m k, tm_broken m k -> (forall k', tm_broken m k' -> k' = k) -> tm_validate m = Err (Invalid k)) /\
  (forall n m k, mntm_broken n m k -> (forall k', mntm_broken n m k' -> k' = k) -> mntm_validate n m = Err (Invalid k)).
Proof.
  split; [|split; [|split]].
  - intros m mode k. exact (proj1 (pda_single_rule_kind m mode k)).
  - intros m mode k. exact (proj2 (pda_single_rule_kind m mode k)).
  - exact tm_single_rule_kind.
  - exact mntm_single_rule_kind.
Qed.
Print Assumptions C19_single_rule_kind_pda_tm.

(* PDA constructors raise InvalidStateError, InvalidSymbolError, NondeterminismError or
   InvalidAcceptanceModeError, nothing else *)
Theorem C19_pda_error_kinds : forall m mode e,
  npda_validate m mode = Err e \/ dpda_validate_raw m mode = Err e ->
  e = Invalid 1 \/ e = Invalid 2 \/ e = Invalid 20 \/ e = Invalid 21.
Proof. exact pda_kinds. Qed.
Print Assumptions C19_pda_error_kinds.

(* MNTM: the single-tape rules come first; InconsistentTapesException only when all of them hold *)
Theorem C19_mntm_order : forall n m,
  (forall e, tm_validate m = Err e -> mntm_validate n m = Err e) /\
  (tm_validate m = Ok tt -> mntm_validate n m = if tapes_consistent n m then Ok tt else Err (Invalid 31)).
Proof. exact mntm_validate_order. Qed.
Print Assumptions C19_mntm_order.

(* ---- results of operations are valid: collected from the properties that prove them ---- *)
(* (a conjunction, extended as further operations get their validity theorem) *)
Theorem C19_results_valid :
  (* C04: union, intersection, difference, symmetric difference of valid DFAs *)
  (forall o A B, valid_dfa A = true -> valid_dfa B = true -> same_syms A B = true ->
     exists R, binop_m o A B = Ok R /\ dfa_validate R = Ok tt /\ dfa_keys_ok R = true) /\
  (* C04: every finite expression tree of those operations *)
  (forall S e, leaves_ok S e -> exists R, deval e = Ok R /\ dfa_validate R = Ok tt /\ dfa_keys_ok R = true) /\
  (* C07: DFA.from_nfa (subset construction) *)
  (forall m R, valid_nfa m = true -> determinize_m m = Ok R -> dfa_validate R = Ok tt /\ dfa_keys_ok R = true) /\
  (* C07: NFA.from_dfa *)
  (forall d, valid_dfa d = true -> nfa_validate (from_dfa_m d) = Ok tt /\ nfa_keys_ok (from_dfa_m d) = true).
Proof.
  split; [|split; [|split]].
  - intros o A B HA HB Hs. destruct (binop_spec A B o HA HB Hs) as [R [E [V _]]].
    apply valid_dfa_agrees in V. exists R. tauto.
  - intros S e Hl. destruct (dexpr_spec S e Hl) as [R [E [V _]]].
    apply valid_dfa_agrees in V. exists R. tauto.
  - intros m R Hv E. destruct (determinize_sound m Hv R E) as [V _]. apply valid_dfa_agrees in V. tauto.
  - intros d Hv. pose proof (from_dfa_valid d Hv) as V. apply valid_nfa_agrees in V. tauto.
Qed.
Print Assumptions C19_results_valid.

(* ---- the validation flag: on a well-formed definition the constructor returns the definition whether
   or not it validates; with validation off everything is accepted silently (the documented meaning) ---- *)
Theorem C19_validation_flag_irrelevant_on_valid :
  (forall flag m, wf_dfa m -> ctor dfa_validate flag m = Ok m) /\
  (forall flag m, wf_nfa m -> ctor nfa_validate flag m = Ok m) /\
  (forall flag m mode, wf_npda m mode -> ctor (fun x => npda_validate x mode) flag m = Ok m) /\
  (forall flag m mode, wf_dpda m mode -> ctor (fun x => dpda_validate_raw x mode) flag m = Ok m) /\
  (forall flag m, wf_tm m -> ctor tm_validate flag m = Ok m) /\
  (forall flag n m, wf_mntm n m -> ctor (mntm_validate n) flag m = Ok m) /\
  (forall D (v : D -> res unit) m, ctor v false m = Ok m).
Proof.
  split; [|split; [|split; [|split; [|split; [|split]]]]].
  - intros [|] m Hw; unfold ctor; [|reflexivity]. apply dfa_validate_iff_wf in Hw. rewrite Hw. reflexivity.
  - intros [|] m Hw; unfold ctor; [|reflexivity]. apply nfa_validate_iff_wf in Hw. rewrite Hw. reflexivity.
  - intros [|] m mode Hw; unfold ctor; [|reflexivity]. apply npda_validate_iff_wf in Hw. rewrite Hw. reflexivity.
  - intros [|] m mode Hw; unfold ctor; [|reflexivity]. apply dpda_validate_iff_wf in Hw. rewrite Hw. reflexivity.
  - intros [|] m Hw; unfold ctor; [|reflexivity]. apply tm_validate_iff_wf in Hw. rewrite Hw. reflexivity.
  - intros [|] n m Hw; unfold ctor; [|reflexivity]. apply mntm_validate_iff_wf in Hw. rewrite Hw. reflexivity.
  - intros D v m. reflexivity.
Qed.
Print Assumptions C19_validation_flag_irrelevant_on_valid.

(* ---- non-vacuity: concrete definitions, accepted and rejected ---- *)
Example C19_example_dfa :
  let ok := mkdfa [0;1] [0;1] [(0,[(0,0);(1,1)]);(1,[(0,0);(1,1)])] 0 [1] false in
  let missing_symbol := mkdfa [0;1] [0;1] [(0,[(0,0);(1,1)]);(1,[(0,0)])] 0 [1] false in
  let partial_ok := mkdfa [0;1] [0;1] [(0,[(0,0);(1,1)]);(1,[(0,0)])] 0 [1] true in
  let missing_row := mkdfa [0;1] [0;1] [(0,[(0,0);(1,1)])] 0 [1] true in
  let bad_symbol_then_bad_end := mkdfa [0;1] [0;1] [(0,[(0,7);(5,1)]);(1,[])] 0 [1] true in
  let bad_final := mkdfa [0;1] [0;1] [(0,[]);(1,[])] 0 [3] true in
  map dfa_validate [ok; missing_symbol; partial_ok; missing_row; bad_symbol_then_bad_end; bad_final]
  = [Ok tt; Err (Invalid 4); Ok tt; Err (Invalid 3); Err (Invalid 2); Err (Invalid 1)]
  /\ valid_dfa ok = true /\ valid_dfa missing_symbol = false.
Proof. vm_compute. repeat split. Qed.

Example C19_example_nfa :
  let ok := mknfa [0;1] [0] [(0,[(Some 0,[1]);(None,[0])])] 0 [1] in
  let no_initial_row := mknfa [0;1] [0] [(1,[])] 0 [1] in
  let single_state_no_row := mknfa [0] [0] [] 0 [0] in
  let bad_end := mknfa [0;1] [0] [(0,[(Some 0,[2])])] 0 [1] in
  let stray_row_accepted := mknfa [0] [0] [(0,[]);(5,[(Some 0,[0])])] 0 [0] in
  map nfa_validate [ok; no_initial_row; single_state_no_row; bad_end; stray_row_accepted]
  = [Ok tt; Err (Invalid 3); Ok tt; Err (Invalid 1); Ok tt].
Proof. vm_compute. reflexivity. Qed.

Example C19_example_pda_tm :
  let p := mkpda [0;1] [0] [0;1] [(0,[(Some 0,[(0,[(1,[0])])]);(None,[(1,[(1,[])])])])] 0 0 [1] BothModes in
  let clash := mkpda [0;1] [0] [0;1] [(0,[(Some 0,[(0,[(1,[0])])]);(None,[(0,[(1,[])])])])] 0 0 [1] BothModes in
  let t := mkrtm [0;1] [0] [0;1] [(0,[([0],[(1,[(1,1)])])])] 0 1 [1] in
  let t2 := mkrtm [0;1] [0] [0;1] [(0,[([0;1],[(1,[(1,1);(0,2)])])])] 0 1 [1] in
  (dpda_validate_raw p 2, dpda_validate_raw p 7, dpda_validate_raw clash 2, npda_validate clash 2)
  = (Ok tt, Err (Invalid 21), Err (Invalid 20), Ok tt) /\
  (tm_validate t, mntm_validate 1 t, mntm_validate 2 t, mntm_validate 2 t2,
   tm_validate (mkrtm [0;1] [0] [0;1] [(0,[([0],[(1,[(1,5)])])])] 0 1 [1]),
   tm_validate (mkrtm [0;1] [0;1] [0;1] [(0,[([0],[(1,[(1,1)])])])] 0 1 [1]),
   tm_validate (mkrtm [0;1] [0] [0;1] [(0,[([0],[(1,[(1,1)])])]);(1,[])] 0 1 [1]))
  = (Ok tt, Ok tt, Err (Invalid 31), Ok tt, Err (Invalid 30), Err (Invalid 4), Err (Invalid 6)).
Proof. vm_compute. split; reflexivity. Qed.
