(* C03 - Turing-machine simulation is faithful step by step (DTM, NTM, multitape).
   Only statements, each closed by short glue, with Print Assumptions beneath.
   Tapes of the textbook machine are functions Z -> symbol (head at 0), compared pointwise
   (zeq / zcfg_eq / mzcfg_eq); [view] reads a Python-shaped tape object that way. *)
From Coq Require Import List Arith ZArith Bool.
From AV Require Import Base.Util Spec.TM Model.TM Proofs.TM Proofs.TMOrder.
Import ListNotations.

(* TMTape(input, blank): the head is in range and the object reads as the textbook start tape *)
Theorem C03_tape_init : forall w b,
  wf (tape_init w b 0) /\ zeq (view (tape_init w b 0)) (zinput b w) /\ t_blank (tape_init w b 0) = b.
Proof. intros w b. split; [apply wf_init|]. split; [apply view_init|reflexivity]. Qed.
Print Assumptions C03_tape_init.

(* write_symbol commutes with writing under the head of the bi-infinite tape *)
Theorem C03_tape_write_view : forall t s, wf t ->
  zeq (view (t_write t s)) (zwrite (view t) s) /\ wf (t_write t s) /\ t_blank (t_write t s) = t_blank t.
Proof. intros t s H. split; [exact (write_view t s H)|]. split; [exact (wf_write t s H)|reflexivity]. Qed.
Print Assumptions C03_tape_write_view.

(* move commutes with shifting the bi-infinite tape, for L, R and N, including L from cell 0
   (a blank is inserted at index 0 and the index stays 0) and R past the last cell (a blank is
   appended); the head index stays in range, so read_symbol never raises IndexError *)
Theorem C03_tape_move_view : forall t d, wf t ->
  zeq (view (t_move t d)) (zmove d (view t)) /\ wf (t_move t d) /\ t_blank (t_move t d) = t_blank t.
Proof. intros t d H. split; [exact (move_view t d H)|]. split; [exact (wf_move t d H)|reflexivity]. Qed.
Print Assumptions C03_tape_move_view.

(* DTM: the k-th yielded configuration is k applications of the transition function to the
   start configuration; at most fuel+1 configurations are yielded *)
Theorem C03_dtm_kth : forall m fuel w ys o, dtm_stepwise m fuel w = (ys, o) ->
  1 <= length ys <= S fuel /\
  forall k c, nth_error ys k = Some c ->
    exists z, dsteps m k (dt_start m w) = Some z /\ zcfg_eq (abs_cfg c) z.
Proof.
  intros m fuel w ys o E. destruct (dtm_stepwise_facts m fuel w ys o E) as [c0 [ys' [-> [Hl [T1 _]]]]].
  split; [simpl; split; [apply le_n_S, Nat.le_0_l|apply le_n_S; exact Hl]|exact T1].
Qed.
Print Assumptions C03_dtm_kth.

(* DTM verdict, for every fuel: accepted iff a final state is reached within the budget;
   rejected iff the run gets stuck within the budget before any final state; otherwise out of fuel *)
Theorem C03_dtm_verdict : forall m fuel w,
  (dtm_accepts m fuel w = Ok true <-> exists k, k <= fuel /\ dreach_final m w k) /\
  (dtm_accepts m fuel w = Ok false <-> exists k, k <= fuel /\ dstuck_at m w k) /\
  (dtm_accepts m fuel w = Ok true \/ dtm_accepts m fuel w = Ok false \/ dtm_accepts m fuel w = Err Fuel).
Proof.
  intros m fuel w. split; [apply dtm_accept_iff|]. split; [apply dtm_reject_iff|apply dtm_accepts_cases].
Qed.
Print Assumptions C03_dtm_verdict.

(* NTM: the k-th yielded set is exactly the set of configurations reachable in k moves *)
Theorem C03_ntm_level_exact : forall m fuel w ys o, ntm_levels m fuel w = (ys, o) ->
  forall k l, nth_error ys k = Some l ->
    forall z, nreach m k (nt_start m w) z <-> exists c, In c l /\ zcfg_eq (abs_cfg c) z.
Proof. intros m fuel w ys o E. exact (ntm_level_exact m fuel w ys o E). Qed.
Print Assumptions C03_ntm_level_exact.

(* NTM verdict, for every fuel: accepted iff some branch reaches a final state within the budget;
   rejected iff within the budget every branch is stuck (no configuration is reachable in k moves)
   and no final state was reached; otherwise out of fuel *)
Theorem C03_ntm_verdict : forall m fuel w,
  (ntm_accepts m fuel w = Ok true <-> exists k, k <= fuel /\ nreach_final m w k) /\
  (ntm_accepts m fuel w = Ok false <-> exists k, k <= fuel /\ nall_stuck_at m w k) /\
  (ntm_accepts m fuel w = Ok true \/ ntm_accepts m fuel w = Ok false \/ ntm_accepts m fuel w = Err Fuel).
Proof.
  intros m fuel w. split; [apply ntm_accept_iff|]. split; [apply ntm_reject_iff|apply ntm_accepts_cases].
Qed.
Print Assumptions C03_ntm_verdict.

(* MNTM verdict, for every fuel and every result other than Err Fuel: accepted only if a final
   state is reachable, rejected only if none is; no other outcome for a valid machine *)
Theorem C03_mntm_verdict : forall m fuel w, valid_mntm m = true ->
  (mntm_accepts m fuel w = Ok true -> mreach_final m w) /\
  (mntm_accepts m fuel w = Ok false -> ~ mreach_final m w) /\
  (mntm_accepts m fuel w = Ok true \/ mntm_accepts m fuel w = Ok false \/ mntm_accepts m fuel w = Err Fuel).
Proof. intros m fuel w Hv. exact (mntm_accepts_spec m Hv fuel w). Qed.
Print Assumptions C03_mntm_verdict.

(* the native multitape run of ANY table - final states that carry rows and entries whose list of
   alternatives is empty included (the constructor accepts the latter) - ends by accepting, by the
   rejection exception or by running out of fuel: in particular no IndexError (the repaired
   `if not possible_transitions`, mntm.py:259) *)
Theorem C03_mntm_no_other_outcome : forall m fuel w,
  mntm_accepts m fuel w = Ok true \/ mntm_accepts m fuel w = Ok false \/ mntm_accepts m fuel w = Err Fuel.
Proof. intros m fuel w. exact (mntm_accepts_cases m fuel w). Qed.
Print Assumptions C03_mntm_no_other_outcome.

(* Breadth-first order of the multitape simulator: the dequeued (= yielded) configurations come
   with depths that never decrease, each is reachable in exactly its depth, and unless fuel ran
   out every configuration reachable in fewer moves than the last dequeued one was dequeued (on a
   rejecting end: every reachable configuration).  Proved through the queue invariant "the queue
   holds configurations of depth d followed by configurations of depth d+1; everything of depth
   < d has been dequeued" (Proofs/TMOrder.v, binv / bfs_order). *)
Theorem C03_mntm_visits_reachable :
  forall m fuel w ys o, mntm_stepwise m fuel w = (ys, o) ->
  exists depths : list nat, length depths = length ys /\
    (forall i c d, nth_error ys i = Some c -> nth_error depths i = Some d ->
                   mreach m d (mt_start m w) (abs_mcfg c)) /\
    (forall i d d', nth_error depths i = Some d -> nth_error depths (S i) = Some d' -> d <= d') /\
    (o <> Err Fuel -> forall k z, mreach m k (mt_start m w) z ->
       (o = Err Reject \/ S k <= last depths 0) -> exists c, In c ys /\ mzcfg_eq (abs_mcfg c) z).
Proof. intros m fuel w ys o E. exact (mntm_visits_bfs_order m w fuel ys o E). Qed.
Print Assumptions C03_mntm_visits_reachable.

(* how a run ends: at most fuel configurations are dequeued; an accepting run returns a dequeued
   final configuration; a rejecting run has dequeued every reachable configuration (up to tape
   equality) and none of them is final *)
Theorem C03_mntm_run_ends : forall m fuel w ys o, valid_mntm m = true ->
  mntm_stepwise m fuel w = (ys, o) ->
  length ys <= fuel /\
  (forall c, In c ys -> exists k, mreach m k (mt_start m w) (abs_mcfg c)) /\
  (forall cl, o = Ok cl -> In cl ys /\ mt_final m (abs_mcfg cl)) /\
  (o = Err Reject ->
     forall k z, mreach m k (mt_start m w) z ->
       ~ mt_final m z /\ exists c, In c ys /\ mzcfg_eq (abs_mcfg c) z).
Proof.
  intros m fuel w ys o Hv E. destruct (mntm_stepwise_sound m w fuel ys o E) as [S1 [S2 S3]].
  split; [exact S2|]. split; [exact S1|]. split.
  - intros cl ->. destruct S3 as [Hin [Hf _]]. split; assumption.
  - intros ->. intros k z Hr. split.
    + intro Hf. apply (S3 k z Hr). split; [exact Hf|]. left. apply (valid_final_no_delta m Hv). exact Hf.
    + exact (mntm_reject_visits_all m w fuel ys E k z Hr).
Qed.
Print Assumptions C03_mntm_run_ends.

(* a deterministic table read as DTM, as NTM and as one-tape MNTM gives the same verdict for
   every three fuels on which the three runs return *)
Theorem C03_cross_model_agreement : forall m w f1 f2 f3 b1 b2 b3, valid_dtm m = true ->
  dtm_accepts m f1 w = Ok b1 ->
  ntm_accepts (ntm_of_dtm m) f2 w = Ok b2 ->
  mntm_accepts (mntm_of_dtm m) f3 w = Ok b3 ->
  b1 = b2 /\ b2 = b3.
Proof. intros m w f1 f2 f3 b1 b2 b3. exact (cross_model_agreement m w f1 f2 f3 b1 b2 b3). Qed.
Print Assumptions C03_cross_model_agreement.

(* non-vacuity.  Blank 0, symbol 1.  State 0 walks left to the first blank (off the left end of the
   input), writes 1 and turns; state 1 walks right past the last cell and accepts in state 2. *)
Definition ex_dtm : dtm :=
  mkdtm [(0, [(1, (0, 1, DL)); (0, (1, 1, DR))]); (1, [(1, (1, 1, DR)); (0, (2, 0, DN))])] 0 0 [2].

Example C03_example_runs :
  valid_dtm ex_dtm = true /\ valid_mntm (mntm_of_dtm ex_dtm) = true /\
  dtm_accepts ex_dtm 10 [1;1] = Ok true /\ dtm_accepts ex_dtm 3 [1;1] = Err Fuel /\
  dtm_accepts ex_dtm 10 [2] = Ok false /\
  ntm_accepts (ntm_of_dtm ex_dtm) 10 [1;1] = Ok true /\ ntm_accepts (ntm_of_dtm ex_dtm) 10 [2] = Ok false /\
  mntm_accepts (mntm_of_dtm ex_dtm) 10 [1;1] = Ok true /\ mntm_accepts (mntm_of_dtm ex_dtm) 10 [2] = Ok false /\
  length (fst (dtm_stepwise ex_dtm 10 [1;1])) = 6.
Proof. vm_compute. repeat split. Qed.

(* L from cell 0 inserts a blank at index 0 and keeps index 0; R from the last cell appends one *)
Example C03_example_tape_ends :
  t_move (mktape [5;6] 0 0) DL = mktape [0;5;6] 0 0 /\
  t_move (mktape [5;6] 1 0) DR = mktape [5;6;0] 2 0 /\
  t_move (mktape [5;6] 1 0) DN = mktape [5;6] 1 0 /\
  canon (mktape [0;5;6;0] 1 0) = ([], 5, [6]).
Proof. vm_compute. repeat split. Qed.

(* a nondeterministic machine whose second level has two configurations *)
Example C03_example_ntm_levels :
  let m := mkntm [(0, [(1, [(0, 1, DR); (1, 0, DL)])]); (1, [(0, [(2, 0, DN)])])] 0 0 [2] in
  valid_ntm m = true /\ map (@length _) (fst (ntm_levels m 5 [1])) = [1; 2; 1] /\
  ntm_accepts m 5 [1] = Ok true.
Proof. vm_compute. repeat split. Qed.

(* an entry with an empty list of alternatives is no transition: q0 walks right over the 1s; on the blank
   its entry lists no alternative, so the only branch is stuck there and the input is rejected; with
   the empty entry on 1 instead the machine is stuck at once *)
Example C03_example_no_alternative :
  let m := mkmntm 1 [(0, [([1], [(0, [(1, DR)])]); ([0], [])])] 0 0 [1] in
  let m' := mkmntm 1 [(0, [([1], []); ([0], [(1, [(0, DN)])])])] 0 0 [1] in
  valid_mntm m = true /\ mntm_accepts m 10 [1;1] = Ok false /\ length (fst (mntm_stepwise m 10 [1;1])) = 3 /\
  valid_mntm m' = true /\ mntm_accepts m' 10 [1] = Ok false /\ mntm_accepts m' 10 [] = Ok true.
Proof. vm_compute. repeat split. Qed.
