(* C09 (continuation; closes item 3 of "What did not line up" in notes/reports/compose.md for the comparison) -
   totality BEYOND the 14-state budget.  nfa_eq_m caps the fuel of its product exploration (exact bound
   2^|QA| * 2^|QB| + 1 up to 14 states in total, a fixed number beyond).  It is the instance of
     nfa_eq_fuel fuel A B := if nsame_syms A B then bind (nfa_diff_cap fuel A B) (fun r => Ok (isnone r)) else Err Mismatch
   at fuel = nfa_diff_fuel A B; for the fuel-parametric function every fuel above 2^|QA| * 2^|QB| suffices, the
   answer is language equality for every fuel, and so does not depend on the fuel. *)
From Coq Require Import List Arith Bool Lia.
From AV Require Import Base.Util Spec.Lang Spec.FA Model.Decide Model.Product Model.Build Model.Subset Model.NFAOps
     Proofs.Decide Proofs.Subset Proofs.FuelTotal Props.P_C09.
Import ListNotations.

Theorem C09_eq_total_with_fuel : forall A B, valid_nfa A = true -> valid_nfa B = true ->
  nfa_eq_m A B = nfa_eq_fuel (nfa_diff_fuel A B) A B /\
  (* for every fuel: a returned boolean is language equality *)
  (forall fuel b, nfa_eq_fuel fuel A B = Ok b -> (b = true <-> L_nfa A =L L_nfa B)) /\
  (* enough fuel exists for every pair of valid NFAs with the same input symbols *)
  (nsame_syms A B = true -> forall fuel, 2 ^ length (n_states A) * 2 ^ length (n_states B) < fuel ->
     exists b, nfa_eq_fuel fuel A B = Ok b /\ (b = true <-> L_nfa A =L L_nfa B)) /\
  (* the capped function agrees with it whenever it returns *)
  (forall b fuel, nfa_eq_m A B = Ok b -> 2 ^ length (n_states A) * 2 ^ length (n_states B) < fuel ->
     nfa_eq_fuel fuel A B = Ok b) /\
  (* different input symbols: refused, for every fuel *)
  (nsame_syms A B = false -> forall fuel, nfa_eq_fuel fuel A B = Err Mismatch).
Proof.
  intros A B HA HB. split; [reflexivity|]. split; [exact (nfa_eq_fuel_sound A B HA HB)|]. split; [|split].
  - intros Hs fuel Hf. destruct (nfa_eq_fuel_total A B HA HB fuel Hs Hf) as [b E]. exists b. split; [exact E|].
    exact (nfa_eq_fuel_sound A B HA HB fuel b E).
  - intros b fuel E Hf. rewrite nfa_eq_m_fuel in E.
    assert (Hs : nsame_syms A B = true).
    { unfold nfa_eq_fuel in E. destruct (nsame_syms A B); [reflexivity|discriminate]. }
    destruct (nfa_eq_fuel_total A B HA HB fuel Hs Hf) as [b' E']. rewrite E'. f_equal.
    exact (nfa_eq_fuel_agree A B HA HB _ _ _ _ E' E).
  - intros Hs fuel. unfold nfa_eq_fuel. rewrite Hs. reflexivity.
Qed.
Print Assumptions C09_eq_total_with_fuel.

(* non-vacuity: a* with an epsilon edge (2 states) against a* (1 state): the bound is 2^2 * 2^1 = 8; fuel 9 suffices
   and gives the capped model's answer; fuel 1 does not suffice *)
Example C09_example_fuel :
  let A := mknfa [0;1] [0] [(0,[(None,[1])]);(1,[(Some 0,[1])])] 0 [1] in
  let B := mknfa [0] [0] [(0,[(Some 0,[0])])] 0 [0] in
  valid_nfa A = true /\ valid_nfa B = true /\ nfa_diff_fuel A B = 9 /\
  nfa_eq_fuel 9 A B = Ok true /\ nfa_eq_m A B = Ok true /\ nfa_eq_fuel 20 A B = Ok true /\ nfa_eq_fuel 1 A B = Err Fuel.
Proof. vm_compute. repeat split. Qed.
