(* C05 (continuation; closes item 4 of "What did not line up" in notes/reports/compose.md) - the KIND of a minify
   result.  DFA.minify passes allow_partial of the operand on; for a complete operand no trap class is dropped, so
   the result is complete; a partial operand yields a partial result when a trap class was dropped, a complete one
   otherwise.  The flag of the result is therefore never "more partial" than the operand's, and minimality can be
   packaged the way C15 packages it ([minimal_of_kind]) so that C15 -> C05 chains through property theorems only. *)
From Coq Require Import List Arith Bool.
From AV Require Import Base.Util Spec.Lang Spec.FA Spec.Minimal Model.Minimize Model.Product Model.Construct
     Proofs.Minimize Proofs.Compose Props.P_C05 Props.P_C06 Props.P_C15.
Import ListNotations.

(* what lemma minify_inv of Proofs/Minimize.v gives, as a property theorem *)
Theorem C05_minify_result_kind : forall m R, valid_dfa m = true -> minify m = Ok R ->
  (d_partial m = false -> d_partial R = false) /\      (* a complete operand gives a complete result *)
  (d_partial R = true -> d_partial m = true) /\        (* a result flagged partial comes from an operand flagged partial *)
  (d_partial R = false <-> complete R) /\              (* the flag is truthful *)
  (d_partial R = true -> forall q, In q (d_states R) -> ~ dead_state R q).
Proof.
  intros m R Hv E. pose proof (proj2 (minify_inv m R Hv E)) as Hc. split; [exact Hc|]. split; [|split].
  - intro Hp. destruct (d_partial m) eqn:Epm; [reflexivity|]. rewrite (Hc eq_refl) in Hp. discriminate.
  - exact (C05_minify_kind m R Hv E).
  - intros Hp. apply (C05_minify_no_dead_state_when_partial m R Hv E). intro Hco.
    rewrite (proj2 (C05_minify_kind m R Hv E) Hco) in Hp. discriminate.
Qed.
Print Assumptions C05_minify_result_kind.

(* C05's pair of implications and C15's packaging meet: every minify result is minimal of its kind in C15's sense
   (minimal among the complete DFAs, and among all DFAs when flagged partial) *)
Theorem C05_minify_minimal_of_kind : forall m R, valid_dfa m = true -> minify m = Ok R ->
  valid_dfa R = true /\ d_syms R = d_syms m /\ L_dfa R =L L_dfa m /\ minimal_of_kind R.
Proof.
  intros m R Hv E. destruct (C05_minify_valid m R Hv E) as [VR [SR _]].
  split; [exact VR|]. split; [exact SR|]. split; [exact (C05_minify_lang m R Hv E)|].
  destruct (C05_minify_result_kind m R Hv E) as [_ [_ [Hk _]]].
  assert (Hp : d_partial R = true -> minimal_partial R).
  { intro Ep. apply (C05_minify_minimal_partial m R Hv E). intro Hco. rewrite (proj2 Hk Hco) in Ep. discriminate. }
  split; [|exact Hp]. destruct (d_partial R) eqn:Ep.
  - intros m' V' _ S' L'. exact (Hp eq_refl m' V' S' L').
  - exact (C05_minify_minimal_complete m R Hv E (proj1 Hk eq_refl)).
Qed.
Print Assumptions C05_minify_minimal_of_kind.

(* conversely an automaton that is minimal of its kind keeps its size under minify() - from property theorems only
   (C05_minify_keeps_size_of_minimal of P_C05c.v reached into Proofs/Minimize.v for the kind of the result) *)
Theorem C05_minify_keeps_size_of_minimal_of_kind : forall m, valid_dfa m = true -> minimal_of_kind m ->
  exists R, minify m = Ok R /\ size R = size m /\ L_dfa R =L L_dfa m /\ eq_m R m = Ok true.
Proof.
  intros m Hv [Mc Mp]. destruct (C05_minify_total m Hv) as [R ER].
  destruct (C05_minify_minimal_of_kind m R Hv ER) as [VR [SR [LR [Rc Rp]]]].
  destruct (C05_minify_valid m R Hv ER) as [_ [_ Hle]].
  destruct (C05_minify_result_kind m R Hv ER) as [K1 [K2 [K3 _]]].
  assert (Hsz : size R = size m).
  { apply Nat.le_antisymm; [exact Hle|]. destruct (d_partial R) eqn:Ep.
    - exact (Mp (K2 eq_refl) R VR SR LR).
    - exact (Mc R VR (proj1 K3 eq_refl) SR LR). }
  exists R. split; [exact ER|]. split; [exact Hsz|]. split; [exact LR|].
  destruct (C06_eq_ne R m VR Hv (same_syms_eq R m SR)) as [[b [Eb Hb]] _]. rewrite Eb. f_equal. apply Hb. exact LR.
Qed.
Print Assumptions C05_minify_keeps_size_of_minimal_of_kind.

(* non-vacuity.  p1: the language {"0"} as a partial DFA (2 states, no trap); c1: the same language as a complete DFA
   (3 states).  minify keeps both kinds and sizes.  f1: ONE state with a loop, flagged partial although no
   transition is missing: the result is flagged complete - the flag of the result is the truth about the result,
   not a copy of the operand's flag (so equality of the two flags is NOT a theorem; only the two implications of
   C05_minify_result_kind are). *)
Definition kind_of (r : res dfa) : option (nat * bool) := match r with Ok R => Some (size R, d_partial R) | Err _ => None end.
Example C05_example_result_kind :
  let p1 := mkdfa [0; 1] [0] [(0, [(0, 1)]); (1, [])] 0 [1] true in
  let c1 := mkdfa [0; 1; 2] [0] [(0, [(0, 1)]); (1, [(0, 2)]); (2, [(0, 2)])] 0 [1] false in
  let f1 := mkdfa [0] [0] [(0, [(0, 0)])] 0 [0] true in
  valid_dfa p1 = true /\ valid_dfa c1 = true /\ valid_dfa f1 = true /\
  kind_of (minify p1) = Some (2, true) /\ kind_of (minify c1) = Some (3, false) /\ kind_of (minify f1) = Some (1, false) /\
  is_minimal p1 = true /\ is_minimal c1 = true /\ is_minimal f1 = true.
Proof. vm_compute. repeat split. Qed.
