(* C09 (continuation; compositions C08 -> C09, C07 -> C09, C06 <-> C09) - NFA == applied to the results of other
   operations.  The operand hypothesis of C09 is valid_nfa only, which C08 / C07 conclude with.  What does NOT line up:
   C09_eq_total also asks for nsame_syms and a size bound, and the C08 theorems say nothing about the input symbols of
   their results - so for results of C08 operations the statements are "whenever == returns, it returns True". *)
From Coq Require Import List Arith Bool.
From AV Require Import Base.Util Spec.Lang Spec.FA Model.Decide Model.Product Model.Subset Model.NFAOps Model.HK
     Proofs.NFAOps Proofs.Compose Props.P_C06 Props.P_C07 Props.P_C08 Props.P_C08b Props.P_C09.
Import ListNotations.

(* two compositions of NFA operations that denote the same language: == on the results never answers False -
   neither the specification model nor the model of the loop as coded, under any symbol order and tie-break *)
Theorem C09_equal_compositions_compare_equal : forall e1 e2,
  nexp_leaves_ok e1 = true -> nexp_leaves_ok e2 = true -> nexp_den e1 =L nexp_den e2 ->
  exists R1 R2, nfa_eval e1 = Ok R1 /\ nfa_eval e2 = Ok R2 /\
    (forall b, nfa_eq_m R1 R2 = Ok b -> b = true) /\
    (forall b, nfa_ne_m R1 R2 = Ok b -> b = false) /\
    (forall tie syms b, (forall a, In a syms <-> In a (n_syms R1)) -> nfa_hk_eq_gen tie syms R1 R2 = Ok b -> b = true).
Proof.
  intros e1 e2 H1 H2 H.
  destruct (C08_equal_compositions e1 e2 H1 H2 H) as [R1 [R2 [E1 [E2 [V1 [V2 [L _]]]]]]].
  exists R1, R2. split; [exact E1|]. split; [exact E2|]. split; [|split].
  - intros b Eb. apply (C09_eq_exact R1 R2 b V1 V2 Eb). exact L.
  - intros b Eb. destruct b; [|reflexivity]. exfalso. apply (proj1 (C09_ne_exact R1 R2 true V1 V2 Eb) eq_refl). exact L.
  - intros tie syms b Hs Eb. destruct (C09_hk_eq_faithful R1 R2 tie syms V1 V2 Hs) as [Hsound _].
    apply (Hsound b Eb). exact L.
Qed.
Print Assumptions C09_equal_compositions_compare_equal.

(* NFA.from_dfa(a) == NFA.from_dfa(b) is a == b: the NFA comparison never contradicts the DFA comparison, and
   returns the same boolean when the operands have at most 14 states together *)
Theorem C09_from_dfa_agrees_with_dfa_eq : forall A B, valid_dfa A = true -> valid_dfa B = true -> same_syms A B = true ->
  exists b0, eq_m A B = Ok b0 /\
    (forall b, nfa_eq_m (from_dfa_m A) (from_dfa_m B) = Ok b -> b = b0) /\
    (size A + size B <= 14 -> nfa_eq_m (from_dfa_m A) (from_dfa_m B) = Ok b0).
Proof.
  intros A B HA HB Hs. destruct (C06_eq_ne A B HA HB Hs) as [[b0 [E0 H0]] _].
  destruct (C07_from_dfa A HA) as [VA LA]. destruct (C07_from_dfa B HB) as [VB LB].
  assert (Hag : forall b, nfa_eq_m (from_dfa_m A) (from_dfa_m B) = Ok b -> b = b0).
  { intros b Eb. pose proof (C09_eq_exact _ _ b VA VB Eb) as Hb. apply eq_true_iff_eq. rewrite Hb, H0. split; intro H.
    - eapply lang_eq_trans; [apply lang_eq_sym; exact LA|]. eapply lang_eq_trans; [exact H|exact LB].
    - eapply lang_eq_trans; [exact LA|]. eapply lang_eq_trans; [exact H|apply lang_eq_sym; exact LB]. }
  exists b0. split; [exact E0|]. split; [exact Hag|]. intro Hsz.
  destruct (C09_eq_total (from_dfa_m A) (from_dfa_m B) VA VB Hs Hsz) as [b Eb]. rewrite Eb. f_equal. exact (Hag b Eb).
Qed.
Print Assumptions C09_from_dfa_agrees_with_dfa_eq.

(* == does not see eliminate_lambda *)
Theorem C09_eq_invariant_under_eliminate_lambda : forall A B, valid_nfa A = true -> valid_nfa B = true ->
  exists RA RB, nfa_eliminate_lambda A = Ok RA /\ nfa_eliminate_lambda B = Ok RB /\
    valid_nfa RA = true /\ valid_nfa RB = true /\
    (forall b b', nfa_eq_m A B = Ok b -> nfa_eq_m RA RB = Ok b' -> b = b') /\
    (forall b, nfa_eq_m RA A = Ok b -> b = true).
Proof.
  intros A B HA HB.
  destruct (C07_eliminate_lambda A HA) as [RA [EA [VA [LA _]]]]. destruct (C07_eliminate_lambda B HB) as [RB [EB [VB [LB _]]]].
  exists RA, RB. split; [exact EA|]. split; [exact EB|]. split; [exact VA|]. split; [exact VB|]. split.
  - intros b b' Eb Eb'. apply eq_true_iff_eq.
    rewrite (C09_eq_exact A B b HA HB Eb), (C09_eq_exact RA RB b' VA VB Eb'). split; intro H.
    + eapply lang_eq_trans; [exact LA|]. eapply lang_eq_trans; [exact H|apply lang_eq_sym; exact LB].
    + eapply lang_eq_trans; [apply lang_eq_sym; exact LA|]. eapply lang_eq_trans; [exact H|exact LB].
  - intros b Eb. apply (C09_eq_exact RA A b VA HA Eb). exact LA.
Qed.
Print Assumptions C09_eq_invariant_under_eliminate_lambda.

(* non-vacuity: the laws of P_C08b.v on exA (a+) and exC (b-star): == returns, and returns True; an unequal pair
   returns False; from_dfa on two presentations of "even number of 0s" *)
Definition cmp (x y : res nfa) : res bool := bind x (fun a => bind y (fun b => nfa_eq_m a b)).

Example C09_example_laws :
  cmp (bind (nfa_concat exA exC) nfa_reverse) (bind2 (nfa_reverse exC) (nfa_reverse exA) nfa_concat) = Ok true /\
  cmp (bind (nfa_union exA exC) nfa_reverse) (bind2 (nfa_reverse exA) (nfa_reverse exC) nfa_union) = Ok true /\
  cmp (bind (nfa_option exA) nfa_star) (nfa_star exA) = Ok true /\
  cmp (bind (nfa_concat exA exC) nfa_reverse) (bind2 (nfa_reverse exA) (nfa_reverse exC) nfa_concat) = Ok false /\
  (let c := mkdfa [0; 1] [0] [(0, [(0, 1)]); (1, [(0, 0)])] 0 [0] false in
   let d := mkdfa [0; 1; 2; 3] [0] [(0, [(0, 1)]); (1, [(0, 2)]); (2, [(0, 3)]); (3, [(0, 0)])] 0 [0; 2] false in
   eq_m c d = Ok true /\ nfa_eq_m (from_dfa_m c) (from_dfa_m d) = Ok true) /\
  cmp (nfa_eliminate_lambda exA) (Ok exA) = Ok true.
Proof. vm_compute. repeat split. Qed.
