(* C17 - Single-tape simulation of a multitape machine (MNTM.read_input_as_ntm) agrees with the
   native run.  The extended tape is a list of  Sym s | Head | Sep ; segment i spells virtual tape i
   with Head right after the scanned cell ([enc_tape], [encode], [encodes] in Model/MNTMSim.v). *)
From Coq Require Import List Arith ZArith Bool.
From AV Require Import Base.Util Spec.TM Model.TM Proofs.TM Model.MNTMSim Proofs.MNTMSim.
Import ListNotations.

(* The core: one virtual-tape write+move of the splicing loop - scanning from the start of the
   segment, for L, R and N, in the interior, at the left end (blank + head inserted at the segment
   start) and at the right end (blank + head inserted before the separator) - rewrites exactly that
   segment into the encoding of the tape produced by TMTape.write_symbol + move (C03's tape step),
   leaves everything before and after it untouched, and stops right behind the segment.
   [pre] is what precedes the segment (empty, or ending with a separator). *)
Theorem C17_apply_move_encodes : forall blank w d pre t post,
  wf t -> t_blank t = blank -> pre_ok pre ->
  scan_move (scan_fuel (pre ++ enc_tape t ++ post)) blank (pre ++ enc_tape t ++ post) (length pre) w d =
  Ok (pre ++ enc_tape (t_move (t_write t w) d) ++ post,
      length (pre ++ enc_tape (t_move (t_write t w) d))).
Proof. intros blank w d pre t post. exact (apply_move_encodes blank w d pre t post). Qed.
Print Assumptions C17_apply_move_encodes.

(* all moves of one transition, tape by tape, turn the encoding of the tapes into the encoding of
   the tapes after MNTM._get_next_configuration (one (write, move) pair per tape) *)
Theorem C17_apply_moves_encodes : forall blank ts mv,
  Forall wf ts -> Forall (fun t => t_blank t = blank) ts -> length mv = length ts ->
  apply_moves blank (encode ts) 0 mv =
  Ok (encode (act_all mv ts), length (encode (act_all mv ts))).
Proof.
  intros blank ts mv Hw Hb Hl.
  pose proof (apply_moves_encodes blank ts mv [] [] Hw Hb Hl (or_introl eq_refl)) as H.
  cbn [app length] in H. rewrite !app_nil_r in H. exact H.
Qed.
Print Assumptions C17_apply_moves_encodes.

(* _read_extended_tape on an encoding returns the scanned cells, never MalformedExtendedTapeError *)
Theorem C17_read_heads_encodes : forall ts, Forall wf ts ->
  read_heads (encode ts) = Ok (map Sym (map t_read ts)).
Proof. exact read_heads_encode. Qed.
Print Assumptions C17_read_heads_encodes.

(* one BFS iteration of the simulation on an entry that encodes the multitape configuration n:
   it returns (accepts) iff n is in a final state and never raises; otherwise the appended entries
   encode exactly the successors of n under the multitape step relation *)
Theorem C17_step_simulates : forall m c n, valid_tapes m = true -> sim_rel c n -> good m n ->
  match sim_expand m c with
  | inl o => o = Ok c /\ mt_final m (abs_mcfg n)
  | inr new =>
    ~ mt_final m (abs_mcfg n) /\
    (forall c', In c' new -> exists n', sim_rel c' n' /\ good m n' /\ mstep m (abs_mcfg n) (abs_mcfg n')) /\
    (forall z, mstep m (abs_mcfg n) z ->
       exists c' n', In c' new /\ sim_rel c' n' /\ good m n' /\ mzcfg_eq (abs_mcfg n') z)
  end.
Proof.
  intros m c n Hvt Hr Hg. destruct (sim_expand m c) as [o|new] eqn:E.
  - exact (sim_inl_facts m Hvt c n o Hr Hg E).
  - exact (sim_inr_facts m Hvt c n new Hr Hg E).
Qed.
Print Assumptions C17_step_simulates.

(* the simulation's verdict, for every fuel: accepted only if a final state is reachable by the
   multitape machine, rejected only if none is, and the only other outcome is running out of fuel -
   in particular rejection is signalled only by the rejection exception, never by
   MalformedExtendedTapeError or IndexError *)
Theorem C17_simulation_verdict : forall m fuel w, valid_tapes m = true ->
  (sim_accepts m fuel w = Ok true -> mreach_final m w) /\
  (sim_accepts m fuel w = Ok false -> ~ mreach_final m w) /\
  (sim_accepts m fuel w = Ok true \/ sim_accepts m fuel w = Ok false \/ sim_accepts m fuel w = Err Fuel).
Proof. intros m fuel w Hvt. exact (sim_accepts_spec m Hvt fuel w). Qed.
Print Assumptions C17_simulation_verdict.

(* single-tape simulation and native multitape run give the same verdict for every pair of fuels on
   which both return *)
Theorem C17_verdict_agreement : forall m w f1 f2 b1 b2, valid_mntm m = true -> valid_tapes m = true ->
  sim_accepts m f1 w = Ok b1 -> mntm_accepts m f2 w = Ok b2 -> b1 = b2.
Proof. exact verdict_agreement. Qed.
Print Assumptions C17_verdict_agreement.

(* non-vacuity: two tapes, blank 0.  q0 copies the input to tape 2 while tape 1 moves right and tape 2
   moves LEFT from its leftmost cell; on the blank after the input both heads turn around; q1 walks
   tape 1 left past its leftmost cell and accepts in state 2. *)
Definition ex_mntm : mntm :=
  mkmntm 2
    [(0, [([1; 0], [(0, [(1, DR); (1, DL)])]); ([0; 0], [(1, [(0, DL); (0, DR)])])]);
     (1, [([1; 1], [(1, [(1, DL); (1, DR)])]); ([0; 1], [(2, [(0, DL); (1, DN)])]);
          ([1; 0], [(1, [(1, DL); (0, DN)])]); ([0; 0], [(2, [(0, DN); (0, DN)])])])]
    0 0 [2].

Example C17_example_runs :
  valid_mntm ex_mntm = true /\ valid_tapes ex_mntm = true /\
  sim_accepts ex_mntm 20 [1;1] = Ok true /\ mntm_accepts ex_mntm 20 [1;1] = Ok true /\
  sim_accepts ex_mntm 3 [1;1] = Err Fuel /\
  sim_accepts ex_mntm 20 [2] = Ok false /\ mntm_accepts ex_mntm 20 [2] = Ok false.
Proof. vm_compute. repeat split. Qed.

(* the three boundary situations of one move on the segment of a one-cell tape [5] (blank 0) *)
Example C17_example_boundaries :
  scan_move 10 0 (enc_tape (mktape [5] 0 0)) 0 7 DL = Ok ([Sym 0; Head; Sym 7; Sep], 4) /\
  scan_move 10 0 (enc_tape (mktape [5] 0 0)) 0 7 DR = Ok ([Sym 7; Sym 0; Head; Sep], 4) /\
  scan_move 10 0 (enc_tape (mktape [5] 0 0)) 0 7 DN = Ok ([Sym 7; Head; Sep], 3) /\
  encode [mktape [5;6] 1 0; mktape [0] 0 0] = [Sym 5; Sym 6; Head; Sep; Sym 0; Head; Sep].
Proof. vm_compute. repeat split. Qed.

(* an entry with an empty list of alternatives: the simulation's `for next_config in possible_configs`
   appends nothing, the native run treats the entry like a missing one - both reject *)
Example C17_example_no_alternative :
  let m := mkmntm 2 [(0, [([1; 0], [(0, [(1, DR); (1, DL)])]); ([0; 0], [])])] 0 0 [1] in
  valid_mntm m = true /\ valid_tapes m = true /\
  sim_accepts m 20 [1;1] = Ok false /\ mntm_accepts m 20 [1;1] = Ok false /\
  length (fst (sim_stepwise m 20 [1;1])) = 3 /\ length (fst (mntm_stepwise m 20 [1;1])) = 3.
Proof. vm_compute. repeat split. Qed.
