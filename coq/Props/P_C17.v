(* C17 - Single-tape simulation of a multitape machine (MNTM.read_input_as_ntm) agrees with the
   native run.  The extended tape is a list of  Sym s | Head | Sep ; segment i spells virtual tape i
   with Head right after the scanned cell ([enc_tape], [encode], [encodes] in Model/MNTMSim.v). *)
From Coq Require Import List Arith ZArith Bool.
From AV Require Import Base.Util Spec.TM Model.TM Proofs.TM Model.MNTMSim Proofs.MNTMSim.
Import ListNotations.

(* The core: one virtual-tape write+move of the splicing loop - scanning from the start of the
   segment, for L, R and N, in the interior, at the left end (blank + head inserted at the segment
   start) and at the right end (blank + head inserted before the separator) - rewrites exactly that
   segment into the encoding of the tape produced by TMTape.write_symbol + move (C03's tape step),
   leaves everything before and after it untouched, and stops right behind the segment.
   [pre] is what precedes the segment (empty, or ending with a separator). *)
Theorem C17_apply_move_encodes : forall blank w d pre t post,
  wf t -> t_blank t = blank -> pre_ok pre ->
  scan_move (scan_fuel (pre ++ enc_tape t ++ post)) blank (pre ++ enc_tape t ++ post) (length pre) w d =
  Ok (pre ++ enc_tape (t_move (t_write t w) d) ++ post,
      length (pre ++ enc_tape (t_move (t_write t w) d))).
Proof. intros blank w d pre t post. exact (apply_move_encodes blank w d pre t post). Qed.
Print Assumptions C17_apply_move_encodes.
