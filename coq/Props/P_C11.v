(* C11 - Regex validation and comparison helpers agree with compilation and are exact. *)
From Coq Require Import List Arith Bool.
From AV Require Import Base.Util Spec.Lang Spec.FA Spec.Regex Model.Decide
                       Model.RegexLex Model.RegexParse Model.RegexBuild Model.RegexCmp
                       Proofs.RegexFrag Proofs.RegexBuild Proofs.RegexParse Proofs.RegexGrammar Proofs.RegexCompile
                       Proofs.RegexTotal.
Import ListNotations.

(* what passes regex.validate goes through the whole front end of NFA.from_regex (lexer,
   validator, concat insertion, shunting-yard, postfix evaluation) without any error - no
   IndexError from an empty stack in particular; the only way from_regex can still fail is
   the NFA constructor's InvalidSymbolError for a literal outside the alphabet *)
Theorem C11_validated_compiles : forall cs, validate cs = Ok tt ->
  (exists r, parse cs = Ok r) /\
  (forall alpha e, compile cs alpha = Err e -> e = Invalid 2).
Proof.
  intros cs Hv. destruct (validated_compiles cs Hv) as [r Hr]. split; [exists r; exact Hr|].
  intros alpha e. unfold compile, alphabet_of. rewrite Hr.
  destruct alpha as [s|]; [destruct (existsb is_reserved s)|]; simpl;
    try (intro H; inversion H; reflexivity); apply compile_re_err.
Qed.
Print Assumptions C11_validated_compiles.

(* end to end: what validates compiles to an NFA - with the derived alphabet provided the
   expression has no lone-brace literal (codes 11/12, outside the documented syntax), with an
   explicit alphabet provided it is not reserved and contains the literals of the expression *)
Theorem C11_validated_from_regex_ok : forall cs, validate cs = Ok tt ->
  exists r, parse cs = Ok r /\
    ((forall a, In a (re_syms r) -> is_reserved a = false) -> exists m, compile cs None = Ok m) /\
    (forall sigma, existsb is_reserved sigma = false -> (forall a, In a (re_syms r) -> In a sigma) ->
                   exists m, compile cs (Some sigma) = Ok m).
Proof. exact validated_from_regex_ok. Qed.
Print Assumptions C11_validated_from_regex_ok.

Theorem C11_validated_compiles_tokens : forall ts, ts <> [] -> validate_tokens ts = Ok tt ->
  exists r, parse_tokens ts = Ok r.
Proof. exact validated_compiles_tokens. Qed.
Print Assumptions C11_validated_compiles_tokens.

(* what regex.validate refuses, from_regex refuses with the same error, and the error is one
   of the library's regex error types (ValueErr = int() on a non-numeric repetition bound,
   which is outside the documented syntax) *)
Theorem C11_invalid_is_regex_error : forall cs e, validate cs = Err e ->
  parse cs = Err e /\ compile cs None = Err e /\
  (e = Invalid 10 \/ e = Invalid 11 \/ e = ValueErr).
Proof.
  intros cs e Hv. destruct (invalid_is_regex_error cs e Hv) as [Hp Hk].
  split; [exact Hp|]. split; [|exact Hk]. unfold compile. simpl. rewrite Hp. reflexivity.
Qed.
Print Assumptions C11_invalid_is_regex_error.

(* conversely, whatever compiles validates: validation and compilation accept the same strings *)
Theorem C11_compiles_validates : forall cs alpha m, compile cs alpha = Ok m -> validate cs = Ok tt.
Proof.
  intros cs alpha m. unfold compile. destruct (alphabet_of cs alpha); [|discriminate]. simpl.
  destruct (parse cs) as [r|e] eqn:E; [|discriminate]. intros _. exact (parse_ok_validates cs r E).
Qed.
Print Assumptions C11_compiles_validates.

(* validation accepts exactly the regex grammar.  [gram l ts r] (Proofs/RegexGrammar.v) is the
   inductive grammar of token lists: ts derives the AST r in a position that requires
   precedence >= l, where
     literal t                                   any level   (TSym a, ".", and the inserted TEmpty)
     "(" ")"                                     any level   (the empty string)
     a o b    a at level prec o, b at prec o + 1 level prec o   (| & ^ : 1, left associative; explicit TConcat : 2)
     a b      a at level 2, b at level 3         level 2     (juxtaposition)
     a p      a at level 3                       level 3     (p one of * + ? {lo,hi})
     "(" a ")"   a at level 1                    any level   (any number of redundant pairs)
     level l derivations are level l' derivations for l' <= l.
   [regex_wf ts] := exists r, gram 1 ts r.  The empty token list (validate passes, parse_regex
   gives the empty-string literal) is outside the grammar, hence the side condition. *)
Theorem C11_validate_iff_grammar : forall ts, ts <> [] ->
  (validate_tokens ts = Ok tt <-> regex_wf ts).
Proof. exact validate_iff_grammar. Qed.
Print Assumptions C11_validate_iff_grammar.

(* the same at character level: regex.validate accepts a string iff the lexer succeeds and the
   token list is empty (blanks only) or in the grammar *)
Theorem C11_validate_chars_iff_grammar : forall cs,
  validate cs = Ok tt <-> exists ts, lex cs = Ok ts /\ (ts = [] \/ regex_wf ts).
Proof. exact validate_chars_iff_grammar. Qed.
Print Assumptions C11_validate_chars_iff_grammar.

(* the grammar is the parser's: a derivation of r is parsed to r (so the AST of a token list
   is unique), and the minimal-parenthesis printing of every AST is derivable *)
Theorem C11_grammar_is_the_parsers :
  (forall ts r, gram 1 ts r -> parse_tokens ts = Ok r) /\
  (forall ts r r', gram 1 ts r -> gram 1 ts r' -> r = r') /\
  (forall r l, gram l (toks r l) r).
Proof. split; [exact gram_parse|]. split; [exact gram_functional|exact gram_toks]. Qed.
Print Assumptions C11_grammar_is_the_parsers.

(* the comparison helpers over a common alphabet: when they answer, the answer is language
   equality / inclusion of the denotations of the two parsed expressions *)
Theorem C11_isequal_exact : forall a b sigma bb, NoDup sigma -> isequal a b (Some sigma) = Ok bb ->
  exists ra rb, parse a = Ok ra /\ parse b = Ok rb /\ (bb = true <-> den sigma ra =L den sigma rb).
Proof. intros a b sigma bb Hnd. exact (isequal_exact a b sigma Hnd bb). Qed.
Print Assumptions C11_isequal_exact.

Theorem C11_issubset_exact : forall a b sigma bb, NoDup sigma -> issubset a b (Some sigma) = Ok bb ->
  exists ra rb, parse a = Ok ra /\ parse b = Ok rb /\
    (bb = true <-> forall w, den sigma ra w -> den sigma rb w).
Proof. intros a b sigma bb Hnd. exact (issubset_exact a b sigma Hnd bb). Qed.
Print Assumptions C11_issubset_exact.

Theorem C11_issuperset_exact : forall a b sigma bb, NoDup sigma -> issuperset a b (Some sigma) = Ok bb ->
  exists ra rb, parse a = Ok ra /\ parse b = Ok rb /\
    (bb = true <-> forall w, den sigma rb w -> den sigma ra w).
Proof. intros a b sigma bb Hnd. exact (issuperset_exact a b sigma Hnd bb). Qed.
Print Assumptions C11_issuperset_exact.

(* they fail only the way one of the two from_regex calls fails (Fuel = the comparator's
   exploration bound, never a Python outcome; the correspondence run reports it) *)
Theorem C11_helpers_errors : forall a b sigma e,
  (isequal a b (Some sigma) = Err e \/ issubset a b (Some sigma) = Err e \/
   issuperset a b (Some sigma) = Err e) ->
  e = Fuel \/ compile a (Some sigma) = Err e \/
  (exists m, compile a (Some sigma) = Ok m /\ compile b (Some sigma) = Err e).
Proof. intros a b sigma e. exact (helpers_errors a b sigma e). Qed.
Print Assumptions C11_helpers_errors.

(* non-vacuity: "a|b" vs "b|a" equal; "a" subset of "a|b", not superset; " " (blanks only)
   validates and compiles to the empty-string literal (the repaired defect); "a)" and "|a"
   are refused by both with InvalidRegexError *)
Example C11_example_helpers :
  isequal [26; 4; 27] [27; 4; 26] (Some [26; 27]) = Ok true /\
  issubset [26] [26; 4; 27] (Some [26; 27]) = Ok true /\
  issuperset [26] [26; 4; 27] (Some [26; 27]) = Ok false.
Proof. vm_compute. repeat split. Qed.

Example C11_example_validate :
  validate [0; 1] = Ok tt /\ parse [0; 1] = Ok REps /\
  validate [26; 3] = Err (Invalid 10) /\ parse [26; 3] = Err (Invalid 10) /\
  validate [4; 26] = Err (Invalid 10) /\ validate [26; 14] = Err (Invalid 11).
Proof. vm_compute. repeat split. Qed.

(* the grammar at work: "a(b|())*c" is derivable with its AST; ")a(" and "a|" are not well formed *)
Example C11_example_grammar :
  gram 1 [TSym 26; TLParen; TSym 27; TUnion; TLParen; TRParen; TRParen; TStar; TSym 28]
         (RCat (RCat (RSym 26) (RStar (RUnion (RSym 27) REps))) (RSym 28)) /\
  ~ regex_wf [TRParen; TSym 26; TLParen] /\ ~ regex_wf [TSym 26; TUnion].
Proof.
  split; [|split].
  - apply (g_mono 2); [repeat constructor|].
    apply (g_cat [TSym 26; TLParen; TSym 27; TUnion; TLParen; TRParen; TRParen; TStar] [TSym 28]).
    + apply (g_cat [TSym 26] [TLParen; TSym 27; TUnion; TLParen; TRParen; TRParen; TStar]).
      * apply (g_lit 2 (TSym 26)). reflexivity.
      * apply (g_postfix TStar [TLParen; TSym 27; TUnion; TLParen; TRParen; TRParen]); [reflexivity|].
        apply (g_paren 3 [TSym 27; TUnion; TLParen; TRParen]).
        apply (g_infix TUnion [TSym 27] [TLParen; TRParen]); [reflexivity| |apply g_eps].
        apply (g_lit 1 (TSym 27)). reflexivity.
    + apply (g_lit 3 (TSym 28)). reflexivity.
  - intro H. apply C11_validate_iff_grammar in H; [|discriminate]. vm_compute in H. discriminate.
  - intro H. apply C11_validate_iff_grammar in H; [|discriminate]. vm_compute in H. discriminate.
Qed.
