(* C11 - Regex validation and comparison helpers agree with compilation and are exact. *)
From Coq Require Import List Arith Bool.
From AV Require Import Base.Util Spec.Lang Spec.FA Spec.Regex Model.Decide
                       Model.RegexLex Model.RegexParse Model.RegexBuild Model.RegexCmp
                       Proofs.RegexFrag Proofs.RegexBuild Proofs.RegexParse Proofs.RegexCompile Proofs.RegexTotal.
Import ListNotations.

(* what passes regex.validate goes through the whole front end of NFA.from_regex (lexer,
   validator, concat insertion, shunting-yard, postfix evaluation) without any error - no
   IndexError from an empty stack in particular; the only way from_regex can still fail is
   the NFA constructor's InvalidSymbolError for a literal outside the alphabet *)
Theorem C11_validated_compiles : forall cs, validate cs = Ok tt ->
  (exists r, parse cs = Ok r) /\
  (forall alpha e, compile cs alpha = Err e -> e = Invalid 2).
Proof.
  intros cs Hv. destruct (validated_compiles cs Hv) as [r Hr]. split; [exists r; exact Hr|].
  intros alpha e. unfold compile, alphabet_of. rewrite Hr.
  destruct alpha as [s|]; [destruct (existsb is_reserved s)|]; simpl;
    try (intro H; inversion H; reflexivity); apply compile_re_err.
Qed.
Print Assumptions C11_validated_compiles.

(* end to end: what validates compiles to an NFA - with the derived alphabet provided the
   expression has no lone-brace literal (codes 11/12, outside the documented syntax), with an
   explicit alphabet provided it is not reserved and contains the literals of the expression *)
Theorem C11_validated_from_regex_ok : forall cs, validate cs = Ok tt ->
  exists r, parse cs = Ok r /\
    ((forall a, In a (re_syms r) -> is_reserved a = false) -> exists m, compile cs None = Ok m) /\
    (forall sigma, existsb is_reserved sigma = false -> (forall a, In a (re_syms r) -> In a sigma) ->
                   exists m, compile cs (Some sigma) = Ok m).
Proof. exact validated_from_regex_ok. Qed.
Print Assumptions C11_validated_from_regex_ok.

Theorem C11_validated_compiles_tokens : forall ts, ts <> [] -> validate_tokens ts = Ok tt ->
  exists r, parse_tokens ts = Ok r.
Proof. exact validated_compiles_tokens. Qed.
Print Assumptions C11_validated_compiles_tokens.

(* what regex.validate refuses, from_regex refuses with the same error, and the error is one
   of the library's regex error types (ValueErr = int() on a non-numeric repetition bound,
   which is outside the documented syntax) *)
Theorem C11_invalid_is_regex_error : forall cs e, validate cs = Err e ->
  parse cs = Err e /\ compile cs None = Err e /\
  (e = Invalid 10 \/ e = Invalid 11 \/ e = ValueErr).
Proof.
  intros cs e Hv. destruct (invalid_is_regex_error cs e Hv) as [Hp Hk].
  split; [exact Hp|]. split; [|exact Hk]. unfold compile. simpl. rewrite Hp. reflexivity.
Qed.
Print Assumptions C11_invalid_is_regex_error.

(* conversely, whatever compiles validates: validation and compilation accept the same strings *)
Theorem C11_compiles_validates : forall cs alpha m, compile cs alpha = Ok m -> validate cs = Ok tt.
Proof.
  intros cs alpha m. unfold compile. destruct (alphabet_of cs alpha); [|discriminate]. simpl.
  destruct (parse cs) as [r|e] eqn:E; [|discriminate]. intros _. exact (parse_ok_validates cs r E).
Qed.
Print Assumptions C11_compiles_validates.

(* every expression of the grammar (printed with minimal parentheses, or wrapped in a
   redundant pair) passes validation. The converse - every validated token list is a
   printing of some AST up to redundant parentheses - is not proved: *)
Definition C11_validate_iff_grammar_statement : Prop :=
  forall ts, ts <> [] ->
    (validate_tokens ts = Ok tt <-> exists r, parse_tokens ts = Ok r /\ parse_tokens (toks r 1) = Ok r).
Theorem C11_grammar_validates_partial : forall r, validate_tokens (toks r 1) = Ok tt.
Proof. exact print_validates. Qed.
Print Assumptions C11_grammar_validates_partial.

(* the comparison helpers over a common alphabet: when they answer, the answer is language
   equality / inclusion of the denotations of the two parsed expressions *)
Theorem C11_isequal_exact : forall a b sigma bb, NoDup sigma -> isequal a b (Some sigma) = Ok bb ->
  exists ra rb, parse a = Ok ra /\ parse b = Ok rb /\ (bb = true <-> den sigma ra =L den sigma rb).
Proof. intros a b sigma bb Hnd. exact (isequal_exact a b sigma Hnd bb). Qed.
Print Assumptions C11_isequal_exact.

Theorem C11_issubset_exact : forall a b sigma bb, NoDup sigma -> issubset a b (Some sigma) = Ok bb ->
  exists ra rb, parse a = Ok ra /\ parse b = Ok rb /\
    (bb = true <-> forall w, den sigma ra w -> den sigma rb w).
Proof. intros a b sigma bb Hnd. exact (issubset_exact a b sigma Hnd bb). Qed.
Print Assumptions C11_issubset_exact.

Theorem C11_issuperset_exact : forall a b sigma bb, NoDup sigma -> issuperset a b (Some sigma) = Ok bb ->
  exists ra rb, parse a = Ok ra /\ parse b = Ok rb /\
    (bb = true <-> forall w, den sigma rb w -> den sigma ra w).
Proof. intros a b sigma bb Hnd. exact (issuperset_exact a b sigma Hnd bb). Qed.
Print Assumptions C11_issuperset_exact.

(* they fail only the way one of the two from_regex calls fails (Fuel = the comparator's
   exploration bound, never a Python outcome; the correspondence run reports it) *)
Theorem C11_helpers_errors : forall a b sigma e,
  (isequal a b (Some sigma) = Err e \/ issubset a b (Some sigma) = Err e \/
   issuperset a b (Some sigma) = Err e) ->
  e = Fuel \/ compile a (Some sigma) = Err e \/
  (exists m, compile a (Some sigma) = Ok m /\ compile b (Some sigma) = Err e).
Proof. intros a b sigma e. exact (helpers_errors a b sigma e). Qed.
Print Assumptions C11_helpers_errors.

(* non-vacuity: "a|b" vs "b|a" equal; "a" subset of "a|b", not superset; " " (blanks only)
   validates and compiles to the empty-string literal (the repaired defect); "a)" and "|a"
   are refused by both with InvalidRegexError *)
Example C11_example_helpers :
  isequal [26; 4; 27] [27; 4; 26] (Some [26; 27]) = Ok true /\
  issubset [26] [26; 4; 27] (Some [26; 27]) = Ok true /\
  issuperset [26] [26; 4; 27] (Some [26; 27]) = Ok false.
Proof. vm_compute. repeat split. Qed.

Example C11_example_validate :
  validate [0; 1] = Ok tt /\ parse [0; 1] = Ok REps /\
  validate [26; 3] = Err (Invalid 10) /\ parse [26; 3] = Err (Invalid 10) /\
  validate [4; 26] = Err (Invalid 10) /\ validate [26; 14] = Err (Invalid 11).
Proof. vm_compute. repeat split. Qed.
