(* C07 (continuation; closes item 3 of "What did not line up" in notes/reports/compose.md for the subset construction)
   - totality BEYOND the 14-state budget.  determinize_m caps its fuel (exact bound 2^|Q| + 1 up to 14 states, a fixed
   number beyond: the extracted driver's fuel is a unary number), so C07_determinize_total is stated up to 14 states.
   The capped function is an instance of the fuel-parametric subset construction
     determinize_fuel fuel m := build_dfa ... (det_succ m) (nset_final m) (n_syms m) fuel (nset_init m)
   (the same Model/Build.v worklist), for which: every fuel above 2^|Q| suffices, for EVERY valid NFA; every fuel that
   suffices gives the same automaton; and the result is sound for every fuel. *)
From Coq Require Import List Arith Bool Lia.
From AV Require Import Base.Util Spec.Lang Spec.FA Model.Decide Model.Product Model.Build Model.Subset
     Proofs.Decide Proofs.Subset Proofs.FuelTotal Props.P_C07.
Import ListNotations.

Theorem C07_determinize_total_with_fuel : forall m, valid_nfa m = true ->
  (* the executable model is the instance at the capped fuel *)
  determinize_m m = determinize_fuel (det_fuel m) m /\
  (* enough fuel exists for every valid NFA, and then the result is what C07_determinize_lang promises *)
  (forall fuel, 2 ^ length (n_states m) < fuel ->
     exists R, determinize_fuel fuel m = Ok R /\ valid_dfa R = true /\ d_syms R = n_syms m /\ L_dfa R =L L_nfa m) /\
  (* any two fuels that suffice give the same automaton *)
  (forall f1 f2 R1 R2, determinize_fuel f1 m = Ok R1 -> determinize_fuel f2 m = Ok R2 -> R1 = R2) /\
  (* hence the capped function, whenever it returns, returns the automaton of the uncapped one *)
  (forall R fuel, determinize_m m = Ok R -> 2 ^ length (n_states m) < fuel -> determinize_fuel fuel m = Ok R).
Proof.
  intros m Hv. split; [reflexivity|]. split; [|split].
  - intros fuel Hf. destruct (determinize_fuel_total m Hv fuel Hf) as [R E]. exists R. split; [exact E|].
    destruct (determinize_fuel_sound m Hv fuel R E) as [V [S [_ L]]]. split; [exact V|]. split; assumption.
  - exact (determinize_fuel_agree m).
  - intros R fuel E Hf. destruct (determinize_fuel_total m Hv fuel Hf) as [R' E']. rewrite E'. f_equal.
    rewrite determinize_m_fuel in E. exact (determinize_fuel_agree m _ _ _ _ E' E).
Qed.
Print Assumptions C07_determinize_total_with_fuel.

(* soundness for every fuel (C07_determinize_lang is the instance fuel = det_fuel m) *)
Theorem C07_determinize_sound_for_every_fuel : forall m fuel R, valid_nfa m = true -> determinize_fuel fuel m = Ok R ->
  valid_dfa R = true /\ d_syms R = n_syms m /\ L_dfa R =L L_nfa m /\ (forall w, dfa_acc R w = nfa_acc m w).
Proof.
  intros m fuel R Hv E. destruct (determinize_fuel_sound m Hv fuel R E) as [V [S [A L]]]. repeat split; assumption || apply L.
Qed.
Print Assumptions C07_determinize_sound_for_every_fuel.

(* the only failure of the fuel-parametric function is fuel exhaustion *)
Theorem C07_determinize_fails_only_by_fuel : forall m fuel e, determinize_fuel fuel m = Err e -> e = Fuel.
Proof.
  intros m fuel e. unfold determinize_fuel, build_dfa. destruct (explore _ _ _ _ _); [discriminate|]. congruence.
Qed.
Print Assumptions C07_determinize_fails_only_by_fuel.

(* non-vacuity: (a|b)*a over two symbols, 2 states: fuel 5 = 2^2 + 1 suffices and is what the capped model uses;
   fuel 1 does not suffice *)
Example C07_example_fuel :
  let m := mknfa [0; 1] [0; 1] [(0, [(Some 0, [0; 1]); (Some 1, [0])])] 0 [1] in
  valid_nfa m = true /\ det_fuel m = 5 /\ determinize_fuel 5 m = determinize_m m /\
  (exists R, determinize_fuel 5 m = Ok R /\ size R = 2) /\ determinize_fuel 9 m = determinize_fuel 5 m /\
  determinize_fuel 1 m = Err Fuel.
Proof.
  split; [vm_compute; reflexivity|]. split; [vm_compute; reflexivity|]. split; [vm_compute; reflexivity|].
  split; [eexists; split; vm_compute; reflexivity|]. split; vm_compute; reflexivity.
Qed.
