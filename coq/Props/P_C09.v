(* C09 - NFA equality decides language equivalence exactly. *)
From Coq Require Import List Arith Bool.
From AV Require Import Base.Util Spec.Lang Spec.FA Model.Decide Model.Product Model.Build Model.Subset
     Proofs.Decide Proofs.Subset Model.HK Proofs.HK.
Import ListNotations.

(* == / != : whenever the comparison returns (always for operands with at most 14 states in total; the
   model's exploration budget is a fixed large number beyond), the boolean is exactly language
   (in)equality - for any sizes, state names, nondeterminism and empty-string transitions *)
Theorem C09_eq_exact : forall A B b, valid_nfa A = true -> valid_nfa B = true ->
  nfa_eq_m A B = Ok b -> (b = true <-> L_nfa A =L L_nfa B).
Proof. intros A B b HA HB. exact (nfa_eq_sound A B HA HB b). Qed.
Print Assumptions C09_eq_exact.

Theorem C09_ne_exact : forall A B b, valid_nfa A = true -> valid_nfa B = true ->
  nfa_ne_m A B = Ok b -> (b = true <-> ~ (L_nfa A =L L_nfa B)).
Proof. intros A B b HA HB. exact (nfa_ne_sound A B HA HB b). Qed.
Print Assumptions C09_ne_exact.

Theorem C09_eq_total : forall A B, valid_nfa A = true -> valid_nfa B = true -> nsame_syms A B = true ->
  length (n_states A) + length (n_states B) <= 14 -> exists b, nfa_eq_m A B = Ok b.
Proof. exact nfa_eq_total. Qed.
Print Assumptions C09_eq_total.

Theorem C09_symmetric : forall A B b b', valid_nfa A = true -> valid_nfa B = true ->
  nfa_eq_m A B = Ok b -> nfa_eq_m B A = Ok b' -> b = b'.
Proof. exact nfa_eq_symmetric. Qed.
Print Assumptions C09_symmetric.

(* the answer is the same as comparing the determinisations *)
Theorem C09_same_as_determinised : forall A B b DA DB b', valid_nfa A = true -> valid_nfa B = true ->
  nfa_eq_m A B = Ok b -> determinize_m A = Ok DA -> determinize_m B = Ok DB -> eq_m DA DB = Ok b' -> b = b'.
Proof. exact nfa_eq_as_determinised. Qed.
Print Assumptions C09_same_as_determinised.

Example C09_example :
  let A := mknfa [0;1] [0] [(0,[(None,[1])]);(1,[(Some 0,[1])])] 0 [1] in     (* a* with an epsilon edge *)
  let B := mknfa [0] [0] [(0,[(Some 0,[0])])] 0 [0] in                         (* a* *)
  let C := mknfa [0;1] [0] [(0,[(Some 0,[1])]);(1,[(Some 0,[1])])] 0 [1] in    (* a+ *)
  valid_nfa A = true /\ valid_nfa B = true /\ valid_nfa C = true /\
  nfa_eq_m A B = Ok true /\ nfa_eq_m A C = Ok false /\ nfa_ne_m C B = Ok true.
Proof. vm_compute. repeat split. Qed.

(* == as it is coded (Model/HK.v: the same Hopcroft-Karp loop over subset states, initial pair = the two lambda
   closures, is_final_state through the lambda closures of the members): for every iteration order of the symbols
   and every tie-break of the union-find, whenever the mirror model returns its boolean is language equality, it
   agrees with the specification model nfa_eq_m whenever both return, and within the size bound under which nfa_eq_m
   is known to return (C09_eq_total) the two models are the same function of the operands. *)
Theorem C09_hk_eq_faithful : forall A B tie syms, valid_nfa A = true -> valid_nfa B = true ->
  (forall a, In a syms <-> In a (n_syms A)) ->
  (forall b, nfa_hk_eq_gen tie syms A B = Ok b -> (b = true <-> L_nfa A =L L_nfa B)) /\
  (forall b b', nfa_hk_eq_gen tie syms A B = Ok b -> nfa_eq_m A B = Ok b' -> b = b') /\
  (length (n_states A) + length (n_states B) <= 14 -> nfa_hk_eq_gen tie syms A B = nfa_eq_m A B).
Proof.
  intros A B tie syms HA HB Hs. split; [|split].
  - exact (nfa_hk_sound A B HA HB tie syms Hs).
  - exact (nfa_hk_agrees A B HA HB tie syms Hs).
  - exact (nfa_hk_eq_gen_nfa_eq_m A B HA HB tie syms Hs).
Qed.
Print Assumptions C09_hk_eq_faithful.

(* the variant of the loop that also records the arguments of every union call (compared call by call with what a
   spy on networkx's UnionFind observes) is the same loop *)
Theorem C09_hk_trace_model : forall tie syms A B, fst (nfa_hk_eq_log tie syms A B) = nfa_hk_eq_gen tie syms A B.
Proof. exact nfa_hk_eq_log_fst. Qed.
Print Assumptions C09_hk_trace_model.

Example C09_hk_example :
  let A := mknfa [0;1] [0] [(0,[(None,[1])]);(1,[(Some 0,[1])])] 0 [1] in     (* a* with an epsilon edge *)
  let B := mknfa [0] [0] [(0,[(Some 0,[0])])] 0 [0] in                         (* a* *)
  let C := mknfa [0;1] [0] [(0,[(Some 0,[1])]);(1,[(Some 0,[1])])] 0 [1] in    (* a+ *)
  nfa_hk_eq A B = Ok true /\ nfa_hk_eq B A = Ok true /\ nfa_hk_eq A C = Ok false /\
  nfa_hk_eq_gen (fun _ _ => false) [0] C B = Ok false.
Proof. vm_compute. repeat split. Qed.
