(* C14 - successor / predecessor traversal enumerates the language in order, completely.
   Vocabulary: lex_lt (Spec/DictOrder.v) is the dictionary order on words whose symbols are numbered
   by rank under the user's key; after/before, succ_spec/pred_spec, succ_words/pred_words,
   finite_lang/infinite_lang are defined at the top of Proofs/Succ.v.  Nothing is assumed about the
   start word: it may be None, empty, rejected, unreadable (falling off a partial DFA, or containing
   symbols outside the alphabet), or longer than max_length. *)
From Coq Require Import List Arith Bool Sorted.
From AV Require Import Base.Util Spec.Lang Spec.FA Spec.DictOrder Model.Product Model.Succ Model.SuccMachine
                       Proofs.FiniteSucc Proofs.Succ Proofs.SuccMachine Proofs.SuccMachineRev Proofs.SuccMachineTotal.
Import ListNotations.

(* the order the property talks about is a decidable strict total order in which a proper prefix
   precedes its extensions and otherwise the first differing symbol decides *)
Theorem C14_dictionary_order :
  (forall u, ~ lex_lt u u) /\
  (forall u v w, lex_lt u v -> lex_lt v w -> lex_lt u w) /\
  (forall u v, lex_lt u v \/ u = v \/ lex_lt v u) /\
  (forall u v, lex_ltb u v = true <-> lex_lt u v) /\
  (forall u v, lex_lt u v <->
     (exists a s, v = u ++ a :: s) \/
     (exists p a b u' v', u = p ++ a :: u' /\ v = p ++ b :: v' /\ a < b)).
Proof.
  split; [exact lex_lt_irrefl|]. split; [exact lex_lt_trans|]. split; [exact lex_lt_total|].
  split; [exact lex_ltb_spec|exact lex_lt_iff].
Qed.
Print Assumptions C14_dictionary_order.

(* the enumeration the model filters: strictly increasing, duplicate-free, and exactly the words
   over the alphabet up to the length bound *)
Theorem C14_dict_order_sorted_complete : forall syms hi, ssorted syms ->
  StronglySorted lex_lt (dict_order syms hi) /\ NoDup (dict_order syms hi) /\
  forall w, In w (dict_order syms hi) <-> length w <= hi /\ Forall (fun a => In a syms) w.
Proof.
  intros syms hi Hs. split; [apply dict_order_sorted; exact Hs|].
  split; [apply dict_order_NoDup; exact Hs|]. intro w. apply dict_order_In.
Qed.
Print Assumptions C14_dict_order_sorted_complete.

(* successors with an explicit max_length: strictly increasing, no repeats, exactly the accepted
   words of the window that come after start (or equal it when not strict) *)
Theorem C14_succ_list_spec : forall m start strict lo hi, valid_dfa m = true ->
  let l := succ_list m start strict lo hi in
  StronglySorted lex_lt l /\ NoDup l /\
  forall w, In w l <->
    L_dfa m w /\ lo <= length w <= hi /\
    match start with None => True | Some s => if strict then lex_lt s w else lex_lt s w \/ s = w end.
Proof. intros m start strict lo hi Hv. exact (succ_list_spec m Hv start strict lo hi). Qed.
Print Assumptions C14_succ_list_spec.

(* predecessors: the same in strictly decreasing order, with start as an upper bound *)
Theorem C14_pred_list_spec : forall m start strict lo hi, valid_dfa m = true ->
  let l := pred_list m start strict lo hi in
  StronglySorted (fun u v => lex_lt v u) l /\ NoDup l /\
  forall w, In w l <->
    L_dfa m w /\ lo <= length w <= hi /\
    match start with None => True | Some s => if strict then lex_lt w s else lex_lt w s \/ w = s end.
Proof. intros m start strict lo hi Hv. exact (pred_list_spec m Hv start strict lo hi). Qed.
Print Assumptions C14_pred_list_spec.

(* the property determines the generated sequence uniquely (so comparing the implementation's
   list with the model's list literally is the right correspondence) *)
Theorem C14_sequence_unique : forall m start strict lo hi, valid_dfa m = true ->
  (forall l, StronglySorted lex_lt l -> (forall w, In w l <-> succ_spec m start strict lo hi w) ->
             l = succ_list m start strict lo hi) /\
  (forall l, StronglySorted lex_gt l -> (forall w, In w l <-> pred_spec m start strict lo hi w) ->
             l = pred_list m start strict lo hi).
Proof.
  intros m start strict lo hi Hv. split; intros l Hs Hc;
    [apply succ_list_unique|apply pred_list_unique]; assumption.
Qed.
Print Assumptions C14_sequence_unique.

(* strict=False differs from strict=True by the start word itself, iff it is accepted and in the window *)
Theorem C14_nonstrict_adds_start : forall m s lo hi, valid_dfa m = true ->
  succ_list m (Some s) false lo hi =
    if dfa_acc m s && in_window lo hi s
    then s :: succ_list m (Some s) true lo hi else succ_list m (Some s) true lo hi.
Proof. intros m s lo hi Hv. exact (nonstrict_adds_start m Hv s lo hi). Qed.
Print Assumptions C14_nonstrict_adds_start.

(* the public generators, max_length optional.  Without max_length the model bounds the search by
   the number of states; for a finite language this loses nothing: the list contains every accepted
   word of length >= lo beyond start, of whatever length. *)
Theorem C14_successors_spec : forall m start strict lo ohi, valid_dfa m = true ->
  (ohi = None -> finite_lang (L_dfa m)) ->
  exists l, succ_m m start strict lo ohi = Ok l /\ StronglySorted lex_lt l /\ NoDup l /\
            forall w, In w l <-> succ_words m start strict lo ohi w.
Proof. intros m start strict lo ohi Hv. exact (succ_m_spec m Hv start strict lo ohi). Qed.
Print Assumptions C14_successors_spec.

Theorem C14_predecessors_spec : forall m start strict lo ohi, valid_dfa m = true ->
  finite_lang (L_dfa m) ->
  exists l, pred_m m start strict lo ohi = Ok l /\ StronglySorted lex_gt l /\ NoDup l /\
            forall w, In w l <-> pred_words m start strict lo ohi w.
Proof. intros m start strict lo ohi Hv. exact (pred_m_spec m Hv start strict lo ohi). Qed.
Print Assumptions C14_predecessors_spec.

(* successor / predecessor return the first generated word, which is the least (greatest) word
   of the set, and None exactly when the set is empty *)
Theorem C14_single_step_is_head : forall m start strict lo ohi, valid_dfa m = true ->
  ((ohi = None -> finite_lang (L_dfa m)) ->
   exists o l, successor_m m start strict lo ohi = Ok o /\ succ_m m start strict lo ohi = Ok l /\
     o = hd_error l /\
     match o with
     | Some w => succ_words m start strict lo ohi w /\
                 forall w', succ_words m start strict lo ohi w' -> lex_le w w'
     | None => forall w', ~ succ_words m start strict lo ohi w'
     end) /\
  (finite_lang (L_dfa m) ->
   exists o l, predecessor_m m start strict lo ohi = Ok o /\ pred_m m start strict lo ohi = Ok l /\
     o = hd_error l /\
     match o with
     | Some w => pred_words m start strict lo ohi w /\
                 forall w', pred_words m start strict lo ohi w' -> lex_le w' w
     | None => forall w', ~ pred_words m start strict lo ohi w'
     end).
Proof.
  intros m start strict lo ohi Hv. split.
  - exact (successor_m_spec m Hv start strict lo ohi).
  - exact (predecessor_m_spec m Hv start strict lo ohi).
Qed.
Print Assumptions C14_single_step_is_head.

(* predecessors of an infinite language - and only of an infinite language - are refused with
   InfiniteLanguageException, whatever the other arguments; no other error is possible *)
Theorem C14_pred_infinite_refused : forall m start strict lo ohi, valid_dfa m = true ->
  (pred_m m start strict lo ohi = Err Infinite <-> infinite_lang (L_dfa m)) /\
  (predecessor_m m start strict lo ohi = Err Infinite <-> infinite_lang (L_dfa m)) /\
  (forall e, pred_m m start strict lo ohi = Err e -> e = Infinite).
Proof. intros m start strict lo ohi Hv. exact (pred_m_infinite m Hv start strict lo ohi). Qed.
Print Assumptions C14_pred_infinite_refused.

(* the finiteness test both generators rely on is exact, and the default bound is justified:
   a finite language has no accepted word as long as the number of states *)
Theorem C14_isfinite_exact : forall m, valid_dfa m = true ->
  exists b, isfinite_m m = Ok b /\
    (b = true -> forall w, L_dfa m w -> length w < length (d_states m)) /\
    (b = false -> forall n, exists w, L_dfa m w /\ n <= length w).
Proof. exact isfinite_spec. Qed.
Print Assumptions C14_isfinite_exact.

(* T2, forward direction: the mirror model of the explicit stack machine of DFA.successors
   (Model/SuccMachine.v: state stack, char stack, candidate, should_yield; the yield point, the
   descend / next-sibling / return-to-parent branches, pruning by co-accessibility and max_length,
   next_symbol with its branch for symbols outside the alphabet, back_at_parent, the empty-alphabet
   guard) generates exactly the specified list: whatever the fuel, it never returns anything else,
   and with the budget the driver uses (machine_fuel, or anything larger) it does return - no
   KeyError, no IndexError, no endless loop.
   Only hypothesis besides validity: max_length is given whenever the language is infinite (the code
   does not terminate otherwise; succ_m answers Err Infinite there).  NOTHING is assumed about the
   start word (its symbols may lie inside, below, between or above the alphabet's) or about the
   alphabet (it may be empty). *)
Theorem C14_machine_refines_successors : forall m start strict lo ohi,
  valid_dfa m = true ->
  (ohi = None -> finite_lang (L_dfa m)) ->
  (forall fuel l, succ_machine fuel m start strict false lo ohi = Ok l ->
                  l = succ_list m start strict lo (the_hi m ohi)) /\
  (forall fuel, machine_fuel m start ohi <= fuel ->
     succ_machine fuel m start strict false lo ohi = Ok (succ_list m start strict lo (the_hi m ohi))).
Proof.
  intros m start strict lo ohi Hv Hfin. split.
  - intros fuel l. exact (machine_forward_correct fuel m start strict lo ohi l Hv Hfin).
  - intros fuel Hf. exact (machine_forward_total fuel m start strict lo ohi Hv Hfin Hf).
Qed.
Print Assumptions C14_machine_refines_successors.

(* T2, reverse direction (predecessors = successors(reverse=True), with the row-8 repair): post-order
   over the descending alphabet, the empty word generated after the loop; same budget; likewise no
   hypothesis on the start word or the alphabet *)
Theorem C14_machine_refines_predecessors : forall m start strict lo ohi,
  valid_dfa m = true ->
  finite_lang (L_dfa m) ->
  (forall fuel l, succ_machine fuel m start strict true lo ohi = Ok l ->
                  l = pred_list m start strict lo (the_hi m ohi)) /\
  (forall fuel, machine_fuel m start ohi <= fuel ->
     succ_machine fuel m start strict true lo ohi = Ok (pred_list m start strict lo (the_hi m ohi))).
Proof.
  intros m start strict lo ohi Hv Hfin. split.
  - intros fuel l. exact (machine_reverse_correct fuel m start strict lo ohi l Hv Hfin).
  - intros fuel Hf. exact (machine_reverse_total fuel m start strict lo ohi Hv Hfin Hf).
Qed.
Print Assumptions C14_machine_refines_predecessors.

(* both directions in one piece *)
Theorem C14_machine_total : forall m start strict reverse lo ohi, valid_dfa m = true ->
  (reverse = true \/ ohi = None -> finite_lang (L_dfa m)) ->
  succ_machine (machine_fuel m start ohi) m start strict reverse lo ohi =
    Ok (if reverse then pred_list m start strict lo (the_hi m ohi)
        else succ_list m start strict lo (the_hi m ohi)).
Proof.
  intros m start strict reverse lo ohi Hv Hfin. destruct reverse.
  - apply machine_reverse_total; auto.
  - apply machine_forward_total; auto.
Qed.
Print Assumptions C14_machine_total.

(* over the empty alphabet no fuel is needed at all: the guard answers *)
Theorem C14_machine_empty_alphabet : forall fuel m start strict reverse lo ohi,
  valid_dfa m = true -> d_syms m = [] ->
  succ_machine fuel m start strict reverse lo ohi =
    Ok (if reverse then pred_list m start strict lo (the_hi m ohi)
        else succ_list m start strict lo (the_hi m ohi)).
Proof.
  intros fuel m start strict reverse lo ohi Hv He.
  assert (Efin : finite_lang (L_dfa m)).
  { exists 0. intros w Hw. pose proof (acc_syms m Hv w Hw) as Hf. rewrite He in Hf.
    destruct w as [|a w]; [apply le_n|]. inversion Hf as [|? ? Ha _]. destruct Ha. }
  assert (Es : set_of (d_syms m) = []) by (rewrite He; reflexivity).
  unfold succ_machine. destruct (finite_isfinite m Hv Efin) as [E1 _].
  destruct (coreach_states_ok m Hv) as [co [Eco _]].
  destruct reverse; [rewrite E1|]; simpl; rewrite Eco; simpl; unfold machine_syms; rewrite Es; simpl; f_equal.
  - apply empty_guard_pred. exact Es.
  - apply empty_guard_succ. exact Es.
Qed.
Print Assumptions C14_machine_empty_alphabet.

(* the input on which the refinement proof did not close before 366d64a (a start symbol below the
   whole alphabet: alphabet {1}, all words accepted, start [0] resp. [1;0]; the code then generated
   the proper prefix [] resp. [1] of the start word again) *)
Definition ex_b : dfa := mkdfa [0] [1] [(0,[(1,0)])] 0 [0] false.
Example C14_foreign_below_regression :
  valid_dfa ex_b = true /\
  succ_list ex_b (Some [0]) true 0 1 = [[1]] /\
  succ_machine (machine_fuel ex_b (Some [0]) (Some 1)) ex_b (Some [0]) true false 0 (Some 1) = Ok [[1]] /\
  succ_list ex_b (Some [1;0]) true 0 1 = [] /\
  succ_machine (machine_fuel ex_b (Some [1;0]) (Some 1)) ex_b (Some [1;0]) true false 0 (Some 1) = Ok [] /\
  succ_machine (machine_fuel ex_b (Some [1;0]) (Some 2)) ex_b (Some [1;0]) false false 0 (Some 2) = Ok [[1;1]] /\
  succ_machine (machine_fuel ex_b (Some [2]) (Some 1)) ex_b (Some [2]) true false 0 (Some 1) = Ok [] /\
  succ_machine (machine_fuel ex_b (Some [0]) (Some 1)) ex_b (Some [0]) true true 0 (Some 1) = Err Infinite.
Proof. vm_compute. repeat split. Qed.

(* the iteration count behind the budget: a traversal never needs more than (n+1) loop iterations per
   node of the trie of words of length <= hi over the n symbols, plus (n+1) per symbol of the start word *)
Theorem C14_machine_fuel_formula : forall m start ohi,
  machine_fuel m start ohi =
    S ((words_upto (length (set_of (d_syms m))) (the_hi m ohi)
        + match start with Some s => length s | None => 0 end + 1) * (length (set_of (d_syms m)) + 2)).
Proof. reflexivity. Qed.
Print Assumptions C14_machine_fuel_formula.

(* ---- non-vacuity ---- *)
(* partial DFA over {0,1}: 0 -0-> 1, 0 -1-> 2, 1 -1-> 2; finals {0,2}: L = {e, 1, 01} *)
Definition ex_fin : dfa := mkdfa [0;1;2] [0;1] [(0,[(0,1);(1,2)]);(1,[(1,2)]);(2,[])] 0 [0;2] true.
(* complete DFA over {0}: even number of 0s (infinite) *)
Definition ex_inf : dfa := mkdfa [0;1] [0] [(0,[(0,1)]);(1,[(0,0)])] 0 [0] false.

(* the alphabet {0,2} (code 1 is a character outside it): 0 -0-> 1, 0 -2-> 2, 1 -2-> 2; L = {e, 2, 02} *)
Definition ex_gap : dfa := mkdfa [0;1;2] [0;2] [(0,[(0,1);(2,2)]);(1,[(2,2)]);(2,[])] 0 [0;2] true.
(* the empty alphabet: L = {e} *)
Definition ex_noalpha : dfa := mkdfa [0] [] [(0,[])] 0 [0] true.

Example C14_example_lists :
  valid_dfa ex_fin = true /\ valid_dfa ex_inf = true /\ valid_dfa ex_gap = true /\ valid_dfa ex_noalpha = true /\
  dict_order [0;1] 2 = [[]; [0]; [0;0]; [0;1]; [1]; [1;0]; [1;1]] /\
  succ_m ex_fin None true 0 None = Ok [[]; [0;1]; [1]] /\
  succ_m ex_fin (Some []) true 0 None = Ok [[0;1]; [1]] /\
  succ_m ex_fin (Some []) false 0 None = Ok [[]; [0;1]; [1]] /\
  succ_m ex_fin (Some [0]) true 0 (Some 1) = Ok [[1]] /\          (* start falls short of acceptance *)
  succ_m ex_fin (Some [0;0;7]) false 1 None = Ok [[0;1]; [1]] /\   (* start falls off, foreign symbol *)
  pred_m ex_fin (Some [1]) true 0 None = Ok [[0;1]; []] /\
  pred_m ex_fin (Some []) false 0 None = Ok [[]] /\                 (* DESIGN section 8 row 8 *)
  pred_m ex_fin (Some []) true 0 None = Ok [] /\
  pred_m ex_fin None true 1 None = Ok [[1]; [0;1]] /\
  successor_m ex_fin (Some [0;1]) true 0 None = Ok (Some [1]) /\
  successor_m ex_fin (Some [1]) true 0 None = Ok None /\
  predecessor_m ex_fin (Some [0]) true 0 None = Ok (Some []) /\
  succ_m ex_inf (Some [0]) true 0 (Some 5) = Ok [[0;0]; [0;0;0;0]] /\
  successor_m ex_inf (Some [0]) true 0 (Some 5) = Ok (Some [0;0]) /\
  pred_m ex_inf (Some [0]) true 0 (Some 5) = Err Infinite /\
  predecessor_m ex_inf None false 0 None = Err Infinite /\
  isfinite_m ex_fin = Ok true /\ isfinite_m ex_inf = Ok false /\
  succ_machine (machine_fuel ex_fin (Some [0]) None) ex_fin (Some [0]) true false 0 None = Ok [[0;1]; [1]] /\
  succ_machine (machine_fuel ex_inf (Some [0]) (Some 5)) ex_inf (Some [0]) false false 0 (Some 5) = Ok [[0;0]; [0;0;0;0]] /\
  succ_machine (machine_fuel ex_fin (Some [1]) None) ex_fin (Some [1]) true true 0 None = Ok [[0;1]; []] /\
  succ_machine 5 ex_fin None true false 0 None = Err Fuel /\
  (* start words with symbols outside the alphabet {0,1}: 7 above it; and over the alphabet {0,2} one between *)
  succ_machine (machine_fuel ex_fin (Some [0;0;7]) None) ex_fin (Some [0;0;7]) false false 1 None = Ok [[0;1]; [1]] /\
  succ_machine (machine_fuel ex_fin (Some [0;7]) None) ex_fin (Some [0;7]) true true 0 None = Ok [[0;1]; []] /\
  pred_m ex_fin (Some [0;7]) true 0 None = Ok [[0;1]; []] /\
  succ_machine (machine_fuel ex_gap (Some [0;1]) None) ex_gap (Some [0;1]) true false 0 None = Ok [[0;2]; [2]] /\
  succ_m ex_gap (Some [0;1]) true 0 None = Ok [[0;2]; [2]] /\
  succ_machine (machine_fuel ex_gap (Some [1]) None) ex_gap (Some [1]) true true 0 None = Ok [[0;2]; []] /\
  pred_m ex_gap (Some [1]) true 0 None = Ok [[0;2]; []] /\
  (* the empty alphabet *)
  succ_machine 0 ex_noalpha None true false 0 None = Ok [[]] /\ succ_m ex_noalpha None true 0 None = Ok [[]] /\
  succ_machine 0 ex_noalpha (Some []) true false 0 None = Ok [] /\
  succ_machine 0 ex_noalpha (Some []) false true 0 None = Ok [[]] /\
  succ_machine 0 ex_noalpha (Some [3]) true true 0 None = Ok [[]] /\ pred_m ex_noalpha (Some [3]) true 0 None = Ok [[]] /\
  succ_machine 0 ex_noalpha (Some [3]) false false 0 None = Ok [] /\
  succ_machine 0 ex_noalpha None true false 1 None = Ok [].
Proof. vm_compute. repeat split. Qed.

Example C14_example_hypotheses : finite_lang (L_dfa ex_fin) /\ infinite_lang (L_dfa ex_inf).
Proof.
  split.
  - exists 3. intros w Hw. destruct (isfinite_spec ex_fin eq_refl) as [b [E [Ht _]]].
    vm_compute in E. inversion E; subst b. specialize (Ht eq_refl w Hw). simpl in Ht.
    apply Nat.lt_le_incl. exact Ht.
  - destruct (isfinite_spec ex_inf eq_refl) as [b [E [_ Hf]]].
    vm_compute in E. inversion E; subst b. exact (Hf eq_refl).
Qed.
