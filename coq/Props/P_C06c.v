(* C06 (continuation; closes item 1 of "What did not line up" in notes/reports/compose.md) - every Boolean identity,
   for leaves that have the same SET of input symbols (C06_boolean_identities of P_C06b.v asked for the same list).
   The named laws of P_C06b.v (stated for same_syms operands) are now instances. *)
From Coq Require Import List Arith Bool.
From AV Require Import Base.Util Spec.Lang Spec.FA Model.Decide Model.Product Model.Build Model.DFAOps
     Proofs.Decide Proofs.DFAOps Proofs.DFAOps2 Proofs.DFAOpsSets Proofs.Compose
     Props.P_C04 Props.P_C04b Props.P_C06 Props.P_C06b.
Import ListNotations.

Theorem C06_boolean_identities_same_symbol_sets : forall S e1 e2, leaves_oks S e1 -> leaves_oks S e2 ->
  (forall w, over S w -> dsem e1 w = dsem e2 w) ->
  exists R1 R2, deval e1 = Ok R1 /\ deval e2 = Ok R2 /\ valid_dfa R1 = true /\ valid_dfa R2 = true /\
    eq_m R1 R2 = Ok true /\ ne_m R1 R2 = Ok false.
Proof.
  intros S e1 e2 H1 H2 H.
  destruct (C04_expr_trees_same_symbol_sets S e1 H1) as [R1 [E1 [V1 [S1 [A1 N1]]]]].
  destruct (C04_expr_trees_same_symbol_sets S e2 H2) as [R2 [E2 [V2 [S2 [A2 N2]]]]].
  exists R1, R2. split; [exact E1|]. split; [exact E2|]. split; [exact V1|]. split; [exact V2|].
  apply C06_equal_verdicts_compare_equal; [exact V1|exact V2|exact (same_syms_set_eq R1 R2 S S1 S2)|].
  intro w. destruct (over_dec S w) as [Ho|Hn].
  - rewrite (A1 w Ho), (A2 w Ho). apply H. exact Ho.
  - rewrite (N1 w Hn), (N2 w Hn). reflexivity.
Qed.
Print Assumptions C06_boolean_identities_same_symbol_sets.

(* results of two trees are always comparable, and == is True exactly when the trees agree on the words over S *)
Theorem C06_trees_compare_same_symbol_sets : forall S e1 e2, leaves_oks S e1 -> leaves_oks S e2 ->
  exists R1 R2 b, deval e1 = Ok R1 /\ deval e2 = Ok R2 /\ eq_m R1 R2 = Ok b /\
    (b = true <-> forall w, over S w -> dsem e1 w = dsem e2 w).
Proof.
  intros S e1 e2 H1 H2.
  destruct (C04_expr_trees_same_symbol_sets S e1 H1) as [R1 [E1 [V1 [S1 [A1 N1]]]]].
  destruct (C04_expr_trees_same_symbol_sets S e2 H2) as [R2 [E2 [V2 [S2 [A2 N2]]]]].
  destruct (C06_eq_ne R1 R2 V1 V2 (same_syms_set_eq R1 R2 S S1 S2)) as [[b [Eb Hb]] _].
  exists R1, R2, b. split; [exact E1|]. split; [exact E2|]. split; [exact Eb|]. rewrite Hb. split.
  - intros HL w Ho. rewrite <- (A1 w Ho), <- (A2 w Ho). apply lang_acc_eq. exact HL.
  - intro H. apply acc_eq_lang. intro w. destruct (over_dec S w) as [Ho|Hn].
    + rewrite (A1 w Ho), (A2 w Ho). apply H. exact Ho.
    + rewrite (N1 w Hn), (N2 w Hn). reflexivity.
Qed.
Print Assumptions C06_trees_compare_same_symbol_sets.

(* a named law as an INSTANCE of the identity theorem: De Morgan for operands with same_syms (C06_de_morgan of
   P_C06b.v was proved separately because the tree theorem needed equal lists) *)
Theorem C06_de_morgan_instance : forall A B, valid_dfa A = true -> valid_dfa B = true -> same_syms A B = true ->
  exists U I, binop_m Union A B = Ok U /\ binop_m Inter (complement_m A) (complement_m B) = Ok I /\
              eq_m (complement_m U) I = Ok true.
Proof.
  intros A B HA HB Hs.
  assert (LA : leaves_oks (d_syms A) (DLeaf A)) by (simpl; split; [exact HA|intro a; tauto]).
  assert (LB : leaves_oks (d_syms A) (DLeaf B)).
  { simpl. split; [exact HB|]. intro a. symmetry. apply (proj1 (C04_same_syms_is_set_equality A B) Hs). }
  destruct (C06_boolean_identities_same_symbol_sets (d_syms A)
              (DCompl (DBin Union (DLeaf A) (DLeaf B))) (DBin Inter (DCompl (DLeaf A)) (DCompl (DLeaf B))))
    as [R1 [R2 [E1 [E2 [_ [_ [Eq _]]]]]]].
  - simpl in *. tauto.
  - simpl in *. tauto.
  - intros w _. simpl. destruct (dfa_acc A w), (dfa_acc B w); reflexivity.
  - simpl in E1, E2. destruct (binop_m Union A B) as [U|] eqn:EU; [|discriminate]. simpl in E1. injection E1 as <-.
    destruct (binop_m Inter (complement_m A) (complement_m B)) as [I|] eqn:EI; [|discriminate]. injection E2 as <-.
    exists U, I. split; [reflexivity|]. split; [reflexivity|exact Eq].
Qed.
Print Assumptions C06_de_morgan_instance.

(* non-vacuity: cxA, cxB of P_C06b.v have the same symbols in different orders; absorption a | (a & b) == a and
   distributivity, by the identity theorem's own evaluation *)
Example C06_example_same_symbol_sets :
  d_syms cxA <> d_syms cxB /\ leaves_oks (d_syms cxA) (DBin Union (DLeaf cxA) (DLeaf cxB)) /\
  ok2 (deval (DBin Union (DLeaf cxA) (DBin Inter (DLeaf cxA) (DLeaf cxB)))) (fun R => eq_m R cxA) = Ok true /\
  ok2 (deval (DBin Inter (DLeaf cxB) (DBin Union (DLeaf cxA) (DCompl (DLeaf cxB)))))
      (fun R1 => ok2 (deval (DBin Inter (DLeaf cxB) (DLeaf cxA))) (fun R2 => eq_m R1 R2)) = Ok true.
Proof.
  split; [vm_compute; discriminate|]. split.
  - simpl. split; split; try (vm_compute; reflexivity); intro a; vm_compute; tauto.
  - vm_compute. split; reflexivity.
Qed.
