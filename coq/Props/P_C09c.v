(* C09 (continuation; closes item 2 of "What did not line up" in notes/reports/compose.md) - the C08 -> C09
   corollary made TOTAL: with the alphabets of the C08 results known (P_C08c.v), == on two compositions that denote the
   same language RETURNS True (within the 14-state budget of C09_eq_total), not only "never returns False". *)
From Coq Require Import List Arith Bool.
From AV Require Import Base.Util Spec.Lang Spec.FA Model.Decide Model.Product Model.Subset Model.NFAOps Model.HK
     Proofs.NFAOps Proofs.NFAOpsSyms Props.P_C08 Props.P_C08b Props.P_C08c Props.P_C09 Props.P_C09b.
Import ListNotations.

Theorem C09_equal_compositions_compare_equal_total : forall e1 e2,
  nexp_leaves_ok e1 = true -> nexp_leaves_ok e2 = true -> nexp_den e1 =L nexp_den e2 ->
  (forall a, In a (nexp_syms e1) <-> In a (nexp_syms e2)) ->
  exists R1 R2, nfa_eval e1 = Ok R1 /\ nfa_eval e2 = Ok R2 /\ nsame_syms R1 R2 = true /\
    (length (n_states R1) + length (n_states R2) <= 14 ->
     nfa_eq_m R1 R2 = Ok true /\ nfa_ne_m R1 R2 = Ok false /\
     (forall tie syms, (forall a, In a syms <-> In a (n_syms R1)) -> nfa_hk_eq_gen tie syms R1 R2 = Ok true)).
Proof.
  intros e1 e2 H1 H2 HL Hs.
  destruct (C08_compositions_comparable e1 e2 H1 H2 Hs) as [R1 [R2 [E1 [E2 [V1 [V2 [L1 [L2 Hn]]]]]]]].
  exists R1, R2. split; [exact E1|]. split; [exact E2|]. split; [exact Hn|]. intro Hsz.
  destruct (C09_eq_total R1 R2 V1 V2 Hn Hsz) as [b Eb].
  assert (Hb : b = true).
  { apply (C09_eq_exact R1 R2 b V1 V2 Eb). eapply lang_eq_trans; [exact L1|].
    eapply lang_eq_trans; [exact HL|apply lang_eq_sym; exact L2]. }
  subst b. split; [exact Eb|]. split.
  - unfold nfa_ne_m. rewrite Eb. reflexivity.
  - intros tie syms Hsy. destruct (C09_hk_eq_faithful R1 R2 tie syms V1 V2 Hsy) as [_ [_ Hsame]].
    rewrite (Hsame Hsz). exact Eb.
Qed.
Print Assumptions C09_equal_compositions_compare_equal_total.

(* the same for a single pair of operations, e.g. the laws of P_C08b.v: a.union(b).reverse() == a.reverse().union(b.reverse()) *)
Theorem C09_reverse_of_union_compares_equal : forall A B, valid_nfa A = true -> valid_nfa B = true ->
  exists R1 R2, bind (nfa_union A B) nfa_reverse = Ok R1 /\ bind2 (nfa_reverse A) (nfa_reverse B) nfa_union = Ok R2 /\
    (length (n_states R1) + length (n_states R2) <= 14 -> nfa_eq_m R1 R2 = Ok true).
Proof.
  intros A B HA HB.
  destruct (C09_equal_compositions_compare_equal_total
              (NReverse (NUnion (NLeaf A) (NLeaf B))) (NUnion (NReverse (NLeaf A)) (NReverse (NLeaf B))))
    as [R1 [R2 [E1 [E2 [_ H]]]]].
  - simpl. rewrite HA, HB. reflexivity.
  - simpl. rewrite HA, HB. reflexivity.
  - simpl. apply Compose.l_rev_union.
  - intro a. simpl. tauto.
  - exists R1, R2. split; [exact E1|]. split; [exact E2|]. intro Hsz. apply (H Hsz).
Qed.
Print Assumptions C09_reverse_of_union_compares_equal.

(* non-vacuity: operands over DIFFERENT alphabets (exA over {0}, exC over {1}); both sides are over {0, 1}, within
   the budget, and the comparison returns True *)
Example C09_example_total :
  let e1 := NReverse (NUnion (NLeaf exA) (NLeaf exC)) in
  let e2 := NUnion (NReverse (NLeaf exA)) (NReverse (NLeaf exC)) in
  nexp_leaves_ok e1 = true /\ nexp_leaves_ok e2 = true /\ nexp_syms e1 = [0; 1] /\ nexp_syms e2 = [0; 1] /\
  match nfa_eval e1, nfa_eval e2 with
  | Ok R1, Ok R2 => length (n_states R1) + length (n_states R2) <=? 14 = true /\ nfa_eq_m R1 R2 = Ok true
  | _, _ => False
  end.
Proof. vm_compute. repeat split. Qed.
