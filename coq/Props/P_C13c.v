(* C13 (continuation; closes item 7 of "What did not line up" in notes/reports/compose.md) - the link between
   cardinality (C13_cardinality_exact, stated through the listing words_below) and count_words_of_length
   (C13_cnt_exact, stated through all_words): len(dfa) is the sum of count_words_of_length(k) over the lengths k up to
   any bound on the word lengths (maximum_word_length() in particular).  And DFA.of_length(min_length=lo) without
   max_length: the language is infinite (len raises InfiniteLanguageException) unless the alphabet is empty. *)
From Coq Require Import List Arith NArith Bool Lia.
From AV Require Import Base.Util Spec.Lang Spec.FA Spec.Preds Spec.Words Model.Count Model.Construct
     Proofs.Count Proofs.Compose Props.P_C13 Props.P_C15.
Import ListNotations.

Definition count_sum (m : dfa) (L : nat) : N := Nsum (map (fun k => cnt m k (d_init m)) (seq 0 L)).

(* the listing of the words shorter than L has as many members as the counts of the lengths below L add up to *)
Theorem C13_listing_length_is_sum_of_counts : forall m L, valid_dfa m = true ->
  N.of_nat (length (words_below m L)) = count_sum m L.
Proof. intros m L Hv. symmetry. exact (Nsum_levels m Hv 0 L). Qed.
Print Assumptions C13_listing_length_is_sum_of_counts.

(* cardinality = sum over k <= h of count_words_of_length(k), for EVERY bound h on the lengths of the accepted words *)
Theorem C13_cardinality_is_sum_of_counts : forall m c h, valid_dfa m = true -> cardinality m = Ok c ->
  (forall w, dfa_acc m w = true -> length w <= h) ->
  c = count_sum m (S h) /\
  c = Nsum (map (fun k => N.of_nat (length (filter (dfa_acc m) (all_words (set_of (d_syms m)) k)))) (seq 0 (S h))).
Proof.
  intros m c h Hv Ec Hb.
  assert (E1 : c = count_sum m (S h)).
  { pose proof (C13_cardinality_exact m Hv) as H. rewrite Ec in H. destruct H as [L [HB Hc]].
    rewrite <- (C13_listing_length_is_sum_of_counts m (S h) Hv), Hc. f_equal.
    destruct (C13_words_below_listing m L Hv) as [_ [N1 M1]]. destruct (C13_words_below_listing m (S h) Hv) as [_ [N2 M2]].
    apply nodup_same_members_length; [exact N1|exact N2|]. intro w. rewrite M1, M2. split.
    - intros [Ha _]. split; [exact Ha|]. specialize (Hb w Ha). lia.
    - intros [Ha _]. split; [exact Ha|]. exact (HB w Ha). }
  split; [exact E1|]. rewrite E1. unfold count_sum. f_equal. apply map_ext. intro k. apply (C13_cnt_exact m k Hv).
Qed.
Print Assumptions C13_cardinality_is_sum_of_counts.

(* with the library's own bound: len(dfa) = sum of count_words_of_length(k) for k = 0 .. maximum_word_length();
   an empty language has len 0 (maximum_word_length raises EmptyLanguageException); an infinite one (maximum_word_length
   is None) raises InfiniteLanguageException *)
Theorem C13_cardinality_from_max_len : forall m, valid_dfa m = true ->
  match max_len m with
  | Ok (Some h) => cardinality m = Ok (count_sum m (S h))
  | Ok None => cardinality m = Err Infinite
  | Err Empty => cardinality m = Ok 0%N
  | Err _ => False
  end.
Proof.
  intros m Hv. pose proof (C13_max_len_exact m Hv) as Hm. pose proof (C13_cardinality_exact m Hv) as Hc.
  destruct (max_len m) as [[h|]|e].
  - destruct Hm as [_ Hb]. destruct (cardinality m) as [c|e] eqn:Ec.
    + f_equal. exact (proj1 (C13_cardinality_is_sum_of_counts m c h Hv Ec Hb)).
    + exfalso. destruct e; try exact Hc. destruct (Hc h) as [w [Ha Hl]]. specialize (Hb w Ha). lia.
  - destruct (cardinality m) as [c|e].
    + exfalso. destruct Hc as [L [HB _]]. destruct (Hm L) as [w [Ha Hl]]. specialize (HB w Ha). lia.
    + destruct e; try contradiction. reflexivity.
  - destruct e; try contradiction. destruct (cardinality m) as [c|e] eqn:Ec.
    + f_equal. assert (Hb : forall w, dfa_acc m w = true -> length w <= 0) by (intros w Ha; rewrite (Hm w) in Ha; discriminate).
      destruct (C13_cardinality_is_sum_of_counts m c 0 Hv Ec Hb) as [_ E]. rewrite E. simpl.
      rewrite (Hm []). reflexivity.
    + exfalso. destruct e; try exact Hc. destruct (Hc 0) as [w [Ha _]]. rewrite (Hm w) in Ha. discriminate.
Qed.
Print Assumptions C13_cardinality_from_max_len.

(* DFA.of_length(min_length=lo, max_length=None): infinite unless the alphabet is empty; over the empty alphabet the
   only candidate word is the empty one, accepted iff lo = 0 *)
Theorem C13_of_length_unbounded_cardinality : forall syms lo, NoDup syms ->
  (syms <> [] -> cardinality (of_length_m syms lo None None) = Err Infinite) /\
  (syms = [] -> cardinality (of_length_m syms lo None None) = Ok (if Nat.eqb lo 0 then 1%N else 0%N)).
Proof.
  intros syms lo Hnd. set (m := of_length_m syms lo None None).
  assert (Hv : valid_dfa m = true) by (apply C15_of_length_valid; exact Hnd).
  assert (Hacc : forall w, dfa_acc m w = true <-> Forall (fun a => In a syms) w /\ lo <= length w).
  { intro w. pose proof (C15_of_length_lang syms lo None None w) as HL.
    unfold L_dfa, promised, flagP, length_in_range, word_over in HL. fold m in HL. simpl Construct.counted_set in HL.
    rewrite HL. split.
    - intros [Ho [Hr _]]. rewrite (counted_over syms w Ho) in Hr. split; [exact Ho|exact Hr].
    - intros [Ho Hr]. rewrite (counted_over syms w Ho). split; [exact Ho|split; [exact Hr|exact I]]. }
  pose proof (C13_cardinality_exact m Hv) as H. split.
  - intro Hne. destruct syms as [|a syms']; [contradiction Hne; reflexivity|].
    destruct (cardinality m) as [c|e].
    + exfalso. destruct H as [L [HB _]].
      assert (Ha : dfa_acc m (repeat a (lo + L)) = true).
      { apply Hacc. split; [|rewrite repeat_length; lia]. apply Forall_forall. intros x Hx.
        apply repeat_spec in Hx. subst x. left. reflexivity. }
      specialize (HB _ Ha). rewrite repeat_length in HB. lia.
    + destruct e; try contradiction. reflexivity.
  - intro Hs. destruct (cardinality m) as [c|e].
    + destruct H as [L [HB Hc]]. rewrite Hc. destruct (C13_words_below_listing m L Hv) as [_ [N1 M1]].
      assert (Hnil : forall w, dfa_acc m w = true -> w = []).
      { intros w Ha. apply Hacc in Ha. destruct Ha as [Ho _]. rewrite Hs in Ho. destruct w as [|x w]; [reflexivity|].
        inversion Ho as [|? ? Hx _]. destruct Hx. }
      destruct (Nat.eqb lo 0) eqn:El.
      * apply Nat.eqb_eq in El. assert (Ha : dfa_acc m [] = true) by (apply Hacc; split; [constructor|simpl; lia]).
        replace (length (words_below m L)) with (length [@nil nat]); [reflexivity|].
        symmetry. apply nodup_same_members_length; [exact N1|constructor; [intros []|constructor]|].
        intro w. rewrite M1. split.
        -- intros [Hw _]. left. symmetry. exact (Hnil w Hw).
        -- intros [<-|[]]. split; [exact Ha|]. exact (HB [] Ha).
      * apply Nat.eqb_neq in El. destruct (words_below m L) as [|w l] eqn:Ew; [reflexivity|]. exfalso.
        assert (Hin : In w (w :: l)) by (left; reflexivity).
        apply M1 in Hin. destruct Hin as [Ha _]. pose proof (Hnil w Ha) as ->. apply Hacc in Ha. simpl in Ha. lia.
    + exfalso. destruct e; try exact H. destruct (H 0) as [w [Ha Hl]].
      apply Hacc in Ha. destruct Ha as [Ho _]. rewrite Hs in Ho. destruct w as [|x w]; [simpl in Hl; lia|].
      inversion Ho as [|? ? Hx _]. destruct Hx.
Qed.
Print Assumptions C13_of_length_unbounded_cardinality.

(* non-vacuity: of_length(1, 3) over three symbols: 39 = 3 + 9 + 27 words, also as the sum of the counts up to
   maximum_word_length() = 3; without max_length: infinite; over the empty alphabet: 1 word if lo = 0, none otherwise *)
Example C13_example_sum_of_counts :
  let m := of_length_m [0; 1; 2] 1 (Some 3) None in
  valid_dfa m = true /\ max_len m = Ok (Some 3) /\ cardinality m = Ok 39%N /\ count_sum m 4 = 39%N /\
  map (fun k => cnt m k (d_init m)) (seq 0 4) = [0; 3; 9; 27]%N /\
  cardinality (of_length_m [0; 1; 2] 1 None None) = Err Infinite /\
  cardinality (of_length_m [] 0 None None) = Ok 1%N /\ cardinality (of_length_m [] 2 None None) = Ok 0%N.
Proof. vm_compute. repeat split. Qed.
