(* C04 (continuation; closes item 1 of "What did not line up" in notes/reports/compose.md) - the two alphabet
   relations.  C04_binop_exact and the C06 theorems take same_syms A B = true (the same SET of input symbols: the
   library compares frozensets); the expression-tree theorems C04_expr_trees(_with_complement) asked every leaf for the
   same symbol LIST.  Here the tree theorem for leaves that agree as sets:
     set_eq l S := forall a, In a l <-> In a S
     leaves_oks S e := every leaf m of e has valid_dfa m = true and set_eq (d_syms m) S. *)
From Coq Require Import List Arith Bool.
From AV Require Import Base.Util Spec.Lang Spec.FA Model.Decide Model.Product Model.Build Model.DFAOps
     Proofs.Decide Proofs.DFAOps Proofs.DFAOps2 Proofs.DFAOpsSets Props.P_C04.
Import ListNotations.

(* same_syms IS equality of the symbol sets *)
Theorem C04_same_syms_is_set_equality : forall A B,
  same_syms A B = true <-> (forall a, In a (d_syms A) <-> In a (d_syms B)).
Proof. exact same_syms_is_set_eq. Qed.
Print Assumptions C04_same_syms_is_set_equality.

(* expression trees over | & - ^ ~ whose leaves have the same SET of symbols (listed in any order): no error, a valid
   DFA over that set of symbols deciding the tree's Boolean semantics on every word over it, rejecting the others *)
Theorem C04_expr_trees_same_symbol_sets : forall S e, leaves_oks S e ->
  exists R, deval e = Ok R /\ valid_dfa R = true /\ set_eq (d_syms R) S /\
            (forall w, over S w -> dfa_acc R w = dsem e w) /\
            (forall w, ~ over S w -> dfa_acc R w = false).
Proof. exact dexprs_spec. Qed.
Print Assumptions C04_expr_trees_same_symbol_sets.

(* it contains the list version: leaves with the same list are leaves with the same set *)
Theorem C04_same_list_leaves_are_same_set_leaves : forall S e, leaves_okc S e -> leaves_oks S e.
Proof. exact leaves_okc_oks. Qed.
Print Assumptions C04_same_list_leaves_are_same_set_leaves.

(* and the pairwise form: for a tree with two leaves the hypothesis is same_syms *)
Theorem C04_binop_is_a_tree : forall o A B, valid_dfa A = true -> valid_dfa B = true -> same_syms A B = true ->
  leaves_oks (d_syms A) (DBin o (DLeaf A) (DLeaf B)) /\ deval (DBin o (DLeaf A) (DLeaf B)) = binop_m o A B.
Proof.
  intros o A B HA HB Hs. split; [|reflexivity]. simpl. split; split; [exact HA|intro a; tauto|exact HB|].
  intro a. symmetry. apply (proj1 (same_syms_is_set_eq A B) Hs).
Qed.
Print Assumptions C04_binop_is_a_tree.

(* non-vacuity: the alphabet {0, 1} listed as [0; 1] and as [1; 0] *)
Example C04_example_same_symbol_sets :
  let A := mkdfa [0;1] [0;1] [(0,[(0,1)]);(1,[(1,0)])] 0 [1] true in
  let B := mkdfa [0] [1;0] [(0,[(0,0);(1,0)])] 0 [0] false in
  let e := DCompl (DBin Diff (DLeaf B) (DCompl (DLeaf A))) in
  valid_dfa A = true /\ valid_dfa B = true /\ d_syms A <> d_syms B /\ same_syms A B = true /\
  match deval e with Ok R => map (dfa_acc R) [[]; [0]; [0;1]; [1]; [7]] | Err _ => [] end
    = map (fun w => if forallb (fun a => memb a [0; 1]) w then dsem e w else false) [[]; [0]; [0;1]; [1]; [7]].
Proof. vm_compute. repeat split. discriminate. Qed.
