(* C13 (continuation; composition C15 -> C13) - counting and enumerating the language of a CONSTRUCTED automaton.
   C15_from_finite_language_lang concludes with valid_dfa (the only hypothesis of the C13 theorems) and with the
   language member_of lang; the C13 theorems then turn len(), maximum_word_length(), minimum_word_length() and
   iteration of DFA.from_finite_language(lang) into statements about the list lang itself. *)
From Coq Require Import List Arith NArith Bool Lia Permutation.
From AV Require Import Base.Util Spec.Lang Spec.FA Spec.Preds Spec.Words Model.Count Model.Construct Model.FiniteLang
     Proofs.Count Proofs.Compose Props.P_C13 Props.P_C15.
Import ListNotations.

(* len(DFA.from_finite_language(lang)) is the number of words of lang - for both values of as_partial; never
   InfiniteLanguageException *)
Theorem C13_finite_language_cardinality : forall syms lang as_partial,
  NoDup syms -> NoDup lang -> (forall w, In w lang -> word_over syms w) ->
  exists m, fl_dfa syms lang as_partial = Ok m /\ cardinality m = Ok (N.of_nat (length lang)).
Proof.
  intros syms lang ap Hs Hl Ho.
  destruct (C15_from_finite_language_lang syms lang ap Hs Hl Ho) as [m [E [Hv [_ [HL _]]]]].
  exists m. split; [exact E|].
  assert (Hin : forall w, dfa_acc m w = true <-> In w lang) by (intro w; apply (HL w)).
  pose proof (C13_cardinality_exact m Hv) as H. destruct (cardinality m) as [c|e].
  - destruct H as [L [HB Hc]]. rewrite Hc. do 2 f_equal.
    destruct (C13_words_below_listing m L Hv) as [_ [Hnd Hmem]].
    apply nodup_same_members_length; [exact Hnd|exact Hl|].
    intro w. rewrite Hmem, <- Hin. split; [intros [Ha _]; exact Ha|intro Ha; split; [exact Ha|apply HB; exact Ha]].
  - exfalso. destruct e; try exact H.
    destruct (H (max_len_of lang)) as [w [Ha Hlt]]. apply Hin in Ha. apply max_len_of_bound in Ha. lia.
Qed.
Print Assumptions C13_finite_language_cardinality.

(* maximum_word_length / minimum_word_length of DFA.from_finite_language(lang), lang non-empty: the length of a
   longest / shortest word of lang *)
Theorem C13_finite_language_lengths : forall syms lang as_partial,
  NoDup syms -> NoDup lang -> (forall w, In w lang -> word_over syms w) -> lang <> [] ->
  exists m hi lo, fl_dfa syms lang as_partial = Ok m /\ max_len m = Ok (Some hi) /\ min_len m = Ok lo /\
    (exists w, In w lang /\ length w = hi) /\ (forall w, In w lang -> length w <= hi) /\
    (exists w, In w lang /\ length w = lo) /\ (forall w, In w lang -> lo <= length w).
Proof.
  intros syms lang ap Hs Hl Ho Hne.
  destruct (C15_from_finite_language_lang syms lang ap Hs Hl Ho) as [m [E [Hv [_ [HL _]]]]].
  assert (Hin : forall w, dfa_acc m w = true <-> In w lang) by (intro w; apply (HL w)).
  destruct lang as [|w0 rest]; [contradiction|]. assert (H0 : dfa_acc m w0 = true) by (apply Hin; left; reflexivity).
  pose proof (C13_max_len_exact m Hv) as Hmax. pose proof (C13_min_len_exact m Hv) as Hmin.
  destruct (max_len m) as [[hi|]|e] eqn:Emax.
  - destruct (min_len m) as [lo|e] eqn:Emin.
    + destruct Hmax as [[w1 [Hw1 Ha1]] Hub]. destruct Hmin as [[w2 [Hw2 Ha2]] Hlb].
      exists m, hi, lo. split; [exact E|]. split; [exact Emax|]. split; [exact Emin|].
      split; [exists w1; split; [apply Hin; exact Ha1|exact Hw1]|].
      split; [intros w Hw; apply Hub; apply Hin; exact Hw|].
      split; [exists w2; split; [apply Hin; exact Ha2|exact Hw2]|].
      intros w Hw. apply Hlb. apply Hin. exact Hw.
    + exfalso. destruct e; try exact Hmin. rewrite (Hmin w0) in H0. discriminate.
  - exfalso. destruct (Hmax (max_len_of (w0 :: rest))) as [w [Ha Hlt]]. apply Hin in Ha. apply max_len_of_bound in Ha. lia.
  - exfalso. destruct e; try exact Hmax. rewrite (Hmax w0) in H0. discriminate.
Qed.
Print Assumptions C13_finite_language_lengths.

(* iterating DFA.from_finite_language(lang): asking for |lang| words (or more) produces every word of lang exactly
   once and nothing else - a permutation of lang, in (length, lexicographic) order *)
Theorem C13_finite_language_iteration : forall syms lang as_partial n,
  NoDup syms -> NoDup lang -> (forall w, In w lang -> word_over syms w) -> length lang <= n ->
  exists m ws, fl_dfa syms lang as_partial = Ok m /\ iter_upto m n = Ok ws /\ Permutation ws lang /\
    Sorted.StronglySorted ll_lt ws.
Proof.
  intros syms lang ap n Hs Hl Ho Hn.
  destruct (C15_from_finite_language_lang syms lang ap Hs Hl Ho) as [m [E [Hv [_ [HL _]]]]].
  assert (Hin : forall w, dfa_acc m w = true <-> In w lang) by (intro w; apply (HL w)).
  destruct (C13_iter_order_complete m n Hv) as [ws [L [Ei [Hws Hfull]]]].
  destruct (C13_words_below_listing m L Hv) as [Hsorted [Hnd Hmem]].
  assert (Hnd' : NoDup ws).
  { rewrite Hws. apply NoDup_firstn. exact Hnd. }
  exists m, ws. split; [exact E|]. split; [exact Ei|]. split; [|rewrite Hws; apply ss_firstn; exact Hsorted].
  assert (Hsub : incl ws lang).
  { intros w Hw. rewrite Hws in Hw. apply Hin. apply Hmem. exact (in_firstn word ll_lt n _ w Hw). }
  apply NoDup_Permutation; [exact Hnd'|exact Hl|]. intro w. split; [apply Hsub|]. intro Hw.
  destruct Hfull as [Hlen|Hall]; [|apply Hall; apply Hin; exact Hw].
  assert (Hle : length lang <= length ws) by lia.
  exact (NoDup_length_incl Hnd' Hle Hsub w Hw).
Qed.
Print Assumptions C13_finite_language_iteration.

(* DFA.of_length(min_length=lo, max_length=hi).count_words_of_length(k): |alphabet|^k for k in the range, else 0
   (C15_of_length_lang / C15_of_length_valid, then C13_cnt_exact) *)
Definition in_range (lo : nat) (hi : option nat) (k : nat) : bool :=
  Nat.leb lo k && match hi with Some h => Nat.leb k h | None => true end.

Theorem C13_of_length_count : forall syms lo hi k, NoDup syms ->
  cnt (of_length_m syms lo hi None) k (d_init (of_length_m syms lo hi None)) =
  if in_range lo hi k then N.of_nat (length syms ^ k) else 0%N.
Proof.
  intros syms lo hi k Hnd. set (m := of_length_m syms lo hi None).
  assert (Hv : valid_dfa m = true) by (apply C15_of_length_valid; exact Hnd).
  assert (Hsy : d_syms m = syms) by (unfold m, of_length_m; destruct hi; reflexivity).
  rewrite (C13_cnt_exact m k Hv). rewrite Hsy.
  assert (Hacc : forall w, In w (all_words (set_of syms) k) -> dfa_acc m w = in_range lo hi k).
  { intros w Hw. apply all_words_In in Hw. destruct Hw as [Hlen Hov].
    assert (Hov' : Forall (fun a => In a syms) w).
    { rewrite Forall_forall in *. intros a Ha. apply set_of_In. apply Hov. exact Ha. }
    pose proof (C15_of_length_lang syms lo hi None w) as HL.
    unfold L_dfa, promised, flagP, length_in_range, word_over in HL. fold m in HL.
    simpl Construct.counted_set in HL. rewrite (counted_over syms w Hov') in HL. rewrite Hlen in HL.
    apply eq_true_iff_eq. rewrite HL. unfold in_range. rewrite andb_true_iff, Nat.leb_le. split.
    - intros [_ [H1 H2]]. split; [exact H1|]. destruct hi; [apply Nat.leb_le; exact H2|reflexivity].
    - intros [H1 H2]. split; [exact Hov'|]. split; [exact H1|]. destruct hi; [apply Nat.leb_le; exact H2|exact I]. }
  destruct (in_range lo hi k).
  - rewrite (filter_all _ _ Hacc). rewrite all_words_length. do 2 f_equal.
    apply nodup_same_members_length; [apply ssorted_NoDup; apply set_of_sorted|exact Hnd|intro x; apply set_of_In].
  - rewrite (filter_none _ _ Hacc). reflexivity.
Qed.
Print Assumptions C13_of_length_count.

(* len(DFA.of_length(min_length=lo, max_length=hi)) = sum of |alphabet|^k for k = lo..hi (0 when hi < lo); never
   InfiniteLanguageException.  C15_of_length_lang / _valid, then C13_cardinality_exact + C13_words_below_listing *)
Theorem C13_of_length_cardinality : forall syms lo hi, NoDup syms ->
  cardinality (of_length_m syms lo (Some hi) None) =
  Ok (N.of_nat (list_sum (map (fun k => length syms ^ k) (seq lo (S hi - lo))))).
Proof.
  intros syms lo hi Hnd. set (m := of_length_m syms lo (Some hi) None).
  assert (Hv : valid_dfa m = true) by (apply C15_of_length_valid; exact Hnd).
  assert (Hacc : forall w, dfa_acc m w = true <-> Forall (fun a => In a syms) w /\ lo <= length w <= hi).
  { intro w. pose proof (C15_of_length_lang syms lo (Some hi) None w) as HL.
    unfold L_dfa, promised, flagP, length_in_range, word_over in HL. fold m in HL. simpl Construct.counted_set in HL.
    rewrite HL. split.
    - intros [Ho Hr]. rewrite (counted_over syms w Ho) in Hr. split; [exact Ho|exact Hr].
    - intros [Ho Hr]. rewrite (counted_over syms w Ho). split; [exact Ho|exact Hr]. }
  assert (Hlen : length (set_of syms) = length syms).
  { apply nodup_same_members_length; [apply ssorted_NoDup; apply set_of_sorted|exact Hnd|intro x; apply set_of_In]. }
  pose proof (C13_cardinality_exact m Hv) as H. destruct (cardinality m) as [c|e].
  - destruct H as [L [HB Hc]]. rewrite Hc. do 2 f_equal.
    destruct (C13_words_below_listing m L Hv) as [_ [HndW Hmem]].
    set (W := flat_map (all_words (set_of syms)) (seq lo (S hi - lo))).
    transitivity (length W).
    + apply nodup_same_members_length; [exact HndW| |].
      * apply NoDup_flat_map_disjoint; [apply seq_NoDup| |].
        -- intros k _. apply all_words_NoDup. apply set_of_sorted.
        -- intros x y z _ _ Hx Hy. apply all_words_In in Hx. apply all_words_In in Hy. lia.
      * intro w. rewrite Hmem, Hacc. unfold W. rewrite in_flat_map. split.
        -- intros [[Ho Hr] _]. exists (length w). split; [apply in_seq; lia|]. apply all_words_In. split; [reflexivity|].
           rewrite Forall_forall in *. intros a Ha. apply set_of_In. apply Ho. exact Ha.
        -- intros [k [Hk Hw]]. apply in_seq in Hk. apply all_words_In in Hw. destruct Hw as [Hl Ho].
           assert (Ho' : Forall (fun a => In a syms) w).
           { rewrite Forall_forall in *. intros a Ha. apply set_of_In. apply Ho. exact Ha. }
           split; [split; [exact Ho'|lia]|]. apply HB. apply Hacc. split; [exact Ho'|lia].
    + unfold W. rewrite flat_map_length_sum. f_equal. apply map_ext. intro k. rewrite all_words_length, Hlen. reflexivity.
  - exfalso. destruct e; try exact H. destruct (H hi) as [w [Ha Hlt]]. apply Hacc in Ha. lia.
Qed.
Print Assumptions C13_of_length_cardinality.

(* non-vacuity: the five words of the C15 example, complete and partial *)
Example C13_example_finite_language :
  let lang := [[0; 1]; [0; 0; 1]; [1]; [1; 1]; []] in
  let run ap := match fl_dfa [0; 1] lang ap with
                | Ok m => (cardinality m, max_len m, min_len m, iter_upto m 7)
                | Err e => (Err e, Err e, Err e, Err e)
                end in
  run false = (Ok 5%N, Ok (Some 3), Ok 0, Ok [[]; [1]; [0; 1]; [1; 1]; [0; 0; 1]]) /\
  run true = run false.
Proof. vm_compute. repeat split. Qed.

Example C13_example_of_length :
  let m := of_length_m [0; 1; 2] 1 (Some 3) None in
  map (fun k => cnt m k (d_init m)) [0; 1; 2; 3; 4] = [0; 3; 9; 27; 0]%N /\ cardinality m = Ok 39%N /\
  cardinality (of_length_m [0; 1] 3 (Some 2) None) = Ok 0%N /\
  cnt (of_length_m [0; 1] 2 None None) 5 0 = 32%N.
Proof. vm_compute. repeat split. Qed.
