(* C20 - Query answers do not depend on what was asked before (caches stay coherent).
   The object is the state machine of Model/Cache.v: definition + count cache + word cache +
   cached_method memos; `step` runs one public query on it, `pure` is the stateless answer of
   the C13 models.  Histories are arbitrary finite lists of queries (no bound). *)
From Coq Require Import List Arith NArith Bool.
From AV Require Import Base.Util Spec.Lang Spec.FA Spec.Words Model.Count Model.Cache
                       Proofs.Count Proofs.Cache.
Import ListNotations.

(* a fresh object satisfies the invariant *)
Theorem C20_cache_inv_init : forall m, cache_inv (init m).
Proof. exact cache_inv_init. Qed.
Print Assumptions C20_cache_inv_init.

(* what the invariant says: every stored level of either cache is the from-scratch level of the
   same length (so, on every state, the count / the word list of exactly that length), and every
   memo is empty or holds the stateless answer *)
Theorem C20_cache_inv_meaning : forall s, valid_dfa (o_def s) = true -> cache_inv s ->
  (forall i q, i < length (o_cc s) -> In q (d_states (o_def s)) ->
     nth i (o_cc s) [] = clevel_of (o_def s) i /\ cget (nth i (o_cc s) []) q = cnt (o_def s) i q) /\
  (forall i q, i < length (o_wc s) -> In q (d_states (o_def s)) ->
     nth i (o_wc s) [] = wlevel_of (o_def s) i /\ wget (nth i (o_wc s) []) q = wl (o_def s) i q) /\
  (forall v, o_min s = Some v -> min_len (o_def s) = Ok v) /\
  (forall v, o_max s = Some v -> max_len (o_def s) = Ok v) /\
  (forall v, o_card s = Some v -> cardinality (o_def s) = Ok v) /\
  (forall v, o_empty s = Some v -> isempty (o_def s) = Ok v) /\
  (forall v, o_finite s = Some v -> isfinite (o_def s) = Ok v).
Proof.
  intros s Hv I. destruct I as [[n Hc] [n' Hw] H3 H4 H5 H6 H7].
  split; [|split; [|repeat split; assumption]].
  - intros i q Hi Hq. rewrite Hc in *. unfold levels_c in Hi. rewrite map_length, seq_length in Hi.
    rewrite (nth_levels_c _ i n Hi). split; [reflexivity|apply clevel_get; assumption].
  - intros i q Hi Hq. rewrite Hw in *. unfold levels_w in Hi. rewrite map_length, seq_length in Hi.
    rewrite (nth_levels_w _ i n' Hi). split; [reflexivity|apply wlevel_get; assumption].
Qed.
Print Assumptions C20_cache_inv_meaning.

(* every query keeps the invariant and the definition *)
Theorem C20_cache_inv_step : forall s q, valid_dfa (o_def s) = true -> cache_inv s ->
  cache_inv (fst (step s q)) /\ o_def (fst (step s q)) = o_def s.
Proof. intros s q Hv I. exact (proj1 (step_ok s q Hv I)). Qed.
Print Assumptions C20_cache_inv_step.

(* history independence: after ANY finite sequence of queries on one object (repeats, shorter
   after longer lengths, abandoned generators, clear_cache anywhere), the answer to any query is
   the stateless answer *)
Theorem C20_history_independent : forall m qs q, valid_dfa m = true ->
  snd (step (fold_left (fun s q => fst (step s q)) qs (init m)) q) = pure m q.
Proof. intros m qs q Hv. exact (history_independent m qs q Hv). Qed.
Print Assumptions C20_history_independent.

(* the same for every answer along the history *)
Theorem C20_answers_along_history : forall m qs, valid_dfa m = true ->
  answers (init m) qs = map (pure m) qs.
Proof. intros m qs Hv. exact (answers_ok qs (init m) Hv (cache_inv_init m)). Qed.
Print Assumptions C20_answers_along_history.

(* tied to the language (with C13): whatever was asked before, count_words_of_length(k) is the
   number of accepted words of length k and words_of_length(k) is their sorted list *)
Theorem C20_count_words_after_any_history : forall m qs k, valid_dfa m = true ->
  snd (step (fold_left (fun s q => fst (step s q)) qs (init m)) (QCount k))
    = ANum (N.of_nat (length (filter (dfa_acc m) (all_words (set_of (d_syms m)) k)))) /\
  snd (step (fold_left (fun s q => fst (step s q)) qs (init m)) (QWords k))
    = AWords (filter (dfa_acc m) (all_words (set_of (d_syms m)) k)).
Proof.
  intros m qs k Hv. split.
  - change (fold_left (fun s q => fst (step s q)) qs (init m)) with (run_history (init m) qs).
    rewrite (history_independent m qs (QCount k) Hv). simpl. f_equal. exact (cnt_from m Hv k (d_init m)).
  - change (fold_left (fun s q => fst (step s q)) qs (init m)) with (run_history (init m) qs).
    rewrite (history_independent m qs (QWords k) Hv). simpl. f_equal. exact (wl_from m Hv k (d_init m)).
Qed.
Print Assumptions C20_count_words_after_any_history.

(* non-vacuity: a history with shorter-after-longer lengths, an abandoned generator, a
   clear_cache in the middle and memoised queries; the caches really are filled and reset *)
Example C20_example :
  let m := mkdfa [0;1;2] [0;1] [(0,[(1,0);(0,1)]);(1,[(0,2)]);(2,[])] 0 [1;2] true in
  let h := [QCount 3; QCount 1; QWordsPrefix 4 1; QWords 2; QMax; QClear; QCard; QWords 2; QIter 3; QIsFinite] in
  valid_dfa m = true /\
  answers (init m) h =
    [ANum 2; ANum 1; AWords [[1;1;0;0]]; AWords [[0;0];[1;0]]; AMax (Ok None); AUnit; ACard (Err Infinite);
     AWords [[0;0];[1;0]]; AIter (Ok [[0];[0;0];[1;0]]); ABool (Ok false)] /\
  length (o_cc (run_history (init m) [QCount 3; QCount 1])) = 4 /\
  length (o_wc (run_history (init m) [QCount 3; QWordsPrefix 4 1])) = 5 /\
  length (o_cc (run_history (init m) [QCount 3; QClear])) = 0 /\
  o_max (run_history (init m) [QIsFinite; QClear]) = Some None.
Proof. vm_compute. repeat split. Qed.
