(* C05 (continuation; composition C11 -> C10 -> C07 -> C05) - the pipeline
       DFA.from_nfa(NFA.from_regex(s, input_symbols=alpha), minify=True)
   end to end.  Nothing new is proved about any stage: the conclusions of the property theorems of one
   stage are the hypotheses of the next (valid_nfa out of C10 into C07, valid_dfa out of C07 into C05),
   and the language / alphabet equalities chain.  Stages:
     compile          Model/RegexBuild.v   C10_from_regex_sound, C11_validated_from_regex_ok
     determinize_m    Model/Subset.v       C07_determinize_lang, C07_determinize_total
     minify           Model/Minimize.v     C05_minify (through C05_determinize_with_minify) *)
From Coq Require Import List Arith Bool.
From AV Require Import Base.Util Spec.Lang Spec.FA Spec.Minimal Spec.Regex Model.Decide Model.Subset Model.Minimize
     Model.RegexLex Model.RegexParse Model.RegexBuild Proofs.RegexCompile Proofs.RegexTotal
     Model.Product Model.Construct Model.FiniteLang Spec.Preds Proofs.Minimize Proofs.Compose
     Props.P_C05 Props.P_C05b Props.P_C06 Props.P_C07 Props.P_C10 Props.P_C11 Props.P_C15.
Import ListNotations.

Definition regex_to_min_dfa (cs : list nat) (alpha : option (list nat)) : res dfa :=
  bind (compile cs alpha) determinize_min_m.

(* whenever from_regex and the subset construction return: the pipeline returns a valid DFA over the
   requested / derived alphabet that accepts exactly the denotation of the parsed expression and is
   minimal among the DFAs of its own kind (complete / partial) over that alphabet with that language *)
Theorem C05_regex_to_minimal_dfa : forall cs alpha m P, alpha_ok alpha ->
  compile cs alpha = Ok m -> determinize_m m = Ok P ->
  exists sigma r R, alphabet_of cs alpha = Ok sigma /\ parse cs = Ok r /\
    regex_to_min_dfa cs alpha = Ok R /\ valid_dfa R = true /\ d_syms R = sigma /\
    L_dfa R =L den sigma r /\
    (complete R -> minimal_complete R) /\ (~ complete R -> minimal_partial R).
Proof.
  intros cs alpha m P Ha Ec Ed.
  destruct (C10_from_regex_sound cs alpha m Ha Ec) as [sigma [r [Es [Ep [Vm [Sm Lm]]]]]].
  destruct (C07_determinize_lang m P Vm Ed) as [VP [SP _]].
  destruct (C05_determinize_with_minify m P Vm Ed) as [R [ER [VR [LR [M1 M2]]]]].
  exists sigma, r, R. split; [exact Es|]. split; [exact Ep|].
  split; [unfold regex_to_min_dfa; rewrite Ec; exact ER|]. split; [exact VR|].
  split.
  - unfold determinize_min_m in ER. rewrite Ed in ER. simpl in ER.
    rewrite (proj1 (proj2 (C05_minify_valid P R VP ER))). rewrite SP. exact Sm.
  - split; [eapply lang_eq_trans; [exact LR|exact Lm]|]. split; assumption.
Qed.
Print Assumptions C05_regex_to_minimal_dfa.

(* the same in the words of Spec/Minimal.v unfolded: no valid DFA of the result's kind over the alphabet
   that accepts the denotation has fewer states *)
Theorem C05_regex_to_minimal_dfa_no_smaller : forall cs alpha m P, alpha_ok alpha ->
  compile cs alpha = Ok m -> determinize_m m = Ok P ->
  exists sigma r R, alphabet_of cs alpha = Ok sigma /\ parse cs = Ok r /\ regex_to_min_dfa cs alpha = Ok R /\
    forall D, valid_dfa D = true -> d_syms D = sigma -> L_dfa D =L den sigma r ->
      (complete R -> complete D -> size R <= size D) /\ (~ complete R -> size R <= size D).
Proof.
  intros cs alpha m P Ha Ec Ed.
  destruct (C05_regex_to_minimal_dfa cs alpha m P Ha Ec Ed) as [sigma [r [R [Es [Ep [ER [VR [SR [LR [M1 M2]]]]]]]]]].
  exists sigma, r, R. split; [exact Es|]. split; [exact Ep|]. split; [exact ER|].
  intros D VD SD LD.
  assert (LDR : L_dfa D =L L_dfa R) by (eapply lang_eq_trans; [exact LD|apply lang_eq_sym; exact LR]).
  assert (SDR : d_syms D = d_syms R) by (rewrite SR; exact SD).
  split.
  - intros CR CD. exact (M1 CR D VD CD SDR LDR).
  - intro NR. exact (M2 NR D VD SDR LDR).
Qed.
Print Assumptions C05_regex_to_minimal_dfa_no_smaller.

(* from the validator: a string that regex.validate accepts, whose literals are not the lone braces, with
   the derived alphabet, goes through from_regex (C11); with a compiled NFA of at most 14 states the subset
   construction returns as well (C07), so the pipeline is total there *)
Theorem C05_validated_regex_to_minimal_dfa : forall cs, validate cs = Ok tt ->
  exists r, parse cs = Ok r /\
    ((forall a, In a (re_syms r) -> is_reserved a = false) ->
     exists m, compile cs None = Ok m /\ valid_nfa m = true /\
       (length (n_states m) <= 14 ->
        exists R, regex_to_min_dfa cs None = Ok R /\ valid_dfa R = true /\
          d_syms R = default_alphabet cs /\ L_dfa R =L den (default_alphabet cs) r /\
          (complete R -> minimal_complete R) /\ (~ complete R -> minimal_partial R))).
Proof.
  intros cs Hv. destruct (C11_validated_from_regex_ok cs Hv) as [r [Ep [Hnone _]]].
  exists r. split; [exact Ep|]. intro Hres. destruct (Hnone Hres) as [m Ec].
  destruct (C10_from_regex_sound cs None m I Ec) as [sigma [r' [Es [Ep' [Vm _]]]]].
  exists m. split; [exact Ec|]. split; [exact Vm|]. intro Hsz.
  destruct (C07_determinize_total m Vm Hsz) as [P Ed].
  destruct (C05_regex_to_minimal_dfa cs None m P I Ec Ed) as [sigma2 [r2 [R [Es2 [Ep2 [ER [VR [SR [LR [M1 M2]]]]]]]]]].
  simpl in Es2. injection Es2 as Es2. rewrite Ep in Ep2. injection Ep2 as Ep2. rewrite <- Es2 in SR, LR. rewrite <- Ep2 in LR.
  exists R. split; [exact ER|]. split; [exact VR|]. split; [exact SR|]. split; [exact LR|]. split; assumption.
Qed.
Print Assumptions C05_validated_regex_to_minimal_dfa.

(* non-vacuity: "(a|b)*a" (codes 2 26 4 27 3 7 26) over the derived alphabet {a, b}: the compiled NFA has
   8 states, the subset construction gives 3, the pipeline ends with the 2-state minimal complete DFA of
   "ends with a"; "a" alone gives the partial 2-state automaton *)
Example C05_example_regex_pipeline :
  validate [2; 26; 4; 27; 3; 7; 26] = Ok tt /\
  match regex_to_min_dfa [2; 26; 4; 27; 3; 7; 26] None with
  | Ok R => (valid_dfa R, size R, d_syms R, d_partial R,
             map (dfa_acc R) [[]; [26]; [27; 26]; [26; 27]; [27; 27; 26; 26]])
  | Err _ => (false, 0, [], true, [])
  end = (true, 2, [26; 27], false, [false; true; true; false; true]) /\
  match compile [2; 26; 4; 27; 3; 7; 26] None with
  | Ok m => match determinize_m m with Ok P => (Nat.leb (length (n_states m)) 14, size P) | Err _ => (false, 0) end
  | Err _ => (false, 0)
  end = (true, 3).
Proof. vm_compute. repeat split. Qed.

(* ---- == then minify (C06 -> C05): automata that compare equal minimise to the same number of states, provided the
        two results are of the same kind (both complete or both partial: minimality is among the DFAs of one kind) and
        the operands list the same alphabet ---- *)
Theorem C05_equal_dfas_minify_to_equal_size : forall A B RA RB,
  valid_dfa A = true -> valid_dfa B = true -> d_syms A = d_syms B -> eq_m A B = Ok true ->
  minify A = Ok RA -> minify B = Ok RB -> (complete RA <-> complete RB) ->
  size RA = size RB /\ L_dfa RA =L L_dfa RB.
Proof.
  intros A B RA RB HA HB Hsy Heq EA EB Hk.
  destruct (C06_eq_ne A B HA HB (same_syms_eq A B Hsy)) as [[b [Eb Hb]] _].
  rewrite Heq in Eb. injection Eb as Eb. assert (HL : L_dfa A =L L_dfa B) by (apply Hb; symmetry; exact Eb).
  destruct (C05_minify A HA) as [RA' [EA' [VA [LA [MA1 MA2]]]]]. rewrite EA in EA'. injection EA' as EA'. subst RA'.
  destruct (C05_minify B HB) as [RB' [EB' [VB [LB [MB1 MB2]]]]]. rewrite EB in EB'. injection EB' as EB'. subst RB'.
  destruct (C05_minify_valid A RA HA EA) as [_ [SA _]]. destruct (C05_minify_valid B RB HB EB) as [_ [SB _]].
  assert (LAB : L_dfa RA =L L_dfa RB).
  { eapply lang_eq_trans; [exact LA|]. eapply lang_eq_trans; [exact HL|apply lang_eq_sym; exact LB]. }
  assert (SAB : d_syms RA = d_syms RB) by (rewrite SA, SB; exact Hsy).
  split; [|exact LAB]. apply Nat.le_antisymm.
  - destruct (d_partial RA) eqn:Ep.
    + assert (Hn : ~ complete RA).
      { intro Hc. apply (C05_minify_kind A RA HA EA) in Hc. rewrite Hc in Ep. discriminate. }
      exact (MA2 Hn RB VB (eq_sym SAB) (lang_eq_sym _ _ LAB)).
    + assert (Hc : complete RA) by (apply (C05_minify_kind A RA HA EA); exact Ep).
      exact (MA1 Hc RB VB (proj1 Hk Hc) (eq_sym SAB) (lang_eq_sym _ _ LAB)).
  - destruct (d_partial RB) eqn:Ep.
    + assert (Hn : ~ complete RB).
      { intro Hc. apply (C05_minify_kind B RB HB EB) in Hc. rewrite Hc in Ep. discriminate. }
      exact (MB2 Hn RA VA SAB LAB).
    + assert (Hc : complete RB) by (apply (C05_minify_kind B RB HB EB); exact Ep).
      exact (MB1 Hc RA VA (proj2 Hk Hc) SAB LAB).
Qed.
Print Assumptions C05_equal_dfas_minify_to_equal_size.

(* non-vacuity, and the kind hypothesis is needed: {"0"} as a complete DFA with a trap and as a partial DFA compare
   equal; the first minimises to 3 states (complete), the second to 2 (partial).  Two complete presentations of
   "even number of 0s" (2 and 4 states) minimise to 2 states each *)
Example C05_example_equal_then_minify :
  let a := mkdfa [0; 1; 2] [0] [(0, [(0, 1)]); (1, [(0, 2)]); (2, [(0, 2)])] 0 [1] false in
  let b := mkdfa [0; 1] [0] [(0, [(0, 1)]); (1, [])] 0 [1] true in
  let c := mkdfa [0; 1] [0] [(0, [(0, 1)]); (1, [(0, 0)])] 0 [0] false in
  let d := mkdfa [0; 1; 2; 3] [0] [(0, [(0, 1)]); (1, [(0, 2)]); (2, [(0, 3)]); (3, [(0, 0)])] 0 [0; 2] false in
  let sz x := match minify x with Ok R => (size R, d_partial R) | Err _ => (0, true) end in
  valid_dfa a = true /\ valid_dfa b = true /\ valid_dfa c = true /\ valid_dfa d = true /\
  eq_m a b = Ok true /\ sz a = (3, false) /\ sz b = (2, true) /\
  eq_m c d = Ok true /\ sz c = (2, false) /\ sz d = (2, false).
Proof. vm_compute. repeat split. Qed.

(* ---- constructors then minify (C15 -> C05): an automaton that passes the minimality test of C15 (accessible,
        pairwise distinguishable, no dead state when flagged partial - every language constructor's result does,
        C15_constructors_minimal / C15_from_finite_language_minimal) keeps its size under minify(), and the result
        compares equal to it.  The step "a result flagged partial comes from an operand flagged partial" is lemma
        minify_inv of Proofs/Minimize.v; no C05 property theorem states it ---- *)
Theorem C05_minify_keeps_size_of_minimal : forall m, valid_dfa m = true -> Construct.is_minimal m = true ->
  exists R, minify m = Ok R /\ size R = size m /\ L_dfa R =L L_dfa m /\ eq_m R m = Ok true.
Proof.
  intros m Hv Hm. destruct (C15_is_minimal_sound m Hv Hm) as [Mc Mp].
  destruct (C05_minify m Hv) as [R [ER [VR [LR _]]]]. destruct (C05_minify_valid m R Hv ER) as [_ [SR Hle]].
  exists R. split; [exact ER|]. split; [|split; [exact LR|]].
  - apply Nat.le_antisymm; [exact Hle|]. destruct (d_partial R) eqn:Ep.
    + assert (Epm : d_partial m = true).
      { destruct (d_partial m) eqn:Epm; [reflexivity|]. rewrite (proj2 (minify_inv m R Hv ER) Epm) in Ep. discriminate. }
      exact (Mp Epm R VR SR LR).
    + exact (Mc R VR (proj1 (C05_minify_kind m R Hv ER) Ep) SR LR).
  - destruct (C06_eq_ne R m VR Hv (same_syms_eq R m SR)) as [[b [Eb Hb]] _]. rewrite Eb. f_equal. apply Hb. exact LR.
Qed.
Print Assumptions C05_minify_keeps_size_of_minimal.

(* instance: DFA.from_finite_language(lang).minify() has as many states as DFA.from_finite_language(lang) *)
Theorem C05_finite_language_already_minimal : forall syms lang as_partial,
  NoDup syms -> NoDup lang -> (forall w, In w lang -> word_over syms w) ->
  (as_partial = false -> lang <> [] -> syms <> []) ->
  exists m R, fl_dfa syms lang as_partial = Ok m /\ minify m = Ok R /\ size R = size m /\ eq_m R m = Ok true.
Proof.
  intros syms lang ap Hs Hl Ho Hside.
  destruct (C15_from_finite_language_minimal syms lang ap Hs Hl Ho Hside) as [m [E [Hv [Hm _]]]].
  destruct (C05_minify_keeps_size_of_minimal m Hv Hm) as [R [ER [Sz [_ Eq]]]].
  exists m, R. split; [exact E|]. split; [exact ER|]. split; assumption.
Qed.
Print Assumptions C05_finite_language_already_minimal.

Example C05_example_constructor_then_minify :
  let sz r := match r with Ok m => match minify m with Ok R => (size m, size R, Construct.is_minimal m) | Err _ => (0, 0, false) end
                         | Err _ => (0, 0, false) end in
  sz (fl_dfa [0; 1] [[0; 1]; [0; 0; 1]; [1]; [1; 1]; []] true) = (5, 5, true) /\
  sz (fl_dfa [0; 1] [[0; 1]; [0; 0; 1]; [1]; [1; 1]; []] false) = (6, 6, true) /\
  sz (Ok (from_substring_m [0; 1] [0; 0; 1; 0; 0] true false)) = (6, 6, true) /\
  (* and an automaton that fails the test shrinks *)
  sz (Ok (of_length_m [0; 1] 2 (Some 1) None)) = (3, 1, false).
Proof. vm_compute. repeat split. Qed.
