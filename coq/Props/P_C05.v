(* C05 - Minimisation preserves the language and reaches the minimum state count.
   Only statements, closed by short glue, with Print Assumptions beneath.
   The model never runs out of fuel (C05_refine_fuel), so every theorem is stated for
   every valid input, not only "for every input on which the model returns Ok". *)
From Coq Require Import List Arith Bool.
From AV Require Import Base.Util Spec.Lang Spec.FA Spec.Minimal Model.Minimize Model.Hopcroft
                       Proofs.FARun Proofs.Moore Proofs.Minimize Proofs.Hopcroft Proofs.HopcroftCoded.
Import ListNotations.

(* ---- the refinement, on any deterministic system (X, step, fin) over a state list Q
        closed under step; foreign symbols lead every state to the same place ---- *)

(* after k rounds two states share a class iff they agree on all words of length <= k *)
Theorem C05_cls_k_spec :
  forall (X : Type) (eqbX : X -> X -> bool), eqb_ok eqbX ->
  forall (step : X -> nat -> X) (fin : X -> bool) (syms : list nat) (Q : list X),
    (forall x a, In x Q -> In (step x a) Q) ->
    (forall x y a, ~ In a syms -> step x a = step y a) ->
  forall k x y, In x Q -> In y Q ->
    (look eqbX (iterT X eqbX step fin syms Q k) x = look eqbX (iterT X eqbX step fin syms Q k) y
     <-> forall w, length w <= k -> fin (xrun X step x w) = fin (xrun X step y w)).
Proof. intros X eqbX He step fin syms Q Hc Hf k x y. exact (cls_k_spec X eqbX He step fin syms Q Hc Hf k x y). Qed.
Print Assumptions C05_cls_k_spec.

(* a round that splits no class makes the table exactly Nerode equivalence, and different
   classes come with an explicit distinguishing word *)
Theorem C05_stable_is_nerode :
  forall (X : Type) (eqbX : X -> X -> bool), eqb_ok eqbX ->
  forall (step : X -> nat -> X) (fin : X -> bool) (syms : list nat) (Q : list X),
    (forall x a, In x Q -> In (step x a) Q) ->
    (forall x y a, ~ In a syms -> step x a = step y a) ->
  forall k, ncls (round eqbX step syms Q (iterT X eqbX step fin syms Q k)) = ncls (iterT X eqbX step fin syms Q k) ->
  forall x y, In x Q -> In y Q ->
    (look eqbX (iterT X eqbX step fin syms Q k) x = look eqbX (iterT X eqbX step fin syms Q k) y
     <-> forall w, fin (xrun X step x w) = fin (xrun X step y w)).
Proof. intros X eqbX He step fin syms Q Hc Hf k Hs x y. exact (stable_is_nerode X eqbX He step fin syms Q Hc Hf k Hs x y). Qed.
Print Assumptions C05_stable_is_nerode.

(* the fuel |Q|+1 suffices on every system (each splitting round adds a class and there are at
   most |Q| classes): the loop always ends, in a table no round splits any further *)
Theorem C05_refine_fuel :
  forall (X : Type) (eqbX : X -> X -> bool), eqb_ok eqbX ->
  forall (step : X -> nat -> X) (fin : X -> bool) (syms : list nat) (Q : list X),
  exists t k, moore eqbX step fin syms Q = Some t /\ t = iterT X eqbX step fin syms Q k /\
              ncls (round eqbX step syms Q t) = ncls t.
Proof. intros X eqbX He step fin syms Q. exact (moore_ok X eqbX He step fin syms Q). Qed.
Print Assumptions C05_refine_fuel.

(* ---- minify ---- *)
Theorem C05_minify_total : forall m, valid_dfa m = true -> exists R, minify m = Ok R.
Proof. exact minify_total. Qed.
Print Assumptions C05_minify_total.

Theorem C05_minify_lang : forall m R, valid_dfa m = true -> minify m = Ok R -> L_dfa R =L L_dfa m.
Proof.
  intros m R Hv E. destruct (minify_inv m R Hv E) as [[_ [_ [Hl _]]] _]. apply lang_same_L. exact Hl.
Qed.
Print Assumptions C05_minify_lang.

Theorem C05_minify_valid : forall m R, valid_dfa m = true -> minify m = Ok R ->
  valid_dfa R = true /\ d_syms R = d_syms m /\ size R <= size m.
Proof.
  intros m R Hv E. destruct (minify_inv m R Hv E) as [[V [S [_ [_ Sz]]]] _]. split; [exact V|]. split; assumption.
Qed.
Print Assumptions C05_minify_valid.

(* ---- the Myhill-Nerode lower bound, for the DFA record: A has all states accessible and
        pairwise distinguishable; then any complete DFA for the same language has at least
        as many states, and any DFA at all has at least as many states as A if no state of
        A is dead ---- *)
Theorem C05_nerode_lower_bound :
  forall A B, valid_dfa A = true -> valid_dfa B = true -> L_dfa B =L L_dfa A ->
    (forall r, In r (d_states A) -> exists u, dfa_run A (Some (d_init A)) u = Some r) ->
    (forall r1 r2, In r1 (d_states A) -> In r2 (d_states A) -> r1 <> r2 ->
        exists w, dfa_acc_from A (Some r1) w <> dfa_acc_from A (Some r2) w) ->
    (complete B -> d_syms B = d_syms A -> size A <= size B) /\
    ((forall r, In r (d_states A) -> exists w, dfa_acc_from A (Some r) w = true) -> size A <= size B).
Proof.
  intros A B HvA HvB Hl Hacc Hdist. split.
  - exact (lower_bound_complete A B HvA HvB Hl Hacc Hdist).
  - exact (lower_bound_live A B HvA HvB Hl Hacc Hdist).
Qed.
Print Assumptions C05_nerode_lower_bound.

(* the result's flag says what kind it is *)
Theorem C05_minify_kind : forall m R, valid_dfa m = true -> minify m = Ok R ->
  (d_partial R = false <-> complete R).
Proof. intros m R Hv E. exact (min_result_kind m R (proj1 (minify_inv m R Hv E))). Qed.
Print Assumptions C05_minify_kind.

Theorem C05_minify_minimal_complete : forall m R, valid_dfa m = true -> minify m = Ok R ->
  complete R -> minimal_complete R.
Proof.
  intros m R Hv E _. destruct (minify_inv m R Hv E) as [[V [_ [_ [St _]]]] _].
  exact (struct_minimal_complete R V St).
Qed.
Print Assumptions C05_minify_minimal_complete.

Theorem C05_minify_minimal_partial : forall m R, valid_dfa m = true -> minify m = Ok R ->
  ~ complete R -> minimal_partial R.
Proof.
  intros m R Hv E Hn. pose proof (proj1 (minify_inv m R Hv E)) as M.
  destruct (d_partial R) eqn:Ep.
  - exact (proj2 (proj2 (min_result_minimal m R M) Ep)).
  - exfalso. apply Hn. exact (proj1 (proj1 (min_result_minimal m R M) Ep)).
Qed.
Print Assumptions C05_minify_minimal_partial.

(* a partial result keeps no dead state *)
Theorem C05_minify_no_dead_state_when_partial : forall m R, valid_dfa m = true -> minify m = Ok R ->
  ~ complete R -> forall q, In q (d_states R) -> ~ dead_state R q.
Proof.
  intros m R Hv E Hn q Hq Hd. pose proof (proj1 (minify_inv m R Hv E)) as M.
  assert (Ep : d_partial R = true).
  { destruct (d_partial R) eqn:Ep; [reflexivity|]. exfalso. apply Hn. apply (min_result_kind m R M). exact Ep. }
  destruct M as [_ [_ [_ [St _]]]]. destruct (ms_live R St Ep q Hq) as [w Hw]. rewrite (Hd w) in Hw. discriminate.
Qed.
Print Assumptions C05_minify_no_dead_state_when_partial.

(* minimising twice keeps the size *)
Theorem C05_minify_idempotent_size : forall m R R', valid_dfa m = true ->
  minify m = Ok R -> minify R = Ok R' -> size R' = size R.
Proof. exact minify_idempotent_size. Qed.
Print Assumptions C05_minify_idempotent_size.

(* retain_names=True: the blocks are the Nerode classes of the kept states *)
Theorem C05_retained_names_are_classes : forall m R P, valid_dfa m = true -> minify_full m = Ok (R, P) ->
  P <> [] ->
  Forall2 (fun B r => In r B) P (d_states R) /\       (* i-th block belongs to the i-th result state *)
  forall B q1, In B P -> In q1 B ->
    forall q2, In q2 B <->
      (kept_state m q2 /\ forall w, dfa_acc_from m (Some q1) w = dfa_acc_from m (Some q2) w).
Proof. exact minify_blocks. Qed.
Print Assumptions C05_retained_names_are_classes.

(* ---- to_partial(minify=True): the same guarantees ---- *)
Theorem C05_to_partial_min : forall m, valid_dfa m = true ->
  exists R, to_partial_min m = Ok R /\ valid_dfa R = true /\ d_syms R = d_syms m /\ L_dfa R =L L_dfa m /\
    (complete R -> minimal_complete R) /\ (~ complete R -> minimal_partial R).
Proof.
  intros m Hv. destruct (to_partial_min_total m Hv) as [R E]. exists R. split; [exact E|].
  pose proof (to_partial_min_inv m R Hv E) as M. destruct M as [V [S [Hl [St Sz]]]].
  split; [exact V|]. split; [exact S|]. split; [apply lang_same_L; exact Hl|]. split.
  - intros _. exact (struct_minimal_complete R V St).
  - intro Hn. destruct (d_partial R) eqn:Ep.
    + exact (struct_minimal_partial R V St Ep).
    + exfalso. apply Hn. exact (complete_when_not_partial R V Ep).
Qed.
Print Assumptions C05_to_partial_min.

(* ---- to_partial(minify=False): valid, partial, same language, and its states are exactly the
        initial state plus the reachable and co-accessible states of the source ---- *)
Theorem C05_to_partial_plain : forall m, valid_dfa m = true ->
  exists P, to_partial_plain m = Ok P /\ valid_dfa P = true /\ d_syms P = d_syms m /\ d_partial P = true /\
    L_dfa P =L L_dfa m /\
    (forall q, In q (d_states P) <-> q = d_init m \/ (reachable m q /\ coaccessible m q)).
Proof.
  intros m Hv. destruct (to_partial_plain_ok m Hv) as [P [E [V [S [Pp [Hl Hs]]]]]]. exists P.
  split; [exact E|]. split; [exact V|]. split; [exact S|]. split; [exact Pp|]. split; [apply lang_same_L; exact Hl|exact Hs].
Qed.
Print Assumptions C05_to_partial_plain.

(* ---- the headline statement (DESIGN appendix A) ---- *)
Theorem C05_minify : forall m, valid_dfa m = true ->
  exists R, minify m = Ok R /\ valid_dfa R = true /\ L_dfa R =L L_dfa m /\
    (complete R -> minimal_complete R) /\ (~ complete R -> minimal_partial R).
Proof.
  intros m Hv. destruct (minify_total m Hv) as [R E]. exists R. split; [exact E|].
  split; [exact (proj1 (C05_minify_valid m R Hv E))|]. split; [exact (C05_minify_lang m R Hv E)|]. split.
  - exact (C05_minify_minimal_complete m R Hv E).
  - exact (C05_minify_minimal_partial m R Hv E).
Qed.
Print Assumptions C05_minify.

(* ---- the mirror model of the refinement as coded (Model/Hopcroft.v): PartitionRefinement, the
        `processing` worklist and its update rule, for EVERY order in which `processing.pop()` may
        return the pending ids (sched) and every iteration order of the symbols (sord) ---- *)

(* on any deterministic system: the loop ends within its fuel |Q|+1 and the partition it ends with
   is Nerode equivalence on the items (it never separates equivalent items and ends stable) *)
Theorem C05_hopcroft_all_schedules :
  forall (X : Type) (eqbX : X -> X -> bool), eqb_ok eqbX ->
  forall (Q : list X), Q <> [] ->
  forall (step : X -> nat -> X) (fin : X -> bool) (syms : list nat),
    (forall x a, In a syms -> In x Q -> In (step x a) Q) ->
    (forall x y a, ~ In a syms -> step x a = step y a) ->
  forall (back : nat -> X -> list X),
    (forall a t x, In a syms -> In t Q -> (In x (back a t) <-> In x Q /\ step x a = t)) ->
  forall (finals : list X), (forall x, In x Q -> (In x finals <-> fin x = true)) ->
  forall (sord : list nat), (forall a, In a sord <-> In a syms) ->
  forall (sched : nat -> list nat -> nat),
  exists Pf, hopcroft eqbX Q back sord sched finals = Some Pf /\
    forall x y, In x Q -> In y Q ->
      (look eqbX (p_tab Pf) x = look eqbX (p_tab Pf) y <-> forall w, fin (xrun X step x w) = fin (xrun X step y w)).
Proof.
  intros X eqbX He Q Hne step fin syms Hc Hf back Hb finals Hfin sord Hs sched.
  destruct (hopcroft_nerode X eqbX He Q Hne step fin syms Hc Hf back Hb finals Hfin sord Hs sched) as [Pf [E [_ H]]].
  exists Pf. split; [exact E|exact H].
Qed.
Print Assumptions C05_hopcroft_all_schedules.

(* _minify with the refinement as coded returns, for every schedule, exactly what the specification
   model returns (automaton with canonical names, and the retained-name partition) *)
Theorem C05_hopcroft_faithful : forall m sched sord, valid_dfa m = true ->
  (forall a, In a sord <-> In a (d_syms m)) ->
  hminify_full m sched sord = minify_full m /\ hto_partial_min_full m sched sord = to_partial_min_full m.
Proof.
  intros m sched sord Hv Hs. split; [apply hminify_full_eq|apply hto_partial_min_full_eq]; assumption.
Qed.
Print Assumptions C05_hopcroft_faithful.

(* the partition of the mirror model itself (the sets without the trap, as the harness compares them
   with the implementation's retained names): non-empty blocks, each exactly a Nerode class of the
   kept states; every kept state with a non-empty residual lies in one.  K = the kept states of
   minify() or of to_partial() *)
Theorem C05_hopcroft_partition : forall m K sched sord, valid_dfa m = true ->
  (kept_minify m = Ok K \/ kept_live m = Ok K) ->
  (forall a, In a sord <-> In a (d_syms m)) ->
  exists Pf, h_hopcroft m K sched sord = Some Pf /\
    (forall B, In B (h_blocks m K Pf) -> B <> [] /\
       forall q1, In q1 B -> forall q2, In q2 B <->
         (In q2 K /\ forall w, dfa_acc_from m (Some q1) w = dfa_acc_from m (Some q2) w)) /\
    (forall q, In q K -> (exists w, dfa_acc_from m (Some q) w = true) -> exists B, In B (h_blocks m K Pf) /\ In q B).
Proof.
  intros m K sched sord Hv HK Hs.
  assert (G : goodK m K) by (destruct HK as [E|E]; [eapply kept_minify_goodK|eapply kept_live_goodK]; eassumption).
  exact (h_blocks_spec m Hv K G sched sord Hs).
Qed.
Print Assumptions C05_hopcroft_partition.

(* _minify entirely as coded (selection, Hopcroft refinement under any schedule, back_map, names =
   positions in get_sets(), representative = any member `rep` picks, rows filtered through back_map,
   empty_language when only the trap's class remains, allow_partial from the row lengths): it never
   fails (no KeyError of back_map[...] / transitions[...], no fuel), and its result is isomorphic to
   the specification model's - a valid record, same alphabet, same language as the source, same number of states as
   the specification model's minimal automaton, minimal among the automata of its own kind *)
Theorem C05_coded_minify : forall m sched sord rep, valid_dfa m = true ->
  (forall a, In a sord <-> In a (d_syms m)) -> (forall l, l <> [] -> In (rep l) l) ->
  exists R P R0, cminify_full m sched sord rep = Ok (R, P) /\ minify m = Ok R0 /\
    valid_dfa R = true /\ d_syms R = d_syms m /\ L_dfa R =L L_dfa m /\ size R = size R0 /\
    (complete R -> minimal_complete R) /\ (~ complete R -> minimal_partial R).
Proof. exact cminify_full_ok. Qed.
Print Assumptions C05_coded_minify.

Theorem C05_coded_to_partial_min : forall m sched sord rep, valid_dfa m = true ->
  (forall a, In a sord <-> In a (d_syms m)) -> (forall l, l <> [] -> In (rep l) l) ->
  exists R P R0, cto_partial_min_full m sched sord rep = Ok (R, P) /\ to_partial_min m = Ok R0 /\
    valid_dfa R = true /\ d_syms R = d_syms m /\ L_dfa R =L L_dfa m /\ size R = size R0 /\
    (complete R -> minimal_complete R) /\ (~ complete R -> minimal_partial R).
Proof. exact cto_partial_min_full_ok. Qed.
Print Assumptions C05_coded_to_partial_min.

(* ---- non-vacuity ---- *)
(* the section-8 reproducer: a kept state has an explicit edge into a dropped (dead) state *)
Example C05_example_dead_edge :
  let m := mkdfa [0;1;2;3] [0;1] [(0,[(0,3);(1,1)]); (1,[(0,3);(1,2)]); (2,[]); (3,[(0,1);(1,3)])] 0 [3] true in
  valid_dfa m = true /\
  minify_full m = Ok (mkdfa [0;1;3] [0;1] [(0,[(0,3);(1,1)]); (1,[(0,3)]); (3,[(0,1);(1,3)])] 0 [3] true,
                      [[0];[1];[3]]) /\
  dfa_acc m [1;1;0] = false.
Proof. vm_compute. repeat split. Qed.

(* merging: two equivalent states, a complete input with a dead state, the empty language *)
Example C05_example_merge :
  let m := mkdfa [0;1;2] [0] [(0,[(0,1)]); (1,[(0,2)]); (2,[(0,1)])] 0 [1;2] false in
  valid_dfa m = true /\ minify_full m = Ok (mkdfa [0;1] [0] [(0,[(0,1)]); (1,[(0,1)])] 0 [1] false, [[0];[1;2]]).
Proof. vm_compute. repeat split. Qed.

Example C05_example_empty :
  let m := mkdfa [0;1] [0] [(0,[(0,1)]); (1,[])] 0 [] true in
  valid_dfa m = true /\ minify_full m = Ok (empty_language [0], []).
Proof. vm_compute. repeat split. Qed.

(* the Hopcroft mirror on the section-8 reproducer, two schedules (oldest pending id first / newest first) and both
   symbol orders: the same partition; _minify as coded: names are positions in get_sets() *)
Example C05_example_hopcroft :
  let m := mkdfa [0;1;2;3] [0;1] [(0,[(0,3);(1,1)]); (1,[(0,3);(1,2)]); (2,[]); (3,[(0,1);(1,3)])] 0 [3] true in
  hminify_full m (fun _ W => hd 0 W) [0;1] = minify_full m /\
  hminify_full m (fun _ W => last W 0) [1;0] = minify_full m /\
  cminify_full m (fun _ W => hd 0 W) [0;1] (fun l => hd 0 l) =
    Ok (mkdfa [1;2;3] [0;1] [(1,[(0,3);(1,1)]); (2,[(0,1);(1,3)]); (3,[(0,1)])] 2 [1] true, [[3];[0];[1]]).
Proof. vm_compute. repeat split. Qed.
