(* C18 - Automata are immutable values: what the constructor stores is deeply immutable and has
   the content it was given; copy() and a pickle round trip reproduce the definition; attribute
   writes and deletes are refused and change nothing.
   PARTIAL by nature: identity/aliasing between Python objects (does an operation write into a
   table it shares with an operand?) is not expressible in a pure model; it is monitored by the
   correspondence harness (harness/props/c18.py parts (b), (c)), not proved. *)
From Coq Require Import List Arith Bool.
From AV Require Import Base.Util Model.Freeze Proofs.Freeze.
Import ListNotations.

(* [wf v]: members of sets and keys of dicts contain no mutable container - what Python's
   hashing enforces for every value that can exist.  Under that hypothesis nothing mutable is
   left anywhere in the frozen value (keys and members included). *)
Theorem C18_freeze_deep_immutable : forall v, wf v = true -> immutable (freeze v) = true.
Proof. exact freeze_deep_immutable. Qed.
Print Assumptions C18_freeze_deep_immutable.

(* freezing only changes container kinds: the content (the tree with every container replaced
   by its immutable kind) is the same; on well-formed values freeze is exactly that conversion *)
Theorem C18_freeze_content : forall v,
  content_eq (freeze v) v /\ (wf v = true -> freeze v = erase v).
Proof. intro v. split; [exact (freeze_content v)|exact (freeze_is_erase v)]. Qed.
Print Assumptions C18_freeze_content.

Theorem C18_freeze_idempotent : forall v,
  freeze (freeze v) = freeze v /\ (immutable v = true -> freeze v = v).
Proof. intro v. split; [exact (freeze_idempotent v)|exact (immutable_freeze_id v)]. Qed.
Print Assumptions C18_freeze_idempotent.

(* the stored definition: same attribute names, every value deeply immutable (default mode) *)
Theorem C18_construct_stores_immutable : forall cls kwargs,
  forallb (fun kv => wf (snd kv)) kwargs = true ->
  let m := construct false cls kwargs in
  o_cls m = cls /\ map fst (input_parameters m) = map fst kwargs /\
  forallb (fun kv => immutable (snd kv)) (input_parameters m) = true /\
  attrs_content (input_parameters m) = attrs_content kwargs.
Proof.
  intros cls kwargs Hw m. split; [reflexivity|]. split; [exact (construct_names false cls kwargs)|].
  split; [exact (construct_default_immutable cls kwargs Hw)|].
  unfold m, attrs_content, construct, input_parameters. simpl. rewrite map_map.
  apply map_ext. intros [n v]. simpl. rewrite freeze_content. reflexivity.
Qed.
Print Assumptions C18_construct_stores_immutable.

(* copy() and pickle: same class, identical definition (under the option setting the automaton
   was built with); under the other setting still the same class and content *)
Theorem C18_roundtrip_identity : forall mm mm' cls kwargs,
  let m := construct mm cls kwargs in
  copy mm m = m /\ pickle_roundtrip mm m = m /\
  o_cls (copy mm' m) = o_cls m /\
  attrs_content (input_parameters (copy mm' m)) = attrs_content (input_parameters m) /\
  pickle_roundtrip mm' m = copy mm' m.
Proof.
  intros mm mm' cls kwargs m. split; [exact (copy_same_mode mm cls kwargs)|].
  split; [exact (copy_same_mode mm cls kwargs)|]. split; [reflexivity|]. split; [|reflexivity].
  destruct (copy_any_mode_content mm mm' cls kwargs) as [_ H]. unfold m. rewrite H.
  destruct (copy_any_mode_content mm mm cls kwargs) as [_ H2].
  rewrite <- H2. rewrite copy_same_mode. reflexivity.
Qed.
Print Assumptions C18_roundtrip_identity.

(* every attribute write / delete raises, and no history of them changes the object *)
Theorem C18_attrs_blocked : forall m cs,
  run_calls m cs = m /\ forall c, snd (do_call m c) = Err AttributeErr /\ fst (do_call m c) = m.
Proof. intros m cs. split; [exact (run_calls_unchanged m cs)|]. intros [n v|n]; split; reflexivity. Qed.
Print Assumptions C18_attrs_blocked.

(* the function as it stands before the repair (tuples not entered) violates deep
   immutability on a push sequence given as a list inside a tuple: ('q1', ['Z']) *)
Example C18_unfixed_freeze_refuted :
  let v := VTuple [VStr 1; VList [VStr 2]] in
  wf v = true /\ immutable (freeze_unfixed v) = false /\ immutable (freeze v) = true /\
  freeze v = VTuple [VStr 1; VTuple [VStr 2]].
Proof. vm_compute. repeat split. Qed.

(* non-vacuity: a DPDA-shaped transition table with dict / set / list / tuple nesting *)
Example C18_freeze_example :
  let v := VDict [(VStr 0, VDict [(VStr 3, VFrozenDict [(VStr 4, VList [VStr 1; VList [VStr 4; VStr 4]])])]);
                  (VTuple [VInt 0; VStr 5], VSet [VTuple [VStr 1; VTuple []]; VNone])] in
  wf v = true /\ immutable v = false /\ immutable (freeze v) = true /\
  freeze v = VFrozenDict [(VStr 0, VFrozenDict [(VStr 3, VFrozenDict [(VStr 4, VTuple [VStr 1; VTuple [VStr 4; VStr 4]])])]);
                          (VTuple [VInt 0; VStr 5], VFrozenSet [VTuple [VStr 1; VTuple []]; VNone])].
Proof. vm_compute. repeat split. Qed.

(* the hypothesis of deep immutability cannot be dropped: a (non-Python) set with a list in it *)
Example C18_wf_needed :
  wf (VFrozenSet [VList []]) = false /\ immutable (freeze (VFrozenSet [VList []])) = false.
Proof. vm_compute. split; reflexivity. Qed.

Example C18_roundtrip_example :
  let kw := [(0, VSet [VStr 0; VStr 1]); (1, VDict [(VStr 0, VTuple [VStr 1; VList [VStr 2]])])] in
  let m := construct false 4 kw in
  copy false m = m /\ input_parameters m <> kw /\ input_parameters (construct true 4 kw) = kw.
Proof. vm_compute. repeat split. discriminate. Qed.
