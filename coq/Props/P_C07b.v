(* C07 (continuation; composition C12 -> C10 -> C07 -> C06) - the round trip
       DFA.from_nfa(NFA.from_regex(GNFA.from_dfa(d).to_regex(), input_symbols=d.input_symbols))
   for EVERY schedule of the state elimination.  The conclusions of C12_dfa_to_regex (the string goes through the
   model of from_regex and the compiled NFA is valid, over d's alphabet, with d's language) are the hypotheses of
   C07_determinize_lang; its conclusions (valid DFA, same alphabet) are the hypotheses of C06_eq_ne. *)
From Coq Require Import List Arith Bool.
From AV Require Import Base.Util Spec.Lang Spec.FA Spec.Regex Model.Decide Model.Product Model.Subset
     Model.GNFAStr Model.RegexParse Model.RegexBuild Proofs.DFAOps Proofs.GNFAStrParse Proofs.RegexCompile
     Props.P_C06 Props.P_C07 Props.P_C10 Props.P_C12.
Import ListNotations.

(* with the source's alphabet handed to from_regex: the determinised automaton is a valid DFA over d's alphabet
   with d's language, and `result == d` is True; the subset construction returns whenever the compiled NFA has at
   most 14 states (beyond, the model's budget is a fixed large number: the statement is "whenever it returns") *)
Theorem C07_dfa_regex_round_trip : forall d sched, valid_dfa d = true -> forallb sym_ok (d_syms d) = true ->
  exists s order, dfa_to_regex d sched = Ok (s, order) /\
    match s with
    | Some st =>
        exists m, compile st (Some (d_syms d)) = Ok m /\ valid_nfa m = true /\
          (length (n_states m) <= 14 -> exists R, determinize_m m = Ok R) /\
          (forall R, determinize_m m = Ok R ->
             valid_dfa R = true /\ d_syms R = d_syms d /\ L_dfa R =L L_dfa d /\ eq_m R d = Ok true)
    | None => forall w, ~ L_dfa d w
    end.
Proof.
  intros d sched Hv Hs. destruct (C12_dfa_to_regex d sched Hv Hs) as [s [order [E H]]].
  exists s, order. split; [exact E|]. destruct s as [st|]; [|exact H].
  destruct H as [r [m [_ [_ [Ec [Vm [Sm Lm]]]]]]].
  exists m. split; [exact Ec|]. split; [exact Vm|]. split; [exact (C07_determinize_total m Vm)|].
  intros R ER. destruct (C07_determinize_lang m R Vm ER) as [VR [SR LR]].
  assert (SRd : d_syms R = d_syms d) by (rewrite SR; exact Sm).
  assert (LRd : L_dfa R =L L_dfa d) by (eapply lang_eq_trans; [exact LR|exact Lm]).
  split; [exact VR|]. split; [exact SRd|]. split; [exact LRd|].
  destruct (C06_eq_ne R d VR Hv (same_syms_refl_eq R d SRd)) as [[b [Eb Hb]] _].
  rewrite Eb. f_equal. apply Hb. exact LRd.
Qed.
Print Assumptions C07_dfa_regex_round_trip.

(* without the alphabet argument (from_regex derives the alphabet from the characters of the string): whenever the
   stages return, the language is still d's.  The alphabet of the result is the set of characters of the string,
   which can be a proper subset of d's alphabet - see the example below, where `result == d` is refused *)
Theorem C07_dfa_regex_round_trip_derived_alphabet : forall d sched s order m R,
  valid_dfa d = true -> forallb sym_ok (d_syms d) = true ->
  dfa_to_regex d sched = Ok (Some s, order) -> compile s None = Ok m -> determinize_m m = Ok R ->
  valid_nfa m = true /\ valid_dfa R = true /\ d_syms R = default_alphabet s /\ L_dfa R =L L_dfa d.
Proof.
  intros d sched st order m R Hv Hs E Ec ER.
  destruct (C12_dfa_to_regex d sched Hv Hs) as [s' [order' [E' H]]].
  rewrite E in E'. injection E' as Es _. subst s'.
  destruct H as [r [_ [Ep [Hden _]]]].
  destruct (C10_from_regex_sound st None m I Ec) as [sigma [r' [Ea [Ep' [Vm [Sm Lm]]]]]].
  rewrite Ep in Ep'. injection Ep' as Er. subst r'. simpl in Ea. injection Ea as Ea.
  destruct (C07_determinize_lang m R Vm ER) as [VR [SR LR]].
  split; [exact Vm|]. split; [exact VR|]. split; [rewrite SR, Sm; symmetry; exact Ea|].
  eapply lang_eq_trans; [exact LR|]. eapply lang_eq_trans; [exact Lm|apply Hden].
Qed.
Print Assumptions C07_dfa_regex_round_trip_derived_alphabet.

(* non-vacuity.  ex_dfa_s of C12 (two states over 'a','b'; "(a|b)(a(a|b)|b)*"): the round trip returns a DFA that
   compares equal to the source.  A DFA over {a, b} that never uses b ("a*" with a trap): with the alphabet argument
   the round trip compares equal; without it the result is over {a} only and == is refused (Mismatch) *)
Definition rt (d : dfa) (alpha : option (list nat)) : res (dfa * res bool) :=
  bind (dfa_to_regex d []) (fun so =>
    match fst so with
    | Some st => bind (compile st alpha) (fun m => bind (determinize_m m) (fun R => Ok (R, eq_m R d)))
    | None => Err Empty
    end).

Example C07_example_round_trip :
  let d := mkdfa [0; 1] [26; 27] [(0, [(26, 1); (27, 1)]); (1, [(26, 0); (27, 1)])] 0 [1] false in
  let e := mkdfa [0; 1] [26; 27] [(0, [(26, 0); (27, 1)]); (1, [(26, 1); (27, 1)])] 0 [0] false in
  valid_dfa d = true /\ forallb sym_ok (d_syms d) = true /\ valid_dfa e = true /\
  match rt d (Some [26; 27]) with Ok (R, b) => (valid_dfa R, d_syms R, b) | Err _ => (false, [], Err Fuel) end
    = (true, [26; 27], Ok true) /\
  fst (match dfa_to_regex e [] with Ok so => so | Err _ => (None, []) end) = Some [26; 7] /\
  match rt e (Some [26; 27]) with Ok (R, b) => (valid_dfa R, d_syms R, b) | Err _ => (false, [], Err Fuel) end
    = (true, [26; 27], Ok true) /\
  match rt e None with Ok (R, b) => (valid_dfa R, d_syms R, b) | Err _ => (false, [], Err Fuel) end
    = (true, [26], Err Mismatch).
Proof. vm_compute. repeat split. Qed.
