(* C08 (continuation; C08 composed with itself) - algebraic laws between the NFA operations, as equalities of the
   languages of the models.  Every operation theorem of C08 concludes with valid_nfa, which is the only hypothesis
   of the next operation (C08_compositions packages the induction); the laws then follow from the textbook
   identities of the language operations (Proofs/Compose.v).  Both sides of a law are evaluated by the models of
   the library methods; none of them can fail. *)
From Coq Require Import List Arith Bool.
From AV Require Import Base.Util Spec.Lang Spec.FA Model.NFAOps Proofs.NFAOps Proofs.Compose Props.P_C08.
Import ListNotations.

(* two compositions of the nine operations over valid operands that denote the same language evaluate (no error)
   to valid NFAs with the same language *)
Theorem C08_equal_compositions : forall e1 e2, nexp_leaves_ok e1 = true -> nexp_leaves_ok e2 = true ->
  nexp_den e1 =L nexp_den e2 ->
  exists R1 R2, nfa_eval e1 = Ok R1 /\ nfa_eval e2 = Ok R2 /\ valid_nfa R1 = true /\ valid_nfa R2 = true /\
    L_nfa R1 =L L_nfa R2 /\ L_nfa R1 =L nexp_den e1.
Proof.
  intros e1 e2 H1 H2 H. destruct (C08_compositions e1 H1) as [R1 [E1 [V1 L1]]].
  destruct (C08_compositions e2 H2) as [R2 [E2 [V2 L2]]].
  exists R1, R2. split; [exact E1|]. split; [exact E2|]. split; [exact V1|]. split; [exact V2|]. split; [|exact L1].
  eapply lang_eq_trans; [exact L1|]. eapply lang_eq_trans; [exact H|apply lang_eq_sym; exact L2].
Qed.
Print Assumptions C08_equal_compositions.

Local Ltac leaves HA HB := simpl; rewrite ?HA, ?HB; reflexivity.

(* a.union(b).reverse() and a.reverse().union(b.reverse()) *)
Theorem C08_reverse_of_union : forall A B, valid_nfa A = true -> valid_nfa B = true ->
  exists R1 R2, bind (nfa_union A B) nfa_reverse = Ok R1 /\
                bind2 (nfa_reverse A) (nfa_reverse B) nfa_union = Ok R2 /\
                valid_nfa R1 = true /\ valid_nfa R2 = true /\ L_nfa R1 =L L_nfa R2 /\
                L_nfa R1 =L l_rev (l_union (L_nfa A) (L_nfa B)).
Proof.
  intros A B HA HB.
  apply (C08_equal_compositions (NReverse (NUnion (NLeaf A) (NLeaf B))) (NUnion (NReverse (NLeaf A)) (NReverse (NLeaf B))));
    [leaves HA HB|leaves HA HB|]. simpl. apply l_rev_union.
Qed.
Print Assumptions C08_reverse_of_union.

(* a.concatenate(b).reverse() and b.reverse().concatenate(a.reverse()) *)
Theorem C08_reverse_of_concatenate : forall A B, valid_nfa A = true -> valid_nfa B = true ->
  exists R1 R2, bind (nfa_concat A B) nfa_reverse = Ok R1 /\
                bind2 (nfa_reverse B) (nfa_reverse A) nfa_concat = Ok R2 /\
                valid_nfa R1 = true /\ valid_nfa R2 = true /\ L_nfa R1 =L L_nfa R2 /\
                L_nfa R1 =L l_rev (l_cat (L_nfa A) (L_nfa B)).
Proof.
  intros A B HA HB.
  apply (C08_equal_compositions (NReverse (NConcat (NLeaf A) (NLeaf B))) (NConcat (NReverse (NLeaf B)) (NReverse (NLeaf A))));
    [leaves HA HB|leaves HA HB|]. simpl. apply l_rev_cat.
Qed.
Print Assumptions C08_reverse_of_concatenate.

(* a.option().kleene_star(), a.kleene_star().kleene_star() and a.kleene_star() *)
Theorem C08_star_absorbs_option_and_star : forall A, valid_nfa A = true ->
  exists S0 S1 S2, nfa_star A = Ok S0 /\ bind (nfa_option A) nfa_star = Ok S1 /\ bind (nfa_star A) nfa_star = Ok S2 /\
    valid_nfa S0 = true /\ valid_nfa S1 = true /\ valid_nfa S2 = true /\
    L_nfa S1 =L L_nfa S0 /\ L_nfa S2 =L L_nfa S0 /\ L_nfa S0 =L l_star (L_nfa A).
Proof.
  intros A HA.
  destruct (C08_equal_compositions (NStar (NOption (NLeaf A))) (NStar (NLeaf A))) as [S1 [S0 [E1 [E0 [V1 [V0 [L10 _]]]]]]];
    [leaves HA HA|leaves HA HA|simpl; apply l_star_opt|].
  destruct (C08_equal_compositions (NStar (NStar (NLeaf A))) (NStar (NLeaf A))) as [S2 [S0' [E2 [E0' [V2 [_ [L20 _]]]]]]];
    [leaves HA HA|leaves HA HA|simpl; apply l_star_star|].
  simpl in E0, E0', E1, E2. rewrite E0 in E0'. injection E0' as E0'. subst S0'.
  destruct (C08_kleene_star A HA) as [S0'' [E0'' [_ L0]]]. rewrite E0 in E0''. injection E0'' as E0''. subst S0''.
  exists S0, S1, S2. repeat (split; [assumption|]). exact L0.
Qed.
Print Assumptions C08_star_absorbs_option_and_star.

(* a.reverse().reverse() has the language of a; a.kleene_star().reverse() that of a.reverse().kleene_star() *)
Theorem C08_reverse_involutive_and_star : forall A, valid_nfa A = true ->
  (exists R, bind (nfa_reverse A) nfa_reverse = Ok R /\ valid_nfa R = true /\ L_nfa R =L L_nfa A) /\
  (exists R1 R2, bind (nfa_star A) nfa_reverse = Ok R1 /\ bind (nfa_reverse A) nfa_star = Ok R2 /\
     valid_nfa R1 = true /\ valid_nfa R2 = true /\ L_nfa R1 =L L_nfa R2).
Proof.
  intros A HA. split.
  - destruct (C08_equal_compositions (NReverse (NReverse (NLeaf A))) (NLeaf A)) as [R [A' [E [EA [V [_ [L _]]]]]]];
      [leaves HA HA|leaves HA HA|simpl; apply l_rev_rev|].
    simpl in EA. injection EA as EA. subst A'. exists R. split; [exact E|]. split; assumption.
  - destruct (C08_equal_compositions (NReverse (NStar (NLeaf A))) (NStar (NReverse (NLeaf A)))) as [R1 [R2 [E1 [E2 [V1 [V2 [L _]]]]]]];
      [leaves HA HA|leaves HA HA|simpl; apply l_rev_star|].
    exists R1, R2. repeat (split; [assumption|]). exact L.
Qed.
Print Assumptions C08_reverse_involutive_and_star.

(* non-vacuity: exA = a+ (with an empty-string move), exC = b-star over another alphabet (both from P_C08.v);
   both sides of each law computed by the models, verdicts on sample words *)
Definition accs (r : res nfa) (ws : list word) : list bool :=
  match r with Ok m => map (Decide.nfa_acc m) ws | Err _ => [] end.

Example C08_example_laws :
  let ws := [[]; [0]; [1]; [0; 1]; [1; 0]; [1; 1; 0; 0]; [0; 0; 1]] in
  accs (bind (nfa_concat exA exC) nfa_reverse) ws = [false; true; false; false; true; true; false] /\
  accs (bind2 (nfa_reverse exC) (nfa_reverse exA) nfa_concat) ws = [false; true; false; false; true; true; false] /\
  accs (bind (nfa_union exA exC) nfa_reverse) ws = accs (bind2 (nfa_reverse exA) (nfa_reverse exC) nfa_union) ws /\
  accs (bind (nfa_union exA exC) nfa_reverse) ws = [true; true; true; false; false; false; false] /\
  accs (bind (nfa_option exA) nfa_star) ws = accs (nfa_star exA) ws /\
  accs (bind (nfa_star exA) nfa_star) ws = accs (nfa_star exA) ws /\
  accs (nfa_star exA) ws = [true; true; false; false; false; false; false].
Proof. vm_compute. repeat split. Qed.
