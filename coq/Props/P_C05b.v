(* C05/C04/C07 - minimising "through the minify option of another operation": the minify=True
   variants of the Boolean operations and of determinisation are the composition of the
   operation with DFA._minify; language and minimality carry over. *)
From Coq Require Import List Arith Bool.
From AV Require Import Base.Util Spec.Lang Spec.FA Spec.Minimal Model.Decide Model.Product Model.Build
     Model.DFAOps Model.Subset Model.Minimize Proofs.DFAOps Proofs.Subset Props.P_C05.
Import ListNotations.

Definition binop_min_m (o : bop) (A B : dfa) : res dfa := bind (binop_m o A B) minify.
Definition determinize_min_m (n : nfa) : res dfa := bind (determinize_m n) minify.

Theorem C05_binop_with_minify : forall o A B,
  valid_dfa A = true -> valid_dfa B = true -> same_syms A B = true ->
  exists R, binop_min_m o A B = Ok R /\ valid_dfa R = true /\
    (forall w, dfa_acc R w = op_bool o (dfa_acc A w) (dfa_acc B w)) /\
    (complete R -> minimal_complete R) /\ (~ complete R -> minimal_partial R).
Proof.
  intros o A B HA HB Hs. destruct (binop_spec A B o HA HB Hs) as [P [EP [VP [_ LP]]]].
  destruct (C05_minify P VP) as [R [ER [VR [LR [M1 M2]]]]].
  exists R. unfold binop_min_m. rewrite EP. simpl. split; [exact ER|]. split; [exact VR|].
  split; [|split; assumption].
  intro w. rewrite <- LP. specialize (LR w). unfold L_dfa in LR.
  destruct (dfa_acc R w), (dfa_acc P w); try reflexivity; exfalso;
    [destruct LR as [H _]; specialize (H eq_refl)|destruct LR as [_ H]; specialize (H eq_refl)]; discriminate.
Qed.
Print Assumptions C05_binop_with_minify.

Theorem C05_determinize_with_minify : forall n P, valid_nfa n = true -> determinize_m n = Ok P ->
  exists R, determinize_min_m n = Ok R /\ valid_dfa R = true /\ L_dfa R =L L_nfa n /\
    (complete R -> minimal_complete R) /\ (~ complete R -> minimal_partial R).
Proof.
  intros n P Hv EP. destruct (determinize_sound n Hv P EP) as [VP [_ [_ LP]]].
  destruct (C05_minify P VP) as [R [ER [VR [LR [M1 M2]]]]].
  exists R. unfold determinize_min_m. rewrite EP. simpl. split; [exact ER|]. split; [exact VR|].
  split; [|split; assumption]. eapply lang_eq_trans; [exact LR|exact LP].
Qed.
Print Assumptions C05_determinize_with_minify.
