(* C06 (continuation; compositions C04 -> C06 and C05 -> C06) - the Boolean algebra of DFA languages as the
   comparison operators see it.  The operation theorems of C04 conclude with "valid DFA over the alphabet of the
   left operand"; that is exactly what the comparison theorems of C06 ask of their operands (valid_dfa, same_syms),
   so the results of | & - ^ ~ and minify() can be compared with == <= isempty(), and the answers are the
   textbook identities.  Laws are stated for operands with same_syms (the same SET of symbols, what the library
   checks); the general identity theorem goes through C04's expression trees, whose leaves carry the same alphabet
   LIST. *)
From Coq Require Import List Arith Bool.
From AV Require Import Base.Util Spec.Lang Spec.FA Spec.Minimal Model.Decide Model.Product Model.Build Model.DFAOps
     Model.Minimize Proofs.Decide Proofs.DFAOps Proofs.DFAOps2 Proofs.Compose
     Props.P_C04 Props.P_C05 Props.P_C06.
Import ListNotations.

(* the step every law ends with: valid operands over the same alphabet with the same verdict on every word
   compare equal (C06_eq_ne read from right to left) *)
Theorem C06_equal_verdicts_compare_equal : forall R1 R2, valid_dfa R1 = true -> valid_dfa R2 = true ->
  same_syms R1 R2 = true -> (forall w, dfa_acc R1 w = dfa_acc R2 w) ->
  eq_m R1 R2 = Ok true /\ ne_m R1 R2 = Ok false.
Proof.
  intros R1 R2 V1 V2 Hs H. destruct (C06_eq_ne R1 R2 V1 V2 Hs) as [[b [Eb Hb]] _].
  assert (b = true) by (apply Hb; apply acc_eq_lang; exact H). subst b.
  split; [exact Eb|]. unfold ne_m. rewrite Eb. reflexivity.
Qed.
Print Assumptions C06_equal_verdicts_compare_equal.

(* EVERY Boolean identity: two expression trees over | & - ^ ~ whose leaves are valid DFAs with the alphabet S and
   whose Boolean semantics agree on the words over S evaluate (never an error) to DFAs that compare equal *)
Theorem C06_boolean_identities : forall S e1 e2, leaves_okc S e1 -> leaves_okc S e2 ->
  (forall w, over S w -> dsem e1 w = dsem e2 w) ->
  exists R1 R2, deval e1 = Ok R1 /\ deval e2 = Ok R2 /\ valid_dfa R1 = true /\ valid_dfa R2 = true /\
    eq_m R1 R2 = Ok true.
Proof.
  intros S e1 e2 H1 H2 H.
  destruct (C04_expr_trees_with_complement S e1 H1) as [R1 [E1 [V1 [S1 [A1 N1]]]]].
  destruct (C04_expr_trees_with_complement S e2 H2) as [R2 [E2 [V2 [S2 [A2 N2]]]]].
  exists R1, R2. split; [exact E1|]. split; [exact E2|]. split; [exact V1|]. split; [exact V2|].
  apply C06_equal_verdicts_compare_equal; [exact V1|exact V2|apply same_syms_eq; rewrite S1, S2; reflexivity|].
  intro w. destruct (over_dec S w) as [Ho|Hn].
  - rewrite (A1 w Ho), (A2 w Ho). apply H. exact Ho.
  - rewrite (N1 w Hn), (N2 w Hn). reflexivity.
Qed.
Print Assumptions C06_boolean_identities.

(* De Morgan, for operands with the same set of symbols (in any order):
   (a | b).complement() == a.complement() & b.complement() and (a & b).complement() == a.complement() | b.complement() *)
Theorem C06_de_morgan : forall A B, valid_dfa A = true -> valid_dfa B = true -> same_syms A B = true ->
  (exists U I, binop_m Union A B = Ok U /\ binop_m Inter (complement_m A) (complement_m B) = Ok I /\
               eq_m (complement_m U) I = Ok true) /\
  (exists I U, binop_m Inter A B = Ok I /\ binop_m Union (complement_m A) (complement_m B) = Ok U /\
               eq_m (complement_m I) U = Ok true).
Proof.
  intros A B HA HB Hs.
  destruct (C04_complement A HA) as [VcA [ScA [AcA NcA]]]. destruct (C04_complement B HB) as [VcB [ScB [AcB NcB]]].
  assert (Hsc : same_syms (complement_m A) (complement_m B) = true) by (rewrite (same_syms_congr A B _ _ ScA ScB); exact Hs).
  assert (Hov := same_syms_over A B Hs).
  split.
  - destruct (C04_binop_exact Union A B HA HB Hs) as [U [EU [VU [SU LU]]]].
    destruct (C04_binop_exact Inter _ _ VcA VcB Hsc) as [I [EI [VI [SI LI]]]].
    destruct (C04_complement U VU) as [VcU [ScU [AcU NcU]]].
    exists U, I. split; [exact EU|]. split; [exact EI|].
    apply C06_equal_verdicts_compare_equal; [exact VcU|exact VI| |].
    + apply same_syms_eq. rewrite ScU, SU, SI, ScA. reflexivity.
    + intro w. rewrite LI. rewrite SU in AcU, NcU. destruct (over_dec (d_syms A) w) as [Ho|Hn].
      * rewrite (AcU w Ho), LU, (AcA w Ho), (AcB w (proj1 (Hov w) Ho)). simpl.
        destruct (dfa_acc A w), (dfa_acc B w); reflexivity.
      * rewrite (NcU w Hn), (NcA w Hn). reflexivity.
  - destruct (C04_binop_exact Inter A B HA HB Hs) as [I [EI [VI [SI LI]]]].
    destruct (C04_binop_exact Union _ _ VcA VcB Hsc) as [U [EU [VU [SU LU]]]].
    destruct (C04_complement I VI) as [VcI [ScI [AcI NcI]]].
    exists I, U. split; [exact EI|]. split; [exact EU|].
    apply C06_equal_verdicts_compare_equal; [exact VcI|exact VU| |].
    + apply same_syms_eq. rewrite ScI, SI, SU, ScA. reflexivity.
    + intro w. rewrite LU. rewrite SI in AcI, NcI. destruct (over_dec (d_syms A) w) as [Ho|Hn].
      * rewrite (AcI w Ho), LI, (AcA w Ho), (AcB w (proj1 (Hov w) Ho)). simpl.
        destruct (dfa_acc A w), (dfa_acc B w); reflexivity.
      * rewrite (NcI w Hn), (NcA w Hn).
        assert (HnB : ~ over (d_syms B) w) by (intro Hb; apply Hn; apply (Hov w); exact Hb).
        rewrite (NcB w HnB). reflexivity.
Qed.
Print Assumptions C06_de_morgan.

(* a - b == a & b.complement() *)
Theorem C06_difference_is_intersection_with_complement : forall A B,
  valid_dfa A = true -> valid_dfa B = true -> same_syms A B = true ->
  exists D I, binop_m Diff A B = Ok D /\ binop_m Inter A (complement_m B) = Ok I /\ eq_m D I = Ok true.
Proof.
  intros A B HA HB Hs. destruct (C04_complement B HB) as [VcB [ScB [AcB NcB]]].
  assert (Hsc : same_syms A (complement_m B) = true) by (rewrite (same_syms_congr A B A _ eq_refl ScB); exact Hs).
  assert (Hov := same_syms_over A B Hs).
  destruct (C04_binop_exact Diff A B HA HB Hs) as [D [ED [VD [SD LD]]]].
  destruct (C04_binop_exact Inter A _ HA VcB Hsc) as [I [EI [VI [SI LI]]]].
  exists D, I. split; [exact ED|]. split; [exact EI|].
  apply C06_equal_verdicts_compare_equal; [exact VD|exact VI|apply same_syms_eq; rewrite SD, SI; reflexivity|].
  intro w. rewrite LD, LI. simpl. destruct (over_dec (d_syms B) w) as [Ho|Hn].
  - rewrite (AcB w Ho). reflexivity.
  - rewrite (NcB w Hn). assert (HnA : ~ over (d_syms A) w) by (intro Ha; apply Hn; apply (Hov w); exact Ha).
    rewrite (not_over_rejects A HA w HnA). reflexivity.
Qed.
Print Assumptions C06_difference_is_intersection_with_complement.

(* a ^ b == (a - b) | (b - a) *)
Theorem C06_symmetric_difference_is_union_of_differences : forall A B,
  valid_dfa A = true -> valid_dfa B = true -> same_syms A B = true ->
  exists X D1 D2 U, binop_m SymDiff A B = Ok X /\ binop_m Diff A B = Ok D1 /\ binop_m Diff B A = Ok D2 /\
    binop_m Union D1 D2 = Ok U /\ eq_m X U = Ok true.
Proof.
  intros A B HA HB Hs. assert (Hs' : same_syms B A = true) by (rewrite Proofs.Product.same_syms_sym; exact Hs).
  destruct (C04_binop_exact SymDiff A B HA HB Hs) as [X [EX [VX [SX LX]]]].
  destruct (C04_binop_exact Diff A B HA HB Hs) as [D1 [E1 [V1 [S1 L1]]]].
  destruct (C04_binop_exact Diff B A HB HA Hs') as [D2 [E2 [V2 [S2 L2]]]].
  assert (Hs12 : same_syms D1 D2 = true) by (rewrite (same_syms_congr A B _ _ S1 S2); exact Hs).
  destruct (C04_binop_exact Union D1 D2 V1 V2 Hs12) as [U [EU [VU [SU LU]]]].
  exists X, D1, D2, U. split; [exact EX|]. split; [exact E1|]. split; [exact E2|]. split; [exact EU|].
  apply C06_equal_verdicts_compare_equal; [exact VX|exact VU|apply same_syms_eq; rewrite SX, SU, S1; reflexivity|].
  intro w. rewrite LX, LU, L1, L2. simpl. destruct (dfa_acc A w), (dfa_acc B w); reflexivity.
Qed.
Print Assumptions C06_symmetric_difference_is_union_of_differences.

(* a <= b is (a - b).isempty(): the two calls return the same boolean; a.isdisjoint(b) is (a & b).isempty() *)
Theorem C06_subset_is_empty_difference : forall A B,
  valid_dfa A = true -> valid_dfa B = true -> same_syms A B = true ->
  (exists D b, binop_m Diff A B = Ok D /\ issubset_m A B = Ok b /\ isempty_m D = Ok b) /\
  (exists I b, binop_m Inter A B = Ok I /\ isdisjoint_m A B = Ok b /\ isempty_m I = Ok b).
Proof.
  intros A B HA HB Hs. split.
  - destruct (C04_binop_exact Diff A B HA HB Hs) as [D [ED [VD [_ LD]]]].
    destruct (C06_subset_superset A B HA HB Hs) as [[b [Eb Hb]] _].
    destruct (C06_isempty D VD) as [b' [Eb' Hb']].
    exists D, b. split; [exact ED|]. split; [exact Eb|]. rewrite Eb'. f_equal.
    apply eq_true_iff_eq. rewrite Hb, Hb'. unfold L_dfa. split.
    + intros H w. specialize (H w). rewrite LD in H. simpl in H. intro Ha.
      destruct (dfa_acc B w); [reflexivity|]. exfalso. apply H. rewrite Ha. reflexivity.
    + intros H w. rewrite LD. simpl. specialize (H w).
      destruct (dfa_acc A w); [rewrite (H eq_refl)|]; simpl; discriminate.
  - destruct (C04_binop_exact Inter A B HA HB Hs) as [I [EI [VI [_ LI]]]].
    destruct (C06_disjoint A B HA HB Hs) as [b [Eb Hb]].
    destruct (C06_isempty I VI) as [b' [Eb' Hb']].
    exists I, b. split; [exact EI|]. split; [exact Eb|]. rewrite Eb'. f_equal.
    apply eq_true_iff_eq. rewrite Hb, Hb'. unfold L_dfa. split.
    + intros H w. specialize (H w). rewrite LI in H. simpl in H. intros [Ha Hbb]. apply H. rewrite Ha, Hbb. reflexivity.
    + intros H w. rewrite LI. simpl. specialize (H w). intro Hab. apply H. apply andb_true_iff. exact Hab.
Qed.
Print Assumptions C06_subset_is_empty_difference.

(* results are operands again, also for the comparisons: the result of any operation tree compares (never an error)
   with any valid DFA over the alphabet, and with the result of any other tree *)
Theorem C06_results_are_comparable : forall S e1 e2, leaves_okc S e1 -> leaves_okc S e2 ->
  exists R1 R2 b c, deval e1 = Ok R1 /\ deval e2 = Ok R2 /\ eq_m R1 R2 = Ok b /\ issubset_m R1 R2 = Ok c /\
    (b = true <-> forall w, over S w -> dsem e1 w = dsem e2 w) /\
    (c = true <-> forall w, over S w -> dsem e1 w = true -> dsem e2 w = true).
Proof.
  intros S e1 e2 H1 H2.
  destruct (C04_expr_trees_with_complement S e1 H1) as [R1 [E1 [V1 [S1 [A1 N1]]]]].
  destruct (C04_expr_trees_with_complement S e2 H2) as [R2 [E2 [V2 [S2 [A2 N2]]]]].
  assert (Hs : same_syms R1 R2 = true) by (apply same_syms_eq; rewrite S1, S2; reflexivity).
  destruct (C06_eq_ne R1 R2 V1 V2 Hs) as [[b [Eb Hb]] _].
  destruct (C06_subset_superset R1 R2 V1 V2 Hs) as [[c [Ec Hc]] _].
  exists R1, R2, b, c. split; [exact E1|]. split; [exact E2|]. split; [exact Eb|]. split; [exact Ec|]. split.
  - rewrite Hb. split.
    + intros HL w Ho. rewrite <- (A1 w Ho), <- (A2 w Ho). apply lang_acc_eq. exact HL.
    + intro H. apply acc_eq_lang. intro w. destruct (over_dec S w) as [Ho|Hn].
      * rewrite (A1 w Ho), (A2 w Ho). apply H. exact Ho.
      * rewrite (N1 w Hn), (N2 w Hn). reflexivity.
  - rewrite Hc. unfold L_dfa. split.
    + intros H w Ho. rewrite <- (A1 w Ho), <- (A2 w Ho). apply H.
    + intros H w Hw. destruct (over_dec S w) as [Ho|Hn].
      * rewrite (A2 w Ho). apply (H w Ho). rewrite <- (A1 w Ho). exact Hw.
      * rewrite (N1 w Hn) in Hw. discriminate.
Qed.
Print Assumptions C06_results_are_comparable.

(* ---- minify under == (C05 -> C06) ---- *)
(* d.minify() == d, for every valid d *)
Theorem C06_minify_compares_equal : forall d, valid_dfa d = true ->
  exists R, minify d = Ok R /\ eq_m R d = Ok true /\ eq_m d R = Ok true.
Proof.
  intros d Hv. destruct (C05_minify d Hv) as [R [ER [VR [LR _]]]].
  destruct (C05_minify_valid d R Hv ER) as [_ [SR _]].
  exists R. split; [exact ER|]. split.
  - apply C06_equal_verdicts_compare_equal; [exact VR|exact Hv|apply same_syms_eq; exact SR|apply lang_acc_eq; exact LR].
  - apply C06_equal_verdicts_compare_equal; [exact Hv|exact VR|apply same_syms_eq; symmetry; exact SR|].
    intro w. symmetry. apply lang_acc_eq. exact LR.
Qed.
Print Assumptions C06_minify_compares_equal.

(* == does not see minimisation: a == b and a.minify() == b.minify() return the same boolean *)
Theorem C06_eq_invariant_under_minify : forall A B, valid_dfa A = true -> valid_dfa B = true -> same_syms A B = true ->
  exists RA RB b, minify A = Ok RA /\ minify B = Ok RB /\ eq_m A B = Ok b /\ eq_m RA RB = Ok b.
Proof.
  intros A B HA HB Hs.
  destruct (C05_minify A HA) as [RA [EA [VA [LA _]]]]. destruct (C05_minify B HB) as [RB [EB [VB [LB _]]]].
  destruct (C05_minify_valid A RA HA EA) as [_ [SA _]]. destruct (C05_minify_valid B RB HB EB) as [_ [SB _]].
  assert (Hs' : same_syms RA RB = true) by (rewrite (same_syms_congr A B _ _ SA SB); exact Hs).
  destruct (C06_eq_ne A B HA HB Hs) as [[b [Eb Hb]] _]. destruct (C06_eq_ne RA RB VA VB Hs') as [[b' [Eb' Hb']] _].
  exists RA, RB, b. split; [exact EA|]. split; [exact EB|]. split; [exact Eb|]. rewrite Eb'. f_equal.
  apply eq_true_iff_eq. rewrite Hb, Hb'. split; intro H.
  - eapply lang_eq_trans; [apply lang_eq_sym; exact LA|]. eapply lang_eq_trans; [exact H|exact LB].
  - eapply lang_eq_trans; [exact LA|]. eapply lang_eq_trans; [exact H|apply lang_eq_sym; exact LB].
Qed.
Print Assumptions C06_eq_invariant_under_minify.

(* ---- non-vacuity ---- *)
(* A: odd number of 0s (partial: no 1-moves);  B: all words (complete), alphabet listed in the other order *)
Definition cxA : dfa := mkdfa [0; 1] [0; 1] [(0, [(0, 1)]); (1, [(0, 0)])] 0 [1] true.
Definition cxB : dfa := mkdfa [0] [1; 0] [(0, [(0, 0); (1, 0)])] 0 [0] false.
Definition ok2 (r : res dfa) (f : dfa -> res bool) : res bool := bind r f.

Example C06_example_boolean_algebra :
  valid_dfa cxA = true /\ valid_dfa cxB = true /\ same_syms cxA cxB = true /\ d_syms cxA <> d_syms cxB /\
  (* De Morgan *)
  ok2 (binop_m Union cxA cxB) (fun U => ok2 (binop_m Inter (complement_m cxA) (complement_m cxB))
        (fun I => eq_m (complement_m U) I)) = Ok true /\
  (* a - b == a & ~b, both ways round *)
  ok2 (binop_m Diff cxB cxA) (fun D => ok2 (binop_m Inter cxB (complement_m cxA)) (fun I => eq_m D I)) = Ok true /\
  (* a ^ b == (a - b) | (b - a) *)
  ok2 (binop_m SymDiff cxA cxB) (fun X => ok2 (binop_m Diff cxA cxB) (fun D1 => ok2 (binop_m Diff cxB cxA)
        (fun D2 => ok2 (binop_m Union D1 D2) (fun U => eq_m X U)))) = Ok true /\
  (* <= and isempty of the difference: both True for A <= B, both False for B <= A *)
  issubset_m cxA cxB = Ok true /\ ok2 (binop_m Diff cxA cxB) isempty_m = Ok true /\
  issubset_m cxB cxA = Ok false /\ ok2 (binop_m Diff cxB cxA) isempty_m = Ok false /\
  (* the identity theorem is not vacuous either: a law that is not an identity compares unequal *)
  ok2 (binop_m Diff cxA cxB) (fun D => ok2 (binop_m Diff cxB cxA) (fun D' => eq_m D D')) = Ok false.
Proof. vm_compute. repeat split. discriminate. Qed.

(* three equivalent states on a cycle and an unreachable one: minify gives 1 state and == sees no difference *)
Example C06_example_minify :
  let d := mkdfa [0; 1; 2; 3] [0] [(0, [(0, 1)]); (1, [(0, 2)]); (2, [(0, 0)]); (3, [(0, 3)])] 0 [0; 1; 2] false in
  valid_dfa d = true /\
  match minify d with Ok R => (size R, eq_m R d, eq_m d R) | Err _ => (0, Err Fuel, Err Fuel) end = (1, Ok true, Ok true).
Proof. vm_compute. repeat split. Qed.
