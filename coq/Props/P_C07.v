(* C07 - NFA/DFA conversions and epsilon-elimination preserve the language.
   The mirror model of _eliminate_lambda and its lemmas (ops_elim_...) live with the NFA operations
   (Model/NFAOps.v, Proofs/NFAOps.v) because the quotient constructions of C08 are built on it. *)
From Coq Require Import List Arith Bool.
From AV Require Import Base.Util Spec.Lang Spec.FA Model.Decide Model.Product Model.Build Model.Subset
     Model.NFAOps Proofs.Decide Proofs.Subset Proofs.NFAOps Proofs.ElimReach.
Import ListNotations.

(* whenever the subset construction returns (always, for NFAs of up to 14 states - beyond that the
   model's exploration budget is a fixed large number), the result is a valid DFA over the same
   alphabet that accepts exactly the NFA's language *)
Theorem C07_determinize_lang : forall m R, valid_nfa m = true -> determinize_m m = Ok R ->
  valid_dfa R = true /\ d_syms R = n_syms m /\ L_dfa R =L L_nfa m.
Proof.
  intros m R Hv E. destruct (determinize_sound m Hv R E) as [H1 [H2 [_ H3]]]. repeat split; assumption || apply H3.
Qed.
Print Assumptions C07_determinize_lang.

Theorem C07_determinize_total : forall m, valid_nfa m = true -> length (n_states m) <= 14 ->
  exists R, determinize_m m = Ok R.
Proof. exact determinize_total. Qed.
Print Assumptions C07_determinize_total.

Theorem C07_from_dfa : forall d, valid_dfa d = true ->
  valid_nfa (from_dfa_m d) = true /\ L_nfa (from_dfa_m d) =L L_dfa d.
Proof. intros d Hv. split; [exact (from_dfa_valid d Hv)|exact (from_dfa_lang d)]. Qed.
Print Assumptions C07_from_dfa.

(* eliminate_lambda: total on valid NFAs, the result is valid, has exactly the same language, no
   empty-string transition left, and no state unreachable from its initial state (every state of the
   result is the end of a path from the initial state: the model's reachability pruning keeps exactly
   such states) *)
Theorem C07_eliminate_lambda : forall A, valid_nfa A = true ->
  exists R, nfa_eliminate_lambda A = Ok R /\ valid_nfa R = true /\ L_nfa R =L L_nfa A /\
            (forall p q, ~ n_edge R p None q) /\
            (forall q, In q (n_states R) -> exists w, nfa_path R (n_init R) w q).
Proof.
  intros A HA. destruct (ops_elim_total A HA) as [R [E V]].
  exists R. split; [exact E|]. split; [exact V|].
  destruct (ops_elim_lang A HA R E) as [HL HN]. split; [exact HL|]. split; [exact HN|].
  exact (ops_elim_reachable A R HA E).
Qed.
Print Assumptions C07_eliminate_lambda.

(* the two flags the harness computes (extracted) on the IMPLEMENTATION's result mean what they say:
   has_eps_key m = false iff no transition row of m has the empty string as a key;
   all_reachable m = Ok true iff every state of m is graph-reachable from the initial state
   (graph_reach = reflexive-transitive closure of "is listed as a target in the row of");
   graph reachability contains word reachability, and equals it when no row lists a key twice
   (a Python dict never does) *)
Theorem C07_flags_exact : forall m,
  (has_eps_key m = false <->
     forall q row a l, In (q, row) (n_trans m) -> In (a, l) row -> a <> None) /\
  (valid_nfa m = true ->
     (all_reachable m = Ok true <-> forall q, In q (n_states m) -> graph_reach m q)) /\
  (forall q w, nfa_path m (n_init m) w q -> graph_reach m q) /\
  (row_keys_unique m -> forall q, graph_reach m q -> exists w, nfa_path m (n_init m) w q).
Proof.
  intro m. split; [apply has_eps_key_false|]. split; [apply all_reachable_true|].
  split; [intros q w; apply path_graph_reach|intros Hu q; apply graph_reach_path; exact Hu].
Qed.
Print Assumptions C07_flags_exact.

(* the comparators used to judge the implementation's results are exact *)
Theorem C07_comparators_exact :
  (forall A B r, valid_nfa A = true -> valid_dfa B = true -> nfa_dfa_diff A B = Ok r ->
     (r = None <-> L_nfa A =L L_dfa B)) /\
  (forall A B r, valid_nfa A = true -> valid_nfa B = true -> nfa_diff A B = Ok r ->
     (r = None <-> L_nfa A =L L_nfa B)).
Proof.
  split.
  - intros A B r HA HB E. exact (proj1 (nfa_dfa_diff_sound A B HA HB r E)).
  - intros A B r HA HB E. exact (proj1 (nfa_diff_sound A B HA HB r E)).
Qed.
Print Assumptions C07_comparators_exact.

Example C07_example :
  let n := mknfa [0;1;2] [0;1] [(0,[(None,[1]);(Some 0,[0])]);(1,[(Some 1,[2]);(None,[0])])] 0 [2] in
  valid_nfa n = true /\
  match determinize_m n with Ok R => (valid_dfa R, map (dfa_acc R) [[1]; [0;0;1]; [1;1]; []]) | Err _ => (false, []) end
    = (true, [true; true; false; false]).
Proof. vm_compute. repeat split. Qed.

(* the flags on an automaton with an empty-string key and an unreachable state, and on the model's
   result for it *)
Example C07_example_flags :
  let n := mknfa [0;1;2] [0] [(0,[(Some 0,[1]);(None,[1])]);(2,[(None,[0])])] 0 [1] in
  valid_nfa n = true /\ has_eps_key n = true /\ all_reachable n = Ok false /\
  match nfa_eliminate_lambda n with
  | Ok R => (has_eps_key R, all_reachable R, length (n_states R))
  | Err _ => (true, Err Fuel, 0)
  end = (false, Ok true, 2).
Proof. vm_compute. repeat split. Qed.
