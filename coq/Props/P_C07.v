(* C07 - NFA/DFA conversions and epsilon-elimination preserve the language.
   The mirror model of _eliminate_lambda and its lemmas (ops_elim_...) live with the NFA operations
   (Model/NFAOps.v, Proofs/NFAOps.v) because the quotient constructions of C08 are built on it. *)
From Coq Require Import List Arith Bool.
From AV Require Import Base.Util Spec.Lang Spec.FA Model.Decide Model.Product Model.Build Model.Subset
     Model.NFAOps Proofs.Decide Proofs.Subset Proofs.NFAOps.
Import ListNotations.

(* whenever the subset construction returns (always, for NFAs of up to 14 states - beyond that the
   model's exploration budget is a fixed large number), the result is a valid DFA over the same
   alphabet that accepts exactly the NFA's language *)
Theorem C07_determinize_lang : forall m R, valid_nfa m = true -> determinize_m m = Ok R ->
  valid_dfa R = true /\ d_syms R = n_syms m /\ L_dfa R =L L_nfa m.
Proof.
  intros m R Hv E. destruct (determinize_sound m Hv R E) as [H1 [H2 [_ H3]]]. repeat split; assumption || apply H3.
Qed.
Print Assumptions C07_determinize_lang.

Theorem C07_determinize_total : forall m, valid_nfa m = true -> length (n_states m) <= 14 ->
  exists R, determinize_m m = Ok R.
Proof. exact determinize_total. Qed.
Print Assumptions C07_determinize_total.

Theorem C07_from_dfa : forall d, valid_dfa d = true ->
  valid_nfa (from_dfa_m d) = true /\ L_nfa (from_dfa_m d) =L L_dfa d.
Proof. intros d Hv. split; [exact (from_dfa_valid d Hv)|exact (from_dfa_lang d)]. Qed.
Print Assumptions C07_from_dfa.

(* eliminate_lambda: total on valid NFAs, the result is valid, has exactly the same language and no
   empty-string transition left (that every state of the result is reachable is checked on the
   implementation's result by the extracted all_reachable on every run; it is not part of this theorem) *)
Theorem C07_eliminate_lambda : forall A, valid_nfa A = true ->
  exists R, nfa_eliminate_lambda A = Ok R /\ valid_nfa R = true /\ L_nfa R =L L_nfa A /\
            (forall p q, ~ n_edge R p None q).
Proof.
  intros A HA. destruct (ops_elim_total A HA) as [R [E V]].
  exists R. split; [exact E|]. split; [exact V|]. apply (ops_elim_lang A HA R E).
Qed.
Print Assumptions C07_eliminate_lambda.

(* the comparators used to judge the implementation's results are exact *)
Theorem C07_comparators_exact :
  (forall A B r, valid_nfa A = true -> valid_dfa B = true -> nfa_dfa_diff A B = Ok r ->
     (r = None <-> L_nfa A =L L_dfa B)) /\
  (forall A B r, valid_nfa A = true -> valid_nfa B = true -> nfa_diff A B = Ok r ->
     (r = None <-> L_nfa A =L L_nfa B)).
Proof.
  split.
  - intros A B r HA HB E. exact (proj1 (nfa_dfa_diff_sound A B HA HB r E)).
  - intros A B r HA HB E. exact (proj1 (nfa_diff_sound A B HA HB r E)).
Qed.
Print Assumptions C07_comparators_exact.

Example C07_example :
  let n := mknfa [0;1;2] [0;1] [(0,[(None,[1]);(Some 0,[0])]);(1,[(Some 1,[2]);(None,[0])])] 0 [2] in
  valid_nfa n = true /\
  match determinize_m n with Ok R => (valid_dfa R, map (dfa_acc R) [[1]; [0;0;1]; [1;1]; []]) | Err _ => (false, []) end
    = (true, [true; true; false; false]).
Proof. vm_compute. repeat split. Qed.
