(* C15 - the language constructors of DFA build exactly the specified language.
   Every theorem: for ALL alphabets (duplicate-free symbol lists), ALL parameters, both values of
   every flag, and ALL words over ALL symbols (a word containing a symbol outside the alphabet is
   rejected: `promised syms c P w` = w is over syms and satisfies P, resp. not P when c = false). *)
From Coq Require Import List Arith Bool.
From AV Require Import Base.Util Spec.Lang Spec.FA Spec.Minimal Spec.Preds Model.Decide Model.Product Model.Construct
                       Model.KMP Model.AhoCorasick Model.FiniteLang
                       Proofs.Preds Proofs.Border Proofs.Construct Proofs.IsMinimal Proofs.CtorMinimal Proofs.KMP Proofs.ACLang
                       Proofs.FLLang Proofs.FLMin.
Import ListNotations.

(* ---- from_prefix: contains / complement, partial / complete ---- *)
Theorem C15_from_prefix_lang : forall syms p contains as_partial,
  L_dfa (from_prefix_m syms p contains as_partial) =L promised syms contains (has_prefix p).
Proof.
  intros syms p c ap. apply (promised_lang _ syms c (has_prefix p) (prefixb p)).
  - intro w. apply prefixb_spec.
  - intro w. apply from_prefix_acc.
Qed.
Print Assumptions C15_from_prefix_lang.

Theorem C15_from_prefix_valid : forall syms p contains as_partial,
  NoDup syms -> word_over syms p -> valid_dfa (from_prefix_m syms p contains as_partial) = true.
Proof. intros syms p c ap Hnd Hp. apply from_prefix_valid; [exact Hnd|apply overb_spec; exact Hp]. Qed.
Print Assumptions C15_from_prefix_valid.

(* ---- from_subsequence ---- *)
Theorem C15_from_subsequence_lang : forall syms p contains,
  L_dfa (from_subsequence_m syms p contains) =L promised syms contains (subseq p).
Proof.
  intros syms p c. apply (promised_lang _ syms c (subseq p) (subseqb p)).
  - intro w. apply subseqb_spec.
  - intro w. apply from_subsequence_acc.
Qed.
Print Assumptions C15_from_subsequence_lang.

Theorem C15_from_subsequence_valid : forall syms p contains,
  NoDup syms -> valid_dfa (from_subsequence_m syms p contains) = true.
Proof. intros syms p c Hnd. apply from_subsequence_valid. exact Hnd. Qed.
Print Assumptions C15_from_subsequence_valid.

(* ---- from_substring / from_suffix: specification model (state = longest prefix of the pattern
        that is a suffix of the text read, by definition - no failure table); empty pattern included
        (universal, resp. empty language) ---- *)
Theorem C15_from_substring_lang : forall syms p contains,
  L_dfa (from_substring_m syms p contains false) =L promised syms contains (contains_substring p).
Proof.
  intros syms p c. apply (promised_lang _ syms c (contains_substring p) (substringb p)).
  - intro w. apply substringb_spec.
  - intro w. apply (from_substring_acc syms p c false).
Qed.
Print Assumptions C15_from_substring_lang.

Theorem C15_from_suffix_lang : forall syms p contains,
  L_dfa (from_suffix_m syms p contains) =L promised syms contains (has_suffix p) /\
  from_substring_m syms p contains true = from_suffix_m syms p contains.
Proof.
  intros syms p c. split; [|reflexivity]. apply (promised_lang _ syms c (has_suffix p) (suffixb p)).
  - intro w. apply suffixb_spec.
  - intro w. apply (from_substring_acc syms p c true).
Qed.
Print Assumptions C15_from_suffix_lang.

Theorem C15_from_substring_valid : forall syms p contains must_be_suffix,
  NoDup syms -> valid_dfa (from_substring_m syms p contains must_be_suffix) = true.
Proof. intros syms p c ms Hnd. apply from_substring_valid. exact Hnd. Qed.
Print Assumptions C15_from_substring_valid.

(* the step lemma behind it: the next state depends only on the current state and the symbol *)
Theorem C15_longest_border_step : forall p t a,
  lps p (t ++ [a]) = lps p (firstn (lps p t) p ++ [a]) /\
  (lps p t <= length p /\ has_suffix (firstn (lps p t) p) t) /\
  (forall k, k <= length p -> has_suffix (firstn k p) t -> k <= lps p t).
Proof.
  intros p t a. split; [apply lps_step|]. split; [exact (lps_bord p t)|].
  intros k Hk Hs. apply lps_max. split; assumption.
Qed.
Print Assumptions C15_longest_border_step.

(* ---- the mirror model of the code of from_substring / from_suffix (Model/KMP.v: the Knuth-Morris-Pratt
        failure table with its `kmp_table[i] = kmp_table[candidate]` shortcut, the candidate walk per state and
        symbol, `limit`, the walked row of the full-match state when must_be_suffix) never raises, never runs
        out of fuel, and returns EXACTLY the specification model: same states, same transition table row by
        row, same final states - for every alphabet, every pattern (the empty one included), both flags ---- *)
Theorem C15_kmp_faithful : forall syms p contains must_be_suffix,
  kmp_dfa syms p contains must_be_suffix = Ok (from_substring_m syms p contains must_be_suffix).
Proof. exact kmp_dfa_faithful. Qed.
Print Assumptions C15_kmp_faithful.

(* what the table holds: entry c < |p| is the strong failure link of position c - the longest proper border k
   of p[0..c) with p[k] <> p[c], -1 (None) if there is none; the appended entry |p| is the longest proper
   border of p *)
Theorem C15_kmp_table_spec : forall p, p <> [] ->
  exists T, kmp_table p = Ok (T ++ [Some (pb p (length p))]) /\ length T = length p /\
    (forall c, c < length p -> exists r, nth_error T c = Some r /\
       (forall k, r = Some k -> pbord p c k /\ nth_error p k <> nth_error p c) /\
       (forall k, pbord p c k -> nth_error p k <> nth_error p c -> exists k', r = Some k' /\ k <= k')) /\
    pbord p (length p) (pb p (length p)) /\
    (forall k, pbord p (length p) k -> k <= pb p (length p)).
Proof.
  intros p Hne. assert (Hn : 1 <= length p) by (destruct p; [congruence|simpl; apply le_n_S, Nat.le_0_l]).
  destruct (kmp_table_ok p Hn) as [T [E [HL HT]]]. exists T. split; [exact E|]. split; [exact HL|]. split.
  - intros c Hc. destruct (HT c Hc) as [r [Er [S1 S2]]]. exists r. split; [exact Er|]. split; assumption.
  - split; [apply pb_pbord; [exact Hn|apply le_n]|]. intros k Hk. apply pb_max; [exact Hn|apply le_n|exact Hk].
Qed.
Print Assumptions C15_kmp_table_spec.

(* ---- from_substrings: the mirror model of the Aho-Corasick construction (Model/AhoCorasick.v: trie with labels
        in insertion order, breadth-first failure links, output inheritance along failure links, the goto
        completion loop, the absorbing end state when not must_be_suffix, the early return for the empty pattern).
        The patterns are a LIST (the iteration order of the Python set is a schedule); every theorem is for ALL
        lists, so the language does not depend on the order (C15_from_substrings_order_independent).
        The model never raises / never runs out of fuel, its result is a valid DFA, and it accepts exactly the
        words over the alphabet that end with (must_be_suffix) / contain a pattern, or the complement. ---- *)
Theorem C15_from_substrings_suffix_lang : forall syms pats contains, NoDup syms ->
  exists m, ac_dfa syms pats contains true = Ok m /\ valid_dfa m = true /\
            L_dfa m =L promised syms contains (ends_with_any pats).
Proof.
  intros syms pats c Hnd. destruct (ac_dfa_suffix_correct syms pats c Hnd) as [m [E [V A]]].
  exists m. split; [exact E|]. split; [exact V|].
  apply (promised_lang _ syms c (ends_with_any pats) (anysufb pats)); [intro w; apply anysufb_spec|exact A].
Qed.
Print Assumptions C15_from_substrings_suffix_lang.

(* "contains one of the patterns": likewise for ALL pattern lists, symbols outside the alphabet included (the end state
   is labelled with the number of trie nodes, as the repaired code does: end_state = len(labels)) *)
Theorem C15_from_substrings_lang : forall syms pats contains, NoDup syms ->
  exists m, ac_dfa syms pats contains false = Ok m /\ valid_dfa m = true /\
            L_dfa m =L promised syms contains (contains_any pats).
Proof.
  intros syms pats c Hnd. destruct (ac_dfa_substring_correct syms pats c Hnd) as [m [E [V A]]].
  exists m. split; [exact E|]. split; [exact V|].
  apply (promised_lang _ syms c (contains_any pats) (anysubb pats)); [intro w; apply anysubb_spec|exact A].
Qed.
Print Assumptions C15_from_substrings_lang.

(* the iteration order of the pattern set (and repetitions) cannot be observed in the language *)
Theorem C15_from_substrings_order_independent : forall syms pats pats' contains ms, NoDup syms ->
  (forall p, In p pats <-> In p pats') ->
  exists m m', ac_dfa syms pats contains ms = Ok m /\ ac_dfa syms pats' contains ms = Ok m' /\ L_dfa m =L L_dfa m'.
Proof.
  intros syms pats pats' c ms Hnd Hsame.
  destruct ms.
  - destruct (C15_from_substrings_suffix_lang syms pats c Hnd) as [m [E [_ L]]].
    destruct (C15_from_substrings_suffix_lang syms pats' c Hnd) as [m' [E' [_ L']]].
    exists m, m'. split; [exact E|]. split; [exact E'|]. intro w. rewrite (L w), (L' w). unfold promised, ends_with_any.
    assert (H : (exists p, In p pats /\ has_suffix p w) <-> (exists p, In p pats' /\ has_suffix p w)).
    { split; intros [p [Hp Hs]]; exists p; (split; [apply Hsame; exact Hp|exact Hs]). }
    destruct c; simpl; rewrite H; reflexivity.
  - destruct (C15_from_substrings_lang syms pats c Hnd) as [m [E [_ L]]].
    destruct (C15_from_substrings_lang syms pats' c Hnd) as [m' [E' [_ L']]].
    exists m, m'. split; [exact E|]. split; [exact E'|]. intro w. rewrite (L w), (L' w). unfold promised, contains_any.
    assert (H : (exists p, In p pats /\ contains_substring p w) <-> (exists p, In p pats' /\ contains_substring p w)).
    { split; intros [p [Hp Hs]]; exists p; (split; [apply Hsame; exact Hp|exact Hs]). }
    destruct c; simpl; rewrite H; reflexivity.
Qed.
Print Assumptions C15_from_substrings_order_independent.

(* the trie / failure-link phase on its own: never fails, and its result satisfies the classical specification
   (string of a node = path from the root; fail = node of the longest proper suffix in the trie, None for the
   root; out non-empty iff a pattern is a suffix of the node's string) *)
Theorem C15_aho_corasick_links : forall pats, (forall p, In p pats -> p <> []) ->
  exists N, ac_trie pats = Ok N /\ ac_spec N pats.
Proof. exact ac_trie_ok. Qed.
Print Assumptions C15_aho_corasick_links.

(* the input on which the code was wrong before the repair `end_state = len(labels)` (fix commit ae299fb): alphabet {0},
   patterns 11 and 00 in this order - the nodes of 1 and 11 are never visited by the goto loop, len(transitions) = 3 was
   the label of the node of 0.  Now the end state is 5 and the word 0 is rejected, 00 accepted. *)
Example C15_from_substrings_foreign_symbol :
  ac_dfa [0] [[1;1];[0;0]] true false =
    Ok (mkdfa [0;3;4;5] [0] [(0,[(0,3)]); (3,[(0,4)]); (4,[(0,5)]); (5,[(0,5)])] 0 [4;5] false) /\
  (exists m, ac_dfa [0] [[1;1];[0;0]] true false = Ok m /\ dfa_acc m [0] = false /\ dfa_acc m [0;0] = true /\
             dfa_acc m [0;0;0] = true /\ anysubb [[1;1];[0;0]] [0] = false).
Proof. vm_compute. split; [reflexivity|]. eexists. repeat split. Qed.

(* ---- from_finite_language: the mirror model of the incremental construction of Mihov and Schulz (Model/FiniteLang.v:
        the four tables `transitions`, `back_map`, `final_states`, `signatures_dict` updated as the code updates them,
        `add_to_trie`, `compress` from the longest prefix down to the common prefix with the next word of
        `sorted(language)`, the redirection of the parents' edges to the registered state with the same signature, the
        final `compress(prev_word, "")`, the renaming of the surviving prefixes to numbers, `validate()`, and
        `_to_complete` for as_partial=False).  The language is a LIST of words in any order (the Python set); for every
        duplicate-free list of words over the alphabet and both values of as_partial the model never raises, its result
        is a valid DFA over the alphabet, partial / complete as requested, and accepts exactly the listed words; the
        empty language gives `empty_language`. ---- *)
Theorem C15_from_finite_language_lang : forall syms lang as_partial,
  NoDup syms -> NoDup lang -> (forall w, In w lang -> word_over syms w) ->
  exists m, fl_dfa syms lang as_partial = Ok m /\ valid_dfa m = true /\ d_syms m = syms /\
            L_dfa m =L member_of lang /\
            (lang = [] -> m = empty_m syms) /\
            (lang <> [] -> d_partial m = as_partial /\ (as_partial = false -> complete m)).
Proof.
  intros syms lang ap Hs Hl Ho. destruct (fl_dfa_correct syms lang ap Hs Hl Ho) as [m (E & Hv & Hsy & Hacc & He & Hp)].
  exists m. split; [exact E|]. split; [exact Hv|]. split; [exact Hsy|]. split; [exact Hacc|]. split; assumption.
Qed.
Print Assumptions C15_from_finite_language_lang.

(* the language { 01, 001, 1, 11, "" } over {0,1}: the states are the prefixes "", 0, 00, 001, 1 (001 also stands for 01 and
   11, which were merged into it); complete form with the trap state 5; a word with a symbol outside the alphabet is
   refused by validate() with InvalidSymbolError *)
Example C15_example_finite_language :
  fl_dfa [0;1] [[0;1];[0;0;1];[1];[1;1];[]] true =
    Ok (mkdfa [0;1;2;3;4] [0;1] [(0,[(0,1);(1,4)]); (1,[(0,2);(1,3)]); (2,[(1,3)]); (3,[]); (4,[(1,3)])] 0 [0;3;4] true) /\
  fl_state_names [[0;1];[0;0;1];[1];[1;1];[]] = Ok [[]; [0]; [0;0]; [0;0;1]; [1]] /\
  (exists m, fl_dfa [0;1] [[0;1];[0;0;1];[1];[1;1];[]] false = Ok m /\ size m = 6 /\ d_partial m = false /\
             dfa_acc m [1;1] = true /\ dfa_acc m [0;0] = false /\ dfa_acc m [0;0;1;1] = false) /\
  fl_dfa [0] [[1];[0]] true = Err (Invalid 2) /\
  fl_dfa [0;1] [] false = Ok (empty_m [0;1]).
Proof. vm_compute. split; [reflexivity|]. split; [reflexivity|]. split; [eexists; repeat split|]. split; reflexivity. Qed.

(* ---- of_length: counted symbols (all symbols when symbols_to_count is None) in [lo, hi] ---- *)
Theorem C15_of_length_lang : forall syms lo hi cnt,
  L_dfa (of_length_m syms lo hi cnt) =L
  promised syms true (length_in_range (counted_set syms cnt) lo hi).
Proof.
  intros syms lo hi cnt. apply (promised_lang _ syms true _ (rangeb (counted_set syms cnt) lo hi)).
  - intro w. apply rangeb_spec.
  - intro w. apply of_length_acc.
Qed.
Print Assumptions C15_of_length_lang.

Theorem C15_of_length_valid : forall syms lo hi cnt, NoDup syms -> valid_dfa (of_length_m syms lo hi cnt) = true.
Proof. intros. apply of_length_valid. assumption. Qed.
Print Assumptions C15_of_length_valid.

(* ---- count_mod: refused for k = 0; otherwise (remainders below k) a valid DFA for
        "number of counted symbols mod k is in the remainder set (default {0})" ---- *)
Theorem C15_count_mod : forall syms k rems cnt, NoDup syms ->
  (k = 0 -> count_mod_m syms k rems cnt = Err ValueErr) /\
  (0 < k -> forallb (fun r => Nat.ltb r k) (rem_set rems) = true ->
     exists m, count_mod_m syms k rems cnt = Ok m) /\
  (forall m, count_mod_m syms k rems cnt = Ok m ->
     valid_dfa m = true /\
     L_dfa m =L promised syms true (count_mod_in (counted_set syms cnt) k (rem_set rems))).
Proof.
  intros syms k rems cnt Hnd. split; [|split].
  - intros ->. apply count_mod_refuses.
  - intros Hk Hr. apply count_mod_ok; assumption.
  - intros m Hm. split; [eapply count_mod_valid; eassumption|].
    apply (promised_lang _ syms true _ (modb (counted_set syms cnt) k (rem_set rems))).
    + intro w. apply modb_spec.
    + intro w. eapply count_mod_acc. exact Hm.
Qed.
Print Assumptions C15_count_mod.

(* ---- nth_from_start (incl. the one-symbol alphabet, which delegates to of_length) ---- *)
Theorem C15_nth_from_start : forall syms s n, NoDup syms ->
  (n = 0 -> nth_from_start_m syms s n = Err ValueErr) /\
  (0 < n -> ~ In s syms -> nth_from_start_m syms s n = Err (Invalid 2)) /\
  (0 < n -> In s syms -> exists m, nth_from_start_m syms s n = Ok m) /\
  (forall m, nth_from_start_m syms s n = Ok m ->
     valid_dfa m = true /\ L_dfa m =L promised syms true (nth_from_start_is s n)).
Proof.
  intros syms s n Hnd. split; [|split; [|split]].
  - apply nth_guard_refuses.
  - apply nth_guard_refuses.
  - apply nth_guard_ok.
  - intros m Hm. split; [eapply nth_from_start_valid; eassumption|].
    apply (promised_lang _ syms true _ (nth_startb s n)).
    + intro w. apply nth_startb_spec.
    + intro w. eapply nth_from_start_acc. exact Hm.
Qed.
Print Assumptions C15_nth_from_start.

(* ---- nth_from_end: the 2^n-state shift register (and of_length for a one-symbol alphabet) ---- *)
Theorem C15_nth_from_end : forall syms s n, NoDup syms ->
  (n = 0 -> nth_from_end_m syms s n = Err ValueErr) /\
  (0 < n -> ~ In s syms -> nth_from_end_m syms s n = Err (Invalid 2)) /\
  (0 < n -> In s syms -> exists m, nth_from_end_m syms s n = Ok m) /\
  (forall m, nth_from_end_m syms s n = Ok m ->
     valid_dfa m = true /\ L_dfa m =L promised syms true (nth_from_end_is s n)).
Proof.
  intros syms s n Hnd. split; [|split; [|split]].
  - apply nth_guard_refuses.
  - apply nth_guard_refuses.
  - apply nth_guard_ok.
  - intros m Hm. split; [eapply nth_from_end_valid; eassumption|].
    apply (promised_lang _ syms true _ (nth_endb s n)).
    + intro w. apply nth_endb_spec.
    + intro w. eapply nth_from_end_acc. exact Hm.
Qed.
Print Assumptions C15_nth_from_end.

(* ---- universal_language / empty_language ---- *)
Theorem C15_universal_empty : forall syms, NoDup syms ->
  valid_dfa (universal_m syms) = true /\ valid_dfa (empty_m syms) = true /\
  (forall w, L_dfa (universal_m syms) w <-> word_over syms w) /\
  (forall w, ~ L_dfa (empty_m syms) w).
Proof.
  intros syms Hnd. split; [apply universal_valid; exact Hnd|]. split; [apply empty_valid; exact Hnd|]. split.
  - intro w. unfold L_dfa. rewrite universal_acc. apply overb_spec.
  - intro w. unfold L_dfa. rewrite empty_acc. discriminate.
Qed.
Print Assumptions C15_universal_empty.

(* ---- minimality ----
   is_minimal (executable; evaluated by the extracted code on every implementation result whose
   docstring promises "the minimal DFA") is sound: a valid DFA that passes it is minimal among the
   DFAs of its own kind (Spec/Minimal.v): no complete DFA over the same alphabet for the same
   language is smaller, and - when the DFA is flagged partial - no DFA at all is smaller.
   (Myhill-Nerode lower bound: Proofs/Minimize.v, theorem C05_nerode_lower_bound.) *)
Definition minimal_of_kind (m : dfa) : Prop :=
  minimal_complete m /\ (d_partial m = true -> minimal_partial m).

Theorem C15_is_minimal_sound : forall m, valid_dfa m = true -> is_minimal m = true -> minimal_of_kind m.
Proof. exact is_minimal_sound. Qed.
Print Assumptions C15_is_minimal_sound.

(* and complete: accessible + pairwise distinguishable (+ live when flagged partial) passes the test *)
Theorem C15_is_minimal_complete : forall m, valid_dfa m = true ->
  (forall r, In r (d_states m) -> exists u, dfa_run m (Some (d_init m)) u = Some r) ->
  (forall r1 r2, In r1 (d_states m) -> In r2 (d_states m) -> r1 <> r2 ->
     exists w, dfa_acc_from m (Some r1) w <> dfa_acc_from m (Some r2) w) ->
  (d_partial m = true -> forall r, In r (d_states m) -> exists w, dfa_acc_from m (Some r) w = true) ->
  is_minimal m = true.
Proof. exact is_minimal_intro. Qed.
Print Assumptions C15_is_minimal_complete.

(* the ingredients of the test mean what they say *)
Theorem C15_is_minimal_ingredients : forall m p q, valid_dfa m = true -> In p (d_states m) -> In q (d_states m) ->
  (distinguishable m p q = true -> exists w, dfa_acc_from m (Some p) w <> dfa_acc_from m (Some q) w) /\
  (live m q = true -> exists w, dfa_acc_from m (Some q) w = true).
Proof.
  intros m p q Hv Hp Hq. split; [apply distinguishable_spec; assumption|apply live_spec; assumption].
Qed.
Print Assumptions C15_is_minimal_ingredients.

(* non-vacuity: concrete instances, computed *)
Example C15_example_prefix :
  let m := from_prefix_m [0;1] [0;1;0] true true in
  valid_dfa m = true /\ d_partial m = true /\ size m = 4 /\
  dfa_acc m [0;1;0;1;1] = true /\ dfa_acc m [0;1;1] = false /\ dfa_acc m [0;1;0;2] = false /\
  dfa_acc (from_prefix_m [0;1] [0;1;0] false true) [0;1;1] = true /\
  size (from_prefix_m [0;1] [0;1;0] false true) = 5.
Proof. vm_compute. repeat split. Qed.

Example C15_example_substring :     (* self-overlapping pattern 0 0 1 0 0 *)
  let m := from_substring_m [0;1] [0;0;1;0;0] true false in
  valid_dfa m = true /\ size m = 6 /\
  d_trans m = [(0,[(0,1);(1,0)]); (1,[(0,2);(1,0)]); (2,[(0,2);(1,3)]); (3,[(0,4);(1,0)]);
               (4,[(0,5);(1,0)]); (5,[(0,5);(1,5)])] /\
  dfa_acc m [0;0;0;1;0;0;1] = true /\ dfa_acc m [0;0;1;0;1;0;0] = false /\
  d_trans (from_suffix_m [0;1] [0;0;1;0;0] true) =
    [(0,[(0,1);(1,0)]); (1,[(0,2);(1,0)]); (2,[(0,2);(1,3)]); (3,[(0,4);(1,0)]);
     (4,[(0,5);(1,0)]); (5,[(0,2);(1,3)])] /\
  from_substring_m [0;1] [] false true = empty_m [0;1].
Proof. vm_compute. repeat split. Qed.

Example C15_example_kmp :      (* the table of the code on 0 0 1 0 0 and on 0 1 0 1 0 2 0; None = -1 *)
  kmp_table [0;0;1;0;0] = Ok [None; None; Some 1; None; None; Some 2] /\
  kmp_table [0;1;0;1;0;2;0] = Ok [None; Some 0; None; Some 0; None; Some 3; None; Some 1] /\
  kmp_dfa [0;1] [0;0;1;0;0] true true = Ok (from_suffix_m [0;1] [0;0;1;0;0] true).
Proof. vm_compute. repeat split. Qed.

Example C15_example_aho_corasick :      (* patterns 0 1 and 1 1 0, in this order: labels 0; 1="0", 2="01", 3="1", 4="11", 5="110" *)
  ac_dfa [0;1] [[0;1];[1;1;0]] true true =
    Ok (mkdfa [0;1;3;2;4;5] [0;1]
              [(0,[(0,1);(1,3)]); (1,[(0,1);(1,2)]); (3,[(0,1);(1,4)]); (2,[(0,1);(1,4)]); (4,[(0,5);(1,4)]); (5,[(0,1);(1,2)])]
              0 [2;5] false) /\
  (exists m, ac_dfa [0;1] [[0;1];[1;1;0]] true false = Ok m /\ size m = 7 /\
             dfa_acc m [1;1;1;0;0] = true /\ dfa_acc m [1;0;0;0] = false) /\
  ac_dfa [0;1] [[];[1]] false true = Ok (empty_m [0;1]).
Proof. vm_compute. split; [reflexivity|]. split; [eexists; repeat split|reflexivity]. Qed.

Example C15_example_numeric :
  dfa_acc (of_length_m [0;1] 1 (Some 2) (Some [1])) [0;1;0;1;0] = true /\
  dfa_acc (of_length_m [0;1] 1 (Some 2) (Some [1])) [1;1;1] = false /\
  (exists m, count_mod_m [0;1] 3 (Some [0;2]) None = Ok m /\ dfa_acc m [0;1;1;0;0] = true /\ dfa_acc m [0;1;1;0] = false) /\
  count_mod_m [0;1] 3 (Some [3]) None = Err (Invalid 1) /\
  (exists m, nth_from_start_m [0;1] 1 2 = Ok m /\ dfa_acc m [0;1;0] = true /\ dfa_acc m [1;0] = false /\ size m = 4) /\
  (exists m, nth_from_start_m [5] 5 2 = Ok m /\ dfa_acc m [5;5;5] = true /\ dfa_acc m [5] = false /\ size m = 3) /\
  (exists m, nth_from_end_m [0;1] 1 3 = Ok m /\ dfa_acc m [0;1;0;0] = true /\ dfa_acc m [1;0;1;1] = false /\
             dfa_acc m [1;0] = false /\ size m = 8).
Proof. vm_compute. repeat split; eexists; repeat split. Qed.

Example C15_example_minimal :
  is_minimal (from_substring_m [0;1] [0;0;1;0;0] true false) = true /\
  is_minimal (from_suffix_m [0;1;2] [0;1;0] false) = true /\
  is_minimal (from_prefix_m [0;1] [0;1] true true) = true /\      (* partial: no dead state *)
  is_minimal (from_prefix_m [0;1] [0;1] true false) = true /\     (* complete: with the trap *)
  is_minimal (from_prefix_m [0;1] [] true false) = false /\       (* unreachable error state *)
  is_minimal (of_length_m [0;1] 2 (Some 1) None) = false /\       (* empty range: 3 states for the empty language *)
  is_minimal (mkdfa [0;1] [0] [(0,[(0,1)]);(1,[(0,0)])] 0 [0;1] false) = false /\  (* two equivalent states *)
  is_minimal (mkdfa [0;1] [0] [(0,[(0,1)]);(1,[])] 0 [0] true) = false.            (* partial with a dead state *)
Proof. vm_compute. repeat split. Qed.

(* T2: the constructor models themselves are minimal, for ALL parameters: every non-empty pattern over the
   alphabet (from_substring / from_suffix / from_prefix), every pattern incl. the empty one
   (from_subsequence), every non-empty range with a counted symbol in the alphabet (of_length), every n and
   symbol (nth_from_start and the 2^n-state shift register of nth_from_end, one-symbol alphabets included).  Only from_prefix with an error state (complement
   or complete form) needs a second symbol - otherwise the error state is unreachable.  Each proof exhibits an
   access word for every state and a distinguishing word for every pair of states (Proofs/CtorMinimal.v);
   `passes m` = the executable test says so AND m is minimal of its kind in the sense of Spec/Minimal.v. *)
Definition passes (m : dfa) : Prop := valid_dfa m = true /\ is_minimal m = true /\ minimal_of_kind m.

Theorem C15_constructors_minimal : forall syms, NoDup syms ->
  passes (universal_m syms) /\ passes (empty_m syms) /\
  (forall p c, word_over syms p -> passes (from_subsequence_m syms p c)) /\
  (forall p c ms, p <> [] -> word_over syms p -> passes (from_substring_m syms p c ms)) /\
  (forall p c, p <> [] -> word_over syms p -> passes (from_suffix_m syms p c)) /\
  (forall p, p <> [] -> word_over syms p -> passes (from_prefix_m syms p true true)) /\
  (forall p c ap, p <> [] -> word_over syms p -> 2 <= length syms -> passes (from_prefix_m syms p c ap)) /\
  (forall lo hi cnt, (exists a, In a syms /\ In a (counted_set syms cnt)) ->
     match hi with Some h => lo <= h | None => True end -> passes (of_length_m syms lo hi cnt)) /\
  (forall s n m, nth_from_start_m syms s n = Ok m -> passes m) /\
  (forall s n m, nth_from_end_m syms s n = Ok m -> passes m).
Proof.
  intros syms Hnd.
  assert (passes_intro : forall m, valid_dfa m = true -> is_minimal m = true -> passes m).
  { intros m Hv Hm. split; [exact Hv|]. split; [exact Hm|]. exact (is_minimal_sound m Hv Hm). }
  split; [apply passes_intro; [apply universal_valid|apply universal_is_minimal]; exact Hnd|].
  split; [apply passes_intro; [apply empty_valid|apply empty_is_minimal]; exact Hnd|].
  split; [intros p c Hp; apply overb_spec in Hp;
          apply passes_intro; [apply from_subsequence_valid|apply from_subsequence_is_minimal]; assumption|].
  split; [intros p c ms Hne Hp; apply overb_spec in Hp;
          apply passes_intro; [apply from_substring_valid|apply from_substring_is_minimal]; assumption|].
  split; [intros p c Hne Hp; apply overb_spec in Hp;
          apply passes_intro; [apply from_substring_valid|apply from_substring_is_minimal]; assumption|].
  split; [intros p Hne Hp; apply overb_spec in Hp;
          apply passes_intro; [apply from_prefix_valid|apply from_prefix_is_minimal]; try assumption; discriminate|].
  split; [intros p c ap Hne Hp H2; apply overb_spec in Hp;
          apply passes_intro; [apply from_prefix_valid|apply from_prefix_is_minimal]; try assumption; intros _; exact H2|].
  split; [intros lo hi cnt [a [Ha Hc]] Hr;
          apply passes_intro; [apply of_length_valid; exact Hnd|apply (of_length_is_minimal syms lo hi cnt a); assumption]|].
  split; [intros s n m Hm; apply passes_intro; [eapply nth_from_start_valid; eassumption|eapply nth_from_start_is_minimal; eassumption]|].
  intros s n m Hm. apply passes_intro; [eapply nth_from_end_valid; eassumption|eapply nth_from_end_is_minimal; eassumption].
Qed.
Print Assumptions C15_constructors_minimal.

(* from_finite_language: the result of the mirror model of the Mihov-Schulz construction is minimal of its kind, for every
   duplicate-free list of words over the alphabet and both forms (`passes` = valid, the executable test is_minimal says so,
   and - through C15_is_minimal_sound, i.e. the Myhill-Nerode lower bound of C05 - no DFA of the same kind for the same
   language over the same alphabet is smaller).  Invariant of the algorithm (Proofs/FLInv.v, FLAdd.v): after each
   step the states off the path of the last word are exactly the registered ones, no two of them have the same signature,
   they are pairwise distinguishable and all states are reachable; after the final compress(prev_word, "") the path is
   the root alone, and the root differs from every other state by a longest word of the language (Proofs/FLMin.v).
   Side condition of the complete form: a non-empty alphabet (over the empty alphabet `_to_complete` adds a trap state
   that nothing can reach; the partial form and the empty language need no condition). *)
Theorem C15_from_finite_language_minimal : forall syms lang as_partial,
  NoDup syms -> NoDup lang -> (forall w, In w lang -> word_over syms w) ->
  (as_partial = false -> lang <> [] -> syms <> []) ->
  exists m, fl_dfa syms lang as_partial = Ok m /\ passes m.
Proof.
  intros syms lang ap Hs Hl Ho Hside. destruct (fl_dfa_minimal syms lang ap Hs Hl Ho Hside) as [m (E & Hv & Hm)].
  exists m. split; [exact E|]. split; [exact Hv|]. split; [exact Hm|]. exact (C15_is_minimal_sound m Hv Hm).
Qed.
Print Assumptions C15_from_finite_language_minimal.

(* the side condition is needed: over the empty alphabet the complete form of { "" } has an unreachable trap *)
Example C15_from_finite_language_empty_alphabet :
  (exists m, fl_dfa [] [[]] false = Ok m /\ size m = 2 /\ is_minimal m = false) /\
  (exists m, fl_dfa [] [[]] true = Ok m /\ size m = 1 /\ is_minimal m = true).
Proof. vm_compute. split; eexists; repeat split. Qed.

(* the same by computation on all small patterns (kept as a cross-check of the models) *)
Example C15_constructors_minimal_bounded :
  let ok syms p :=
      match p with
      | [] => true
      | _ :: _ =>
        forallb (fun c =>
          forallb (fun b => is_minimal (from_prefix_m syms p c b) && is_minimal (from_substring_m syms p c b)) [true; false]
          && is_minimal (from_subsequence_m syms p c)) [true; false]
      end in
  forallb (ok [0;1]) (concat (words_upto [0;1] 4)) = true /\
  forallb (ok [0;1;2]) (concat (words_upto [0;1;2] 3)) = true.
Proof. vm_compute. split; reflexivity. Qed.
