(* C08 - NFA regular operations are total and compute the textbook language
   operations.  Models: Model/NFAOps.v (mirrors automata/fa/nfa.py); lemmas: Proofs/NFAOps.v.
   Hypotheses: [valid_nfa] (what NFA.validate() checks) and, where the code looks
   row keys up in a state map (union, concatenate) or turns them into end states
   (reverse), [rows_keyed] (every transition row belongs to a state; see the open
   finding nfa_stray_transition_row). *)
From Coq Require Import List Arith Bool.
From AV Require Import Base.Util Spec.Lang Spec.FA Model.NFAOps Proofs.NFAOps.
Import ListNotations.

Theorem C08_union A B :
  valid_nfa A = true -> valid_nfa B = true -> rows_keyed A = true -> rows_keyed B = true ->
  exists R, nfa_union A B = Ok R /\ valid_nfa R = true /\ L_nfa R =L l_union (L_nfa A) (L_nfa B).
Proof.
  intros HA HB KA KB. destruct (ops_union_total A B HA HB KA KB) as [R [E V]].
  exists R. split; [exact E|]. split; [exact V|]. apply (ops_union_lang A B HA HB R E).
Qed.
Print Assumptions C08_union.

Theorem C08_concatenate A B :
  valid_nfa A = true -> valid_nfa B = true -> rows_keyed A = true -> rows_keyed B = true ->
  exists R, nfa_concat A B = Ok R /\ valid_nfa R = true /\ L_nfa R =L l_cat (L_nfa A) (L_nfa B).
Proof.
  intros HA HB KA KB. destruct (ops_concat_total A B HA HB KA KB) as [R [E V]].
  exists R. split; [exact E|]. split; [exact V|]. apply (ops_concat_lang A B HA HB R E).
Qed.
Print Assumptions C08_concatenate.

Theorem C08_kleene_star A :
  valid_nfa A = true ->
  exists R, nfa_star A = Ok R /\ valid_nfa R = true /\ L_nfa R =L l_star (L_nfa A).
Proof.
  intros HA. destruct (ops_star_total A HA) as [R [E V]].
  exists R. split; [exact E|]. split; [exact V|]. apply (ops_star_lang A HA R E).
Qed.
Print Assumptions C08_kleene_star.

Theorem C08_option A :
  valid_nfa A = true ->
  exists R, nfa_option A = Ok R /\ valid_nfa R = true /\ L_nfa R =L l_opt (L_nfa A).
Proof.
  intros HA. destruct (ops_option_total A HA) as [R [E V]].
  exists R. split; [exact E|]. split; [exact V|]. apply (ops_option_lang A HA R E).
Qed.
Print Assumptions C08_option.

Theorem C08_reverse A :
  valid_nfa A = true -> rows_keyed A = true ->
  exists R, nfa_reverse A = Ok R /\ valid_nfa R = true /\ L_nfa R =L l_rev (L_nfa A).
Proof.
  intros HA KA. destruct (ops_reverse_total A HA KA) as [R [E V]].
  exists R. split; [exact E|]. split; [exact V|]. apply (ops_reverse_lang A HA R E).
Qed.
Print Assumptions C08_reverse.

Theorem C08_intersection A B :
  valid_nfa A = true -> valid_nfa B = true ->
  exists R, nfa_intersection A B = Ok R /\ valid_nfa R = true /\ L_nfa R =L l_inter (L_nfa A) (L_nfa B).
Proof.
  intros HA HB. destruct (ops_inter_total A B HA HB) as [R [E V]].
  exists R. split; [exact E|]. split; [exact V|]. apply (ops_inter_lang A B HA R E).
Qed.
Print Assumptions C08_intersection.

Theorem C08_shuffle_product A B :
  valid_nfa A = true -> valid_nfa B = true ->
  exists R, nfa_shuffle A B = Ok R /\ valid_nfa R = true /\ L_nfa R =L l_shuffle (L_nfa A) (L_nfa B).
Proof.
  intros HA HB. destruct (ops_shuffle_total A B HA HB) as [R [E V]].
  exists R. split; [exact E|]. split; [exact V|]. apply (ops_shuffle_lang A B HA HB R E).
Qed.
Print Assumptions C08_shuffle_product.
