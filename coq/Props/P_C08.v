(* C08 - NFA regular operations are total and compute the textbook language
   operations.  Models: Model/NFAOps.v (mirrors automata/fa/nfa.py); lemmas: Proofs/NFAOps.v.
   The only hypothesis is [valid_nfa] (what NFA.validate() checks).  In particular a
   transition row keyed by a name that is not a state is allowed: union, concatenate
   and reverse skip such rows (fixed finding nfa_stray_transition_row), the other
   operations never read them. *)
From Coq Require Import List Arith Bool.
From AV Require Import Base.Util Spec.Lang Spec.FA Model.NFAOps Proofs.NFAOps.
Import ListNotations.

Theorem C08_union A B :
  valid_nfa A = true -> valid_nfa B = true ->
  exists R, nfa_union A B = Ok R /\ valid_nfa R = true /\ L_nfa R =L l_union (L_nfa A) (L_nfa B).
Proof.
  intros HA HB. destruct (ops_union_total A B HA HB) as [R [E V]].
  exists R. split; [exact E|]. split; [exact V|]. apply (ops_union_lang A B HA HB R E).
Qed.
Print Assumptions C08_union.

Theorem C08_concatenate A B :
  valid_nfa A = true -> valid_nfa B = true ->
  exists R, nfa_concat A B = Ok R /\ valid_nfa R = true /\ L_nfa R =L l_cat (L_nfa A) (L_nfa B).
Proof.
  intros HA HB. destruct (ops_concat_total A B HA HB) as [R [E V]].
  exists R. split; [exact E|]. split; [exact V|]. apply (ops_concat_lang A B HA HB R E).
Qed.
Print Assumptions C08_concatenate.

Theorem C08_kleene_star A :
  valid_nfa A = true ->
  exists R, nfa_star A = Ok R /\ valid_nfa R = true /\ L_nfa R =L l_star (L_nfa A).
Proof.
  intros HA. destruct (ops_star_total A HA) as [R [E V]].
  exists R. split; [exact E|]. split; [exact V|]. apply (ops_star_lang A HA R E).
Qed.
Print Assumptions C08_kleene_star.

Theorem C08_option A :
  valid_nfa A = true ->
  exists R, nfa_option A = Ok R /\ valid_nfa R = true /\ L_nfa R =L l_opt (L_nfa A).
Proof.
  intros HA. destruct (ops_option_total A HA) as [R [E V]].
  exists R. split; [exact E|]. split; [exact V|]. apply (ops_option_lang A HA R E).
Qed.
Print Assumptions C08_option.

Theorem C08_reverse A :
  valid_nfa A = true ->
  exists R, nfa_reverse A = Ok R /\ valid_nfa R = true /\ L_nfa R =L l_rev (L_nfa A).
Proof.
  intros HA. destruct (ops_reverse_total A HA) as [R [E V]].
  exists R. split; [exact E|]. split; [exact V|]. apply (ops_reverse_lang A HA R E).
Qed.
Print Assumptions C08_reverse.

Theorem C08_intersection A B :
  valid_nfa A = true -> valid_nfa B = true ->
  exists R, nfa_intersection A B = Ok R /\ valid_nfa R = true /\ L_nfa R =L l_inter (L_nfa A) (L_nfa B).
Proof.
  intros HA HB. destruct (ops_inter_total A B HA HB) as [R [E V]].
  exists R. split; [exact E|]. split; [exact V|]. apply (ops_inter_lang A B HA R E).
Qed.
Print Assumptions C08_intersection.

Theorem C08_shuffle_product A B :
  valid_nfa A = true -> valid_nfa B = true ->
  exists R, nfa_shuffle A B = Ok R /\ valid_nfa R = true /\ L_nfa R =L l_shuffle (L_nfa A) (L_nfa B).
Proof.
  intros HA HB. destruct (ops_shuffle_total A B HA HB) as [R [E V]].
  exists R. split; [exact E|]. split; [exact V|]. apply (ops_shuffle_lang A B HA HB R E).
Qed.
Print Assumptions C08_shuffle_product.

Theorem C08_right_quotient A B :
  valid_nfa A = true -> valid_nfa B = true ->
  exists R, nfa_right_quotient A B = Ok R /\ valid_nfa R = true /\ L_nfa R =L l_rquot (L_nfa A) (L_nfa B).
Proof.
  intros HA HB. destruct (ops_rquot_total A B HA HB) as [R [E V]].
  exists R. split; [exact E|]. split; [exact V|]. apply (ops_rquot_lang A B HA HB R E).
Qed.
Print Assumptions C08_right_quotient.

(* the model follows the repaired code (the initial product state always has a row) *)
Theorem C08_left_quotient A B :
  valid_nfa A = true -> valid_nfa B = true ->
  exists R, nfa_left_quotient A B = Ok R /\ valid_nfa R = true /\ L_nfa R =L l_lquot (L_nfa A) (L_nfa B).
Proof.
  intros HA HB. destruct (ops_lquot_total A B HA HB) as [R [E V]].
  exists R. split; [exact E|]. split; [exact V|]. apply (ops_lquot_lang A B HA HB R E).
Qed.
Print Assumptions C08_left_quotient.

(* helper shared by both quotients (and with C07) *)
Theorem C08_eliminate_lambda A :
  valid_nfa A = true ->
  exists R, nfa_eliminate_lambda A = Ok R /\ valid_nfa R = true /\ L_nfa R =L L_nfa A /\
            (forall p q, ~ n_edge R p None q).
Proof.
  intros HA. destruct (ops_elim_total A HA) as [R [E V]].
  exists R. split; [exact E|]. split; [exact V|]. apply (ops_elim_lang A HA R E).
Qed.
Print Assumptions C08_eliminate_lambda.

(* results fed into further operations: every finite composition of the nine
   operations over valid operands evaluates without error to a valid NFA whose
   language is the same composition of the textbook language operations *)
Theorem C08_compositions e :
  nexp_leaves_ok e = true ->
  exists R, nfa_eval e = Ok R /\ valid_nfa R = true /\ L_nfa R =L nexp_den e.
Proof. exact (ops_compose e). Qed.
Print Assumptions C08_compositions.

(* ---- non-vacuity: concrete operands satisfy the hypotheses, and the models compute ---- *)
(* A: 0 -a-> 1, 1 -eps-> 0, 1 final (a+);   B: one non-final state without rows (empty language);
   C: 0 -b-> 0, 0 final (b-star) over another alphabet *)
Definition exA : nfa := mknfa [0; 1] [0] [(0, [(Some 0, [1])]); (1, [(None, [0])])] 0 [1].
Definition exB : nfa := mknfa [0] [0] [] 0 [].
Definition exC : nfa := mknfa [0] [1] [(0, [(Some 1, [0])])] 0 [0].

Example ex_hyps : valid_nfa exA = true /\ valid_nfa exB = true /\ valid_nfa exC = true.
Proof. vm_compute. repeat split. Qed.

Definition accw (r : res nfa) (w : word) : option bool :=
  match r with Ok m => Some (Decide.nfa_acc m w) | Err _ => None end.

Example ex_union : accw (nfa_union exA exC) [0; 0] = Some true /\ accw (nfa_union exA exC) [1] = Some true /\
                   accw (nfa_union exA exC) [0; 1] = Some false.
Proof. vm_compute. repeat split. Qed.
Example ex_concat : accw (nfa_concat exA exC) [0; 1; 1] = Some true /\ accw (nfa_concat exA exC) [1] = Some false.
Proof. vm_compute. repeat split. Qed.
Example ex_star : accw (nfa_star exA) [] = Some true /\ accw (nfa_star exB) [] = Some true /\
                  accw (nfa_star exB) [0] = Some false.
Proof. vm_compute. repeat split. Qed.
Example ex_option : accw (nfa_option exB) [] = Some true /\ accw (nfa_option exA) [0] = Some true.
Proof. vm_compute. repeat split. Qed.
Example ex_reverse : accw (nfa_reverse (match nfa_concat exA exC with Ok m => m | Err _ => exB end)) [1; 0] = Some true /\
                     accw (nfa_reverse (match nfa_concat exA exC with Ok m => m | Err _ => exB end)) [0; 1] = Some false.
Proof. vm_compute. repeat split. Qed.
Example ex_inter : accw (nfa_intersection exA exC) [] = Some false /\ accw (nfa_intersection exA exA) [0; 0] = Some true.
Proof. vm_compute. repeat split. Qed.
Example ex_shuffle : accw (nfa_shuffle exA exC) [1; 0; 1] = Some true /\ accw (nfa_shuffle exA exC) [1] = Some false.
Proof. vm_compute. repeat split. Qed.
Example ex_rquot : accw (nfa_right_quotient exA exA) [] = Some true /\ accw (nfa_right_quotient exA exB) [0] = Some false.
Proof. vm_compute. repeat split. Qed.
(* the reproducer of the left_quotient defect: the model (repaired behaviour) returns a valid automaton *)
Example ex_lquot : (exists R, nfa_left_quotient exA exB = Ok R /\ valid_nfa R = true) /\
                   accw (nfa_left_quotient exA exB) [0] = Some false /\
                   accw (nfa_left_quotient exA exA) [] = Some true.
Proof. split; [eexists; split; vm_compute; reflexivity|vm_compute; split; reflexivity]. Qed.
Example ex_compose :
  nexp_leaves_ok (NLQuot (NStar (NUnion (NLeaf exA) (NLeaf exC))) (NReverse (NLeaf exA))) = true /\
  accw (nfa_eval (NLQuot (NStar (NUnion (NLeaf exA) (NLeaf exC))) (NReverse (NLeaf exA)))) [1; 0] = Some true.
Proof. vm_compute. split; reflexivity. Qed.
(* transition rows keyed by a name that is not a state are accepted by valid_nfa and
   skipped by union / concatenate / reverse.  exS: state 0 final, no edges, plus a stray
   row 5 -a-> 0; exT: the same with the stray row named 1, the name of the fresh state
   that reverse, kleene_star and option allocate.  L = {[]} for both. *)
Definition exS : nfa := mknfa [0] [0] [(0, []); (5, [(Some 0, [0])])] 0 [0].
Definition exT : nfa := mknfa [0] [0] [(0, []); (1, [(Some 0, [0])])] 0 [0].
Example ex_stray_row :
  valid_nfa exS = true /\ valid_nfa exT = true /\ fresh (n_states exT) = 1 /\
  accw (nfa_union exS exA) [] = Some true /\ accw (nfa_union exS exA) [0] = Some true /\
  accw (nfa_union exS exB) [0] = Some false /\
  accw (nfa_concat exS exA) [0] = Some true /\ accw (nfa_concat exT exB) [] = Some false /\
  accw (nfa_reverse exS) [] = Some true /\ accw (nfa_reverse exS) [0] = Some false /\
  accw (nfa_reverse exT) [] = Some true /\ accw (nfa_reverse exT) [0] = Some false /\
  accw (nfa_star exT) [0] = Some false /\ accw (nfa_option exT) [0] = Some false.
Proof. vm_compute. repeat split. Qed.
