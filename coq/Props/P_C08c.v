(* C08 (continuation; closes item 2 of "What did not line up" in notes/reports/compose.md) - the INPUT SYMBOLS of
   the results.  The C08 theorems conclude validity and the language; C09's totality theorem also needs the two
   operands of == to have the same set of input symbols.  nfa.py: union (line 520), concatenate (572), intersection
   (698 / 762), shuffle_product (787 / 811), right_quotient (852 / 901), left_quotient (942 / 997) build their result
   with input_symbols = self.input_symbols | other.input_symbols; kleene_star (608), option (635), reverse (674) and
   _eliminate_lambda (401) with input_symbols = self.input_symbols.  The model does the same ([usyms] resp. [n_syms]);
   no hypothesis on the operands is needed: whenever the operation returns, this is the alphabet. *)
From Coq Require Import List Arith Bool.
From AV Require Import Base.Util Spec.Lang Spec.FA Model.NFAOps Model.Subset Proofs.NFAOps Proofs.NFAOpsSyms
     Props.P_C08.
Import ListNotations.

(* the six binary operations: the union of the operands' alphabets, as a set (the model's list is duplicate-free) *)
Theorem C08_result_alphabet_binary : forall A B R,
  nfa_union A B = Ok R \/ nfa_concat A B = Ok R \/ nfa_intersection A B = Ok R \/ nfa_shuffle A B = Ok R \/
  nfa_right_quotient A B = Ok R \/ nfa_left_quotient A B = Ok R ->
  n_syms R = usyms A B /\ NoDup (n_syms R) /\ (forall a, In a (n_syms R) <-> In a (n_syms A) \/ In a (n_syms B)).
Proof.
  intros A B R H.
  assert (E : n_syms R = usyms A B).
  { destruct H as [H|[H|[H|[H|[H|H]]]]].
    - exact (ops_union_syms A B R H). - exact (ops_concat_syms A B R H). - exact (ops_inter_syms A B R H).
    - exact (ops_shuffle_syms A B R H). - exact (ops_rquot_syms A B R H). - exact (ops_lquot_syms A B R H). }
  split; [exact E|]. rewrite E. split; [apply usyms_NoDup|]. intro a. apply usyms_In.
Qed.
Print Assumptions C08_result_alphabet_binary.

(* the four unary operations keep the operand's input symbols (the same list) *)
Theorem C08_result_alphabet_unary : forall A R,
  nfa_star A = Ok R \/ nfa_option A = Ok R \/ nfa_reverse A = Ok R \/ nfa_eliminate_lambda A = Ok R ->
  n_syms R = n_syms A.
Proof.
  intros A R [H|[H|[H|H]]].
  - exact (ops_star_syms A R H). - exact (ops_option_syms A R H). - exact (ops_reverse_syms A R H).
  - exact (ops_elim_syms A R H).
Qed.
Print Assumptions C08_result_alphabet_unary.

(* every composition: the result's input symbols are exactly the symbols of the operands at the leaves *)
Theorem C08_compositions_alphabet : forall e R, nfa_eval e = Ok R ->
  n_syms R = nexp_syms e /\ (forall a, In a (n_syms R) <-> exists A, In A (nexp_leaves e) /\ In a (n_syms A)).
Proof.
  intros e R H. pose proof (ops_eval_syms e R H) as E. split; [exact E|]. intro a. rewrite E. apply nexp_syms_In.
Qed.
Print Assumptions C08_compositions_alphabet.

(* C08_compositions with the alphabet: two compositions whose operands use the same symbols evaluate to NFAs that ==
   does not refuse (nsame_syms is the test of NFA.__eq__, nfa.py line 1033) *)
Theorem C08_compositions_comparable : forall e1 e2,
  nexp_leaves_ok e1 = true -> nexp_leaves_ok e2 = true ->
  (forall a, In a (nexp_syms e1) <-> In a (nexp_syms e2)) ->
  exists R1 R2, nfa_eval e1 = Ok R1 /\ nfa_eval e2 = Ok R2 /\ valid_nfa R1 = true /\ valid_nfa R2 = true /\
    L_nfa R1 =L nexp_den e1 /\ L_nfa R2 =L nexp_den e2 /\ nsame_syms R1 R2 = true.
Proof.
  intros e1 e2 H1 H2 Hs.
  destruct (C08_compositions e1 H1) as [R1 [E1 [V1 L1]]]. destruct (C08_compositions e2 H2) as [R2 [E2 [V2 L2]]].
  exists R1, R2. repeat (split; [assumption|]). apply nsame_syms_iff. intro a.
  rewrite (ops_eval_syms e1 R1 E1), (ops_eval_syms e2 R2 E2). apply Hs.
Qed.
Print Assumptions C08_compositions_comparable.

(* non-vacuity: exA over {0}, exC over {1}; the symbols of the results *)
Definition syms_of (r : res nfa) : option (list nat) := match r with Ok m => Some (n_syms m) | Err _ => None end.
Example C08_example_alphabets :
  syms_of (nfa_union exA exC) = Some [0; 1] /\ syms_of (nfa_concat exC exA) = Some [0; 1] /\
  syms_of (nfa_intersection exA exC) = Some [0; 1] /\ syms_of (nfa_shuffle exA exC) = Some [0; 1] /\
  syms_of (nfa_right_quotient exA exC) = Some [0; 1] /\ syms_of (nfa_left_quotient exA exC) = Some [0; 1] /\
  syms_of (nfa_star exA) = Some [0] /\ syms_of (nfa_option exC) = Some [1] /\ syms_of (nfa_reverse exA) = Some [0] /\
  syms_of (nfa_eliminate_lambda exA) = Some [0] /\
  syms_of (nfa_eval (NLQuot (NStar (NUnion (NLeaf exA) (NLeaf exC))) (NReverse (NLeaf exA)))) = Some [0; 1] /\
  nexp_syms (NLQuot (NStar (NUnion (NLeaf exA) (NLeaf exC))) (NReverse (NLeaf exA))) = [0; 1].
Proof. vm_compute. repeat split. Qed.
