(* C01 - Finite-automaton acceptance follows the formal definition for every string.
   Only statements, each closed by [exact], with Print Assumptions beneath. *)
From Coq Require Import List Arith Bool.
From AV Require Import Base.Util Spec.Lang Spec.FA Model.FARun Proofs.FARun.
Import ListNotations.

(* DFA step-by-step reading: the initial configuration, then exactly one configuration per
   consumed symbol, each the textbook successor of the previous one (None = fell off the
   table); the generator ends normally iff the textbook run accepts, otherwise with the
   rejection exception - never KeyError. *)
Theorem C01_dfa_stepwise : forall m w, valid_dfa m = true ->
  dfa_stepwise m w =
    (Some (d_init m) :: run_trace m (Some (d_init m)) w,
     if dfa_acc m w then Ok (dfa_run m (Some (d_init m)) w) else Err Reject)
  /\ length (run_trace m (Some (d_init m)) w) = length w
  /\ forall k, k <= length w ->
       nth k (Some (d_init m) :: run_trace m (Some (d_init m)) w) None
       = dfa_run m (Some (d_init m)) (firstn k w).
Proof.
  intros m w Hv. split; [exact (dfa_stepwise_spec m Hv w)|].
  split; [exact (run_trace_length m _ w)|exact (run_trace_nth m w _)].
Qed.
Print Assumptions C01_dfa_stepwise.

(* accepts_input / the membership operator return exactly the textbook verdict *)
Theorem C01_dfa_accepts : forall m w, valid_dfa m = true -> dfa_accepts m w = Ok (dfa_acc m w).
Proof. intros m w Hv. exact (dfa_accepts_spec m Hv w). Qed.
Print Assumptions C01_dfa_accepts.

(* a symbol outside the alphabet, or a missing transition, rejects *)
Theorem C01_dfa_foreign_or_missing_rejects : forall m, valid_dfa m = true ->
  (forall u a v, ~ In a (d_syms m) -> dfa_accepts m (u ++ a :: v) = Ok false) /\
  (forall u a v q, dfa_run m (Some (d_init m)) u = Some q -> d_delta m q a = None ->
                   dfa_accepts m (u ++ a :: v) = Ok false).
Proof.
  intros m Hv. split.
  - intros u a v Ha. rewrite (dfa_accepts_spec m Hv). f_equal.
    exact (dfa_foreign_symbol_rejects m Hv u a v Ha).
  - intros u a v q H1 H2. rewrite (dfa_accepts_spec m Hv). f_equal.
    exact (dfa_missing_transition_rejects m u a v q H1 H2).
Qed.
Print Assumptions C01_dfa_foreign_or_missing_rejects.

(* NFA step-by-step reading: the k-th yielded set is exactly the set of states reachable from
   the initial state on the first k symbols with empty-string moves anywhere (nfa_path), one
   set per consumed symbol; it ends normally with the last set iff the word is in the
   textbook language, and otherwise with the rejection exception (never another error). *)
Theorem C01_nfa_stepwise : forall m w, valid_nfa m = true ->
  exists c0 ys o, nfa_stepwise m w = (c0 :: ys, o) /\
    set_is c0 (fun q => nfa_path m (n_init m) [] q) /\ trace_ok m [] w ys /\
    length ys = length w /\
    ((exists last, o = Ok last /\ set_is last (fun q => nfa_path m (n_init m) w q) /\ L_nfa m w)
     \/ (o = Err Reject /\ ~ L_nfa m w)).
Proof.
  intros m w Hv. destruct (nfa_stepwise_spec m Hv w) as [c0 [ys [o [E [H0 [Ht H]]]]]].
  exists c0, ys, o. split; [exact E|]. split; [exact H0|]. split; [exact Ht|].
  split; [exact (trace_ok_length m _ _ _ Ht)|exact H].
Qed.
Print Assumptions C01_nfa_stepwise.

Theorem C01_nfa_accepts : forall m w, valid_nfa m = true ->
  exists b, nfa_accepts m w = Ok b /\ (b = true <-> L_nfa m w).
Proof. intros m w Hv. exact (nfa_accepts_spec m Hv w). Qed.
Print Assumptions C01_nfa_accepts.

(* non-vacuity: concrete valid automata (a partial DFA; an NFA with an epsilon cycle) *)
Example C01_dfa_example :
  let m := mkdfa [0;1] [0;1] [(0,[(0,1)]);(1,[(0,1);(1,0)])] 0 [1] true in
  valid_dfa m = true /\ dfa_accepts m [0;1;0] = Ok true /\ dfa_accepts m [1] = Ok false.
Proof. vm_compute. repeat split. Qed.

Example C01_nfa_example :
  let m := mknfa [0;1;2] [0] [(0,[(None,[1])]);(1,[(None,[0]);(Some 0,[2])])] 0 [2] in
  valid_nfa m = true /\ nfa_accepts m [0] = Ok true /\ nfa_accepts m [0;0] = Ok false.
Proof. vm_compute. repeat split. Qed.
