(* C04 - DFA Boolean operations compute exact set operations on languages. *)
From Coq Require Import List Arith Bool.
From AV Require Import Base.Util Spec.Lang Spec.FA Model.Decide Model.Product Model.Build Model.DFAOps
     Proofs.Decide Proofs.DFAOps Proofs.DFAOps2.
Import ListNotations.

(* union / intersection / difference / symmetric difference of valid DFAs over a common alphabet
   (every mix of complete and partial operands - the theorem does not mention completeness):
   the lazy product with its relevance flags returns a valid DFA over the same alphabet whose
   verdict on EVERY word is the Boolean operation of the operands' verdicts. *)
Theorem C04_binop_exact : forall o A B,
  valid_dfa A = true -> valid_dfa B = true -> same_syms A B = true ->
  exists R, binop_m o A B = Ok R /\ valid_dfa R = true /\ d_syms R = d_syms A /\
            forall w, dfa_acc R w = op_bool o (dfa_acc A w) (dfa_acc B w).
Proof. intros o A B HA HB Hs. exact (binop_spec A B o HA HB Hs). Qed.
Print Assumptions C04_binop_exact.

(* the same as statements about languages *)
Theorem C04_binop_lang : forall A B, valid_dfa A = true -> valid_dfa B = true -> same_syms A B = true ->
  (exists R, binop_m Union A B = Ok R /\ L_dfa R =L l_union (L_dfa A) (L_dfa B)) /\
  (exists R, binop_m Inter A B = Ok R /\ L_dfa R =L l_inter (L_dfa A) (L_dfa B)) /\
  (exists R, binop_m Diff A B = Ok R /\ L_dfa R =L l_diff (L_dfa A) (L_dfa B)) /\
  (exists R, binop_m SymDiff A B = Ok R /\ L_dfa R =L l_symdiff (L_dfa A) (L_dfa B)).
Proof.
  intros A B HA HB Hs.
  destruct (binop_spec A B Union HA HB Hs) as [R1 [E1 [_ [_ L1]]]].
  destruct (binop_spec A B Inter HA HB Hs) as [R2 [E2 [_ [_ L2]]]].
  destruct (binop_spec A B Diff HA HB Hs) as [R3 [E3 [_ [_ L3]]]].
  destruct (binop_spec A B SymDiff HA HB Hs) as [R4 [E4 [_ [_ L4]]]].
  repeat split; eexists; (split; [eassumption|]); intro w;
    unfold L_dfa, l_union, l_inter, l_diff, l_symdiff;
    rewrite ?L1, ?L2, ?L3, ?L4; simpl;
    destruct (dfa_acc A w), (dfa_acc B w); simpl; intuition congruence.
Qed.
Print Assumptions C04_binop_lang.

Theorem C04_mismatch_refused : forall o A B, same_syms A B = false -> binop_m o A B = Err Mismatch.
Proof. intros o A B H. unfold binop_m, guard_syms. rewrite H. reflexivity. Qed.
Print Assumptions C04_mismatch_refused.

(* operands that are themselves results of earlier operations: every finite expression tree of the
   four binary operations over valid leaves with a common alphabet evaluates (never an error) to a
   valid DFA deciding the tree's Boolean semantics on every word *)
Theorem C04_expr_trees : forall S e, leaves_ok S e ->
  exists R, deval e = Ok R /\ valid_dfa R = true /\ d_syms R = S /\ forall w, dfa_acc R w = dsem e w.
Proof. exact dexpr_spec. Qed.
Print Assumptions C04_expr_trees.

(* to_complete: the result is a valid, complete DFA over the same alphabet with the same verdict on
   EVERY word (also words with foreign symbols: both sides reject them) *)
Theorem C04_to_complete : forall m, valid_dfa m = true ->
  valid_dfa (to_complete_m m) = true /\ complete (to_complete_m m) /\
  d_syms (to_complete_m m) = d_syms m /\
  forall w, dfa_acc (to_complete_m m) w = dfa_acc m w.
Proof.
  intros m Hv. destruct (to_complete_spec m Hv) as (H1 & H2 & _ & H3 & H4). repeat split; assumption.
Qed.
Print Assumptions C04_to_complete.

(* complement (partial or complete operand): a valid DFA over the same alphabet that flips the verdict
   on every word over the alphabet and rejects every word with a foreign symbol *)
Theorem C04_complement : forall m, valid_dfa m = true ->
  valid_dfa (complement_m m) = true /\ d_syms (complement_m m) = d_syms m /\
  (forall w, over (d_syms m) w -> dfa_acc (complement_m m) w = negb (dfa_acc m w)) /\
  (forall w, ~ over (d_syms m) w -> dfa_acc (complement_m m) w = false).
Proof. exact complement_spec. Qed.
Print Assumptions C04_complement.

Theorem C04_complement_lang : forall m, valid_dfa m = true ->
  L_dfa (complement_m m) =L l_compl (d_syms m) (L_dfa m).
Proof. exact complement_lang. Qed.
Print Assumptions C04_complement_lang.

(* expression trees that also use complement: the result decides the tree's Boolean semantics on every
   word over the common alphabet S and rejects every other word *)
Theorem C04_expr_trees_with_complement : forall S e, leaves_okc S e ->
  exists R, deval e = Ok R /\ valid_dfa R = true /\ d_syms R = S /\
            (forall w, over S w -> dfa_acc R w = dsem e w) /\
            (forall w, ~ over S w -> dfa_acc R w = false).
Proof. exact dexprc_spec. Qed.
Print Assumptions C04_expr_trees_with_complement.

(* to_partial(minify=False): never an error (the two state searches always have enough fuel); the result
   is a valid DFA over the same alphabet with the same verdict on EVERY word *)
Theorem C04_to_partial : forall m, valid_dfa m = true ->
  exists R, to_partial_m m = Ok R /\ valid_dfa R = true /\ d_syms R = d_syms m /\
            forall w, dfa_acc R w = dfa_acc m w.
Proof. exact to_partial_spec. Qed.
Print Assumptions C04_to_partial.

Example C04_example :
  let A := mkdfa [0;1] [0;1] [(0,[(0,1)]);(1,[(1,0)])] 0 [1] true in
  let B := mkdfa [0] [0;1] [(0,[(0,0);(1,0)])] 0 [0] false in
  valid_dfa A = true /\ valid_dfa B = true /\ same_syms A B = true /\
  match binop_m Diff B A with Ok R => map (dfa_acc R) [[]; [0]; [0;1]; [1]] | Err _ => [] end
    = [true; false; true; true].
Proof. vm_compute. repeat split. Qed.

Example C04_example_unary :
  let A := mkdfa [0;1;2] [0;1] [(0,[(0,1)]);(1,[(1,0);(0,2)]);(2,[(0,2)])] 0 [1] true in
  valid_dfa A = true /\ d_partial A = true /\
  length (d_states (to_complete_m A)) = 4 /\
  map (dfa_acc (to_complete_m A)) [[]; [0]; [0;1]; [1]; [0;0]; [7]] = [false; true; false; false; false; false] /\
  map (dfa_acc (complement_m A)) [[]; [0]; [0;1]; [1]; [0;0]; [7]] = [true; false; true; true; true; false] /\
  match to_partial_m A with
  | Ok R => (d_states R, map (dfa_acc R) [[]; [0]; [0;1]; [1]; [0;0]; [7]])
  | Err _ => ([], [])
  end = ([0;1], [false; true; false; false; false; false]).
Proof. vm_compute. repeat split. Qed.
