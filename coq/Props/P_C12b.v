(* C12 (continuation; closes item 6 of "What did not line up" in notes/reports/compose.md) - compilation of the
   to_regex string WITHOUT the input_symbols argument.  NFA.from_regex(st) derives the alphabet from the string:
   frozenset(st) - RESERVED_CHARACTERS (nfa.py lines 220-221; model: default_alphabet st = the non-reserved characters
   of st).  C12_dfa_to_regex / C12_nfa_to_regex state compilation WITH the source's alphabet only.
     regex_ok_derived st sigma L := exists m, compile st None = Ok m /\ valid_nfa m = true /\
        n_syms m = default_alphabet st /\ L_nfa m =L L /\
        (forall a, In a (n_syms m) -> In a sigma) /\
        ((forall a, In a sigma -> In a st) <-> (forall a, In a (n_syms m) <-> In a sigma))
   i.e. from_regex returns (never an error), the NFA is valid and has exactly the source's language, its alphabet is a
   subset of the source's, and it is the source's alphabet (as a set) EXACTLY WHEN every symbol of the source occurs in
   the string. *)
From Coq Require Import List Arith Bool.
From AV Require Import Base.Util Spec.Lang Spec.FA Model.Decide Model.Product Model.Subset
                       Model.GNFAStr Model.RegexLex Model.RegexParse Model.RegexBuild
                       Proofs.GNFAStr Proofs.GNFAStrParse Proofs.GNFAStrDerived Proofs.DFAOps Proofs.NFAOpsSyms
                       Props.P_C06 Props.P_C07 Props.P_C09 Props.P_C12.
Import ListNotations.

Theorem C12_dfa_to_regex_derived_alphabet : forall d sched, valid_dfa d = true -> forallb sym_ok (d_syms d) = true ->
  exists s order, dfa_to_regex d sched = Ok (s, order) /\
    match s with
    | Some st => regex_ok_derived st (d_syms d) (L_dfa d)
    | None => forall w, ~ L_dfa d w
    end.
Proof. exact dfa_to_regex_derived. Qed.
Print Assumptions C12_dfa_to_regex_derived_alphabet.

Theorem C12_nfa_to_regex_derived_alphabet : forall n sched, valid_nfa n = true -> forallb sym_ok (n_syms n) = true ->
  nfa_keys_nodup n = true ->
  exists s order, nfa_to_regex n sched = Ok (s, order) /\
    match s with
    | Some st => regex_ok_derived st (n_syms n) (L_nfa n)
    | None => forall w, ~ L_nfa n w
    end.
Proof. exact nfa_to_regex_derived. Qed.
Print Assumptions C12_nfa_to_regex_derived_alphabet.

(* the two compilations of the same string differ in the alphabet only: same language; and they are the same set of
   input symbols exactly when every symbol of the source occurs in the string *)
Theorem C12_with_and_without_alphabet : forall d sched st order, valid_dfa d = true -> forallb sym_ok (d_syms d) = true ->
  dfa_to_regex d sched = Ok (Some st, order) ->
  exists m1 m0, compile st (Some (d_syms d)) = Ok m1 /\ compile st None = Ok m0 /\
    valid_nfa m1 = true /\ valid_nfa m0 = true /\ L_nfa m0 =L L_nfa m1 /\
    (nsame_syms m0 m1 = true <-> forall a, In a (d_syms d) -> In a st).
Proof.
  intros d sched st order Hv Hs E.
  destruct (C12_dfa_to_regex d sched Hv Hs) as [s1 [o1 [E1 H1]]]. rewrite E in E1. injection E1 as <- <-.
  destruct (C12_dfa_to_regex_derived_alphabet d sched Hv Hs) as [s0 [o0 [E0 H0]]]. rewrite E in E0. injection E0 as <- <-.
  destruct H1 as [r [m1 [_ [_ [C1 [V1 [S1 L1]]]]]]]. destruct H0 as [m0 [C0 [V0 [S0 [L0 [Hsub Hiff]]]]]].
  exists m1, m0. split; [exact C1|]. split; [exact C0|]. split; [exact V1|]. split; [exact V0|].
  split; [eapply lang_eq_trans; [exact L0|apply lang_eq_sym; exact L1]|].
  rewrite nsame_syms_iff, S1. split; intro H; apply Hiff; exact H.
Qed.
Print Assumptions C12_with_and_without_alphabet.

(* NFA source: `NFA.from_regex(GNFA.from_nfa(n).to_regex()) == n` is not refused exactly when every input symbol of n
   occurs in the string, and then it never answers False *)
Theorem C12_nfa_round_trip_comparable : forall n sched st order, valid_nfa n = true ->
  forallb sym_ok (n_syms n) = true -> nfa_keys_nodup n = true ->
  nfa_to_regex n sched = Ok (Some st, order) ->
  exists m, compile st None = Ok m /\ valid_nfa m = true /\ L_nfa m =L L_nfa n /\
    (nsame_syms m n = true <-> forall a, In a (n_syms n) -> In a st) /\
    (nsame_syms m n = false -> nfa_eq_m m n = Err Mismatch) /\
    (forall b, nfa_eq_m m n = Ok b -> b = true).
Proof.
  intros n sched st order Hv Hs Hk E.
  destruct (C12_nfa_to_regex_derived_alphabet n sched Hv Hs Hk) as [s0 [o0 [E0 H0]]]. rewrite E in E0. injection E0 as <- <-.
  destruct H0 as [m [C0 [V0 [S0 [L0 [Hsub Hiff]]]]]].
  exists m. split; [exact C0|]. split; [exact V0|]. split; [exact L0|]. split; [|split].
  - rewrite nsame_syms_iff. split; intro H; apply Hiff; exact H.
  - intro H. unfold nfa_eq_m. rewrite H. reflexivity.
  - intros b Eb. apply (C09_eq_exact m n b V0 Hv Eb). exact L0.
Qed.
Print Assumptions C12_nfa_round_trip_comparable.

(* DFA source: `DFA.from_nfa(NFA.from_regex(GNFA.from_dfa(d).to_regex())) == d` is True when every input symbol of d
   occurs in the string, and refused (the alphabets differ) otherwise *)
Theorem C12_dfa_round_trip_comparable : forall d sched st order m R, valid_dfa d = true ->
  forallb sym_ok (d_syms d) = true ->
  dfa_to_regex d sched = Ok (Some st, order) -> compile st None = Ok m -> determinize_m m = Ok R ->
  valid_dfa R = true /\ L_dfa R =L L_dfa d /\
  ((forall a, In a (d_syms d) -> In a st) -> eq_m R d = Ok true) /\
  (~ (forall a, In a (d_syms d) -> In a st) -> eq_m R d = Err Mismatch).
Proof.
  intros d sched st order m R Hv Hs E Ec ER.
  destruct (C12_dfa_to_regex_derived_alphabet d sched Hv Hs) as [s0 [o0 [E0 H0]]]. rewrite E in E0. injection E0 as <- <-.
  destruct H0 as [m0 [C0 [V0 [S0 [L0 [Hsub Hiff]]]]]]. rewrite Ec in C0. injection C0 as <-.
  destruct (C07_determinize_lang m R V0 ER) as [VR [SR LR]].
  assert (LRd : L_dfa R =L L_dfa d) by (eapply lang_eq_trans; [exact LR|exact L0]).
  split; [exact VR|]. split; [exact LRd|].
  assert (Hss : same_syms R d = true <-> forall a, In a (d_syms d) -> In a st).
  { unfold same_syms. rewrite andb_true_iff, !subsetb_incl, SR. unfold incl. split.
    - intros [H1 H2]. apply Hiff. intro a. split; [apply H1|apply H2].
    - intro H. pose proof (proj1 Hiff H) as H'. split; intro a; apply H'. }
  split.
  - intro H. destruct (C06_eq_ne R d VR Hv (proj2 Hss H)) as [[b [Eb Hb]] _]. rewrite Eb. f_equal. apply Hb. exact LRd.
  - intro H. unfold eq_m, guard_syms. destruct (same_syms R d) eqn:Es; [exfalso; apply H; apply Hss; reflexivity|reflexivity].
Qed.
Print Assumptions C12_dfa_round_trip_comparable.

(* non-vacuity: ex_dfa_s (both characters occur in "(a|b)(a(a|b)|b)*"): the derived alphabet is the source's; "a*"
   presented over {a, b}: the string "a*" lacks b, the derived alphabet is {a}, the language is still right *)
Example C12_example_derived_alphabet :
  let e := mkdfa [0; 1] [26; 27] [(0, [(26, 0); (27, 1)]); (1, [(26, 1); (27, 1)])] 0 [0] false in
  let syms r := match r with Ok m => Some (n_syms m) | Err _ => None end in
  valid_dfa e = true /\ forallb sym_ok (d_syms e) = true /\
  dfa_to_regex e [] = Ok (Some [26; 7], [1; 0]) /\
  syms (compile [26; 7] None) = Some [26] /\ syms (compile [26; 7] (Some [26; 27])) = Some [26; 27] /\
  syms (compile [2; 26; 4; 27; 3; 2; 26; 2; 26; 4; 27; 3; 4; 27; 3; 7] None) = Some [26; 27] /\
  match compile [26; 7] None with
  | Ok m => map (nfa_acc m) [[]; [26]; [26; 26]; [27]] = map (dfa_acc e) [[]; [26]; [26; 26]; [27]]
  | Err _ => False
  end.
Proof. vm_compute. repeat split. Qed.
