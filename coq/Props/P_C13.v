(* C13 - Word counting, enumeration, lengths and random sampling match the language.
   Only statements, each closed by short glue, with Print Assumptions beneath. *)
From Coq Require Import List Arith NArith Bool Sorted.
From AV Require Import Base.Util Spec.Lang Spec.FA Spec.Words Model.Count Proofs.Pump Proofs.Count Proofs.Uniform.
Import ListNotations.

(* count_words_of_length(k) is the number of accepted words of length k *)
Theorem C13_cnt_exact : forall m k, valid_dfa m = true ->
  cnt m k (d_init m) = N.of_nat (length (filter (dfa_acc m) (all_words (set_of (d_syms m)) k))).
Proof. intros m k Hv. exact (cnt_from m Hv k (d_init m)). Qed.
Print Assumptions C13_cnt_exact.

(* words_of_length(k) is the lexicographically ordered list of all words of length k over the
   alphabet, filtered by acceptance: sorted, duplicate-free, complete, nothing else *)
Theorem C13_wl_exact : forall m k, valid_dfa m = true ->
  wl m k (d_init m) = filter (dfa_acc m) (all_words (set_of (d_syms m)) k) /\
  StronglySorted lex_lt (wl m k (d_init m)) /\ NoDup (wl m k (d_init m)) /\
  (forall w, In w (wl m k (d_init m)) <-> length w = k /\ dfa_acc m w = true).
Proof.
  intros m k Hv. pose proof (wl_from m Hv k (d_init m)) as E.
  assert (Hs : StronglySorted lex_lt (wl m k (d_init m))).
  { rewrite E. apply ss_filter. apply all_words_sorted. apply set_of_sorted. }
  split; [exact E|]. split; [exact Hs|]. split.
  - eapply ss_NoDup; [exact lex_lt_irrefl|exact Hs].
  - intro w. rewrite E. exact (oacc_words_In' m Hv k (d_init m) w).
Qed.
Print Assumptions C13_wl_exact.

(* minimum_word_length: the length of a shortest accepted word; EmptyLanguageException exactly
   when no word is accepted; no other outcome *)
Theorem C13_min_len_exact : forall m, valid_dfa m = true ->
  match min_len m with
  | Ok n => (exists w, length w = n /\ dfa_acc m w = true) /\
            (forall w, dfa_acc m w = true -> n <= length w)
  | Err Empty => forall w, dfa_acc m w = false
  | Err _ => False
  end.
Proof. intros m Hv. exact (min_len_spec m Hv). Qed.
Print Assumptions C13_min_len_exact.

(* random_word(k): whatever the draws (each below the total the code passes to randint at that
   step), the result is an accepted word of length k *)
Theorem C13_random_word_member : forall m k draws, valid_dfa m = true ->
  cnt m k (d_init m) <> 0%N -> length draws = k ->
  Forall2 N.lt draws (rw_totals m k (d_init m) draws) ->
  exists w, random_word m k draws = Ok w /\ length w = k /\ dfa_acc m w = true.
Proof. intros m k draws Hv. exact (random_word_member m Hv k draws). Qed.
Print Assumptions C13_random_word_member.

(* ValueError exactly when no word of length k is accepted *)
Theorem C13_random_word_none : forall m k draws, valid_dfa m = true ->
  ((forall w, length w = k -> dfa_acc m w = false) <-> random_word m k draws = Err ValueErr).
Proof. intros m k draws Hv. exact (random_word_none m Hv k draws). Qed.
Print Assumptions C13_random_word_none.

(* maximum_word_length: the exact maximum for a finite non-empty language, None exactly for an
   infinite language (accepted words of every length bound), EmptyLanguageException exactly for
   the empty language; no other outcome *)
Theorem C13_max_len_exact : forall m, valid_dfa m = true ->
  match max_len m with
  | Ok (Some n) => (exists w, length w = n /\ dfa_acc m w = true) /\
                   (forall w, dfa_acc m w = true -> length w <= n)
  | Ok None => forall n, exists w, dfa_acc m w = true /\ n < length w
  | Err Empty => forall w, dfa_acc m w = false
  | Err _ => False
  end.
Proof. intros m Hv. exact (max_len_spec m Hv). Qed.
Print Assumptions C13_max_len_exact.

(* the listing of the language the next two theorems refer to: accepted words shorter than L,
   ordered by (length, lexicographic), each exactly once *)
Theorem C13_words_below_listing : forall m L, valid_dfa m = true ->
  StronglySorted ll_lt (words_below m L) /\ NoDup (words_below m L) /\
  (forall w, In w (words_below m L) <-> dfa_acc m w = true /\ length w < L).
Proof.
  intros m L Hv. split; [exact (words_below_sorted m Hv L)|].
  split; [exact (words_below_NoDup m Hv L)|exact (words_below_In m Hv L)].
Qed.
Print Assumptions C13_words_below_listing.

(* cardinality / len: the number of accepted words (the language is bounded in length);
   InfiniteLanguageException exactly for an infinite language; 0 for the empty language *)
Theorem C13_cardinality_exact : forall m, valid_dfa m = true ->
  match cardinality m with
  | Ok c => exists L, (forall w, dfa_acc m w = true -> length w < L) /\
                      c = N.of_nat (length (words_below m L))
  | Err Infinite => forall n, exists w, dfa_acc m w = true /\ n < length w
  | Err _ => False
  end.
Proof. intros m Hv. exact (cardinality_spec m Hv). Qed.
Print Assumptions C13_cardinality_exact.

(* iteration (after the repair): the first n items are the first n words of the (length,
   lexicographic) listing; either n words are produced or the whole language is (so every
   accepted word eventually appears, once, and nothing else does); an empty language produces
   nothing.  For an infinite language the model searches n*(|Q|+1) levels from the minimum length;
   that is enough because every window of |Q| consecutive lengths holds an accepted word
   (C13_infinite_window, pumping down), so the model never answers "out of fuel". *)
Theorem C13_iter_order_complete : forall m n, valid_dfa m = true ->
  exists ws L, iter_upto m n = Ok ws /\ ws = firstn n (words_below m L) /\
               (length ws = n \/ (forall w, dfa_acc m w = true -> In w ws)).
Proof. intros m n Hv. exact (iter_upto_spec m Hv n). Qed.
Print Assumptions C13_iter_order_complete.

(* the fact behind the level budget: an accepted word at least as long as the number of states can
   be shortened by 1..|Q| symbols, hence an infinite language has an accepted word in every window
   of |Q| consecutive lengths, and at least n words shorter than lo + n*(|Q|+1) *)
Theorem C13_infinite_window : forall m, valid_dfa m = true ->
  (forall n, exists w, dfa_acc m w = true /\ n < length w) ->
  (forall L, exists w, dfa_acc m w = true /\ L <= length w < L + length (d_states m)) /\
  (forall lo n, n <= length (words_below m (lo + n * S (length (d_states m))))).
Proof.
  intros m Hv Hinf. split.
  - exact (Pump.window_word m Hv Hinf).
  - intros lo n. exact (words_below_grow m Hv lo n Hinf).
Qed.
Print Assumptions C13_infinite_window.

Theorem C13_iter_empty_language : forall m n, valid_dfa m = true ->
  (forall w, dfa_acc m w = false) -> iter_upto m n = Ok [].
Proof.
  intros m n Hv He. unfold iter_upto. destruct (isempty_spec m Hv) as [b [E Hb]]. rewrite E. simpl.
  destruct b; [reflexivity|]. apply Hb in He. discriminate.
Qed.
Print Assumptions C13_iter_empty_language.

(* random_word is uniform.  For every accepted word w of length k, consider the box B(w) = product
   of the ranges [0, total_i) the code draws from along w's run (path_bounds; total_i = cnt of the
   remaining length at the i-th state).  The draw vectors of B(w) that make random_word return w
   form a duplicate-free list vs with exactly path_num = prod_i cnt (remaining_i - 1) next_i elements
   (the product of the sizes of the selecting intervals), and |vs| * cnt k q0 = |B(w)| <> 0: the
   probability mass of w is |vs| / |B(w)| = 1 / (number of accepted words of length k). *)
Theorem C13_random_word_uniform : forall m k w, valid_dfa m = true ->
  length w = k -> dfa_acc m w = true ->
  exists vs, NoDup vs /\
    (forall ds, In ds vs <-> Forall2 N.lt ds (path_bounds m k (d_init m) w) /\ random_word m k ds = Ok w) /\
    N.of_nat (length vs) = path_num m k (d_init m) w /\
    (N.of_nat (length vs) * cnt m k (d_init m) = Nprod (path_bounds m k (d_init m) w))%N /\
    Nprod (path_bounds m k (d_init m) w) <> 0%N.
Proof. intros m k w Hv Hl Ha. exact (random_word_uniform m Hv k w Hl Ha). Qed.
Print Assumptions C13_random_word_uniform.

(* ... the same for every accepted word: any two accepted words of length k have equal mass
   (|vs1| / |B(w1)| = |vs2| / |B(w2)|, cross-multiplied) *)
Theorem C13_random_word_equal_mass : forall m k w1 w2, valid_dfa m = true ->
  length w1 = k -> dfa_acc m w1 = true -> length w2 = k -> dfa_acc m w2 = true ->
  (path_num m k (d_init m) w1 * Nprod (path_bounds m k (d_init m) w2) =
   path_num m k (d_init m) w2 * Nprod (path_bounds m k (d_init m) w1))%N.
Proof.
  intros m k w1 w2 Hv Hl1 Ha1 Hl2 Ha2.
  destruct (random_word_uniform m Hv k w1 Hl1 Ha1) as [vs1 [_ [_ [E1 [T1 _]]]]].
  destruct (random_word_uniform m Hv k w2 Hl2 Ha2) as [vs2 [_ [_ [E2 [T2 _]]]]].
  rewrite <- T1, <- T2, E1, E2.
  generalize (path_num m k (d_init m) w1) (path_num m k (d_init m) w2) (cnt m k (d_init m)).
  intros x y z. rewrite !N.mul_assoc, (N.mul_comm x y). reflexivity.
Qed.
Print Assumptions C13_random_word_equal_mass.

(* the per-step fact underneath: with the draw c ranging over [0, cnt (r+1) q), the row entry (a, t)
   is selected exactly for the c of an interval of cnt r t values inside that range (entries in the
   row's stored order), so symbol a is chosen for cnt r (delta q a) of the cnt (r+1) q draws *)
Theorem C13_random_word_step_interval : forall m r q a t, valid_dfa m = true ->
  In (a, t) (row_of m q) ->
  exists off, (off + cnt m r t <= cnt m (S r) q)%N /\
    forall c, pick m r (row_of m q) c = Some (a, t) <-> (off <= c < off + cnt m r t)%N.
Proof. intros m r q a t Hv Hin. exact (pick_interval m r (row_of m q) (row_keys_NoDup m Hv q) a t Hin). Qed.
Print Assumptions C13_random_word_step_interval.

(* non-vacuity: a partial DFA over {0,1} with rows stored out of order *)
Example C13_example :
  let m := mkdfa [0;1;2] [0;1] [(0,[(1,0);(0,1)]);(1,[(0,2)]);(2,[])] 0 [1;2] true in
  valid_dfa m = true /\ cnt m 3 0 = 2%N /\ wl m 3 0 = [[1;0;0];[1;1;0]] /\
  min_len m = Ok 1 /\ max_len m = Ok None /\ cardinality m = Err Infinite /\
  iter_upto m 4 = Ok [[0];[0;0];[1;0];[1;0;0]] /\
  random_word m 3 [1%N;0%N;0%N] = Ok [1;1;0] /\ random_word m 0 [] = Err ValueErr /\
  path_num m 3 0 [1;1;0] = 2%N /\ path_den m 3 0 [1;1;0] = 4%N /\ path_bounds m 3 0 [1;1;0] = [2%N;2%N;1%N].
Proof. vm_compute. repeat split. Qed.

Example C13_example_finite :
  let m := mkdfa [0;1;2] [0;1] [(0,[(0,1);(1,2)]);(1,[(0,2)]);(2,[])] 0 [2] true in
  valid_dfa m = true /\ min_len m = Ok 1 /\ max_len m = Ok (Some 2) /\ cardinality m = Ok 2%N /\
  iter_upto m 9 = Ok [[1];[0;0]] /\ isfinite m = Ok true /\ isempty m = Ok false.
Proof. vm_compute. repeat split. Qed.

Example C13_example_empty :
  let m := mkdfa [0] [0] [(0,[(0,0)])] 0 [] false in
  valid_dfa m = true /\ min_len m = Err Empty /\ max_len m = Err Empty /\ cardinality m = Ok 0%N /\
  iter_upto m 5 = Ok [] /\ isfinite m = Ok true /\ isempty m = Ok true.
Proof. vm_compute. repeat split. Qed.
