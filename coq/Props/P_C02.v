(* C02 - Pushdown acceptance: the NPDA explores all runs; the DPDA is deterministic and agrees.
   Only statements, each closed by [exact]/short glue, with Print Assumptions beneath.

   Vocabulary (Spec/PDA.v): pda_move = one textbook move on (state, remaining input, stack written
   top first); pda_moves m k = exactly k moves; pda_accepts m w = some move sequence from the start
   configuration (possibly empty) consumes w and ends accepting under the mode.
   The model (Model/PDA.v) keeps Python's stack orientation (top = last); [abs] reverses the stack.
   Runs are on explicit fuel (one unit per loop iteration); every statement holds for every fuel. *)
From Coq Require Import List Arith Bool.
From AV Require Import Base.Util Spec.Lang Spec.FA Spec.PDA Spec.PDARank Model.PDA Proofs.PDA Proofs.PDAFuel.
Import ListNotations.

(* PDAStack.replace / PDA._replace_stack_top: the first pushed symbol becomes the top, the rest of
   the stack below the old top is untouched; read top-first, the old top is replaced by the
   pushed string; the empty push pops *)
Theorem C02_replace_top_first : forall s a push,
  stack_top (replace_stack_top s (a :: push)) = Some a /\
  removelast (replace_stack_top s (a :: push)) = removelast s ++ rev push.
Proof. exact replace_top_first. Qed.
Print Assumptions C02_replace_top_first.

Theorem C02_replace_is_textbook_push : forall s push,
  rev (replace_stack_top s push) = push ++ tl (rev s) /\ stack_top s = hd_error (rev s).
Proof. intros s push. split; [apply replace_stack_top_rev|apply stack_top_rev]. Qed.
Print Assumptions C02_replace_is_textbook_push.

(* NPDA._get_next_configurations computes exactly the textbook one-move relation *)
Theorem C02_npda_next_is_move : forall m c c',
  In c' (npda_next m c) <-> pda_move m (abs c) (abs c').
Proof. exact npda_next_move. Qed.
Print Assumptions C02_npda_next_is_move.

(* read_input_stepwise of the NPDA: the first set yielded is the start configuration, and the
   k-th set yielded (the stopping one included) is, without repetitions, exactly the set of
   configurations reachable in exactly k moves *)
Theorem C02_npda_level_exact : forall m w fuel ys r,
  npda_stepwise m fuel w = (ys, r) ->
  nth 0 ys [] = [start_cfg m w] /\
  forall k, k < length ys ->
    NoDup (nth k ys []) /\
    forall c, In c (nth k ys []) <-> pda_moves m k (pda_start m w) (abs c).
Proof. intros m w fuel ys r. exact (npda_stepwise_levels m w fuel ys r). Qed.
Print Assumptions C02_npda_level_exact.

(* verdict, for every fuel: True only if an accepting move sequence exists (the start
   configuration included), False only if none exists *)
Theorem C02_npda_verdict_sound : forall m w fuel,
  (npda_accepts m fuel w = Ok true -> pda_accepts m w) /\
  (npda_accepts m fuel w = Ok false -> ~ pda_accepts m w).
Proof. intros m w fuel. exact (npda_verdict_sound m w fuel). Qed.
Print Assumptions C02_npda_verdict_sound.

(* ... and exactly when: an accepted word is accepted on every large enough fuel *)
Theorem C02_npda_accepts_iff : forall m w,
  pda_accepts m w <-> exists fuel0, forall fuel, fuel0 <= fuel -> npda_accepts m fuel w = Ok true.
Proof.
  intros m w. split; [exact (npda_accepts_complete m w)|].
  intros [f0 H]. exact (proj1 (npda_verdict_sound m w f0) (H f0 (le_n f0))).
Qed.
Print Assumptions C02_npda_accepts_iff.

(* the DPDA constructor's scan passes exactly when no configuration has two applicable moves *)
Theorem C02_det_check_iff : forall m, valid_pda m = true -> dpda_shape m = true ->
  (dpda_det_check m = true <-> deterministic m).
Proof.
  intros m Hv Hs. apply det_check_iff; [|exact Hs].
  exact (proj1 (valid_pda_parts m Hv)).
Qed.
Print Assumptions C02_det_check_iff.

(* the constructor as a whole, on a table whose keys are declared symbols and whose initial and
   final data are valid: it is accepted exactly when it is deterministic, and the only exception
   is NondeterminismError (Invalid 20) *)
Theorem C02_dpda_constructor : forall m, valid_pda m = true -> dpda_shape m = true ->
  (dpda_validate m = Ok tt <-> deterministic m) /\
  (dpda_validate m = Ok tt \/ dpda_validate m = Err (Invalid 20)).
Proof.
  intros m Hv Hs. rewrite (dpda_validate_det m Hv).
  pose proof (det_check_iff m (proj1 (valid_pda_parts m Hv)) Hs) as Hd.
  destruct (dpda_det_check m); split; auto.
  - split; [intros _; apply Hd; reflexivity|reflexivity].
  - split; [discriminate|]. intro H. apply Hd in H. discriminate.
Qed.
Print Assumptions C02_dpda_constructor.

(* DPDA.read_input_stepwise on a table the constructor accepts: the k-th configuration yielded is
   THE configuration reachable in k moves (there is no other) *)
Theorem C02_dpda_trace_unique : forall m w fuel ys r d,
  dpda_shape m = true -> dpda_det_check m = true ->
  dpda_stepwise m fuel w = (ys, r) ->
  forall k, k < length ys ->
    pda_moves m k (pda_start m w) (abs (nth k ys d)) /\
    forall c, pda_moves m k (pda_start m w) (abs c) -> c = nth k ys d.
Proof. intros m w fuel ys r d Hs Hd. exact (dpda_stepwise_trace m Hs Hd fuel w ys r d). Qed.
Print Assumptions C02_dpda_trace_unique.

(* its verdict is the textbook verdict, and the run ends by returning or with the rejection
   exception only (never IndexError/KeyError; Err Fuel is the model's budget) *)
Theorem C02_dpda_verdict_sound : forall m w fuel,
  dpda_shape m = true -> dpda_det_check m = true ->
  (dpda_accepts m fuel w = Ok true -> pda_accepts m w) /\
  (dpda_accepts m fuel w = Ok false -> ~ pda_accepts m w) /\
  (dpda_accepts m fuel w = Ok true \/ dpda_accepts m fuel w = Ok false \/
   dpda_accepts m fuel w = Err Fuel).
Proof.
  intros m w fuel Hs Hd. destruct (dpda_verdict_sound m Hs Hd fuel w) as [H1 H2].
  split; [exact H1|]. split; [exact H2|exact (dpda_accepts_outcome m Hs fuel w)].
Qed.
Print Assumptions C02_dpda_verdict_sound.

(* same table => same verdict, for all fuels on which both readers return one *)
Theorem C02_dpda_agrees_npda : forall m w f1 f2 b1 b2,
  dpda_shape m = true -> dpda_det_check m = true ->
  dpda_accepts m f1 w = Ok b1 -> npda_accepts m f2 w = Ok b2 -> b1 = b2.
Proof. intros m w f1 f2 b1 b2 Hs Hd. exact (dpda_agrees_npda m Hs Hd f1 f2 w b1 b2). Qed.
Print Assumptions C02_dpda_agrees_npda.

(* ---- fuel sufficiency (T2): tables whose empty-string moves cannot run forever ----
   Decidable sufficient condition (Spec/PDARank.v): eps_ranked rank N m = every empty-string move
   either pops without pushing, or replaces the top by ONE symbol and goes to a state of strictly
   larger rank (ranks capped at N); symbol moves are unrestricted.  eps_shrinking m is the case
   "every empty-string move pops without pushing" (rank constant, N = 0).  Every move then strictly
   decreases pda_potential, so no run from the start configuration has pda_fuel_bound N m w
   = |w| * (max_push m + 1) * (N + 1) + 2 * (N + 1) moves or more (initial stack height 1), and
   that much fuel always suffices: the readers return and their verdict is exactly acceptance. *)
Theorem C02_runs_bounded_for_ranked : forall rank N m w k c, eps_ranked rank N m = true ->
  pda_moves m k (pda_start m w) c -> k < pda_fuel_bound N m w.
Proof. exact run_length_bounded. Qed.
Print Assumptions C02_runs_bounded_for_ranked.

Theorem C02_npda_total_for_ranked : forall rank N m w fuel, eps_ranked rank N m = true ->
  pda_fuel_bound N m w <= fuel ->
  (npda_accepts m fuel w = Ok true \/ npda_accepts m fuel w = Ok false) /\
  (npda_accepts m fuel w = Ok true <-> pda_accepts m w) /\
  (npda_accepts m fuel w = Ok false <-> ~ pda_accepts m w).
Proof.
  intros rank N m w fuel Hr Hf. split; [exact (npda_total rank N m Hr w fuel Hf)|].
  exact (npda_decides rank N m Hr w fuel Hf).
Qed.
Print Assumptions C02_npda_total_for_ranked.

Theorem C02_dpda_total_for_ranked : forall rank N m w fuel, eps_ranked rank N m = true ->
  dpda_shape m = true -> dpda_det_check m = true ->
  pda_fuel_bound N m w <= fuel ->
  (dpda_accepts m fuel w = Ok true \/ dpda_accepts m fuel w = Ok false) /\
  (dpda_accepts m fuel w = Ok true <-> pda_accepts m w) /\
  (dpda_accepts m fuel w = Ok false <-> ~ pda_accepts m w).
Proof.
  intros rank N m w fuel Hr Hs Hd Hf. split; [exact (dpda_total rank N m Hr Hs Hd w fuel Hf)|].
  exact (dpda_decides rank N m Hr Hs Hd w fuel Hf).
Qed.
Print Assumptions C02_dpda_total_for_ranked.

(* the class "every empty-string move pops without pushing", bound written out *)
Theorem C02_npda_total_for_shrinking : forall m w fuel, eps_shrinking m = true ->
  length w * S (max_push m) + 2 <= fuel ->
  (npda_accepts m fuel w = Ok true \/ npda_accepts m fuel w = Ok false) /\
  (npda_accepts m fuel w = Ok true <-> pda_accepts m w) /\
  (npda_accepts m fuel w = Ok false <-> ~ pda_accepts m w).
Proof.
  intros m w fuel Hr Hf. rewrite <- fuel_bound_shrinking in Hf.
  exact (C02_npda_total_for_ranked (fun _ => 0) 0 m w fuel Hr Hf).
Qed.
Print Assumptions C02_npda_total_for_shrinking.

Theorem C02_dpda_total_for_shrinking : forall m w fuel, eps_shrinking m = true ->
  dpda_shape m = true -> dpda_det_check m = true ->
  length w * S (max_push m) + 2 <= fuel ->
  (dpda_accepts m fuel w = Ok true \/ dpda_accepts m fuel w = Ok false) /\
  (dpda_accepts m fuel w = Ok true <-> pda_accepts m w) /\
  (dpda_accepts m fuel w = Ok false <-> ~ pda_accepts m w).
Proof.
  intros m w fuel Hr Hs Hd Hf. rewrite <- fuel_bound_shrinking in Hf.
  exact (C02_dpda_total_for_ranked (fun _ => 0) 0 m w fuel Hr Hs Hd Hf).
Qed.
Print Assumptions C02_dpda_total_for_shrinking.

(* ---- non-vacuity ---- *)
(* the library's a^n b^n DPDA (states q0..q3 = 0..3, a b = 0 1, stack '0' '1' = 0 1) *)
Definition ex_anbn : pda :=
  mkpda [0;1;2;3] [0;1] [0;1]
    [(0, [(Some 0, [(0, [(1, [1;0])])])]);
     (1, [(Some 0, [(1, [(1, [1;1])])]); (Some 1, [(1, [(2, [])])])]);
     (2, [(Some 1, [(1, [(2, [])])]); (None, [(0, [(3, [0])])])])]
    0 0 [3] FinalState.

Example C02_anbn_example :
  valid_pda ex_anbn = true /\ dpda_shape ex_anbn = true /\ dpda_det_check ex_anbn = true /\
  dpda_validate ex_anbn = Ok tt /\
  dpda_accepts ex_anbn 20 [0;0;1;1] = Ok true /\ npda_accepts ex_anbn 20 [0;0;1;1] = Ok true /\
  dpda_accepts ex_anbn 20 [0;1;1] = Ok false /\ npda_accepts ex_anbn 20 [0;1;1] = Ok false /\
  dpda_accepts ex_anbn 2 [0;0;1;1] = Err Fuel /\
  fst (dpda_stepwise ex_anbn 20 [0;1]) = [(0,[0;1],[0]); (1,[1],[0;1]); (2,[],[0]); (3,[],[0])].
Proof. vm_compute. repeat split. Qed.

(* a nondeterministic NPDA: guess the middle of an even palindrome over {0,1}
   (stack: 0 = bottom marker, 1 2 = pushed copies of input 0 1), acceptance by empty stack *)
Definition ex_pal : pda :=
  mkpda [0;1] [0;1] [0;1;2]
    [(0, [(Some 0, [(0, [(0, [1;0])]); (1, [(0, [1;1]); (1, [])]); (2, [(0, [1;2])])]);
          (Some 1, [(0, [(0, [2;0])]); (1, [(0, [2;1])]); (2, [(0, [2;2]); (1, [])])]);
          (None, [(0, [(1, [])])])]);
     (1, [(Some 0, [(1, [(1, [])])]); (Some 1, [(2, [(1, [])])]); (None, [(0, [(1, [])])])])]
    0 0 [] EmptyStack.

Example C02_pal_example :
  valid_pda ex_pal = true /\
  npda_accepts ex_pal 20 [0;1;1;0] = Ok true /\ npda_accepts ex_pal 20 [] = Ok true /\
  npda_accepts ex_pal 20 [0;1] = Ok false /\ npda_accepts ex_pal 1 [0;1;1;0] = Err Fuel /\
  map (@length cfg) (fst (npda_stepwise ex_pal 20 [0;0])) = [1;2;2;1].
Proof. vm_compute. repeat split. Qed.

(* a table the constructor refuses: a symbol move next to an empty-string move on the same top *)
Example C02_nondeterministic_example :
  let m := mkpda [0;1] [0] [0] [(0, [(Some 0, [(0, [(1, [0])])]); (None, [(0, [(1, [0])])])])]
                 0 0 [1] FinalState in
  valid_pda m = true /\ dpda_shape m = true /\ dpda_det_check m = false /\
  dpda_validate m = Err (Invalid 20).
Proof. vm_compute. repeat split. Qed.

(* the statements bite: without the acceptance test on the start configuration (the code before
   the repair, DESIGN section 8 row 1) C02_dpda_agrees_npda fails on the one-rule table
   q0 --eps,Z/Z--> q1 with q0 final, read on the empty word *)
Example C02_unrepaired_reader_refuted :
  let m := mkpda [0;1] [0] [0] [(0, [(None, [(0, [(1, [0])])])])] 0 0 [0] FinalState in
  dpda_shape m = true /\ dpda_det_check m = true /\
  dpda_accepts_unrepaired m 5 [] = Ok false /\ npda_accepts m 5 [] = Ok true /\
  dpda_accepts m 5 [] = Ok true.
Proof. vm_compute. repeat split. Qed.

(* the fuel-sufficiency hypotheses are satisfiable: the a^n b^n DPDA is ranked by its state
   numbers (its one empty-string move q2 -> q3 keeps the height), the palindrome NPDA's
   empty-string moves all pop; a growing empty-string loop is in neither class *)
Example C02_ranked_examples :
  eps_ranked (fun q => q) 3 ex_anbn = true /\ eps_shrinking ex_anbn = false /\
  pda_fuel_bound 3 ex_anbn [0;0;1;1] = 56 /\
  dpda_accepts ex_anbn 56 [0;0;1;1] = Ok true /\ npda_accepts ex_anbn 56 [0;1;1] = Ok false /\
  eps_shrinking ex_pal = true /\ max_push ex_pal = 2 /\
  npda_accepts ex_pal (4 * 3 + 2) [0;1;1;0] = Ok true /\ npda_accepts ex_pal (2 * 3 + 2) [0;1] = Ok false /\
  (let g := mkpda [0] [0] [0] [(0, [(None, [(0, [(0, [0;0])])])])] 0 0 [] FinalState in
   eps_ranked (fun q => q) 5 g = false /\ npda_accepts g 30 [] = Err Fuel).
Proof. vm_compute. repeat split. Qed.
