(* C10 - Regular expressions compile to an NFA with exactly the denoted language.
   Only statements closed by [exact] / short glue, with Print Assumptions beneath. *)
From Coq Require Import List Arith Bool.
From AV Require Import Base.Util Spec.Lang Spec.FA Spec.Regex Model.Decide
                       Model.RegexLex Model.RegexParse Model.RegexBuild
                       Proofs.RegexFrag Proofs.RegexProd Proofs.RegexBuild Proofs.RegexParse
                       Proofs.RegexGrammar Proofs.RegexShow
                       Proofs.RegexCompile Proofs.RegexTotal.
Import ListNotations.

(* The NFA the builder produces for an AST accepts exactly the denotation: literals, wildcard
   over the given alphabet, union, intersection, shuffle, concatenation, * + ? and {lo,hi}
   {lo,} {,hi} with every bound shape (upper bound 0, lo = hi, nested), for every alphabet
   and every word. *)
Theorem C10_build_lang : forall sigma r,
  L_nfa (nfa_of sigma (fst (build sigma r 0))) =L den sigma r.
Proof. exact build_lang. Qed.
Print Assumptions C10_build_lang.

(* the fragment invariant every operation of the builder keeps (fresh names in the counter's
   range, no duplicate state, edges between states, no edge into the initial state - what
   `repeat` relies on when it marks the operand's initial state final) *)
Theorem C10_fragment_invariant : forall sigma r c,
  wf c (fst (build sigma r c)) (snd (build sigma r c)).
Proof. intros sigma r c. exact (build_wf sigma r c). Qed.
Print Assumptions C10_fragment_invariant.

(* NFA.from_regex as a whole (lexer, validator, concat insertion, shunting-yard, postfix
   evaluation, builder, NFA constructor): whenever it returns, the result is a valid NFA over
   the requested / derived alphabet whose language is the denotation of the parsed expression *)
Theorem C10_from_regex_sound : forall cs alpha m, alpha_ok alpha -> compile cs alpha = Ok m ->
  exists sigma r, alphabet_of cs alpha = Ok sigma /\ parse cs = Ok r /\
    valid_nfa m = true /\ n_syms m = sigma /\ L_nfa m =L den sigma r.
Proof. exact compile_sound. Qed.
Print Assumptions C10_from_regex_sound.

(* the builder never fails on an AST whose literals belong to the alphabet; the literals of a
   parsed expression are characters of the string *)
Theorem C10_from_regex_total : forall sigma r, (forall a, In a (re_syms r) -> In a sigma) ->
  exists m, compile_re sigma r = Ok m.
Proof. exact compile_re_total. Qed.
Print Assumptions C10_from_regex_total.

(* with upper bound 0 no copy is accepted (the repaired defect): r{0,0} denotes and compiles to {""} *)
Theorem C10_upper_bound_zero : forall sigma r,
  L_nfa (nfa_of sigma (fst (build sigma (RRep r 0 (Some 0)) 0))) =L l_eps.
Proof.
  intros sigma r. eapply lang_eq_trans; [apply build_lang|]. intro w. simpl. unfold l_rep, l_eps. split.
  - intros [k [_ [Hk H]]]. simpl in Hk. assert (k = 0) by (apply Nat.le_0_r; exact Hk). subst k. exact H.
  - intros ->. exists 0. split; [apply Nat.le_refl|]. split; [apply Nat.le_refl|reflexivity].
Qed.
Print Assumptions C10_upper_bound_zero.

(* precedence and associativity: parsing the minimal-parenthesis printing of any AST (postfix
   operators bind tighter than concatenation, concatenation tighter than | & ^, which are
   equal and left-associative) gives the AST back; it also passes validation *)
Theorem C10_parse_print : forall r,
  validate_tokens (toks r 1) = Ok tt /\ parse_tokens (toks r 1) = Ok r.
Proof. intro r. split; [exact (print_validates r)|exact (parse_print r)]. Qed.
Print Assumptions C10_parse_print.

(* redundant parentheses around ANY sub-expression occurrences change nothing.  [pre] is the
   AST with an extra constructor PParen, [erase] forgets it, [ptoks p 1] prints the necessary
   parentheses of [toks] plus one pair per PParen node (ptoks (embed r) = toks r): the printing
   validates and parses to the undecorated AST - hence to the same denotation. *)
Theorem C10_redundant_parens : forall p,
  validate_tokens (ptoks p 1) = Ok tt /\ parse_tokens (ptoks p 1) = Ok (erase p).
Proof. exact redundant_parens_any. Qed.
Print Assumptions C10_redundant_parens.

Theorem C10_redundant_parens_den : forall p sigma, exists r,
  parse_tokens (ptoks p 1) = Ok r /\ den sigma r =L den sigma (erase p).
Proof.
  intros p sigma. exists (erase p). split; [exact (proj2 (redundant_parens_any p))|].
  intro w. split; intro H; exact H.
Qed.
Print Assumptions C10_redundant_parens_den.

Theorem C10_decoration_conservative : forall r l, ptoks (embed r) l = toks r l /\ erase (embed r) = r.
Proof. intros r l. split; [exact (ptoks_embed r l)|exact (erase_embed r)]. Qed.
Print Assumptions C10_decoration_conservative.

(* the outer pair around the minimal printing (the former statement) *)
Theorem C10_redundant_outer_parens : forall r,
  parse_tokens ([TLParen] ++ toks r 1 ++ [TRParen]) = Ok r.
Proof. exact redundant_parens. Qed.
Print Assumptions C10_redundant_outer_parens.

(* character level.  [show_nat] is the decimal printer (most significant digit first), the
   text of a quantifier is "{" lo "," hi "}" ("{" lo ",}" without upper bound): int() reads the
   bound back and the lexer produces the one quantifier token (lo <= hi is the lexer's own
   requirement, InvalidRegexError otherwise) *)
Theorem C10_show_quant : forall lo hi, le_opt lo hi ->
  parse_int (show_nat lo) = Ok lo /\ lex (show_quant lo hi) = Ok [TQuant lo hi] /\
  clean (show_quant lo hi) [TQuant lo hi].
Proof.
  intros lo hi H. split; [exact (parse_int_show lo)|].
  split; [exact (lex_show_quant lo hi H)|exact (clean_show_quant lo hi H)].
Qed.
Print Assumptions C10_show_quant.

(* the round trip on CHARACTER strings: for every AST whose symbols are non-reserved,
   non-whitespace characters and whose bounds satisfy lo <= hi, with redundant parentheses
   around any sub-expressions (p) and any blanks / tabs at any token boundaries (bl i in front
   of token i), parse_regex returns the AST *)
Theorem C10_parse_show : forall p bl,
  re_printable (erase p) -> (forall i, forallb is_blank (bl i) = true) ->
  parse (show_sp bl 0 (ptoks p 1)) = Ok (erase p).
Proof. exact parse_show_general. Qed.
Print Assumptions C10_parse_show.

Theorem C10_parse_show_minimal : forall r, re_printable r -> parse (show r) = Ok r.
Proof. exact parse_show. Qed.
Print Assumptions C10_parse_show_minimal.

(* blanks at any token boundary are ignored by the lexer *)
Theorem C10_blanks_ignored : forall u ts bl v, clean u ts -> forallb is_blank bl = true ->
  lex (u ++ bl ++ v) = lex (u ++ v).
Proof. exact blanks_ignored. Qed.
Print Assumptions C10_blanks_ignored.

(* token boundaries exist: single-character tokens, symbols, quantifiers, concatenations *)
Theorem C10_token_boundaries :
  (forall c t, single_token c = Some t -> clean [c] [t]) /\
  (forall c, single_token c = None -> c <> 11 -> is_blank c = false -> is_ws c = false -> clean [c] [TSym c]) /\
  (forall g1 g2 t, (forall c, In c g1 -> c <> 13 /\ c <> 14) -> (forall c, In c g2 -> c <> 12 /\ c <> 14) ->
                   mk_quant g1 g2 = Ok t -> clean (11 :: g1 ++ 13 :: g2 ++ [12]) [t]) /\
  (forall u1 t1 u2 t2, clean u1 t1 -> clean u2 t2 -> clean (u1 ++ u2) (t1 ++ t2)).
Proof. repeat split; [exact clean_single|exact clean_sym|exact clean_quant|exact clean_app]. Qed.
Print Assumptions C10_token_boundaries.

(* non-vacuity: "a{0,0}" over {a,b} accepts "" and not "a"; "a | b*" parses with * under |;
   "(a|b)*&.." has the 4-state-ish product language *)
Example C10_example_upper0 :
  exists m, compile [26; 11; 16; 13; 16; 12] (Some [26; 27]) = Ok m /\
            nfa_acc m [] = true /\ nfa_acc m [26] = false /\ valid_nfa m = true.
Proof. eexists. split; [vm_compute; reflexivity|]. vm_compute. repeat split. Qed.

Example C10_example_parse :
  parse [26; 0; 4; 0; 27; 7] = Ok (RUnion (RSym 26) (RStar (RSym 27))) /\
  parse [26; 27; 7; 11; 17; 13; 12] = Ok (RCat (RSym 26) (RRep (RStar (RSym 27)) 1 None)).
Proof. vm_compute. split; reflexivity. Qed.

Example C10_example_products :
  exists m, compile [2; 26; 4; 27; 3; 7; 5; 10; 10; 6; 26] None = Ok m /\
            nfa_acc m [26; 27; 26] = true /\ nfa_acc m [27; 27] = false /\ nfa_acc m [26; 26; 27] = true.
Proof. eexists. split; [vm_compute; reflexivity|]. vm_compute. repeat split. Qed.

(* "((a))|(b{2,13})" with blanks: the printed characters, and the round trip *)
Example C10_example_show :
  pshow (PUnion (PParen (PParen (PSym 26))) (PParen (PRep (PSym 27) 2 (Some 13))))
  = [2; 2; 26; 3; 3; 4; 2; 27; 11; 18; 13; 17; 19; 12; 3] /\
  parse [2; 2; 26; 3; 3; 0; 4; 1; 2; 27; 11; 18; 13; 17; 19; 12; 3]
  = Ok (RUnion (RSym 26) (RRep (RSym 27) 2 (Some 13))).
Proof. vm_compute. split; reflexivity. Qed.
