(* C06 - DFA language comparisons, emptiness and finiteness decisions are exact. *)
From Coq Require Import List Arith Bool.
From AV Require Import Base.Util Spec.Lang Spec.FA Model.Decide Model.Product Proofs.Decide Proofs.Product Proofs.Finite.
From AV Require Import Model.HK Proofs.HK.
Import ListNotations.

(* Each comparison returns a boolean (never an error) for valid operands over the same alphabet,
   and the boolean is exactly the statement about the two languages - which mentions nothing but
   L_dfa, hence is independent of state names, unreachable or dead states, and partiality. *)
Theorem C06_eq_ne : forall A B, valid_dfa A = true -> valid_dfa B = true -> same_syms A B = true ->
  (exists b, eq_m A B = Ok b /\ (b = true <-> L_dfa A =L L_dfa B)) /\
  (exists b, ne_m A B = Ok b /\ (b = true <-> ~ (L_dfa A =L L_dfa B))).
Proof. intros A B HA HB Hs. split; [exact (eq_spec A B HA HB Hs)|exact (ne_spec A B HA HB Hs)]. Qed.
Print Assumptions C06_eq_ne.

Theorem C06_subset_superset : forall A B, valid_dfa A = true -> valid_dfa B = true -> same_syms A B = true ->
  (exists b, issubset_m A B = Ok b /\ (b = true <-> forall w, L_dfa A w -> L_dfa B w)) /\
  (exists b, issuperset_m A B = Ok b /\ (b = true <-> forall w, L_dfa B w -> L_dfa A w)).
Proof. intros A B HA HB Hs. split; [exact (issubset_spec A B HA HB Hs)|exact (issuperset_spec A B HA HB Hs)]. Qed.
Print Assumptions C06_subset_superset.

Theorem C06_strict : forall A B, valid_dfa A = true -> valid_dfa B = true -> same_syms A B = true ->
  (exists b, lt_m A B = Ok b /\
     (b = true <-> (forall w, L_dfa A w -> L_dfa B w) /\ ~ (L_dfa A =L L_dfa B))) /\
  (exists b, gt_m A B = Ok b /\
     (b = true <-> (forall w, L_dfa B w -> L_dfa A w) /\ ~ (L_dfa A =L L_dfa B))).
Proof. intros A B HA HB Hs. split; [exact (lt_spec A B HA HB Hs)|exact (gt_spec A B HA HB Hs)]. Qed.
Print Assumptions C06_strict.

Theorem C06_disjoint : forall A B, valid_dfa A = true -> valid_dfa B = true -> same_syms A B = true ->
  exists b, isdisjoint_m A B = Ok b /\ (b = true <-> forall w, ~ (L_dfa A w /\ L_dfa B w)).
Proof. exact isdisjoint_spec. Qed.
Print Assumptions C06_disjoint.

Theorem C06_isempty : forall m, valid_dfa m = true ->
  exists b, isempty_m m = Ok b /\ (b = true <-> forall w, ~ L_dfa m w).
Proof. exact isempty_spec. Qed.
Print Assumptions C06_isempty.

(* isfinite: a boolean, never an error, and it is true exactly when the lengths of the accepted words
   are bounded (which, over a finite alphabet, is finiteness of the language) *)
Theorem C06_isfinite : forall m, valid_dfa m = true ->
  exists b, isfinite_m m = Ok b /\ (b = true <-> exists n, forall w, L_dfa m w -> length w <= n).
Proof. exact isfinite_spec. Qed.
Print Assumptions C06_isfinite.

(* the two answers read constructively: True gives the bound |states|, False gives, for every n, an
   accepted word longer than n *)
Theorem C06_isfinite_true_bound : forall m, valid_dfa m = true -> isfinite_m m = Ok true ->
  forall w, L_dfa m w -> length w < length (d_states m).
Proof. exact isfinite_true_bound. Qed.
Print Assumptions C06_isfinite_true_bound.

Theorem C06_isfinite_false_witness : forall m, valid_dfa m = true -> isfinite_m m = Ok false ->
  forall n, exists w, L_dfa m w /\ n < length w.
Proof. exact isfinite_false_witness. Qed.
Print Assumptions C06_isfinite_false_witness.

(* alphabets that differ are refused *)
Theorem C06_mismatch : forall A B, same_syms A B = false ->
  issubset_m A B = Err Mismatch /\ isdisjoint_m A B = Err Mismatch /\ eq_m A B = Err Mismatch.
Proof. intros A B H. unfold issubset_m, isdisjoint_m, eq_m, guard_syms. rewrite H. repeat split. Qed.
Print Assumptions C06_mismatch.

Example C06_example :
  let A := mkdfa [0;1] [0] [(0,[(0,1)]);(1,[(0,0)])] 0 [0] false in     (* even number of 0s *)
  let B := mkdfa [0;1;2] [0] [(0,[(0,1)]);(1,[(0,2)]);(2,[])] 0 [0;2] true in (* {e, 00} *)
  valid_dfa A = true /\ valid_dfa B = true /\ same_syms A B = true /\
  issubset_m B A = Ok true /\ lt_m B A = Ok true /\ eq_m A B = Ok false /\ isdisjoint_m A B = Ok false /\
  isfinite_m B = Ok true /\ isfinite_m A = Ok false /\ isempty_m A = Ok false.
Proof. vm_compute. repeat split. Qed.

(* == as it is coded (Model/HK.v: Hopcroft-Karp over pairs (state, operand index) with the None sink, the
   networkx union-find (parent forest, path compression, weights) and the explicit stack, run on fuel |Q_A|+|Q_B|+3): for EVERY iteration order
   `syms` of the input-symbol set and EVERY tie-break `tie` of the union-find among roots of equal weight,
   the mirror model is the same function of the operands as the specification model eq_m - it returns
   (never runs out of fuel, never an error) and its boolean is language equality. *)
Theorem C06_hk_eq_faithful : forall A B tie syms, valid_dfa A = true -> valid_dfa B = true ->
  (forall a, In a syms <-> In a (d_syms A)) ->
  hk_eq_gen tie syms A B = eq_m A B /\
  (same_syms A B = true ->
   exists b, hk_eq_gen tie syms A B = Ok b /\ (b = true <-> L_dfa A =L L_dfa B)).
Proof.
  intros A B tie syms HA HB Hs. split.
  - exact (hk_eq_gen_eq_m A B HA HB tie syms Hs).
  - exact (hk_eq_gen_spec A B HA HB tie syms Hs).
Qed.
Print Assumptions C06_hk_eq_faithful.

(* the union-find inside the mirror model is networkx's parent forest (walk to the root, compression of the
   walked path, one re-pointing per union); it is interchangeable, on every run of the loop over any two
   deterministic systems and for every fuel, with the flat structure the correctness proof uses: path
   compression and the shape of the forest are not observable *)
Theorem C06_hk_path_compression_unobservable :
  forall (X Y : Type) (eqbX : X -> X -> bool) (eqbY : Y -> Y -> bool), eqb_ok eqbX -> eqb_ok eqbY ->
  forall stepX stepY finX finY tie syms fuel x0 y0,
    hk_run_forest X Y eqbX eqbY stepX stepY finX finY tie syms fuel x0 y0 =
    hk_run_flat X Y eqbX eqbY stepX stepY finX finY tie syms fuel x0 y0.
Proof.
  intros X Y eqbX eqbY HX HY stepX stepY finX finY tie syms fuel x0 y0.
  exact (hkf_run_eq X Y eqbX eqbY HX HY stepX stepY finX finY tie syms x0 y0 fuel).
Qed.
Print Assumptions C06_hk_path_compression_unobservable.

(* the variant of the loop that also records the arguments of every union call (what the harness observes through
   a spy on networkx's UnionFind and compares call by call) is the same loop: its answer is hk_eq_gen's *)
Theorem C06_hk_trace_model : forall tie syms A B, fst (hk_eq_log tie syms A B) = hk_eq_gen tie syms A B.
Proof. exact hk_eq_log_fst. Qed.
Print Assumptions C06_hk_trace_model.

Example C06_hk_example :
  let A := mkdfa [0;1] [0;1] [(0,[(0,1);(1,0)]);(1,[(0,0);(1,1)])] 0 [0] false in  (* even number of 0s *)
  let B := mkdfa [0;1;2;3] [0;1] [(0,[(0,1);(1,2)]);(1,[(0,2);(1,1)]);(2,[(0,1);(1,0)]);(3,[])] 0 [0;2] true in
  let C := mkdfa [0;1;2] [0;1] [(0,[(0,1)]);(1,[(0,2)]);(2,[])] 0 [0;2] true in     (* {e, 00} *)
  valid_dfa A = true /\ valid_dfa B = true /\ valid_dfa C = true /\
  hk_eq A B = Ok true /\ hk_eq B A = Ok true /\ hk_eq A C = Ok false /\ hk_eq C C = Ok true /\
  hk_eq_gen (fun _ _ => false) [1;0] A B = Ok true /\ hk_eq_gen (fun _ _ => false) [1;0] C A = Ok false /\
  hk_eq_log (fun _ _ => true) [0;1] A B =
    (Ok true, [(inl (Some 0), inr (Some 0)); (inl (Some 1), inr (Some 1)); (inl (Some 0), inr (Some 2))]).
Proof. vm_compute. repeat split. Qed.
