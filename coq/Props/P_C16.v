(* C16 - the edit-distance NFA accepts exactly the words within the allowed number of edits of
   the enabled kinds; a negative bound or no enabled kind is refused with ValueError. *)
From Coq Require Import List Arith ZArith Bool.
From AV Require Import Base.Util Spec.Lang Spec.FA Spec.Edit Model.EditNFA Model.Decide Proofs.EditNFA.
Import ListNotations.

(* For every alphabet, reference word over it, bound k >= 0 and non-empty set of kinds the
   construction succeeds and the NFA's language (textbook acceptance with empty-string moves,
   all words over all symbols, also foreign ones) is exactly the set of words derivable from the
   reference word with at most k enabled edits. *)
Theorem C16_edit_nfa_lang : forall syms ref k ins del sub,
  (0 <= k)%Z -> (ins || del || sub) = true -> (forall c, In c ref -> In c syms) ->
  exists m, edit_nfa syms ref k ins del sub = Ok m /\
            forall w, L_nfa m w <-> within syms ins del sub ref w (Z.to_nat k).
Proof.
  intros syms ref k ins del sub Hk Hf Hr. eexists. split; [exact (edit_nfa_total syms ref k ins del sub Hk Hf Hr)|].
  intro w. apply grid_nfa_lang.
Qed.
Print Assumptions C16_edit_nfa_lang.

(* whenever the model returns an NFA at all, that NFA has the language above (so nothing is
   hidden in the side conditions of the previous theorem) and is a valid NFA *)
Theorem C16_edit_nfa_valid : forall syms ref k ins del sub m,
  nodupb syms = true -> edit_nfa syms ref k ins del sub = Ok m ->
  valid_nfa m = true /\ n_syms m = syms /\
  forall w, L_nfa m w <-> within syms ins del sub ref w (Z.to_nat k).
Proof.
  intros syms ref k ins del sub m Hnd H. apply edit_nfa_ok in H. destruct H as [_ [_ [Hr ->]]].
  split; [exact (grid_nfa_valid syms (Z.to_nat k) ins del sub ref Hnd Hr)|]. split; [reflexivity|].
  intro w. apply grid_nfa_lang.
Qed.
Print Assumptions C16_edit_nfa_valid.

(* ValueError exactly for a negative bound or no enabled kind; otherwise the only refusal left
   is the NFA constructor's own (a reference symbol outside the alphabet) *)
Theorem C16_edit_refuses : forall syms ref k ins del sub,
  (edit_nfa syms ref k ins del sub = Err ValueErr <-> ((k < 0)%Z \/ (ins || del || sub) = false)) /\
  (forall e, edit_nfa syms ref k ins del sub = Err e -> e = ValueErr \/
             (e = Invalid 2 /\ exists c, In c ref /\ ~ In c syms)).
Proof.
  intros syms ref k ins del sub. split; [exact (edit_nfa_value_error syms ref k ins del sub)|].
  intros e H. unfold edit_nfa in H. destruct (Z.ltb k 0); [left; congruence|].
  destruct (negb (ins || del || sub)); [left; congruence|].
  destruct (forallb (fun c => memb c syms) ref) eqn:E; simpl in H; [discriminate|].
  right. split; [congruence|].
  assert (Hex : existsb (fun c => negb (memb c syms)) ref = true).
  { clear H. induction ref as [|c r IH]; simpl in *; [discriminate|].
    destruct (memb c syms); simpl in *; [apply IH; exact E|reflexivity]. }
  apply existsb_exists in Hex. destruct Hex as [c [Hc Hm]]. exists c. split; [exact Hc|].
  apply negb_true_iff in Hm. apply memb_false. exact Hm.
Qed.
Print Assumptions C16_edit_refuses.

(* the specification relation means what it should: budget 0 = the reference word itself; the
   lengths differ by at most the cost; without insertion and deletion (Hamming) lengths agree *)
Theorem C16_edits_relation_sane : forall syms ins del sub ref w c,
  (edits syms ins del sub ref w 0 <-> w = ref) /\
  (edits syms ins del sub ref w c -> length ref <= length w + c /\ length w <= length ref + c) /\
  (ins = false -> del = false -> edits syms ins del sub ref w c -> length w = length ref).
Proof.
  intros. split; [apply edits_zero|]. split; [apply edits_length|apply edits_hamming].
Qed.
Print Assumptions C16_edits_relation_sane.

(* with all three kinds enabled (the default) the NFA accepts, among the words over the alphabet,
   exactly those at classical Levenshtein distance <= k from the reference ([lev] is the usual
   recursive definition); for any subset of kinds the cost of a derivation is at least that
   distance *)
Theorem C16_levenshtein : forall syms ref k,
  (0 <= k)%Z -> (forall c, In c ref -> In c syms) ->
  exists m, edit_nfa syms ref k true true true = Ok m /\
            forall w, (forall a, In a w -> In a syms) -> (L_nfa m w <-> lev ref w <= Z.to_nat k).
Proof.
  intros syms ref k Hk Hr.
  destruct (C16_edit_nfa_lang syms ref k true true true Hk eq_refl Hr) as [m [Hm HL]].
  exists m. split; [exact Hm|]. intros w Hw. rewrite (HL w). apply within_lev. exact Hw.
Qed.
Print Assumptions C16_levenshtein.

Theorem C16_cost_at_least_levenshtein : forall syms ins del sub ref w c,
  edits syms ins del sub ref w c -> lev ref w <= c.
Proof. intros syms ins del sub ref w c. apply edits_lev_le. Qed.
Print Assumptions C16_cost_at_least_levenshtein.

(* non-vacuity: reference "ab" (symbols 0,1), one edit of any kind *)
Example C16_example :
  match edit_nfa [0;1] [0;1] 1 true true true with
  | Ok m => valid_nfa m = true /\ length (n_states m) = 6 /\
            map (nfa_acc m) [[0;1]; [0]; [1]; [1;1]; [0;1;1]; [0;0;1]; []; [1;0]; [0;1;0;1]; [0;2]]
            = [true; true; true; true; true; true; false; false; false; false]
  | Err _ => False
  end.
Proof. vm_compute. repeat split. Qed.

Example C16_hamming_example :
  match edit_nfa [0;1] [0;1;0] 1 false false true with
  | Ok m => map (nfa_acc m) [[0;1;0]; [1;1;0]; [0;1;1]; [1;1;1]; [0;1]; [0;1;0;0]]
            = [true; true; true; false; false; false]
  | Err _ => False
  end.
Proof. vm_compute. reflexivity. Qed.

Example C16_lev_example : lev [0;1;0;1] [1;0;1] = 1 /\ lev [0;0] [1;1;1] = 3 /\ lev [] [0] = 1.
Proof. vm_compute. repeat split. Qed.

Example C16_refusal_example :
  edit_nfa [0;1] [0;1] (-1) true true true = Err ValueErr /\
  edit_nfa [0;1] [0;1] 2 false false false = Err ValueErr /\
  edit_nfa [0;1] [0;2] 2 true false false = Err (Invalid 2).
Proof. vm_compute. repeat split. Qed.

Example C16_edits_example :
  within [0;1] true true true [0;1] [1] 1 /\ ~ within [0;1] false false true [0;1] [1] 5.
Proof.
  split.
  - exists 1. split; [apply le_n|]. apply ed_del; [reflexivity|]. apply ed_match. apply ed_nil.
  - intros [c [_ H]]. apply (edits_hamming [0;1] false false true [0;1] [1] c) in H; [discriminate| |]; reflexivity.
Qed.
