(* C20, continued: NFA instances.  The state is the per-instance memo of `_get_lambda_closures`
   (Model/NFACache.v: the only thing an NFA instance caches), one memo per live instance; `nstep`
   runs one public query (accepts_input, read_input_stepwise cut after n items, ==, DFA.from_nfa,
   eliminate_lambda, reverse) consulting the memo when it is filled and filling it when it is
   empty, exactly where the code does; `npure` computes every table from scratch and keeps no
   state.  Histories are arbitrary finite lists of queries (no bound), over any list of
   definitions (no validity needed for the statements of this first part). *)
From Coq Require Import List Arith NArith Bool.
From AV Require Import Base.Util Spec.Lang Spec.FA Model.FARun Model.Decide Model.Subset Model.Minimize Model.HK
     Model.NFAOps Model.NFACache Proofs.NFACache.
Import ListNotations.

(* fresh instances satisfy the invariant "a memo, when filled, holds the table computed from scratch" *)
Theorem C20_nfa_cache_inv_init : forall defs, memo_inv defs (fresh_memos defs).
Proof. exact memo_inv_fresh. Qed.
Print Assumptions C20_nfa_cache_inv_init.

(* what the invariant says, instance by instance *)
Theorem C20_nfa_cache_inv_meaning : forall defs st i m cl, memo_inv defs st ->
  nth_error defs i = Some m -> nth_error st i = Some (Some cl) -> nfa_closures m = Ok cl.
Proof.
  intros defs st i m cl I Ei Es. destruct (inv_nth defs st i m I Ei) as [c [Ec Hc]].
  rewrite Es in Ec. inversion Ec. subst c. apply Hc. reflexivity.
Qed.
Print Assumptions C20_nfa_cache_inv_meaning.

(* every query keeps it *)
Theorem C20_nfa_cache_inv_step : forall defs st q, memo_inv defs st -> memo_inv defs (fst (nstep defs st q)).
Proof. intros defs st q I. exact (proj1 (step_ok defs st q I)). Qed.
Print Assumptions C20_nfa_cache_inv_step.

(* history independence: after ANY finite sequence of queries on the same instances, the answer to any
   query is the stateless answer *)
Theorem C20_nfa_history_independent : forall defs qs q,
  snd (nstep defs (fold_left (fun s q => fst (nstep defs s q)) qs (fresh_memos defs)) q) = npure defs q.
Proof. intros defs qs q. exact (nfa_history_independent defs qs q). Qed.
Print Assumptions C20_nfa_history_independent.

(* ... which is literally the first call on fresh instances *)
Theorem C20_nfa_same_as_first_call : forall defs qs q,
  snd (nstep defs (fold_left (fun s q => fst (nstep defs s q)) qs (fresh_memos defs)) q)
  = snd (nstep defs (fresh_memos defs) q).
Proof.
  intros defs qs q. rewrite <- pure_is_first_call. exact (nfa_history_independent defs qs q).
Qed.
Print Assumptions C20_nfa_same_as_first_call.

(* the same for every answer along the history *)
Theorem C20_nfa_answers_along_history : forall defs qs,
  nanswers defs (fresh_memos defs) qs = map (npure defs) qs.
Proof. intros defs qs. exact (nfa_answers_ok defs qs _ (memo_inv_fresh defs)). Qed.
Print Assumptions C20_nfa_answers_along_history.

(* the memo is not a fiction of the model: after a query that consults it the instance holds the table *)
Theorem C20_nfa_memo_filled : forall defs qs i m cl w,
  nth_error defs i = Some m -> nfa_closures m = Ok cl ->
  nth_error (fst (nstep defs (nrun_history defs (fresh_memos defs) qs) (NAccepts i w))) i = Some (Some cl).
Proof.
  intros defs qs i m cl w Ei Ecl. apply (memo_filled defs _ i m cl w); [|exact Ei|exact Ecl].
  apply run_history_inv. apply memo_inv_fresh.
Qed.
Print Assumptions C20_nfa_memo_filled.
