(* C20, continued: NFA instances.  The state is the per-instance memo of `_get_lambda_closures`
   (Model/NFACache.v: the only thing an NFA instance caches), one memo per live instance; `nstep`
   runs one public query (accepts_input, read_input_stepwise cut after n items, ==, DFA.from_nfa,
   eliminate_lambda, reverse) consulting the memo when it is filled and filling it when it is
   empty, exactly where the code does; `npure` computes every table from scratch and keeps no
   state.  Histories are arbitrary finite lists of queries (no bound), over any list of
   definitions (no validity needed for the statements of this first part). *)
From Coq Require Import List Arith NArith Bool.
From AV Require Import Base.Util Spec.Lang Spec.FA Model.FARun Model.Decide Model.Subset Model.Minimize Model.HK
     Model.NFAOps Model.NFACache Proofs.FARun Proofs.Decide Proofs.HK Proofs.NFACache Props.P_C07 Props.P_C08.
Import ListNotations.

(* fresh instances satisfy the invariant "a memo, when filled, holds the table computed from scratch" *)
Theorem C20_nfa_cache_inv_init : forall defs, memo_inv defs (fresh_memos defs).
Proof. exact memo_inv_fresh. Qed.
Print Assumptions C20_nfa_cache_inv_init.

(* what the invariant says, instance by instance *)
Theorem C20_nfa_cache_inv_meaning : forall defs st i m cl, memo_inv defs st ->
  nth_error defs i = Some m -> nth_error st i = Some (Some cl) -> nfa_closures m = Ok cl.
Proof.
  intros defs st i m cl I Ei Es. destruct (inv_nth defs st i m I Ei) as [c [Ec Hc]].
  rewrite Es in Ec. inversion Ec. subst c. apply Hc. reflexivity.
Qed.
Print Assumptions C20_nfa_cache_inv_meaning.

(* every query keeps it *)
Theorem C20_nfa_cache_inv_step : forall defs st q, memo_inv defs st -> memo_inv defs (fst (nstep defs st q)).
Proof. intros defs st q I. exact (proj1 (step_ok defs st q I)). Qed.
Print Assumptions C20_nfa_cache_inv_step.

(* history independence: after ANY finite sequence of queries on the same instances, the answer to any
   query is the stateless answer *)
Theorem C20_nfa_history_independent : forall defs qs q,
  snd (nstep defs (fold_left (fun s q => fst (nstep defs s q)) qs (fresh_memos defs)) q) = npure defs q.
Proof. intros defs qs q. exact (nfa_history_independent defs qs q). Qed.
Print Assumptions C20_nfa_history_independent.

(* ... which is literally the first call on fresh instances *)
Theorem C20_nfa_same_as_first_call : forall defs qs q,
  snd (nstep defs (fold_left (fun s q => fst (nstep defs s q)) qs (fresh_memos defs)) q)
  = snd (nstep defs (fresh_memos defs) q).
Proof.
  intros defs qs q. rewrite <- pure_is_first_call. exact (nfa_history_independent defs qs q).
Qed.
Print Assumptions C20_nfa_same_as_first_call.

(* the same for every answer along the history *)
Theorem C20_nfa_answers_along_history : forall defs qs,
  nanswers defs (fresh_memos defs) qs = map (npure defs) qs.
Proof. intros defs qs. exact (nfa_answers_ok defs qs _ (memo_inv_fresh defs)). Qed.
Print Assumptions C20_nfa_answers_along_history.

(* the memo is not a fiction of the model: after a query that consults it the instance holds the table *)
Theorem C20_nfa_memo_filled : forall defs qs i m cl w,
  nth_error defs i = Some m -> nfa_closures m = Ok cl ->
  nth_error (fst (nstep defs (nrun_history defs (fresh_memos defs) qs) (NAccepts i w))) i = Some (Some cl).
Proof.
  intros defs qs i m cl w Ei Ecl. apply (memo_filled defs _ i m cl w); [|exact Ei|exact Ecl].
  apply run_history_inv. apply memo_inv_fresh.
Qed.
Print Assumptions C20_nfa_memo_filled.

(* ---- second part: valid NFAs; the answers are those of the stateless models of the other properties ---- *)

(* after ANY history the answer is the answer of the C01 reader / the C09 Hopcroft-Karp model / the C07
   subset construction (+ minimisation) / the C07-C08 eliminate_lambda and reverse models, none of which has
   a table or any other state (spec_answer, Model/NFACache.v) *)
Theorem C20_nfa_answers_are_stateless_models : forall defs qs q, forallb valid_nfa defs = true ->
  snd (nstep defs (fold_left (fun s q => fst (nstep defs s q)) qs (fresh_memos defs)) q) = spec_answer defs q.
Proof.
  intros defs qs q HV. rewrite <- (npure_spec defs q HV). exact (nfa_history_independent defs qs q).
Qed.
Print Assumptions C20_nfa_answers_are_stateless_models.

Theorem C20_nfa_answers_along_history_are_stateless_models : forall defs qs, forallb valid_nfa defs = true ->
  nanswers defs (fresh_memos defs) qs = map (spec_answer defs) qs.
Proof.
  intros defs qs HV. rewrite (nfa_answers_ok defs qs _ (memo_inv_fresh defs)).
  apply map_ext. intro q. exact (npure_spec defs q HV).
Qed.
Print Assumptions C20_nfa_answers_along_history_are_stateless_models.

(* the cached table is the per-state closure of every other model: for every state, its entry is the set of
   states reachable over empty-string moves *)
Theorem C20_nfa_cached_table_meaning : forall defs st i m cl p, memo_inv defs st ->
  nth_error defs i = Some m -> nth_error st i = Some (Some cl) -> valid_nfa m = true -> In p (n_states m) ->
  assoc p cl = Some (eclose m p) /\ forall q, In q (eclose m p) <-> nfa_path m p [] q.
Proof.
  intros defs st i m cl p I Ei Es Hv Hp.
  assert (Hcl : nfa_closures m = Ok cl) by (eapply C20_nfa_cache_inv_meaning; eassumption).
  split; [exact (table_lookup m cl p Hcl Hp)|]. exact (proj2 (eclose_spec m Hv p Hp)).
Qed.
Print Assumptions C20_nfa_cached_table_meaning.

(* tied to the languages (with C01, C09, C07, C08): whatever was asked before on the same instances,
   accepts_input is membership, a boolean answered by == is language equality, DFA.from_nfa (without
   minify) is a valid DFA of the same language, eliminate_lambda a valid NFA of the same language without
   empty-string moves, reverse a valid NFA of the reversed language *)
Theorem C20_nfa_language_after_any_history : forall defs qs, forallb valid_nfa defs = true ->
  let after q := snd (nstep defs (fold_left (fun s q => fst (nstep defs s q)) qs (fresh_memos defs)) q) in
  (forall i m w, nth_error defs i = Some m ->
     exists b, after (NAccepts i w) = NABool b /\ (b = true <-> L_nfa m w)) /\
  (forall i j A B b, nth_error defs i = Some A -> nth_error defs j = Some B ->
     after (NEq i j) = NABool b -> (b = true <-> L_nfa A =L L_nfa B)) /\
  (forall i m rn R, nth_error defs i = Some m -> after (NFromNfa i false rn) = NADfa R ->
     valid_dfa R = true /\ L_dfa R =L L_nfa m) /\
  (forall i m, nth_error defs i = Some m ->
     exists R, after (NElim i) = NANfa R /\ valid_nfa R = true /\ L_nfa R =L L_nfa m /\
               forall p q, ~ n_edge R p None q) /\
  (forall i m, nth_error defs i = Some m ->
     exists R, after (NReverse i) = NANfa R /\ valid_nfa R = true /\ L_nfa R =L l_rev (L_nfa m)).
Proof.
  intros defs qs HV after.
  assert (Ha : forall q, after q = spec_answer defs q)
    by (intro q; exact (C20_nfa_answers_are_stateless_models defs qs q HV)).
  split; [|split; [|split; [|split]]].
  - intros i m w Ei. rewrite Ha. simpl. rewrite Ei.
    destruct (nfa_accepts_spec m (nth_valid defs i m HV Ei) w) as [b [E Hb]].
    exists b. rewrite E. split; [reflexivity|exact Hb].
  - intros i j A B b Ei Ej H1. rewrite Ha in H1. simpl in H1. rewrite Ei, Ej in H1.
    destruct (nfa_hk_eq A B) as [b'|e] eqn:E; simpl in H1; [|discriminate]. inversion H1. subst b'.
    exact (nfa_hk_sound A B (nth_valid defs i A HV Ei) (nth_valid defs j B HV Ej)
             (fun _ _ => true) (n_syms A) (fun a => iff_refl _) b E).
  - intros i m rn R Ei H0. rewrite Ha in H0. simpl in H0. rewrite Ei in H0.
    destruct (determinize_m m) as [R'|e] eqn:E; simpl in H0; [|discriminate]. inversion H0. subst R'.
    destruct (C07_determinize_lang m R (nth_valid defs i m HV Ei) E) as [V [_ HL]]. split; assumption.
  - intros i m Ei. rewrite Ha. simpl. rewrite Ei.
    destruct (C07_eliminate_lambda m (nth_valid defs i m HV Ei)) as [R [E [V [HL [Hne _]]]]].
    exists R. rewrite E. split; [reflexivity|]. split; [exact V|]. split; [exact HL|exact Hne].
  - intros i m Ei. rewrite Ha. simpl. rewrite Ei.
    destruct (C08_reverse m (nth_valid defs i m HV Ei)) as [R [E [V HL]]].
    exists R. unfold ans_reverse. rewrite E. split; [reflexivity|]. split; [exact V|exact HL].
Qed.
Print Assumptions C20_nfa_language_after_any_history.

(* non-vacuity: two instances (A with empty-string moves 0 -> 1 and 2 -> 0; B one state); reverse and a
   generator abandoned before its first item leave the memo empty; accepts_input fills A's memo with the three
   closures; A == B fills B's memo too; the answers (membership, equality both ways round, yielded
   configurations, rejection seen only when more items are requested than are yielded) do not move when the
   queries are repeated later in the history; determinisation has 2 states, eliminate_lambda keeps the three
   names, reverse adds a fourth *)
Example C20_nfa_example :
  let A := mknfa [0;1;2] [0;1] [(0,[(None,[1]);(Some 0,[0])]);(1,[(Some 1,[2])]);(2,[(None,[0])])] 0 [2] in
  let B := mknfa [0] [0;1] [(0,[(Some 0,[0]);(Some 1,[0])])] 0 [0] in
  let defs := [A; B] in
  let bools := map (fun a => match a with NABool b => Some b | _ => None end) in
  forallb valid_nfa defs = true /\
  nrun_history defs (fresh_memos defs) [NReverse 0; NStepwise 0 [1] 0] = [None; None] /\
  nrun_history defs (fresh_memos defs) [NAccepts 0 [1]] = [Some [(0,[0;1]);(1,[1]);(2,[0;1;2])]; None] /\
  nrun_history defs (fresh_memos defs) [NEq 0 1] = [Some [(0,[0;1]);(1,[1]);(2,[0;1;2])]; Some [(0,[0])]] /\
  bools (nanswers defs (fresh_memos defs)
           [NAccepts 0 [1]; NEq 0 1; NEq 0 0; NAccepts 0 [0]; NEq 1 1; NEq 0 1; NAccepts 0 [1]])
    = [Some true; Some false; Some true; Some false; Some true; Some false; Some true] /\
  nanswers defs (fresh_memos defs) [NStepwise 0 [0;1] 2; NStepwise 0 [0] 5; NStepwise 0 [0;1] 9; NStepwise 0 [1] 0]
    = [NASets [[0;1];[0;1]]; NAErr Reject; NASets [[0;1];[0;1];[0;1;2]]; NASets []] /\
  match nanswers defs (fresh_memos defs) [NAccepts 0 [1]; NFromNfa 0 false true; NFromNfa 0 true false; NElim 0; NReverse 0] with
  | [_; NADfa d1; NADfa d2; NANfa e; NANfa r] =>
    length (d_states d1) = 2 /\ length (d_states d2) = 2 /\ n_states e = [0;1;2] /\ n_finals e = [2] /\
    n_states r = [0;1;2;3] /\ n_init r = 3
  | _ => False
  end.
Proof. vm_compute. repeat split. Qed.
