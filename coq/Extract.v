From Coq Require Extraction.
From Coq Require Import ExtrOcamlBasic.
From AV Require Import Dispatch.
Extraction "model.ml" Dispatch.dispatch.
