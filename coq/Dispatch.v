(* property number -> op code -> itree -> itree *)
From Coq Require Import List Arith NArith Bool.
From AV Require Import Base.ITree Model.D00 Model.D01 Model.D04 Model.D06 Model.D07.
From AV Require Import Base.ITree Model.D00 Model.D01.
From AV Require Import Model.D02.
From AV Require Import Model.D03.
From AV Require Import Model.D19.
Import ListNotations.

Definition dispatch (prop op : nat) (t : itree) : itree :=
  match prop with
  | 0 => d00 op t               (* op 0 = echo / self-test; shared comparators *)
  | 1 => d01 op t
  | 4 => d04 op t
  | 6 => d06 op t
  | 7 => d07 op t
  | 2 => d02 op t
  | 3 => d03 op t
  | 19 => d19 op t
  | _ => bad_input
  end.
