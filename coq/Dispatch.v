(* property number -> op code -> itree -> itree *)
From Coq Require Import List Arith NArith Bool.
From AV Require Import Base.ITree Model.D01.
Import ListNotations.

Definition dispatch (prop op : nat) (t : itree) : itree :=
  match prop with
  | 0 => t                      (* echo / self-test *)
  | 1 => d01 op t
  | _ => bad_input
  end.
