(* property number -> op code -> itree -> itree *)
From Coq Require Import List Arith NArith Bool.
From AV Require Import Base.ITree Model.D00 Model.D01.
From AV Require Import Model.D18.
From AV Require Import Model.D16.
Import ListNotations.

Definition dispatch (prop op : nat) (t : itree) : itree :=
  match prop with
  | 0 => d00 op t               (* op 0 = echo / self-test; shared comparators *)
  | 1 => d01 op t
  | 18 => d18 op t
  | 16 => d16 op t
  | _ => bad_input
  end.
