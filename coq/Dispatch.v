(* property number -> op code -> itree -> itree *)
From Coq Require Import List Arith NArith Bool.
From AV Require Import Base.ITree Model.D00 Model.D01 Model.D06.
From AV Require Import Model.D10.
Import ListNotations.

Definition dispatch (prop op : nat) (t : itree) : itree :=
  match prop with
  | 0 => d00 op t               (* op 0 = echo / self-test; shared comparators *)
  | 1 => d01 op t
  | 6 => d06 op t
  | 10 => d10 op t              (* C10 and C11 share the regex ops *)
  | 11 => d10 op t
  | _ => bad_input
  end.
