(* property number -> op code -> itree -> itree *)
From Coq Require Import List Arith NArith Bool.
From AV Require Import Base.ITree Model.D00 Model.D01 Model.D04 Model.D06 Model.D07.
From AV Require Import Base.ITree Model.D00 Model.D01.
From AV Require Import Model.D02.
From AV Require Import Model.D03.
From AV Require Import Model.D08.
From AV Require Import Model.D13.
From AV Require Import Model.D20.
From AV Require Import Model.D05.
From AV Require Import Model.D17.
From AV Require Import Base.ITree Model.D00 Model.D01 Model.D04 Model.D06 Model.D07 Model.D12.
From AV Require Import Base.ITree Model.D00 Model.D01 Model.D04 Model.D06 Model.D07 Model.D14.
From AV Require Import Model.D18.
From AV Require Import Model.D16.
From AV Require Import Base.ITree Model.D00 Model.D01 Model.D06.
From AV Require Import Model.D10.
From AV Require Import Base.ITree Model.D00 Model.D01 Model.D04 Model.D06 Model.D07 Model.D15.
From AV Require Import Model.D19.
Import ListNotations.

Definition dispatch (prop op : nat) (t : itree) : itree :=
  match prop with
  | 0 => d00 op t               (* op 0 = echo / self-test; shared comparators *)
  | 1 => d01 op t
  | 4 => d04 op t
  | 6 => d06 op t
  | 7 => d07 op t
  | 2 => d02 op t
  | 3 => d03 op t
  | 8 => d08 op t
  | 13 => d13 op t
  | 20 => d20 op t
  | 5 => d05 op t
  | 17 => d17 op t
  | 12 => d12 op t
  | 14 => d14 op t
  | 18 => d18 op t
  | 16 => d16 op t
  | 10 => d10 op t              (* C10 and C11 share the regex ops *)
  | 11 => d10 op t
  | 15 => d15 op t
  | 19 => d19 op t
  | _ => bad_input
  end.
