(* All words of a given length over an alphabet, in lexicographic order, and the
   (length, lexicographic) order the iteration properties talk about. *)
From Coq Require Import List Arith Bool Lia Sorted.
From AV Require Import Base.Util Spec.Lang.
Import ListNotations.

Fixpoint all_words (syms : list nat) (k : nat) : list word :=
  match k with
  | 0 => [[]]
  | S k' => flat_map (fun a => map (cons a) (all_words syms k')) syms
  end.

(* strict lexicographic order on words (a proper prefix comes first) *)
Inductive lex_lt : word -> word -> Prop :=
| lex_nil a v : lex_lt [] (a :: v)
| lex_head a b u v : a < b -> lex_lt (a :: u) (b :: v)
| lex_tail a u v : lex_lt u v -> lex_lt (a :: u) (a :: v).

(* length first, then lexicographic *)
Definition ll_lt (u v : word) : Prop :=
  length u < length v \/ (length u = length v /\ lex_lt u v).

Lemma lex_lt_irrefl w : ~ lex_lt w w.
Proof.
  induction w as [|a w IH]; intro H; inversion H; subst; [lia|]. apply IH. assumption.
Qed.

Lemma lex_lt_trans u v w : lex_lt u v -> lex_lt v w -> lex_lt u w.
Proof.
  intro H. revert w. induction H as [a v|a b u v Hab|a u v Huv IH]; intros w Hw.
  - inversion Hw; subst; constructor.
  - inversion Hw; subst; [apply lex_head; lia|apply lex_head; assumption].
  - inversion Hw; subst; [apply lex_head; assumption|apply lex_tail; apply IH; assumption].
Qed.

Lemma ll_lt_irrefl w : ~ ll_lt w w.
Proof. intros [H|[_ H]]; [lia|exact (lex_lt_irrefl _ H)]. Qed.

Lemma ll_lt_trans u v w : ll_lt u v -> ll_lt v w -> ll_lt u w.
Proof.
  intros [H1|[H1 H1']] [H2|[H2 H2']]; try (left; lia).
  right. split; [lia|eapply lex_lt_trans; eassumption].
Qed.

Section SortedLists.
  Variable A : Type.
  Variable R : A -> A -> Prop.

  Lemma ss_app (l1 l2 : list A) :
    StronglySorted R l1 -> StronglySorted R l2 ->
    (forall x y, In x l1 -> In y l2 -> R x y) -> StronglySorted R (l1 ++ l2).
  Proof.
    induction l1 as [|a l1 IH]; simpl; intros H1 H2 H; [exact H2|].
    apply StronglySorted_inv in H1. destruct H1 as [H1 Ha].
    constructor.
    - apply IH; [exact H1|exact H2|]. intros x y Hx Hy. apply H; [right; exact Hx|exact Hy].
    - apply Forall_forall. intros y Hy. apply in_app_or in Hy. destruct Hy as [Hy|Hy].
      + rewrite Forall_forall in Ha. apply Ha. exact Hy.
      + apply H; [left; reflexivity|exact Hy].
  Qed.

  Lemma ss_filter (f : A -> bool) (l : list A) : StronglySorted R l -> StronglySorted R (filter f l).
  Proof.
    induction l as [|a l IH]; simpl; intro H; [constructor|].
    apply StronglySorted_inv in H. destruct H as [H Ha].
    destruct (f a); [|apply IH; exact H].
    constructor; [apply IH; exact H|]. apply Forall_forall. intros y Hy.
    apply filter_In in Hy. rewrite Forall_forall in Ha. apply Ha. tauto.
  Qed.

  Lemma in_firstn n (l : list A) x : In x (firstn n l) -> In x l.
  Proof.
    revert n. induction l as [|a l IH]; intros [|n]; simpl; try tauto.
    intros [H|H]; [left; exact H|right; eapply IH; exact H].
  Qed.

  Lemma ss_firstn n (l : list A) : StronglySorted R l -> StronglySorted R (firstn n l).
  Proof.
    revert n. induction l as [|a l IH]; intros [|n] H; simpl; try constructor.
    - apply StronglySorted_inv in H. apply IH. tauto.
    - apply StronglySorted_inv in H. destruct H as [_ Ha]. apply Forall_forall. intros y Hy.
      rewrite Forall_forall in Ha. apply Ha. eapply in_firstn. exact Hy.
  Qed.

  Lemma ss_NoDup (l : list A) : (forall x, ~ R x x) -> StronglySorted R l -> NoDup l.
  Proof.
    intros Hirr. induction l as [|a l IH]; intro H; [constructor|].
    apply StronglySorted_inv in H. destruct H as [H Ha]. constructor; [|apply IH; exact H].
    intro Hin. rewrite Forall_forall in Ha. exact (Hirr _ (Ha _ Hin)).
  Qed.
End SortedLists.

Lemma ss_map_cons a l : StronglySorted lex_lt l -> StronglySorted lex_lt (map (cons a) l).
Proof.
  induction l as [|w l IH]; simpl; intro H; [constructor|].
  apply StronglySorted_inv in H. destruct H as [H Hw]. constructor; [apply IH; exact H|].
  apply Forall_forall. intros y Hy. apply in_map_iff in Hy. destruct Hy as [v [<- Hv]].
  apply lex_tail. rewrite Forall_forall in Hw. apply Hw. exact Hv.
Qed.

Lemma ss_flat_cons (W : list word) (l : list nat) :
  StronglySorted lex_lt W -> ssorted l ->
  StronglySorted lex_lt (flat_map (fun a => map (cons a) W) l).
Proof.
  intros HW. induction l as [|a l IH]; simpl; intro Hl; [constructor|].
  apply ss_app.
  - apply ss_map_cons. exact HW.
  - apply IH. eapply ssorted_tail. exact Hl.
  - intros x y Hx Hy. apply in_map_iff in Hx. destruct Hx as [u [<- _]].
    apply in_flat_map in Hy. destruct Hy as [b [Hb Hy]].
    apply in_map_iff in Hy. destruct Hy as [v [<- _]].
    apply lex_head. eapply ssorted_lt; eassumption.
Qed.

Lemma all_words_sorted syms k : ssorted syms -> StronglySorted lex_lt (all_words syms k).
Proof.
  intro Hs. induction k as [|k IH]; simpl.
  - constructor; [constructor|constructor].
  - apply ss_flat_cons; assumption.
Qed.

Lemma all_words_NoDup syms k : ssorted syms -> NoDup (all_words syms k).
Proof. intro Hs. eapply ss_NoDup; [exact lex_lt_irrefl|apply all_words_sorted; exact Hs]. Qed.

(* complete: exactly the words of length k over syms *)
Lemma all_words_In syms k w :
  In w (all_words syms k) <-> length w = k /\ Forall (fun a => In a syms) w.
Proof.
  revert w. induction k as [|k IH]; intro w; simpl.
  - split.
    + intros [<-|[]]. split; [reflexivity|constructor].
    + intros [H _]. left. destruct w; [reflexivity|discriminate].
  - rewrite in_flat_map. split.
    + intros [a [Ha Hw]]. apply in_map_iff in Hw. destruct Hw as [v [<- Hv]].
      apply IH in Hv. destruct Hv as [Hl Hf]. split; [simpl; lia|constructor; assumption].
    + intros [Hl Hf]. destruct w as [|a v]; [discriminate|]. inversion Hf; subst.
      exists a. split; [assumption|]. apply in_map. apply IH. split; [simpl in Hl; lia|assumption].
Qed.

Lemma all_words_length syms k w : In w (all_words syms k) -> length w = k.
Proof. intro H. apply all_words_In in H. tauto. Qed.
