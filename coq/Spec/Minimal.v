(* Minimality of a DFA among the DFAs of its own kind (complete / partial) over the same
   alphabet accepting the same language. *)
From Coq Require Import List Arith Bool.
From AV Require Import Base.Util Spec.Lang Spec.FA.
Import ListNotations.

Definition minimal_complete (m : dfa) : Prop :=
  forall m', valid_dfa m' = true -> complete m' -> d_syms m' = d_syms m ->
             L_dfa m' =L L_dfa m -> size m <= size m'.

Definition minimal_partial (m : dfa) : Prop :=
  forall m', valid_dfa m' = true -> d_syms m' = d_syms m ->
             L_dfa m' =L L_dfa m -> size m <= size m'.

(* a state from which no word is accepted *)
Definition dead_state (m : dfa) (q : nat) : Prop := forall w, dfa_acc_from m (Some q) w = false.
