(* Textbook Turing machines: transition tables, the bi-infinite tape as a function
   from head-relative positions (Z) to symbols, one-step and k-step semantics for
   deterministic, nondeterministic and multitape machines.
   No functional extensionality: tapes are compared pointwise ([zeq]). *)
From Coq Require Import List Arith ZArith Bool Lia.
From AV Require Import Base.Util.
Import ListNotations.

Inductive dir := DL | DR | DN.

Definition doff (d : dir) : Z :=
  match d with DL => (-1)%Z | DR => 1%Z | DN => 0%Z end.

Definition eqb_dir (a b : dir) : bool :=
  match a, b with DL, DL | DR, DR | DN, DN => true | _, _ => false end.

(* (new state, symbol written, head move) *)
Definition act := (nat * nat * dir)%type.

(* ---------- the bi-infinite tape, head at position 0 ---------- *)
Definition ztape := Z -> nat.
Definition zeq (a b : ztape) : Prop := forall z, a z = b z.

Definition zwrite (t : ztape) (s : nat) : ztape :=
  fun z => if Z.eqb z 0 then s else t z.
(* moving the head right by one makes the old cell +1 the new cell 0 *)
Definition zmove (d : dir) (t : ztape) : ztape := fun z => t (z + doff d)%Z.
Definition zact (t : ztape) (s : nat) (d : dir) : ztape := zmove d (zwrite t s).

(* input written from cell 0 rightwards, head on its first symbol, blank elsewhere *)
Definition zinput (blank : nat) (w : list nat) : ztape :=
  fun z => if Z.ltb z 0 then blank else nth (Z.to_nat z) w blank.
Definition zblank (blank : nat) : ztape := fun _ => blank.

Definition zcfg := (nat * ztape)%type.
Definition zcfg_eq (c c' : zcfg) : Prop := fst c = fst c' /\ zeq (snd c) (snd c').

(* ---------- deterministic machine ---------- *)
Record dtm := mkdtm {
  dt_trans  : list (nat * list (nat * act));   (* state -> read symbol -> action *)
  dt_init   : nat;
  dt_blank  : nat;
  dt_finals : list nat }.

Definition dt_delta (m : dtm) (q s : nat) : option act :=
  match assoc q (dt_trans m) with
  | None => None
  | Some row => assoc s row
  end.

Definition dstep (m : dtm) (c : zcfg) : option zcfg :=
  match dt_delta m (fst c) (snd c 0%Z) with
  | Some (q', s, d) => Some (q', zact (snd c) s d)
  | None => None
  end.

(* k applications of the transition function *)
Fixpoint dsteps (m : dtm) (k : nat) (c : zcfg) : option zcfg :=
  match k with
  | 0 => Some c
  | S k' => match dstep m c with
            | Some c' => dsteps m k' c'
            | None => None
            end
  end.

Definition dt_start (m : dtm) (w : list nat) : zcfg := (dt_init m, zinput (dt_blank m) w).
Definition dt_final (m : dtm) (c : zcfg) : Prop := In (fst c) (dt_finals m).

(* final states carry no transitions (the library validates this) *)
Definition valid_dtm (m : dtm) : bool :=
  forallb (fun q => negb (memb q (map fst (dt_trans m)))) (dt_finals m).

(* ---------- nondeterministic machine ---------- *)
Record ntm := mkntm {
  nt_trans  : list (nat * list (nat * list act));
  nt_init   : nat;
  nt_blank  : nat;
  nt_finals : list nat }.

Definition nt_delta (m : ntm) (q s : nat) : list act :=
  match assoc q (nt_trans m) with
  | None => []
  | Some row => match assoc s row with None => [] | Some l => l end
  end.

Definition nstep (m : ntm) (c c' : zcfg) : Prop :=
  exists q' s d, In (q', s, d) (nt_delta m (fst c) (snd c 0%Z)) /\
                 fst c' = q' /\ zeq (snd c') (zact (snd c) s d).

(* reachable in exactly k moves (up to pointwise tape equality) *)
Inductive nreach (m : ntm) : nat -> zcfg -> zcfg -> Prop :=
| nr_0 c c' : zcfg_eq c c' -> nreach m 0 c c'
| nr_S k c c1 c' : nstep m c c1 -> nreach m k c1 c' -> nreach m (S k) c c'.

Definition nt_start (m : ntm) (w : list nat) : zcfg := (nt_init m, zinput (nt_blank m) w).
Definition nt_final (m : ntm) (c : zcfg) : Prop := In (fst c) (nt_finals m).

Definition valid_ntm (m : ntm) : bool :=
  forallb (fun q => negb (memb q (map fst (nt_trans m)))) (nt_finals m).

(* the same table given as a nondeterministic machine *)
Definition ntm_of_dtm (m : dtm) : ntm :=
  mkntm (map (fun qr => (fst qr, map (fun sa => (fst sa, [snd sa])) (snd qr))) (dt_trans m))
        (dt_init m) (dt_blank m) (dt_finals m).

(* ---------- multitape nondeterministic machine ---------- *)
Definition mmove := (nat * dir)%type.              (* symbol written, head move: one per tape *)
Definition malt := (nat * list mmove)%type.        (* next state, per-tape moves *)

Record mntm := mkmntm {
  mt_n      : nat;
  mt_trans  : list (nat * list (list nat * list malt));  (* state -> read tuple -> alternatives *)
  mt_init   : nat;
  mt_blank  : nat;
  mt_finals : list nat }.

Fixpoint assocl {B} (k : list nat) (l : list (list nat * B)) : option B :=
  match l with
  | [] => None
  | (k', v) :: r => if eqb_list Nat.eqb k k' then Some v else assocl k r
  end.

Definition mt_delta (m : mntm) (q : nat) (ss : list nat) : option (list malt) :=
  match assoc q (mt_trans m) with
  | None => None
  | Some row => assocl ss row
  end.

Definition mzcfg := (nat * list ztape)%type.
Definition mzcfg_eq (c c' : mzcfg) : Prop := fst c = fst c' /\ Forall2 zeq (snd c) (snd c').

Definition zheads (ts : list ztape) : list nat := map (fun t => t 0%Z) ts.
(* tape i gets move i *)
Definition zapply (mv : list mmove) (ts : list ztape) : list ztape :=
  map (fun p => zact (snd p) (fst (fst p)) (snd (fst p))) (combine mv ts).

Definition mstep (m : mntm) (c c' : mzcfg) : Prop :=
  exists alts q' mv, mt_delta m (fst c) (zheads (snd c)) = Some alts /\ In (q', mv) alts /\
                     fst c' = q' /\ Forall2 zeq (snd c') (zapply mv (snd c)).

Inductive mreach (m : mntm) : nat -> mzcfg -> mzcfg -> Prop :=
| mr_0 c c' : mzcfg_eq c c' -> mreach m 0 c c'
| mr_S k c c1 c' : mstep m c c1 -> mreach m k c1 c' -> mreach m (S k) c c'.

(* input on the first tape, the others blank *)
Definition mt_start (m : mntm) (w : list nat) : mzcfg :=
  (mt_init m, zinput (mt_blank m) w :: repeat (zblank (mt_blank m)) (mt_n m - 1)).
Definition mt_final (m : mntm) (c : mzcfg) : Prop := In (fst c) (mt_finals m).

(* final states carry no transitions.  (An entry whose list of alternatives is empty is allowed: the
   repaired run treats it like a missing entry, and mstep has no step from it.) *)
Definition valid_mntm (m : mntm) : bool :=
  forallb (fun q => negb (memb q (map fst (mt_trans m)))) (mt_finals m).

(* the same deterministic table given as a one-tape multitape machine *)
Definition mntm_of_dtm (m : dtm) : mntm :=
  mkmntm 1
    (map (fun qr => (fst qr,
            map (fun sa => ([fst sa],
                   [(fst (fst (snd sa)), [(snd (fst (snd sa)), snd (snd sa))])])) (snd qr)))
         (dt_trans m))
    (dt_init m) (dt_blank m) (dt_finals m).
