(* C16 - which words are within a number of edits of a reference word.
   A derivation walks the reference word left to right and produces the target word:
     match         copy the next reference symbol                          cost 0
     insertion     emit a symbol of the alphabet, reference not advanced   cost 1   (if enabled)
     deletion      skip the next reference symbol                          cost 1   (if enabled)
     substitution  replace the next reference symbol by ANY alphabet symbol cost 1  (if enabled;
                   as in the code, replacing a symbol by itself also costs 1)
   [within ref w k] = some derivation of total cost <= k. *)
From Coq Require Import List Arith Bool Lia.
From AV Require Import Spec.Lang.
Import ListNotations.

Section Edits.
  Variable syms : list nat.
  Variables ins del sub : bool.

  Inductive edits : word -> word -> nat -> Prop :=
  | ed_nil : edits [] [] 0
  | ed_match c r w n : edits r w n -> edits (c :: r) (c :: w) n
  | ed_ins a r w n : ins = true -> In a syms -> edits r w n -> edits r (a :: w) (S n)
  | ed_del c r w n : del = true -> edits r w n -> edits (c :: r) w (S n)
  | ed_sub c a r w n : sub = true -> In a syms -> edits r w n -> edits (c :: r) (a :: w) (S n).

  Definition within (ref w : word) (k : nat) : Prop := exists n, n <= k /\ edits ref w n.
End Edits.

(* the classical Levenshtein distance (recursive definition), used to cross-check the
   derivation relation when all three kinds are enabled *)
Fixpoint lev (r : word) : word -> nat :=
  match r with
  | [] => fun w => length w
  | c :: r' =>
    fix lev_r (w : word) : nat :=
      match w with
      | [] => S (length r')
      | a :: w' => Nat.min (if Nat.eqb c a then lev r' w' else S (lev r' w'))
                           (Nat.min (S (lev_r w')) (S (lev r' w)))
      end
  end.
