(* C02, fuel sufficiency: a decidable condition on a PDA table under which empty-string moves
   cannot run forever, and the explicit step bound it gives.

   [eps_ranked rank N m]: every empty-string move of the table either pops without pushing, or
   replaces the top by exactly one symbol and moves to a state of strictly larger rank (ranks are
   capped at N).  With rank = (fun _ => 0), N = 0 this is [eps_shrinking]: every empty-string move
   pops without pushing (the harness generator's policy "shrink"); with rank = position of the
   state in the generator's state list it is the policy "rank".  Symbol moves are unrestricted. *)
From Coq Require Import List Arith Bool.
From AV Require Import Base.Util Spec.Lang Spec.FA Spec.PDA.
Import ListNotations.

(* the table flattened into rules (q, a, Z, q', push) *)
Definition rules_of (m : pda) : list prule :=
  flat_map (fun qr =>
    flat_map (fun ar =>
      flat_map (fun zt => map (fun mv => (fst qr, fst ar, fst zt, fst mv, snd mv)) (snd zt))
               (snd ar))
      (snd qr))
    (p_trans m).

Definition rule_push (r : prule) : list nat := snd r.

(* the longest string any move pushes *)
Definition max_push (m : pda) : nat := fold_right Nat.max 0 (map (fun r => length (rule_push r)) (rules_of m)).

Definition crank (rank : nat -> nat) (N : nat) (q : nat) : nat := Nat.min (rank q) N.

Definition eps_rule_ok (rank : nat -> nat) (N : nat) (r : prule) : bool :=
  let '(q, a, _, q', push) := r in
  match a with
  | Some _ => true
  | None => match push with
            | [] => true
            | [_] => Nat.ltb (crank rank N q) (crank rank N q')
            | _ => false
            end
  end.

Definition eps_ranked (rank : nat -> nat) (N : nat) (m : pda) : bool :=
  forallb (eps_rule_ok rank N) (rules_of m).

(* every empty-string move pops without pushing *)
Definition eps_shrinking (m : pda) : bool := eps_ranked (fun _ => 0) 0 m.

(* the potential that every move strictly decreases (stack height counted in units of N+1,
   remaining input in units of (max_push+1)(N+1)) *)
Definition pda_potential (rank : nat -> nat) (N : nat) (m : pda) (c : sconf) : nat :=
  let '(q, w, s) := c in
  length w * (S (max_push m) * S N) + length s * S N + (N - crank rank N q).

(* enough fuel for every run on w from the one-symbol initial stack *)
Definition pda_fuel_bound (N : nat) (m : pda) (w : word) : nat :=
  length w * (S (max_push m) * S N) + 2 * S N.
