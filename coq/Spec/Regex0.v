(* Minimal regular-expression AST and its denotation, as needed by state elimination (C12).
   (The full surface syntax of the library's regex language is Spec/Regex.v, property C10.) *)
From Coq Require Import List Arith Bool.
From AV Require Import Spec.Lang.
Import ListNotations.

Inductive rex :=
| REmpty                 (* no string at all *)
| REps                   (* the empty string *)
| RSym (a : nat)
| RUnion (r s : rex)
| RCat (r s : rex)
| RStar (r : rex).

Fixpoint rden (r : rex) : lang :=
  match r with
  | REmpty => l_empty
  | REps => l_eps
  | RSym a => fun w => w = [a]
  | RUnion r s => l_union (rden r) (rden s)
  | RCat r s => l_cat (rden r) (rden s)
  | RStar r => l_star (rden r)
  end.
