(* Regular expressions of automata.regex: abstract syntax and denotation.
   Symbols are nat (the harness uses the character code of the symbol).
   The wildcard ranges over the alphabet handed to the compiler. *)
From Coq Require Import List Arith Bool.
From AV Require Import Spec.Lang.
Import ListNotations.

Inductive re :=
| REps                       (* "()" : the empty string *)
| RSym (a : nat)             (* a single non-reserved character *)
| RAny                       (* "." *)
| RUnion (r s : re)          (* r|s *)
| RInter (r s : re)          (* r&s *)
| RShuffle (r s : re)        (* r^s *)
| RCat (r s : re)            (* rs *)
| RStar (r : re)             (* r* *)
| RPlus (r : re)             (* r+ *)
| ROpt (r : re)              (* r? *)
| RRep (r : re) (lo : nat) (hi : option nat).   (* r{lo,hi}  r{lo,}  r{,hi} (lo = 0) *)

Fixpoint l_pow (A : lang) (k : nat) : lang :=
  match k with 0 => l_eps | S k' => l_cat A (l_pow A k') end.

Definition le_opt (k : nat) (hi : option nat) : Prop :=
  match hi with None => True | Some h => k <= h end.

Definition l_rep (A : lang) (lo : nat) (hi : option nat) : lang :=
  fun w => exists k, lo <= k /\ le_opt k hi /\ l_pow A k w.

Definition l_sym (a : nat) : lang := fun w => w = [a].
Definition l_any (sigma : list nat) : lang := fun w => exists a, In a sigma /\ w = [a].

Fixpoint den (sigma : list nat) (r : re) : lang :=
  match r with
  | REps => l_eps
  | RSym a => l_sym a
  | RAny => l_any sigma
  | RUnion r s => l_union (den sigma r) (den sigma s)
  | RInter r s => l_inter (den sigma r) (den sigma s)
  | RShuffle r s => l_shuffle (den sigma r) (den sigma s)
  | RCat r s => l_cat (den sigma r) (den sigma s)
  | RStar r => l_star (den sigma r)
  | RPlus r => l_cat (den sigma r) (l_star (den sigma r))
  | ROpt r => l_opt (den sigma r)
  | RRep r lo hi => l_rep (den sigma r) lo hi
  end.
