(* Languages as predicates over words; textbook language operations. *)
From Coq Require Import List Arith Bool.
Import ListNotations.

Definition word := list nat.
Definition lang := word -> Prop.
Definition lang_eq (L1 L2 : lang) : Prop := forall w, L1 w <-> L2 w.
Notation "A =L B" := (lang_eq A B) (at level 70).

Definition l_empty : lang := fun _ => False.
Definition l_eps : lang := fun w => w = [].
Definition l_union (A B : lang) : lang := fun w => A w \/ B w.
Definition l_inter (A B : lang) : lang := fun w => A w /\ B w.
Definition l_diff  (A B : lang) : lang := fun w => A w /\ ~ B w.
Definition l_symdiff (A B : lang) : lang := fun w => (A w /\ ~ B w) \/ (B w /\ ~ A w).
Definition l_compl (S : list nat) (A : lang) : lang :=
  fun w => Forall (fun a => In a S) w /\ ~ A w.
Definition l_cat   (A B : lang) : lang := fun w => exists u v, w = u ++ v /\ A u /\ B v.
Inductive  l_star  (A : lang) : lang :=
| star_nil : l_star A []
| star_app u v : A u -> l_star A v -> l_star A (u ++ v).
Definition l_opt (A : lang) : lang := fun w => w = [] \/ A w.
Definition l_rev   (A : lang) : lang := fun w => A (rev w).
Definition l_rquot (A B : lang) : lang := fun w => exists v, B v /\ A (w ++ v).
Definition l_lquot (A B : lang) : lang := fun w => exists u, B u /\ A (u ++ w).
Inductive shuffle : word -> word -> word -> Prop :=
| sh_nil : shuffle [] [] []
| sh_l a u v w : shuffle u v w -> shuffle (a :: u) v (a :: w)
| sh_r a u v w : shuffle u v w -> shuffle u (a :: v) (a :: w).
Definition l_shuffle (A B : lang) : lang := fun w => exists u v, A u /\ B v /\ shuffle u v w.

Lemma lang_eq_refl A : A =L A. Proof. intro w; tauto. Qed.
Lemma lang_eq_sym A B : A =L B -> B =L A. Proof. intros H w; split; apply H. Qed.
Lemma lang_eq_trans A B C : A =L B -> B =L C -> A =L C.
Proof. intros H1 H2 w. rewrite (H1 w). apply H2. Qed.
