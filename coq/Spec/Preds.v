(* Predicates on words that the language constructors of DFA (C15) promise to recognise,
   declaratively, and boolean versions (specs in Proofs/Preds.v). *)
From Coq Require Import List Arith Bool.
From AV Require Import Base.Util Spec.Lang.
Import ListNotations.

(* ---- declarative ---- *)
Definition has_prefix (p w : word) : Prop := exists v, w = p ++ v.
Definition has_suffix (p w : word) : Prop := exists u, w = u ++ p.
Definition contains_substring (p w : word) : Prop := exists u v, w = u ++ p ++ v.

(* subseq p w: p is obtained from w by deleting symbols *)
Inductive subseq : word -> word -> Prop :=
| subseq_nil w : subseq [] w
| subseq_skip p a w : subseq p w -> subseq p (a :: w)
| subseq_take a p w : subseq p w -> subseq (a :: p) (a :: w).

(* number of symbols of w that are counted *)
Definition counted (cs : list nat) (w : word) : nat := length (filter (fun a => memb a cs) w).

Definition length_in_range (cs : list nat) (lo : nat) (hi : option nat) (w : word) : Prop :=
  lo <= counted cs w /\ match hi with Some h => counted cs w <= h | None => True end.
Definition count_mod_in (cs : list nat) (k : nat) (rems : list nat) (w : word) : Prop :=
  In (counted cs w mod k) rems.

(* the n-th symbol (n >= 1) from the start / from the end is s *)
Definition nth_from_start_is (s n : nat) (w : word) : Prop :=
  exists u v, w = u ++ s :: v /\ S (length u) = n.
Definition nth_from_end_is (s n : nat) (w : word) : Prop :=
  exists u v, w = u ++ s :: v /\ S (length v) = n.

Definition member_of (lang : list word) (w : word) : Prop := In w lang.
Definition contains_any (pats : list word) (w : word) : Prop := exists p, In p pats /\ contains_substring p w.
Definition ends_with_any (pats : list word) (w : word) : Prop := exists p, In p pats /\ has_suffix p w.

(* ---- boolean ---- *)
Definition overb (syms : list nat) (w : word) : bool := forallb (fun a => memb a syms) w.

Fixpoint prefixb (p w : word) : bool :=
  match p, w with
  | [], _ => true
  | a :: p', b :: w' => Nat.eqb a b && prefixb p' w'
  | _ :: _, [] => false
  end.

Definition suffixb (p w : word) : bool := prefixb (rev p) (rev w).

Fixpoint substringb (p w : word) : bool :=
  prefixb p w || match w with [] => false | _ :: w' => substringb p w' end.

(* greedy left-to-right matching *)
Fixpoint subseqb (p w : word) {struct w} : bool :=
  match w with
  | [] => match p with [] => true | _ :: _ => false end
  | b :: w' => match p with
               | [] => true
               | a :: p' => if Nat.eqb a b then subseqb p' w' else subseqb p w'
               end
  end.

Definition rangeb (cs : list nat) (lo : nat) (hi : option nat) (w : word) : bool :=
  Nat.leb lo (counted cs w) && match hi with Some h => Nat.leb (counted cs w) h | None => true end.
Definition modb (cs : list nat) (k : nat) (rems : list nat) (w : word) : bool :=
  memb (counted cs w mod k) rems.

Definition nth_startb (s n : nat) (w : word) : bool :=
  match n with
  | 0 => false
  | S i => match nth_error w i with Some c => Nat.eqb c s | None => false end
  end.
Definition nth_endb (s n : nat) (w : word) : bool := nth_startb s n (rev w).

Definition memberb (lang : list word) (w : word) : bool := existsb (eqb_list Nat.eqb w) lang.
Definition anysubb (pats : list word) (w : word) : bool := existsb (fun p => substringb p w) pats.
Definition anysufb (pats : list word) (w : word) : bool := existsb (fun p => suffixb p w) pats.

(* "complement is requested": flag c = contains *)
Definition flagb (c b : bool) : bool := if c then b else negb b.

(* the language a constructor promises: words over the alphabet satisfying P (or not P) *)
Definition word_over (syms : list nat) (w : word) : Prop := Forall (fun a => In a syms) w.
Definition flagP (c : bool) (P : Prop) : Prop := if c then P else ~ P.
Definition promised (syms : list nat) (c : bool) (P : word -> Prop) : lang :=
  fun w => word_over syms w /\ flagP c (P w).
